(* C01 — MultiStream.copy_flow with removal *)
From V Require Import Common.NumFacts C01.Model C01.Proofs C01.ProofsMulti C01.ProofsMix C01.ProofsOps.

Lemma nthq_set_at (d : vec) idx (v : vec) j :
  nthq (set_at d idx v) j =
  if existsb (Nat.eqb j) idx && Nat.ltb j (length d) then nthq v j else nthq d j.
Proof.
  unfold set_at. revert d; induction idx as [|i idx IH]; intros d; simpl; [reflexivity|].
  rewrite IH. rewrite upd_length. rewrite nthq_upd.
  destruct (Nat.eqb j i) eqn:E.
  - apply Nat.eqb_eq in E. subst i. simpl. rewrite Nat.eqb_refl.
    destruct (Nat.ltb j (length d)); [|rewrite andb_false_r; reflexivity].
    rewrite andb_true_r. destruct (existsb (Nat.eqb j) idx); reflexivity.
  - simpl. rewrite Nat.eqb_sym, E. reflexivity.
Qed.
Lemma set_at_length (d : vec) idx v : length (set_at d idx v) = length d.
Proof. unfold set_at. revert d; induction idx; intros d; simpl; auto. rewrite IHidx. apply upd_length. Qed.
Lemma nthq_zero_at (d : vec) idx j :
  nthq (zero_at d idx) j = if existsb (Nat.eqb j) idx && Nat.ltb j (length d) then 0 else nthq d j.
Proof.
  unfold zero_at. revert d; induction idx as [|i idx IH]; intros d; simpl; [reflexivity|].
  rewrite IH. rewrite upd_length. rewrite nthq_upd.
  destruct (Nat.eqb j i) eqn:E.
  - apply Nat.eqb_eq in E. subst i. simpl. rewrite Nat.eqb_refl.
    destruct (Nat.ltb j (length d)); [|rewrite andb_false_r; reflexivity].
    rewrite andb_true_r. destruct (existsb (Nat.eqb j) idx); reflexivity.
  - simpl. rewrite Nat.eqb_sym, E. reflexivity.
Qed.
Lemma zero_at_length (d : vec) idx : length (zero_at d idx) = length d.
Proof. unfold zero_at. revert d; induction idx; intros d; simpl; auto. rewrite IHidx. apply upd_length. Qed.

(* what is written into an empty row plus what is left in the source is the source row *)
Lemma move_cells pk n idx (v : vec) c : length v = n ->
  getc pk (set_at (vzero n) idx v) c + getc pk (zero_at v idx) c == getc pk v c.
Proof.
  intros L. unfold getc. destruct (index_of c (cas pk)) as [j|]; [|lra].
  rewrite nthq_set_at, nthq_zero_at, vzero_length, L, nthq_vzero.
  destruct (existsb (Nat.eqb j) idx && Nat.ltb j n) eqn:E; [lra|].
  lra.
Qed.

Lemma list_eqb_nat_eq a b : list_eqb Nat.eqb a b = true -> a = b.
Proof.
  revert b; induction a as [|x a IH]; intros [|y b] H; simpl in H; try discriminate; auto.
  apply andb_true_iff in H. destruct H as [H1 H2]. apply Nat.eqb_eq in H1. subst. f_equal. auto.
Qed.
Lemma same_ids_cas a b : same_ids a b = true -> coherent a b -> cas a = cas b.
Proof.
  unfold same_ids. intros H CO. apply orb_true_iff in H. destruct H as [H|H].
  - rewrite (same_pkg_eq _ _ H CO). reflexivity.
  - apply list_eqb_nat_eq; auto.
Qed.
Lemma getc_cas a b row c : cas a = cas b -> getc a row c = getc b row c.
Proof. intros E. unfold getc. rewrite E. reflexivity. Qed.

Lemma rows_tot_zero_rows pk (rows : list vec) c : rows_tot pk (map (fun r => vzero (length r)) rows) c == 0.
Proof. unfold rows_tot. induction rows; simpl; [reflexivity|]. rewrite getc_vzero, IHrows. lra. Qed.
Lemma nth_zero_rows (rows : list vec) i : (i < length rows)%nat ->
  nth i (map (fun r => vzero (length r)) rows) [] = vzero (length (nth i rows [])).
Proof. revert i; induction rows; intros [|i] L; simpl in *; try lia; auto. apply IHrows. lia. Qed.

(* single-phase source, no exclude: whatever the phase selector and the IDs, what leaves the source is
   exactly what the (cleared) receiver holds afterwards *)
Lemma multi_copy_remove_single st d s ps i st' o :
  wf_store st -> d <> s -> nth_error st s = Some (SS o) ->
  step st (OCopyFlowM d s ps i true false) = Ok st' ->
  (forall c, tot_at st' c d + tot_at st' c s == tot_at st c s) /\
  forall k, k <> d -> k <> s -> nth_error st' k = nth_error st k.
Proof.
  intros [WS CO] NE NS H. simpl in H.
  destruct (gets st d) as [ds|] eqn:GD; cbn [bind] in H; [|discriminate].
  unfold gets in H. rewrite NS in H. cbn [bind] in H.

  destruct ds as [c0|m]; [discriminate|].
  pose proof (gets_lt _ _ _ GD) as LD. apply gets_ok in GD.
  assert (s < length st)%nat as LS by (apply nth_error_Some; congruence).
  assert (In (MS m) st) as ID by (eapply nth_error_In; eauto).
  assert (In (SS o) st) as IS by (eapply nth_error_In; eauto).
  pose proof (WS _ ID) as [WPm [WLm [LEm _]]]. pose proof (WS _ IS) as [WPo [WLo _]].
  pose proof (CO _ _ ID IS) as CC. simpl in WPm, WLm, LEm, WPo, WLo, CC.
  unfold copy_flow_m in H. cbn [spkg] in H.
  destruct (same_ids (mpkg m) (cpkg o)) eqn:SI; cbn [negb] in H; [|discriminate].
  pose proof (same_ids_cas _ _ SI CC) as ECAS.
  destruct (ids_index (mpkg m) i) as [idx|]; cbn [bind] in H; [|discriminate].
  destruct (phase_sel (mphases m) ps) as [sel|]; cbn [bind] in H; [|discriminate].
  destruct (phase_index (cphase o) (mphases m)) as [opi|] eqn:PI; cbn [bind] in H; [|discriminate].
  pose proof (phase_index_lt _ _ _ PI) as LO. rewrite LEm in LO.
  assert (length (crow o) = psize (cpkg o)) as LC by (apply WLo; left; auto).
  assert (length (nth opi (mrows m) []) = psize (mpkg m)) as LN by (apply WLm; apply nth_In; auto).
  assert (psize (mpkg m) = psize (cpkg o)) as EPS by (unfold psize; rewrite ECAS; reflexivity).
  cbn [andb] in H.
  set (hit := match sel with None => true | Some pi => Nat.eqb pi opi end) in *.
  inversion H; subst st'. clear H. split.
  - intros c. rewrite tot_at_upd_other by auto. rewrite tot_at_upd_same by auto.
    rewrite tot_at_upd_same by (rewrite upd_length; auto).
    unfold tot_at. rewrite NS. unfold tot. cbn [spkg srows fst snd mpkg mrows cpkg crow].
    rewrite !rows_tot_cons, !rows_tot_nil.
    destruct hit; rewrite ?andb_true_r.
    + rewrite rows_tot_upd by (rewrite map_length; auto).
      rewrite rows_tot_zero_rows, nth_zero_rows, LN by auto. rewrite getc_vzero.
      rewrite (getc_cas (cpkg o) (mpkg m)) by auto. rewrite (getc_cas (cpkg o) (mpkg m) (crow o)) by auto.
      pose proof (move_cells (mpkg m) (psize (mpkg m)) idx (crow o) c) as MC.
      rewrite <- MC by lia. lra.
    + rewrite rows_tot_zero_rows. lra.
  - intros k K1 K2. rewrite nth_error_upd_other by auto. rewrite nth_error_upd_other by auto. reflexivity.
Qed.

(* ---------- multi-phase source with as many phases as the receiver, no exclude ---------- *)
Lemma mapi_length {A B} (f : nat -> A -> B) l : length (mapi f l) = length l.
Proof. unfold mapi. rewrite map_length, combine_length, seq_length. lia. Qed.
Lemma mapi_nth {A B} (f : nat -> A -> B) l k dA dB : (k < length l)%nat ->
  nth k (mapi f l) dB = f k (nth k l dA).
Proof.
  intros L. unfold mapi.
  rewrite (nth_indep _ dB (f O dA)) by (rewrite map_length, combine_length, seq_length; lia).
  change (f O dA) with ((fun kr : nat * A => f (fst kr) (snd kr)) (O, dA)).
  rewrite map_nth. rewrite combine_nth by (rewrite seq_length; reflexivity).
  simpl. rewrite seq_nth by auto. reflexivity.
Qed.
Lemma rows_tot_seq pk (rows : list vec) c :
  rows_tot pk rows c == qsum (map (fun k => getc pk (nth k rows []) c) (seq 0 (length rows))).
Proof.
  induction rows as [|r rows IH]; [reflexivity|].
  rewrite rows_tot_cons. cbn [length seq map]. rewrite <- seq_shift, map_map. 
  change (qsum (getc pk (nth 0 (r :: rows) []) c :: map (fun x => getc pk (nth (S x) (r :: rows) []) c) (seq 0 (length rows))))
    with (getc pk r c + qsum (map (fun x => getc pk (nth x rows []) c) (seq 0 (length rows)))).
  rewrite IH. reflexivity.
Qed.
Lemma qsum_plus {A} (f g : A -> Q) l : qsum (map f l) + qsum (map g l) == qsum (map (fun x => f x + g x) l).
Proof.
  induction l as [|x l IH]; [simpl; lra|]. cbn [map qsum fold_right].
  change (fold_right Qplus 0 (map f l)) with (qsum (map f l)).
  change (fold_right Qplus 0 (map g l)) with (qsum (map g l)).
  change (fold_right Qplus 0 (map (fun x0 => f x0 + g x0) l)) with (qsum (map (fun x0 => f x0 + g x0) l)).
  rewrite <- IH. lra.
Qed.
Lemma value_row_same_length (orows : list vec) n k : length orows = n -> (k < n)%nat ->
  value_row orows k = Some (nth k orows []).
Proof.
  intros L K. unfold value_row. destruct orows as [|r [|r2 t]].
  - simpl in L. lia.
  - simpl in L. assert (k = O) by lia. subst. reflexivity.
  - apply nth_error_nth'. lia.
Qed.

Lemma swap_cells pk idx (row v : vec) c : length row = length v ->
  getc pk (set_at row idx v) c + getc pk (zero_at v idx) c == getc pk v c + getc pk (zero_at row idx) c.
Proof.
  intros L. unfold getc. destruct (index_of c (cas pk)) as [j|]; [|lra].
  rewrite nthq_set_at, !nthq_zero_at, L.
  destruct (existsb (Nat.eqb j) idx && Nat.ltb j (length v)); lra.
Qed.

(* the receiver's content outside the selected cells *)
Definition kept_rows (sel : option nat) (idx : list nat) (rows : list vec) : list vec :=
  mapi (fun k r => if row_selected sel k then zero_at r idx else r) rows.

Lemma multi_copy_remove_multi st d s ps i st' m o :
  wf_store st -> d <> s -> nth_error st d = Some (MS m) -> nth_error st s = Some (MS o) ->
  length (mrows o) = length (mrows m) ->
  step st (OCopyFlowM d s ps i true false) = Ok st' ->
  exists idx sel, ids_index (mpkg m) i = Ok idx /\ phase_sel (mphases m) ps = Ok sel /\
  forall c, tot_at st' c d + tot_at st' c s == tot_at st c s + rows_tot (mpkg m) (kept_rows sel idx (mrows m)) c.
Proof.
  intros [WS CO] NE ND NS LEN H. simpl in H. unfold gets in H. rewrite ND, NS in H. cbn [bind] in H.

  assert (d < length st)%nat as LD by (apply nth_error_Some; congruence).
  assert (s < length st)%nat as LS by (apply nth_error_Some; congruence).
  assert (In (MS m) st) as ID by (eapply nth_error_In; eauto).
  assert (In (MS o) st) as IS by (eapply nth_error_In; eauto).
  pose proof (WS _ ID) as [WPm [WLm [LEm _]]]. pose proof (WS _ IS) as [WPo [WLo _]].
  pose proof (CO _ _ ID IS) as CC. simpl in WPm, WLm, LEm, WPo, WLo, CC.
  unfold copy_flow_m in H. cbn [spkg] in H.
  destruct (same_ids (mpkg m) (mpkg o)) eqn:SI; cbn [negb] in H; [|discriminate].
  pose proof (same_ids_cas _ _ SI CC) as ECAS.
  destruct (ids_index (mpkg m) i) as [idx|]; cbn [bind] in H; [|discriminate].
  destruct (phase_sel (mphases m) ps) as [sel|]; cbn [bind] in H; [|discriminate].
  exists idx, sel. split; [reflexivity|]. split; [reflexivity|].
  assert (forall r k, getc (mpkg o) r k = getc (mpkg m) r k) as GE by (intros; apply getc_cas; auto).
  assert (forall k, (k < length (mrows m))%nat -> length (nth k (mrows m) []) = length (nth k (mrows o) [])) as LR.
  { intros k K. rewrite (WLm (nth k (mrows m) [])) by (apply nth_In; auto).
    rewrite (WLo (nth k (mrows o) [])) by (apply nth_In; lia). unfold psize. rewrite ECAS. reflexivity. }
  cbv zeta in H. destruct sel as [pi|].
  - destruct (Nat.ltb pi (length (mrows o))) eqn:LT; cbn [orb negb andb bind] in H; [|discriminate].
    cbn iota in H. inversion H; subst st'. clear H. intros c.
    rewrite tot_at_upd_other by auto. rewrite tot_at_upd_same by auto.
    rewrite tot_at_upd_same by (rewrite upd_length; auto).
    unfold tot_at. rewrite NS. unfold tot. cbn [spkg srows fst snd mpkg mrows].
    rewrite !rows_tot_seq. unfold kept_rows. rewrite !mapi_length. rewrite LEN. rewrite !qsum_plus.
    apply qsum_map_ext. intros k IK. apply in_seq in IK.
    assert (k < length (mrows m))%nat as K by lia.
    rewrite !(mapi_nth (A:=vec) (B:=vec) _ _ k (@nil Q) (@nil Q)) by lia.
    rewrite !GE. cbn [row_selected]. destruct (Nat.eqb pi k) eqn:EK.
    + apply Nat.eqb_eq in EK. subst pi. apply swap_cells. apply LR; auto.
    + lra.
  - cbn [bind] in H. cbn iota in H. inversion H; subst st'. clear H. intros c.
    rewrite tot_at_upd_other by auto. rewrite tot_at_upd_same by auto.
    rewrite tot_at_upd_same by (rewrite upd_length; auto).
    unfold tot_at. rewrite NS. unfold tot. cbn [spkg srows fst snd mpkg mrows].
    rewrite !rows_tot_seq. unfold kept_rows. rewrite !mapi_length. rewrite LEN. rewrite !qsum_plus.
    apply qsum_map_ext. intros k IK. apply in_seq in IK.
    assert (k < length (mrows m))%nat as K by lia.
    rewrite !(mapi_nth (A:=vec) (B:=vec) _ _ k (@nil Q) (@nil Q)) by lia.
    rewrite !GE. cbn [row_selected].
    rewrite (value_row_same_length (mrows o) (length (mrows m)) k) by auto.
    apply swap_cells. apply LR; auto.
Qed.

(* ---------- exclude=True ---------- *)
Lemma nthq_keep_at (v : vec) idx j :
  nthq (keep_at v idx) j = if existsb (Nat.eqb j) idx && Nat.ltb j (length v) then nthq v j else 0.
Proof. unfold keep_at. rewrite nthq_set_at, vzero_length, nthq_vzero. reflexivity. Qed.

Lemma excl_cells pk idx (d o : vec) c : length d = length o ->
  getc pk (set_at o idx d) c + getc pk (keep_at o idx) c == getc pk o c + getc pk (keep_at d idx) c.
Proof.
  intros L. unfold getc. destruct (index_of c (cas pk)) as [j|]; [|lra].
  rewrite nthq_set_at, !nthq_keep_at, L.
  destruct (existsb (Nat.eqb j) idx && Nat.ltb j (length o)); lra.
Qed.
Lemma getc_set_at_self pk (d : vec) idx c : getc pk (set_at d idx d) c = getc pk d c.
Proof.
  unfold getc. destruct (index_of c (cas pk)) as [j|]; [|reflexivity].
  rewrite nthq_set_at. destruct (existsb (Nat.eqb j) idx && Nat.ltb j (length d)); reflexivity.
Qed.

(* what the receiver keeps with exclude: its own content in the excluded cells *)
Definition excluded_rows (sel : option nat) (idx : list nat) (rows : list vec) : list vec :=
  mapi (fun k r => if row_selected sel k then keep_at r idx else vzero (length r)) rows.

Lemma multi_copy_remove_multi_exclude st d s ps i st' m o :
  wf_store st -> d <> s -> i <> IdAll -> nth_error st d = Some (MS m) -> nth_error st s = Some (MS o) ->
  length (mrows o) = length (mrows m) ->
  step st (OCopyFlowM d s ps i true true) = Ok st' ->
  exists idx sel, ids_index (mpkg m) i = Ok idx /\ phase_sel (mphases m) ps = Ok sel /\
  forall c, tot_at st' c d + tot_at st' c s == tot_at st c s + rows_tot (mpkg m) (excluded_rows sel idx (mrows m)) c.
Proof.
  intros [WS CO] NE NA ND NS LEN H. simpl in H. unfold gets in H. rewrite ND, NS in H. cbn [bind] in H.
  assert (d < length st)%nat as LD by (apply nth_error_Some; congruence).
  assert (s < length st)%nat as LS by (apply nth_error_Some; congruence).
  assert (In (MS m) st) as ID by (eapply nth_error_In; eauto).
  assert (In (MS o) st) as IS by (eapply nth_error_In; eauto).
  pose proof (WS _ ID) as [WPm [WLm [LEm _]]]. pose proof (WS _ IS) as [WPo [WLo _]].
  pose proof (CO _ _ ID IS) as CC. simpl in WPm, WLm, LEm, WPo, WLo, CC.
  unfold copy_flow_m in H. cbn [spkg] in H.
  destruct (same_ids (mpkg m) (mpkg o)) eqn:SI; cbn [negb] in H; [|discriminate].
  pose proof (same_ids_cas _ _ SI CC) as ECAS.
  destruct (ids_index (mpkg m) i) as [idx|]; cbn [bind] in H; [|discriminate].
  destruct (phase_sel (mphases m) ps) as [sel|]; cbn [bind] in H; [|discriminate].
  exists idx, sel. split; [reflexivity|]. split; [reflexivity|].
  assert (forall r k, getc (mpkg o) r k = getc (mpkg m) r k) as GE by (intros; apply getc_cas; auto).
  assert (forall k, (k < length (mrows m))%nat -> length (nth k (mrows m) []) = length (nth k (mrows o) [])) as LR.
  { intros k K. rewrite (WLm (nth k (mrows m) [])) by (apply nth_In; auto).
    rewrite (WLo (nth k (mrows o) [])) by (apply nth_In; lia). unfold psize. rewrite ECAS. reflexivity. }
  cbv zeta in H.
  destruct sel as [pi|].
  1: destruct (Nat.ltb pi (length (mrows o))) eqn:LT; cbn [orb negb andb bind] in H; [|discriminate].
  all: cbn [bind] in H; cbn iota in H; inversion H; subst st'; clear H; intros c.
  all: rewrite tot_at_upd_other by auto; rewrite tot_at_upd_same by auto;
    rewrite tot_at_upd_same by (rewrite upd_length; auto);
    unfold tot_at; rewrite NS; unfold tot; cbn [spkg srows fst snd mpkg mrows];
    rewrite !rows_tot_seq; unfold excluded_rows; rewrite !mapi_length; rewrite LEN; rewrite !qsum_plus;
    apply qsum_map_ext; intros k IK; apply in_seq in IK;
    assert (k < length (mrows m))%nat as K by lia;
    rewrite !(mapi_nth (A:=vec) (B:=vec) _ _ k (@nil Q) (@nil Q)) by (rewrite ?mapi_length; lia);
    rewrite (value_row_same_length (mrows o) (length (mrows m)) k) by auto;
    rewrite !GE.
  all: destruct i; [contradiction| |].
  all: cbn iota beta.
  all: cbn [row_selected].
  all: try match goal with |- context [Nat.eqb ?p ?kk] => destruct (Nat.eqb p kk) end.
  all: try (apply excl_cells; apply LR; auto).
  all: rewrite !getc_vzero; lra.
Qed.

(* single-phase source whose phase the selector hits (or no selector), exclude *)
Lemma multi_copy_remove_single_exclude st d s ps i st' m o :
  wf_store st -> d <> s -> i <> IdAll -> nth_error st d = Some (MS m) -> nth_error st s = Some (SS o) ->
  step st (OCopyFlowM d s ps i true true) = Ok st' ->
  exists idx sel opi, ids_index (mpkg m) i = Ok idx /\ phase_sel (mphases m) ps = Ok sel /\
    phase_index (cphase o) (mphases m) = Ok opi /\
  ((match sel with None => true | Some pi => Nat.eqb pi opi end) = true ->
   forall c, tot_at st' c d + tot_at st' c s ==
             tot_at st c s + rows_tot (mpkg m) (upd (mrows m) opi (keep_at (nth opi (mrows m) []) idx)) c).
Proof.
  intros [WS CO] NE NA ND NS H. simpl in H. unfold gets in H. rewrite ND, NS in H. cbn [bind] in H.
  assert (d < length st)%nat as LD by (apply nth_error_Some; congruence).
  assert (s < length st)%nat as LS by (apply nth_error_Some; congruence).
  assert (In (MS m) st) as ID by (eapply nth_error_In; eauto).
  assert (In (SS o) st) as IS by (eapply nth_error_In; eauto).
  pose proof (WS _ ID) as [WPm [WLm [LEm _]]]. pose proof (WS _ IS) as [WPo [WLo _]].
  pose proof (CO _ _ ID IS) as CC. simpl in WPm, WLm, LEm, WPo, WLo, CC.
  unfold copy_flow_m in H. cbn [spkg] in H.
  destruct (same_ids (mpkg m) (cpkg o)) eqn:SI; cbn [negb] in H; [|discriminate].
  pose proof (same_ids_cas _ _ SI CC) as ECAS.
  destruct (ids_index (mpkg m) i) as [idx|]; cbn [bind] in H; [|discriminate].
  destruct (phase_sel (mphases m) ps) as [sel|]; cbn [bind] in H; [|discriminate].
  cbv zeta in H.
  destruct (phase_index (cphase o) (mphases m)) as [opi|] eqn:PI; cbn [bind] in H; [|discriminate].
  exists idx, sel, opi. split; [reflexivity|]. split; [reflexivity|]. split; [reflexivity|]. intros HIT c.
  pose proof (phase_index_lt _ _ _ PI) as LO. rewrite LEm in LO.
  assert (length (crow o) = psize (cpkg o)) as LC by (apply WLo; left; auto).
  assert (length (nth opi (mrows m) []) = length (crow o)) as LN.
  { rewrite (WLm (nth opi (mrows m) [])) by (apply nth_In; auto). rewrite LC. unfold psize. rewrite ECAS. reflexivity. }
  rewrite HIT in H. cbn [andb] in H. cbn iota in H. inversion H; subst st'. clear H.
  rewrite tot_at_upd_other by auto. rewrite tot_at_upd_same by auto.
  rewrite tot_at_upd_same by (rewrite upd_length; auto).
  unfold tot_at. rewrite NS. unfold tot. cbn [spkg srows fst snd mpkg mrows cpkg crow].
  rewrite !rows_tot_cons, !rows_tot_nil.
  assert (forall r k, getc (cpkg o) r k = getc (mpkg m) r k) as GE by (intros; apply getc_cas; auto).
  rewrite !GE.
  assert (rows_tot (mpkg m)
            (mapi (fun k row => if row_selected sel k then set_at row idx (nth k (mrows m) []) else row)
                  (upd (mrows m) opi (crow o))) c
          == rows_tot (mpkg m) (upd (mrows m) opi (set_at (crow o) idx (nth opi (mrows m) []))) c) as E1.
  { rewrite !rows_tot_seq. rewrite mapi_length, !upd_length. apply qsum_map_ext. intros k IK. apply in_seq in IK.
    rewrite (mapi_nth (A:=vec) (B:=vec) _ _ k (@nil Q) (@nil Q)) by (rewrite upd_length; lia).
    destruct (Nat.eq_dec opi k) as [E|N].
    - subst k.
      assert (forall X, nth opi (upd (mrows m) opi X) [] = X) as NU.
      { intros X. apply nth_error_nth. apply nth_error_upd_same. auto. }
      rewrite !NU. assert (row_selected sel opi = true) as RS.
      { destruct sel as [pi|]; simpl in *; auto. }
      rewrite RS. reflexivity.
    - rewrite !(nth_upd_other_gen _ k opi) by auto.
      destruct (row_selected sel k); [rewrite getc_set_at_self|]; reflexivity. }
  rewrite E1. rewrite !rows_tot_upd by auto.
  destruct i; [contradiction| |]; cbn iota beta;
    pose proof (excl_cells (mpkg m) idx (nth opi (mrows m) []) (crow o) c LN) as X; lra.
Qed.
