(* C01 — executable model of the material side of stream mixing, splitting, separating,
   copying and scaling in thermosteam.
   Source modelled (thermosteam/...):
     _phase.py      phase_tuple, PhaseIndexer (__contains__, __call__, compatible_with)
     indexer.py     index_overlap, ChemicalIndexer.{mix_from, separate_out, to_material_indexer,
                    copy_like}, MaterialIndexer.{copy_like, _expand_phases, mix_from, separate_out,
                    to_material_indexer, to_chemical_indexer, phases_are_empty}
     base/sparse.py SparseVector.mix_from (receiver among the inlets 0 / 1 / >= 2 times)
     _stream.py     Stream.{isempty, empty, mix_from (vle=False, conserve_phases=False), H setter
                    (as an oracle: number of failing temperature solves), phases setter,
                    copy_like, split_to, separate_out, copy_flow, scale, __mul__}
     _multi_stream.py MultiStream.{phase, phase setter, phases setter, copy_like, split_to, H setter}
   Chemicals are CAS numbers (nat codes); a property package is an identity [pid] plus the
   ordered list of CAS numbers; rows are dense Q vectors in package order (the sparse
   dictionaries are modelled by their dense meaning except in SparseVector.mix_from, where
   the identity of the receiver's dictionary matters).  An exception raised by Python is
   [Err e].  No proofs in this file. *)
From V Require Export Common.Num.

(* ---------- phases ---------- *)
Inductive phase := PL | PS | Pg | Pl | Ps.     (* sorted as Python sorts 'L' < 'S' < 'g' < 'l' < 's' *)
Definition prank (p : phase) : nat :=
  match p with PL => 0 | PS => 1 | Pg => 2 | Pl => 3 | Ps => 4 end%nat.
Definition phase_eqb (a b : phase) : bool := Nat.eqb (prank a) (prank b).
(* str.upper()/lower() swap used for the upper/lower-case fallbacks; 'g' <-> 'G' never
   matches anything, which is what mapping Pg to itself also gives *)
Definition swapcase (p : phase) : phase :=
  match p with PL => Pl | Pl => PL | PS => Ps | Ps => PS | Pg => Pg end.
Definition lowerp (p : phase) : phase :=
  match p with PL => Pl | PS => Ps | x => x end.
Definition pmem (p : phase) (l : list phase) : bool := existsb (phase_eqb p) l.

(* phase_tuple: sorted set *)
Fixpoint pinsert (p : phase) (l : list phase) : list phase :=
  match l with
  | [] => [p]
  | q :: t => if Nat.ltb (prank p) (prank q) then p :: q :: t
              else if phase_eqb p q then q :: t else q :: pinsert p t
  end.
Definition psort (l : list phase) : list phase := fold_right pinsert [] l.

Fixpoint pindex_exact (p : phase) (l : list phase) : option nat :=
  match l with
  | [] => None
  | q :: t => if phase_eqb p q then Some O
              else match pindex_exact p t with Some i => Some (S i) | None => None end
  end.
(* PhaseIndexer.__contains__ and __call__: exact phase first, else the other case *)
Definition in_indexer (p : phase) (l : list phase) : bool := pmem p l || pmem (swapcase p) l.
Definition phase_index (p : phase) (l : list phase) : res nat :=
  match pindex_exact p l with
  | Some i => Ok i
  | None => match pindex_exact (swapcase p) l with
            | Some i => Ok i
            | None => Err EUndefPhase
            end
  end.
(* PhaseIndexer.compatible_with: the lower-cased sorted phase strings are equal *)
Definition compatible (a b : list phase) : bool :=
  list_eqb phase_eqb (map lowerp a) (map lowerp b).
Definition phases_eqb (a b : list phase) : bool := list_eqb phase_eqb a b.

(* ---------- property packages ---------- *)
Record pkg := mkpkg { pid : nat; cas : list nat }.
Definition same_pkg (a b : pkg) : bool := Nat.eqb (pid a) (pid b).     (* "chemicals is ichemicals" *)
Definition psize (p : pkg) : nat := length (cas p).
Fixpoint index_of (c : nat) (l : list nat) : option nat :=
  match l with
  | [] => None
  | x :: t => if Nat.eqb c x then Some O
              else match index_of c t with Some i => Some (S i) | None => None end
  end.

(* ---------- indexers and streams ---------- *)
Record cindexer := mkc { cpkg : pkg; cphase : phase; crow : vec }.
Record mindexer := mkm { mpkg : pkg; mphases : list phase; mrows : list vec }.
Inductive stream := SS (c : cindexer) | MS (m : mindexer).

Definition spkg (s : stream) : pkg := match s with SS c => cpkg c | MS m => mpkg m end.
Definition srows (s : stream) : list vec := match s with SS c => [crow c] | MS m => mrows m end.
Definition sphases (s : stream) : list phase := match s with SS c => [cphase c] | MS m => mphases m end.

Definition vsum (n : nat) (vs : list vec) : vec := fold_right vadd (vzero n) vs.
Definition row_any (v : vec) : bool := existsb (fun x => negb (qzerob x)) v.
Definition rows_any (rows : list vec) : bool := existsb row_any rows.
Definition isempty (s : stream) : bool := negb (rows_any (srows s)).
Definition empty_stream (s : stream) : stream :=
  match s with
  | SS c => SS (mkc (cpkg c) (cphase c) (vzero (length (crow c))))
  | MS m => MS (mkm (mpkg m) (mphases m) (map (fun r => vzero (length r)) (mrows m)))
  end.

(* nonzero_keys: positions that hold a non-zero entry in some row *)
Definition any_nz (rows : list vec) (i : nat) : bool :=
  existsb (fun r => negb (qzerob (nthq r i))) rows.
Definition nz_keys_rows (n : nat) (rows : list vec) : list nat := filter (any_nz rows) (seq 0 n).
Definition nz_keys (v : vec) : list nat := nz_keys_rows (length v) [v].

(* index_overlap(left, right, right_index): pairs (left position, right position);
   UndefinedChemicalAlias (EOther) when a CAS is not in the left package.  The index cache
   of the Chemicals object is treated as transparent (property C10). *)
Fixpoint overlap (left right : pkg) (keys : list nat) : res (list (nat * nat)) :=
  match keys with
  | [] => Ok []
  | i :: t => match index_of (nth i (cas right) O) (cas left) with
              | Some j => do r <- overlap left right t; Ok ((j, i) :: r)
              | None => Err EOther
              end
  end.
(* data[left_index] += idata[right_index]   /   data[left_index] = idata[right_index] *)
Definition add_pairs (dst : vec) (pairs : list (nat * nat)) (src : vec) : vec :=
  fold_left (fun d p => upd d (fst p) (nthq d (fst p) + nthq src (snd p))) pairs dst.
Definition set_pairs (dst : vec) (pairs : list (nat * nat)) (src : vec) : vec :=
  fold_left (fun d p => upd d (fst p) (nthq src (snd p))) pairs dst.
Definition sub_pairs (dst : vec) (pairs : list (nat * nat)) (src : vec) : vec :=
  fold_left (fun d p => upd d (fst p) (nthq d (fst p) - nthq src (snd p))) pairs dst.

(* a row of another package brought into [left]'s order: zero row, then set the overlap *)
Definition remap (left right : pkg) (row : vec) : res vec :=
  do pr <- overlap left right (nz_keys row);
  Ok (set_pairs (vzero (psize left)) pr row).

(* ---------- SparseVector.mix_from ---------- *)
(* [None] stands for the receiver's own dictionary appearing in the list *)
Fixpoint count_self (l : list (option vec)) : nat :=
  match l with [] => O | None :: t => S (count_self t) | Some _ :: t => count_self t end.
Fixpoint somes (l : list (option vec)) : list vec :=
  match l with [] => [] | None :: t => somes t | Some v :: t => v :: somes t end.
Definition sv_mix_from (self : vec) (others : list (option vec)) : vec :=
  match others with
  | [] => vzero (length self)                                       (* self.dct.clear() *)
  | _ =>
    let rep := count_self others in
    let dcts := somes others in
    let dcts' := match rep with
                 | O => dcts                                        (* dct.clear() *)
                 | S O => dcts ++ [self]                            (* dct.copy() *)
                 | _ => dcts ++ [vscale (inject_Z (Z.of_nat rep)) self]
                 end in
    vsum (length self) dcts'
  end.

(* ---------- inlets as the indexer methods see them ---------- *)
Inductive inl := ISelf | IC (c : cindexer) | IM (m : mindexer).

(* set_main_phase *)
Definition inl_cphase (self : cindexer) (i : inl) : option phase :=
  match i with ISelf => Some (cphase self) | IC c => Some (cphase c) | IM _ => None end.
Definition main_phase (self : cindexer) (others : list inl) : phase :=
  match others with
  | [] => cphase self
  | o :: rest =>
    match inl_cphase self o with
    | None => cphase self
    | Some p =>
      if forallb (fun i => match inl_cphase self i with Some q => phase_eqb p q | None => false end) rest
      then p else cphase self
    end
  end.

(* ChemicalIndexer.mix_from: per inlet, same-package rows and remapped other-package data *)
Definition cparts (self : cindexer) (i : inl) : res (list (option vec) * list (vec * list (nat * nat))) :=
  match i with
  | ISelf => Ok ([None], [])
  | IC c => if same_pkg (cpkg self) (cpkg c) then Ok ([Some (crow c)], [])
            else do pr <- overlap (cpkg self) (cpkg c) (nz_keys (crow c)); Ok ([], [(crow c, pr)])
  | IM m => if same_pkg (cpkg self) (mpkg m) then Ok (map Some (mrows m), [])
            else let s := vsum (psize (mpkg m)) (mrows m) in
                 do pr <- overlap (cpkg self) (mpkg m) (nz_keys s); Ok ([], [(s, pr)])
  end.
Fixpoint cparts_all (self : cindexer) (l : list inl)
  : res (list (option vec) * list (vec * list (nat * nat))) :=
  match l with
  | [] => Ok ([], [])
  | i :: t => do a <- cparts self i; do b <- cparts_all self t;
              Ok (fst a ++ fst b, snd a ++ snd b)
  end.
Definition add_others (d : vec) (od : list (vec * list (nat * nat))) : vec :=
  fold_left (fun d vp => add_pairs d (snd vp) (fst vp)) od d.
Definition cmix_from (self : cindexer) (others : list inl) : res cindexer :=
  match others with
  | [] => Err EValue                               (* set_main_phase unpacks the first inlet *)
  | _ =>
    let ph := main_phase self others in
    do parts <- cparts_all self others;
    Ok (mkc (cpkg self) ph (add_others (sv_mix_from (crow self) (fst parts)) (snd parts)))
  end.

(* MaterialIndexer._expand_phases *)
Definition row_of (m : mindexer) (p : phase) : vec :=
  match pindex_exact p (mphases m) with
  | Some i => nth i (mrows m) []
  | None => vzero (psize (mpkg m))
  end.
Definition expand_phases (m : mindexer) (others : list phase) : mindexer :=
  if existsb (fun p => negb (pmem p (mphases m))) others
  then let all := psort (others ++ mphases m) in
       mkm (mpkg m) all (map (row_of m) all)
  else m.

(* MaterialIndexer.mix_from *)
(* [SrcOther] also records the inlet's package (used only to state theorems) *)
Inductive src := SrcSelf | SrcSame (v : vec) | SrcOther (op : pkg) (v : vec) (pr : list (nat * nat)).
Definition inl_phases (self : mindexer) (i : inl) : list phase :=
  match i with ISelf => mphases self | IC c => [cphase c] | IM m => mphases m end.
(* the scp_data / dcp_data keys: exact phase, else the alias made by the upper/lower-case loop *)
Definition resolve (phases : list phase) (k : phase) : res phase :=
  if pmem k phases then Ok k
  else if pmem (swapcase k) phases then Ok (swapcase k) else Err EKey.
Fixpoint resolve_all (phases : list phase) (ks : list phase) : res unit :=
  match ks with
  | [] => Ok tt
  | k :: t => do _ <- resolve phases k; resolve_all phases t
  end.
Definition mcontrib (self : mindexer) (i : inl) : res (list (phase * src)) :=
  match i with
  | ISelf => Ok (map (fun p => (p, SrcSelf)) (mphases self))
  | IC c => if same_pkg (mpkg self) (cpkg c) then Ok [(cphase c, SrcSame (crow c))]
            else do pr <- overlap (mpkg self) (cpkg c) (nz_keys (crow c));
                 Ok [(cphase c, SrcOther (cpkg c) (crow c) pr)]
  | IM m => if same_pkg (mpkg self) (mpkg m)
            then Ok (map2 (fun p r => (p, SrcSame r)) (mphases m) (mrows m))
            else do pr <- overlap (mpkg self) (mpkg m) (nz_keys_rows (psize (mpkg m)) (mrows m));
                 Ok (map2 (fun p r => (p, SrcOther (mpkg m) r pr)) (mphases m) (mrows m))
  end.
Fixpoint mcontrib_all (self : mindexer) (l : list inl) : res (list (phase * src)) :=
  match l with
  | [] => Ok []
  | i :: t => do a <- mcontrib self i; do b <- mcontrib_all self t; Ok (a ++ b)
  end.
Definition goes_to (phases : list phase) (p : phase) (k : phase) : bool :=
  match resolve phases k with Ok q => phase_eqb p q | Err _ => false end.
Definition same_of (cs : list (phase * src)) (phases : list phase) (p : phase) : list (option vec) :=
  flat_map (fun c => if goes_to phases p (fst c)
                     then match snd c with SrcSelf => [None] | SrcSame v => [Some v] | SrcOther _ _ _ => [] end
                     else []) cs.
Definition other_of (cs : list (phase * src)) (phases : list phase) (p : phase)
  : list (vec * list (nat * nat)) :=
  flat_map (fun c => if goes_to phases p (fst c)
                     then match snd c with SrcOther _ v pr => [(v, pr)] | _ => [] end
                     else []) cs.
Definition mmix_from (self0 : mindexer) (others : list inl) : res mindexer :=
  let other_phases := flat_map (inl_phases self0) others in
  let self := if existsb (fun p => negb (in_indexer p (mphases self0))) other_phases
              then expand_phases self0 other_phases else self0 in
  let phases := mphases self in
  do _ <- resolve_all phases other_phases;
  do cs <- mcontrib_all self others;
  Ok (mkm (mpkg self) phases
        (map2 (fun p row => add_others (sv_mix_from row (same_of cs phases p)) (other_of cs phases p))
              phases (mrows self))).

Definition imol_mix_from (r : stream) (ins : list inl) : res stream :=
  match r with
  | SS c => do c' <- cmix_from c ins; Ok (SS c')
  | MS m => do m' <- mmix_from m ins; Ok (MS m')
  end.

(* ---------- conversions between the two indexer kinds ---------- *)
(* ChemicalIndexer.to_material_indexer *)
Definition c_to_material (c : cindexer) (phases : list phase) : res mindexer :=
  let blank := map (fun _ => vzero (psize (cpkg c))) phases in
  if row_any (crow c) then
    let ph := if pmem (cphase c) phases then cphase c else swapcase (cphase c) in
    do i <- phase_index ph phases;
    Ok (mkm (cpkg c) phases (upd blank i (crow c)))
  else Ok (mkm (cpkg c) phases blank).
(* MaterialIndexer.to_material_indexer *)
Fixpoint m_to_material_rows (src_phases : list phase) (src_rows : list vec) (phases : list phase)
  (acc : list vec) : res (list vec) :=
  match src_phases, src_rows with
  | p :: pt, r :: rt =>
    if row_any r then
      let ph := if pmem p phases then p else swapcase p in
      do i <- phase_index ph phases;
      m_to_material_rows pt rt phases (upd acc i (vadd (nth i acc []) r))
    else m_to_material_rows pt rt phases acc
  | _, _ => Ok acc
  end.
Definition m_to_material (m : mindexer) (phases : list phase) : res mindexer :=
  do rows <- m_to_material_rows (mphases m) (mrows m) phases
               (map (fun _ => vzero (psize (mpkg m))) phases);
  Ok (mkm (mpkg m) phases rows).
(* MaterialIndexer.to_chemical_indexer *)
Definition m_to_chemical (m : mindexer) (p : phase) : cindexer :=
  mkc (mpkg m) p (vsum (psize (mpkg m)) (mrows m)).

(* Stream.phases / MultiStream.phases setters, given the phases as a list with repeats *)
Definition set_phases (s : stream) (phs : list phase) : res stream :=
  let ps := psort phs in
  match s with
  | SS c => match ps with
            | [p] => Ok (SS (mkc (cpkg c) p (crow c)))
            | _ => do m <- c_to_material c ps; Ok (MS m)
            end
  | MS m => match ps with
            | [p] => Ok (SS (m_to_chemical m p))
            | _ => if phases_eqb ps (mphases m) then Ok s
                   else do m' <- m_to_material m ps; Ok (MS m')
            end
  end.

(* MaterialIndexer.phases_are_empty and MultiStream.phase (string of non-empty phase groups) *)
Definition group_empty (m : mindexer) (grp : list phase) : bool :=
  negb (existsb (fun pr => pmem (fst pr) grp && row_any (snd pr))
                (map2 (fun p r => (p, r)) (mphases m) (mrows m))).
Definition phase_str (s : stream) : list phase :=
  match s with
  | SS c => [cphase c]
  | MS m => (if group_empty m [Pg] then [] else [Pg]) ++
            (if group_empty m [Pl; PL] then [] else [Pl]) ++
            (if group_empty m [Ps; PS] then [] else [Ps])
  end.

(* ---------- copy_like ---------- *)
(* ChemicalIndexer.copy_like (other is a ChemicalIndexer) *)
Definition c_copy_like (self other : cindexer) : res cindexer :=
  if same_pkg (cpkg self) (cpkg other) then Ok (mkc (cpkg self) (cphase other) (crow other))
  else do r <- remap (cpkg self) (cpkg other) (crow other); Ok (mkc (cpkg self) (cphase other) r).

(* MaterialIndexer.copy_like *)
Definition bring (self : pkg) (opkg : pkg) (pr : list (nat * nat)) (dst row : vec) : vec :=
  if same_pkg self opkg then row else set_pairs dst pr row.
Fixpoint place_rows (phases : list phase) (self opkg : pkg) (pr : list (nat * nat))
  (ops : list phase) (ors : list vec) (acc : list vec) : res (list vec) :=
  match ops, ors with
  | p :: pt, r :: rt =>
    do i <- phase_index p phases;
    place_rows phases self opkg pr pt rt (upd acc i (bring self opkg pr (nth i acc []) r))
  | _, _ => Ok acc
  end.
Definition m_copy_like (self : mindexer) (other : stream) : res mindexer :=
  match other with
  | SS c =>
    let self1 := if in_indexer (cphase c) (mphases self) then self
                 else expand_phases self [cphase c] in
    do i <- phase_index (cphase c) (mphases self1);
    let blank := map (fun _ => vzero (psize (mpkg self))) (mphases self1) in
    if same_pkg (mpkg self) (cpkg c) then Ok (mkm (mpkg self) (mphases self1) (upd blank i (crow c)))
    else do pr <- overlap (mpkg self) (cpkg c) (nz_keys (crow c));
         Ok (mkm (mpkg self) (mphases self1) (upd blank i (set_pairs (nth i blank []) pr (crow c))))
  | MS o =>
    do pr <- (if same_pkg (mpkg self) (mpkg o) then Ok []
              else overlap (mpkg self) (mpkg o) (nz_keys_rows (psize (mpkg o)) (mrows o)));
    let self1 := if phases_eqb (mphases self) (mphases o) || compatible (mphases self) (mphases o)
                 then self else expand_phases self (mphases o) in
    let blank := map (fun _ => vzero (psize (mpkg self))) (mphases self1) in
    do rows <- place_rows (mphases self1) (mpkg self) (mpkg o) pr (mphases o) (mrows o) blank;
    Ok (mkm (mpkg self) (mphases self1) rows)
  end.

(* Stream.copy_like / MultiStream.copy_like (material and phases only) *)
Definition copy_like (self other : stream) : res stream :=
  match self with
  | MS m => do m' <- m_copy_like m other; Ok (MS m')
  | SS c =>
    match other with
    | SS o => do c' <- c_copy_like c o; Ok (SS c')
    | MS o =>
      match mphases o, mrows o with
      | [p], [r] => do c' <- c_copy_like (mkc (cpkg c) p (crow c)) (mkc (mpkg o) p r); Ok (SS c')
      | _, _ =>
        do s1 <- set_phases (empty_stream self) (mphases o);
        match s1 with
        | MS m => do m' <- m_copy_like m other; Ok (MS m')
        | SS c1 => do c' <- c_copy_like c1 (m_to_chemical o (cphase c1)); Ok (SS c')
        end
      end
    end
  end.

(* ---------- the enthalpy setter as an oracle ----------
   [hf] = number of temperature solves (mixture.solve_T_at_HP / xsolve_T_at_HP) that still
   fail.  Stream.H: a failed solve flips a gas/liquid phase and tries once more; MultiStream.H
   tries once.  Result: the stream (its phase may have been flipped), solves left, success. *)
Definition set_cphase (c : cindexer) (p : phase) := mkc (cpkg c) p (crow c).
Definition set_H (hf : nat) (s : stream) : stream * nat * bool :=
  match hf with
  | O => (s, O, true)
  | S k =>
    match s with
    | MS _ => (s, k, false)
    | SS c =>
      match lowerp (cphase c) with
      | Pg => let s' := SS (set_cphase c Pl) in
              match k with O => (s', O, true) | S k' => (s', k', false) end
      | Pl => let s' := SS (set_cphase c Pg) in
              match k with O => (s', O, true) | S k' => (s', k', false) end
      | _ => (s, k, false)
      end
    end
  end.

(* ---------- the store and Stream.mix_from ---------- *)
Definition store := list stream.
Definition gets (st : store) (i : nat) : res stream :=
  match nth_error st i with Some s => Ok s | None => Err EIndex end.
Fixpoint gets_all (st : store) (l : list nat) : res (list (nat * stream)) :=
  match l with
  | [] => Ok []
  | i :: t => do s <- gets st i; do r <- gets_all st t; Ok ((i, s) :: r)
  end.
Definition to_inl (r : nat) (js : nat * stream) : inl :=
  if Nat.eqb r (fst js) then ISelf
  else match snd js with SS c => IC c | MS m => IM m end.
(* with energy_balance the receiver's own indexer is copied first: no inlet aliases the receiver *)
Definition to_inl_copy (js : nat * stream) : inl :=
  match snd js with SS c => IC c | MS m => IM m end.

Definition mix (st : store) (r : nat) (ins : list nat) (eb : bool) (hf : nat) : res stream :=
  do rs <- gets st r;
  do all <- gets_all st ins;
  let ne := filter (fun js => negb (isempty (snd js))) all in
  match ne with
  | [] => Ok (empty_stream rs)
  | [js] => if eb then (if Nat.eqb r (fst js) then Ok rs else copy_like rs (snd js))
            else imol_mix_from rs [to_inl r js]
  | _ =>
    let inls := if eb then map to_inl_copy ne else map (to_inl r) ne in
    do r1 <- imol_mix_from rs inls;
    if eb then
      match set_H hf r1 with
      | (r2, _, true) => Ok r2
      | (r2, hf', false) =>
        let phs := phase_str r2 ++
                   flat_map (fun js => if Nat.eqb r (fst js) then phase_str r2 else phase_str (snd js)) all in
        do r3 <- set_phases r2 phs;
        do r4 <- imol_mix_from r3 inls;
        match set_H hf' r4 with
        | (r5, _, true) => Ok r5
        | (_, _, false) => Err ERuntime
        end
      end
    else Ok r1
  end.

(* ---------- split_to ---------- *)
Inductive splitv := SpS (q : Q) | SpV (v : vec).
Definition split_vec (n : nat) (s : splitv) : vec :=
  match s with SpS q => repeat q n | SpV v => v end.
(* an outlet (after the phase handling) receives [values], given in the feed's package order:
   s.mol[:] = values, or s.empty(); s.imol[CASs of the non-zero values] = values *)
Definition put_values (fpkg : pkg) (values : vec) (out : stream) : res stream :=
  match out with
  | MS m =>
    if same_pkg (mpkg m) fpkg then Err EValue              (* s.mol of a MultiStream is read-only *)
    else if row_any values
         then do _ <- overlap (mpkg m) fpkg (nz_keys values);
              Err EIndex                                    (* imol[CASs] = ... needs a phase *)
         else Ok (empty_stream out)
  | SS c =>
    if same_pkg (cpkg c) fpkg then Ok (SS (mkc (cpkg c) (cphase c) values))
    else do r <- remap (cpkg c) fpkg values; Ok (SS (mkc (cpkg c) (cphase c) r))
  end.
(* s.phase = p on either class *)
Definition to_single (s : stream) (p : phase) : stream :=
  match s with
  | SS c => SS (set_cphase c p)
  | MS m => SS (m_to_chemical m p)
  end.
(* Stream.split_to on a row [frow] of the feed; with energy_balance the outlets first take
   the feed's phase (which turns a MultiStream outlet into a Stream) *)
Definition split_single (fpkg : pkg) (fphase : phase) (frow : vec) (s1 s2 : stream) (sp : splitv)
  (eb : bool) : res (stream * stream) :=
  let values := vmul frow (split_vec (length frow) sp) in
  let dummy := vsub frow values in
  let s1 := if eb then to_single s1 fphase else s1 in
  let s2 := if eb then to_single s2 fphase else s2 in
  do a <- put_values fpkg values s1;
  do b <- put_values fpkg dummy s2;
  Ok (a, b).
(* MultiStream.split_to, per phase *)
Fixpoint split_rows (rows : list vec) (sp : splitv) : list vec * list vec :=
  match rows with
  | [] => ([], [])
  | r :: t => let v := vmul r (split_vec (length r) sp) in
              let rest := split_rows t sp in
              (v :: fst rest, vsub r v :: snd rest)
  end.
Fixpoint remap_rows (left right : pkg) (rows : list vec) : res (list vec) :=
  match rows with
  | [] => Ok []
  | r :: t => do x <- remap left right r; do y <- remap_rows left right t; Ok (x :: y)
  end.
(* an outlet whose phases were already set to the feed's receives the split rows, phase by phase *)
Definition fill_rows (fpkg : pkg) (rows : list vec) (o1 : stream) : res stream :=
  match o1 with
  | SS c => match rows with
            | [r] => put_values fpkg r o1
            | _ => Err EOther
            end
  | MS m =>
    if same_pkg (mpkg m) fpkg then Ok (MS (mkm (mpkg m) (mphases m) rows))
    else do rows' <- remap_rows (mpkg m) fpkg rows; Ok (MS (mkm (mpkg m) (mphases m) rows'))
  end.
Definition is_multi (s : stream) : bool := match s with MS _ => true | SS _ => false end.
Definition split_to (f s1 s2 : stream) (sp : splitv) (eb : bool) : res (stream * stream) :=
  match f with
  | SS c => split_single (cpkg c) (cphase c) (crow c) s1 s2 sp eb
  | MS m =>
    if eb || is_multi s1 || is_multi s2 then
      let vr := split_rows (mrows m) sp in
      do o1 <- set_phases s1 (mphases m);            (* s1.phases = phases; s2.phases = phases *)
      do o2 <- set_phases s2 (mphases m);
      do a <- fill_rows (mpkg m) (fst vr) o1;
      do b <- fill_rows (mpkg m) (snd vr) o2;
      Ok (a, b)
    else split_single (mpkg m) Pl (vsum (psize (mpkg m)) (mrows m)) s1 s2 sp false
  end.

(* ---------- separate_out ---------- *)
Definition sub_row (self : pkg) (row : vec) (opkg : pkg) (orow : vec) : res vec :=
  if same_pkg self opkg then Ok (vsub row orow)
  else do pr <- overlap self opkg (nz_keys orow); Ok (sub_pairs row pr orow).
Fixpoint sub_phases (self : pkg) (phases : list phase) (rows : list vec) (opkg : pkg)
  (ops : list phase) (ors : list vec) (skip_empty : bool) : res (list vec) :=
  match ops, ors with
  | p :: pt, r :: rt =>
    if skip_empty && negb (row_any r) then sub_phases self phases rows opkg pt rt skip_empty
    else do _ <- (if same_pkg self opkg then Ok [] else overlap self opkg (nz_keys r));   (* chemicals.indices first *)
         do i <- phase_index p phases;
         do r' <- sub_row self (nth i rows []) opkg r;
         sub_phases self phases (upd rows i r') opkg pt rt skip_empty
  | _, _ => Ok rows
  end.
Definition imol_separate_out (self other : stream) : res stream :=
  match self, other with
  | SS c, SS o => do r <- sub_row (cpkg c) (crow c) (cpkg o) (crow o); Ok (SS (mkc (cpkg c) (cphase c) r))
  | SS c, MS o =>
    do r <- sub_row (cpkg c) (crow c) (mpkg o) (vsum (psize (mpkg o)) (mrows o));
    Ok (SS (mkc (cpkg c) (cphase c) r))
  | MS m, SS o =>
    do rows <- sub_phases (mpkg m) (mphases m) (mrows m) (cpkg o) [cphase o] [crow o] false;
    Ok (MS (mkm (mpkg m) (mphases m) rows))
  | MS m, MS o =>
    do _ <- (if same_pkg (mpkg m) (mpkg o) then Ok []
             else if phases_eqb (mphases m) (mphases o)
                  then overlap (mpkg m) (mpkg o) (nz_keys_rows (psize (mpkg o)) (mrows o))
                  else Ok []);
    do rows <- sub_phases (mpkg m) (mphases m) (mrows m) (mpkg o) (mphases o) (mrows o)
                 (negb (phases_eqb (mphases m) (mphases o)));
    Ok (MS (mkm (mpkg m) (mphases m) rows))
  end.

(* ---------- Stream.copy_flow (receiver single-phase) ---------- *)
Inductive ids := IdAll | IdOne (c : nat) | IdList (l : list nat).
Definition cas_mem (c : nat) (l : list nat) : bool := existsb (Nat.eqb c) l.
(* positions of [other] selected by IDs / exclude; [inl true] marks "a single int index" *)
Fixpoint indices_of (l : list nat) (p : pkg) : res (list nat) :=
  match l with
  | [] => Ok []
  | c :: t => match index_of c (cas p) with
              | Some i => do r <- indices_of t p; Ok (i :: r)
              | None => Err EOther
              end
  end.
Definition complement (n : nat) (bad : list nat) : list nat :=
  filter (fun i => negb (existsb (Nat.eqb i) bad)) (seq 0 n).
Definition select (opkg : pkg) (i : ids) (exclude : bool) : res (bool * list nat) :=
  match i with
  | IdAll => Ok (false, seq 0 (psize opkg))
  | IdOne c =>
    if exclude then
      match index_of c (cas opkg) with
      | Some b => Ok (false, complement (psize opkg) [b])
      | None => Err EType                                   (* slice() *)
      end
    else match index_of c (cas opkg) with
         | Some b => Ok (true, [b])
         | None => Err EOther
         end
  | IdList l =>
    if exclude then
      let l' := filter (fun c => cas_mem c (cas opkg)) l in
      do bad <- indices_of l' opkg;
      match bad with
      | [] => Err EType                                     (* slice() *)
      | _ => Ok (false, complement (psize opkg) bad)
      end
    else do idx <- indices_of l opkg; Ok (false, idx)
  end.
Definition set_at (dst : vec) (idx : list nat) (src : vec) : vec :=
  fold_left (fun d i => upd d i (nthq src i)) idx dst.
Definition zero_at (dst : vec) (idx : list nat) : vec :=
  fold_left (fun d i => upd d i 0) idx dst.
Definition remove_from (other : stream) (idx : list nat) : stream :=
  match other with
  | SS o => SS (mkc (cpkg o) (cphase o) (zero_at (crow o) idx))
  | MS o => MS (mkm (mpkg o) (mphases o) (map (fun r => zero_at r idx) (mrows o)))
  end.
Definition other_mol (other : stream) : vec :=
  match other with SS o => crow o | MS o => vsum (psize (mpkg o)) (mrows o) end.
Definition copy_flow (self : cindexer) (other : stream) (i : ids) (remove exclude : bool)
  : res (stream * stream) :=
  let omol := other_mol other in
  let opkg := spkg other in
  match i with
  | IdAll =>
    if exclude then Ok (SS self, other)
    else
      do row <- (if same_pkg (cpkg self) opkg then Ok omol else remap (cpkg self) opkg omol);
      Ok (SS (mkc (cpkg self) (cphase self) row),
          if remove then empty_stream other else other)
  | _ =>
    do sel <- select opkg i exclude;
    let idx := snd sel in
    do row <- (if same_pkg (cpkg self) opkg then Ok (set_at (crow self) idx omol)
               else if fst sel then Err EType               (* iterating over an int *)
               else
                 let idx' := filter (fun k => negb (qzerob (nthq omol k))
                                              || cas_mem (nth k (cas opkg) O) (cas (cpkg self))) idx in
                 do pr <- overlap (cpkg self) opkg idx';
                 Ok (set_pairs (crow self) pr omol));
    Ok (SS (mkc (cpkg self) (cphase self) row),
        if remove then remove_from other idx else other)
  end.

(* ---------- MultiStream.copy_flow (receiver multi-phase) ---------- *)
Inductive psel := PhAll | PhOne (p : phase).
(* "self.chemicals is other.chemicals or self.chemicals.IDs == other.chemicals.IDs" *)
Definition same_ids (a b : pkg) : bool := same_pkg a b || list_eqb Nat.eqb (cas a) (cas b).
(* chemicals.get_index(IDs): slice / int / list of positions *)
Definition ids_index (pk : pkg) (i : ids) : res (list nat) :=
  match i with
  | IdAll => Ok (seq 0 (psize pk))
  | IdOne c => match index_of c (cas pk) with Some j => Ok [j] | None => Err EOther end
  | IdList l => indices_of l pk
  end.
(* imol.get_phase_index(phase): a slice over all rows, or one row *)
Definition row_selected (ps : option nat) (k : nat) : bool :=
  match ps with None => true | Some i => Nat.eqb i k end.
Definition phase_sel (phases : list phase) (ps : psel) : res (option nat) :=
  match ps with PhAll => Ok None | PhOne p => do i <- phase_index p phases; Ok (Some i) end.
(* the row of a 2-d value that lands in receiver row k: one row is broadcast, otherwise rows are
   zipped (the shorter side wins) *)
Definition value_row (orows : list vec) (k : nat) : option vec :=
  match orows with
  | [r] => Some r
  | _ => nth_error orows k
  end.
Definition mapi {A B} (f : nat -> A -> B) (l : list A) : list B :=
  map (fun kr => f (fst kr) (snd kr)) (combine (seq 0 (length l)) l).
Definition keep_at (src : vec) (idx : list nat) : vec := set_at (vzero (length src)) idx src.

Definition copy_flow_m (self : mindexer) (other : stream) (ps : psel) (i : ids) (remove exclude : bool)
  : res (stream * stream) :=
  if negb (same_ids (mpkg self) (spkg other)) then Err EValue else
  do idx <- ids_index (mpkg self) i;
  do sel <- phase_sel (mphases self) ps;
  (* exclude + remove: "excluded_data = other_data[phase, IDs]; other_data[:] = 0.; other_data[phase, IDs] =
     excluded_data" -- with IDs = ... the slice returns the row objects themselves, which the second statement
     clears, so nothing is kept *)
  let keep := fun (row : vec) => match i with IdAll => vzero (length row) | _ => keep_at row idx end in
  match other with
  | MS o =>
    let n_o := length (mrows o) in
    do _ <- (match sel with
             | Some pi => if (remove || negb exclude) && negb (Nat.ltb pi n_o) then Err EIndex else Ok tt
             | None => Ok tt
             end);
    if exclude then
      (* data[:] = other_data ; data[phase, IDs] = original[phase, IDs] *)
      let rows1 := mapi (fun k row => match value_row (mrows o) k with Some v => v | None => row end) (mrows self) in
      let rows2 := mapi (fun k row => if row_selected sel k then set_at row idx (nth k (mrows self) []) else row) rows1 in
      let orows := if remove
                   then mapi (fun k row => if row_selected sel k then keep row else vzero (length row)) (mrows o)
                   else mrows o in
      Ok (MS (mkm (mpkg self) (mphases self) rows2), MS (mkm (mpkg o) (mphases o) orows))
    else
      (* data[phase, IDs] = other_data[phase, IDs] *)
      let rows' :=
        match sel with
        | None => mapi (fun k row => match value_row (mrows o) k with Some v => set_at row idx v | None => row end) (mrows self)
        | Some pi => mapi (fun k row => if Nat.eqb pi k then set_at row idx (nth pi (mrows o) []) else row) (mrows self)
        end in
      let orows := if remove
                   then mapi (fun k row => if row_selected sel k then zero_at row idx else row) (mrows o)
                   else mrows o in
      Ok (MS (mkm (mpkg self) (mphases self) rows'), MS (mkm (mpkg o) (mphases o) orows))
  | SS o =>
    do opi <- phase_index (cphase o) (mphases self);
    let hit := match sel with None => true | Some pi => Nat.eqb pi opi end in
    if exclude then
      (* data[other_phase, :] = other ; data[phase, IDs] = original[phase, IDs] *)
      let rows1 := upd (mrows self) opi (crow o) in
      let rows2 := mapi (fun k row => if row_selected sel k then set_at row idx (nth k (mrows self) []) else row) rows1 in
      let orow := if remove && hit then keep (crow o) else crow o in
      Ok (MS (mkm (mpkg self) (mphases self) rows2), SS (mkc (cpkg o) (cphase o) orow))
    else
      (* data[:] = 0 ; if the phase matches: data[other_phase, IDs] = other[IDs] *)
      let blank := map (fun r => vzero (length r)) (mrows self) in
      let rows' := if hit then upd blank opi (set_at (nth opi blank []) idx (crow o)) else blank in
      let orow := if hit && remove then zero_at (crow o) idx else crow o in
      Ok (MS (mkm (mpkg self) (mphases self) rows'), SS (mkc (cpkg o) (cphase o) orow))
  end.

(* ---------- scale / __mul__ ---------- *)
Definition scale (k : Q) (s : stream) : stream :=
  match s with
  | SS c => SS (mkc (cpkg c) (cphase c) (vscale k (crow c)))
  | MS m => MS (mkm (mpkg m) (mphases m) (map (vscale k) (mrows m)))
  end.

(* ---------- histories over a store of streams ---------- *)
Inductive op :=
| OMix (r : nat) (ins : list nat) (eb : bool) (hf : nat)
| OSplit (f s1 s2 : nat) (sp : splitv) (eb : bool)
| OSep (r o : nat)
| OCopyFlow (d s : nat) (i : ids) (remove exclude : bool)
| OCopyFlowM (d s : nat) (ps : psel) (i : ids) (remove exclude : bool)
| OScale (i : nat) (k : Q)
| OMul (i : nat) (k : Q).

Definition step (st : store) (o : op) : res store :=
  match o with
  | OMix r ins eb hf => do s <- mix st r ins eb hf; Ok (upd st r s)
  | OSplit f s1 s2 sp eb =>
    do fs <- gets st f; do a <- gets st s1; do b <- gets st s2;
    do ab <- split_to fs a b sp eb;
    Ok (upd (upd st s1 (fst ab)) s2 (snd ab))
  | OSep r o =>
    do rs <- gets st r; do os <- gets st o;
    if Nat.eqb r o then Ok (upd st r (empty_stream rs))
    else do s <- imol_separate_out rs os; Ok (upd st r s)
  | OCopyFlow d s i remove exclude =>
    (* d = s (a stream copied onto itself) needs no special case: the copy leaves the data as it is and
       the removal, written last, then takes the selected flows away *)
    do ds <- gets st d; do ss <- gets st s;
    match ds with
    | MS _ => Err EOther                               (* MultiStream.copy_flow: see OCopyFlowM *)
    | SS c => do r <- copy_flow c ss i remove exclude;
              Ok (upd (upd st d (fst r)) s (snd r))
    end
  | OCopyFlowM d s ps i remove exclude =>
    do ds <- gets st d; do ss <- gets st s;
    match ds with
    | SS _ => Err EOther                               (* Stream.copy_flow has no phase selector *)
    | MS m => do r <- copy_flow_m m ss ps i remove exclude;
              Ok (upd (upd st d (fst r)) s (snd r))
    end
  | OScale i k => do s <- gets st i; Ok (upd st i (scale k s))
  | OMul i k => do s <- gets st i; Ok (st ++ [scale k s])
  end.

Fixpoint run (st : store) (ops : list op) : res store :=
  match ops with
  | [] => Ok st
  | o :: t => do st' <- step st o; run st' t
  end.

(* ---------- aliasing: several stream objects on one flow data ----------
   [cells] holds the flow data; a handle is a Python stream object:
     HCell j       the stream that owns cell j
     HProxy j ph   stream.flow_proxy() / link_with(flow only): another single-phase Stream object whose
                   indexer shares the SparseVector of cell j and has its own phase
     HView j p lbl multistream[lbl]: the cached per-phase sub-stream; it is bound to the ROW OBJECT whose phase is p
                   (not to a name: a later expansion may add a row called lbl), its own phase label stays lbl;
                   a Stream whose indexer wraps the row
                   object of phase p (MaterialIndexer.get_phase; _expand_phases keeps the row objects)
     HLink j phs   one of several linked MultiStreams (link_with) on cell j - both partners are HLink handles:
                   each indexer shares the SparseArray (the rows) and has its own phases tuple; the cell
                   records the phases the rows were last laid out for.  When one partner expands its phases
                   the other keeps the old tuple over the longer rows list (the model shows exactly that)
   Every modelled operation mutates the data in place except where the stream's indexer is replaced
   (phases setters: fallback of mix_from, copy_like from a stream with several phases into a Stream,
   split_to setting the outlets' phases): then that stream gets new flow data of its own and the other
   handles stay on the old data, which keeps what was written in place before the replacement
   ([rebind_info]).  An operation is the value-level [step] on the handles' views, written back to the cells. *)
Inductive handle := HCell (j : nat) | HProxy (j : nat) (ph : phase) | HView (j : nat) (p : phase) (lbl : phase)
                  | HLink (j : nat) (phs : list phase).
Record astore := mka { cells : store; hs : list handle }.
Definition hcell (h : handle) : nat :=
  match h with HCell j => j | HProxy j _ => j | HView j _ _ => j | HLink j _ => j end.
Definition view_of (cs : store) (h : handle) : res stream :=
  match h with
  | HCell j => gets cs j
  | HProxy j ph => do s <- gets cs j;
                   match s with SS c => Ok (SS (set_cphase c ph)) | MS _ => Err EOther end
  | HView j p lbl => do s <- gets cs j;
                 match s with
                 | MS m => match pindex_exact p (mphases m) with
                           | Some i => Ok (SS (mkc (mpkg m) lbl (nth i (mrows m) [])))
                           | None => Err EOther
                           end
                 | SS _ => Err EOther
                 end
  | HLink j phs => do s <- gets cs j;
                   match s with MS m => Ok (MS (mkm (mpkg m) phs (mrows m))) | SS _ => Err EOther end
  end.
Fixpoint views (cs : store) (l : list handle) : res store :=
  match l with
  | [] => Ok []
  | h :: t => do s <- view_of cs h; do r <- views cs t; Ok (s :: r)
  end.
Definition count_on (l : list handle) (j : nat) : nat := length (filter (fun h => Nat.eqb (hcell h) j) l).
Definition exclusive (l : list handle) (k : nat) : bool :=
  match nth_error l k with
  | Some (HCell j) => Nat.eqb (count_on l j) 1
  | _ => false
  end.
Definition is_view (l : list handle) (k : nat) : bool :=
  match nth_error l k with Some (HView _ _ _) => true | _ => false end.
Definition same_cell (l : list handle) (a b : nat) : bool :=
  match nth_error l a, nth_error l b with
  | Some x, Some y => Nat.eqb (hcell x) (hcell y)
  | _, _ => false
  end.
Definition kind_at (vst : store) (k : nat) : bool :=       (* true = multi-phase *)
  match nth_error vst k with Some (MS _) => true | _ => false end.
(* which streams an operation writes to; sub-streams are receivers of separate_out, copy_flow and scale only
   (not of mix_from / split_to, which set the receiver's phase), and a history stops once a
   linked MultiStream is out of step with its rows (the phases tuple and the rows list differ in length) *)
Definition synced (s : stream) : bool :=
  match s with SS _ => true | MS m => Nat.eqb (length (mphases m)) (length (mrows m)) end.
Definition safe_op (l : list handle) (vst : store) (o : op) : bool :=
  forallb synced vst &&
  match o with
  | OMix r ins eb hf =>
    (* outside the modelled fragment (reported as findings): the multi-phase fallback re-reads inlets that
       share the receiver's data after the first, in-place mix; a multi-phase receiver reads a linked
       MultiStream through that stream's own (possibly stale) phases while it expands the shared rows *)
    let cell_of := fun k => match nth_error l k with Some h => Some (hcell h) | None => None end in
    let shares_r := fun i => negb (Nat.eqb i r) &&
                             match cell_of i, cell_of r with Some a, Some b => Nat.eqb a b | _, _ => false end in
    negb (is_view l r) &&
    negb (eb && negb (Nat.eqb hf 0) && existsb shares_r ins) &&
    negb (kind_at vst r && existsb (fun i => shares_r i && negb (is_view l i)) ins)
  | OSplit _ s1 s2 _ _ => negb (is_view l s1) && negb (is_view l s2)
  (* a sub-stream multistream[p] as the receiver of separate_out / copy_flow / scale: its ChemicalIndexer wraps the
     row object, all three write that row in place and leave the (locked) phase alone.  copy_flow into a sub-stream
     from a stream on the same flow data stays outside (the source is written back after the receiver) *)
  | OSep r _ => true
  | OCopyFlow d s _ _ _ => negb (is_view l d) || negb (same_cell l d s)
  | OCopyFlowM d _ _ _ _ _ => negb (is_view l d)
  | OScale i _ => true
  | OMul _ _ => true
  end.
(* Does the operation REPLACE the indexer of target k (phases setters), and what does it leave in the old
   flow data?  Then the stream gets new data of its own and every other handle stays on the old data. *)
Definition rebound (old new : stream) : bool :=
  match old, new with
  | SS _, SS _ => false
  | MS a, MS b => negb (phases_eqb (mphases a) (mphases b))
  | _, _ => true
  end.
Definition mix_rebind (st : store) (r : nat) (ins : list nat) (eb : bool) (hf : nat) : option stream :=
  match gets st r, gets_all st ins with
  | Ok rs, Ok all =>
    match filter (fun js => negb (isempty (snd js))) all with
    | [] => None
    | [js] =>
      if eb && negb (Nat.eqb r (fst js)) then
        match rs, snd js with
        | SS c, MS o =>
          match mphases o, mrows o with
          | [p], [r0] => None
          | _, _ => match set_phases (empty_stream rs) (mphases o) with      (* self.empty(); self.phases = ... *)
                    | Ok (MS _) => Some (empty_stream rs)
                    | _ => None
                    end
          end
        | _, _ => None
        end
      else None
    | ne =>
      if eb then
        match imol_mix_from rs (map to_inl_copy ne) with
        | Ok r1 =>
          match set_H hf r1 with
          | (r2, _, false) =>                                              (* the first mix was done in place *)
            match set_phases r2 (phase_str r2 ++
                    flat_map (fun js => if Nat.eqb r (fst js) then phase_str r2 else phase_str (snd js)) all) with
            | Ok r3 => if rebound r2 r3 then Some r2 else None
            | Err _ => None
            end
          | _ => None
          end
        | Err _ => None
        end
      else None
    end
  | _, _ => None
  end.
Definition split_rebinds (f s1 s2 : stream) (eb : bool) (s : stream) : bool :=
  match f with
  | SS _ => eb && is_multi s                                              (* s.phase = feed.phase *)
  | MS m => if eb || is_multi s1 || is_multi s2
            then match set_phases s (mphases m) with Ok o => rebound s o | Err _ => false end
            else false
  end.
Definition rebind_info (vst : store) (o : op) (k : nat) : option stream :=
  match o with
  | OMix r ins eb hf => mix_rebind vst r ins eb hf
  | OSplit f s1 s2 sp eb =>
    match gets vst f, gets vst s1, gets vst s2, gets vst k with
    | Ok fs, Ok a, Ok b, Ok s => if split_rebinds fs a b eb s then Some s else None
    | _, _, _, _ => None
    end
  | _ => None
  end.
Definition targets (o : op) : list nat :=
  match o with
  | OMix r _ _ _ => [r]
  | OSplit _ s1 s2 _ _ => [s1; s2]
  | OSep r _ => [r]
  | OCopyFlow d s _ _ _ => [d; s]
  | OCopyFlowM d s _ _ _ _ => [d; s]
  | OScale i _ => [i]
  | OMul _ _ => []
  end.
Definition write_back (a : astore) (k : nat) (s' : stream) : res astore :=
  match nth_error (hs a) k with
  | Some (HCell j) => Ok (mka (upd (cells a) j s') (hs a))
  | Some (HProxy j ph) =>
    do old <- gets (cells a) j;
    match old, s' with
    | SS c, SS c' => Ok (mka (upd (cells a) j (SS (mkc (cpkg c) (cphase c) (crow c'))))
                             (upd (hs a) k (HProxy j (cphase c'))))
    | _, _ => Err EOther
    end
  | Some (HView j p lbl) =>
    do old <- gets (cells a) j;
    match old, s' with
    | MS m, SS c' => match pindex_exact p (mphases m) with
                     | Some i => Ok (mka (upd (cells a) j (MS (mkm (mpkg m) (mphases m) (upd (mrows m) i (crow c'))))) (hs a))
                     | None => Err EOther
                     end
    | _, _ => Err EOther
    end
  | Some (HLink j phs) =>
    do old <- gets (cells a) j;
    match old, s' with
    | MS m, MS m' => Ok (mka (upd (cells a) j (MS (mkm (mpkg m) (mphases m') (mrows m'))))
                             (upd (hs a) k (HLink j (mphases m'))))
    | _, _ => Err EOther
    end
  | None => Err EIndex
  end.
(* the phases a MultiStream's NEW indexer has at the moment its phases setter re-attaches the cached sub-streams:
   for split_to the outlet's final phases; for the multi-phase fallback of mix_from the phases given to the setter -
   the second mix may expand them afterwards, and a sub-stream stays on the row object it was given *)
Definition mix_bind_phases (st : store) (r : nat) (ins : list nat) (eb : bool) (hf : nat) : option (list phase) :=
  match gets st r, gets_all st ins with
  | Ok rs, Ok all =>
    match filter (fun js => negb (isempty (snd js))) all with
    | [] => None
    | [js] => None
    | ne =>
      if eb then
        match imol_mix_from rs (map to_inl_copy ne) with
        | Ok r1 =>
          match set_H hf r1 with
          | (r2, _, false) =>
            match set_phases r2 (phase_str r2 ++
                    flat_map (fun js => if Nat.eqb r (fst js) then phase_str r2 else phase_str (snd js)) all) with
            | Ok (MS m3) => Some (mphases m3)
            | _ => None
            end
          | _ => None
          end
        | Err _ => None
        end
      else None
    end
  | _, _ => None
  end.
Definition bind_phases (vst : store) (o : op) (m' : mindexer) : list phase :=
  match o with
  | OMix r ins eb hf => match mix_bind_phases vst r ins eb hf with Some p => p | None => mphases m' end
  | _ => mphases m'
  end.
Definition write_target (a : astore) (vst vst' : store) (o : op) (k : nat) : res astore :=
  do s' <- gets vst' k;
  match rebind_info vst o k with
  | None => write_back a k s'
  | Some resid =>
    do a1 <- write_back a k resid;
    let n := length (cells a1) in
    (* MultiStream.phases setter: the cached sub-streams whose phase the new indexer has are re-pointed to
       the new rows (the others are dropped from the cache and stay on the old data) *)
    let follow := fun h =>
      match nth_error (hs a) k, s', h with
      | Some (HCell j), MS m', HView j' p lbl =>      (* streams[lbl]._imol = imol.get_phase(lbl) *)
        if Nat.eqb j j' && in_indexer lbl (bind_phases vst o m') && kind_at vst k
        then HView n (if pmem lbl (bind_phases vst o m') then lbl else swapcase lbl) lbl else h
      | _, _, _ => h
      end in
    Ok (mka (cells a1 ++ [s']) (upd (map follow (hs a1)) k (HCell n)))
  end.
Fixpoint write_all (a : astore) (vst vst' : store) (o : op) (ks : list nat) : res astore :=
  match ks with
  | [] => Ok a
  | k :: t => do a' <- write_target a vst vst' o k; write_all a' vst vst' o t
  end.
Definition astep (a : astore) (o : op) : res astore :=
  do vst <- views (cells a) (hs a);
  if negb (safe_op (hs a) vst o) then Err EOther else
  do vst' <- step vst o;
  do a' <- write_all a vst vst' o (targets o);
  match o with
  | OMul _ _ => do s <- gets vst' (length vst);               (* the product is a new, unshared stream *)
                Ok (mka (cells a' ++ [s]) (hs a' ++ [HCell (length (cells a'))]))
  | _ => Ok a'
  end.
Fixpoint arun_upto (a : astore) (ops : list op) (n : nat) : res astore * list op :=
  match n, ops with
  | S k, o :: t => match astep a o with Ok a' => arun_upto a' t k | Err e => (Err e, ops) end
  | _, _ => (Ok a, ops)
  end.

(* ---------- comparison with the implementation's observations ---------- *)
Definition pkg_eqb (a b : pkg) : bool := Nat.eqb (pid a) (pid b) && list_eqb Nat.eqb (cas a) (cas b).
Definition stream_eqb (a b : stream) : bool :=
  match a, b with
  | SS x, SS y => pkg_eqb (cpkg x) (cpkg y) && phase_eqb (cphase x) (cphase y) && vapproxb (crow x) (crow y)
  | MS x, MS y => pkg_eqb (mpkg x) (mpkg y) && phases_eqb (mphases x) (mphases y)
                  && list_eqb vapproxb (mrows x) (mrows y)
  | _, _ => false
  end.
Definition store_eqb (a b : store) : bool := list_eqb stream_eqb a b.
(* run a history; [n_ok] operations succeed; then either the history is over and the store is
   [expect], or operation number [n_ok] raises [e] *)
Fixpoint run_upto (st : store) (ops : list op) (n : nat) : res store * list op :=
  match n, ops with
  | S k, o :: t => match step st o with Ok st' => run_upto st' t k | Err e => (Err e, ops) end
  | _, _ => (Ok st, ops)
  end.
Definition run_eqb (st : store) (ops : list op) (n_ok : nat) (e : option err) (expect : store) : bool :=
  match run_upto st ops n_ok with
  | (Ok st', rest) =>
    match e, rest with
    | None, [] => store_eqb st' expect
    | Some e, o :: _ => res_eqb (fun _ _ => false) (step st' o) (Err e) && store_eqb st' expect
    | _, _ => false
    end
  | (Err _, _) => false
  end.

(* the same for histories with aliases: what every handle shows is compared *)
Definition arun_eqb (a : astore) (ops : list op) (n_ok : nat) (e : option err) (expect : store) : bool :=
  match arun_upto a ops n_ok with
  | (Ok a', rest) =>
    match views (cells a') (hs a') with
    | Ok vs =>
      match e, rest with
      | None, [] => store_eqb vs expect
      | Some e, o :: _ => res_eqb (fun _ _ => false) (astep a' o) (Err e) && store_eqb vs expect
      | _, _ => false
      end
    | Err _ => false
    end
  | (Err _, _) => false
  end.
