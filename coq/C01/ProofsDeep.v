(* C01 — deepening: copy_flow with repeated IDs; split / separate / copy / scale through aliased handles *)
From V Require Import Common.NumFacts C01.Model C01.Proofs C01.ProofsMulti C01.ProofsMix C01.ProofsOps
  C01.ProofsTotal C01.ProofsSplit C01.ProofsCopyM C01.ProofsCopy C01.ProofsAlias.

(* ---------- (2) partial IDs with repeats ---------- *)
(* "data[left] = other[right]" with repeated positions writes the same value again: the last write wins and all
   writes to one receiver position come from the same source position *)
Lemma gen_set_hit (d : vec) pr (v : vec) j k :
  (forall k', In (j, k') pr -> k' = k) -> In (j, k) pr -> (j < length d)%nat ->
  nthq (gen_pairs (fun _ x => x) d pr v) j = nthq v k.
Proof.
  unfold gen_pairs. revert d; induction pr as [|p pr IH]; intros d U I L; [destruct I|]. simpl.
  destruct (in_dec (fun a b : nat * nat => match Nat.eq_dec (fst a) (fst b), Nat.eq_dec (snd a) (snd b) with
                     | left e1, left e2 => left (eq_trans (surjective_pairing a) (eq_trans (f_equal2 pair e1 e2) (eq_sym (surjective_pairing b))))
                     | right n, _ => right (fun x => n (f_equal fst x))
                     | _, right n => right (fun x => n (f_equal snd x)) end) (j, k) pr) as [IT|NT].
  - apply IH; auto.
    + intros k' X. apply U. right; auto.
    + rewrite upd_length. auto.
  - destruct I as [E|I]; [|contradiction]. subst p. simpl.
    change (nthq (gen_pairs (fun _ x => x) (upd d j (nthq v k)) pr v) j = nthq v k).
    rewrite gen_pairs_other.
    + rewrite nthq_upd, Nat.eqb_refl. apply Nat.ltb_lt in L. rewrite L. reflexivity.
    + intros X. apply in_map_iff in X. destruct X as [[j' k'] [X1 X2]]. simpl in X1. subst j'.
      assert (k' = k) by (apply U; right; auto). subst. contradiction.
Qed.

Lemma copy_flow_partial_any self other i remove exclude d' s' :
  i <> IdAll -> copy_flow self other i remove exclude = Ok (d', s') ->
  wf_stream (SS self) -> wf_stream other -> coherent (cpkg self) (spkg other) ->
  exists b idx, select (spkg other) i exclude = Ok (b, idx) /\
  (forall c, tot d' c == (if selc (spkg other) idx c then tot other c else tot (SS self) c) /\
             tot s' c == (if remove && selc (spkg other) idx c then 0 else tot other c)).
Proof.
  intros NA H W WO CO. pose proof W as [WP [WL _]]. pose proof WO as [WPo [WLo _]]. simpl in WP, WL.
  assert (length (crow self) = psize (cpkg self)) as LS by (apply WL; left; auto).
  unfold copy_flow in H. cbv zeta in H.
  assert (match i with IdAll => False | _ => True end) as NI by (destruct i; auto).
  destruct (select (spkg other) i exclude) as [[b idx]|] eqn:SEL; [|destruct i; try contradiction; discriminate].
  exists b, idx. split; [reflexivity|]. intros c.
  assert (H' : (do row <- (if same_pkg (cpkg self) (spkg other) then Ok (set_at (crow self) idx (other_mol other))
                 else if b then Err EType
                 else do pr <- overlap (cpkg self) (spkg other)
                        (filter (fun k => negb (qzerob (nthq (other_mol other) k))
                                          || cas_mem (nth k (cas (spkg other)) O) (cas (cpkg self))) idx);
                      Ok (set_pairs (crow self) pr (other_mol other)));
                Ok (SS (mkc (cpkg self) (cphase self) row), if remove then remove_from other idx else other))
               = Ok (d', s')).
  { destruct i; [contradiction| |]; exact H. }
  clear H. destruct (other_mol_value other c WO) as [LM VM].
  assert (tot s' c == (if remove && selc (spkg other) idx c then 0 else tot other c)) as VS.
  { destruct (if same_pkg (cpkg self) (spkg other) then Ok (set_at (crow self) idx (other_mol other))
              else if b then Err EType else _) as [row|]; cbn [bind] in H'; [|discriminate].
    inversion H'; subst. destruct remove; simpl; [apply remove_from_tot; auto | reflexivity]. }
  split; [|exact VS].
  destruct (same_pkg (cpkg self) (spkg other)) eqn:SP.
  - cbn [bind] in H'. inversion H'; subst. pose proof (same_pkg_eq _ _ SP CO) as E.
    unfold tot at 1. cbn [spkg srows cpkg crow]. rewrite rows_tot_cons, rows_tot_nil.
    rewrite getc_set_at by auto. rewrite <- E.
    destruct (selc (cpkg self) idx c).
    + rewrite E. rewrite VM. lra.
    + unfold tot. simpl. rewrite rows_tot_cons, rows_tot_nil. lra.
  - destruct b; [discriminate|].
    set (idx' := filter (fun k => negb (qzerob (nthq (other_mol other) k))
                                  || cas_mem (nth k (cas (spkg other)) O) (cas (cpkg self))) idx) in *.
    destruct (overlap (cpkg self) (spkg other) idx') as [pr|] eqn:OV; cbn [bind] in H'; [|discriminate].
    inversion H'; subst. clear H'.
    destruct (overlap_spec _ _ _ _ OV) as [MS SPEC].
    assert (forall k, In k idx' -> (k < psize (spkg other))%nat) as LT'.
    { intros k I. unfold idx' in I. apply filter_In in I. destruct I as [I _]. eapply select_lt; eauto. }
    unfold tot at 1. cbn [spkg srows cpkg crow]. rewrite rows_tot_cons, rows_tot_nil.
    rewrite set_pairs_gen. unfold selc.
    unfold getc at 1. destruct (index_of c (cas (cpkg self))) as [j|] eqn:EJ.
    + destruct (index_of_Some _ _ _ EJ) as [LJ NJ].
      destruct (index_of c (cas (spkg other))) as [k|] eqn:EK.
      * destruct (index_of_Some _ _ _ EK) as [LK NK].
        destruct (existsb (Nat.eqb k) idx) eqn:IK.
        -- assert (In k idx) as IN.
           { apply existsb_exists in IK. destruct IK as [x [I E]]. apply Nat.eqb_eq in E. subst; auto. }
           assert (In k idx') as IN'.
           { unfold idx'. apply filter_In. split; auto. apply orb_true_iff. right.
             unfold cas_mem. apply existsb_exists. exists c. split; [rewrite <- NJ; apply nth_In; auto|].
             rewrite NK. apply Nat.eqb_refl. }
           assert (In (j, k) pr) as HP.
           { rewrite <- MS in IN'. apply in_map_iff in IN'. destruct IN' as [[j' k'] [X1 X2]]. simpl in X1. subst k'.
             pose proof (SPEC _ _ X2) as Y. rewrite NK, EJ in Y. inversion Y; subst; auto. }
           rewrite (gen_set_hit _ _ _ j k) by
             (try exact HP; try (unfold psize in LS; lia);
              intros k' X2; pose proof (SPEC _ _ X2) as Y; apply index_of_Some in Y; destruct Y as [_ Y]; rewrite NJ in Y;
              assert (In k' idx') as IK' by (rewrite <- MS; change k' with (snd (j, k')); apply in_map; auto);
              apply (proj1 (NoDup_nth (cas (spkg other)) O) WPo); auto; try (apply LT'; auto); congruence).
           rewrite <- VM. unfold getc. rewrite EK. lra.
        -- rewrite gen_pairs_other.
           ++ unfold tot. simpl. rewrite rows_tot_cons, rows_tot_nil. unfold getc. rewrite EJ. lra.
           ++ intros X. apply in_map_iff in X. destruct X as [[j' k'] [X1 X2]]. simpl in X1. subst j'.
              pose proof (SPEC _ _ X2) as Y. apply index_of_Some in Y. destruct Y as [_ Y]. rewrite NJ in Y.
              assert (In k' idx') as IK' by (rewrite <- MS; change k' with (snd (j, k')); apply in_map; auto).
              assert (k' = k).
              { apply (proj1 (NoDup_nth (cas (spkg other)) O) WPo); auto; try (apply LT'; auto); congruence. }
              subst k'. unfold idx' in IK'. apply filter_In in IK'. destruct IK' as [IK' _].
              assert (existsb (Nat.eqb k) idx = true); [|congruence].
              apply existsb_exists. exists k. split; auto. apply Nat.eqb_refl.
      * rewrite gen_pairs_other.
        -- unfold tot. simpl. rewrite rows_tot_cons, rows_tot_nil. unfold getc. rewrite EJ. lra.
        -- intros X. apply in_map_iff in X. destruct X as [[j' k'] [X1 X2]]. simpl in X1. subst j'.
           pose proof (SPEC _ _ X2) as Y. apply index_of_Some in Y. destruct Y as [_ Y]. rewrite NJ in Y.
           apply index_of_None in EK. apply EK. rewrite Y. apply nth_In. apply LT'.
           rewrite <- MS. change k' with (snd (j, k')). apply in_map; auto.
    + destruct (index_of c (cas (spkg other))) as [k|] eqn:EK.
      * destruct (existsb (Nat.eqb k) idx) eqn:IK.
        -- rewrite <- VM. unfold getc. rewrite EK.
           destruct (Qeq_dec (nthq (other_mol other) k) 0) as [Z|NZ]; [rewrite Z; reflexivity|]. exfalso.
           assert (In k idx) as IN.
           { apply existsb_exists in IK. destruct IK as [x [I E]]. apply Nat.eqb_eq in E. subst; auto. }
           assert (In k idx') as IN'.
           { unfold idx'. apply filter_In. split; auto. apply orb_true_iff. left.
             apply negb_true_iff. apply qzerob_false. auto. }
           rewrite <- MS in IN'. apply in_map_iff in IN'. destruct IN' as [[j' k'] [X1 X2]]. simpl in X1. subst k'.
           pose proof (SPEC _ _ X2) as Y. destruct (index_of_Some _ _ _ EK) as [_ NK]. rewrite NK in Y. congruence.
        -- unfold tot. simpl. rewrite rows_tot_cons, rows_tot_nil. unfold getc. rewrite EJ. lra.
      * unfold tot. simpl. rewrite rows_tot_cons, rows_tot_nil. unfold getc. rewrite EJ. lra.
Qed.
Lemma copy_partial_any_thm st d s i remove exclude st' :
  wf_store st -> d <> s -> i <> IdAll -> step st (OCopyFlow d s i remove exclude) = Ok st' ->
  exists ss b idx, nth_error st s = Some ss /\ select (spkg ss) i exclude = Ok (b, idx) /\
  (forall c,
     tot_at st' c d == (if selc (spkg ss) idx c then tot_at st c s else tot_at st c d) /\
     tot_at st' c s == (if remove && selc (spkg ss) idx c then 0 else tot_at st c s)) /\
  forall k, k <> d -> k <> s -> nth_error st' k = nth_error st k.
Proof.
  intros [WS CO] NE NA H. destruct (step_copy_flow_inv _ _ _ _ _ _ _ H) as [c0 [ss [[d' s'] [ND [NS [CF E]]]]]].
  simpl in E. subst st'.
  assert (In (SS c0) st) as ID by (eapply nth_error_In; eauto).
  assert (In ss st) as IS by (eapply nth_error_In; eauto).
  assert (d < length st)%nat as LD by (apply nth_error_Some; congruence).
  assert (s < length st)%nat as LS by (apply nth_error_Some; congruence).
  destruct (copy_flow_partial_any _ _ _ _ _ _ _ NA CF (WS _ ID) (WS _ IS) (CO _ _ ID IS)) as [b [idx [SEL V]]].
  exists ss, b, idx. split; auto. split; auto. split.
  - intros c. destruct (V c) as [V1 V2].
    rewrite tot_at_upd_other by auto. rewrite tot_at_upd_same by auto.
    rewrite tot_at_upd_same by (rewrite upd_length; auto).
    unfold tot_at. rewrite ND, NS. auto.
  - intros k K1 K2. rewrite nth_error_upd_other by auto. rewrite nth_error_upd_other by auto. reflexivity.
Qed.

(* ---------- (1) operations through aliased handles ---------- *)
Lemma write_back_hs_other a k s a' q : write_back a k s = Ok a' -> q <> k -> nth_error (hs a') q = nth_error (hs a) q.
Proof.
  unfold write_back. destruct (nth_error (hs a) k) as [[j|j ph|j p lbl|j phs]|]; intros H N; try discriminate.
  - inversion H; subst; reflexivity.
  - destruct (gets (cells a) j) as [[c|m]|]; simpl in H; try discriminate. destruct s; [|discriminate].
    inversion H; subst; simpl. apply nth_error_upd_other. auto.
  - destruct (gets (cells a) j) as [[c|m]|]; simpl in H; try discriminate. destruct s; [|discriminate].
    destruct (pindex_exact p (mphases m)); simpl in H; [|discriminate]. inversion H; subst; reflexivity.
  - destruct (gets (cells a) j) as [[c|m]|]; simpl in H; try discriminate. destruct s; [discriminate|].
    inversion H; subst; simpl. apply nth_error_upd_other. auto.
Qed.

Lemma view_of_frame cs cs' h : nth_error cs' (hcell h) = nth_error cs (hcell h) -> view_of cs' h = view_of cs h.
Proof. intros E. destruct h; simpl in *; unfold gets; rewrite E; reflexivity. Qed.

(* the generic single-target step: an operation that writes one non-sub-stream handle in place *)
Lemma astep_one_target a o a' vst k h s :
  views (cells a) (hs a) = Ok vst -> nth_error (hs a) k = Some h ->
  (match h with HView _ _ _ => False | _ => True end) ->
  targets o = [k] -> rebind_info vst o k = None -> (match o with OMul _ _ => False | _ => True end) ->
  step vst o = Ok (upd vst k s) -> (forall rs, nth_error vst k = Some rs -> spkg s = spkg rs) ->
  astep a o = Ok a' ->
  exists x, nth_error (cells a') (hcell h) = Some x /\ spkg x = spkg s /\ srows x = srows s /\
    (forall j', j' <> hcell h -> nth_error (cells a') j' = nth_error (cells a) j') /\
    length (hs a') = length (hs a).
Proof.
  intros V NH NV TG NRB NM ST PK H. unfold astep in H. rewrite V in H. cbn [bind] in H.
  destruct (safe_op (hs a) vst o); cbn [negb] in H; [|discriminate].
  rewrite ST in H. cbn [bind] in H. rewrite TG in H. cbn [write_all] in H.
  destruct (views_nth _ _ _ V) as [LV NVW]. destruct (NVW k h NH) as [rs [VO NR]].
  assert (k < length vst)%nat as LK by (apply nth_error_Some; congruence).
  unfold write_target in H. unfold gets at 1 in H. rewrite nth_error_upd_same in H by auto. cbn [bind] in H.
  rewrite NRB in H.
  destruct (write_back a k s) as [a1|] eqn:WB; cbn [bind] in H; [|discriminate].
  assert (a' = a1) as EA by (destruct o; try contradiction; inversion H; reflexivity). subst a1.
  apply (write_back_receiver _ _ _ _ _ _ NH NV VO (PK rs NR) WB).
Qed.

(* separate_out through handles *)
Lemma alias_sep_value a r o a' vst h :
  views (cells a) (hs a) = Ok vst -> wf_store vst -> nth_error (hs a) r = Some h -> r <> o ->
  (match h with HView _ _ _ => False | _ => True end) ->
  astep a (OSep r o) = Ok a' ->
  exists x, nth_error (cells a') (hcell h) = Some x /\
    (forall c, tot x c == tot_at vst c r - tot_at vst c o) /\
    (forall j', j' <> hcell h -> nth_error (cells a') j' = nth_error (cells a) j') /\
    length (hs a') = length (hs a).
Proof.
  intros V WS NH NE NV H. pose proof WS as [WS1 CO].
  assert (exists st', step vst (OSep r o) = Ok st') as [st' ST].
  { unfold astep in H. rewrite V in H. cbn [bind] in H. destruct (safe_op _ _ _); cbn [negb] in H; [|discriminate].
    destruct (step vst (OSep r o)); [eauto | discriminate]. }
  pose proof ST as ST0. simpl in ST.
  destruct (gets vst r) as [rs|] eqn:GR; cbn [bind] in ST; [|discriminate].
  destruct (gets vst o) as [os|] eqn:GO; cbn [bind] in ST; [|discriminate].
  assert (Nat.eqb r o = false) as EB by (apply Nat.eqb_neq; auto). rewrite EB in ST.
  destruct (imol_separate_out rs os) as [s|] eqn:SEP; cbn [bind] in ST; [|discriminate].
  inversion ST; subst st'.
  apply gets_ok in GR. apply gets_ok in GO.
  assert (In rs vst) as IR by (eapply nth_error_In; eauto).
  assert (In os vst) as IO by (eapply nth_error_In; eauto).
  destruct (separate_value _ _ _ SEP (WS1 _ IR) (WS1 _ IO) (CO _ _ IR IO)) as [PS [_ VS]].
  destruct (astep_one_target a (OSep r o) a' vst r h s V NH NV eq_refl eq_refl I ST0) as [x [NX [PX [RX [FR LH]]]]]; auto.
  { intros rs' N. rewrite GR in N. inversion N; subst. exact PS. }
  exists x. split; auto. split; auto.
  intros c. rewrite (tot_same_rows x s c PX RX). rewrite VS. unfold tot_at. rewrite GR, GO. reflexivity.
Qed.

(* scale through handles *)
Lemma alias_scale_value a i k a' vst h :
  views (cells a) (hs a) = Ok vst -> nth_error (hs a) i = Some h ->
  (match h with HView _ _ _ => False | _ => True end) ->
  astep a (OScale i k) = Ok a' ->
  exists x, nth_error (cells a') (hcell h) = Some x /\
    (forall c, tot x c == k * tot_at vst c i) /\
    (forall j', j' <> hcell h -> nth_error (cells a') j' = nth_error (cells a) j') /\
    length (hs a') = length (hs a).
Proof.
  intros V NH NV H.
  destruct (views_nth _ _ _ V) as [LV NVW]. destruct (NVW i h NH) as [rs [VO NR]].
  assert (step vst (OScale i k) = Ok (upd vst i (scale k rs))) as ST
    by (simpl; unfold gets; rewrite NR; reflexivity).
  destruct (astep_one_target a (OScale i k) a' vst i h (scale k rs) V NH NV eq_refl eq_refl I ST) as [x [NX [PX [RX [FR LH]]]]]; auto.
  { intros rs' N. rewrite NR in N. inversion N; subst. destruct rs'; reflexivity. }
  exists x. split; auto. split; auto.
  intros c. rewrite (tot_same_rows x (scale k rs) c PX RX). rewrite scale_value_lemma. unfold tot_at. rewrite NR. reflexivity.
Qed.

(* the generic two-target step (split_to, copy_flow): both targets written in place, on different cells *)
Lemma astep_two_targets a o a' vst k1 k2 h1 h2 s1 s2 :
  views (cells a) (hs a) = Ok vst -> nth_error (hs a) k1 = Some h1 -> nth_error (hs a) k2 = Some h2 ->
  (match h1 with HView _ _ _ => False | _ => True end) -> (match h2 with HView _ _ _ => False | _ => True end) ->
  k1 <> k2 -> hcell h1 <> hcell h2 ->
  targets o = [k1; k2] -> rebind_info vst o k1 = None -> rebind_info vst o k2 = None ->
  (match o with OMul _ _ => False | _ => True end) ->
  step vst o = Ok (upd (upd vst k1 s1) k2 s2) ->
  (forall rs, nth_error vst k1 = Some rs -> spkg s1 = spkg rs) ->
  (forall rs, nth_error vst k2 = Some rs -> spkg s2 = spkg rs) ->
  astep a o = Ok a' ->
  exists x1 x2, nth_error (cells a') (hcell h1) = Some x1 /\ spkg x1 = spkg s1 /\ srows x1 = srows s1 /\
                nth_error (cells a') (hcell h2) = Some x2 /\ spkg x2 = spkg s2 /\ srows x2 = srows s2 /\
    (forall j', j' <> hcell h1 -> j' <> hcell h2 -> nth_error (cells a') j' = nth_error (cells a) j') /\
    length (hs a') = length (hs a).
Proof.
  intros V N1 N2 NV1 NV2 NK NC TG RB1 RB2 NM ST P1 P2 H. unfold astep in H. rewrite V in H. cbn [bind] in H.
  destruct (safe_op (hs a) vst o); cbn [negb] in H; [|discriminate].
  rewrite ST in H. cbn [bind] in H. rewrite TG in H. cbn [write_all] in H.
  destruct (views_nth _ _ _ V) as [LV NVW].
  destruct (NVW k1 h1 N1) as [r1 [VO1 NR1]]. destruct (NVW k2 h2 N2) as [r2 [VO2 NR2]].
  assert (k1 < length vst)%nat as L1 by (apply nth_error_Some; congruence).
  assert (k2 < length vst)%nat as L2 by (apply nth_error_Some; congruence).
  unfold write_target at 1 in H. unfold gets at 1 in H.
  rewrite nth_error_upd_other in H by auto. rewrite nth_error_upd_same in H by auto. cbn [bind] in H. rewrite RB1 in H.
  destruct (write_back a k1 s1) as [a1|] eqn:WB1; cbn [bind] in H; [|discriminate].
  destruct (write_back_receiver _ _ _ _ _ _ N1 NV1 VO1 (P1 r1 NR1) WB1) as [x1 [NX1 [PX1 [RX1 [FR1 LH1]]]]].
  unfold write_target in H. unfold gets at 1 in H.
  rewrite nth_error_upd_same in H by (rewrite upd_length; auto). cbn [bind] in H. rewrite RB2 in H.
  destruct (write_back a1 k2 s2) as [a2|] eqn:WB2; cbn [bind] in H; [|discriminate].
  assert (a' = a2) as EA by (destruct o; try contradiction; inversion H; reflexivity). subst a2.
  assert (nth_error (hs a1) k2 = Some h2) as N2' by (rewrite (write_back_hs_other _ _ _ _ k2 WB1); auto).
  assert (view_of (cells a1) h2 = Ok r2) as VO2'.
  { rewrite (view_of_frame (cells a) (cells a1) h2); [exact VO2|]. apply FR1. auto. }
  destruct (write_back_receiver _ _ _ _ _ _ N2' NV2 VO2' (P2 r2 NR2) WB2) as [x2 [NX2 [PX2 [RX2 [FR2 LH2]]]]].
  exists x1, x2. split; [rewrite FR2 by auto; exact NX1|]. split; auto. split; auto. split; auto. split; auto. split; auto.
  split; [|lia]. intros j' J1 J2. rewrite FR2 by auto. apply FR1. auto.
Qed.

Lemma copy_flow_all_pkg self other remove d' s' : copy_flow self other IdAll remove false = Ok (d', s') ->
  spkg d' = cpkg self /\ spkg s' = spkg other.
Proof.
  unfold copy_flow. cbv zeta. intros H.
  destruct (if same_pkg (cpkg self) (spkg other) then Ok (other_mol other) else remap (cpkg self) (spkg other) (other_mol other)) as [row|];
    cbn [bind] in H; [|discriminate].
  inversion H; subst. split; [reflexivity|]. destruct remove; [destruct other; reflexivity | reflexivity].
Qed.

(* copy with removal (everything) through handles on different flow data *)
Lemma alias_copy_remove a d s a' vst hd hsrc :
  views (cells a) (hs a) = Ok vst -> wf_store vst ->
  nth_error (hs a) d = Some hd -> nth_error (hs a) s = Some hsrc ->
  (match hd with HView _ _ _ => False | _ => True end) ->
  (match hsrc with HView _ _ _ => False | _ => True end) ->
  d <> s -> hcell hd <> hcell hsrc ->
  astep a (OCopyFlow d s IdAll true false) = Ok a' ->
  exists x1 x2, nth_error (cells a') (hcell hd) = Some x1 /\ nth_error (cells a') (hcell hsrc) = Some x2 /\
    (forall c, tot x1 c == tot_at vst c s /\ tot x2 c == 0) /\
    (forall j', j' <> hcell hd -> j' <> hcell hsrc -> nth_error (cells a') j' = nth_error (cells a) j') /\
    length (hs a') = length (hs a).
Proof.
  intros V WS ND NS NVD NVS NE NC H.
  assert (exists st', step vst (OCopyFlow d s IdAll true false) = Ok st') as [st' ST].
  { unfold astep in H. rewrite V in H. cbn [bind] in H. destruct (safe_op _ _ _); cbn [negb] in H; [|discriminate].
    destruct (step vst (OCopyFlow d s IdAll true false)); [eauto | discriminate]. }
  destruct (step_copy_flow_inv _ _ _ _ _ _ _ ST) as [c0 [ss [[d' s'] [NVD' [NVS' [CF E]]]]]]. simpl in E.
  destruct (copy_flow_all_pkg _ _ _ _ _ CF) as [PD PS].
  pose proof (copy_remove_lemma _ _ _ _ WS NE ST) as CR.
  rewrite E in ST.
  destruct (astep_two_targets a (OCopyFlow d s IdAll true false) a' vst d s hd hsrc d' s' V ND NS NVD NVS NE NC eq_refl eq_refl eq_refl I ST)
    as [x1 [x2 [N1 [P1 [R1 [N2 [P2 [R2 [FR LH]]]]]]]]]; auto.
  { intros rs N. rewrite NVD' in N. inversion N; subst. exact PD. }
  { intros rs N. rewrite NVS' in N. inversion N; subst. exact PS. }
  exists x1, x2. split; auto. split; auto. split; auto.
  intros c. destruct (CR c) as [C1 [C2 _]]. subst st'.
  assert (d < length vst)%nat as LD by (apply nth_error_Some; congruence).
  assert (s < length vst)%nat as LS by (apply nth_error_Some; congruence).
  rewrite tot_at_upd_other in C1 by auto. rewrite tot_at_upd_same in C1 by auto.
  rewrite tot_at_upd_same in C2 by (rewrite upd_length; auto).
  rewrite (tot_same_rows x1 d' c P1 R1), (tot_same_rows x2 s' c P2 R2). auto.
Qed.

(* split_to keeps the outlets' packages *)
Lemma put_values_pkg fpkg values out a : put_values fpkg values out = Ok a -> spkg a = spkg out.
Proof.
  unfold put_values. destruct out as [c|m].
  - destruct (same_pkg (cpkg c) fpkg); [intros H; inversion H; reflexivity|].
    destruct (remap (cpkg c) fpkg values); simpl; intros H; inversion H; reflexivity.
  - destruct (same_pkg (mpkg m) fpkg); [discriminate|]. destruct (row_any values).
    + destruct (overlap (mpkg m) fpkg (nz_keys values)); simpl; discriminate.
    + intros H; inversion H; reflexivity.
Qed.
Lemma fill_rows_pkg fpkg rows o1 a : fill_rows fpkg rows o1 = Ok a -> spkg a = spkg o1.
Proof.
  unfold fill_rows. destruct o1 as [c|m].
  - destruct rows as [|r [|r2 t]]; try discriminate. apply put_values_pkg.
  - destruct (same_pkg (mpkg m) fpkg); [intros H; inversion H; reflexivity|].
    destruct (remap_rows (mpkg m) fpkg rows); simpl; intros H; inversion H; reflexivity.
Qed.
Lemma split_to_pkg f s1 s2 sp eb a b : split_to f s1 s2 sp eb = Ok (a, b) -> spkg a = spkg s1 /\ spkg b = spkg s2.
Proof.
  assert (forall fpkg fphase frow eb0, split_single fpkg fphase frow s1 s2 sp eb0 = Ok (a, b) -> spkg a = spkg s1 /\ spkg b = spkg s2) as SS1.
  { intros fpkg fphase frow eb0 H. unfold split_single in H.
    destruct (put_values fpkg _ (if eb0 then to_single s1 fphase else s1)) as [x|] eqn:E1; cbn [bind] in H; [|discriminate].
    destruct (put_values fpkg _ (if eb0 then to_single s2 fphase else s2)) as [y|] eqn:E2; cbn [bind] in H; [|discriminate].
    inversion H; subst. rewrite (put_values_pkg _ _ _ _ E1), (put_values_pkg _ _ _ _ E2).
    destruct eb0; rewrite ?to_single_pkg; auto. }
  unfold split_to. destruct f as [c|m]; [apply SS1|].
  destruct (eb || is_multi s1 || is_multi s2); [|apply SS1].
  intros H.
  destruct (set_phases s1 (mphases m)) as [o1|] eqn:P1; cbn [bind] in H; [|discriminate].
  destruct (set_phases s2 (mphases m)) as [o2|] eqn:P2; cbn [bind] in H; [|discriminate].
  destruct (fill_rows (mpkg m) _ o1) as [x|] eqn:F1; cbn [bind] in H; [|discriminate].
  destruct (fill_rows (mpkg m) _ o2) as [y|] eqn:F2; cbn [bind] in H; [|discriminate].
  inversion H; subst.
  rewrite (fill_rows_pkg _ _ _ _ F1), (fill_rows_pkg _ _ _ _ F2), (set_phases_pkg _ _ _ P1), (set_phases_pkg _ _ _ P2). auto.
Qed.

(* split_to through handles: outlets on different flow data, written in place (no phases setter replaces an
   outlet's indexer); the feed may be any handle, also one that shares an outlet's data *)
Lemma alias_split_value a f s1 s2 sp eb a' vst h1 h2 fs :
  views (cells a) (hs a) = Ok vst -> wf_store vst ->
  nth_error (hs a) s1 = Some h1 -> nth_error (hs a) s2 = Some h2 -> nth_error vst f = Some fs ->
  s1 <> s2 -> hcell h1 <> hcell h2 ->
  rebind_info vst (OSplit f s1 s2 sp eb) s1 = None -> rebind_info vst (OSplit f s1 s2 sp eb) s2 = None ->
  length (split_vec (psize (spkg fs)) sp) = psize (spkg fs) ->
  astep a (OSplit f s1 s2 sp eb) = Ok a' ->
  exists x1 x2, nth_error (cells a') (hcell h1) = Some x1 /\ nth_error (cells a') (hcell h2) = Some x2 /\
    (forall c, tot x1 c == split_part fs sp c /\ tot x2 c == tot fs c - split_part fs sp c) /\
    (forall j', j' <> hcell h1 -> j' <> hcell h2 -> nth_error (cells a') j' = nth_error (cells a) j') /\
    length (hs a') = length (hs a).
Proof.
  intros V WS N1 N2 NF NE NC RB1 RB2 LS H. pose proof WS as [WS1 CO].
  assert ((match h1 with HView _ _ _ => False | _ => True end) /\ (match h2 with HView _ _ _ => False | _ => True end)) as [NV1 NV2].
  { unfold astep in H. rewrite V in H. cbn [bind] in H.
    destruct (safe_op (hs a) vst (OSplit f s1 s2 sp eb)) eqn:SAFE; cbn [negb] in H; [|discriminate].
    simpl in SAFE. apply andb_true_iff in SAFE. destruct SAFE as [_ S1]. apply andb_true_iff in S1. destruct S1 as [A B].
    unfold is_view in A, B. rewrite N1 in A. rewrite N2 in B. split; [destruct h1 | destruct h2]; auto; discriminate. }
  assert (exists st', step vst (OSplit f s1 s2 sp eb) = Ok st') as [st' ST].
  { unfold astep in H. rewrite V in H. cbn [bind] in H. destruct (safe_op _ _ _); cbn [negb] in H; [|discriminate].
    destruct (step vst (OSplit f s1 s2 sp eb)); [eauto | discriminate]. }
  pose proof ST as ST0. simpl in ST. unfold gets in ST. rewrite NF in ST. cbn [bind] in ST.
  destruct (nth_error vst s1) as [o1|] eqn:G1; cbn [bind] in ST; [|discriminate].
  destruct (nth_error vst s2) as [o2|] eqn:G2; cbn [bind] in ST; [|discriminate].
  destruct (split_to fs o1 o2 sp eb) as [[xa xb]|] eqn:SP; cbn [bind] in ST; [|discriminate].
  inversion ST; subst st'. simpl in ST0.
  destruct (split_to_pkg _ _ _ _ _ _ _ SP) as [PA PB].
  assert (In fs vst) as IF by (eapply nth_error_In; eauto).
  assert (In o1 vst) as I1 by (eapply nth_error_In; eauto).
  assert (In o2 vst) as I2 by (eapply nth_error_In; eauto).
  destruct (astep_two_targets a (OSplit f s1 s2 sp eb) a' vst s1 s2 h1 h2 xa xb V N1 N2 NV1 NV2 NE NC eq_refl RB1 RB2 I)
    as [x1 [x2 [NX1 [P1 [R1 [NX2 [P2 [R2 [FR LH]]]]]]]]]; auto.
  { intros rs N. rewrite G1 in N. inversion N; subst. exact PA. }
  { intros rs N. rewrite G2 in N. inversion N; subst. exact PB. }
  exists x1, x2. split; auto. split; auto. split; auto.
  intros c. rewrite (tot_same_rows x1 xa c P1 R1), (tot_same_rows x2 xb c P2 R2).
  destruct (split_to_value _ _ _ _ _ _ _ SP (WS1 _ IF) (WS1 _ I1) (WS1 _ I2) (CO _ _ I1 IF) (CO _ _ I2 IF) LS c) as [A [B _]].
  auto.
Qed.

(* every handle reads its cell: what each kind of stream object shows of a cell's current content *)
Lemma handles_read_cell cs j x :
  nth_error cs j = Some x ->
  view_of cs (HCell j) = Ok x /\
  (forall ph c, x = SS c -> view_of cs (HProxy j ph) = Ok (SS (mkc (cpkg c) ph (crow c)))) /\
  (forall phs m, x = MS m -> view_of cs (HLink j phs) = Ok (MS (mkm (mpkg m) phs (mrows m)))) /\
  (forall p lbl m i, x = MS m -> pindex_exact p (mphases m) = Some i ->
     view_of cs (HView j p lbl) = Ok (SS (mkc (mpkg m) lbl (nth i (mrows m) [])))).
Proof.
  intros N. unfold view_of, gets. rewrite N. cbn [bind]. split; [reflexivity|]. split; [|split].
  - intros ph c E. subst. reflexivity.
  - intros phs m E. subst. reflexivity.
  - intros p lbl m i E PI. subst. rewrite PI. reflexivity.
Qed.

(* copy_flow keeps both packages *)
Lemma copy_flow_pkg self other i remove exclude d' s' : copy_flow self other i remove exclude = Ok (d', s') ->
  spkg d' = cpkg self /\ spkg s' = spkg other.
Proof.
  assert (forall idx, spkg (if remove then remove_from other idx else other) = spkg other) as RM
    by (intros idx; destruct remove; [destruct other; reflexivity | reflexivity]).
  unfold copy_flow. cbv zeta. destruct i as [|c|l].
  - destruct exclude; [intros H; inversion H; auto|].
    destruct (if same_pkg _ _ then _ else _) as [row|]; cbn [bind]; [|discriminate].
    intros H; inversion H; subst. split; [reflexivity|]. destruct remove; [destruct other; reflexivity | reflexivity].
  - destruct (select (spkg other) (IdOne c) exclude) as [sel|]; cbn [bind]; [|discriminate].
    destruct (if same_pkg _ _ then _ else _) as [row|]; cbn [bind]; [|discriminate].
    intros H; inversion H; subst. split; [reflexivity | apply RM].
  - destruct (select (spkg other) (IdList l) exclude) as [sel|]; cbn [bind]; [|discriminate].
    destruct (if same_pkg _ _ then _ else _) as [row|]; cbn [bind]; [|discriminate].
    intros H; inversion H; subst. split; [reflexivity | apply RM].
Qed.

(* copy_flow with partial IDs / exclude (repeats allowed) through handles on different flow data *)
Lemma alias_copy_partial a d s i remove exclude a' vst hd hsrc :
  views (cells a) (hs a) = Ok vst -> wf_store vst ->
  nth_error (hs a) d = Some hd -> nth_error (hs a) s = Some hsrc ->
  (match hd with HView _ _ _ => False | _ => True end) ->
  (match hsrc with HView _ _ _ => False | _ => True end) ->
  d <> s -> hcell hd <> hcell hsrc -> i <> IdAll ->
  astep a (OCopyFlow d s i remove exclude) = Ok a' ->
  exists ss b idx x1 x2, nth_error vst s = Some ss /\ select (spkg ss) i exclude = Ok (b, idx) /\
    nth_error (cells a') (hcell hd) = Some x1 /\ nth_error (cells a') (hcell hsrc) = Some x2 /\
    (forall c, tot x1 c == (if selc (spkg ss) idx c then tot_at vst c s else tot_at vst c d) /\
               tot x2 c == (if remove && selc (spkg ss) idx c then 0 else tot_at vst c s)) /\
    (forall j', j' <> hcell hd -> j' <> hcell hsrc -> nth_error (cells a') j' = nth_error (cells a) j') /\
    length (hs a') = length (hs a).
Proof.
  intros V WS ND NS NVD NVS NE NC NA H.
  assert (exists st', step vst (OCopyFlow d s i remove exclude) = Ok st') as [st' ST].
  { unfold astep in H. rewrite V in H. cbn [bind] in H. destruct (safe_op _ _ _); cbn [negb] in H; [|discriminate].
    destruct (step vst (OCopyFlow d s i remove exclude)); [eauto | discriminate]. }
  destruct (step_copy_flow_inv _ _ _ _ _ _ _ ST) as [c0 [ss [[d' s'] [NVD' [NVS' [CF E]]]]]]. simpl in E.
  destruct (copy_flow_pkg _ _ _ _ _ _ _ CF) as [PD PS].
  destruct (copy_partial_any_thm _ _ _ _ _ _ _ WS NE NA ST) as [ss' [b [idx [NS' [SEL [CR _]]]]]].
  rewrite NVS' in NS'. inversion NS'; subst ss'.
  rewrite E in ST.
  destruct (astep_two_targets a (OCopyFlow d s i remove exclude) a' vst d s hd hsrc d' s' V ND NS NVD NVS NE NC eq_refl eq_refl eq_refl I ST)
    as [x1 [x2 [N1 [P1 [R1 [N2 [P2 [R2 [FR LH]]]]]]]]]; auto.
  { intros rs N. rewrite NVD' in N. inversion N; subst. exact PD. }
  { intros rs N. rewrite NVS' in N. inversion N; subst. exact PS. }
  exists ss, b, idx, x1, x2. split; auto. split; auto. split; auto. split; auto. split; auto.
  intros c. destruct (CR c) as [C1 C2]. subst st'.
  assert (d < length vst)%nat as LD by (apply nth_error_Some; congruence).
  assert (s < length vst)%nat as LS by (apply nth_error_Some; congruence).
  rewrite tot_at_upd_other in C1 by auto. rewrite tot_at_upd_same in C1 by auto.
  rewrite tot_at_upd_same in C2 by (rewrite upd_length; auto).
  rewrite (tot_same_rows x1 d' c P1 R1), (tot_same_rows x2 s' c P2 R2). auto.
Qed.

(* ---------- non-negativity of both outlets for the full split_to (either feed class) ---------- *)
Lemma split_to_nonneg f s1 s2 sp eb a b :
  split_to f s1 s2 sp eb = Ok (a, b) ->
  wf_stream f -> wf_stream s1 -> wf_stream s2 ->
  coherent (spkg s1) (spkg f) -> coherent (spkg s2) (spkg f) ->
  length (split_vec (psize (spkg f)) sp) = psize (spkg f) ->
  (forall r, In r (srows f) -> forall i, 0 <= nthq r i) ->
  (forall i, 0 <= nthq (split_vec (psize (spkg f)) sp) i <= 1) ->
  forall c, 0 <= tot a c /\ 0 <= tot b c.
Proof.
  intros H WF W1 W2 C1 C2 LS NF NS c.
  destruct (split_to_value _ _ _ _ _ _ _ H WF W1 W2 C1 C2 LS c) as [VA [VB _]].
  rewrite VA, VB. destruct WF as [_ [WL _]].
  unfold tot, split_part, rows_tot. rewrite map_map.
  assert (forall r, In r (srows f) ->
            0 <= getc (spkg f) (vmul r (split_vec (length r) sp)) c /\
            0 <= getc (spkg f) r c - getc (spkg f) (vmul r (split_vec (length r) sp)) c) as ROW.
  { intros r I. rewrite (WL r I). unfold getc. destruct (index_of c (cas (spkg f))) as [i|]; [|lra].
    rewrite nthq_vmul by (rewrite LS; apply WL; auto).
    pose proof (NF r I i) as F0. pose proof (NS i) as S0.
    set (x := nthq r i) in *. set (y := nthq (split_vec (psize (spkg f)) sp) i) in *. split; nra. }
  clear - ROW. induction (srows f) as [|r rows IH]; simpl; [lra|].
  destruct (ROW r (or_introl eq_refl)) as [A B].
  destruct IH as [IA IB]; [intros; apply ROW; right; auto|].
  unfold qsum in *. split; lra.
Qed.

(* ---------- well-formedness is an invariant of every operation, hence of every history ---------- *)
Lemma wf_store_upd st k old s : wf_store st -> nth_error st k = Some old -> wf_stream s -> spkg s = spkg old ->
  wf_store (upd st k s).
Proof.
  intros [WS CO] N W P. assert (In old st) as IO by (eapply nth_error_In; eauto). split.
  - intros x I. apply In_upd in I. destruct I; [subst; auto | auto].
  - intros x y IX IY. apply In_upd in IX. apply In_upd in IY.
    destruct IX as [EX|IX], IY as [EY|IY]; subst; rewrite ?P; auto; try (intros _; reflexivity).
Qed.
Lemma wf_store_app st old s : wf_store st -> In old st -> wf_stream s -> spkg s = spkg old -> wf_store (st ++ [s]).
Proof.
  intros [WS CO] IO W P. split.
  - intros x I. apply in_app_iff in I. destruct I as [I|[E|[]]]; [auto | subst; auto].
  - intros x y IX IY. apply in_app_iff in IX. apply in_app_iff in IY.
    destruct IX as [IX|[EX|[]]], IY as [IY|[EY|[]]]; subst; rewrite ?P; auto; try (intros _; reflexivity).
Qed.

Lemma wf_scale k s : wf_stream s -> wf_stream (scale k s).
Proof.
  intros [WP [WL [LE SO]]]. destruct (scale_rows_lemma k s) as [P [PH R]].
  unfold wf_stream. rewrite P, PH, R. split; auto. split; [|split; auto].
  - intros r I. apply in_map_iff in I. destruct I as [r0 [E I]]. subst. rewrite vscale_length. auto.
  - rewrite map_length. auto.
Qed.

Lemma wf_remove_from other idx : wf_stream other -> wf_stream (remove_from other idx).
Proof.
  intros [WP [WL [LE SO]]]. destruct other as [o|o]; simpl in *.
  - apply wf_single; auto. rewrite zero_at_length. apply WL; auto.
  - split; [exact WP|]. split; [|split]; simpl; auto.
    + intros r I. apply in_map_iff in I. destruct I as [r0 [E I]]. subst. rewrite zero_at_length. auto.
    + rewrite map_length. auto.
Qed.

Lemma copy_flow_wf self other i remove exclude d' s' : copy_flow self other i remove exclude = Ok (d', s') ->
  wf_stream (SS self) -> wf_stream other -> coherent (cpkg self) (spkg other) ->
  wf_stream d' /\ wf_stream s'.
Proof.
  intros H W WO CO. pose proof W as [WP [WL _]]. pose proof WO as [WPo _]. simpl in WP, WL.
  assert (length (crow self) = psize (cpkg self)) as LS by (apply WL; left; auto).
  destruct (other_mol_value other 0%nat WO) as [LM _].
  assert (forall idx, wf_stream (if remove then remove_from other idx else other)) as RM
    by (intros idx; destruct remove; [apply wf_remove_from; auto | auto]).
  unfold copy_flow in H. cbv zeta in H.
  assert (forall sel : bool * list nat, (do row <- (if same_pkg (cpkg self) (spkg other) then Ok (set_at (crow self) (snd sel) (other_mol other))
             else if fst sel then Err EType
             else do pr <- overlap (cpkg self) (spkg other)
                    (filter (fun k => negb (qzerob (nthq (other_mol other) k))
                                      || cas_mem (nth k (cas (spkg other)) O) (cas (cpkg self))) (snd sel));
                  Ok (set_pairs (crow self) pr (other_mol other)));
            Ok (SS (mkc (cpkg self) (cphase self) row), if remove then remove_from other (snd sel) else other)) = Ok (d', s') ->
          wf_stream d' /\ wf_stream s') as PART.
  { intros sel H0. destruct (same_pkg (cpkg self) (spkg other)).
    - cbn [bind] in H0. inversion H0; subst. split; [|apply RM]. apply wf_single; auto. rewrite set_at_length. auto.
    - destruct (fst sel); [discriminate|]. destruct (overlap _ _ _) as [pr|]; cbn [bind] in H0; [|discriminate].
      inversion H0; subst. split; [|apply RM]. apply wf_single; auto. rewrite set_pairs_gen, gen_pairs_length. auto. }
  destruct i as [|c|l].
  - destruct exclude; [inversion H; subst; auto|].
    destruct (same_pkg (cpkg self) (spkg other)) eqn:SP.
    + cbn [bind] in H. inversion H; subst. split.
      * apply wf_single; auto. rewrite (same_pkg_eq _ _ SP CO). auto.
      * destruct remove; [apply wf_empty; auto | auto].
    + destruct (remap (cpkg self) (spkg other) (other_mol other)) as [row|] eqn:RMP; cbn [bind] in H; [|discriminate].
      inversion H; subst. destruct (remap_getc _ _ _ _ RMP WP WPo LM) as [L _]. split.
      * apply wf_single; auto.
      * destruct remove; [apply wf_empty; auto | auto].
  - destruct (select (spkg other) (IdOne c) exclude) as [sel|]; cbn [bind] in H; [|discriminate]. apply (PART sel H).
  - destruct (select (spkg other) (IdList l) exclude) as [sel|]; cbn [bind] in H; [|discriminate]. apply (PART sel H).
Qed.

Lemma put_values_wf fpkg values out a : put_values fpkg values out = Ok a ->
  wf_pkg fpkg -> wf_stream out -> coherent (spkg out) fpkg -> length values = psize fpkg -> wf_stream a.
Proof.
  intros H WF WO CO LV. pose proof WO as [WP _]. unfold put_values in H. destruct out as [c|m]; simpl in *.
  - destruct (same_pkg (cpkg c) fpkg) eqn:SP.
    + inversion H; subst. apply wf_single; auto. rewrite (same_pkg_eq _ _ SP CO). auto.
    + destruct (remap (cpkg c) fpkg values) as [r|] eqn:RM; simpl in H; [|discriminate]. inversion H; subst.
      destruct (remap_getc _ _ _ _ RM WP WF LV) as [L _]. apply wf_single; auto.
  - destruct (same_pkg (mpkg m) fpkg); [discriminate|]. destruct (row_any values).
    + destruct (overlap (mpkg m) fpkg (nz_keys values)); simpl in H; discriminate.
    + inversion H; subst. apply (wf_empty (MS m)); auto.
Qed.
Lemma to_single_wf s p : wf_stream s -> wf_stream (to_single s p).
Proof.
  intros [WP [WL _]]. destruct s as [c|m]; simpl in *.
  - apply wf_single; auto.
  - apply wf_single; auto. apply vsum_length; auto.
Qed.
Lemma split_single_wf fpkg fphase frow s1 s2 sp eb a b :
  split_single fpkg fphase frow s1 s2 sp eb = Ok (a, b) ->
  wf_pkg fpkg -> length frow = psize fpkg -> length (split_vec (length frow) sp) = length frow ->
  wf_stream s1 -> wf_stream s2 -> coherent (spkg s1) fpkg -> coherent (spkg s2) fpkg ->
  wf_stream a /\ wf_stream b.
Proof.
  intros H WF LF LS W1 W2 C1 C2. unfold split_single in H.
  set (o1 := if eb then to_single s1 fphase else s1) in *.
  set (o2 := if eb then to_single s2 fphase else s2) in *.
  assert (wf_stream o1 /\ spkg o1 = spkg s1) as [WO1 P1]
    by (unfold o1; destruct eb; [split; [apply to_single_wf; auto | apply to_single_pkg] | auto]).
  assert (wf_stream o2 /\ spkg o2 = spkg s2) as [WO2 P2]
    by (unfold o2; destruct eb; [split; [apply to_single_wf; auto | apply to_single_pkg] | auto]).
  destruct (put_values fpkg _ o1) as [x|] eqn:E1; cbn [bind] in H; [|discriminate].
  destruct (put_values fpkg _ o2) as [y|] eqn:E2; cbn [bind] in H; [|discriminate].
  inversion H; subst.
  assert (length (vmul frow (split_vec (length frow) sp)) = length frow) as LM by (apply map2_length; lia).
  split.
  - eapply put_values_wf; eauto; [rewrite P1; auto | lia].
  - eapply put_values_wf; eauto; [rewrite P2; auto |]. unfold vsub. rewrite map2_length; lia.
Qed.

Lemma phases_eqb_eq a b : phases_eqb a b = true -> a = b.
Proof.
  unfold phases_eqb. revert b; induction a as [|x a IH]; intros [|y b] H; simpl in H; try discriminate; auto.
  apply andb_true_iff in H. destruct H as [H1 H2]. apply phase_eqb_eq in H1. subst. f_equal. auto.
Qed.
Lemma set_phases_multi_phases s phs m1 : set_phases s phs = Ok (MS m1) -> wf_stream s ->
  mphases m1 = psort phs.
Proof.
  unfold set_phases. intros H W. destruct s as [c|m].
  - destruct (psort phs) as [|p [|p' t]] eqn:EP; try discriminate;
      (destruct (c_to_material c _) as [m0|] eqn:E; simpl in H; [|discriminate]; inversion H; subst;
       unfold c_to_material in E; destruct (row_any (crow c));
       [destruct (phase_index _ _); simpl in E; [|discriminate]|]; inversion E; reflexivity).
  - destruct (psort phs) as [|p [|p' t]] eqn:EP; try discriminate;
      (destruct (phases_eqb _ (mphases m)) eqn:PE;
       [inversion H; subst; symmetry; apply phases_eqb_eq; auto|];
       destruct (m_to_material m _) as [m0|] eqn:E; simpl in H; [|discriminate]; inversion H; subst;
       unfold m_to_material in E; destruct (m_to_material_rows _ _ _ _); simpl in E; [|discriminate];
       inversion E; reflexivity).
Qed.

Lemma fill_rows_wf fpkg rows o1 a : fill_rows fpkg rows o1 = Ok a ->
  wf_pkg fpkg -> wf_stream o1 -> coherent (spkg o1) fpkg ->
  (forall r, In r rows -> length r = psize fpkg) ->
  (forall m, o1 = MS m -> length rows = length (mphases m)) -> wf_stream a.
Proof.
  intros H WF WO CO L LP. pose proof WO as [WP [_ [_ SO]]]. unfold fill_rows in H. destruct o1 as [c|m]; simpl in WP, CO, SO.
  - destruct rows as [|r [|r2 t]]; try discriminate. apply (put_values_wf fpkg r (SS c) a H WF WO CO). apply L. left; auto.
  - destruct (same_pkg (mpkg m) fpkg) eqn:SP.
    + inversion H; subst. split; [exact WP|]. split; [|split]; simpl; auto.
      * intros r I. rewrite (same_pkg_eq _ _ SP CO). auto.
      * symmetry. apply LP. reflexivity.
    + destruct (remap_rows (mpkg m) fpkg rows) as [rows'|] eqn:E; simpl in H; [|discriminate]. inversion H; subst.
      destruct (remap_rows_value _ _ _ _ E WP WF L) as [LL [LR _]].
      split; [exact WP|]. split; [|split]; simpl; auto. rewrite LL. symmetry. apply LP. reflexivity.
Qed.

Lemma split_to_wf f s1 s2 sp eb a b :
  split_to f s1 s2 sp eb = Ok (a, b) ->
  wf_stream f -> wf_stream s1 -> wf_stream s2 ->
  coherent (spkg s1) (spkg f) -> coherent (spkg s2) (spkg f) ->
  length (split_vec (psize (spkg f)) sp) = psize (spkg f) ->
  wf_stream a /\ wf_stream b.
Proof.
  intros H WF W1 W2 C1 C2 LS. pose proof WF as [WPf [WLf [LEf SOf]]].
  destruct f as [c0|m]; unfold split_to in H; simpl in WPf, WLf, LEf, SOf, C1, C2, LS.
  - assert (length (crow c0) = psize (cpkg c0)) as LC by (apply WLf; left; auto).
    eapply split_single_wf; eauto. rewrite LC. auto.
  - destruct (eb || is_multi s1 || is_multi s2).
    + destruct (split_rows_map (mrows m) sp) as [F S]. rewrite F, S in H.
      destruct (set_phases s1 (mphases m)) as [o1|] eqn:SP1; cbn [bind] in H; [|discriminate].
      destruct (set_phases s2 (mphases m)) as [o2|] eqn:SP2; cbn [bind] in H; [|discriminate].
      destruct (set_phases_wf _ _ _ SP1 W1) as [WO1 PO1]. destruct (set_phases_wf _ _ _ SP2 W2) as [WO2 PO2].
      destruct (fill_rows (mpkg m) _ o1) as [x|] eqn:F1; cbn [bind] in H; [|discriminate].
      destruct (fill_rows (mpkg m) _ o2) as [y|] eqn:F2; cbn [bind] in H; [|discriminate].
      inversion H; subst x y.
      assert (forall r, In r (mrows m) -> length (vmul r (split_vec (length r) sp)) = psize (mpkg m)) as LV.
      { intros r I. rewrite (WLf r I). unfold vmul. rewrite map2_length; [apply WLf; auto|]. rewrite LS. apply WLf; auto. }
      split.
      * eapply fill_rows_wf; eauto; [rewrite PO1; auto | |].
        -- intros r I. apply in_map_iff in I. destruct I as [r0 [E I]]. subst. auto.
        -- intros m1 E. subst o1. rewrite (set_phases_multi_phases _ _ _ SP1 W1), (psort_id _ SOf), map_length. auto.
      * eapply fill_rows_wf; eauto; [rewrite PO2; auto | |].
        -- intros r I. apply in_map_iff in I. destruct I as [r0 [E I]]. subst.
           unfold vsub. rewrite map2_length; [apply WLf; auto|]. rewrite LV by auto. apply WLf; auto.
        -- intros m1 E. subst o2. rewrite (set_phases_multi_phases _ _ _ SP2 W2), (psort_id _ SOf), map_length. auto.
    + assert (length (vsum (psize (mpkg m)) (mrows m)) = psize (mpkg m)) as LC by (apply vsum_length; auto).
      eapply split_single_wf; eauto. rewrite LC. auto.
Qed.

Lemma mapi_in {A B} (f : nat -> A -> B) l x : In x (mapi f l) -> exists k r, In r l /\ x = f k r.
Proof.
  unfold mapi. intros I. apply in_map_iff in I. destruct I as [[k r] [E I]]. exists k, r. split; auto.
  eapply in_combine_r; eauto.
Qed.
Lemma value_row_in orows k v : value_row orows k = Some v -> In v orows.
Proof.
  unfold value_row. destruct orows as [|r [|r2 t]]; intros H.
  - destruct k; discriminate.
  - inversion H; left; auto.
  - eapply nth_error_In; eauto.
Qed.
Lemma keep_at_length (v : vec) idx : length (keep_at v idx) = length v.
Proof. unfold keep_at. rewrite set_at_length. apply vzero_length. Qed.

Lemma wf_multi pk phases rows : wf_pkg pk -> ssorted phases -> length phases = length rows ->
  (forall r, In r rows -> length r = psize pk) -> wf_stream (MS (mkm pk phases rows)).
Proof. intros. split; [auto|]. split; [|split]; simpl; auto. Qed.

Lemma copy_flow_m_wf self other ps i remove exclude d' s' :
  copy_flow_m self other ps i remove exclude = Ok (d', s') ->
  wf_stream (MS self) -> wf_stream other -> coherent (mpkg self) (spkg other) ->
  wf_stream d' /\ wf_stream s' /\ spkg d' = mpkg self /\ spkg s' = spkg other.
Proof.
  intros H W WO CO. pose proof W as [WP [WL [LE SO]]]. pose proof WO as [WPo [WLo [LEo SOo]]].
  simpl in WP, WL, LE, SO. unfold copy_flow_m in H.
  destruct (same_ids (mpkg self) (spkg other)) eqn:SI; cbn [negb] in H; [|discriminate].
  pose proof (same_ids_cas _ _ SI CO) as ECAS.
  assert (psize (spkg other) = psize (mpkg self)) as EPS by (unfold psize; rewrite ECAS; reflexivity).
  destruct (ids_index (mpkg self) i) as [idx|]; cbn [bind] in H; [|discriminate].
  destruct (phase_sel (mphases self) ps) as [sel|]; cbn [bind] in H; [|discriminate].
  cbv zeta in H.
  assert (forall (f : nat -> vec -> vec) rows, (forall k r, In r rows -> length (f k r) = psize (mpkg self)) ->
          forall x, In x (mapi f rows) -> length x = psize (mpkg self)) as MI.
  { intros f rows Hf x I. apply mapi_in in I. destruct I as [k [r [IR E]]]. subst. auto. }
  destruct other as [o|o]; simpl in WPo, WLo, LEo, SOo, EPS, ECAS.
  - destruct (phase_index (cphase o) (mphases self)) as [opi|] eqn:PI; cbn [bind] in H; [|discriminate].
    assert (length (crow o) = psize (mpkg self)) as LO by (rewrite <- EPS; apply WLo; left; auto).
    assert (forall x, wf_stream (SS (mkc (cpkg o) (cphase o) x)) <-> length x = psize (cpkg o)) as WSS.
    { intros x. split; [intros [_ [L _]]; apply L; left; auto | intros L; apply wf_single; auto]. }
    destruct exclude; inversion H; subst; clear H; (split; [|split; [|split; reflexivity]]).
    + apply wf_multi; auto; [rewrite mapi_length, upd_length; auto|].
      apply MI. intros k r I. destruct (row_selected sel k); [rewrite set_at_length|];
        (apply In_upd in I; destruct I as [I|I]; [subst; auto | auto]).
    + apply WSS. destruct (remove && _); [destruct i; rewrite ?vzero_length, ?keep_at_length|]; lia.
    + apply wf_multi; auto.
      * destruct (match sel with None => true | Some pi => Nat.eqb pi opi end); rewrite ?upd_length, map_length; auto.
      * intros x I. destruct (match sel with None => true | Some pi => Nat.eqb pi opi end).
        -- apply In_upd in I. destruct I as [I|I].
           ++ subst. rewrite set_at_length.
              rewrite nth_zero_rows by (rewrite <- LE; eapply phase_index_lt; eauto). rewrite vzero_length.
              apply WL. apply nth_In. rewrite <- LE. eapply phase_index_lt; eauto.
           ++ apply in_map_iff in I. destruct I as [r [E I]]. subst. rewrite vzero_length. auto.
        -- apply in_map_iff in I. destruct I as [r [E I]]. subst. rewrite vzero_length. auto.
    + apply WSS. destruct (_ && remove); [rewrite zero_at_length|]; lia.
  - simpl in H.
    destruct (match sel with
              | Some pi => if (remove || negb exclude) && negb (Nat.ltb pi (length (mrows o))) then Err EIndex else Ok tt
              | None => Ok tt end) as [u|]; cbn [bind] in H; [|discriminate].
    assert (forall r, In r (mrows o) -> length r = psize (mpkg self)) as LOr by (intros r I; rewrite <- EPS; auto).
    assert (forall rows', length rows' = length (mrows o) -> (forall x, In x rows' -> length x = psize (mpkg o)) ->
            wf_stream (MS (mkm (mpkg o) (mphases o) rows'))) as WMS.
    { intros rows' L1 L2. apply wf_multi; auto. lia. }
    destruct exclude; inversion H; subst; clear H; (split; [|split; [|split; reflexivity]]).
    + apply wf_multi; auto; [rewrite !mapi_length; auto|].
      apply MI. intros k r I. apply mapi_in in I. destruct I as [k' [r' [IR E]]]. subst.
      assert (length (match value_row (mrows o) k' with Some v => v | None => r' end) = psize (mpkg self)) as LX.
      { destruct (value_row (mrows o) k') eqn:VR; [apply LOr; eapply value_row_in; eauto | auto]. }
      destruct (row_selected sel k); [rewrite set_at_length|]; auto.
    + destruct remove; [|exact WO]. apply WMS; [apply mapi_length|].
      intros x I. apply mapi_in in I. destruct I as [k [r [IR E]]]. subst.
      destruct (row_selected sel k); [destruct i; rewrite ?vzero_length, ?keep_at_length | rewrite vzero_length]; auto.
    + apply wf_multi; auto.
      * destruct sel; rewrite mapi_length; auto.
      * destruct sel as [pi|]; apply MI; intros k r I.
        -- destruct (Nat.eqb pi k); [rewrite set_at_length|]; auto.
        -- destruct (value_row (mrows o) k); [rewrite set_at_length|]; auto.
    + destruct remove; [|exact WO]. apply WMS; [apply mapi_length|].
      intros x I. apply mapi_in in I. destruct I as [k [r [IR E]]]. subst.
      destruct (row_selected sel k); [rewrite zero_at_length|]; auto.
Qed.

Definition split_len_ok (st : store) (o : op) : Prop :=
  match o with
  | OSplit f _ _ sp _ => forall fs, nth_error st f = Some fs -> length (split_vec (psize (spkg fs)) sp) = psize (spkg fs)
  | _ => True
  end.

(* every operation keeps the store well formed (so every per-step theorem applies at every step of a history) *)
Lemma step_wf st o st' : wf_store st -> split_len_ok st o -> step st o = Ok st' -> wf_store st'.
Proof.
  intros WS SL H. pose proof WS as [WS1 CO]. destruct o as [r ins eb hf|f s1 s2 sp eb|r o|d s i remove exclude|d s ps i remove exclude|i k|i k].
  - simpl in H. destruct (mix st r ins eb hf) as [x|] eqn:MX; cbn [bind] in H; [|discriminate]. inversion H; subst.
    assert (exists rs, nth_error st r = Some rs) as [rs N].
    { unfold mix in MX. destruct (gets st r) eqn:G; [|discriminate]. apply gets_ok in G. eauto. }
    destruct (mix_result_thm _ _ _ _ _ _ _ WS N MX) as [P W]. eapply wf_store_upd; eauto.
  - simpl in H. unfold gets in H.
    destruct (nth_error st f) as [fs|] eqn:NF; cbn [bind] in H; [|discriminate].
    destruct (nth_error st s1) as [a|] eqn:N1; cbn [bind] in H; [|discriminate].
    destruct (nth_error st s2) as [b|] eqn:N2; cbn [bind] in H; [|discriminate].
    destruct (split_to fs a b sp eb) as [[xa xb]|] eqn:SP; cbn [bind] in H; [|discriminate]. inversion H; subst. simpl.
    assert (In fs st) as IF by (eapply nth_error_In; eauto).
    assert (In a st) as IA by (eapply nth_error_In; eauto).
    assert (In b st) as IB by (eapply nth_error_In; eauto).
    destruct (split_to_pkg _ _ _ _ _ _ _ SP) as [PA PB].
    destruct (split_to_wf _ _ _ _ _ _ _ SP (WS1 _ IF) (WS1 _ IA) (WS1 _ IB) (CO _ _ IA IF) (CO _ _ IB IF) (SL fs NF)) as [WA WB].
    assert (wf_store (upd st s1 xa)) as W1 by (eapply wf_store_upd; eauto).
    destruct (Nat.eq_dec s1 s2) as [E|NE].
    + subst s2. assert (s1 < length st)%nat by (apply nth_error_Some; congruence).
      eapply (wf_store_upd (upd st s1 xa) s1 xa); eauto; [apply nth_error_upd_same; auto | congruence].
    + eapply (wf_store_upd (upd st s1 xa) s2 b); eauto. rewrite nth_error_upd_other; auto.
  - simpl in H. unfold gets in H.
    destruct (nth_error st r) as [rs|] eqn:NR; cbn [bind] in H; [|discriminate].
    destruct (nth_error st o) as [os|] eqn:NO; cbn [bind] in H; [|discriminate].
    assert (In rs st) as IR by (eapply nth_error_In; eauto).
    assert (In os st) as IO by (eapply nth_error_In; eauto).
    destruct (Nat.eqb r o).
    + inversion H; subst. eapply wf_store_upd; eauto; [apply wf_empty; auto | apply spkg_empty].
    + destruct (imol_separate_out rs os) as [x|] eqn:SEP; cbn [bind] in H; [|discriminate]. inversion H; subst.
      destruct (separate_value _ _ _ SEP (WS1 _ IR) (WS1 _ IO) (CO _ _ IR IO)) as [P [W _]]. eapply wf_store_upd; eauto.
  - destruct (step_copy_flow_inv _ _ _ _ _ _ _ H) as [c0 [ss [[d' s'] [ND [NS [CF E]]]]]]. simpl in E. subst st'.
    assert (In (SS c0) st) as ID by (eapply nth_error_In; eauto).
    assert (In ss st) as IS by (eapply nth_error_In; eauto).
    destruct (copy_flow_pkg _ _ _ _ _ _ _ CF) as [PD PS].
    destruct (copy_flow_wf _ _ _ _ _ _ _ CF (WS1 _ ID) (WS1 _ IS) (CO _ _ ID IS)) as [WD WS'].
    assert (wf_store (upd st d d')) as W1 by (eapply wf_store_upd; eauto).
    destruct (Nat.eq_dec d s) as [E|NE].
    + subst s. assert (d < length st)%nat by (apply nth_error_Some; congruence).
      eapply (wf_store_upd (upd st d d') d d'); eauto; [apply nth_error_upd_same; auto|].
      rewrite PS. rewrite ND in NS. inversion NS; subst. simpl. auto.
    + eapply (wf_store_upd (upd st d d') s ss); eauto. rewrite nth_error_upd_other; auto.
  - simpl in H. unfold gets in H.
    destruct (nth_error st d) as [ds|] eqn:ND; cbn [bind] in H; [|discriminate].
    destruct (nth_error st s) as [ss|] eqn:NS; cbn [bind] in H; [|discriminate].
    destruct ds as [c|m]; [discriminate|].
    destruct (copy_flow_m m ss ps i remove exclude) as [[d' s']|] eqn:CF; cbn [bind] in H; [|discriminate].
    inversion H; subst. simpl.
    assert (In (MS m) st) as ID by (eapply nth_error_In; eauto).
    assert (In ss st) as IS by (eapply nth_error_In; eauto).
    destruct (copy_flow_m_wf _ _ _ _ _ _ _ _ CF (WS1 _ ID) (WS1 _ IS) (CO _ _ ID IS)) as [WD [WS' [PD PS]]].
    assert (wf_store (upd st d d')) as W1 by (eapply wf_store_upd; eauto).
    destruct (Nat.eq_dec d s) as [E|NE].
    + subst s. assert (d < length st)%nat by (apply nth_error_Some; congruence).
      eapply (wf_store_upd (upd st d d') d d'); eauto; [apply nth_error_upd_same; auto|].
      rewrite PS, PD. rewrite ND in NS. inversion NS; subst. reflexivity.
    + eapply (wf_store_upd (upd st d d') s ss); eauto. rewrite nth_error_upd_other; auto.
  - simpl in H. unfold gets in H. destruct (nth_error st i) as [s|] eqn:N; cbn [bind] in H; [|discriminate].
    inversion H; subst. assert (In s st) by (eapply nth_error_In; eauto).
    eapply wf_store_upd; eauto; [apply wf_scale; auto | destruct s; reflexivity].
  - simpl in H. unfold gets in H. destruct (nth_error st i) as [s|] eqn:N; cbn [bind] in H; [|discriminate].
    inversion H; subst. assert (In s st) by (eapply nth_error_In; eauto).
    eapply wf_store_app; eauto; [apply wf_scale; auto | destruct s; reflexivity].
Qed.

(* the same for a whole history: all intermediate stores are well formed *)
Fixpoint split_lens_ok (st : store) (ops : list op) : Prop :=
  match ops with
  | [] => True
  | o :: t => split_len_ok st o /\ forall st', step st o = Ok st' -> split_lens_ok st' t
  end.
Lemma run_wf ops : forall st st', wf_store st -> split_lens_ok st ops -> run st ops = Ok st' -> wf_store st'.
Proof.
  induction ops as [|o t IH]; intros st st' W SL H; simpl in H.
  - inversion H; subst; auto.
  - destruct (step st o) as [st1|] eqn:ST; cbn [bind] in H; [|discriminate].
    destruct SL as [S1 S2]. apply (IH st1 st'); auto. eapply step_wf; eauto.
Qed.

(* history-level corollary: after ANY history of operations from a well-formed store, a mix conserves *)
Lemma history_mix_value ops st st1 r ins eb hf r' :
  wf_store st -> split_lens_ok st ops -> run st ops = Ok st1 -> mix st1 r ins eb hf = Ok r' ->
  forall c, tot r' c == qsum (map (tot_at st1 c) ins).
Proof. intros W SL R MX. apply (mix_value_thm st1 r ins eb hf r'); auto. eapply run_wf; eauto. Qed.

(* ---------- a sub-stream as the source of a copy with removal ---------- *)
Lemma write_back_view_spec a k j p lbl m i c' a' :
  nth_error (hs a) k = Some (HView j p lbl) -> nth_error (cells a) j = Some (MS m) ->
  pindex_exact p (mphases m) = Some i -> write_back a k (SS c') = Ok a' ->
  cells a' = upd (cells a) j (MS (mkm (mpkg m) (mphases m) (upd (mrows m) i (crow c')))) /\ hs a' = hs a.
Proof.
  intros NH NC PI H. unfold write_back in H. rewrite NH in H. unfold gets in H. rewrite NC in H. cbn [bind] in H.
  rewrite PI in H. inversion H; subst. auto.
Qed.

Lemma alias_copy_remove_from_substream a d s a' vst hd j p lbl m i :
  views (cells a) (hs a) = Ok vst -> wf_store vst -> wf_stream (MS m) ->
  nth_error (hs a) d = Some hd -> nth_error (hs a) s = Some (HView j p lbl) ->
  nth_error (cells a) j = Some (MS m) -> pindex_exact p (mphases m) = Some i ->
  (match hd with HView _ _ _ => False | _ => True end) ->
  d <> s -> hcell hd <> j ->
  astep a (OCopyFlow d s IdAll true false) = Ok a' ->
  exists x1 x2, nth_error (cells a') (hcell hd) = Some x1 /\ nth_error (cells a') j = Some x2 /\
    (forall c, tot x1 c == tot_at vst c s /\ tot x2 c == tot (MS m) c - tot_at vst c s) /\
    (forall j', j' <> hcell hd -> j' <> j -> nth_error (cells a') j' = nth_error (cells a) j').
Proof.
  intros V WS WM ND NS NCJ PI NVD NE NC H.
  pose proof H as H0. unfold astep in H. rewrite V in H. cbn [bind] in H.
  destruct (safe_op (hs a) vst (OCopyFlow d s IdAll true false)); cbn [negb] in H; [|discriminate].
  destruct (step vst (OCopyFlow d s IdAll true false)) as [st'|] eqn:ST; cbn [bind] in H; [|discriminate].
  destruct (step_copy_flow_inv _ _ _ _ _ _ _ ST) as [c0 [ss [[d' s'] [NVD' [NVS' [CF E]]]]]]. simpl in E.
  destruct (copy_flow_all_pkg _ _ _ _ _ CF) as [PD PS].
  pose proof (copy_remove_lemma _ _ _ _ WS NE ST) as CR. subst st'.
  destruct (views_nth _ _ _ V) as [LV NVW].
  destruct (NVW d hd ND) as [rd [VOD NRD]]. destruct (NVW s _ NS) as [rsv [VOS NRS]].
  rewrite NVD' in NRD. inversion NRD; subst rd. rewrite NVS' in NRS. inversion NRS; subst rsv.
  assert (d < length vst)%nat as LD by (apply nth_error_Some; congruence).
  assert (s < length vst)%nat as LS by (apply nth_error_Some; congruence).
  (* what the sub-stream showed, and the value written back through it *)
  simpl in VOS. unfold gets in VOS. rewrite NCJ in VOS. cbn [bind] in VOS. rewrite PI in VOS. inversion VOS; subst ss.
  assert (s' = SS (mkc (mpkg m) lbl (vzero (length (nth i (mrows m) []))))) as ES'.
  { unfold copy_flow in CF. cbv zeta in CF. destruct (if same_pkg _ _ then _ else _); cbn [bind] in CF; [|discriminate].
    inversion CF; reflexivity. }
  cbn [targets write_all] in H.
  unfold write_target at 1 in H. unfold gets at 1 in H.
  rewrite nth_error_upd_other in H by auto. rewrite nth_error_upd_same in H by auto. cbn [bind rebind_info] in H.
  destruct (write_back a d d') as [a1|] eqn:WB1; cbn [bind] in H; [|discriminate].
  destruct (write_back_receiver _ _ _ _ _ _ ND NVD VOD PD WB1) as [x1 [NX1 [PX1 [RX1 [FR1 LH1]]]]].
  unfold write_target in H. unfold gets at 1 in H.
  rewrite nth_error_upd_same in H by (rewrite upd_length; auto). cbn [bind rebind_info] in H.
  destruct (write_back a1 s s') as [a2|] eqn:WB2; cbn [bind] in H; [|discriminate]. inversion H; subst a2. clear H.
  assert (nth_error (hs a1) s = Some (HView j p lbl)) as NS1 by (rewrite (write_back_hs_other _ _ _ _ s WB1); auto).
  assert (nth_error (cells a1) j = Some (MS m)) as NCJ1 by (rewrite FR1; auto).
  rewrite ES' in WB2.
  destruct (write_back_view_spec _ _ _ _ _ _ _ _ _ NS1 NCJ1 PI WB2) as [EC EH].
  assert (j < length (cells a1))%nat as LJ by (apply nth_error_Some; congruence).
  exists x1, (MS (mkm (mpkg m) (mphases m) (upd (mrows m) i (vzero (length (nth i (mrows m) [])))))).
  split; [rewrite EC; rewrite nth_error_upd_other by auto; exact NX1|].
  split; [rewrite EC; apply nth_error_upd_same; auto|].
  split.
  - intros c. destruct (CR c) as [C1 [C2 _]].
    rewrite tot_at_upd_other in C1 by auto. rewrite tot_at_upd_same in C1 by auto.
    rewrite (tot_same_rows x1 d' c PX1 RX1). split; [exact C1|].
    destruct WM as [_ [_ [LE _]]]. simpl in LE.
    assert (i < length (mrows m))%nat as LI by (rewrite <- LE; apply pindex_exact_Some in PI; tauto).
    unfold tot at 1 2. cbn [spkg srows mpkg mrows]. rewrite rows_tot_upd by auto. rewrite getc_vzero.
    unfold tot_at. rewrite NVS'. unfold tot. cbn [spkg srows cpkg crow]. rewrite rows_tot_cons, rows_tot_nil. lra.
  - intros j' J1 J2. rewrite EC. rewrite nth_error_upd_other by auto. apply FR1. auto.
Qed.

(* ---------- split_to through handles, also when an outlet's indexer is replaced ---------- *)
Definition nonview (h : handle) : Prop := match h with HView _ _ _ => False | _ => True end.

Lemma view_of_lt cs h y : view_of cs h = Ok y -> (hcell h < length cs)%nat.
Proof.
  destruct h; simpl; unfold gets; destruct (nth_error cs j) eqn:E; try discriminate; intros _;
    apply nth_error_Some; congruence.
Qed.

(* what the written handle shows after an in-place write *)
Lemma write_back_view_after a k h s rs a' :
  nth_error (hs a) k = Some h -> nonview h -> view_of (cells a) h = Ok rs -> spkg s = spkg rs ->
  write_back a k s = Ok a' ->
  exists h' y, nth_error (hs a') k = Some h' /\ nonview h' /\ hcell h' = hcell h /\
    view_of (cells a') h' = Ok y /\ spkg y = spkg s /\ srows y = srows s /\
    (forall j', j' <> hcell h -> nth_error (cells a') j' = nth_error (cells a) j') /\
    length (cells a') = length (cells a) /\
    (forall q, q <> k -> nth_error (hs a') q = nth_error (hs a) q) /\ length (hs a') = length (hs a).
Proof.
  intros NH NV VO PK WB. pose proof (write_back_lengths _ _ _ _ WB) as [LH LC].
  pose proof (fun q N => write_back_hs_other _ _ _ _ q WB N) as HO.
  assert (k < length (hs a))%nat as LK by (apply nth_error_Some; congruence).
  unfold write_back in WB. rewrite NH in WB.
  destruct h as [j|j ph|j p lbl|j phs]; [| |contradiction|]; simpl in *.
  - inversion WB; subst a'. simpl in *.
    assert (j < length (cells a))%nat as L by (eapply gets_lt; eauto).
    exists (HCell j), s. split; auto. split; [exact I|]. split; auto.
    split; [simpl; unfold gets; rewrite nth_error_upd_same by auto; reflexivity|].
    split; auto. split; auto. split; [intros j' N; apply nth_error_upd_other; auto|]. auto.
  - destruct (gets (cells a) j) as [old|] eqn:G; simpl in *; [|discriminate].
    assert (j < length (cells a))%nat as L by (eapply gets_lt; eauto).
    destruct old as [c|m]; [|discriminate]. inversion VO; subst rs. simpl in PK.
    destruct s as [c'|m']; [|discriminate]. inversion WB; subst a'. simpl in *.
    exists (HProxy j (cphase c')), (SS (mkc (cpkg c) (cphase c') (crow c'))).
    split; [apply nth_error_upd_same; auto|]. split; [exact I|]. split; auto.
    split; [simpl; unfold gets; rewrite nth_error_upd_same by auto; reflexivity|].
    split; [simpl; auto|]. split; auto. split; [intros j' N; apply nth_error_upd_other; auto|]. auto.
  - destruct (gets (cells a) j) as [old|] eqn:G; simpl in *; [|discriminate].
    assert (j < length (cells a))%nat as L by (eapply gets_lt; eauto).
    destruct old as [c|m]; [discriminate|]. inversion VO; subst rs. simpl in PK.
    destruct s as [c'|m']; [discriminate|]. inversion WB; subst a'. simpl in *.
    exists (HLink j (mphases m')), (MS (mkm (mpkg m) (mphases m') (mrows m'))).
    split; [apply nth_error_upd_same; auto|]. split; [exact I|]. split; auto.
    split; [simpl; unfold gets; rewrite nth_error_upd_same by auto; reflexivity|].
    split; [simpl; auto|]. split; auto. split; [intros j' N; apply nth_error_upd_other; auto|]. auto.
Qed.

(* ... and after a write that may replace the indexer *)
Lemma write_target_view_after a vst vst' o k h s rs a' :
  nth_error (hs a) k = Some h -> nonview h -> view_of (cells a) h = Ok rs -> gets vst' k = Ok s ->
  spkg s = spkg rs -> (forall resid, rebind_info vst o k = Some resid -> spkg resid = spkg rs) ->
  write_target a vst vst' o k = Ok a' ->
  exists h' y, nth_error (hs a') k = Some h' /\ nonview h' /\
    view_of (cells a') h' = Ok y /\ spkg y = spkg s /\ srows y = srows s /\
    (hcell h' = hcell h \/ (length (cells a) <= hcell h')%nat) /\
    (forall j', j' <> hcell h -> (j' < length (cells a))%nat -> nth_error (cells a') j' = nth_error (cells a) j') /\
    (length (cells a) <= length (cells a'))%nat /\
    (forall q hq, q <> k -> nth_error (hs a) q = Some hq -> nonview hq -> nth_error (hs a') q = Some hq).
Proof.
  intros NH NV VO GS PK PR H. unfold write_target in H. rewrite GS in H. cbn [bind] in H.
  destruct (rebind_info vst o k) as [resid|] eqn:RB.
  - destruct (write_back a k resid) as [a1|] eqn:WB; cbn [bind] in H; [|discriminate]. inversion H; subst a'. clear H.
    destruct (write_back_view_after _ _ _ _ _ _ NH NV VO (PR resid eq_refl) WB)
      as [h1 [y1 [N1 [NV1 [HC1 [V1 [_ [_ [FR1 [LC1 [HO1 LH1]]]]]]]]]]].
    assert (k < length (hs a))%nat as LK by (apply nth_error_Some; congruence).
    exists (HCell (length (cells a1))), s. simpl.
    split; [apply nth_error_upd_same; rewrite map_length; lia|]. split; [exact I|].
    split; [unfold gets; rewrite nth_error_app2 by lia; rewrite Nat.sub_diag; reflexivity|].
    split; auto. split; auto. split; [right; lia|].
    split; [intros j' N L; rewrite nth_error_app1 by lia; apply FR1; auto|].
    split; [rewrite app_length; simpl; lia|].
    intros q hq NQ NHq NVq. rewrite nth_error_upd_other by auto. rewrite nth_error_map. rewrite (HO1 q NQ), NHq. simpl.
    destruct (nth_error (hs a) k) as [[jj| | |]|]; destruct s; destruct hq; try reflexivity; contradiction.
  - destruct (write_back_view_after _ _ _ _ _ _ NH NV VO PK H)
      as [h1 [y1 [N1 [NV1 [HC1 [V1 [P1 [R1 [FR1 [LC1 [HO1 LH1]]]]]]]]]]].
    exists h1, y1. split; auto. split; auto. split; auto. split; auto. split; auto. split; [left; auto|].
    split; [intros j' N _; apply FR1; auto|]. split; [lia|].
    intros q hq NQ NHq _. rewrite (HO1 q NQ). exact NHq.
Qed.

Lemma alias_split_views a f s1 s2 sp eb a' vst h1 h2 fs :
  views (cells a) (hs a) = Ok vst -> wf_store vst ->
  nth_error (hs a) s1 = Some h1 -> nth_error (hs a) s2 = Some h2 -> nth_error vst f = Some fs ->
  s1 <> s2 -> hcell h1 <> hcell h2 ->
  length (split_vec (psize (spkg fs)) sp) = psize (spkg fs) ->
  astep a (OSplit f s1 s2 sp eb) = Ok a' ->
  exists h1' h2' y1 y2,
    nth_error (hs a') s1 = Some h1' /\ view_of (cells a') h1' = Ok y1 /\
    nth_error (hs a') s2 = Some h2' /\ view_of (cells a') h2' = Ok y2 /\
    forall c, tot y1 c == split_part fs sp c /\ tot y2 c == tot fs c - split_part fs sp c.
Proof.
  intros V WS N1 N2 NF NE NC LS H. pose proof WS as [WS1 CO].
  unfold astep in H. rewrite V in H. cbn [bind] in H.
  destruct (safe_op (hs a) vst (OSplit f s1 s2 sp eb)) eqn:SAFE; cbn [negb] in H; [|discriminate].
  assert (nonview h1 /\ nonview h2) as [NV1 NV2].
  { simpl in SAFE. apply andb_true_iff in SAFE. destruct SAFE as [_ S1]. apply andb_true_iff in S1. destruct S1 as [A B].
    unfold is_view in A, B. rewrite N1 in A. rewrite N2 in B. split; [destruct h1 | destruct h2]; simpl; auto; discriminate. }
  destruct (step vst (OSplit f s1 s2 sp eb)) as [st'|] eqn:ST; cbn [bind] in H; [|discriminate].
  pose proof ST as ST0. simpl in ST. unfold gets in ST. rewrite NF in ST. cbn [bind] in ST.
  destruct (nth_error vst s1) as [o1|] eqn:G1; cbn [bind] in ST; [|discriminate].
  destruct (nth_error vst s2) as [o2|] eqn:G2; cbn [bind] in ST; [|discriminate].
  destruct (split_to fs o1 o2 sp eb) as [[xa xb]|] eqn:SP; cbn [bind] in ST; [|discriminate].
  inversion ST; subst st'. simpl in H. clear ST.
  destruct (split_to_pkg _ _ _ _ _ _ _ SP) as [PA PB].
  assert (In fs vst) as IF by (eapply nth_error_In; eauto).
  assert (In o1 vst) as I1 by (eapply nth_error_In; eauto).
  assert (In o2 vst) as I2 by (eapply nth_error_In; eauto).
  destruct (views_nth _ _ _ V) as [LV NVW].
  destruct (NVW s1 h1 N1) as [r1 [VO1 NR1]]. destruct (NVW s2 h2 N2) as [r2 [VO2 NR2]].
  rewrite G1 in NR1. inversion NR1; subst r1. rewrite G2 in NR2. inversion NR2; subst r2.
  assert (s1 < length vst)%nat as L1 by (apply nth_error_Some; congruence).
  assert (s2 < length vst)%nat as L2 by (apply nth_error_Some; congruence).
  set (vst' := upd (upd vst s1 xa) s2 xb) in *.
  assert (gets vst' s1 = Ok xa) as GS1
    by (unfold gets, vst'; rewrite nth_error_upd_other by auto; rewrite nth_error_upd_same by auto; reflexivity).
  assert (gets vst' s2 = Ok xb) as GS2
    by (unfold gets, vst'; rewrite nth_error_upd_same by (rewrite upd_length; auto); reflexivity).
  assert (forall k ok resid, nth_error vst k = Some ok ->
            rebind_info vst (OSplit f s1 s2 sp eb) k = Some resid -> spkg resid = spkg ok) as PRR.
  { intros k ok resid NK RB. simpl in RB. unfold gets in RB. rewrite NF, G1, G2, NK in RB.
    destruct (split_rebinds fs o1 o2 eb ok); inversion RB; reflexivity. }
  destruct (write_target a vst vst' (OSplit f s1 s2 sp eb) s1) as [a1|] eqn:WT1; cbn [bind] in H; [|discriminate].
  destruct (write_target_view_after _ _ _ _ _ _ _ _ _ N1 NV1 VO1 GS1 PA (fun resid RB => PRR s1 o1 resid G1 RB) WT1)
    as [h1' [y1 [NH1 [NVh1 [VY1 [PY1 [RY1 [LOC1 [FR1 [LC1 HO1]]]]]]]]]].
  destruct (write_target a1 vst vst' (OSplit f s1 s2 sp eb) s2) as [a2|] eqn:WT2; cbn [bind] in H; [|discriminate].
  inversion H; subst a2. clear H.
  pose proof (view_of_lt _ _ _ VO1) as LT1. pose proof (view_of_lt _ _ _ VO2) as LT2.
  assert (nth_error (hs a1) s2 = Some h2) as N2' by (apply HO1; auto).
  assert (view_of (cells a1) h2 = Ok o2) as VO2'.
  { rewrite (view_of_frame (cells a) (cells a1) h2); [exact VO2|]. apply FR1; auto. }
  destruct (write_target_view_after _ _ _ _ _ _ _ _ _ N2' NV2 VO2' GS2 PB (fun resid RB => PRR s2 o2 resid G2 RB) WT2)
    as [h2' [y2 [NH2 [NVh2 [VY2 [PY2 [RY2 [LOC2 [FR2 [LC2 HO2]]]]]]]]]].
  exists h1', h2', y1, y2.
  split; [apply HO2; auto|].
  split.
  { rewrite (view_of_frame (cells a1) (cells a') h1'); [exact VY1|]. pose proof (view_of_lt _ _ _ VY1) as LTY.
    apply FR2; auto. destruct LOC1 as [E|GE]; [rewrite E; auto | lia]. }
  split; auto. split; auto.
  intros c. rewrite (tot_same_rows y1 xa c PY1 RY1), (tot_same_rows y2 xb c PY2 RY2).
  destruct (split_to_value _ _ _ _ _ _ _ SP (WS1 _ IF) (WS1 _ I1) (WS1 _ I2) (CO _ _ I1 IF) (CO _ _ I2 IF) LS c) as [A [B _]].
  auto.
Qed.

(* ---------- mix through handles, uniformly (with or without replacement of the receiver's indexer) ---------- *)
Lemma mix_rebind_pkg st r ins eb hf rs resid : nth_error st r = Some rs ->
  mix_rebind st r ins eb hf = Some resid -> spkg resid = spkg rs.
Proof.
  intros N H. unfold mix_rebind in H. unfold gets in H at 1. rewrite N in H.
  destruct (gets_all st ins) as [all|]; [|discriminate].
  destruct (filter (fun js => negb (isempty (snd js))) all) as [|a [|b t]]; [discriminate| |].
  - destruct (eb && negb (Nat.eqb r (fst a))); [|discriminate].
    destruct rs as [c|m]; [|discriminate]. destruct (snd a) as [c'|o]; [discriminate|].
    destruct (mphases o) as [|p [|p2 pt]]; destruct (mrows o) as [|r0 [|r2 rt]]; try discriminate;
      (destruct (set_phases _ _) as [[c1|m1]|]; inversion H; reflexivity).
  - destruct eb; [|discriminate].
    destruct (imol_mix_from rs (map to_inl_copy (a :: b :: t))) as [r1|] eqn:IM; [|discriminate].
    destruct (set_H hf r1) as [[r2 hf'] [|]] eqn:SH; [discriminate|].
    destruct (set_H_spec _ _ _ _ _ SH) as [P2 _].
    destruct (set_phases r2 _) as [r3|]; [|discriminate]. destruct (rebound r2 r3); inversion H; subst.
    rewrite P2. apply (imol_mix_pkg _ _ _ IM).
Qed.

Lemma alias_mix_views a r ins eb hf a' vst h :
  views (cells a) (hs a) = Ok vst -> wf_store vst -> nth_error (hs a) r = Some h ->
  astep a (OMix r ins eb hf) = Ok a' ->
  exists h' y, nth_error (hs a') r = Some h' /\ view_of (cells a') h' = Ok y /\
    forall c, tot y c == qsum (map (tot_at vst c) ins).
Proof.
  intros V WS NH H. unfold astep in H. rewrite V in H. cbn [bind] in H.
  destruct (safe_op (hs a) vst (OMix r ins eb hf)) eqn:SAFE; cbn [negb] in H; [|discriminate].
  assert (nonview h) as NV.
  { simpl in SAFE. apply andb_true_iff in SAFE. destruct SAFE as [_ S1]. unfold is_view in S1. rewrite NH in S1.
    destruct h; simpl; auto. discriminate. }
  simpl in H. destruct (mix vst r ins eb hf) as [s|] eqn:MX; cbn [bind] in H; [|discriminate].
  destruct (views_nth _ _ _ V) as [LV NVW]. destruct (NVW r h NH) as [rs [VO NR]].
  assert (r < length vst)%nat as LR by (apply nth_error_Some; congruence).
  destruct (mix_result_thm _ _ _ _ _ _ _ WS NR MX) as [PK _].
  destruct (write_target a vst (upd vst r s) (OMix r ins eb hf) r) as [a1|] eqn:WT; cbn [bind] in H; [|discriminate].
  inversion H; subst a1. clear H.
  assert (gets (upd vst r s) r = Ok s) as GS by (unfold gets; rewrite nth_error_upd_same by auto; reflexivity).
  destruct (write_target_view_after a vst (upd vst r s) (OMix r ins eb hf) r h s rs a' NH NV VO GS PK
              (fun resid RB => mix_rebind_pkg vst r ins eb hf rs resid NR RB) WT)
    as [h' [y [N1 [_ [VY [PY [RY _]]]]]]].
  exists h', y. split; auto. split; auto.
  intros c. rewrite (tot_same_rows y s c PY RY). apply (mix_value_thm _ _ _ _ _ _ WS MX).
Qed.

(* ---------- MultiStream.copy_flow with removal through handles (single-phase source, no exclude) ---------- *)
Lemma alias_multi_copy_remove_single a d s ps i a' vst hd hsrc o :
  views (cells a) (hs a) = Ok vst -> wf_store vst ->
  nth_error (hs a) d = Some hd -> nth_error (hs a) s = Some hsrc -> nth_error vst s = Some (SS o) ->
  nonview hsrc -> d <> s -> hcell hd <> hcell hsrc ->
  astep a (OCopyFlowM d s ps i true false) = Ok a' ->
  exists x1 x2, nth_error (cells a') (hcell hd) = Some x1 /\ nth_error (cells a') (hcell hsrc) = Some x2 /\
    (forall c, tot x1 c + tot x2 c == tot_at vst c s) /\
    (forall j', j' <> hcell hd -> j' <> hcell hsrc -> nth_error (cells a') j' = nth_error (cells a) j').
Proof.
  intros V WS ND NS NVS NVH NE NC H. pose proof WS as [WS1 CO].
  assert (nonview hd) as NVD.
  { unfold astep in H. rewrite V in H. cbn [bind] in H.
    destruct (safe_op (hs a) vst (OCopyFlowM d s ps i true false)) eqn:SAFE; cbn [negb] in H; [|discriminate].
    simpl in SAFE. apply andb_true_iff in SAFE. destruct SAFE as [_ S1]. unfold is_view in S1. rewrite ND in S1.
    destruct hd; simpl; auto. discriminate. }
  assert (exists st', step vst (OCopyFlowM d s ps i true false) = Ok st') as [st' ST].
  { unfold astep in H. rewrite V in H. cbn [bind] in H. destruct (safe_op _ _ _); cbn [negb] in H; [|discriminate].
    destruct (step vst (OCopyFlowM d s ps i true false)); [eauto | discriminate]. }
  destruct (multi_copy_remove_single _ _ _ _ _ _ _ WS NE NVS ST) as [CR _].
  pose proof ST as ST0. simpl in ST. unfold gets in ST. rewrite NVS in ST.
  destruct (nth_error vst d) as [ds|] eqn:NVD'; cbn [bind] in ST; [|discriminate].
  destruct ds as [c|m]; [discriminate|].
  destruct (copy_flow_m m (SS o) ps i true false) as [[d' s']|] eqn:CF; cbn [bind] in ST; [|discriminate].
  inversion ST; subst st'. simpl in ST0, CR.
  assert (In (MS m) vst) as ID by (eapply nth_error_In; eauto).
  assert (In (SS o) vst) as IS by (eapply nth_error_In; eauto).
  destruct (copy_flow_m_wf _ _ _ _ _ _ _ _ CF (WS1 _ ID) (WS1 _ IS) (CO _ _ ID IS)) as [_ [_ [PD PS]]].
  destruct (astep_two_targets a (OCopyFlowM d s ps i true false) a' vst d s hd hsrc d' s' V ND NS NVD NVH NE NC eq_refl eq_refl eq_refl I ST0)
    as [x1 [x2 [N1 [P1 [R1 [N2 [P2 [R2 [FR LH]]]]]]]]]; auto.
  { intros rs N. rewrite NVD' in N. inversion N; subst. exact PD. }
  { intros rs N. rewrite NVS in N. inversion N; subst. exact PS. }
  exists x1, x2. split; auto. split; auto. split; auto.
  intros c. specialize (CR c).
  assert (d < length vst)%nat as LD by (apply nth_error_Some; congruence).
  assert (s < length vst)%nat as LS by (apply nth_error_Some; congruence).
  rewrite tot_at_upd_other in CR by auto. rewrite tot_at_upd_same in CR by auto.
  rewrite tot_at_upd_same in CR by (rewrite upd_length; auto).
  rewrite (tot_same_rows x1 d' c P1 R1), (tot_same_rows x2 s' c P2 R2). exact CR.
Qed.
