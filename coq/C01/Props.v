(* C01 — property theorems only.  Each is closed by [exact <lemma>] and followed by
   Print Assumptions.  Full statements that are not (yet) proved at full strength are kept
   visible as [Definition ..._statement : Prop]; see the comments next to them. *)
From V Require Import Common.NumFacts C01.Model C01.Proofs.

(* ===== mixing: value =====
   Full statement: whatever the receiver (single- or multi-phase), the inlets (any phases,
   single/multi, the receiver itself any number of times, other packages in another order),
   energy balance on or off and however often the temperature solver fails, a mix that
   returns leaves in the receiver, for every chemical, the sum of the inlets' totals. *)
Definition C01_mix_value_statement : Prop :=
  forall st r ins eb hf r', wf_store st -> mix st r ins eb hf = Ok r' ->
  forall c, tot r' c == qsum (map (tot_at st c) ins).

(* proved part: every single-phase receiver, material path (energy_balance=False): 0, 1 or more
   inlets, any inlet kind/phase/package, receiver among the inlets any number of times.
   Missing for the full statement: the analogous induction for MaterialIndexer.mix_from
   (multi-phase receivers), copy_like (one inlet with energy balance) and the fallback path;
   those are covered by the correspondence check and the direct oracle only. *)
Theorem C01_mix_value_partial : forall st r ins hf c0 r',
  wf_store st -> gets st r = Ok (SS c0) -> mix st r ins false hf = Ok r' ->
  spkg r' = cpkg c0 /\ forall c, tot r' c == qsum (map (tot_at st c) ins).
Proof. exact mix_value_single_lemma. Qed.
Print Assumptions C01_mix_value_partial.

(* ChemicalIndexer.mix_from itself: per chemical, the new row is the sum over the inlets of
   their totals over phases (inlets: the receiver itself, single-phase or multi-phase
   indexers, same or other package), and nothing else about the receiver changes package *)
Theorem C01_chemical_indexer_mix_value : forall self others c',
  cmix_from self others = Ok c' -> wf_stream (SS self) ->
  (forall i, In i others -> inl_ok (cpkg self) (inl_stream (SS self) i)) ->
  cpkg c' = cpkg self /\ length (crow c') = psize (cpkg self) /\
  forall c, getc (cpkg self) (crow c') c == qsum (map (fun i => tot (inl_stream (SS self) i) c) others).
Proof. exact cmix_from_value. Qed.
Print Assumptions C01_chemical_indexer_mix_value.

(* SparseVector.mix_from: with the receiver's own dictionary 0, 1 or >= 2 times in the list
   the result is the plain sum (the receiver counted as often as it occurs) *)
Theorem C01_sparse_mix_from_value : forall p self others c,
  (forall v, In (Some v) others -> length v = length self) ->
  getc p (sv_mix_from self others) c == qsum (map (scval p self c) others) /\
  length (sv_mix_from self others) = length self.
Proof. exact sv_mix_from_getc. Qed.
Print Assumptions C01_sparse_mix_from_value.

(* other-package rows are remapped through the shared CAS numbers, chemical by chemical *)
Theorem C01_remap_value : forall left right row r, remap left right row = Ok r ->
  wf_pkg left -> wf_pkg right -> length row = psize right ->
  length r = psize left /\ forall c, getc left r c == getc right row c.
Proof. exact remap_getc. Qed.
Print Assumptions C01_remap_value.

(* ===== mixing: totality =====  (not proved in Coq; the direct oracle checks it on every
   generated case: a raise within these preconditions is reported as a violation) *)
Definition nonneg_stream (s : stream) : Prop := forall r, In r (srows s) -> forall i, 0 <= nthq r i.
Definition pkgs_ok (st : store) (r : nat) (ins : list nat) : Prop :=
  forall rs, nth_error st r = Some rs -> forall i s, In i ins -> nth_error st i = Some s ->
  forall c, ~ tot s c == 0 -> In c (cas (spkg rs)).
Definition C01_mix_total_statement : Prop :=
  forall st r ins eb, wf_store st -> (forall s, In s st -> nonneg_stream s) ->
  (r < length st)%nat -> (forall i, In i ins -> (i < length st)%nat) -> pkgs_ok st r ins ->
  exists r', mix st r ins eb 0 = Ok r'.

(* ===== splitting ===== Stream.split_to on a single-phase feed (or one phase of a multi-phase
   feed): outlets in the same or another package, scalar or per-chemical split *)
Theorem C01_split_value : forall fpkg fphase frow s1 s2 sp eb a b,
  split_single fpkg fphase frow s1 s2 sp eb = Ok (a, b) ->
  wf_pkg fpkg -> length frow = psize fpkg -> length (split_vec (length frow) sp) = length frow ->
  wf_pkg (spkg s1) -> wf_pkg (spkg s2) -> coherent (spkg s1) fpkg -> coherent (spkg s2) fpkg ->
  let spv := split_vec (length frow) sp in
  forall c,
    tot a c == getc fpkg (vmul frow spv) c /\
    tot b c == getc fpkg frow c - getc fpkg (vmul frow spv) c /\
    tot a c + tot b c == getc fpkg frow c.
Proof. exact split_single_value. Qed.
Print Assumptions C01_split_value.
Theorem C01_split_is_product : forall fpkg frow spv c i,
  index_of c (cas fpkg) = Some i -> length frow = length spv ->
  getc fpkg (vmul frow spv) c == getc fpkg frow c * getc fpkg spv c.
Proof. exact split_product. Qed.
Print Assumptions C01_split_is_product.

(* ===== scaling ===== *)
Theorem C01_scale_value : forall k s c, tot (scale k s) c == k * tot s c.
Proof. exact scale_value_lemma. Qed.
Print Assumptions C01_scale_value.
Theorem C01_scale_rows : forall k s, spkg (scale k s) = spkg s /\ sphases (scale k s) = sphases s /\
  srows (scale k s) = map (vscale k) (srows s).
Proof. exact scale_rows_lemma. Qed.
Print Assumptions C01_scale_rows.

(* ===== separate_out, copy_flow(remove=True) =====  full statements; not proved in Coq, checked
   by the correspondence and the direct oracle *)
Definition C01_separate_restores_statement : Prop :=
  forall st r a b st1 st2, wf_store st -> r <> a -> r <> b ->
  step st (OMix r [a; b] false 0) = Ok st1 -> step st1 (OSep r b) = Ok st2 ->
  forall c, tot_at st2 c r == tot_at st c a.
Definition C01_copy_remove_statement : Prop :=
  forall st d s st', wf_store st -> d <> s ->
  step st (OCopyFlow d s IdAll true false) = Ok st' ->
  forall c, tot_at st' c d == tot_at st c s /\ tot_at st' c s == 0.

(* ===== non-vacuity ===== two packages listing shared chemicals in another order, a
   multi-phase inlet, the receiver among the inlets twice *)
Definition exP0 := mkpkg 0 [0; 1; 2; 3]%nat.
Definition exP1 := mkpkg 1 [2; 0; 1]%nat.
Definition exStore : store :=
  [ SS (mkc exP0 Pl [1; 2; 0; 0]);
    SS (mkc exP1 Pg [4; 1 # 2; 0]);
    MS (mkm exP1 [Pg; Pl] [[0; 1; 0]; [8; 0; 3]]) ].
Example C01_nonvacuous_mix :
  wf_store exStore /\
  mix exStore 0 [0; 1; 2; 0]%nat false 0 = Ok (SS (mkc exP0 Pl [(7 # 2); 7; 12; 0])) /\
  mix exStore 2 [0; 1; 2; 2]%nat false 0 = Ok (MS (mkm exP1 [Pg; Pl] [[4; (1 # 2) + 1 + 1; 0]; [16; 1; 8]])).
Proof.
  split; [|split; vm_compute; reflexivity].
  split.
  - intros s [H|[H|[H|[]]]]; subst; unfold wf_stream, wf_pkg; simpl;
      (split; [repeat constructor; simpl; intuition lia|]);
      (split; [intros r0 R; repeat (destruct R as [R|R]; [subst; reflexivity|]); destruct R|]);
      (split; [reflexivity | repeat constructor; simpl; intuition lia]).
  - intros a b [A|[A|[A|[]]]] [B|[B|[B|[]]]]; subst; unfold coherent; simpl; intros E;
      try reflexivity; try discriminate.
Qed.
Example C01_nonvacuous_split :
  match split_single exP1 Pg [4; 1 # 2; 0] (SS (mkc exP0 Pl [1; 2; 0; 0])) (SS (mkc exP1 Ps [0; 0; 0]))
          (SpV [1 # 2; 1 # 4; 1]) true with
  | Ok (a, b) => stream_eqb a (SS (mkc exP0 Pg [1 # 8; 0; 2; 0])) &&
                 stream_eqb b (SS (mkc exP1 Pg [2; 3 # 8; 0]))
  | Err _ => false
  end = true.
Proof. vm_compute. reflexivity. Qed.
