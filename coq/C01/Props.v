(* C01 — property theorems only.  Each is closed by [exact <lemma>] and followed by
   Print Assumptions; non-vacuity Examples at the end. *)
From V Require Import Common.NumFacts C01.Model C01.Proofs C01.ProofsMulti C01.ProofsMix C01.ProofsOps
  C01.ProofsTotal C01.ProofsSplit C01.ProofsCopyM C01.ProofsCopy C01.ProofsAlias C01.ProofsDeep
  C01.ProofsView C01.ProofsInv C01.ProofsSepOwn.

(* ===== mixing: value =====
   Whatever the receiver (single- or multi-phase), the inlets (any phases, single/multi, the
   receiver itself any number of times, other packages listing the chemicals in another
   order), energy balance on or off (one non-empty inlet: copy_like) and however often the
   temperature solver fails (fallback to multi-phase), a mix that returns leaves in the
   receiver, for every chemical, the sum of the inlets' totals. *)
Theorem C01_mix_value : forall st r ins eb hf r',
  wf_store st -> mix st r ins eb hf = Ok r' ->
  forall c, tot r' c == qsum (map (tot_at st c) ins).
Proof. exact mix_value_thm. Qed.
Print Assumptions C01_mix_value.

(* the receiver keeps its package and stays well formed; nothing but the receiver changes *)
Theorem C01_mix_result : forall st r ins eb hf rs r',
  wf_store st -> nth_error st r = Some rs -> mix st r ins eb hf = Ok r' ->
  spkg r' = spkg rs /\ wf_stream r'.
Proof. exact mix_result_thm. Qed.
Print Assumptions C01_mix_result.
Theorem C01_mix_frame : forall st r ins eb hf st', step st (OMix r ins eb hf) = Ok st' ->
  length st' = length st /\ forall k, k <> r -> nth_error st' k = nth_error st k.
Proof. exact mix_frame_thm. Qed.
Print Assumptions C01_mix_frame.

(* ===== mixing: totality =====
   Non-negative flows, the receiver's package lists every chemical that flows in an inlet, the
   temperature solver works: the mix returns (no KeyError / IndexError / UndefinedPhase / ...),
   for every combination of classes, phases and packages. *)
Theorem C01_mix_total : forall st r ins eb,
  wf_store st -> (forall s, In s st -> nonneg_stream s) ->
  (r < length st)%nat -> (forall i, In i ins -> (i < length st)%nat) -> pkgs_ok st r ins ->
  exists r', mix st r ins eb 0 = Ok r'.
Proof. exact mix_total_lemma. Qed.
Print Assumptions C01_mix_total.

(* totality whatever the number of failing temperature solves: the only error that can come out is the
   solver giving up (ERuntime = the RuntimeError of the solver) at the end of the multi-phase fallback *)
Theorem C01_mix_total_any_hf : forall st r ins eb hf,
  wf_store st -> (forall s, In s st -> nonneg_stream s) ->
  (r < length st)%nat -> (forall i, In i ins -> (i < length st)%nat) -> pkgs_ok st r ins ->
  (exists r', mix st r ins eb hf = Ok r') \/ (mix st r ins eb hf = Err ERuntime /\ eb = true /\ hf <> O).
Proof. exact mix_total_hf_lemma. Qed.
Print Assumptions C01_mix_total_any_hf.

(* ===== the indexer methods themselves ===== *)
Theorem C01_material_indexer_mix_value : forall self0 others m',
  mmix_from self0 others = Ok m' -> wf_m self0 ->
  (forall i, In i others -> inl_ok (mpkg self0) (inl_stream (MS self0) i)) ->
  mpkg m' = mpkg self0 /\ wf_m m' /\
  forall c, tot (MS m') c == qsum (map (fun i => tot (inl_stream (MS self0) i) c) others).
Proof. exact mmix_from_value. Qed.
Print Assumptions C01_material_indexer_mix_value.
Theorem C01_chemical_indexer_mix_value : forall self others c',
  cmix_from self others = Ok c' -> wf_stream (SS self) ->
  (forall i, In i others -> inl_ok (cpkg self) (inl_stream (SS self) i)) ->
  cpkg c' = cpkg self /\ length (crow c') = psize (cpkg self) /\
  forall c, getc (cpkg self) (crow c') c == qsum (map (fun i => tot (inl_stream (SS self) i) c) others).
Proof. exact cmix_from_value. Qed.
Print Assumptions C01_chemical_indexer_mix_value.
(* SparseVector.mix_from with the receiver's own dictionary 0, 1 or >= 2 times in the list *)
Theorem C01_sparse_mix_from_value : forall p self others c,
  (forall v, In (Some v) others -> length v = length self) ->
  getc p (sv_mix_from self others) c == qsum (map (scval p self c) others) /\
  length (sv_mix_from self others) = length self.
Proof. exact sv_mix_from_getc. Qed.
Print Assumptions C01_sparse_mix_from_value.
(* other-package rows are remapped through the shared CAS numbers, chemical by chemical *)
Theorem C01_remap_value : forall left right row r, remap left right row = Ok r ->
  wf_pkg left -> wf_pkg right -> length row = psize right ->
  length r = psize left /\ forall c, getc left r c == getc right row c.
Proof. exact remap_getc. Qed.
Print Assumptions C01_remap_value.
(* copy_like (either class from either class, any phases, any package) copies every chemical *)
Theorem C01_copy_like_value : forall self other s', copy_like self other = Ok s' ->
  wf_stream self -> wf_stream other -> coherent (spkg self) (spkg other) ->
  spkg s' = spkg self /\ wf_stream s' /\ forall c, tot s' c == tot other c.
Proof. exact copy_like_value. Qed.
Print Assumptions C01_copy_like_value.

(* ===== splitting ===== Stream.split_to and MultiStream.split_to: scalar or per-chemical split,
   outlets of either class in the same or another package *)
Theorem C01_split_value : forall f s1 s2 sp eb a b,
  split_to f s1 s2 sp eb = Ok (a, b) ->
  wf_stream f -> wf_stream s1 -> wf_stream s2 ->
  coherent (spkg s1) (spkg f) -> coherent (spkg s2) (spkg f) ->
  length (split_vec (psize (spkg f)) sp) = psize (spkg f) ->
  forall c, tot a c == split_part f sp c /\ tot b c == tot f c - split_part f sp c /\
            tot a c + tot b c == tot f c.
Proof. exact split_to_value. Qed.
Print Assumptions C01_split_value.
(* [split_part] is split * feed, chemical by chemical and phase by phase *)
Theorem C01_split_is_product : forall fpkg frow spv c i,
  index_of c (cas fpkg) = Some i -> length frow = length spv ->
  getc fpkg (vmul frow spv) c == getc fpkg frow c * getc fpkg spv c.
Proof. exact split_product. Qed.
Print Assumptions C01_split_is_product.
(* with 0 <= split <= 1 and a non-negative feed both outlets are non-negative *)
Theorem C01_split_nonneg : forall fpkg fphase frow s1 s2 sp eb a b,
  split_single fpkg fphase frow s1 s2 sp eb = Ok (a, b) ->
  wf_pkg fpkg -> length frow = psize fpkg -> length (split_vec (length frow) sp) = length frow ->
  wf_pkg (spkg s1) -> wf_pkg (spkg s2) -> coherent (spkg s1) fpkg -> coherent (spkg s2) fpkg ->
  (forall i, 0 <= nthq frow i) ->
  (forall i, 0 <= nthq (split_vec (length frow) sp) i <= 1) ->
  forall c, 0 <= tot a c /\ 0 <= tot b c.
Proof. exact split_nonneg_lemma. Qed.
Print Assumptions C01_split_nonneg.

(* ===== separating ===== *)
Theorem C01_separate_value : forall st r o st', wf_store st -> r <> o -> step st (OSep r o) = Ok st' ->
  (forall c, tot_at st' c r == tot_at st c r - tot_at st c o) /\
  forall k, k <> r -> nth_error st' k = nth_error st k.
Proof. exact separate_value_thm. Qed.
Print Assumptions C01_separate_value.
(* separating a stream back out of a mixture restores the remainder (the receiver may itself be [a]) *)
Theorem C01_separate_restores : forall st r a b st1 st2,
  wf_store st -> r <> b ->
  step st (OMix r [a; b] false 0) = Ok st1 -> step st1 (OSep r b) = Ok st2 ->
  forall c, tot_at st2 c r == tot_at st c a.
Proof. exact separate_restores_lemma. Qed.
Print Assumptions C01_separate_restores.

(* ===== copy with removal ===== the receiver ends with exactly what the source had, the source with
   nothing, every other stream is untouched *)
Theorem C01_copy_remove : forall st d s st',
  wf_store st -> d <> s -> step st (OCopyFlow d s IdAll true false) = Ok st' ->
  forall c, tot_at st' c d == tot_at st c s /\ tot_at st' c s == 0 /\
            forall k, k <> d -> k <> s -> tot_at st' c k = tot_at st c k.
Proof. exact copy_remove_lemma. Qed.
Print Assumptions C01_copy_remove.

(* partial IDs (one chemical / a list) and exclude, between two different streams of either package: the
   selected chemicals ([selc]: the positions chosen by IDs/exclude in the source's package) are taken over,
   every other chemical of the receiver is untouched, with remove the selected chemicals leave the source *)
Theorem C01_copy_partial : forall st d s i remove exclude st',
  wf_store st -> d <> s -> i <> IdAll -> step st (OCopyFlow d s i remove exclude) = Ok st' ->
  exists ss b idx, nth_error st s = Some ss /\ select (spkg ss) i exclude = Ok (b, idx) /\
  (NoDup idx -> forall c,
     tot_at st' c d == (if selc (spkg ss) idx c then tot_at st c s else tot_at st c d) /\
     tot_at st' c s == (if remove && selc (spkg ss) idx c then 0 else tot_at st c s)) /\
  forall k, k <> d -> k <> s -> nth_error st' k = nth_error st k.
Proof. exact copy_partial_thm. Qed.
Print Assumptions C01_copy_partial.
(* a stream copied onto itself: the copy changes nothing; with remove the selected flows are then taken
   away - i.e. s.copy_flow(s, remove=True) LOSES the selected material (Example C01_copy_onto_itself_loses) *)
Theorem C01_copy_onto_itself_partial : forall st d i remove exclude st',
  wf_store st -> i <> IdAll -> step st (OCopyFlow d d i remove exclude) = Ok st' ->
  exists ss b idx, nth_error st d = Some ss /\ select (spkg ss) i exclude = Ok (b, idx) /\
  (NoDup idx -> forall c,
     tot_at st' c d == (if remove && selc (spkg ss) idx c then 0 else tot_at st c d)) /\
  forall k, k <> d -> nth_error st' k = nth_error st k.
Proof. exact copy_onto_itself_partial. Qed.
Print Assumptions C01_copy_onto_itself_partial.
Theorem C01_copy_onto_itself_all : forall st d remove exclude st',
  step st (OCopyFlow d d IdAll remove exclude) = Ok st' ->
  forall c, tot_at st' c d == (if remove && negb exclude then 0 else tot_at st c d).
Proof. exact copy_onto_itself_all. Qed.
Print Assumptions C01_copy_onto_itself_all.

(* ===== copy with removal into a multi-phase receiver (MultiStream.copy_flow) =====
   Single-phase source, no exclude: whatever the phase selector (none, the source's phase, another
   phase) and the IDs (all / one / a list), what leaves the source is exactly what the receiver -
   which is cleared first - holds afterwards; every other stream is untouched. *)
Theorem C01_multi_copy_remove_single : forall st d s ps i st' o,
  wf_store st -> d <> s -> nth_error st s = Some (SS o) ->
  step st (OCopyFlowM d s ps i true false) = Ok st' ->
  (forall c, tot_at st' c d + tot_at st' c s == tot_at st c s) /\
  forall k, k <> d -> k <> s -> nth_error st' k = nth_error st k.
Proof. exact multi_copy_remove_single. Qed.
Print Assumptions C01_multi_copy_remove_single.
(* Multi-phase source with as many phases as the receiver, no exclude: the selected cells move, the
   receiver keeps exactly its content outside the selected cells ([kept_rows]) *)
Theorem C01_multi_copy_remove_multi : forall st d s ps i st' m o,
  wf_store st -> d <> s -> nth_error st d = Some (MS m) -> nth_error st s = Some (MS o) ->
  length (mrows o) = length (mrows m) ->
  step st (OCopyFlowM d s ps i true false) = Ok st' ->
  exists idx sel, ids_index (mpkg m) i = Ok idx /\ phase_sel (mphases m) ps = Ok sel /\
  forall c, tot_at st' c d + tot_at st' c s == tot_at st c s + rows_tot (mpkg m) (kept_rows sel idx (mrows m)) c.
Proof. exact multi_copy_remove_multi. Qed.
Print Assumptions C01_multi_copy_remove_multi.

(* exclude=True (IDs given; the IDs=... case is a recorded finding): everything but the excluded cells moves,
   the receiver keeps its own content in the excluded cells ([excluded_rows]) *)
Theorem C01_multi_copy_remove_multi_exclude : forall st d s ps i st' m o,
  wf_store st -> d <> s -> i <> IdAll -> nth_error st d = Some (MS m) -> nth_error st s = Some (MS o) ->
  length (mrows o) = length (mrows m) ->
  step st (OCopyFlowM d s ps i true true) = Ok st' ->
  exists idx sel, ids_index (mpkg m) i = Ok idx /\ phase_sel (mphases m) ps = Ok sel /\
  forall c, tot_at st' c d + tot_at st' c s == tot_at st c s + rows_tot (mpkg m) (excluded_rows sel idx (mrows m)) c.
Proof. exact multi_copy_remove_multi_exclude. Qed.
Print Assumptions C01_multi_copy_remove_multi_exclude.
(* single-phase source, exclude, no selector or the source's phase (another selector is a recorded finding):
   the receiver keeps every other phase row and, in the source's phase, its own excluded cells *)
Theorem C01_multi_copy_remove_single_exclude : forall st d s ps i st' m o,
  wf_store st -> d <> s -> i <> IdAll -> nth_error st d = Some (MS m) -> nth_error st s = Some (SS o) ->
  step st (OCopyFlowM d s ps i true true) = Ok st' ->
  exists idx sel opi, ids_index (mpkg m) i = Ok idx /\ phase_sel (mphases m) ps = Ok sel /\
    phase_index (cphase o) (mphases m) = Ok opi /\
  ((match sel with None => true | Some pi => Nat.eqb pi opi end) = true ->
   forall c, tot_at st' c d + tot_at st' c s ==
             tot_at st c s + rows_tot (mpkg m) (upd (mrows m) opi (keep_at (nth opi (mrows m) []) idx)) c).
Proof. exact multi_copy_remove_single_exclude. Qed.
Print Assumptions C01_multi_copy_remove_single_exclude.

(* The statement for every source and option: an empty multi-phase receiver plus the source hold
   afterwards what the source held.  The faithful model REFUTES it: rows are matched by position, so a
   source with more phases than the receiver loses the unmatched rows (witness below); exclude with
   IDs=... empties the source; exclude with a selector that is not the single-phase source's phase copies
   without removing.  These are findings about the unchanged tree (see props/C01.py WITNESSES). *)
Definition C01_multi_copy_remove_statement : Prop :=
  forall st d s ps i ex st' m, wf_store st -> d <> s -> nth_error st d = Some (MS m) ->
  isempty (MS m) = true -> step st (OCopyFlowM d s ps i true ex) = Ok st' ->
  forall c, tot_at st' c d + tot_at st' c s == tot_at st c s.
Definition wP := mkpkg 1 [2; 0; 1]%nat.
Definition wStore : store :=
  [ MS (mkm wP [Pg; Pl] [[0; 0; 0]; [0; 0; 0]]);
    MS (mkm wP [Pg; Pl; Ps] [[1; 0; 0]; [0; 2; 0]; [0; 0; 4]]) ].
Definition wStore' : store :=
  match step wStore (OCopyFlowM 0 1 PhAll IdAll true false) with Ok x => x | Err _ => [] end.
Lemma wStore_wf : wf_store wStore.
Proof.
  split.
  - intros s [H|[H|[]]]; subst; unfold wf_stream, wf_pkg; simpl;
      (split; [repeat constructor; simpl; intuition lia|]);
      (split; [intros r0 R; repeat (destruct R as [R|R]; [subst; reflexivity|]); destruct R|]);
      (split; [reflexivity | repeat split; repeat constructor; simpl; lia]).
  - intros a b [A|[A|[]]] [B|[B|[]]]; subst; unfold coherent; simpl; intros E; reflexivity.
Qed.
Theorem C01_multi_copy_remove_refuted : ~ C01_multi_copy_remove_statement.
Proof.
  intros H.
  assert (step wStore (OCopyFlowM 0 1 PhAll IdAll true false) = Ok wStore') as E by (vm_compute; reflexivity).
  specialize (H wStore 0%nat 1%nat PhAll IdAll false wStore' _ wStore_wf (fun X => O_S _ X) eq_refl eq_refl E 1%nat).
  vm_compute in H. discriminate.
Qed.
Print Assumptions C01_multi_copy_remove_refuted.

(* ===== aliases: several stream objects on one flow data (flow_proxy / link_with, multistream[phase]) =====
   Mixing through handles: the receiver's flow data ends with the sum of what the inlet handles showed -
   also when inlets share the receiver's data (its proxy as the only non-empty inlet, its own
   sub-streams among several inlets) - every handle on that data sees the result (handles only read the
   cell), every other flow data is untouched.  *)
Theorem C01_alias_mix_value : forall a r ins eb hf a' vst h,
  views (cells a) (hs a) = Ok vst -> wf_store vst -> nth_error (hs a) r = Some h ->
  mix_rebind vst r ins eb hf = None ->
  astep a (OMix r ins eb hf) = Ok a' ->
  exists x, nth_error (cells a') (hcell h) = Some x /\
    (forall c, tot x c == qsum (map (tot_at vst c) ins)) /\
    (forall j', j' <> hcell h -> nth_error (cells a') j' = nth_error (cells a) j') /\
    length (hs a') = length (hs a).
Proof. exact alias_mix_value. Qed.
Print Assumptions C01_alias_mix_value.
(* when the mix REPLACES the receiver's indexer (multi-phase fallback; copy_like from a stream with several
   phases into a single-phase receiver) the receiver moves to new flow data of its own, which holds the sum;
   the other handles stay on the old data and are no longer updated *)
Theorem C01_alias_mix_value_rebind : forall a r ins eb hf a' vst h resid,
  views (cells a) (hs a) = Ok vst -> wf_store vst -> nth_error (hs a) r = Some h ->
  mix_rebind vst r ins eb hf = Some resid ->
  astep a (OMix r ins eb hf) = Ok a' ->
  exists x, nth_error (hs a') r = Some (HCell (length (cells a))) /\
    nth_error (cells a') (length (cells a)) = Some x /\
    (forall c, tot x c == qsum (map (tot_at vst c) ins)) /\
    length (cells a') = S (length (cells a)).
Proof. exact alias_mix_value_rebind. Qed.
Print Assumptions C01_alias_mix_value_rebind.
(* a MultiStream whose phases are reset (split_to on an outlet that was used before, multi-phase fallback) gets new
   rows: the stream moves to the new cell and its cached sub-streams of the phases that survive are re-pointed to it *)
Theorem C01_alias_views_follow : forall a vst vst' o k j m' resid a',
  nth_error (hs a) k = Some (HCell j) -> gets vst' k = Ok (MS m') ->
  rebind_info vst o k = Some resid -> kind_at vst k = true ->
  write_target a vst vst' o k = Ok a' ->
  nth_error (hs a') k = Some (HCell (length (cells a))) /\
  nth_error (cells a') (length (cells a)) = Some (MS m') /\
  forall q p lbl, q <> k -> nth_error (hs a) q = Some (HView j p lbl) -> in_indexer lbl (bind_phases vst o m') = true ->
              nth_error (hs a') q = Some (HView (length (cells a)) (if pmem lbl (bind_phases vst o m') then lbl else swapcase lbl) lbl).
Proof. exact views_follow. Qed.
Print Assumptions C01_alias_views_follow.
(* the case that used to be excluded (and refuted): the only non-empty inlet of an energy-balanced mix is one of
   the receiver's own sub-streams; since a4a2555 MaterialIndexer.copy_like copies the source row before it empties
   the receiver, so the theorems above cover it (Example C01_nonvacuous_alias_own_substream) *)
Definition aW : astore := mka [MS (mkm wP [Pg; Pl] [[1; 0; 0]; [0; 2; 4]])] [HCell 0; HView 0 Pl Pl].
Example C01_nonvacuous_alias_own_substream :
  match astep aW (OMix 0 [1]%nat true 0) with
  | Ok a' => match views (cells a') (hs a') with
             | Ok v => store_eqb v [MS (mkm wP [Pg; Pl] [[0; 0; 0]; [0; 2; 4]]); SS (mkc wP Pl [0; 2; 4])]
             | Err _ => false end
  | Err _ => false end = true /\ mix_rebind [MS (mkm wP [Pg; Pl] [[1; 0; 0]; [0; 2; 4]]); SS (mkc wP Pl [0; 2; 4])] 0 [1]%nat true 0 = None.
Proof. split; vm_compute; reflexivity. Qed.

(* ===== scaling ===== *)
Theorem C01_scale_value : forall k s c, tot (scale k s) c == k * tot s c.
Proof. exact scale_value_lemma. Qed.
Print Assumptions C01_scale_value.
Theorem C01_scale_rows : forall k s, spkg (scale k s) = spkg s /\ sphases (scale k s) = sphases s /\
  srows (scale k s) = map (vscale k) (srows s).
Proof. exact scale_rows_lemma. Qed.
Print Assumptions C01_scale_rows.
(* the mass flows are a view of the same data (MW * molar flow, one weight per chemical): scaling by k -
   k = 0 included - multiplies every mass flow by k *)
Theorem C01_scale_mass : forall mw k s, (forall r, In r (srows s) -> length r = length mw) ->
  length (mass_rows mw (scale k s)) = length (mass_rows mw s) /\
  forall j i, nthq (nth j (mass_rows mw (scale k s)) []) i == k * nthq (nth j (mass_rows mw s) []) i.
Proof. exact scale_mass_lemma. Qed.
Print Assumptions C01_scale_mass.

(* ===== non-vacuity ===== two packages listing shared chemicals in another order, a
   multi-phase inlet, the receiver among the inlets twice, single- and multi-phase receivers *)
Definition exP0 := mkpkg 0 [0; 1; 2; 3]%nat.
Definition exP1 := mkpkg 1 [2; 0; 1]%nat.
Definition exStore : store :=
  [ SS (mkc exP0 Pl [1; 2; 0; 0]);
    SS (mkc exP1 Pg [4; 1 # 2; 0]);
    MS (mkm exP1 [Pg; Pl] [[0; 1; 0]; [8; 0; 3]]) ].
Lemma exStore_wf : wf_store exStore.
Proof.
  split.
  - intros s [H|[H|[H|[]]]]; subst; unfold wf_stream, wf_pkg; simpl;
      (split; [repeat constructor; simpl; intuition lia|]);
      (split; [intros r0 R; repeat (destruct R as [R|R]; [subst; reflexivity|]); destruct R|]);
      (split; [reflexivity | repeat split; repeat constructor; simpl; lia]).
  - intros a b [A|[A|[A|[]]]] [B|[B|[B|[]]]]; subst; unfold coherent; simpl; intros E;
      try reflexivity; try discriminate.
Qed.
Example C01_nonvacuous_mix :
  wf_store exStore /\
  mix exStore 0 [0; 1; 2; 0]%nat false 0 = Ok (SS (mkc exP0 Pl [(7 # 2); 7; 12; 0])) /\
  mix exStore 2 [0; 1; 2; 2]%nat false 0 = Ok (MS (mkm exP1 [Pg; Pl] [[4; (1 # 2) + 1 + 1; 0]; [16; 1; 8]])).
Proof. split; [exact exStore_wf | split; vm_compute; reflexivity]. Qed.
(* energy balance, the solver failing twice: the fallback turns the receiver multi-phase *)
Example C01_nonvacuous_mix_fallback :
  match mix exStore 0 [0; 1; 2]%nat true 2 with
  | Ok (MS m) => qeqb (tot (MS m) 0%nat) ((1 + (1 # 2) + 1)) && qeqb (tot (MS m) 2%nat) 12
  | _ => false
  end = true.
Proof. vm_compute. reflexivity. Qed.
(* one non-empty inlet with energy balance: copy_like from a multi-phase stream of another package *)
Example C01_nonvacuous_copy_like :
  match mix exStore 0 [2]%nat true 0 with
  | Ok (MS m) => qeqb (tot (MS m) 0%nat) 1 && qeqb (tot (MS m) 2%nat) 8 && qeqb (tot (MS m) 1%nat) 3
  | _ => false
  end = true.
Proof. vm_compute. reflexivity. Qed.
Example C01_nonvacuous_total :
  (forall s, In s exStore -> nonneg_stream s) /\ pkgs_ok exStore 0 [0; 1; 2; 0]%nat.
Proof.
  split.
  - intros s [H|[H|[H|[]]]]; subst; intros r R; simpl in R;
      repeat (destruct R as [R|R]; [subst; intros i; unfold nthq;
        repeat (destruct i as [|i]; simpl; try lra) |]); destruct R.
  - intros rs H i s I N c NZ. simpl in H. inversion H; subst rs. simpl.
    destruct c as [|[|[|[|c]]]]; auto 10.
    exfalso. apply NZ.
    destruct I as [I|[I|[I|[I|[]]]]]; subst i; simpl in N; inversion N; subst s;
      unfold tot, rows_tot, getc; simpl; lra.
Qed.
Example C01_nonvacuous_separate : exists st1 st2,
  step exStore (OMix 0 [1; 2]%nat false 0) = Ok st1 /\ step st1 (OSep 0 2) = Ok st2.
Proof. eexists; eexists. split; vm_compute; reflexivity. Qed.
Example C01_nonvacuous_copy_remove : exists st',
  step exStore (OCopyFlow 0 2 IdAll true false) = Ok st'.
Proof. eexists. vm_compute. reflexivity. Qed.
(* a phase selector that is not the source's phase: nothing moves, nothing is removed *)
Example C01_nonvacuous_multi_copy_remove : exists st1 st2,
  step exStore (OCopyFlowM 2 1 (PhOne Pl) (IdList [0; 2]%nat) true false) = Ok st1 /\
  nth_error st1 1 = nth_error exStore 1 /\
  step (exStore ++ [MS (mkm exP1 [Pg; Ps] [[1; 1; 1]; [2; 0; 2]])]) (OCopyFlowM 2 3 PhAll (IdOne 0) true false) = Ok st2.
Proof. eexists; eexists. split; [|split]; vm_compute; reflexivity. Qed.
(* aliases: (1) the receiver's flow proxy (own phase) with an empty stream as the inlets of an energy-balanced
   mix: the material stays, the receiver takes the proxy's phase; (2) sub-streams handed out before a mix that
   adds a phase keep showing the MultiStream's rows *)
Definition exA : astore :=
  mka [SS (mkc exP1 Pl [1; 2; 0]); SS (mkc exP1 Pg [0; 0; 0]); MS (mkm exP1 [Pg; Pl] [[1; 0; 0]; [0; 2; 4]]);
       SS (mkc exP1 Ps [0; 1; 1])]
      [HCell 0; HCell 1; HCell 2; HCell 3; HProxy 0 Pg; HView 2 Pl Pl].
Example C01_nonvacuous_alias :
  match astep exA (OMix 0 [4; 1]%nat true 0) with
  | Ok a1 => match views (cells a1) (hs a1) with
             | Ok v => store_eqb v [SS (mkc exP1 Pg [1; 2; 0]); SS (mkc exP1 Pg [0; 0; 0]);
                                    MS (mkm exP1 [Pg; Pl] [[1; 0; 0]; [0; 2; 4]]); SS (mkc exP1 Ps [0; 1; 1]);
                                    SS (mkc exP1 Pg [1; 2; 0]); SS (mkc exP1 Pl [0; 2; 4])]
             | Err _ => false end
  | Err _ => false end = true /\
  match astep exA (OMix 2 [3; 5; 0]%nat false 0) with
  | Ok a1 => match views (cells a1) (hs a1) with
             | Ok v => store_eqb v [SS (mkc exP1 Pl [1; 2; 0]); SS (mkc exP1 Pg [0; 0; 0]);
                                    MS (mkm exP1 [Pg; Pl; Ps] [[0; 0; 0]; [1; 4; 4]; [0; 1; 1]]); SS (mkc exP1 Ps [0; 1; 1]);
                                    SS (mkc exP1 Pg [1; 2; 0]); SS (mkc exP1 Pl [1; 4; 4])]
             | Err _ => false end
  | Err _ => false end = true.
Proof. split; vm_compute; reflexivity. Qed.
Example C01_copy_onto_itself_loses :
  match step exStore (OCopyFlow 0 0 IdAll true false) with
  | Ok st' => qeqb (tot_at exStore 1%nat 0) 2 && qeqb (tot_at st' 1%nat 0) 0
  | Err _ => false end = true /\
  exists st1 st2, step exStore (OCopyFlow 0 1 (IdList [0; 2]%nat) true false) = Ok st1 /\
                  step exStore (OCopyFlow 0 2 (IdOne 0) true true) = Ok st2.
Proof. split; [vm_compute; reflexivity|]. eexists; eexists. split; vm_compute; reflexivity. Qed.
Example C01_nonvacuous_multi_exclude : exists st1 st2,
  step (exStore ++ [MS (mkm exP1 [Pg; Ps] [[1; 1; 1]; [2; 0; 2]])]) (OCopyFlowM 2 3 PhAll (IdOne 0) true true) = Ok st1 /\
  step (exStore ++ [SS (mkc exP1 PL [1; 1; 1])]) (OCopyFlowM 2 3 (PhOne Pl) (IdList [0; 1]%nat) true true) = Ok st2.
Proof. eexists; eexists. split; vm_compute; reflexivity. Qed.
Example C01_nonvacuous_split :
  match split_to (MS (mkm exP1 [Pg; Pl] [[0; 1; 0]; [8; 0; 3]])) (SS (mkc exP0 Pl [1; 2; 0; 0]))
          (SS (mkc exP1 Ps [0; 0; 0])) (SpV [1 # 2; 1 # 4; 1]) true with
  | Ok (MS a, MS b) => qeqb (tot (MS a) 2%nat) 4 && qeqb (tot (MS b) 2%nat) 4 && qeqb (tot (MS a) 0%nat) (1 # 4)
  | _ => false
  end = true /\
  (forall i, 0 <= nthq [4; 1 # 2; 0] i) /\ (forall i, 0 <= nthq (split_vec 3 (SpS (1 # 4))) i <= 1).
Proof.
  split; [vm_compute; reflexivity|].
  split; intros i; unfold nthq; repeat (destruct i as [|i]; simpl; try lra).
Qed.

(* ===== deepening: repeated IDs; split / separate / copy / scale through aliased handles ===== *)
(* C01_copy_partial without the no-repeats assumption: a repeated ID writes the same value again *)
Theorem C01_copy_partial_any : forall st d s i remove exclude st',
  wf_store st -> d <> s -> i <> IdAll -> step st (OCopyFlow d s i remove exclude) = Ok st' ->
  exists ss b idx, nth_error st s = Some ss /\ select (spkg ss) i exclude = Ok (b, idx) /\
  (forall c,
     tot_at st' c d == (if selc (spkg ss) idx c then tot_at st c s else tot_at st c d) /\
     tot_at st' c s == (if remove && selc (spkg ss) idx c then 0 else tot_at st c s)) /\
  forall k, k <> d -> k <> s -> nth_error st' k = nth_error st k.
Proof. exact copy_partial_any_thm. Qed.
Print Assumptions C01_copy_partial_any.
(* separate_out through handles (receiver: the owner, a flow proxy or a linked MultiStream; the other stream
   any handle, also one on the receiver's data): the receiver's flow data ends with receiver - other as the
   handles showed them, every other flow data is untouched *)
Theorem C01_alias_sep_value : forall a r o a' vst h,
  views (cells a) (hs a) = Ok vst -> wf_store vst -> nth_error (hs a) r = Some h -> r <> o ->
  (match h with HView _ _ _ => False | _ => True end) ->
  astep a (OSep r o) = Ok a' ->
  exists x, nth_error (cells a') (hcell h) = Some x /\
    (forall c, tot x c == tot_at vst c r - tot_at vst c o) /\
    (forall j', j' <> hcell h -> nth_error (cells a') j' = nth_error (cells a) j') /\
    length (hs a') = length (hs a).
Proof. exact alias_sep_value. Qed.
Print Assumptions C01_alias_sep_value.
Theorem C01_alias_scale_value : forall a i k a' vst h,
  views (cells a) (hs a) = Ok vst -> nth_error (hs a) i = Some h ->
  (match h with HView _ _ _ => False | _ => True end) ->
  astep a (OScale i k) = Ok a' ->
  exists x, nth_error (cells a') (hcell h) = Some x /\
    (forall c, tot x c == k * tot_at vst c i) /\
    (forall j', j' <> hcell h -> nth_error (cells a') j' = nth_error (cells a) j') /\
    length (hs a') = length (hs a).
Proof. exact alias_scale_value. Qed.
Print Assumptions C01_alias_scale_value.
(* copy with removal (everything) through handles on different flow data: the receiver's data ends with what
   the source handle showed, the source's data with nothing, every other flow data is untouched *)
Theorem C01_alias_copy_remove : forall a d s a' vst hd hsrc,
  views (cells a) (hs a) = Ok vst -> wf_store vst ->
  nth_error (hs a) d = Some hd -> nth_error (hs a) s = Some hsrc ->
  (match hd with HView _ _ _ => False | _ => True end) ->
  (match hsrc with HView _ _ _ => False | _ => True end) ->
  d <> s -> hcell hd <> hcell hsrc ->
  astep a (OCopyFlow d s IdAll true false) = Ok a' ->
  exists x1 x2, nth_error (cells a') (hcell hd) = Some x1 /\ nth_error (cells a') (hcell hsrc) = Some x2 /\
    (forall c, tot x1 c == tot_at vst c s /\ tot x2 c == 0) /\
    (forall j', j' <> hcell hd -> j' <> hcell hsrc -> nth_error (cells a') j' = nth_error (cells a) j') /\
    length (hs a') = length (hs a).
Proof. exact alias_copy_remove. Qed.
Print Assumptions C01_alias_copy_remove.
(* split_to through handles: outlets on different flow data, written in place; the feed is any handle (a
   sub-stream, a proxy, also one sharing an outlet's data) *)
Theorem C01_alias_split_value : forall a f s1 s2 sp eb a' vst h1 h2 fs,
  views (cells a) (hs a) = Ok vst -> wf_store vst ->
  nth_error (hs a) s1 = Some h1 -> nth_error (hs a) s2 = Some h2 -> nth_error vst f = Some fs ->
  s1 <> s2 -> hcell h1 <> hcell h2 ->
  rebind_info vst (OSplit f s1 s2 sp eb) s1 = None -> rebind_info vst (OSplit f s1 s2 sp eb) s2 = None ->
  length (split_vec (psize (spkg fs)) sp) = psize (spkg fs) ->
  astep a (OSplit f s1 s2 sp eb) = Ok a' ->
  exists x1 x2, nth_error (cells a') (hcell h1) = Some x1 /\ nth_error (cells a') (hcell h2) = Some x2 /\
    (forall c, tot x1 c == split_part fs sp c /\ tot x2 c == tot fs c - split_part fs sp c) /\
    (forall j', j' <> hcell h1 -> j' <> hcell h2 -> nth_error (cells a') j' = nth_error (cells a) j') /\
    length (hs a') = length (hs a).
Proof. exact alias_split_value. Qed.
Print Assumptions C01_alias_split_value.

Example C01_nonvacuous_copy_repeated_ids : exists st',
  step exStore (OCopyFlow 0 1 (IdList [0; 0; 2; 0]%nat) true false) = Ok st'.
Proof. eexists. vm_compute. reflexivity. Qed.
Definition exA_views : store := match views (cells exA) (hs exA) with Ok v => v | Err _ => [] end.
Lemma exA_views_ok : views (cells exA) (hs exA) = Ok exA_views.
Proof. vm_compute. reflexivity. Qed.
Lemma exA_views_wf : wf_store exA_views.
Proof.
  split.
  - intros s [H|[H|[H|[H|[H|[H|[]]]]]]]; subst; unfold wf_stream, wf_pkg; simpl;
      (split; [repeat constructor; simpl; intuition lia|]);
      (split; [intros r0 R; repeat (destruct R as [R|R]; [subst; reflexivity|]); destruct R|]);
      (split; [reflexivity | repeat split; repeat constructor; simpl; lia]).
  - intros x y [A|[A|[A|[A|[A|[A|[]]]]]]] [B|[B|[B|[B|[B|[B|[]]]]]]]; subst; unfold coherent; simpl; intros E; reflexivity.
Qed.
Example C01_nonvacuous_alias_sep : wf_store exA_views /\ exists a', astep exA (OSep 0 4) = Ok a'.
Proof. split; [exact exA_views_wf|]. eexists. vm_compute. reflexivity. Qed.
Example C01_nonvacuous_alias_scale : exists a', astep exA (OScale 4 (1 # 2)) = Ok a'.
Proof. eexists. vm_compute. reflexivity. Qed.
Example C01_nonvacuous_alias_copy_remove : exists a', astep exA (OCopyFlow 1 4 IdAll true false) = Ok a'.
Proof. eexists. vm_compute. reflexivity. Qed.
Example C01_nonvacuous_alias_split :
  rebind_info exA_views (OSplit 5 1 3 (SpS (1 # 2)) true) 1 = None /\
  rebind_info exA_views (OSplit 5 1 3 (SpS (1 # 2)) true) 3 = None /\
  exists a', astep exA (OSplit 5 1 3 (SpS (1 # 2)) true) = Ok a'.
Proof. split; [vm_compute; reflexivity|]. split; [vm_compute; reflexivity|]. eexists. vm_compute. reflexivity. Qed.

(* what each kind of stream object shows of a cell: every handle reads the cell, so a value written to a cell is
   seen through all of them *)
Theorem C01_alias_handles_read_cell : forall cs j x,
  nth_error cs j = Some x ->
  view_of cs (HCell j) = Ok x /\
  (forall ph c, x = SS c -> view_of cs (HProxy j ph) = Ok (SS (mkc (cpkg c) ph (crow c)))) /\
  (forall phs m, x = MS m -> view_of cs (HLink j phs) = Ok (MS (mkm (mpkg m) phs (mrows m)))) /\
  (forall p lbl m i, x = MS m -> pindex_exact p (mphases m) = Some i ->
     view_of cs (HView j p lbl) = Ok (SS (mkc (mpkg m) lbl (nth i (mrows m) [])))).
Proof. exact handles_read_cell. Qed.
Print Assumptions C01_alias_handles_read_cell.
(* copy_flow with partial IDs / exclude (repeats allowed), with or without removal, through handles *)
Theorem C01_alias_copy_partial : forall a d s i remove exclude a' vst hd hsrc,
  views (cells a) (hs a) = Ok vst -> wf_store vst ->
  nth_error (hs a) d = Some hd -> nth_error (hs a) s = Some hsrc ->
  (match hd with HView _ _ _ => False | _ => True end) ->
  (match hsrc with HView _ _ _ => False | _ => True end) ->
  d <> s -> hcell hd <> hcell hsrc -> i <> IdAll ->
  astep a (OCopyFlow d s i remove exclude) = Ok a' ->
  exists ss b idx x1 x2, nth_error vst s = Some ss /\ select (spkg ss) i exclude = Ok (b, idx) /\
    nth_error (cells a') (hcell hd) = Some x1 /\ nth_error (cells a') (hcell hsrc) = Some x2 /\
    (forall c, tot x1 c == (if selc (spkg ss) idx c then tot_at vst c s else tot_at vst c d) /\
               tot x2 c == (if remove && selc (spkg ss) idx c then 0 else tot_at vst c s)) /\
    (forall j', j' <> hcell hd -> j' <> hcell hsrc -> nth_error (cells a') j' = nth_error (cells a) j') /\
    length (hs a') = length (hs a).
Proof. exact alias_copy_partial. Qed.
Print Assumptions C01_alias_copy_partial.
(* a sub-stream multistream[p] as the source of a copy with removal: the receiver gets what the sub-stream showed,
   the MultiStream loses exactly that phase row *)
Theorem C01_alias_copy_remove_from_substream : forall a d s a' vst hd j p lbl m i,
  views (cells a) (hs a) = Ok vst -> wf_store vst -> wf_stream (MS m) ->
  nth_error (hs a) d = Some hd -> nth_error (hs a) s = Some (HView j p lbl) ->
  nth_error (cells a) j = Some (MS m) -> pindex_exact p (mphases m) = Some i ->
  (match hd with HView _ _ _ => False | _ => True end) ->
  d <> s -> hcell hd <> j ->
  astep a (OCopyFlow d s IdAll true false) = Ok a' ->
  exists x1 x2, nth_error (cells a') (hcell hd) = Some x1 /\ nth_error (cells a') j = Some x2 /\
    (forall c, tot x1 c == tot_at vst c s /\ tot x2 c == tot (MS m) c - tot_at vst c s) /\
    (forall j', j' <> hcell hd -> j' <> j -> nth_error (cells a') j' = nth_error (cells a) j').
Proof. exact alias_copy_remove_from_substream. Qed.
Print Assumptions C01_alias_copy_remove_from_substream.
(* both outlets non-negative for the full split_to (single- and multi-phase feeds) *)
Theorem C01_split_nonneg_full : forall f s1 s2 sp eb a b,
  split_to f s1 s2 sp eb = Ok (a, b) ->
  wf_stream f -> wf_stream s1 -> wf_stream s2 ->
  coherent (spkg s1) (spkg f) -> coherent (spkg s2) (spkg f) ->
  length (split_vec (psize (spkg f)) sp) = psize (spkg f) ->
  (forall r, In r (srows f) -> forall i, 0 <= nthq r i) ->
  (forall i, 0 <= nthq (split_vec (psize (spkg f)) sp) i <= 1) ->
  forall c, 0 <= tot a c /\ 0 <= tot b c.
Proof. exact split_to_nonneg. Qed.
Print Assumptions C01_split_nonneg_full.
(* well-formedness is an invariant of every operation and of every history, so each per-operation theorem
   applies at every step of any history that starts from a well-formed store *)
Theorem C01_step_preserves_wf : forall st o st',
  wf_store st -> split_len_ok st o -> step st o = Ok st' -> wf_store st'.
Proof. exact step_wf. Qed.
Print Assumptions C01_step_preserves_wf.
Theorem C01_history_preserves_wf : forall ops st st',
  wf_store st -> split_lens_ok st ops -> run st ops = Ok st' -> wf_store st'.
Proof. exact run_wf. Qed.
Print Assumptions C01_history_preserves_wf.
Theorem C01_history_mix_value : forall ops st st1 r ins eb hf r',
  wf_store st -> split_lens_ok st ops -> run st ops = Ok st1 -> mix st1 r ins eb hf = Ok r' ->
  forall c, tot r' c == qsum (map (tot_at st1 c) ins).
Proof. exact history_mix_value. Qed.
Print Assumptions C01_history_mix_value.

Example C01_nonvacuous_alias_copy_partial : exists a',
  astep exA (OCopyFlow 1 4 (IdList [0; 0; 2]%nat) true false) = Ok a'.
Proof. eexists. vm_compute. reflexivity. Qed.
Example C01_nonvacuous_alias_copy_from_substream :
  pindex_exact Pl [Pg; Pl] = Some 1%nat /\ exists a', astep exA (OCopyFlow 1 5 IdAll true false) = Ok a'.
Proof. split; [reflexivity|]. eexists. vm_compute. reflexivity. Qed.
Example C01_nonvacuous_history :
  split_lens_ok exStore [OMix 0 [1; 2]%nat true 2; OSep 0 1; OCopyFlow 1 0 (IdList [0; 0]%nat) true false;
                         OSplit 2 0 1 (SpV [1 # 2; 1 # 4; 1]) true; OScale 2 (1 # 2); OMul 2 2] /\
  exists st', run exStore [OMix 0 [1; 2]%nat true 2; OSep 0 1; OCopyFlow 1 0 (IdList [0; 0]%nat) true false;
                           OSplit 2 0 1 (SpV [1 # 2; 1 # 4; 1]) true; OScale 2 (1 # 2); OMul 2 2] = Ok st'.
Proof.
  split; [|eexists; vm_compute; reflexivity].
  cbn [split_lens_ok split_len_ok].
  split; [exact I|]. intros st1 E1. vm_compute in E1. inversion E1; subst st1; clear E1.
  split; [exact I|]. intros st2 E2. vm_compute in E2. inversion E2; subst st2; clear E2.
  split; [exact I|]. intros st3 E3. vm_compute in E3. inversion E3; subst st3; clear E3.
  split; [intros fs NF; vm_compute in NF; inversion NF; subst fs; reflexivity|].
  intros st4 E4. vm_compute in E4. inversion E4; subst st4; clear E4.
  split; [exact I|]. intros st5 E5. vm_compute in E5. inversion E5; subst st5; clear E5.
  split; [exact I|]. intros st6 E6. exact I.
Qed.

(* split_to through handles in general - also when split_to replaces an outlet's indexer (s.phases = feed phases)
   while other stream objects share its data: what each OUTLET HANDLE shows afterwards is split*feed and the rest *)
Theorem C01_alias_split_views : forall a f s1 s2 sp eb a' vst h1 h2 fs,
  views (cells a) (hs a) = Ok vst -> wf_store vst ->
  nth_error (hs a) s1 = Some h1 -> nth_error (hs a) s2 = Some h2 -> nth_error vst f = Some fs ->
  s1 <> s2 -> hcell h1 <> hcell h2 ->
  length (split_vec (psize (spkg fs)) sp) = psize (spkg fs) ->
  astep a (OSplit f s1 s2 sp eb) = Ok a' ->
  exists h1' h2' y1 y2,
    nth_error (hs a') s1 = Some h1' /\ view_of (cells a') h1' = Ok y1 /\
    nth_error (hs a') s2 = Some h2' /\ view_of (cells a') h2' = Ok y2 /\
    forall c, tot y1 c == split_part fs sp c /\ tot y2 c == tot fs c - split_part fs sp c.
Proof. exact alias_split_views. Qed.
Print Assumptions C01_alias_split_views.
(* a multi-phase feed split with energy balance into a stream that has a flow proxy: the outlet's indexer is replaced *)
Example C01_nonvacuous_alias_split_rebind :
  rebind_info exA_views (OSplit 2 0 1 (SpS (1 # 2)) true) 0 <> None /\
  exists a', astep exA (OSplit 2 0 1 (SpS (1 # 2)) true) = Ok a'.
Proof. split; [vm_compute; discriminate|]. eexists. vm_compute. reflexivity. Qed.

(* mixing through handles, uniformly: whether or not the mix replaces the receiver's indexer, what the RECEIVER HANDLE
   shows afterwards is the sum of what the inlet handles showed *)
Theorem C01_alias_mix_views : forall a r ins eb hf a' vst h,
  views (cells a) (hs a) = Ok vst -> wf_store vst -> nth_error (hs a) r = Some h ->
  astep a (OMix r ins eb hf) = Ok a' ->
  exists h' y, nth_error (hs a') r = Some h' /\ view_of (cells a') h' = Ok y /\
    forall c, tot y c == qsum (map (tot_at vst c) ins).
Proof. exact alias_mix_views. Qed.
Print Assumptions C01_alias_mix_views.
(* MultiStream.copy_flow with removal through handles (single-phase source, no exclude, any selector and IDs) *)
Theorem C01_alias_multi_copy_remove_single : forall a d s ps i a' vst hd hsrc o,
  views (cells a) (hs a) = Ok vst -> wf_store vst ->
  nth_error (hs a) d = Some hd -> nth_error (hs a) s = Some hsrc -> nth_error vst s = Some (SS o) ->
  nonview hsrc -> d <> s -> hcell hd <> hcell hsrc ->
  astep a (OCopyFlowM d s ps i true false) = Ok a' ->
  exists x1 x2, nth_error (cells a') (hcell hd) = Some x1 /\ nth_error (cells a') (hcell hsrc) = Some x2 /\
    (forall c, tot x1 c + tot x2 c == tot_at vst c s) /\
    (forall j', j' <> hcell hd -> j' <> hcell hsrc -> nth_error (cells a') j' = nth_error (cells a) j').
Proof. exact alias_multi_copy_remove_single. Qed.
Print Assumptions C01_alias_multi_copy_remove_single.
Example C01_nonvacuous_alias_mix_views_and_multi_copy :
  (exists a', astep exA (OMix 0 [2; 3]%nat true 2) = Ok a') /\
  (exists a', astep exA (OCopyFlowM 2 4 (PhOne Pg) (IdList [0; 2]%nat) true false) = Ok a').
Proof. split; eexists; vm_compute; reflexivity. Qed.

(* ===== a per-phase sub-stream multistream[p] as the RECEIVER (scale, separate_out, copy_flow write the row object it
   wraps in place): the MultiStream keeps its package and phases, only row i changes, and its per-chemical totals
   change by exactly the change of what the sub-stream showed; every other flow data is untouched ===== *)
Theorem C01_alias_scale_substream : forall a k q a' vst j p lbl m i,
  views (cells a) (hs a) = Ok vst -> nth_error (hs a) k = Some (HView j p lbl) ->
  nth_error (cells a) j = Some (MS m) -> pindex_exact p (mphases m) = Some i -> (i < length (mrows m))%nat ->
  astep a (OScale k q) = Ok a' ->
  exists x, nth_error (cells a') j = Some x /\ spkg x = mpkg m /\ sphases x = mphases m /\
    srows x = upd (mrows m) i (vscale q (nth i (mrows m) [])) /\
    (forall c, tot x c == tot (MS m) c - tot_at vst c k + q * tot_at vst c k) /\
    (forall j', j' <> j -> nth_error (cells a') j' = nth_error (cells a) j') /\ hs a' = hs a.
Proof. exact alias_scale_substream. Qed.
Print Assumptions C01_alias_scale_substream.
(* separating a stream out of a sub-stream takes exactly that stream's flows out of the MultiStream (the other phase
   rows are the same objects with the same content) *)
Theorem C01_alias_sep_substream : forall a r o a' vst j p lbl m i,
  views (cells a) (hs a) = Ok vst -> wf_store vst -> nth_error (hs a) r = Some (HView j p lbl) ->
  nth_error (cells a) j = Some (MS m) -> pindex_exact p (mphases m) = Some i -> (i < length (mrows m))%nat ->
  r <> o -> astep a (OSep r o) = Ok a' ->
  exists x, nth_error (cells a') j = Some x /\ spkg x = mpkg m /\ sphases x = mphases m /\
    (forall c, tot x c == tot (MS m) c - tot_at vst c o) /\
    (forall k, k <> i -> nth k (srows x) [] = nth k (mrows m) []) /\
    (forall j', j' <> j -> nth_error (cells a') j' = nth_error (cells a) j') /\ hs a' = hs a.
Proof. exact alias_sep_substream. Qed.
Print Assumptions C01_alias_sep_substream.
(* copy with removal INTO a sub-stream from a stream on other flow data: the phase row takes the source's flows (what
   it held before is overwritten), the source ends empty - nothing is duplicated or lost between the two flow data *)
Theorem C01_alias_copy_remove_into_substream : forall a d s a' vst hsrc j p lbl m i,
  views (cells a) (hs a) = Ok vst -> wf_store vst ->
  nth_error (hs a) d = Some (HView j p lbl) -> nth_error (hs a) s = Some hsrc -> nonview hsrc ->
  nth_error (cells a) j = Some (MS m) -> pindex_exact p (mphases m) = Some i -> (i < length (mrows m))%nat ->
  d <> s -> j <> hcell hsrc ->
  astep a (OCopyFlow d s IdAll true false) = Ok a' ->
  exists x1 x2, nth_error (cells a') j = Some x1 /\ nth_error (cells a') (hcell hsrc) = Some x2 /\
    spkg x1 = mpkg m /\ sphases x1 = mphases m /\
    (forall c, tot x1 c == tot (MS m) c - tot_at vst c d + tot_at vst c s /\ tot x2 c == 0) /\
    (forall j', j' <> j -> j' <> hcell hsrc -> nth_error (cells a') j' = nth_error (cells a) j').
Proof. exact alias_copy_remove_into_substream. Qed.
Print Assumptions C01_alias_copy_remove_into_substream.
(* a MultiStream minus one of its OWN phases (the sub-stream multistream[lbl], which shares one row of the MultiStream's
   flow data; also the single-phase streams a MultiStream.from_streams was assembled from): "restores the remainder" -
   the row the sub-stream wraps ends empty, every other phase row keeps its content, package, phases and number of rows
   stay, every other flow data and every stream object is as before.  (The per-chemical totals - total before minus what
   the sub-stream showed - are C01_alias_sep_value with o the sub-stream.) *)
Theorem C01_alias_sep_own_substream : forall a r o a' vst j p lbl m i,
  views (cells a) (hs a) = Ok vst ->
  nth_error (hs a) r = Some (HCell j) -> nth_error (hs a) o = Some (HView j p lbl) ->
  nth_error (cells a) j = Some (MS m) -> pindex_exact p (mphases m) = Some i ->
  phase_index lbl (mphases m) = Ok i -> (i < length (mrows m))%nat ->
  astep a (OSep r o) = Ok a' ->
  exists x, nth_error (cells a') j = Some (MS x) /\ mpkg x = mpkg m /\ mphases x = mphases m /\
    length (mrows x) = length (mrows m) /\
    (forall c, nthq (nth i (mrows x) []) c == 0) /\
    (forall k, k <> i -> nth k (mrows x) [] = nth k (mrows m) []) /\
    (forall j', j' <> j -> nth_error (cells a') j' = nth_error (cells a) j') /\ hs a' = hs a.
Proof. exact alias_sep_own_substream. Qed.
Print Assumptions C01_alias_sep_own_substream.
Example C01_nonvacuous_alias_sep_own_substream :
  nth_error (hs exA) 2 = Some (HCell 2) /\ nth_error (hs exA) 5 = Some (HView 2 Pl Pl) /\
  phase_index Pl [Pg; Pl] = Ok 1%nat /\
  match astep exA (OSep 2 5) with
  | Ok a1 => match views (cells a1) (hs a1) with
             | Ok v => store_eqb v [SS (mkc exP1 Pl [1; 2; 0]); SS (mkc exP1 Pg [0; 0; 0]);
                                    MS (mkm exP1 [Pg; Pl] [[1; 0; 0]; [0; 0; 0]]); SS (mkc exP1 Ps [0; 1; 1]);
                                    SS (mkc exP1 Pg [1; 2; 0]); SS (mkc exP1 Pl [0; 0; 0])]
             | Err _ => false end
  | Err _ => false end = true.
Proof. repeat split; vm_compute; reflexivity. Qed.
Example C01_nonvacuous_alias_substream_receiver :
  nth_error (hs exA) 5 = Some (HView 2 Pl Pl) /\ pindex_exact Pl [Pg; Pl] = Some 1%nat /\
  (exists a', astep exA (OScale 5 (1 # 2)) = Ok a') /\ (exists a', astep exA (OSep 5 3) = Ok a') /\
  (exists a', astep exA (OCopyFlow 5 3 IdAll true false) = Ok a').
Proof. split; [reflexivity|]. split; [reflexivity|]. repeat split; eexists; vm_compute; reflexivity. Qed.

(* ===== the alias store over alias histories =====
   Invariant: every stream object points at existing flow data.  Every operation that returns keeps it and never drops
   flow data or stream objects; hence so does every history (the part that ran, whatever stopped it).  Every store whose
   stream objects can all be read satisfies it, so it holds initially for every store the correspondence builds. *)
Theorem C01_alias_step_invariant : forall a o a', astep a o = Ok a' -> alias_inv a ->
  alias_inv a' /\ (length (cells a) <= length (cells a'))%nat /\ (length (hs a) <= length (hs a'))%nat.
Proof. exact astep_inv. Qed.
Print Assumptions C01_alias_step_invariant.
Theorem C01_alias_history_invariant : forall n ops a r rest, arun_upto a ops n = (Ok r, rest) -> alias_inv a ->
  alias_inv r /\ (length (cells a) <= length (cells r))%nat /\ (length (hs a) <= length (hs r))%nat.
Proof. exact arun_inv. Qed.
Print Assumptions C01_alias_history_invariant.
Theorem C01_alias_views_give_invariant : forall a vst, views (cells a) (hs a) = Ok vst -> alias_inv a.
Proof. exact views_inv. Qed.
Print Assumptions C01_alias_views_give_invariant.
(* linked MultiStreams (link_with) and the shared rows: each partner shows exactly the rows of the flow data under its
   own phases tuple - also a stale one, after the other partner expanded the phases - so all partners and the flow
   data agree on every per-chemical total at every state of every history *)
Theorem C01_alias_linked_partner_reads_rows : forall cs j phs y, view_of cs (HLink j phs) = Ok y ->
  exists m, nth_error cs j = Some (MS m) /\ y = MS (mkm (mpkg m) phs (mrows m)) /\
    forall c, tot y c = tot (MS m) c.
Proof. exact linked_partner_reads_rows. Qed.
Print Assumptions C01_alias_linked_partner_reads_rows.
Theorem C01_alias_linked_partners_agree : forall cs j phs1 phs2 y1 y2,
  view_of cs (HLink j phs1) = Ok y1 -> view_of cs (HLink j phs2) = Ok y2 ->
  srows y1 = srows y2 /\ spkg y1 = spkg y2 /\ forall c, tot y1 c = tot y2 c.
Proof. exact linked_partners_agree. Qed.
Print Assumptions C01_alias_linked_partners_agree.
(* the partner that writes ends in step with the rows it wrote (the flow data takes its phases); the other partners and
   every other flow data are left as they are *)
Theorem C01_alias_linked_writer_in_step : forall a k j phs m' a',
  nth_error (hs a) k = Some (HLink j phs) -> write_back a k (MS m') = Ok a' ->
  exists m, nth_error (cells a) j = Some (MS m) /\
    nth_error (hs a') k = Some (HLink j (mphases m')) /\
    nth_error (cells a') j = Some (MS (mkm (mpkg m) (mphases m') (mrows m'))) /\
    (forall q, q <> k -> nth_error (hs a') q = nth_error (hs a) q) /\
    (forall j', j' <> j -> nth_error (cells a') j' = nth_error (cells a) j').
Proof. exact linked_writer_in_step. Qed.
Print Assumptions C01_alias_linked_writer_in_step.
Definition exL : astore :=
  mka [MS (mkm exP1 [Pg; Pl] [[1; 0; 0]; [0; 2; 4]]); SS (mkc exP1 Ps [0; 1; 1])]
      [HLink 0 [Pg; Pl]; HCell 1; HLink 0 [Pg; Pl]].
(* a linked pair: one partner takes a solid inlet and expands the shared rows; the other keeps (g, l) over three rows *)
Example C01_nonvacuous_alias_invariant :
  alias_inv exA /\ alias_inv exL /\
  match arun_upto exL [OMix 0 [0; 1]%nat false 0] 1 with
  | (Ok r, []) => match views (cells r) (hs r) with
                  | Ok [MS m0; _; MS m2] => phases_eqb (mphases m0) [Pg; Pl; Ps] && phases_eqb (mphases m2) [Pg; Pl]
                                            && list_eqb vapproxb (mrows m0) (mrows m2)
                  | _ => false end
  | _ => false end = true.
Proof.
  split; [apply (views_inv exA exA_views exA_views_ok)|].
  split; [intros h [<-|[<-|[<-|[]]]]; simpl; lia|]. vm_compute. reflexivity.
Qed.
