(* C01 — property theorems only. *)
From V Require Import Common.NumFacts C01.Model C01.Proofs.
