(* C10 -- lemmas *)
From V Require Import Common.NumFacts C10.Model.
