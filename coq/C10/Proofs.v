(* C10 -- lemmas *)
From V Require Import Common.NumFacts C10.Model.

(* ------------------------------------------------------------------ keys *)
Section KeyInd.
  Variable P : key -> Prop.
  Hypothesis HS : forall s, P (KStr s).
  Hypothesis HE : P KEll.
  Hypothesis HT : forall l, Forall P l -> P (KTup l).
  Hypothesis HL : forall l, Forall P l -> P (KList l).
  Hypothesis HO : forall n, P (KObj n).
  Fixpoint key_ind' (k : key) : P k :=
    match k with
    | KStr s => HS s
    | KEll => HE
    | KTup l => HT l ((fix go (l : list key) : Forall P l :=
                         match l with [] => Forall_nil _ | x :: r => Forall_cons _ (key_ind' x) (go r) end) l)
    | KList l => HL l ((fix go (l : list key) : Forall P l :=
                          match l with [] => Forall_nil _ | x :: r => Forall_cons _ (key_ind' x) (go r) end) l)
    | KObj n => HO n
    end.
End KeyInd.

Definition keys_eqb : list key -> list key -> bool :=
  fix go (l m : list key) {struct l} : bool :=
    match l, m with
    | [], [] => true
    | x :: l', y :: m' => key_eqb x y && go l' m'
    | _, _ => false
    end.

Lemma keys_eqb_sound l : Forall (fun a => forall b, key_eqb a b = true -> a = b) l ->
  forall m, keys_eqb l m = true -> l = m.
Proof.
  induction 1 as [|x l Hx Hl IH]; intros [|y m] E; simpl in E; try discriminate; auto.
  apply andb_true_iff in E as [E1 E2]. f_equal; auto.
Qed.

Lemma key_eqb_eq : forall a b, key_eqb a b = true -> a = b.
Proof.
  induction a as [s| |l IH|l IH|n] using key_ind'; intros [t| |m|m|k] E; simpl in E; try discriminate; auto.
  - apply String.eqb_eq in E. congruence.
  - f_equal. apply (keys_eqb_sound l IH m E).
  - f_equal. apply (keys_eqb_sound l IH m E).
  - apply Nat.eqb_eq in E. congruence.
Qed.

Lemma kassoc_in {A} (c : list (key * A)) k v : kassoc c k = Some v -> In (k, v) c.
Proof.
  induction c as [|[k' v'] r IH]; simpl; intros H; try discriminate.
  destruct (key_eqb k k') eqn:E.
  - apply key_eqb_eq in E. inversion H; subst. auto.
  - auto.
Qed.

(* ------------------------------------------------------------------ coherence of the caches *)
Definition ccoh (t : table) (cc : ccache) : Prop :=
  forall k v, In (k, v) cc -> hashable k = true /\ classify_h t k = Ok v.

Definition mcoh (vr : variant) (t : table) (phs : list string) (mc : mcache) : Prop :=
  forall k v, In (k, v) mc -> classify_mat_h vr t phs k = Ok v.

Lemma ccoh_nil t : ccoh t []. Proof. intros k v []. Qed.
Lemma mcoh_nil vr t phs : mcoh vr t phs []. Proof. intros k v []. Qed.

Lemma evict100_incl {A} (c : list (key * A)) x : In x (evict100 c) -> In x c.
Proof. unfold evict100. destruct (Nat.ltb 100 (length c)); auto. destruct c; simpl; auto. Qed.

Lemma ccoh_evict t cc : ccoh t cc -> ccoh t (evict100 cc).
Proof. intros H k v I. apply H. apply evict100_incl. exact I. Qed.

Lemma ccoh_app t cc k v : ccoh t cc -> hashable k = true -> classify_h t k = Ok v -> ccoh t (cc ++ [(k, v)]).
Proof.
  intros H Hk Hv k' v' I. apply in_app_or in I as [I|[I|[]]]; [auto|]. inversion I; subst. auto.
Qed.

Lemma hashable_norm_classify t k : hashable (norm_key k) = true ->
  classify_chem t k = classify_h t (norm_key k).
Proof. intros H. unfold classify_chem. rewrite H. reflexivity. Qed.

(* _get_index_and_kind returns classify_chem whatever the cache holds, and keeps the cache coherent *)
Lemma chem_lookup_spec t cc k : ccoh t cc ->
  ccoh t (fst (chem_lookup t cc k)) /\ snd (chem_lookup t cc k) = classify_chem t k.
Proof.
  intros H. unfold chem_lookup, classify_chem.
  destruct (hashable (norm_key k)) eqn:Hh; simpl; [|auto].
  destruct (kassoc cc (norm_key k)) as [v|] eqn:Ha; simpl.
  - apply kassoc_in in Ha. destruct (H _ _ Ha) as [_ Hc]. auto.
  - destruct (classify_h t (norm_key k)) as [v|e] eqn:Hc; simpl; [|auto].
    split; [|reflexivity]. apply ccoh_evict. apply ccoh_app; auto.
Qed.

(* index_overlap versus indices *)
Lemma overlap_loop_indices t cas li : overlap_loop t cas = Ok li ->
  indices t (map KStr cas) = Ok (map Pos li) /\ existsb is_grp (map Pos li) = false.
Proof.
  revert li; induction cas as [|s r IH]; simpl; intros li H.
  - inversion H; subst. simpl. auto.
  - unfold tget in *. destruct (sassoc t s) as [[i|l]|] eqn:E; try discriminate.
    destruct (overlap_loop t r) as [is|e] eqn:El; simpl in H; try discriminate.
    inversion H; subst. destruct (IH is eq_refl) as [I1 I2]. rewrite I1. simpl. auto.
Qed.

Lemma indices_overlap_loop t cas ts : indices t (map KStr cas) = Ok ts ->
  if existsb is_grp ts then overlap_loop t cas = Err ERuntime
  else overlap_loop t cas = Ok (poss ts) /\ map Pos (poss ts) = ts.
Proof.
  revert ts; induction cas as [|s r IH]; simpl; intros ts H.
  - inversion H; subst. simpl. auto.
  - unfold tget in *. destruct (sassoc t s) as [x|] eqn:E; try discriminate.
    destruct (indices t (map KStr r)) as [xs|e] eqn:Ei; simpl in H; try discriminate.
    inversion H; subst. specialize (IH xs eq_refl). simpl.
    destruct x as [i|l]; simpl.
    + destruct (existsb is_grp xs).
      * rewrite IH. reflexivity.
      * destruct IH as [I1 I2]. rewrite I1. simpl. split; congruence.
    + reflexivity.
Qed.

Lemma hashable_strs cas : forallb hashable (map KStr cas) = true.
Proof. induction cas; simpl; auto. Qed.

Lemma overlap_spec t cc cas : ccoh t cc ->
  ccoh t (fst (overlap fixed t cc cas)) /\ snd (overlap fixed t cc cas) = overlap_pure t cas.
Proof.
  intros H. unfold overlap, overlap_pure.
  destruct (kassoc cc (KTup (map KStr cas))) as [[idx kd]|] eqn:Ha.
  - apply kassoc_in in Ha. destruct (H _ _ Ha) as [_ Hc]. simpl in Hc.
    destruct (indices t (map KStr cas)) as [ts|e] eqn:Ei; simpl in Hc; try discriminate.
    inversion Hc; subst. pose proof (indices_overlap_loop t cas ts Ei) as L.
    unfold kind_of_many. destruct (existsb is_grp ts); simpl.
    + rewrite L. simpl. auto.
    + destruct L as [L1 L2]. rewrite L1. simpl. rewrite L2. auto.
  - destruct (overlap_loop t cas) as [li|e] eqn:El; simpl; [|auto].
    split; [|reflexivity]. apply ccoh_evict. destruct (overlap_loop_indices t cas li El) as [I1 I2].
    apply ccoh_app; auto.
    + simpl. apply hashable_strs.
    + simpl. rewrite I1. simpl. unfold kind_of_many. rewrite I2. reflexivity.
Qed.

(* the phase part *)
Lemma phase_part_spec vr t phs cc k : ccoh t cc ->
  ccoh t (fst (phase_part vr t phs cc k)) /\ snd (phase_part vr t phs cc k) = phase_part_pure vr t phs k.
Proof.
  intros H. unfold phase_part_pure, phase_part.
  destruct k as [s| |l|l|n]; simpl; auto.
  - destruct (len1 s); simpl; auto.
  - destruct l as [|p0 rest]; simpl; auto.
    destruct (match p0 with
              | KStr s => if len1 s then do p <- pcall phs s; Ok (Some p) else Err EKey
              | KEll => Ok None
              | _ => Err EIndex
              end) as [pi|e]; simpl; auto.
    destruct rest as [|ids [|x y]]; simpl; auto.
    destruct (chem_lookup_spec t cc ids H) as [C1 C2].
    destruct (chem_lookup_spec t [] ids (ccoh_nil t)) as [_ C3].
    destruct (chem_lookup t cc ids) as [cc' r]. destruct (chem_lookup t [] ids) as [cc0 r0].
    simpl in *. subst. auto.
Qed.

Lemma skipn_incl {A} n (l : list A) x : In x (skipn n l) -> In x l.
Proof. revert l; induction n; intros [|a l]; simpl; auto. Qed.

Lemma mcoh_app vr t phs mc k v : mcoh vr t phs mc -> classify_mat_h vr t phs k = Ok v -> mcoh vr t phs (mc ++ [(k, v)]).
Proof.
  intros H Hv k' v' I. apply in_app_or in I as [I|[I|[]]]; [auto|]. inversion I; subst. auto.
Qed.

Lemma hashable_norm k : hashable k = true -> norm_key k = k.
Proof. destruct k; simpl; auto; discriminate. Qed.

Lemma mat_lookup_h_spec t phs cc mc k : ccoh t cc -> mcoh fixed t phs mc ->
  let r := mat_lookup_h fixed t phs cc mc k in
  ccoh t (fst (fst r)) /\ mcoh fixed t phs (snd (fst r)) /\ snd r = classify_mat_h fixed t phs k.
Proof.
  intros Hc Hm. unfold mat_lookup_h.
  destruct (kassoc mc k) as [v|] eqn:Ha; simpl.
  - apply kassoc_in in Ha. rewrite (Hm _ _ Ha). auto.
  - destruct (chem_lookup_spec t cc k Hc) as [C1 C2].
    destruct (chem_lookup t cc k) as [cc1 r1]. simpl in C1, C2. subst r1.
    unfold classify_mat_h.
    assert (TR : forall (v : mval) (c' : ccache), ccoh t c' -> classify_mat_h fixed t phs k = Ok v ->
              let r := (let mc' := mc ++ [(k, v)] in
                        match trim fixed mc' with
                        | Ok mc'' => (c', mc'', Ok v)
                        | Err e => (c', mc', Err e)
                        end) in
              ccoh t (fst (fst r)) /\ mcoh fixed t phs (snd (fst r)) /\ snd r = Ok v).
    { intros v c' Hc' Hv. unfold trim. change (fx_trim fixed) with true. cbv iota zeta.
      destruct (Nat.ltb 500 (length (mc ++ [(k, v)]))); cbn [fst snd];
        (split; [exact Hc'|split; [|reflexivity]]).
      - intros k' v' I. apply skipn_incl in I. revert I. apply mcoh_app; auto.
      - apply mcoh_app; auto. }
    destruct (classify_chem t k) as [[ci kd]|e] eqn:Ec.
    + apply TR; auto. unfold classify_mat_h. rewrite Ec. reflexivity.
    + destruct e; simpl; auto.
      destruct (phase_part_spec fixed t phs cc1 k C1) as [P1 P2].
      destruct (phase_part fixed t phs cc1 k) as [cc2 r2]. simpl in P1, P2. subst r2.
      destruct (phase_part_pure fixed t phs k) as [[mi kd]|e] eqn:Ep; simpl; auto.
      apply TR; auto. unfold classify_mat_h. rewrite Ec, Ep. reflexivity.
Qed.

Lemma mat_lookup_spec t phs cc mc k : ccoh t cc -> mcoh fixed t phs mc ->
  let r := mat_lookup fixed t phs cc mc k in
  ccoh t (fst (fst r)) /\ mcoh fixed t phs (snd (fst r)) /\ snd r = classify_mat fixed t phs k.
Proof.
  intros Hc Hm. unfold mat_lookup, classify_mat.
  destruct (mat_key k) as [k'|]; simpl; auto.
  apply mat_lookup_h_spec; auto.
Qed.

(* ------------------------------------------------------------------ the per-phases table of caches *)
Lemma str_list_eqb_eq a b : phs_eqb a b = true -> a = b.
Proof.
  unfold phs_eqb. revert b; induction a as [|x a IH]; intros [|y b] E; simpl in E; try discriminate; auto.
  apply andb_true_iff in E as [E1 E2]. apply String.eqb_eq in E1. f_equal; auto.
Qed.

Lemma phs_eqb_refl a : phs_eqb a a = true.
Proof. unfold phs_eqb. induction a as [|x a IH]; simpl; auto. rewrite String.eqb_refl. exact IH. Qed.

Lemma mc_get_set m p c q : mc_get (mc_set m p c) q = if phs_eqb q p then c else mc_get m q.
Proof.
  induction m as [|[p0 c0] r IH]; simpl.
  - reflexivity.
  - destruct (phs_eqb p p0) eqn:E; simpl.
    + apply str_list_eqb_eq in E. subst p0. destruct (phs_eqb q p); reflexivity.
    + destruct (phs_eqb q p0) eqn:E0.
      * destruct (phs_eqb q p) eqn:E1; auto.
        apply str_list_eqb_eq in E0. apply str_list_eqb_eq in E1. subst. rewrite phs_eqb_refl in E. discriminate.
      * apply IH.
Qed.

Definition coh (c : cfg) (s : state) : Prop :=
  ccoh (tb c) (scc s) /\ forall phs, mcoh fixed (tb c) phs (mc_get (smc s) phs).

Lemma coh_init c ixs : coh c (mkst [] [] ixs).
Proof. split; [apply ccoh_nil|]. intros phs. simpl. apply mcoh_nil. Qed.

Lemma coh_mc_set c cc m phs mc ixs :
  ccoh (tb c) cc -> (forall q, mcoh fixed (tb c) q (mc_get m q)) -> mcoh fixed (tb c) phs mc ->
  coh c (mkst cc (mc_set m phs mc) ixs).
Proof.
  intros H1 H2 H3. split; simpl; auto. intros q. rewrite mc_get_set.
  destruct (phs_eqb q phs) eqn:E; auto. apply str_list_eqb_eq in E. subst. auto.
Qed.

Lemma step_coh c s o : coh c s -> coh c (fst (step fixed c s o)).
Proof.
  intros [Hc Hm]. destruct o as [i k|i k dt|cas|i cas vals|k|i k|i k dt|i p v|i p v|i src|i src]; simpl.
  - destruct (nth_error (sixs s) i) as [[d|phs rows]|]; simpl.
    + destruct (chem_lookup_spec (tb c) (scc s) k Hc) as [C1 _].
      destruct (chem_lookup (tb c) (scc s) k) as [cc' r]. simpl in *. split; auto.
    + destruct (mat_lookup_spec (tb c) phs (scc s) (mc_get (smc s) phs) k Hc (Hm phs)) as (M1 & M2 & _).
      destruct (mat_lookup fixed (tb c) phs (scc s) (mc_get (smc s) phs) k) as [[cc' mc'] r]. simpl in *.
      apply coh_mc_set; auto.
    + split; auto.
  - destruct (nth_error (sixs s) i) as [[d|phs rows]|]; simpl.
    + destruct (chem_lookup_spec (tb c) (scc s) k Hc) as [C1 _].
      destruct (chem_lookup (tb c) (scc s) k) as [cc' [[ci kd]|e]]; simpl in *.
      * destruct (set_sparse (comps c) d ci kd dt k). simpl. split; auto.
      * split; auto.
    + destruct (mat_lookup_spec (tb c) phs (scc s) (mc_get (smc s) phs) k Hc (Hm phs)) as (M1 & M2 & _).
      destruct (mat_lookup fixed (tb c) phs (scc s) (mc_get (smc s) phs) k) as [[cc' mc'] [v|e]]; simpl in *.
      * destruct (mat_set (comps c) rows v dt k). simpl. apply coh_mc_set; auto.
      * apply coh_mc_set; auto.
    + split; auto.
  - destruct (overlap_spec (tb c) (scc s) cas Hc) as [O1 _].
    destruct (overlap fixed (tb c) (scc s) cas) as [cc' r]. simpl in *. split; auto.
  - destruct (nth_error (sixs s) i) as [[d|phs rows]|]; simpl; try (split; auto; fail).
    destruct (overlap_spec (tb c) (scc s) cas Hc) as [O1 _].
    destruct (overlap fixed (tb c) (scc s) cas) as [cc' [[|x|ts]|e]]; simpl in *; try (split; auto; fail).
    destruct (existsb is_grp ts); simpl; split; auto.
  - split; auto.
  - destruct (nth_error (sixs s) i) as [[d|phs rows]|]; simpl.
    + destruct (chem_lookup_spec (tb c) (scc s) k Hc) as [C1 _].
      destruct (chem_lookup (tb c) (scc s) k) as [cc' r]. simpl in *. split; auto.
    + destruct (mat_lookup_spec (tb c) phs (scc s) (mc_get (smc s) phs) k Hc (Hm phs)) as (M1 & M2 & _).
      destruct (mat_lookup fixed (tb c) phs (scc s) (mc_get (smc s) phs) k) as [[cc' mc'] r]. simpl in *.
      apply coh_mc_set; auto.
    + split; auto.
  - destruct (nth_error (sixs s) i) as [[d|phs rows]|]; simpl.
    + destruct (chem_lookup_spec (tb c) (scc s) k Hc) as [C1 _].
      destruct (chem_lookup (tb c) (scc s) k) as [cc' [[ci kd]|e]]; simpl in *.
      * destruct (set_sparse (wcomps c) (to_mass (mws c) d) ci kd dt k). simpl. split; auto.
      * split; auto.
    + destruct (mat_lookup_spec (tb c) phs (scc s) (mc_get (smc s) phs) k Hc (Hm phs)) as (M1 & M2 & _).
      destruct (mat_lookup fixed (tb c) phs (scc s) (mc_get (smc s) phs) k) as [[cc' mc'] [v|e]]; simpl in *.
      * destruct (mat_set (wcomps c) (map (to_mass (mws c)) rows) v dt k). simpl. apply coh_mc_set; auto.
      * apply coh_mc_set; auto.
    + split; auto.
  - destruct (nth_error (sixs s) i) as [[d|phs rows]|]; simpl; try (split; auto; fail).
    destruct (add_phase_row (nchem c) phs rows p) as [[phs' rows'] r]. simpl. split; auto.
  - destruct (nth_error (sixs s) i) as [[d|phs rows]|]; simpl; try (split; auto; fail).
    destruct (add_phase_row (nchem c) phs (map (fun x => vzero (length x)) rows) p) as [[phs' rows'] r]. simpl. split; auto.
  - destruct (nth_error (sixs s) i) as [[d|phs rows]|]; simpl; try (split; auto; fail).
    destruct (mix_mat (nchem c) phs rows src) as [phs' rows']. simpl. split; auto.
  - destruct (nth_error (sixs s) i) as [[d|phs rows]|]; simpl; try (split; auto; fail).
    destruct (copy_mat (nchem c) phs rows src) as [phs' rows']. simpl. split; auto.
Qed.

Lemma run_coh c ops : forall s, coh c s -> coh c (fst (run fixed c s ops)).
Proof.
  induction ops as [|o r IH]; intros s H; simpl; auto.
  pose proof (step_coh c s o H) as H1. destruct (step fixed c s o) as [s' b]. simpl in H1.
  specialize (IH s' H1). destruct (run fixed c s' r) as [s'' bs]. simpl in *. exact IH.
Qed.

(* the result of every kind of lookup after ANY history is the pure classification *)
Lemma lookup_pure_lemma : forall c ixs hist k,
  let s := fst (run fixed c (mkst [] [] ixs) hist) in
  snd (chem_lookup (tb c) (scc s) k) = classify_chem (tb c) k
  /\ (forall phs, snd (mat_lookup fixed (tb c) phs (scc s) (mc_get (smc s) phs) k) = classify_mat fixed (tb c) phs k)
  /\ (forall cas, snd (overlap fixed (tb c) (scc s) cas) = overlap_pure (tb c) cas).
Proof.
  intros c ixs hist k s.
  destruct (run_coh c hist _ (coh_init c ixs)) as [Hc Hm]. fold s in Hc, Hm.
  split; [|split].
  - apply chem_lookup_spec; auto.
  - intros phs. apply mat_lookup_spec; auto.
  - intros cas. apply overlap_spec; auto.
Qed.

(* the indexers of a history never change kind or shape position *)
Definition obs_of_read (r : res val) : obs := match r with Ok v => BVal v | Err e => BErr e end.

Lemma read_history_independent : forall c s i k, coh c s ->
  snd (step fixed c s (OGet i k)) =
  match nth_error (sixs s) i with
  | Some (IC d) => obs_of_read (read_chem (tb c) d k)
  | Some (IM phs rows) => obs_of_read (read_mat fixed (tb c) (nchem c) phs rows k)
  | None => BErr EOther
  end.
Proof.
  intros c s i k [Hc Hm]. simpl.
  destruct (nth_error (sixs s) i) as [[d|phs rows]|]; simpl; auto.
  - destruct (chem_lookup_spec (tb c) (scc s) k Hc) as [_ C2].
    destruct (chem_lookup (tb c) (scc s) k) as [cc' r]. simpl in *. subst r.
    unfold read_chem. destruct (classify_chem (tb c) k) as [[ci kd]|e]; simpl; auto.
  - destruct (mat_lookup_spec (tb c) phs (scc s) (mc_get (smc s) phs) k Hc (Hm phs)) as (_ & _ & M3).
    destruct (mat_lookup fixed (tb c) phs (scc s) (mc_get (smc s) phs) k) as [[cc' mc'] r]. simpl in *. subst r.
    unfold read_mat. reflexivity.
Qed.

(* ------------------------------------------------------------------ reads are the listed entries *)
Lemma names_targets_indices t l xs : names_targets t l = Some xs ->
  indices t l = Ok xs /\ forallb hashable l = true.
Proof.
  revert xs; induction l as [|e r IH]; simpl; intros xs H.
  - inversion H; auto.
  - destruct e as [s| | | |]; try discriminate. simpl.
    destruct (tget t s) as [x|]; try discriminate.
    destruct (names_targets t r) as [ys|]; try discriminate.
    inversion H; subst. destruct (IH ys eq_refl) as [I1 I2]. rewrite I1. simpl. auto.
Qed.

Lemma get_sparse_many d xs : get_sparse d (CMany xs) (kind_of_many xs) = Ok (VVec (map (tsum d) xs)).
Proof. unfold kind_of_many. destruct (existsb is_grp xs) eqn:E; simpl; [reflexivity|]. rewrite E. reflexivity. Qed.

Lemma classify_seq t l xs : names_targets t l = Some xs ->
  classify_chem t (KTup l) = Ok (CMany xs, kind_of_many xs) /\ classify_chem t (KList l) = Ok (CMany xs, kind_of_many xs).
Proof.
  intros H. destruct (names_targets_indices t l xs H) as [I1 I2].
  unfold classify_chem. simpl. rewrite I2. simpl. rewrite I1. simpl. auto.
Qed.

Lemma get_refines_chem_lemma t d k v : spec_chem t d k = Some v -> read_chem t d k = Ok v.
Proof.
  unfold read_chem. destruct k as [s| |l|l|n]; simpl; intros H; try discriminate.
  - unfold classify_chem. simpl. destruct (tget t s) as [[i|l]|]; inversion H; subst; reflexivity.
  - inversion H; subst. reflexivity.
  - destruct (names_targets t l) as [xs|] eqn:E; inversion H; subst.
    destruct (classify_seq t l xs E) as [C _]. rewrite C. simpl. apply get_sparse_many.
  - destruct (names_targets t l) as [xs|] eqn:E; inversion H; subst.
    destruct (classify_seq t l xs E) as [_ C]. rewrite C. simpl. apply get_sparse_many.
Qed.

(* ------------------------------------------------------------------ writes *)
Lemma wr_length d i x : length (wr d i x) = length d.
Proof. apply upd_length. Qed.

Lemma wr_zip_length idx : forall d xs, length (wr_zip d idx xs) = length d.
Proof.
  induction idx as [|i r IH]; intros d [|x xs]; simpl; auto. rewrite IH. apply wr_length.
Qed.

Lemma wr_zip_other idx : forall d xs i, ~ In i idx -> nthq (wr_zip d idx xs) i = nthq d i.
Proof.
  induction idx as [|j r IH]; intros d [|x xs] i H; simpl; auto.
  rewrite IH by (intros C; apply H; right; exact C).
  apply nth_upd_other. intros E. apply H. left. exact E.
Qed.

Lemma wr_zip_same idx : forall d xs, NoDup idx -> length idx = length xs ->
  Forall (fun i => (i < length d)%nat) idx -> map (nthq (wr_zip d idx xs)) idx = xs.
Proof.
  induction idx as [|j r IH]; intros d [|x xs] ND L F; simpl in *; try discriminate; auto.
  inversion ND as [|? ? Hn ND']; subst. inversion F as [|? ? Fj F']; subst.
  f_equal.
  - rewrite wr_zip_other by exact Hn. apply nth_upd_same. exact Fj.
  - apply IH; auto. rewrite wr_length. exact F'.
Qed.

Lemma wr_all_zip idx : forall d x, wr_all d idx x = wr_zip d idx (repeat x (length idx)).
Proof. unfold wr_all. induction idx as [|i r IH]; intros d x; simpl; auto. Qed.

Lemma qsum_vscale x c : qsum (vscale x c) == x * qsum c.
Proof. induction c as [|y c IH]; simpl; [lra|]. unfold vscale in IH. rewrite IH. lra. Qed.

(* a name: the written value is read back, nothing else moves *)
Lemma set_get_name_lemma t cs d s i x d' e :
  tget t s = Some (Pos i) -> (i < length d)%nat ->
  classify_chem t (KStr s) = Ok (COne (Pos i), Some 0%nat) /\
  (set_sparse cs d (COne (Pos i)) (Some 0%nat) (DNum x) (KStr s) = (d', e) ->
   e = None /\ length d' = length d /\ get_sparse d' (COne (Pos i)) (Some 0%nat) = Ok (VNum x) /\
   forall j, j <> i -> nthq d' j = nthq d j).
Proof.
  intros Ht Hi. split.
  - unfold classify_chem. simpl. rewrite Ht. reflexivity.
  - simpl. intros H. inversion H; subst. repeat split.
    + apply wr_length.
    + unfold wr. rewrite nth_upd_same by exact Hi. reflexivity.
    + intros j Hj. apply nth_upd_other. congruence.
Qed.

(* a tuple/list of chemical names, vector data *)
Lemma set_get_list_lemma cs d xs v k d' e :
  existsb is_grp xs = false -> NoDup (poss xs) -> length (poss xs) = length v ->
  Forall (fun i => (i < length d)%nat) (poss xs) ->
  set_sparse cs d (CMany xs) (Some 3%nat) (DVec v) k = (d', e) ->
  e = None /\ length d' = length d /\ map (nthq d') (poss xs) = v /\
  forall j, ~ In j (poss xs) -> nthq d' j = nthq d j.
Proof.
  intros G ND L F H. simpl in H. rewrite G in H. inversion H; subst. repeat split.
  - apply wr_zip_length.
  - apply wr_zip_same; auto.
  - intros j Hj. apply wr_zip_other. exact Hj.
Qed.

Lemma tsum_poss d xs : existsb is_grp xs = false -> map (tsum d) xs = map (nthq d) (poss xs).
Proof.
  induction xs as [|[i|l] r IH]; simpl; intros H; auto; try discriminate. f_equal. auto.
Qed.

(* ... scalar data is broadcast *)
Lemma set_get_list_scalar_lemma cs d xs x k d' e :
  existsb is_grp xs = false -> NoDup (poss xs) ->
  Forall (fun i => (i < length d)%nat) (poss xs) ->
  set_sparse cs d (CMany xs) (Some 3%nat) (DNum x) k = (d', e) ->
  e = None /\ length d' = length d /\ map (nthq d') (poss xs) = repeat x (length (poss xs)) /\
  forall j, ~ In j (poss xs) -> nthq d' j = nthq d j.
Proof.
  intros G ND F H. simpl in H. rewrite G in H. inversion H; subst. rewrite wr_all_zip. repeat split.
  - apply wr_zip_length.
  - apply wr_zip_same; auto. rewrite repeat_length. reflexivity.
  - intros j Hj. apply wr_zip_other. exact Hj.
Qed.

(* a group, vector data: entries are stored as given, the group reads their sum *)
Lemma set_get_group_vec_lemma cs d l v k d' e :
  NoDup l -> length l = length v -> Forall (fun i => (i < length d)%nat) l ->
  set_sparse cs d (COne (Grp l)) (Some 1%nat) (DVec v) k = (d', e) ->
  e = None /\ length d' = length d /\ map (nthq d') l = v /\
  get_sparse d' (COne (Grp l)) (Some 1%nat) = Ok (VNum (qsum v)) /\
  forall j, ~ In j l -> nthq d' j = nthq d j.
Proof.
  intros ND L F H. simpl in H. inversion H; subst.
  assert (M : map (nthq (wr_zip d l v)) l = v) by (apply wr_zip_same; auto).
  repeat split.
  - apply wr_zip_length.
  - exact M.
  - simpl. rewrite M. reflexivity.
  - intros j Hj. apply wr_zip_other. exact Hj.
Qed.

(* a scalar written to a group is distributed by the group's composition *)
Lemma group_scalar_lemma cs d l x s c d' e :
  sassoc cs s = Some c -> NoDup l -> length l = length c -> Forall (fun i => (i < length d)%nat) l ->
  set_sparse cs d (COne (Grp l)) (Some 1%nat) (DNum x) (KStr s) = (d', e) ->
  e = None /\ length d' = length d /\
  (forall j, (j < length l)%nat -> nthq d' (nth j l O) == x * nthq c j) /\
  (exists y, get_sparse d' (COne (Grp l)) (Some 1%nat) = Ok (VNum y) /\ y == x * qsum c) /\
  forall j, ~ In j l -> nthq d' j = nthq d j.
Proof.
  intros Hc ND L F H. unfold set_sparse, comp_of in H. change (@sassoc (list Q) cs s) with (@sassoc vec cs s) in Hc.
  rewrite Hc in H. inversion H; subst.
  assert (M : map (nthq (wr_zip d l (vscale x c))) l = vscale x c).
  { apply wr_zip_same; auto. rewrite vscale_length. exact L. }
  repeat split.
  - apply wr_zip_length.
  - intros j Hj.
    set (D := wr_zip d l (vscale x c)) in *.
    assert (E : nthq D (nth j l O) = nth j (map (nthq D) l) 0).
    { rewrite (nth_indep _ 0 (nthq D O)) by (rewrite map_length; exact Hj). rewrite map_nth. reflexivity. }
    rewrite E, M. apply nthq_vscale.
  - eexists. split; [simpl; rewrite M; reflexivity|]. apply qsum_vscale.
  - intros j Hj. apply wr_zip_other. exact Hj.
Qed.

(* the ellipsis: all data *)
Lemma set_get_all_lemma cs d v k d' e :
  length v = length d ->
  set_sparse cs d CAll None (DVec v) k = (d', e) -> e = None /\ d' = v.
Proof.
  intros L H. simpl in H. inversion H; subst. split; auto.
  rewrite <- L. clear L H. unfold vzero.
  assert (A : forall (v pre : vec), wr_zip (pre ++ repeat 0 (length v)) (seq (length pre) (length v)) v = pre ++ v).
  { induction v0 as [|x r IH]; intros pre.
    - simpl. reflexivity.
    - cbn [length repeat seq wr_zip]. unfold wr.
      assert (U : upd (pre ++ 0 :: repeat 0 (length r)) (length pre) x = (pre ++ [x]) ++ repeat 0 (length r)).
      { rewrite <- app_assoc. simpl. induction pre as [|a p IHp]; simpl; auto. f_equal. exact IHp. }
      rewrite U.
      assert (Ln : S (length pre) = length (pre ++ [x])) by (rewrite app_length; simpl; lia).
      rewrite Ln. rewrite IH. rewrite <- app_assoc. reflexivity. }
  exact (A v []).
Qed.

(* ------------------------------------------------------------------ every name of a chemical resolves to its position *)
Lemma tget_tset t s x n : tget (tset t s x) n = if String.eqb n s then Some x else tget t n.
Proof. reflexivity. Qed.

Definition bindf (t : table) (ci : string * nat) : table := tset t (fst ci) (Pos (snd ci)).

Lemma base_fold_unique l : forall t0 n i,
  In (n, i) l -> (forall j, In (n, j) l -> j = i) -> tget (fold_left bindf l t0) n = Some (Pos i).
Proof.
  induction l as [|[m k] r IH]; intros t0 n i HI HU; simpl; [destruct HI|].
  assert (DEC : forall a b : string * nat, {a = b} + {a <> b}).
  { intros [a1 a2] [b1 b2]. destruct (string_dec a1 b1); [|right; congruence].
    destruct (Nat.eq_dec a2 b2); [left; congruence|right; congruence]. }
  destruct (in_dec DEC (n, i) r) as [Hr|Hr].
  - apply IH; auto. intros j Hj. apply HU. right. exact Hj.
  - destruct HI as [E|HI]; [|contradiction]. inversion E; subst m k.
    assert (G : forall t1, tget t1 n = Some (Pos i) -> tget (fold_left bindf r t1) n = Some (Pos i)).
    { clear IH Hr E. induction r as [|[m k] r IHr]; intros t1 H1; simpl; auto.
      apply IHr.
      - intros j Hj. apply HU. destruct Hj as [Hj|Hj]; [left; exact Hj|right; right; exact Hj].
      - unfold bindf. simpl. rewrite tget_tset. destruct (String.eqb n m) eqn:Em; auto.
        apply String.eqb_eq in Em. subst m. f_equal. f_equal. apply HU. right. left. reflexivity. }
    apply G. unfold bindf. simpl. rewrite tget_tset, String.eqb_refl. reflexivity.
Qed.

Lemma in_enum_from {A} (xs : list A) : forall k x j, In (x, j) (enum_from k xs) <-> (k <= j)%nat /\ nth_error xs (j - k) = Some x.
Proof.
  induction xs as [|a r IH]; intros k x j; simpl.
  - split; [intros []|]. intros [_ H]. destruct (j - k)%nat; discriminate.
  - rewrite IH. split.
    + intros [E|[L N]].
      * inversion E; subst. replace (j - j)%nat with O by lia. simpl. auto.
      * split; [lia|]. replace (j - k)%nat with (S (j - S k)) by lia. exact N.
    + intros [L N]. destruct (Nat.eq_dec j k) as [E|E].
      * subst. replace (k - k)%nat with O in N by lia. simpl in N. inversion N. left. reflexivity.
      * right. split; [lia|]. replace (j - k)%nat with (S (j - S k)) in N by lia. exact N.
Qed.

Definition wf_chems (cs : list chem) : Prop :=
  NoDup (map cid cs) /\ NoDup (map ccas cs) /\
  forall i j a b, nth_error cs i = Some a -> nth_error cs j = Some b -> cid a = ccas b -> i = j.

Lemma nodup_nth {A} (l : list A) i j x : NoDup l -> nth_error l i = Some x -> nth_error l j = Some x -> i = j.
Proof.
  intros ND Hi Hj. apply (proj1 (NoDup_nth_error l) ND); [apply nth_error_Some; congruence|congruence].
Qed.

Lemma base_table_names cs i ch : wf_chems cs -> nth_error cs i = Some ch ->
  tget (base_table cs) (cid ch) = Some (Pos i) /\ tget (base_table cs) (ccas ch) = Some (Pos i).
Proof.
  intros (ND1 & ND2 & X) Hi. unfold base_table.
  change (fun (t : table) (ci : string * nat) => tset t (fst ci) (Pos (snd ci))) with bindf.
  assert (Hid : nth_error (map cid cs) i = Some (cid ch)) by (rewrite nth_error_map, Hi; reflexivity).
  assert (Hcas : nth_error (map ccas cs) i = Some (ccas ch)) by (rewrite nth_error_map, Hi; reflexivity).
  split; apply base_fold_unique.
  - apply in_or_app. right. apply in_enum_from. split; [lia|]. rewrite Nat.sub_0_r. exact Hid.
  - intros j Hj. apply in_app_or in Hj as [Hj|Hj]; apply in_enum_from in Hj as [_ Hj]; rewrite Nat.sub_0_r in Hj.
    + rewrite nth_error_map in Hj. destruct (nth_error cs j) as [b|] eqn:Eb; simpl in Hj; [|discriminate].
      inversion Hj. symmetry. apply (X i j ch b); auto.
    + apply (nodup_nth _ j i _ ND1 Hj Hid).
  - apply in_or_app. left. apply in_enum_from. split; [lia|]. rewrite Nat.sub_0_r. exact Hcas.
  - intros j Hj. apply in_app_or in Hj as [Hj|Hj]; apply in_enum_from in Hj as [_ Hj]; rewrite Nat.sub_0_r in Hj.
    + apply (nodup_nth _ j i _ ND2 Hj Hcas).
    + rewrite nth_error_map in Hj. destruct (nth_error cs j) as [b|] eqn:Eb; simpl in Hj; [|discriminate].
      inversion Hj. apply (X j i b ch); auto.
Qed.

Lemma target_eqb_eq a b : target_eqb a b = true -> a = b.
Proof.
  destruct a as [i|l], b as [j|m]; simpl; intros H; try discriminate.
  - apply Nat.eqb_eq in H. congruence.
  - f_equal. revert m H; induction l as [|x l IH]; intros [|y m] H; simpl in H; try discriminate; auto.
    apply andb_true_iff in H as [H1 H2]. apply Nat.eqb_eq in H1. f_equal; auto.
Qed.

(* set_alias never rebinds a name to a different target *)
Lemma set_alias_preserves t id a n x : tget t n = Some x -> tget (fst (set_alias t id a)) n = Some x.
Proof.
  intros H. unfold set_alias. destruct (tget t id) as [y|] eqn:Ey; simpl; auto.
  destruct (tget t a) as [z|] eqn:Ez.
  - destruct (target_eqb y z) eqn:E; simpl; auto.
    apply target_eqb_eq in E. subst z. rewrite tget_tset. destruct (String.eqb n a) eqn:En; auto.
    apply String.eqb_eq in En. subst. congruence.
  - simpl. rewrite tget_tset. destruct (String.eqb n a) eqn:En; auto.
    apply String.eqb_eq in En. subst. congruence.
Qed.

Lemma set_alias_binds t id a t' x : set_alias t id a = (t', None) -> tget t id = Some x -> tget t' a = Some x.
Proof.
  unfold set_alias. intros H Hx. rewrite Hx in H.
  destruct (match tget t a with Some y => negb (target_eqb x y) | None => false end); inversion H; subst.
  rewrite tget_tset, String.eqb_refl. reflexivity.
Qed.

Lemma set_aliases_spec id names : forall t t' x, set_aliases t id names = Ok t' -> tget t id = Some x ->
  (forall n y, tget t n = Some y -> tget t' n = Some y) /\ (forall n, In n names -> tget t' n = Some x).
Proof.
  induction names as [|a r IH]; intros t t' x H Hx; simpl in H.
  - inversion H; subst. split; auto. intros n [].
  - destruct (set_alias t id a) as [t1 [e|]] eqn:E; [discriminate|].
    pose proof (set_alias_binds t id a t1 x E Hx) as B.
    assert (P : forall n y, tget t n = Some y -> tget t1 n = Some y).
    { intros n y Hn. pose proof (set_alias_preserves t id a n y Hn) as Q. rewrite E in Q. exact Q. }
    destruct (IH t1 t' x H (P _ _ Hx)) as [I1 I2]. split.
    + intros n y Hn. apply I1. apply P. exact Hn.
    + intros n [Hn|Hn]; [subst; apply I1; exact B|apply I2; exact Hn].
Qed.

Lemma compile_aliases_spec all : forall cs t t', compile_aliases all t cs = Ok t' ->
  (forall n y, tget t n = Some y -> tget t' n = Some y) /\
  (forall ch x n, In ch cs -> tget t (cid ch) = Some x ->
     In n (filter (fun n => negb (repeated all n)) (cnames ch)) -> tget t' n = Some x).
Proof.
  induction cs as [|c r IH]; intros t t' H; simpl in H.
  - inversion H; subst. split; auto. intros ch x n [].
  - destruct (set_aliases t (cid c) (filter (fun n => negb (repeated all n)) (cnames c))) as [t1|e] eqn:E; simpl in H; [|discriminate].
    destruct (IH t1 t' H) as [I1 I2].
    assert (P : forall n y, tget t n = Some y -> tget t1 n = Some y).
    { intros n y Hn. destruct (tget t (cid c)) as [x|] eqn:Ex.
      - apply (proj1 (set_aliases_spec _ _ t t1 x E Ex)). exact Hn.
      - (* the ID is always bound; without it set_aliases either does nothing or fails *)
        destruct (filter (fun n0 => negb (repeated all n0)) (cnames c)) as [|a l]; simpl in E.
        + inversion E; subst. exact Hn.
        + unfold set_alias in E. rewrite Ex in E. discriminate. }
    split.
    + intros n y Hn. apply I1. apply P. exact Hn.
    + intros ch x n [Hc|Hc] Hx Hn.
      * subst ch. apply I1. apply (proj2 (set_aliases_spec _ _ t t1 x E Hx)). exact Hn.
      * apply (I2 ch x n Hc); auto.
Qed.

Lemma names_single_compile cs c0 i ch n : wf_chems cs -> compile cs = Ok c0 ->
  nth_error cs i = Some ch -> In n (chem_names cs ch) -> tget (tb c0) n = Some (Pos i).
Proof.
  intros W C Hi Hn. unfold compile in C.
  destruct (compile_aliases cs (base_table cs) cs) as [t|e] eqn:E; simpl in C; [|discriminate].
  inversion C; subst. simpl.
  destruct (base_table_names cs i ch W Hi) as [B1 B2].
  destruct (compile_aliases_spec cs cs _ _ E) as [P1 P2].
  destruct Hn as [Hn|[Hn|Hn]]; subst.
  - apply P1. exact B1.
  - apply P1. exact B2.
  - apply (P2 ch (Pos i) n); auto. apply nth_error_In with i. exact Hi.
Qed.

(* configuration calls keep them, provided no group takes the name *)
Definition group_name (o : cop) : option string := match o with CGroup n _ _ _ => Some n | CAlias _ _ => None end.

Lemma cstep_preserves c o n x : group_name o <> Some n -> tget (tb c) n = Some x ->
  tget (tb (fst (cstep c o))) n = Some x.
Proof.
  intros G H. destruct o as [id a|g ids cp wt]; simpl.
  - pose proof (set_alias_preserves (tb c) id a n x H) as P.
    destruct (set_alias (tb c) id a) as [t e]. simpl in *. exact P.
  - unfold define_group.
    destruct (negb _); simpl; auto. destruct (existsb _ ids); simpl; auto.
    destruct (indices (tb c) (map KStr ids)); simpl; auto.
    rewrite tget_tset. destruct (String.eqb n g) eqn:E; auto.
    apply String.eqb_eq in E. subst. simpl in G. congruence.
Qed.

Lemma cbuild_preserves ops : forall c n x, (forall o, In o ops -> group_name o <> Some n) ->
  tget (tb c) n = Some x -> tget (tb (fst (cbuild c ops))) n = Some x.
Proof.
  induction ops as [|o r IH]; intros c n x G H; simpl; auto.
  pose proof (cstep_preserves c o n x (G o (or_introl eq_refl)) H) as P.
  destruct (cstep c o) as [c' e]. simpl in P.
  specialize (IH c' n x (fun o' Ho => G o' (or_intror Ho)) P).
  destruct (cbuild c' r) as [c'' es]. simpl in *. exact IH.
Qed.

Lemma alias_resolves c id a c' x : cstep c (CAlias id a) = (c', None) -> tget (tb c) id = Some x ->
  tget (tb c') a = Some x.
Proof.
  simpl. intros H Hx. destruct (set_alias (tb c) id a) as [t e] eqn:E. inversion H; subst. simpl.
  apply (set_alias_binds _ _ _ _ _ E Hx).
Qed.

(* ------------------------------------------------------------------ multi-phase reads *)
Lemma names_hashable t l xs : names_targets t l = Some xs -> forallb hashable l = true /\ map conv_elem l = l.
Proof.
  revert xs; induction l as [|e r IH]; simpl; intros xs H; auto.
  destruct e as [s| | | |]; try discriminate.
  destruct (tget t s); try discriminate. destruct (names_targets t r) as [ys|]; try discriminate.
  destruct (IH ys eq_refl) as [I1 I2]. simpl. rewrite I1, I2. auto.
Qed.

(* a valid chemical key, seen through the conversions of _get_index_data *)
Lemma chem_key_conv t d c v : spec_chem t d c = Some v ->
  exists ci kd, classify_chem t (conv_elem c) = Ok (ci, kd) /\ get_sparse d ci kd = Ok v /\
                hashable (conv_elem c) = true /\
                (kd = None -> c = KEll) /\
                (forall s, conv_elem c = KStr s -> tget t s <> None).
Proof.
  destruct c as [s| |l|l|n]; simpl; intros H; try discriminate.
  - destruct (tget t s) as [x|] eqn:E; inversion H; subst.
    unfold classify_chem. simpl. rewrite E.
    destruct x as [i|l]; do 2 eexists; repeat split; try reflexivity; try discriminate;
      intros s0 Hs; inversion Hs; subst; congruence.
  - inversion H; subst. do 2 eexists. repeat split; try reflexivity; discriminate.
  - destruct (names_targets t l) as [xs|] eqn:E; inversion H; subst.
    destruct (classify_seq t l xs E) as [C _]. destruct (names_hashable t l xs E) as [Hh _].
    exists (CMany xs), (kind_of_many xs). repeat split; auto.
    + apply get_sparse_many.
    + unfold kind_of_many. destruct (existsb is_grp xs); discriminate.
    + discriminate.
  - destruct (names_targets t l) as [xs|] eqn:E; inversion H; subst.
    destruct (classify_seq t l xs E) as [C _]. destruct (names_hashable t l xs E) as [Hh _].
    exists (CMany xs), (kind_of_many xs). repeat split; auto.
    + apply get_sparse_many.
    + unfold kind_of_many. destruct (existsb is_grp xs); discriminate.
    + discriminate.
Qed.

Lemma mat_key_chem t d k v : spec_chem t d k = Some v ->
  exists k', mat_key k = Some k' /\ classify_chem t k' = classify_chem t k.
Proof.
  destruct k as [s| |l|l|n]; simpl; intros H; try discriminate.
  - eexists; split; reflexivity.
  - eexists; split; reflexivity.
  - destruct (names_targets t l) as [xs|] eqn:E; try discriminate.
    destruct (names_hashable t l xs E) as [Hh _]. unfold mat_key. simpl. rewrite Hh. eexists; split; reflexivity.
  - destruct (names_targets t l) as [xs|] eqn:E; try discriminate.
    destruct (names_hashable t l xs E) as [Hh Hc]. unfold mat_key. simpl. rewrite Hc, Hh. eexists; split; reflexivity.
Qed.

Lemma res_all_map {A B} (f : A -> res B) (g : A -> B) l : (forall a, f a = Ok (g a)) -> res_all (map f l) = Ok (map g l).
Proof. intros H. induction l as [|a r IH]; simpl; auto. rewrite H, IH. reflexivity. Qed.

Lemma stack_nums (l : list Q) : stack (map VNum l) = Ok (VVec l).
Proof.
  unfold stack. assert (A : all_nums (map VNum l) = Some l) by (induction l as [|x r IH]; simpl; [|rewrite IH]; auto).
  rewrite A. reflexivity.
Qed.
Lemma all_vecs_map (r : list vec) : all_vecs (map VVec r) = Some r.
Proof. induction r as [|y r IH]; simpl; [|rewrite IH]; auto. Qed.
Lemma stack_vecs (l : list vec) : l <> [] -> stack (map VVec l) = Ok (VMat l).
Proof.
  intros NE. unfold stack. destruct l as [|x r]; [congruence|]. simpl.
  rewrite all_vecs_map. reflexivity.
Qed.

Definition phase_of (phs : list string) (p0 : key) : res (option nat) :=
  match p0 with
  | KStr s => if len1 s then do p <- pcall phs s; Ok (Some p) else Err EKey
  | KEll => Ok None
  | _ => Err EIndex
  end.

Lemma phase_part_pure_pair t phs p0 ids :
  phase_part_pure fixed t phs (KTup [p0; ids]) =
  do pi <- phase_of phs p0;
  do v <- classify_chem t ids;
  Ok (match snd v with
      | None => match pi with Some p => MPhase p | None => MNone end
      | Some _ => MPair pi (fst v)
      end, snd v).
Proof.
  unfold phase_part_pure, phase_part, phase_of.
  destruct (match p0 with
            | KStr s => if len1 s then do p <- pcall phs s; Ok (Some p) else Err EKey
            | KEll => Ok None
            | _ => Err EIndex
            end) as [pi|e]; simpl; auto.
  destruct (chem_lookup_spec t [] ids (ccoh_nil t)) as [_ CL].
  destruct (chem_lookup t [] ids) as [cc0 r0]. simpl in *. subst r0.
  destruct (classify_chem t ids) as [[ci [kn|]]|e]; simpl; auto.
Qed.

(* the pair forms: (phase, key) and (..., key), after conversion of list components *)
Local Opaque get_sparse.
Lemma pair_form t phs n rows p c v : rows <> [] ->
  spec_pair t phs rows p c = Some v ->
  (forall s, p = KStr s -> tget t s = None \/ forall s', conv_elem c <> KStr s') ->
  (do m <- classify_mat_h fixed t phs (KTup [conv_elem p; conv_elem c]); mat_get n rows m) = Ok v.
Proof.
  intros NE H NC. unfold classify_mat_h.
  destruct p as [s| | | |]; simpl in H; try discriminate.
  - (* a phase letter *)
    destruct (len1 s) eqn:L1; try discriminate.
    destruct (pcall phs s) as [r|e] eqn:Pc; try discriminate.
    destruct (chem_key_conv t _ c v H) as (ci & kd & C1 & C2 & C3 & C4 & C5).
    assert (EK : classify_chem t (KTup [KStr s; conv_elem c]) = Err EKey).
    { unfold classify_chem. simpl. rewrite C3. simpl.
      destruct (tget t s) as [x|] eqn:Es; [|reflexivity].
      destruct (NC s eq_refl) as [N|N]; [congruence|].
      destruct (conv_elem c) as [s'| | | |] eqn:Ec; try reflexivity. exfalso. apply (N s'). reflexivity. }
    simpl conv_elem. rewrite EK. rewrite phase_part_pure_pair. unfold phase_of. rewrite L1, Pc. simpl.
    rewrite C1. simpl.
    destruct kd as [kn|]; simpl.
    + exact C2.
    + rewrite (C4 eq_refl) in H. simpl in H. inversion H; subst. reflexivity.
  - (* the ellipsis as phase *)
    assert (EK : forall x, hashable x = true -> classify_chem t (KTup [KEll; x]) = Err EKey).
    { intros x Hx. unfold classify_chem. simpl. rewrite Hx. reflexivity. }
    destruct c as [s'| |l|l|k0]; simpl in H; try discriminate; simpl conv_elem.
    + destruct (tget t s') as [x|] eqn:E; inversion H; subst.
      rewrite EK by reflexivity. rewrite phase_part_pure_pair. simpl.
      unfold classify_chem. simpl. rewrite E.
      destruct x as [i|l]; simpl.
      * rewrite (res_all_map _ (fun r => VNum (tsum r (Pos i)))) by (intros; reflexivity).
        simpl. rewrite <- map_map with (g := VNum). apply stack_nums.
      * rewrite (res_all_map _ (fun r => VNum (tsum r (Grp l)))) by (intros; reflexivity).
        simpl. rewrite <- map_map with (g := VNum). apply stack_nums.
    + inversion H; subst. rewrite EK by reflexivity. rewrite phase_part_pure_pair. simpl. reflexivity.
    + destruct (names_targets t l) as [xs|] eqn:E; inversion H; subst.
      destruct (classify_seq t l xs E) as [C _]. destruct (names_hashable t l xs E) as [Hh _].
      rewrite EK by (simpl; exact Hh). rewrite phase_part_pure_pair. simpl. rewrite C. simpl.
      assert (K : exists kn, kind_of_many xs = Some kn) by (unfold kind_of_many; destruct (existsb is_grp xs); eexists; reflexivity).
      destruct K as [kn K]. rewrite K. simpl. rewrite <- K.
      rewrite (res_all_map _ (fun r => VVec (map (tsum r) xs))) by (intros; apply get_sparse_many).
      simpl. rewrite <- map_map with (g := VVec). apply stack_vecs.
      destruct rows; [congruence|discriminate].
    + destruct (names_targets t l) as [xs|] eqn:E; inversion H; subst.
      destruct (classify_seq t l xs E) as [C _]. destruct (names_hashable t l xs E) as [Hh _].
      rewrite EK by (simpl; exact Hh). rewrite phase_part_pure_pair. simpl. rewrite C. simpl.
      assert (K : exists kn, kind_of_many xs = Some kn) by (unfold kind_of_many; destruct (existsb is_grp xs); eexists; reflexivity).
      destruct K as [kn K]. rewrite K. simpl. rewrite <- K.
      rewrite (res_all_map _ (fun r => VVec (map (tsum r) xs))) by (intros; apply get_sparse_many).
      simpl. rewrite <- map_map with (g := VVec). apply stack_vecs.
      destruct rows; [congruence|discriminate].
Qed.
Local Transparent get_sparse.


Lemma conv_hashable x : hashable x = true -> conv_elem x = x.
Proof. destruct x; simpl; auto; discriminate. Qed.

Lemma spec_pair_hashable t phs rows p c v : spec_pair t phs rows p c = Some v ->
  hashable (conv_elem p) = true /\ hashable (conv_elem c) = true.
Proof.
  destruct p as [s| | | |]; simpl; intros H; try discriminate.
  - destruct (len1 s); try discriminate. destruct (pcall phs s); try discriminate.
    destruct (chem_key_conv t _ c v H) as (ci & kd & _ & _ & C3 & _). auto.
  - destruct c as [s'| |l|l|k0]; simpl in *; try discriminate; auto.
    + destruct (names_targets t l) as [xs|] eqn:E; try discriminate. destruct (names_hashable t l xs E); auto.
    + destruct (names_targets t l) as [xs|] eqn:E; try discriminate. destruct (names_hashable t l xs E); auto.
Qed.

Lemma mat_key_pair p c : hashable (conv_elem p) = true -> hashable (conv_elem c) = true ->
  mat_key (KTup [p; c]) = Some (KTup [conv_elem p; conv_elem c]) /\
  mat_key (KList [p; c]) = Some (KTup [conv_elem p; conv_elem c]).
Proof.
  intros Hp Hc. unfold mat_key. simpl. rewrite Hp, Hc. simpl. split; auto.
  destruct (hashable p) eqn:E1; simpl; auto. destruct (hashable c) eqn:E2; simpl; auto.
  rewrite (conv_hashable p E1), (conv_hashable c E2). reflexivity.
Qed.

Lemma pair_not_chem t rows phs p c v :
  names_targets t [p; c] = None -> spec_pair t phs rows p c = Some v ->
  forall s, p = KStr s -> tget t s = None \/ forall s', conv_elem c <> KStr s'.
Proof.
  intros N H s Hp. subst p. destruct (tget t s) as [x|] eqn:Es; [right|left; reflexivity].
  intros s' Hc. destruct c as [s0| | | |]; simpl in Hc; try discriminate. inversion Hc; subst s0.
  simpl in H. destruct (len1 s); try discriminate. destruct (pcall phs s); try discriminate.
  simpl in H. simpl in N. rewrite Es in N. destruct (tget t s'); discriminate.
Qed.

Lemma get_refines_mat_lemma t phs n rows k v : rows <> [] ->
  spec_mat t phs n rows k = Some v -> read_mat fixed t n phs rows k = Ok v.
Proof.
  intros NE H. unfold spec_mat in H. unfold read_mat, classify_mat.
  destruct (spec_chem t (colsum n rows) k) as [v0|] eqn:S.
  - inversion H; subst v0.
    destruct (mat_key_chem t _ k v S) as (k' & K1 & K2). rewrite K1. unfold classify_mat_h. rewrite K2.
    pose proof (get_refines_chem_lemma t _ k v S) as R. unfold read_chem in R.
    destruct (classify_chem t k) as [[ci kd]|e]; simpl in *; [exact R|discriminate].
  - destruct k as [s| |l|l|k0]; try discriminate.
    + destruct (len1 s) eqn:L1; try discriminate. destruct (pcall phs s) as [r|e] eqn:Pc; try discriminate.
      inversion H; subst. simpl in S. destruct (tget t s) eqn:Es; try discriminate.
      unfold mat_key. simpl. unfold classify_mat_h, classify_chem. simpl. rewrite Es.
      unfold phase_part_pure. simpl. rewrite L1, Pc. reflexivity.
    + destruct l as [|p [|c [|x y]]]; try discriminate.
      destruct (spec_pair_hashable _ _ _ _ _ _ H) as [Hp Hc].
      destruct (mat_key_pair p c Hp Hc) as [M _]. rewrite M.
      apply pair_form; auto. unfold spec_chem in S.
      apply (pair_not_chem t rows phs p c v); auto.
      destruct (names_targets t [p; c]); [discriminate S|reflexivity].
    + destruct l as [|p [|c [|x y]]]; try discriminate.
      destruct (spec_pair_hashable _ _ _ _ _ _ H) as [Hp Hc].
      destruct (mat_key_pair p c Hp Hc) as [_ M]. rewrite M.
      apply pair_form; auto. unfold spec_chem in S.
      apply (pair_not_chem t rows phs p c v); auto.
      destruct (names_targets t [p; c]); [discriminate S|reflexivity].
Qed.

(* phase-qualified writes touch one row only *)
Lemma mat_set_row cs rows p ci kd dt k rows' e :
  mat_set cs rows (MPair (Some p) ci, Some kd, false) dt k = (rows', e) ->
  rows' = upd rows p (fst (set_sparse cs (nth p rows []) ci (Some kd) dt (second k))) /\
  e = snd (set_sparse cs (nth p rows []) ci (Some kd) dt (second k)).
Proof.
  unfold mat_set. destruct (set_sparse cs (nth p rows []) ci (Some kd) dt (second k)) as [r e0].
  unfold upd_row. intros H. inversion H; subst. auto.
Qed.

Lemma upd_rows_other (rows : list vec) p r q : q <> p -> nth q (upd rows p r) [] = nth q rows [].
Proof.
  revert p q; induction rows as [|a l IH]; intros [|p] [|q] H; simpl; auto; try congruence.
Qed.

(* ------------------------------------------------------------------ reads and writes after any history *)
Definition after (c : cfg) (ixs : list ixr) (hist : list op) : state := fst (run fixed c (mkst [] [] ixs) hist).

Lemma after_coh c ixs hist : coh c (after c ixs hist).
Proof. apply run_coh. apply coh_init. Qed.

Lemma read_after_history c ixs hist i k :
  snd (step fixed c (after c ixs hist) (OGet i k)) =
  match nth_error (sixs (after c ixs hist)) i with
  | Some (IC d) => obs_of_read (read_chem (tb c) d k)
  | Some (IM phs rows) => obs_of_read (read_mat fixed (tb c) (nchem c) phs rows k)
  | None => BErr EOther
  end.
Proof. apply read_history_independent. apply after_coh. Qed.

(* what a write through a chemical indexer does, from the table alone *)
Definition write_chem (c : cfg) (d : vec) (k : key) (dt : data) : vec * option err :=
  match classify_chem (tb c) k with
  | Ok (ci, kd) => set_sparse (comps c) d ci kd dt k
  | Err e => (d, Some e)
  end.
Definition write_mat (c : cfg) (phs : list string) (rows : list vec) (k : key) (dt : data) : list vec * option err :=
  match classify_mat fixed (tb c) phs k with
  | Ok v => mat_set (comps c) rows v dt k
  | Err e => (rows, Some e)
  end.

Lemma write_after_history c ixs hist i k dt :
  snd (step fixed c (after c ixs hist) (OSet i k dt)) =
  match nth_error (sixs (after c ixs hist)) i with
  | Some (IC d) => let (d', e) := write_chem c d k dt in BWr e [d']
  | Some (IM phs rows) => let (r', e) := write_mat c phs rows k dt in BWr e r'
  | None => BErr EOther
  end.
Proof.
  destruct (after_coh c ixs hist) as [Hc Hm]. set (s := after c ixs hist) in *. simpl.
  destruct (nth_error (sixs s) i) as [[d|phs rows]|]; simpl; auto.
  - destruct (chem_lookup_spec (tb c) (scc s) k Hc) as [_ C2].
    destruct (chem_lookup (tb c) (scc s) k) as [cc' r]. simpl in *. subst r.
    unfold write_chem. destruct (classify_chem (tb c) k) as [[ci kd]|e]; simpl; auto.
    destruct (set_sparse (comps c) d ci kd dt k). reflexivity.
  - destruct (mat_lookup_spec (tb c) phs (scc s) (mc_get (smc s) phs) k Hc (Hm phs)) as (_ & _ & M3).
    destruct (mat_lookup fixed (tb c) phs (scc s) (mc_get (smc s) phs) k) as [[cc' mc'] r]. simpl in *. subst r.
    unfold write_mat. destruct (classify_mat fixed (tb c) phs k) as [v|e]; simpl; auto.
    destruct (mat_set (comps c) rows v dt k). reflexivity.
Qed.
(* ------------------------------------------------------------------ a tuple mixing chemicals and groups *)
Inductive nested_ok (cs : list (string * vec)) : list target -> list key -> Prop :=
| nok_nil el : nested_ok cs [] el
| nok_pos i ts e el : nested_ok cs ts el -> nested_ok cs (Pos i :: ts) (e :: el)
| nok_grp l ts e el c : comp_of cs e = Some c -> length c = length l -> qsum c == 1 ->
    nested_ok cs ts el -> nested_ok cs (Grp l :: ts) (e :: el).

Lemma nodup_app_parts {A} (l r : list A) : NoDup (l ++ r) ->
  NoDup l /\ NoDup r /\ forall i, In i l -> ~ In i r.
Proof.
  induction l as [|a l IH]; simpl; intros H.
  - repeat split; auto. constructor.
  - inversion H as [|? ? Hn H']; subst. destruct (IH H') as (I1 & I2 & I3). repeat split; auto.
    + constructor; auto. intros C. apply Hn. apply in_or_app. left. exact C.
    + intros i [E|Hi]; [subst; intros C; apply Hn; apply in_or_app; right; exact C|apply I3; exact Hi].
Qed.

Lemma set_nested_vec_spec cs ts el : nested_ok cs ts el -> forall v d,
  length v = length ts -> NoDup (flat_targets ts) ->
  Forall (fun i => (i < length d)%nat) (flat_targets ts) ->
  exists d', set_nested_vec cs d ts el v = (d', None) /\ length d' = length d /\
    (forall j, ~ In j (flat_targets ts) -> nthq d' j = nthq d j) /\
    Forall2 (fun t x => tsum d' t == x) ts v.
Proof.
  induction 1 as [el|i ts e el Hok IH|l ts e el c Hc Lc Sc Hok IH]; intros v d L ND F.
  - destruct v; [|discriminate]. exists d. simpl. repeat split; auto.
  - destruct v as [|x v]; [discriminate|]. simpl in *. inversion ND as [|? ? Hn ND']; subst.
    inversion F as [|? ? Fi F']; subst.
    destruct (IH v (wr d i x)) as (d' & S & Ld & Fr & R); auto.
    { rewrite wr_length. exact F'. }
    exists d'. rewrite S. repeat split; auto.
    + rewrite Ld. apply wr_length.
    + intros j Hj. rewrite Fr by (intros C; apply Hj; right; exact C).
      apply nth_upd_other. intros E. apply Hj. left. exact E.
    + constructor; auto. simpl. rewrite Fr by exact Hn. unfold wr. rewrite nth_upd_same by exact Fi. reflexivity.
  - destruct v as [|x v]; [discriminate|]. simpl in *. rewrite Hc.
    destruct (nodup_app_parts _ _ ND) as (N1 & N2 & N3).
    apply Forall_app in F as [F1 F2].
    destruct (IH v (wr_zip d l (vscale x c))) as (d' & S & Ld & Fr & R); auto.
    { rewrite wr_zip_length. exact F2. }
    exists d'. rewrite S. repeat split; auto.
    + rewrite Ld. apply wr_zip_length.
    + intros j Hj. rewrite Fr by (intros C; apply Hj; apply in_or_app; right; exact C).
      apply wr_zip_other. intros C. apply Hj. apply in_or_app. left. exact C.
    + constructor; auto. simpl.
      assert (M : map (nthq d') l = vscale x c).
      { rewrite <- (wr_zip_same l d (vscale x c)); auto.
        - apply map_ext_in. intros a Ha. apply Fr. apply N3. exact Ha.
        - rewrite vscale_length. congruence. }
      rewrite M. rewrite qsum_vscale. rewrite Sc. lra.
Qed.

Lemma set_get_nested_lemma cs d ts v k d' e :
  nested_ok cs ts (key_elems k) -> length v = length ts -> NoDup (flat_targets ts) ->
  Forall (fun i => (i < length d)%nat) (flat_targets ts) ->
  set_sparse cs d (CMany ts) (Some 2%nat) (DVec v) k = (d', e) ->
  e = None /\ length d' = length d /\
  (exists w, get_sparse d' (CMany ts) (Some 2%nat) = Ok (VVec w) /\ Forall2 Qeq w v) /\
  forall j, ~ In j (flat_targets ts) -> nthq d' j = nthq d j.
Proof.
  intros Hok L ND F H. simpl in H.
  destruct (set_nested_vec_spec cs ts _ Hok v d L ND F) as (d1 & S & Ld & Fr & R).
  rewrite S in H. inversion H; subst. repeat split; auto.
  exists (map (tsum d') ts). split; [reflexivity|].
  clear -R. induction R; simpl; constructor; auto.
Qed.

(* ------------------------------------------------------------------ the mass view and phase expansion *)
Lemma mass_read_after_history c ixs hist i k :
  snd (step fixed c (after c ixs hist) (OGetMass i k)) =
  match nth_error (sixs (after c ixs hist)) i with
  | Some (IC d) => obs_of_read (read_chem (tb c) (to_mass (mws c) d) k)
  | Some (IM phs rows) => obs_of_read (read_mat fixed (tb c) (nchem c) phs (map (to_mass (mws c)) rows) k)
  | None => BErr EOther
  end.
Proof.
  destruct (after_coh c ixs hist) as [Hc Hm]. set (s := after c ixs hist) in *. simpl.
  destruct (nth_error (sixs s) i) as [[d|phs rows]|]; simpl; auto.
  - destruct (chem_lookup_spec (tb c) (scc s) k Hc) as [_ C2].
    destruct (chem_lookup (tb c) (scc s) k) as [cc' r]. simpl in *. subst r.
    unfold read_chem. destruct (classify_chem (tb c) k) as [[ci kd]|e]; simpl; auto.
  - destruct (mat_lookup_spec (tb c) phs (scc s) (mc_get (smc s) phs) k Hc (Hm phs)) as (_ & _ & M3).
    destruct (mat_lookup fixed (tb c) phs (scc s) (mc_get (smc s) phs) k) as [[cc' mc'] r]. simpl in *. subst r.
    unfold read_mat. reflexivity.
Qed.

(* an indexer that gains a phase leaves every cache exactly as it was; it merely continues with the cache
   registered for its new phase set *)
Lemma expand_keeps_caches vr c s i p v :
  scc (fst (step vr c s (OMixPhase i p v))) = scc s /\ smc (fst (step vr c s (OMixPhase i p v))) = smc s /\
  scc (fst (step vr c s (OCopyPhase i p v))) = scc s /\ smc (fst (step vr c s (OCopyPhase i p v))) = smc s.
Proof.
  simpl. destruct (nth_error (sixs s) i) as [[d|phs rows]|]; simpl; auto.
  destruct (add_phase_row (nchem c) phs rows p) as [[phs1 rows1] r1].
  destruct (add_phase_row (nchem c) phs (map (fun x => vzero (length x)) rows) p) as [[phs2 rows2] r2]. simpl. auto.
Qed.

Lemma expand_mat_keeps_caches vr c s i src :
  scc (fst (step vr c s (OMixMat i src))) = scc s /\ smc (fst (step vr c s (OMixMat i src))) = smc s /\
  scc (fst (step vr c s (OCopyMat i src))) = scc s /\ smc (fst (step vr c s (OCopyMat i src))) = smc s.
Proof.
  simpl. destruct (nth_error (sixs s) i) as [[d|phs rows]|]; simpl; auto.
  destruct (mix_mat (nchem c) phs rows src) as [phs1 rows1]. destruct (copy_mat (nchem c) phs rows src) as [phs2 rows2]. simpl. auto.
Qed.

(* rows added together are separate rows: a write to one row of any row list leaves the others alone (rows are
   values in a list, never shared), in particular after a joint expansion *)
Lemma insert_phases_lengths ps : forall phs rows z, length phs = length rows ->
  length (fst (insert_phases ps phs rows z)) = length (snd (insert_phases ps phs rows z)).
Proof.
  assert (I : forall p phs rows z, length phs = length rows ->
            length (fst (insert_phase p phs rows z)) = length (snd (insert_phase p phs rows z))).
  { intros p phs; induction phs as [|q phs IH]; intros [|r rows] z L; simpl in *; try discriminate; auto.
    destruct (String.ltb p q); simpl; [lia|].
    specialize (IH rows z ltac:(lia)). destruct (insert_phase p phs rows z). simpl in *. lia. }
  induction ps as [|p r IH]; intros phs rows z L; simpl; auto.
  destruct (mem_str p phs); auto.
  specialize (I p phs rows z L). destruct (insert_phase p phs rows z) as [a b]. simpl in I. apply IH. exact I.
Qed.

(* ------------------------------------------------------------------ several packages *)
Lemma nth_upd_gen {A} (l : list A) p q x d :
  nth q (upd l p x) d = if Nat.eqb q p && Nat.ltb p (length l) then x else nth q l d.
Proof.
  revert p q; induction l as [|a l IHl]; intros p q.
  - simpl. rewrite andb_false_r. destruct p; reflexivity.
  - destruct p as [|p], q as [|q]; simpl; auto.
    rewrite IHl. reflexivity.
Qed.

Definition mcoh_all (cs : list cfg) (ms : mstate) : Prop :=
  forall pk, coh (nth pk cs dflt_cfg) (nth pk (mpk ms) dflt_st).

Lemma coh_dflt c : coh c dflt_st.
Proof. apply coh_init. Qed.

Lemma coh_caches c s s' : scc s' = scc s -> smc s' = smc s -> coh c s -> coh c s'.
Proof. intros E1 E2 [H1 H2]. split; rewrite ?E1, ?E2; auto. Qed.

Lemma mcoh_upd cs ms pk s' w : mcoh_all cs ms -> coh (nth pk cs dflt_cfg) s' ->
  mcoh_all cs (mkms (upd (mpk ms) pk s') w).
Proof.
  intros H Hs q. simpl. rewrite nth_upd_gen.
  destruct (Nat.eqb q pk) eqn:E; simpl; [|apply H].
  apply Nat.eqb_eq in E. subst q. destruct (Nat.ltb pk (length (mpk ms))); [exact Hs|apply H].
Qed.

Lemma minit_coh cs ixs : mcoh_all cs (minit (length cs) ixs).
Proof.
  intros pk. unfold minit. simpl. destruct pk as [|pk]; [apply coh_init|].
  destruct (nth_in_or_default pk (repeat dflt_st (length cs - 1)) dflt_st) as [I|E].
  - apply repeat_spec in I. rewrite I. apply coh_dflt.
  - rewrite E. apply coh_dflt.
Qed.

Lemma mstep_coh cs ms o : mcoh_all cs ms -> mcoh_all cs (fst (mstep fixed cs ms o)).
Proof.
  intros H. destruct o as [o|pk o|g pk']; simpl.
  - destruct (op_ix o) as [g|].
    + destruct (nth_error (mwhere ms) g) as [[pk li]|]; simpl; auto.
      pose proof (step_coh (nth pk cs dflt_cfg) (nth pk (mpk ms) dflt_st) (op_at o li) (H pk)) as S.
      destruct (step fixed (nth pk cs dflt_cfg) (nth pk (mpk ms) dflt_st) (op_at o li)) as [s' b]. simpl in *.
      apply mcoh_upd; auto.
    + pose proof (step_coh (nth O cs dflt_cfg) (nth O (mpk ms) dflt_st) o (H O)) as S.
      destruct (step fixed (nth O cs dflt_cfg) (nth O (mpk ms) dflt_st) o) as [s' b]. simpl in *.
      apply mcoh_upd; auto.
  - destruct (op_ix o); simpl; auto.
    pose proof (step_coh (nth pk cs dflt_cfg) (nth pk (mpk ms) dflt_st) o (H pk)) as S.
    destruct (step fixed (nth pk cs dflt_cfg) (nth pk (mpk ms) dflt_st) o) as [s' b]. simpl in *.
    apply mcoh_upd; auto.
  - destruct (nth_error (mwhere ms) g) as [[pk li]|]; simpl; auto.
    destruct (Nat.leb (length cs) pk'); simpl; auto.
    assert (P : forall x, mcoh_all cs (mkms (upd (mpk ms) pk'
                (mkst (scc (nth pk' (mpk ms) dflt_st)) (smc (nth pk' (mpk ms) dflt_st)) (sixs (nth pk' (mpk ms) dflt_st) ++ [x])))
                (upd (mwhere ms) g (pk', length (sixs (nth pk' (mpk ms) dflt_st)))))).
    { intros x. apply mcoh_upd; auto. apply (coh_caches _ (nth pk' (mpk ms) dflt_st)); auto. }
    destruct (nth_error (sixs (nth pk (mpk ms) dflt_st)) li) as [[d|phs rows]|]; simpl; auto.
    + destruct (remap_row _ _ d _); simpl; auto.
    + destruct (res_all _); simpl; auto.
Qed.

Lemma mrun_coh cs ops : forall ms, mcoh_all cs ms -> mcoh_all cs (fst (mrun fixed cs ms ops)).
Proof.
  induction ops as [|o r IH]; intros ms H; simpl; auto.
  pose proof (mstep_coh cs ms o H) as H1. destruct (mstep fixed cs ms o) as [ms' b]. simpl in H1.
  specialize (IH ms' H1). destruct (mrun fixed cs ms' r) as [ms'' bs]. simpl in *. exact IH.
Qed.

Definition mafter (cs : list cfg) (ixs : list ixr) (hist : list mop) : mstate :=
  fst (mrun fixed cs (minit (length cs) ixs) hist).

(* reads after any multi-package history, re-basings included, depend on the indexer's CURRENT package only *)
Lemma mread_after_history cs ixs hist g k :
  let ms := mafter cs ixs hist in
  snd (mstep fixed cs ms (MOp (OGet g k))) =
  match nth_error (mwhere ms) g with
  | Some (pk, li) =>
      let c := nth pk cs dflt_cfg in
      match nth_error (sixs (nth pk (mpk ms) dflt_st)) li with
      | Some (IC d) => obs_of_read (read_chem (tb c) d k)
      | Some (IM phs rows) => obs_of_read (read_mat fixed (tb c) (nchem c) phs rows k)
      | None => BErr EOther
      end
  | None => BErr EOther
  end.
Proof.
  intros ms. pose proof (mrun_coh cs hist _ (minit_coh cs ixs)) as H. fold (mafter cs ixs hist) in H. fold ms in H.
  cbv beta iota delta [mstep op_ix op_at]. destruct (nth_error (mwhere ms) g) as [[pk li]|]; [|reflexivity].
  pose proof (read_history_independent (nth pk cs dflt_cfg) (nth pk (mpk ms) dflt_st) li k (H pk)) as R.
  destruct (step fixed (nth pk cs dflt_cfg) (nth pk (mpk ms) dflt_st) (OGet li k)) as [s' b].
  cbn [snd] in *. exact R.
Qed.

(* re-basing touches no cache of any package *)
Lemma reset_keeps_caches vr cs ms g pk q :
  let ms' := fst (mstep vr cs ms (MReset g pk)) in
  scc (nth q (mpk ms') dflt_st) = scc (nth q (mpk ms) dflt_st) /\ smc (nth q (mpk ms') dflt_st) = smc (nth q (mpk ms) dflt_st).
Proof.
  simpl. destruct (nth_error (mwhere ms) g) as [[pk0 li]|]; simpl; auto.
  destruct (Nat.leb (length cs) pk); simpl; auto.
  assert (P : forall x w, let m := mkms (upd (mpk ms) pk
                (mkst (scc (nth pk (mpk ms) dflt_st)) (smc (nth pk (mpk ms) dflt_st)) (sixs (nth pk (mpk ms) dflt_st) ++ [x]))) w in
              scc (nth q (mpk m) dflt_st) = scc (nth q (mpk ms) dflt_st) /\ smc (nth q (mpk m) dflt_st) = smc (nth q (mpk ms) dflt_st)).
  { intros x w. simpl. rewrite nth_upd_gen. destruct (Nat.eqb q pk) eqn:E; simpl; auto.
    apply Nat.eqb_eq in E. subst. destruct (Nat.ltb pk (length (mpk ms))); simpl; auto. }
  destruct (nth_error (sixs (nth pk0 (mpk ms) dflt_st)) li) as [[d|phs rows]|]; simpl; auto.
  - destruct (remap_row _ _ d _); simpl; auto. apply (P (IC a) []).
  - destruct (res_all _); simpl; auto. apply (P (IM phs a) []).
Qed.
