(* C10 -- executable model, second part: SplitIndexer and configuration calls interleaved with look-ups.
   Source modelled (thermosteam):
     indexer.py     SplitIndexer.__getitem__ (:327-343) and __setitem__ (:345-429); it resolves its keys through the SAME
                    CompiledChemicals._get_index_and_kind (and so the same 100-entry _index_cache) as the flow indexers
     _chemicals.py  set_alias / set_synonym and define_group called AFTER look-ups were made: neither touches
                    _index_cache nor MaterialIndexer._index_caches, so the caches keep whatever was classified under the
                    OLD name table (modelled as it is: the configuration is part of the state, the caches are left alone)
   No proofs in this file. *)
From V Require Export C10.Model.

(* ------------------------------------------------------------------ SplitIndexer *)
Inductive sitem := SI (x : Q) | SG (v : vec).                 (* an element of the data: a number or a sequence *)
Inductive sval := SVNum (x : Q) | SVVec (v : vec) | SVNest (l : list sitem).
Inductive sdata := SDNum (x : Q) | SDItems (l : list sitem).

(* get_ndim on python data: looks at the first element only *)
Definition sndim (dt : sdata) : nat :=
  match dt with SDNum _ => 0 | SDItems (SG _ :: _) => 2 | SDItems _ => 1 end.

(* SplitIndexer.__getitem__: a group reads as the vector of its members (NOT summed); a mixed tuple as an object array *)
Definition split_get (d : vec) (ci : cindex) (kd : kind) : res sval :=
  match kd with
  | None => Ok (SVVec d)
  | Some 0%nat => match ci with COne (Pos i) => Ok (SVNum (nthq d i)) | _ => Err EType end
  | Some 1%nat => match ci with COne (Grp l) => Ok (SVVec (map (nthq d) l)) | _ => Err EType end
  | Some 2%nat => match ci with
                  | CMany ts => Ok (SVNest (map (fun t => match t with Pos i => SI (nthq d i) | Grp l => SG (map (nthq d) l) end) ts))
                  | _ => Err EType
                  end
  | Some 3%nat => match ci with
                  | CMany ts => if existsb is_grp ts then Err EType else Ok (SVVec (map (nthq d) (poss ts)))
                  | _ => Err EType
                  end
  | Some _ => Err EIndex
  end.

(* `if j: dct[i] = float(j)  elif i in dct: del dct[i]` for one element of the data: an empty sequence is falsy,
   a non-empty one makes float() raise TypeError *)
Definition item_num (it : sitem) : res Q :=
  match it with SI x => Ok x | SG [] => Ok 0 | SG _ => Err EType end.

(* `for i, j in zip(index, data): ...` stopping at the first element float() rejects *)
Fixpoint swr_zip (d : vec) (idx : list nat) (its : list sitem) : vec * option err :=
  match idx, its with
  | i :: idx', it :: its' =>
      match item_num it with
      | Ok x => swr_zip (wr d i x) idx' its'
      | Err e => (d, Some e)
      end
  | _, _ => (d, None)
  end.

(* kind 2 with non-scalar data: `for n, i in enumerate(index): k = data[n] ...` *)
Fixpoint split_nested (d : vec) (ts : list target) (its : list sitem) : vec * option err :=
  match ts with
  | [] => (d, None)
  | t :: ts' =>
      match its with
      | [] => (d, Some EIndex)                                   (* data[n]: list index out of range *)
      | it :: its' =>
          match t with
          | Grp l =>
              match it with
              | SG v => split_nested (wr_zip d l v) ts' its'      (* hasattr(k, '__iter__'): zip(i, k) *)
              | SI x => split_nested (wr_all d l x) ts' its'      (* one number for every member *)
              end
          | Pos i =>
              match item_num it with
              | Ok x => split_nested (wr d i x) ts' its'
              | Err e => (d, Some e)
              end
          end
      end
  end.

(* SplitIndexer.__setitem__ *)
Definition split_set (d : vec) (ci : cindex) (kd : kind) (dt : sdata) : vec * option err :=
  match kd with
  | None =>                                                       (* reset_sparse_chemical_data: clear, then fill *)
      match dt with
      | SDNum x => (repeat x (length d), None)
      | SDItems its => if Nat.eqb (sndim dt) 2 then (vzero (length d), Some EIndex)
                       else swr_zip (vzero (length d)) (seq 0 (length d)) its
      end
  | Some 0%nat =>
      match dt with
      | SDNum x => match ci with COne (Pos i) => (wr d i x, None) | _ => (d, Some EType) end
      | _ => (d, Some EIndex)
      end
  | Some 1%nat =>
      match ci with
      | COne (Grp l) =>
          match dt with
          | SDNum x => (wr_all d l x, None)                        (* every member gets the scalar: no composition *)
          | SDItems its => if Nat.eqb (sndim dt) 2 then (d, Some EIndex) else swr_zip d l its
          end
      | _ => (d, Some EType)
      end
  | Some 2%nat =>
      match ci with
      | CMany ts =>
          match dt with
          | SDNum x => (wr_all d (flat_targets ts) x, None)
          | SDItems its => split_nested d ts its
          end
      | _ => (d, Some EType)
      end
  | Some 3%nat =>
      match ci with
      | CMany ts =>
          if existsb is_grp ts then (d, Some EType)
          else match dt with
               | SDNum x => (wr_all d (poss ts) x, None)
               | SDItems its => if Nat.eqb (sndim dt) 2 then (d, Some EIndex) else swr_zip d (poss ts) its
               end
      | _ => (d, Some EType)
      end
  | Some _ => (d, Some EIndex)
  end.

(* ------------------------------------------------------------------ histories with configuration calls in between *)
Inductive hop :=
| HOp (o : op)                                   (* any operation of the single-package machine of Model.v *)
| HCfg (o : cop)                                 (* chemicals.set_alias(...) / chemicals.define_group(...) NOW *)
| HSGet (i : nat) (k : key)                      (* split_indexer[key] *)
| HSSet (i : nat) (k : key) (dt : sdata).        (* split_indexer[key] = data *)

Inductive hobs :=
| HB (b : obs)
| HC (e : option err)
| HSV (v : sval)
| HSE (e : err)
| HSW (e : option err) (d : vec).

Record hstate := mkhs {
  hcf : cfg;                   (* the CURRENT name table / compositions *)
  hst : state;                 (* caches and flow indexers *)
  hsp : list vec }.            (* SplitIndexer data *)

Definition hstep (vr : variant) (h : hstate) (o : hop) : hstate * hobs :=
  match o with
  | HOp o => let (s', b) := step vr (hcf h) (hst h) o in (mkhs (hcf h) s' (hsp h), HB b)
  | HCfg o => let (c', e) := cstep (hcf h) o in (mkhs c' (hst h) (hsp h), HC e)       (* no cache is touched *)
  | HSGet i k =>
      match nth_error (hsp h) i with
      | Some d =>
          let (cc', r) := chem_lookup (tb (hcf h)) (scc (hst h)) k in
          (mkhs (hcf h) (mkst cc' (smc (hst h)) (sixs (hst h))) (hsp h),
           match (do v <- r; split_get d (fst v) (snd v)) with Ok v => HSV v | Err e => HSE e end)
      | None => (h, HSE EOther)
      end
  | HSSet i k dt =>
      match nth_error (hsp h) i with
      | Some d =>
          let (cc', r) := chem_lookup (tb (hcf h)) (scc (hst h)) k in
          let st' := mkst cc' (smc (hst h)) (sixs (hst h)) in
          match r with
          | Ok v => let (d', e) := split_set d (fst v) (snd v) dt in
                    (mkhs (hcf h) st' (upd (hsp h) i d'), HSW e d')
          | Err e => (mkhs (hcf h) st' (hsp h), HSW (Some e) d)
          end
      | None => (h, HSE EOther)
      end
  end.

Fixpoint hrun (vr : variant) (h : hstate) (ops : list hop) : hstate * list hobs :=
  match ops with
  | [] => (h, [])
  | o :: r => let (h', b) := hstep vr h o in let (h'', bs) := hrun vr h' r in (h'', b :: bs)
  end.

(* ------------------------------------------------------------------ comparison *)
Definition sitem_eqb (a b : sitem) : bool :=
  match a, b with
  | SI x, SI y => qapproxb x y
  | SG x, SG y => vapproxb x y
  | _, _ => false
  end.
Definition sval_eqb (a b : sval) : bool :=
  match a, b with
  | SVNum x, SVNum y => qapproxb x y
  | SVVec x, SVVec y => vapproxb x y
  | SVNest x, SVNest y => list_eqb sitem_eqb x y
  | _, _ => false
  end.
Definition hobs_eqb (a b : hobs) : bool :=
  match a, b with
  | HB x, HB y => obs_eqb x y
  | HC e, HC f => opt_eqb err_eqb e f
  | HSV x, HSV y => sval_eqb x y
  | HSE e, HSE f => err_eqb e f
  | HSW e x, HSW f y => opt_eqb err_eqb e f && vapproxb x y
  | _, _ => false
  end.

(* the whole case: compile, initial configuration calls, then the history; compared: every observation, the FINAL name
   table and compositions, the final contents and order of every cache, the final split data *)
Definition hcase_eqb (vr : variant) (chems : list chem) (cops : list cop) (cop_errs : list (option err))
           (ixs : list ixr) (sps : list vec) (ops : list hop) (exp_obs : list hobs)
           (exp_table : list (string * target)) (absent : list string) (exp_comps exp_wcomps : list (string * vec))
           (exp_cc : ccache) (exp_mc : list (list string * mcache)) (exp_sps : list vec) : bool :=
  match compile chems with
  | Err _ => false
  | Ok c0 =>
      let (c1, es) := cbuild c0 cops in
      let (h, bs) := hrun vr (mkhs c1 (mkst [] [] ixs) sps) ops in
      let c := hcf h in let s := hst h in
      list_eqb (opt_eqb err_eqb) es cop_errs
      && list_eqb hobs_eqb bs exp_obs
      && table_agrees (tb c) exp_table absent && comps_agree (comps c) exp_comps && comps_agree (wcomps c) exp_wcomps
      && ccache_eqb (scc s) exp_cc
      && forallb (fun pc => mcache_eqb (mc_get (smc s) (fst pc)) (snd pc)) exp_mc
      && list_eqb vapproxb (hsp h) exp_sps
  end.

(* ------------------------------------------------------------------ the repaired configuration calls (pending_fixes C10_4):
   set_alias / define_group start with _clear_index_caches(): chemicals._index_cache and every MaterialIndexer._index_caches
   entry of this chemicals object are emptied in place.  [clr] follows the source: true = repaired tree *)
Definition clear_caches (s : state) : state := mkst [] [] (sixs s).

Definition hstepc (clr : bool) (vr : variant) (h : hstate) (o : hop) : hstate * hobs :=
  match o with
  | HCfg o => let (c', e) := cstep (hcf h) o in
              (mkhs c' (if clr then clear_caches (hst h) else hst h) (hsp h), HC e)
  | _ => hstep vr h o
  end.
