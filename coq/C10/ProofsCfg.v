(* C10 -- lemmas about SplitIndexer and about configuration calls interleaved with look-ups *)
From V Require Import Common.NumFacts C10.Model C10.ModelCfg C10.Proofs C10.ProofsDeep.

(* ------------------------------------------------------------------ extending the name table by a new name *)
Lemma string_eqb_len1 s n : len1 s = true -> len1 n = false -> String.eqb s n = false.
Proof.
  intros Hs Hn. destruct (String.eqb s n) eqn:E; auto. apply String.eqb_eq in E. subst. congruence.
Qed.

Lemma tget_ext t n x s y : tget t n = None -> tget t s = Some y -> tget (tset t n x) s = Some y.
Proof.
  intros Hn Hs. rewrite tget_tset. destruct (String.eqb s n) eqn:E; auto.
  apply String.eqb_eq in E. subst. congruence.
Qed.

Lemma indices_ext t n x : tget t n = None -> forall l ts, indices t l = Ok ts -> indices (tset t n x) l = Ok ts.
Proof.
  intros Hn. induction l as [|e r IH]; simpl; intros ts H; auto.
  destruct (negb (hashable e)); try discriminate.
  destruct e as [s| |l'|l'|m]; try discriminate.
  destruct (tget t s) as [y|] eqn:Es; try discriminate.
  rewrite (tget_ext t n x s y Hn Es).
  destruct (indices t r) as [xs|e'] eqn:Er; simpl in H; try discriminate.
  rewrite (IH xs eq_refl). simpl. exact H.
Qed.

(* whatever classified successfully keeps its classification *)
Lemma classify_h_ext t n x k v : tget t n = None -> classify_h t k = Ok v -> classify_h (tset t n x) k = Ok v.
Proof.
  intros Hn. destruct k as [s| |l|l|m]; simpl; intros H; auto; try discriminate.
  - destruct (tget t s) as [y|] eqn:Es; try discriminate. rewrite (tget_ext t n x s y Hn Es). exact H.
  - destruct (indices t l) as [ts|e] eqn:Ei; simpl in H; try discriminate.
    rewrite (indices_ext t n x Hn l ts Ei). exact H.
Qed.

Lemma classify_chem_ext t n x k v : tget t n = None -> classify_chem t k = Ok v -> classify_chem (tset t n x) k = Ok v.
Proof.
  intros Hn. unfold classify_chem. destruct (hashable (norm_key k)); try discriminate. apply classify_h_ext. exact Hn.
Qed.

Lemma ccoh_ext t n x cc : tget t n = None -> ccoh t cc -> ccoh (tset t n x) cc.
Proof.
  intros Hn H k v I. destruct (H k v I) as [H1 H2]. split; auto. apply classify_h_ext; auto.
Qed.

Lemma phase_of_ok_hashable phs p0 pi : phase_of phs p0 = Ok pi ->
  p0 = KEll \/ exists s, p0 = KStr s /\ len1 s = true.
Proof.
  destruct p0 as [s| |l|l|m]; simpl; intros H; try discriminate; auto.
  right. exists s. split; auto. destruct (len1 s); auto; discriminate.
Qed.

Lemma phase_part_pure_arity t phs l v : phase_part_pure fixed t phs (KTup l) = Ok v -> exists p0 ids, l = [p0; ids].
Proof.
  unfold phase_part_pure. destruct l as [|p0 [|ids [|z r]]]; simpl; try discriminate; eauto;
    match goal with |- context [match ?X with Ok _ => _ | Err _ => _ end] => destruct X end; simpl; discriminate.
Qed.

(* the multi-phase classification: a new name that cannot be read as a phase letter changes nothing that classified *)
Lemma classify_mat_h_ext t n x phs k v : tget t n = None -> len1 n = false ->
  classify_mat_h fixed t phs k = Ok v -> classify_mat_h fixed (tset t n x) phs k = Ok v.
Proof.
  intros Hn Hl. unfold classify_mat_h.
  destruct (classify_chem t k) as [[ci kd]|e] eqn:Ec.
  - rewrite (classify_chem_ext t n x k _ Hn Ec). auto.
  - destruct e; try discriminate.
    destruct (phase_part_pure fixed t phs k) as [[mi kd]|e] eqn:Ep; simpl; try discriminate.
    intros H. inversion H; subst v. clear H.
    destruct k as [s| |l|l|m]; try (unfold phase_part_pure in Ep; simpl in Ep; discriminate).
    + (* a phase letter *)
      unfold phase_part_pure in Ep. simpl in Ep.
      destruct (len1 s) eqn:Es; simpl in Ep; try discriminate.
      assert (Ec' : classify_chem (tset t n x) (KStr s) = Err EKey).
      { unfold classify_chem in *. simpl in *. rewrite tget_tset. rewrite (string_eqb_len1 s n Es Hl).
        destruct (tget t s) as [[i|g]|]; try discriminate; auto. }
      rewrite Ec'. unfold phase_part_pure. simpl. rewrite Es. simpl. rewrite Ep. reflexivity.
    + (* (phase, key) / (..., key) *)
      destruct (phase_part_pure_arity t phs l _ Ep) as [p0 [ids ->]].
      rewrite phase_part_pure_pair in Ep.
      destruct (phase_of phs p0) as [pi|e] eqn:Ef; simpl in Ep; try discriminate.
      destruct (classify_chem t ids) as [w|e] eqn:Ei; simpl in Ep; try discriminate.
      rewrite phase_part_pure_pair, Ef. simpl. rewrite (classify_chem_ext t n x ids w Hn Ei). simpl.
      assert (Ec' : classify_chem (tset t n x) (KTup [p0; ids]) = Err EKey).
      { unfold classify_chem in *. simpl norm_key in *.
        destruct (hashable (KTup [p0; ids])) eqn:Hh; try discriminate.
        simpl in Hh. apply andb_true_iff in Hh as [Hp Hh]. apply andb_true_iff in Hh as [Hi _].
        simpl. simpl in Ec. rewrite Hp in *. simpl in *.
        destruct (phase_of_ok_hashable phs p0 pi Ef) as [->|[s [-> Hs]]]; auto.
        rewrite tget_tset, (string_eqb_len1 s n Hs Hl).
        destruct (tget t s) as [y|] eqn:Ey; auto.
        rewrite Hi in *. simpl in *.
        destruct ids as [s2| |l2|l2|m2]; auto.
        (* ids is a name: it classified, so it is bound, so the pair would have classified as a list of chemicals *)
        exfalso. unfold classify_chem in Ei. simpl in Ei.
        destruct (tget t s2) as [y2|] eqn:Ey2; [|discriminate]. simpl in Ec. discriminate. }
      rewrite Ec'. inversion Ep; subst. reflexivity.
Qed.

Lemma mcoh_ext t n x phs mc : tget t n = None -> len1 n = false ->
  mcoh fixed t phs mc -> mcoh fixed (tset t n x) phs mc.
Proof. intros Hn Hl H k v I. apply classify_mat_h_ext; auto. Qed.

(* ------------------------------------------------------------------ configuration calls *)
(* the name a configuration call (re)binds *)
Definition bound_name (o : cop) : string := match o with CAlias _ a => a | CGroup n _ _ _ => n end.

(* the call defines a NEW name, and not one that can be read as a phase letter *)
Definition safe_cop (c : cfg) (o : cop) : Prop :=
  tget (tb c) (bound_name o) = None /\ len1 (bound_name o) = false.

Lemma cstep_table c o : tb (fst (cstep c o)) = tb c \/ exists x, tb (fst (cstep c o)) = tset (tb c) (bound_name o) x.
Proof.
  destruct o as [id a|n ids cp wt]; simpl.
  - unfold set_alias. destruct (tget (tb c) id) as [x|]; simpl; auto.
    destruct (match tget (tb c) a with Some y => negb (target_eqb x y) | None => false end); simpl; auto.
    right. exists x. reflexivity.
  - unfold define_group. cbv zeta.
    destruct (negb _); simpl; auto.
    destruct (existsb _ ids); simpl; auto.
    destruct (indices (tb c) (map KStr ids)) as [ts|e]; simpl; auto.
    right. eexists. reflexivity.
Qed.

Lemma cstep_coh c o s : safe_cop c o -> coh c s -> coh (fst (cstep c o)) s.
Proof.
  intros [Hn Hl] [Hc Hm]. destruct (cstep_table c o) as [E|[x E]]; unfold coh; rewrite E.
  - split; auto.
  - split; [apply ccoh_ext; auto|]. intros phs. apply mcoh_ext; auto.
Qed.

Definition hcoh (h : hstate) : Prop := coh (hcf h) (hst h).

Definition hop_safe (h : hstate) (o : hop) : Prop :=
  match o with HCfg c => safe_cop (hcf h) c | _ => True end.

Lemma hstep_coh h o : hcoh h -> hop_safe h o -> hcoh (fst (hstep fixed h o)).
Proof.
  unfold hcoh. intros H S. destruct o as [o|o|i k|i k dt]; simpl.
  - pose proof (step_coh (hcf h) (hst h) o H) as H1. destruct (step fixed (hcf h) (hst h) o) as [s' b]. exact H1.
  - pose proof (cstep_coh (hcf h) o (hst h) S H) as H1. destruct (cstep (hcf h) o) as [c' e]. exact H1.
  - destruct (nth_error (hsp h) i) as [d|]; [|exact H]. destruct H as [Hc Hm].
    destruct (chem_lookup_spec (tb (hcf h)) (scc (hst h)) k Hc) as [C1 _].
    destruct (chem_lookup (tb (hcf h)) (scc (hst h)) k) as [cc' r]. simpl in *. split; auto.
  - destruct (nth_error (hsp h) i) as [d|]; [|exact H]. destruct H as [Hc Hm].
    destruct (chem_lookup_spec (tb (hcf h)) (scc (hst h)) k Hc) as [C1 _].
    destruct (chem_lookup (tb (hcf h)) (scc (hst h)) k) as [cc' [v|e]]; simpl in *.
    + destruct (split_set d (fst v) (snd v) dt). simpl. split; auto.
    + split; auto.
Qed.

(* every configuration call of the history is safe in the state it is made in *)
Fixpoint hsafe (h : hstate) (ops : list hop) : Prop :=
  match ops with
  | [] => True
  | o :: r => hop_safe h o /\ hsafe (fst (hstep fixed h o)) r
  end.

Lemma hrun_coh ops : forall h, hcoh h -> hsafe h ops -> hcoh (fst (hrun fixed h ops)).
Proof.
  induction ops as [|o r IH]; intros h H S; simpl; auto.
  destruct S as [S1 S2]. pose proof (hstep_coh h o H S1) as H1.
  destruct (hstep fixed h o) as [h' b]. simpl in *.
  specialize (IH h' H1 S2). destruct (hrun fixed h' r) as [h'' bs]. exact IH.
Qed.

Definition hafter (c : cfg) (ixs : list ixr) (sps : list vec) (hist : list hop) : hstate :=
  fst (hrun fixed (mkhs c (mkst [] [] ixs) sps) hist).

Lemma hafter_coh c ixs sps hist : hsafe (mkhs c (mkst [] [] ixs) sps) hist -> hcoh (hafter c ixs sps hist).
Proof. intros S. apply hrun_coh; auto. apply coh_init. Qed.

(* look-ups after a history with safe configuration calls in between: the pure classification under the CURRENT table *)
Lemma cfg_lookup_pure c ixs sps hist k : hsafe (mkhs c (mkst [] [] ixs) sps) hist ->
  let h := hafter c ixs sps hist in
  let t := tb (hcf h) in
  snd (chem_lookup t (scc (hst h)) k) = classify_chem t k
  /\ (forall phs, snd (mat_lookup fixed t phs (scc (hst h)) (mc_get (smc (hst h)) phs) k) = classify_mat fixed t phs k)
  /\ (forall cas, snd (overlap fixed t (scc (hst h)) cas) = overlap_pure t cas).
Proof.
  intros S h t. destruct (hafter_coh c ixs sps hist S) as [Hc Hm]. fold h in Hc, Hm. fold t in Hc, Hm.
  split; [|split].
  - apply chem_lookup_spec; auto.
  - intros phs. apply mat_lookup_spec; auto.
  - intros cas. apply overlap_spec; auto.
Qed.

Lemma cfg_read_after_history c ixs sps hist i k : hsafe (mkhs c (mkst [] [] ixs) sps) hist ->
  let h := hafter c ixs sps hist in
  snd (hstep fixed h (HOp (OGet i k))) =
  HB (match nth_error (sixs (hst h)) i with
      | Some (IC d) => obs_of_read (read_chem (tb (hcf h)) d k)
      | Some (IM phs rows) => obs_of_read (read_mat fixed (tb (hcf h)) (nchem (hcf h)) phs rows k)
      | None => BErr EOther
      end).
Proof.
  intros S h. pose proof (hafter_coh c ixs sps hist S) as H. fold h in H.
  pose proof (read_history_independent (hcf h) (hst h) i k H) as R.
  cbn [hstep]. destruct (step fixed (hcf h) (hst h) (OGet i k)) as [s' b]. simpl in *. rewrite R. reflexivity.
Qed.

(* ------------------------------------------------------------------ SplitIndexer: reads and writes from the table alone *)
Definition hobs_of_sread (r : res sval) : hobs := match r with Ok v => HSV v | Err e => HSE e end.
Definition split_read (t : table) (d : vec) (k : key) : res sval :=
  do v <- classify_chem t k; split_get d (fst v) (snd v).
Definition split_write (t : table) (d : vec) (k : key) (dt : sdata) : vec * option err :=
  match classify_chem t k with
  | Ok v => split_set d (fst v) (snd v) dt
  | Err e => (d, Some e)
  end.

Lemma split_read_coh h i k : hcoh h ->
  snd (hstep fixed h (HSGet i k)) =
  match nth_error (hsp h) i with
  | Some d => hobs_of_sread (split_read (tb (hcf h)) d k)
  | None => HSE EOther
  end.
Proof.
  intros [Hc Hm]. simpl. destruct (nth_error (hsp h) i) as [d|]; auto.
  destruct (chem_lookup_spec (tb (hcf h)) (scc (hst h)) k Hc) as [_ C2].
  destruct (chem_lookup (tb (hcf h)) (scc (hst h)) k) as [cc' r]. simpl in *. subst r. reflexivity.
Qed.

Lemma split_write_coh h i k dt : hcoh h ->
  snd (hstep fixed h (HSSet i k dt)) =
  match nth_error (hsp h) i with
  | Some d => let (d', e) := split_write (tb (hcf h)) d k dt in HSW e d'
  | None => HSE EOther
  end.
Proof.
  intros [Hc Hm]. simpl. destruct (nth_error (hsp h) i) as [d|]; auto.
  destruct (chem_lookup_spec (tb (hcf h)) (scc (hst h)) k Hc) as [_ C2].
  destruct (chem_lookup (tb (hcf h)) (scc (hst h)) k) as [cc' r]. simpl in *. subst r.
  unfold split_write. destruct (classify_chem (tb (hcf h)) k) as [v|e]; simpl; auto.
  destruct (split_set d (fst v) (snd v) dt); reflexivity.
Qed.

(* data made of numbers only *)
Lemma swr_zip_nums idx : forall d v, swr_zip d idx (map SI v) = (wr_zip d idx v, None).
Proof.
  induction idx as [|i r IH]; intros d [|x v]; simpl; auto.
Qed.

Lemma sndim_nums v : Nat.eqb (sndim (SDItems (map SI v))) 2 = false.
Proof. destruct v; reflexivity. Qed.

Lemma wr_all_length idx : forall d x, length (wr_all d idx x) = length d.
Proof. intros d x. rewrite wr_all_zip. apply wr_zip_length. Qed.

(* split[name] = x *)
Lemma split_set_name d i x : (i < length d)%nat ->
  let r := split_set d (COne (Pos i)) (Some 0%nat) (SDNum x) in
  snd r = None /\ length (fst r) = length d /\ split_get (fst r) (COne (Pos i)) (Some 0%nat) = Ok (SVNum x) /\
  forall j, j <> i -> nthq (fst r) j = nthq d j.
Proof.
  intros Hi. simpl. split; auto. split; [apply wr_length|]. split.
  - f_equal. f_equal. unfold wr. apply nth_upd_same. exact Hi.
  - intros j Hj. unfold wr. apply nth_upd_other. congruence.
Qed.

(* split[group] = x: EVERY member holds x (no composition), nothing else moves *)
Lemma split_set_group_scalar d l x : NoDup l -> Forall (fun i => (i < length d)%nat) l ->
  let r := split_set d (COne (Grp l)) (Some 1%nat) (SDNum x) in
  snd r = None /\ length (fst r) = length d /\
  split_get (fst r) (COne (Grp l)) (Some 1%nat) = Ok (SVVec (repeat x (length l))) /\
  forall j, ~ In j l -> nthq (fst r) j = nthq d j.
Proof.
  intros ND B. simpl. split; auto. split; [apply wr_all_length|]. split.
  - f_equal. f_equal. rewrite wr_all_zip. apply wr_zip_same; auto. rewrite repeat_length. reflexivity.
  - intros j Hj. rewrite wr_all_zip. apply wr_zip_other. exact Hj.
Qed.

(* split[group] = [x, ...]: one value per member *)
Lemma split_set_group_vec d l v : NoDup l -> length l = length v -> Forall (fun i => (i < length d)%nat) l ->
  let r := split_set d (COne (Grp l)) (Some 1%nat) (SDItems (map SI v)) in
  snd r = None /\ length (fst r) = length d /\
  split_get (fst r) (COne (Grp l)) (Some 1%nat) = Ok (SVVec v) /\
  forall j, ~ In j l -> nthq (fst r) j = nthq d j.
Proof.
  intros ND L B. cbn [split_set]. rewrite sndim_nums, swr_zip_nums. simpl. split; auto.
  split; [apply wr_zip_length|]. split.
  - f_equal. f_equal. apply wr_zip_same; auto.
  - intros j Hj. apply wr_zip_other. exact Hj.
Qed.

(* split[ID, ID, ...] = [x, ...] *)
Lemma split_set_list d ts v : existsb is_grp ts = false -> NoDup (poss ts) -> length (poss ts) = length v ->
  Forall (fun i => (i < length d)%nat) (poss ts) ->
  let r := split_set d (CMany ts) (Some 3%nat) (SDItems (map SI v)) in
  snd r = None /\ length (fst r) = length d /\
  split_get (fst r) (CMany ts) (Some 3%nat) = Ok (SVVec v) /\
  forall j, ~ In j (poss ts) -> nthq (fst r) j = nthq d j.
Proof.
  intros G ND L B. cbn [split_set]. rewrite G, sndim_nums, swr_zip_nums. simpl. split; auto.
  split; [apply wr_zip_length|]. split.
  - rewrite G. f_equal. f_equal. apply wr_zip_same; auto.
  - intros j Hj. apply wr_zip_other. exact Hj.
Qed.

(* ------------------------------------------------------------------ rows by label after an expansion by several phases *)
Lemma mem_str_in p l : mem_str p l = true <-> In p l.
Proof.
  unfold mem_str. rewrite existsb_exists. split.
  - intros [x [I E]]. apply String.eqb_eq in E. subst. exact I.
  - intros I. exists p. split; auto. apply String.eqb_refl.
Qed.

(* _expand_phases(other_phases): every label keeps its row, every new label names an empty row of its own *)
Lemma insert_phases_rows z ps : forall phs rows, length phs = length rows ->
  let r := insert_phases ps phs rows z in
  length (fst r) = length (snd r) /\
  (forall q, In q phs -> row_of (fst r) (snd r) q = row_of phs rows q) /\
  (forall q, In q (fst r) <-> In q ps \/ In q phs) /\
  (forall q, In q ps -> ~ In q phs -> row_of (fst r) (snd r) q = z).
Proof.
  induction ps as [|p ps IH]; intros phs rows L; simpl.
  - repeat split; auto; intuition.
  - destruct (mem_str p phs) eqn:M.
    + apply mem_str_in in M. destruct (IH phs rows L) as (I1 & I2 & I3 & I4).
      repeat split; auto.
      * intros H. apply I3 in H. intuition.
      * intros [[->|H]|H]; apply I3; auto.
      * intros q [->|Hq] Hn; [contradiction|]. apply I4; auto.
    + assert (Hn : ~ In p phs). { intros C. apply mem_str_in in C. congruence. }
      destruct (insert_phase_rows p z phs rows L Hn) as (J1 & J2 & J3 & J4).
      destruct (insert_phase p phs rows z) as [a b]. simpl in *.
      destruct (IH a b J1) as (I1 & I2 & I3 & I4).
      repeat split; auto.
      * intros q Hq. rewrite I2 by (apply J4; auto). apply J3. exact Hq.
      * intros H. apply I3 in H. destruct H as [H|H]; auto. apply J4 in H. destruct H as [->|H]; auto.
      * intros [[->|H]|H]; apply I3; auto; right; apply J4; auto.
      * intros q [->|Hq] Hnq.
        -- rewrite I2 by (apply J4; auto). exact J2.
        -- destruct (in_dec string_dec q a) as [Ia|Na].
           ++ apply J4 in Ia. destruct Ia as [->|Ia]; [|contradiction].
              rewrite I2 by (apply J4; auto). exact J2.
           ++ apply I4; auto.
Qed.

(* rows[phase_indexer(p)] op= v over the rows of the source: a row no source phase resolves to is left alone *)
Lemma scatter_rows_other f phs : forall src rows k,
  (forall p v i, In (p, v) src -> pcall phs p = Ok i -> i <> k) ->
  nth k (scatter_rows f phs rows src) [] = nth k rows [].
Proof.
  induction src as [|[p v] src IH]; intros rows k H; simpl; auto.
  destruct (pcall phs p) as [i|e] eqn:E.
  - rewrite IH by (intros p' v' i' I; apply (H p' v'); right; exact I).
    apply upd_rows_other. intros C. subst. exact (H p v i (or_introl eq_refl) E eq_refl).
  - apply IH. intros p' v' i' I. apply (H p' v'). right. exact I.
Qed.

Lemma scatter_rows_length f phs : forall src rows, length (scatter_rows f phs rows src) = length rows.
Proof.
  induction src as [|[p v] src IH]; intros rows; simpl; auto.
  destruct (pcall phs p); rewrite IH; auto. apply upd_length.
Qed.

(* X.mix_from([X, M]) with a multi-phase M bringing phases X lacks (even up to case): the phase set becomes the union, and every
   row no phase of M resolves to -- looked up BY LABEL -- is the row the label named before *)
Lemma mix_mat_rows_by_label n phs rows src q i :
  length phs = length rows -> forallb (knows_phase phs) (map fst src) = false ->
  In q phs -> index_of q (fst (mix_mat n phs rows src)) = Some i ->
  (forall p v j, In (p, v) src -> pcall (fst (mix_mat n phs rows src)) p = Ok j -> j <> i) ->
  (forall x, In x (fst (mix_mat n phs rows src)) <-> In x (map fst src) \/ In x phs) /\
  length (fst (mix_mat n phs rows src)) = length (snd (mix_mat n phs rows src)) /\
  row_of (fst (mix_mat n phs rows src)) (snd (mix_mat n phs rows src)) q = row_of phs rows q.
Proof.
  intros L K Hq Hi Hs. unfold mix_mat in *. rewrite K in *.
  destruct (insert_phases_rows (vzero n) (map fst src) phs rows L) as (I1 & I2 & I3 & _).
  destruct (insert_phases (map fst src) phs rows (vzero n)) as [a b]. simpl in *.
  split; [exact I3|]. split; [rewrite scatter_rows_length; exact I1|].
  rewrite <- (I2 q Hq). unfold row_of. rewrite Hi. apply scatter_rows_other. exact Hs.
Qed.
