(* C10 -- executable model, fourth part: compositions handed to define_group as numpy float arrays the CALLER keeps
   and re-uses.  No proofs in this file.

   _chemicals.py  CompiledChemicals.define_group, the last lines:
       composition = np.asarray(composition, float)        -- NO copy for a float ndarray or a view of one
       if wt: composition_wt = composition;  composition_mol = composition / self.MW[index]     (new array)
       else:  composition_wt = composition * self.MW[index] (new array);  composition_mol = composition
       self._group_wt_compositions[name]  = composition_wt  / composition_wt.sum()              (new array)
       self._group_mol_compositions[name] = composition_mol / composition_mol.sum()             (new array)
   Every stored composition is a NEW array object (the result of a binary `/`), the caller's array is only read.
   So the heap has two kinds of arrays: the caller's buffers [bbufs] (mutable, by position) and the stored compositions
   inside [cfg] (never reachable from the caller).  A definition reads the view buf[:len] at the time of the call; a later
   write of the caller into its buffer touches [bbufs] only. *)
From V Require Export C10.ModelEll.

Inductive bop :=
| BOp (o : eop)                                                     (* everything of ModelEll / ModelCfg *)
| BDefine (name : string) (ids : list string) (b len : nat) (wt : bool)   (* chemicals.define_group(name, ids, buf_b[:len], wt) *)
| BPoke (b : nat) (vals : vec).                                     (* the caller: buf_b[:len(vals)] = vals *)

Inductive bobs :=
| BH (o : hobs)
| BD (e : option err) (view : vec)       (* outcome of the definition and the caller's view buf_b[:len] AFTER the call *)
| BP (buf : vec).                        (* the caller's buffer after its own write *)

Record bstate := mkbs {
  bh : hstate;
  bbufs : list vec }.

(* buf[:len(vals)] = vals  (len(vals) <= len(buf), the generator keeps to that; longer data overwrites what exists) *)
Fixpoint poke (buf vals : vec) : vec :=
  match buf, vals with
  | [], _ => []
  | b :: r, [] => b :: r
  | _ :: r, v :: vs => v :: poke r vs
  end.

Definition bstepc (clr : bool) (vr : variant) (s : bstate) (o : bop) : bstate * bobs :=
  match o with
  | BOp o => let (h', b) := estepc clr vr (bh s) o in (mkbs h' (bbufs s), BH b)
  | BDefine name ids b len wt =>
      match nth_error (bbufs s) b with
      | Some buf =>
          let view := firstn len buf in
          let (h', ob) := estepc clr vr (bh s) (EOp (HCfg (CGroup name ids (Some view) wt))) in
          (mkbs h' (bbufs s), BD (match ob with HC e => e | _ => Some EOther end) view)
      | None => (s, BP [])                 (* no such array: not an operation of the caller *)
      end
  | BPoke b vals =>
      match nth_error (bbufs s) b with
      | Some buf => let buf' := poke buf vals in (mkbs (bh s) (upd (bbufs s) b buf'), BP buf')
      | None => (s, BP [])
      end
  end.

Fixpoint brunc (clr : bool) (vr : variant) (s : bstate) (ops : list bop) : bstate * list bobs :=
  match ops with
  | [] => (s, [])
  | o :: r => let (s', b) := bstepc clr vr s o in let (s'', bs) := brunc clr vr s' r in (s'', b :: bs)
  end.

(* the history with the caller's arrays resolved: every definition carries the VALUES its view held at the time of the
   call, the caller's own writes disappear *)
Fixpoint resolve (bufs : list vec) (ops : list bop) : list eop :=
  match ops with
  | [] => []
  | BOp o :: r => o :: resolve bufs r
  | BDefine name ids b len wt :: r =>
      match nth_error bufs b with
      | Some buf => EOp (HCfg (CGroup name ids (Some (firstn len buf)) wt)) :: resolve bufs r
      | None => resolve bufs r
      end
  | BPoke b vals :: r =>
      match nth_error bufs b with
      | Some buf => resolve (upd bufs b (poke buf vals)) r
      | None => resolve bufs r
      end
  end.

Definition bobs_eqb (a b : bobs) : bool :=
  match a, b with
  | BH x, BH y => hobs_eqb x y
  | BD e x, BD f y => opt_eqb err_eqb e f && vapproxb x y
  | BP x, BP y => vapproxb x y
  | _, _ => false
  end.

(* the whole case; compared in addition to ecasec_eqb: the caller's view after every definition, the final buffers *)
Definition bcasec_eqb (clr : bool) (vr : variant) (chems : list chem) (cops : list cop) (cop_errs : list (option err))
           (ixs : list ixr) (sps : list vec) (bufs : list vec) (ops : list bop) (exp_obs : list bobs)
           (exp_table : list (string * target)) (absent : list string) (exp_comps exp_wcomps : list (string * vec))
           (exp_cc : ccache) (exp_mc : list (list string * mcache)) (exp_sps : list vec) (exp_bufs : list vec) : bool :=
  match compile chems with
  | Err _ => false
  | Ok c0 =>
      let (c1, es) := cbuild c0 cops in
      let (s, bs) := brunc clr vr (mkbs (mkhs c1 (mkst [] [] ixs) sps) bufs) ops in
      let h := bh s in let c := hcf h in let st := hst h in
      list_eqb (opt_eqb err_eqb) es cop_errs
      && list_eqb bobs_eqb bs exp_obs
      && table_agrees (tb c) exp_table absent && comps_agree (comps c) exp_comps && comps_agree (wcomps c) exp_wcomps
      && ccache_eqb (scc st) exp_cc
      && forallb (fun pc => mcache_eqb (mc_get (smc st) (fst pc)) (snd pc)) exp_mc
      && list_eqb vapproxb (hsp h) exp_sps
      && list_eqb vapproxb (bbufs s) exp_bufs
  end.
