(* C10 -- executable model of name-keyed access to flow data.
   Source modelled (thermosteam):
     _chemicals.py  CompiledChemicals._compile (name table part), set_alias, define_group,
                    index, indices, get_index, _get_index_and_kind (100-entry FIFO _index_cache)
     indexer.py     index_overlap (writes into the same _index_cache), get_sparse_chemical_data,
                    reset_sparse_chemical_data, set_sparse_chemical_data,
                    ChemicalIndexer.__getitem__/__setitem__/mix_from (other-package operand),
                    MaterialIndexer._set_cache/_get_index_data/_get_index_and_kind/__getitem__/__setitem__
     utils/cache.py trim_cache (500 entries, trims the 100 oldest)
     _phase.py      PhaseIndexer.__new__ (index table with case-swapped fallback) and __call__
   A [variant] selects, for three places, between the code as first found in /repo and the
   repaired code (patches under pending_fixes, prefix C10): the theorems are about [fixed]; [asis] is kept so that
   the defects can be exhibited inside Coq and so that the correspondence can be run against
   an unpatched tree.
   Dense data: a SparseVector is modelled by its dense image (absent key = 0).
   No proofs in this file. *)
From Coq Require Export String Ascii.
From V Require Export Common.Num.

Record variant := mkvar {
  fx_trim : bool;      (* utils.trim_cache removes the 100 oldest entries (as found: raises TypeError) *)
  fx_overlap : bool;   (* index_overlap stores its list index under kind 3 (as found: kind 0) *)
  fx_pell : bool       (* (phase, ...) is indexed by the phase alone (as found: by a (phase, None) pair) *)
}.
Definition fixed := mkvar true true true.
Definition asis := mkvar false false false.

(* ------------------------------------------------------------------ keys *)
Inductive key :=
| KStr (s : string)          (* str *)
| KEll                       (* Ellipsis *)
| KTup (l : list key)        (* tuple *)
| KList (l : list key)       (* list (unhashable) *)
| KObj (n : nat).            (* any other hashable object: int, None, float *)

Fixpoint hashable (k : key) : bool :=
  match k with
  | KStr _ | KEll | KObj _ => true
  | KTup l => forallb hashable l
  | KList _ => false
  end.

Fixpoint key_eqb (a b : key) {struct a} : bool :=
  match a, b with
  | KStr s, KStr t => String.eqb s t
  | KEll, KEll => true
  | KObj n, KObj m => Nat.eqb n m
  | KTup l, KTup m =>
      (fix go (l m : list key) {struct l} : bool :=
         match l, m with
         | [], [] => true
         | x :: l', y :: m' => key_eqb x y && go l' m'
         | _, _ => false
         end) l m
  | KList l, KList m =>
      (fix go (l m : list key) {struct l} : bool :=
         match l, m with
         | [], [] => true
         | x :: l', y :: m' => key_eqb x y && go l' m'
         | _, _ => false
         end) l m
  | _, _ => false
  end.

(* ------------------------------------------------------------------ the name table *)
Inductive target := Pos (i : nat) | Grp (l : list nat).
Definition table := list (string * target).

Fixpoint sassoc {A} (t : list (string * A)) (s : string) : option A :=
  match t with
  | [] => None
  | (n, x) :: r => if String.eqb s n then Some x else sassoc r s
  end.
Definition tget (t : table) (s : string) : option target := sassoc t s.
(* dict assignment: a later binding shadows an earlier one *)
Definition tset (t : table) (s : string) (x : target) : table := (s, x) :: t.

Definition target_eqb (a b : target) : bool :=
  match a, b with
  | Pos i, Pos j => Nat.eqb i j
  | Grp l, Grp m => list_eqb Nat.eqb l m
  | _, _ => false
  end.
Definition is_grp (t : target) : bool := match t with Grp _ => true | Pos _ => false end.

Record chem := mkchem {
  cid : string; ccas : string;
  cnames : list string;      (* set([*iupac_name, *aliases, common_name, formula]) minus empty names *)
  cmw : Q }.

Record cfg := mkcfg {
  tb : table;                         (* CompiledChemicals._index *)
  comps : list (string * vec);        (* _group_mol_compositions *)
  wcomps : list (string * vec);       (* _group_wt_compositions *)
  mws : vec;                          (* MW *)
  nchem : nat;                        (* size *)
  cass : list string }.               (* CASs *)

Definition mem_str (s : string) (l : list string) : bool := existsb (String.eqb s) l.

(* CompiledChemicals.set_alias; the namespace __dict__ is represented by the table itself
   (reserved attribute names are outside the name alphabet) *)
Definition set_alias (t : table) (id alias : string) : table * option err :=
  match tget t id with
  | None => (t, Some EOther)                                   (* KeyError from dct[ID] *)
  | Some x =>
      let clash := match tget t alias with Some y => negb (target_eqb x y) | None => false end in
      if clash then (t, Some EValue)
      else (tset t alias x, if is_grp x then Some EOther else None)  (* list has no .aliases: raised after the write *)
  end.

Fixpoint set_aliases (t : table) (id : string) (names : list string) : res table :=
  match names with
  | [] => Ok t
  | n :: r => match set_alias t id n with
              | (t', None) => set_aliases t' id r
              | (_, Some e) => Err e
              end
  end.

(* names that occur in the name sets of two different chemicals *)
Definition n_owners (cs : list chem) (n : string) : nat :=
  length (filter (fun c => mem_str n (cnames c)) cs).
Definition repeated (cs : list chem) (n : string) : bool := Nat.ltb 1 (n_owners cs n).

Fixpoint compile_aliases (all : list chem) (t : table) (cs : list chem) : res table :=
  match cs with
  | [] => Ok t
  | c :: r =>
      do t' <- set_aliases t (cid c) (filter (fun n => negb (repeated all n)) (cnames c));
      compile_aliases all t' r
  end.

Fixpoint enum_from {A} (i : nat) (l : list A) : list (A * nat) :=
  match l with [] => [] | x :: r => (x, i) :: enum_from (S i) r end.

(* _compile: _index is the dict of zip(CAS, index) followed by zip(IDs, index); then the alias pass *)
Definition base_table (cs : list chem) : table :=
  fold_left (fun t ci => tset t (fst ci) (Pos (snd ci)))
            (enum_from 0 (map ccas cs) ++ enum_from 0 (map cid cs)) [].
Definition compile (cs : list chem) : res cfg :=
  do t <- compile_aliases cs (base_table cs) cs;
  Ok (mkcfg t [] [] (map cmw cs) (length cs) (map ccas cs)).

Definition is_str_key (k : key) : bool := match k with KStr _ => true | _ => false end.

(* CompiledChemicals.indices on the elements of a sequence; the first offending element decides *)
Fixpoint indices (t : table) (l : list key) : res (list target) :=
  match l with
  | [] => Ok []
  | e :: r =>
      if negb (hashable e) then Err EType
      else match e with
           | KStr s => match tget t s with
                       | Some x => do xs <- indices t r; Ok (x :: xs)
                       | None => Err EKey
                       end
           | _ => Err EKey
           end
  end.

Definition names_of_keys (l : list key) : list string :=
  flat_map (fun k => match k with KStr s => [s] | _ => [] end) l.

Fixpoint poss (l : list target) : list nat :=
  match l with [] => [] | Pos i :: r => i :: poss r | Grp _ :: r => poss r end.

(* define_group(name, IDs, composition, wt) *)
Definition define_group (c : cfg) (name : string) (ids : list string) (comp : option vec) (wt : bool)
  : cfg * option err :=
  let comp0 := match comp with Some v => v | None => repeat 1 (length ids) end in
  if negb (Nat.eqb (length comp0) (length ids)) then (c, Some EValue)
  else if existsb (fun i => match sassoc (comps c) i with Some _ => true | None => false end) ids
  then (c, Some EValue)
  else match indices (tb c) (map KStr ids) with
       | Err e => (c, Some e)
       | Ok ts =>
           let idx := poss ts in
           let mwi := map (nthq (mws c)) idx in
           let cm := if wt then map2 Qdiv comp0 mwi else comp0 in
           let cw := if wt then comp0 else vmul comp0 mwi in
           (mkcfg (tset (tb c) name (Grp idx)) ((name, vdivs cm (qsum cm)) :: comps c)
                  ((name, vdivs cw (qsum cw)) :: wcomps c) (mws c) (nchem c) (cass c), None)
       end.

Inductive cop :=
| CAlias (id alias : string)
| CGroup (name : string) (ids : list string) (comp : option vec) (wt : bool).

Definition cstep (c : cfg) (o : cop) : cfg * option err :=
  match o with
  | CAlias id a => let (t, e) := set_alias (tb c) id a in (mkcfg t (comps c) (wcomps c) (mws c) (nchem c) (cass c), e)
  | CGroup n ids cp wt => define_group c n ids cp wt
  end.
Fixpoint cbuild (c : cfg) (ops : list cop) : cfg * list (option err) :=
  match ops with
  | [] => (c, [])
  | o :: r => let (c', e) := cstep c o in let (c'', es) := cbuild c' r in (c'', e :: es)
  end.

(* ------------------------------------------------------------------ classification (pure) *)
Inductive cindex := CAll | COne (t : target) | CMany (l : list target).
Definition kind := option nat.
Definition cval := (cindex * kind)%type.

Definition kind_of_many (l : list target) : kind := if existsb is_grp l then Some 2%nat else Some 3%nat.

(* the body of the `except KeyError` branch of _get_index_and_kind, for a hashable key *)
Definition classify_h (t : table) (k : key) : res cval :=
  match k with
  | KStr s => match tget t s with
              | Some (Pos i) => Ok (COne (Pos i), Some 0%nat)
              | Some (Grp l) => Ok (COne (Grp l), Some 1%nat)
              | None => Err EKey
              end
  | KTup l => do ts <- indices t l; Ok (CMany ts, kind_of_many ts)
  | KEll => Ok (CAll, None)
  | _ => Err EType
  end.

(* `if key.__hash__ is None: key = tuple(key)` *)
Definition norm_key (k : key) : key := match k with KList l => KTup l | _ => k end.

Definition classify_chem (t : table) (k : key) : res cval :=
  let k := norm_key k in
  if hashable k then classify_h t k else Err EType.

(* ------------------------------------------------------------------ the shared 100-entry cache *)
Definition ccache := list (key * cval).      (* oldest first, like dict insertion order *)

Fixpoint kassoc {A} (c : list (key * A)) (k : key) : option A :=
  match c with
  | [] => None
  | (k', v) :: r => if key_eqb k k' then Some v else kassoc r k
  end.

(* `if len(cache) > 100: cache.pop(cache.__iter__().__next__())` *)
Definition evict100 {A} (c : list (key * A)) : list (key * A) :=
  if Nat.ltb 100 (length c) then tl c else c.

(* CompiledChemicals._get_index_and_kind *)
Definition chem_lookup (t : table) (cc : ccache) (k : key) : ccache * res cval :=
  let k := norm_key k in
  if negb (hashable k) then (cc, Err EType)
  else match kassoc cc k with
       | Some v => (cc, Ok v)
       | None => match classify_h t k with
                 | Ok v => (evict100 (cc ++ [(k, v)]), Ok v)
                 | Err e => (cc, Err e)
                 end
       end.

(* the loop of index_overlap over the CAS numbers *)
Fixpoint overlap_loop (t : table) (cas : list string) : res (list nat) :=
  match cas with
  | [] => Ok []
  | s :: r => match tget t s with
              | Some (Pos i) => do is <- overlap_loop t r; Ok (i :: is)
              | Some (Grp _) => Err ERuntime
              | None => Err EKey
              end
  end.

Definition kind_eqb (a b : kind) : bool := opt_eqb Nat.eqb a b.

(* index_overlap(left_chemicals, right_chemicals, right_index): [cas] are the right CAS numbers;
   returns left_index *)
Definition overlap (vr : variant) (t : table) (cc : ccache) (cas : list string) : ccache * res cindex :=
  let k := KTup (map KStr cas) in
  match kassoc cc k with
  | Some (idx, kd) =>
      if kind_eqb kd (Some 0%nat) || kind_eqb kd (Some 3%nat) then (cc, Ok idx) else (cc, Err ERuntime)
  | None =>
      match overlap_loop t cas with
      | Ok li =>
          let idx := CMany (map Pos li) in
          (evict100 (cc ++ [(k, (idx, Some (if fx_overlap vr then 3%nat else 0%nat)))]), Ok idx)
      | Err e => (cc, Err e)
      end
  end.

(* the uncached public API: chemicals.get_index(key) *)
Definition get_index (t : table) (k : key) : res cindex :=
  match k with
  | KStr s => match tget t s with Some x => Ok (COne x) | None => Err EKey end
  | KEll => Ok CAll
  | KTup l | KList l => do ts <- indices t l; Ok (CMany ts)
  | KObj _ => Err EType
  end.

(* ------------------------------------------------------------------ phases *)
Definition swap_ascii (a : ascii) : ascii :=
  let n := nat_of_ascii a in
  if Nat.leb 65 n && Nat.leb n 90 then ascii_of_nat (n + 32)
  else if Nat.leb 97 n && Nat.leb n 122 then ascii_of_nat (n - 32)
  else a.
(* phase.lower() if phase.isupper() else phase.upper(), for one-character phases *)
Definition swapcase (s : string) : string :=
  match s with String a EmptyString => String (swap_ascii a) EmptyString | _ => s end.

(* PhaseIndexer.__new__: {phase: i}, then the swapped-case spelling when it is still free *)
Definition pindex (phs : list string) : list (string * nat) :=
  let base := enum_from 0 phs in
  fold_left (fun idx pn => let sw := swapcase (fst pn) in
                           match sassoc idx sw with Some _ => idx | None => idx ++ [(sw, snd pn)] end)
            base base.
(* PhaseIndexer.__call__ *)
Definition pcall (phs : list string) (s : string) : res nat :=
  match sassoc (pindex phs) s with Some n => Ok n | None => Err EUndefPhase end.

(* ------------------------------------------------------------------ MaterialIndexer index data *)
Inductive mindex :=
| MChem (c : cindex)                    (* chemical index, phases summed *)
| MNone                                 (* index None *)
| MPhase (p : nat)                      (* a row *)
| MPair (p : option nat) (c : cindex).  (* (phase_index, chemical_index) *)
Definition mval := (mindex * kind * bool)%type.
Definition mcache := list (key * mval).

Definition len1 (s : string) : bool := Nat.eqb (String.length s) 1.

(* MaterialIndexer._get_index_and_kind(phase_IDs, undefined_chemical_error) *)
Definition phase_part (vr : variant) (t : table) (phs : list string) (cc : ccache) (k : key)
  : ccache * res (mindex * kind) :=
  match k with
  | KStr s => if len1 s then (cc, do p <- pcall phs s; Ok (MPhase p, None)) else (cc, Err EKey)
  | KEll => (cc, Ok (MNone, None))
  | KTup l =>
      match l with
      | [] => (cc, Err EIndex)
      | p0 :: rest =>
          let rp := match p0 with
                    | KStr s => if len1 s then do p <- pcall phs s; Ok (Some p) else Err EKey
                    | KEll => Ok None
                    | _ => Err EIndex
                    end in
          match rp with
          | Err e => (cc, Err e)
          | Ok pi =>
              match rest with
              | [ids] =>
                  let (cc', r) := chem_lookup t cc ids in
                  (cc', do v <- r;
                        let (ci, kd) := v : cval in
                        Ok (match kd, fx_pell vr with
                            | None, true => match pi with Some p => MPhase p | None => MNone end
                            | _, _ => MPair pi ci
                            end, kd))
              | _ => (cc, Err EIndex)
              end
          end
      end
  | _ => (cc, Err EType)
  end.

(* utils.trim_cache *)
Definition trim (vr : variant) (c : mcache) : res mcache :=
  if Nat.ltb 500 (length c)
  then (if fx_trim vr then Ok (skipn 100 c) else Err EType)
  else Ok c.

(* body of _get_index_data for a hashable key *)
Definition mat_lookup_h (vr : variant) (t : table) (phs : list string) (cc : ccache) (mc : mcache) (k : key)
  : ccache * mcache * res mval :=
  match kassoc mc k with
  | Some v => (cc, mc, Ok v)
  | None =>
      let (cc1, r) := chem_lookup t cc k in
      let store (cc' : ccache) (v : mval) :=
        let mc' := mc ++ [(k, v)] in
        match trim vr mc' with
        | Ok mc'' => (cc', mc'', Ok v)
        | Err e => (cc', mc', Err e)
        end in
      match r with
      | Ok (ci, kd) => store cc1 (MChem ci, kd, true)
      | Err EKey =>
          let (cc2, r2) := phase_part vr t phs cc1 k in
          match r2 with
          | Ok (mi, kd) => store cc2 (mi, kd, false)
          | Err e => (cc2, mc, Err e)
          end
      | Err e => (cc1, mc, Err e)
      end
  end.

(* `tuple([i if i.__hash__ else tuple(i) for i in key])` *)
Definition conv_elem (k : key) : key := match k with KList l => KTup l | _ => k end.
Definition mat_key (k : key) : option key :=
  if hashable k then Some k
  else match k with
       | KTup l | KList l => let k' := KTup (map conv_elem l) in if hashable k' then Some k' else None
       | _ => None
       end.

(* MaterialIndexer._get_index_data *)
Definition mat_lookup (vr : variant) (t : table) (phs : list string) (cc : ccache) (mc : mcache) (k : key)
  : ccache * mcache * res mval :=
  match mat_key k with
  | Some k' => mat_lookup_h vr t phs cc mc k'
  | None => (cc, mc, Err EType)
  end.

(* the same without any cache *)
Definition phase_part_pure (vr : variant) (t : table) (phs : list string) (k : key) : res (mindex * kind) :=
  snd (phase_part vr t phs [] k).
Definition classify_mat_h (vr : variant) (t : table) (phs : list string) (k : key) : res mval :=
  match classify_chem t k with
  | Ok (ci, kd) => Ok (MChem ci, kd, true)
  | Err EKey => do v <- phase_part_pure vr t phs k; let (mi, kd) := v : mindex * kind in Ok (mi, kd, false)
  | Err e => Err e
  end.
Definition classify_mat (vr : variant) (t : table) (phs : list string) (k : key) : res mval :=
  match mat_key k with
  | None => Err EType
  | Some k' => classify_mat_h vr t phs k'
  end.
(* what index_overlap returns, from the table alone *)
Definition overlap_pure (t : table) (cas : list string) : res cindex :=
  do li <- overlap_loop t cas; Ok (CMany (map Pos li)).

(* ------------------------------------------------------------------ reading *)
Inductive val := VNum (x : Q) | VVec (v : vec) | VMat (m : list vec).

Definition tsum (d : vec) (t : target) : Q :=
  match t with Pos i => nthq d i | Grp l => qsum (map (nthq d) l) end.

(* get_sparse_chemical_data *)
Definition get_sparse (d : vec) (ci : cindex) (kd : kind) : res val :=
  match kd with
  | None => Ok (VVec d)
  | Some 0%nat => match ci with COne (Pos i) => Ok (VNum (nthq d i)) | _ => Err EType end  (* dct.get(<list>) *)
  | Some 1%nat => match ci with COne (Grp l) => Ok (VNum (tsum d (Grp l))) | _ => Err EType end
  | Some 2%nat => match ci with CMany ts => Ok (VVec (map (tsum d) ts)) | _ => Err EType end
  | Some 3%nat => match ci with
                  | CMany ts => if existsb is_grp ts then Err EType else Ok (VVec (map (tsum d) ts))
                  | _ => Err EType
                  end
  | Some _ => Err EIndex
  end.

Fixpoint colsum (n : nat) (rows : list vec) : vec :=
  match rows with [] => vzero n | r :: rs => vadd r (colsum n rs) end.

Fixpoint all_nums (l : list val) : option vec :=
  match l with
  | [] => Some []
  | VNum x :: r => match all_nums r with Some v => Some (x :: v) | None => None end
  | _ => None
  end.
Fixpoint all_vecs (l : list val) : option (list vec) :=
  match l with
  | [] => Some []
  | VVec x :: r => match all_vecs r with Some v => Some (x :: v) | None => None end
  | _ => None
  end.
Fixpoint res_all {A} (l : list (res A)) : res (list A) :=
  match l with
  | [] => Ok []
  | Ok a :: r => do x <- res_all r; Ok (a :: x)
  | Err e :: _ => Err e
  end.
(* np.array([...]) of per-row results *)
Definition stack (l : list val) : res val :=
  match all_nums l with
  | Some v => Ok (VVec v)
  | None => match all_vecs l with Some m => Ok (VMat m) | None => Err EOther end
  end.

(* MaterialIndexer.__getitem__ after _get_index_data *)
Definition mat_get (n : nat) (rows : list vec) (v : mval) : res val :=
  let '(mi, kd, sap) := v in
  if sap then
    match mi with
    | MChem ci => get_sparse (colsum n rows) ci kd   (* the per-kind sums over all rows *)
    | _ => Err EOther
    end
  else
    match kd with
    | None => match mi with
              | MNone => Ok (VMat rows)
              | MPhase p => Ok (VVec (nth p rows []))
              | _ => Err EType                       (* rows[(phase_index, None)] *)
              end
    | Some _ => match mi with
                | MPair None ci => do vs <- res_all (map (fun r => get_sparse r ci kd) rows); stack vs
                | MPair (Some p) ci => get_sparse (nth p rows []) ci kd
                | _ => Err EOther
                end
    end.

(* indexer[key] computed from the table alone (no cache) *)
Definition read_chem (t : table) (d : vec) (k : key) : res val :=
  do v <- classify_chem t k; get_sparse d (fst v) (snd v).
Definition read_mat (vr : variant) (t : table) (n : nat) (phs : list string) (rows : list vec) (k : key) : res val :=
  do v <- classify_mat vr t phs k; mat_get n rows v.

(* ------------------------------------------------------------------ writing *)
Inductive data := DNum (x : Q) | DVec (v : vec) | DMat (m : list vec).

Definition wr (d : vec) (i : nat) (x : Q) : vec := upd d i x.
Fixpoint wr_zip (d : vec) (idx : list nat) (xs : vec) : vec :=
  match idx, xs with
  | i :: idx', x :: xs' => wr_zip (wr d i x) idx' xs'
  | _, _ => d
  end.
Definition wr_all (d : vec) (idx : list nat) (x : Q) : vec := fold_left (fun d i => wr d i x) idx d.

(* reset_sparse_chemical_data: clear, then fill *)
Definition reset_sparse (d : vec) (dt : data) : vec * option err :=
  let n := length d in
  match dt with
  | DNum x => (repeat x n, None)
  | DVec v => (wr_zip (vzero n) (seq 0 n) v, None)
  | DMat _ => (vzero n, Some EIndex)
  end.

Definition comp_of (cs : list (string * vec)) (k : key) : option vec :=
  match k with KStr s => sassoc cs s | _ => None end.
Definition key_elems (k : key) : list key := match k with KTup l | KList l => l | _ => [] end.

(* kind 2, scalar (non-zero) *)
Fixpoint set_nested_num (cs : list (string * vec)) (d : vec) (ts : list target) (elems : list key) (x : Q)
  : vec * option err :=
  match ts with
  | [] => (d, None)
  | Pos i :: ts' => set_nested_num cs (wr d i x) ts' (tl elems) x
  | Grp l :: ts' =>
      match comp_of cs (hd KEll elems) with
      | Some c => set_nested_num cs (wr_zip d l (vscale x c)) ts' (tl elems) x
      | None => (d, Some EOther)
      end
  end.
(* kind 2, 1-d data *)
Fixpoint set_nested_vec (cs : list (string * vec)) (d : vec) (ts : list target) (elems : list key) (xs : vec)
  : vec * option err :=
  match ts with
  | [] => (d, None)
  | t :: ts' =>
      match xs with
      | [] => (d, Some EIndex)
      | x :: xs' =>
          match t with
          | Pos i => set_nested_vec cs (wr d i x) ts' (tl elems) xs'
          | Grp l =>
              match comp_of cs (hd KEll elems) with
              | Some c => set_nested_vec cs (wr_zip d l (vscale x c)) ts' (tl elems) xs'
              | None => (d, Some EOther)
              end
          end
      end
  end.
Fixpoint flat_targets (ts : list target) : list nat :=
  match ts with [] => [] | Pos i :: r => i :: flat_targets r | Grp l :: r => l ++ flat_targets r end.

(* set_sparse_chemical_data(sparse, index, kind, data, key, parent) *)
Definition set_sparse (cs : list (string * vec)) (d : vec) (ci : cindex) (kd : kind) (dt : data) (k : key)
  : vec * option err :=
  match kd with
  | None => reset_sparse d dt
  | Some 0%nat =>
      match dt with
      | DNum x => match ci with COne (Pos i) => (wr d i x, None) | _ => (d, Some EType) end
      | _ => (d, Some EIndex)
      end
  | Some 1%nat =>
      match ci with
      | COne (Grp l) =>
          match dt with
          | DNum x => match comp_of cs k with
                      | Some c => (wr_zip d l (vscale x c), None)
                      | None => (d, Some EOther)
                      end
          | DVec v => (wr_zip d l v, None)
          | DMat _ => (d, Some EIndex)
          end
      | _ => (d, Some EType)
      end
  | Some 2%nat =>
      match ci with
      | CMany ts =>
          match dt with
          | DNum x => if qzerob x then (wr_all d (flat_targets ts) 0, None)
                      else set_nested_num cs d ts (key_elems k) x
          | DVec v => set_nested_vec cs d ts (key_elems k) v
          | DMat _ => (d, Some EIndex)
          end
      | _ => (d, Some EType)
      end
  | Some 3%nat =>
      match ci with
      | CMany ts =>
          if existsb is_grp ts then (d, Some EType)
          else match dt with
               | DNum x => (wr_all d (poss ts) x, None)
               | DVec v => (wr_zip d (poss ts) v, None)
               | DMat _ => (d, Some EIndex)
               end
      | _ => (d, Some EType)
      end
  | Some _ => (d, Some EIndex)
  end.

Definition upd_row (rows : list vec) (p : nat) (r : vec) : list vec := upd rows p r.

(* one row after the other; stops at the first error *)
Fixpoint map_rows (f : vec -> vec * option err) (rows : list vec) : list vec * option err :=
  match rows with
  | [] => ([], None)
  | r :: rs => match f r with
               | (r', None) => let (rs', e) := map_rows f rs in (r' :: rs', e)
               | (r', Some e) => (r' :: rs, Some e)
               end
  end.

(* MaterialIndexer.__setitem__ after _get_index_data.  [ids] is the second component of the key
   (`_, key = key`).  Writes through (..., IDs) go through SparseArray column assignment, which is
   modelled for scalars and for vectors of exactly the indexed length only. *)
Definition second (k : key) : key := match key_elems k with [_; b] => b | _ => KEll end.

Definition mat_set (cs : list (string * vec)) (rows : list vec) (v : mval) (dt : data) (k : key)
  : list vec * option err :=
  let '(mi, kd, sap) := v in
  if sap then (rows, Some EIndex)
  else
    match kd with
    | None =>
        match mi with
        | MNone => match dt with
                   | DNum x => (map (fun r => repeat x (length r)) rows, None)
                   | DVec xs => (map (fun r => xs) rows, None)
                   | DMat m => (m, None)
                   end
        | MPhase p => let (r, e) := reset_sparse (nth p rows []) dt in (upd_row rows p r, e)
        | _ => (rows, Some EType)
        end
    | Some kn =>
        match mi with
        | MPair (Some p) ci =>
            let (r, e) := set_sparse cs (nth p rows []) ci kd dt (second k) in (upd_row rows p r, e)
        | MPair None ci =>
            match kn, ci, dt with
            (* `if kind in (0, 3): self.data[:, chemical_index] = data` *)
            | (0%nat | 3%nat), COne (Pos i), DNum x => (map (fun r => wr r i x) rows, None)
            | (0%nat | 3%nat), CMany ts, DNum x =>
                if existsb is_grp ts then (rows, Some EOther) else (map (fun r => wr_all r (poss ts) x) rows, None)
            | (0%nat | 3%nat), CMany ts, DVec xs =>
                if existsb is_grp ts then (rows, Some EOther) else (map (fun r => wr_zip r (poss ts) xs) rows, None)
            | 1%nat, COne (Grp l), DNum x =>
                match comp_of cs (second k) with
                | Some c => (map (fun r => wr_zip r l (vscale x c)) rows, None)
                | None => (rows, Some EOther)
                end
            | 2%nat, CMany ts, DNum _ => (rows, Some EType)          (* data[n] on a float *)
            | 2%nat, CMany ts, DVec xs => map_rows (fun r => set_nested_vec cs r ts (key_elems (second k)) xs) rows
            | _, _, _ => (rows, Some EOther)
            end
        | _ => (rows, Some EOther)
        end
    end.

(* ------------------------------------------------------------------ histories *)
Inductive ixr := IC (d : vec) | IM (phs : list string) (rows : list vec).

Record state := mkst {
  scc : ccache;                              (* chemicals._index_cache *)
  smc : list (list string * mcache);         (* MaterialIndexer._index_caches, by phases *)
  sixs : list ixr }.

Definition phs_eqb (a b : list string) : bool := list_eqb String.eqb a b.
Fixpoint mc_get (m : list (list string * mcache)) (phs : list string) : mcache :=
  match m with
  | [] => []
  | (p, c) :: r => if phs_eqb phs p then c else mc_get r phs
  end.
Fixpoint mc_set (m : list (list string * mcache)) (phs : list string) (c : mcache) :=
  match m with
  | [] => [(phs, c)]
  | (p, c0) :: r => if phs_eqb phs p then (p, c) :: r else (p, c0) :: mc_set r phs c
  end.

Inductive op :=
| OGet (i : nat) (k : key)
| OSet (i : nat) (k : key) (d : data)
| OOverlap (cas : list string)
| OMix (i : nat) (cas : list string) (vals : vec)   (* ChemicalIndexer.mix_from([indexer of another package]) *)
| OIndex (k : key)
| OGetMass (i : nat) (k : key)                      (* indexer.by_mass()[key]: the memoised view over the same dicts *)
| OSetMass (i : nat) (k : key) (d : data)           (* indexer.by_mass()[key] = data *)
| OMixPhase (i : nat) (p : string) (vals : vec)     (* X.mix_from([X, <single-phase indexer of the same chemicals, phase p>]) *)
| OCopyPhase (i : nat) (p : string) (vals : vec)    (* X.copy_like(<single-phase indexer of the same chemicals, phase p>) *)
| OMixMat (i : nat) (src : list (string * vec))     (* X.mix_from([X, <multi-phase indexer of the same chemicals>]) *)
| OCopyMat (i : nat) (src : list (string * vec)).   (* X.copy_like(<multi-phase indexer of the same chemicals>) *)

Inductive obs :=
| BVal (v : val)
| BErr (e : err)
| BIdx (c : cindex)
| BWr (e : option err) (rows : list vec)
| BPh (phs : list string) (rows : list vec).

Definition rows_of (x : ixr) : list vec := match x with IC d => [d] | IM _ rows => rows end.

(* the mass view: MassFlowDict(dct, MW) wraps the SAME dict, so it always shows mol * MW and writes mol = kg / MW *)
Definition to_mass (mw d : vec) : vec := vmul d mw.
Definition of_mass (mw m : vec) : vec := map2 Qdiv m mw.

(* MaterialIndexer._expand_phases: phases stay sorted, the new row is empty; afterwards _set_cache switches the
   indexer to the class-level cache registered for the NEW phase set (every other cache is left alone) *)
Fixpoint insert_phase (p : string) (phs : list string) (rows : list vec) (z : vec) : list string * list vec :=
  match phs, rows with
  | q :: phs', r :: rows' =>
      if String.ltb p q then (p :: phs, z :: rows)
      else let (a, b) := insert_phase p phs' rows' z in (q :: a, r :: b)
  | _, _ => ([p], [z])
  end.
(* `if phase not in phase_indexer: _expand_phases(...)`, then the row of the phase *)
Definition add_phase_row (n : nat) (phs : list string) (rows : list vec) (p : string) : list string * list vec * nat :=
  match pcall phs p with
  | Ok r => (phs, rows, r)
  | Err _ => let (phs', rows') := insert_phase p phs rows (vzero n) in
             (phs', rows', match pcall phs' p with Ok r => r | Err _ => O end)
  end.

(* _expand_phases(other_phases): every phase not literally among the own ones gets its OWN new empty row *)
Fixpoint insert_phases (ps : list string) (phs : list string) (rows : list vec) (z : vec) : list string * list vec :=
  match ps with
  | [] => (phs, rows)
  | p :: r => if mem_str p phs then insert_phases r phs rows z
              else let (a, b) := insert_phase p phs rows z in insert_phases r a b z
  end.
Definition knows_phase (phs : list string) (p : string) : bool :=
  match pcall phs p with Ok _ => true | Err _ => false end.
(* rows[phase_indexer(p)] op= v for every row of the source, in the source's order *)
Fixpoint scatter_rows (f : vec -> vec -> vec) (phs : list string) (rows : list vec) (src : list (string * vec)) : list vec :=
  match src with
  | [] => rows
  | (p, v) :: r =>
      match pcall phs p with
      | Ok k => scatter_rows f phs (upd rows k (f (nth k rows []) v)) r
      | Err _ => scatter_rows f phs rows r
      end
  end.
Definition lower_ascii (a : ascii) : ascii :=
  let n := nat_of_ascii a in if Nat.leb 65 n && Nat.leb n 90 then ascii_of_nat (n + 32) else a.
Definition lower1 (s : string) : string :=
  match s with String a EmptyString => String (lower_ascii a) EmptyString | _ => s end.
(* PhaseIndexer.compatible_with: same letters in the same (sorted) order, up to case *)
Definition compatible (a b : list string) : bool := phs_eqb (map lower1 a) (map lower1 b).

(* MaterialIndexer.mix_from([self, M]), M of the same chemicals: expansion happens only when some phase of M is
   unknown even up to case, and then adds every phase of M that is not literally present *)
Definition mix_mat (n : nat) (phs : list string) (rows : list vec) (src : list (string * vec)) : list string * list vec :=
  let sp := map fst src in
  let (phs', rows') := if forallb (knows_phase phs) sp then (phs, rows) else insert_phases sp phs rows (vzero n) in
  (phs', scatter_rows vadd phs' rows' src).
(* MaterialIndexer.copy_like(M), M of the same chemicals *)
Definition copy_mat (n : nat) (phs : list string) (rows : list vec) (src : list (string * vec)) : list string * list vec :=
  let sp := map fst src in
  let (phs', rows') := if phs_eqb phs sp || compatible phs sp then (phs, rows) else insert_phases sp phs rows (vzero n) in
  (phs', scatter_rows (fun _ v => v) phs' (map (fun x => vzero (length x)) rows') src).

Definition step (vr : variant) (c : cfg) (s : state) (o : op) : state * obs :=
  match o with
  | OGet i k =>
      match nth_error (sixs s) i with
      | Some (IC d) =>
          let (cc', r) := chem_lookup (tb c) (scc s) k in
          (mkst cc' (smc s) (sixs s),
           match (do v <- r; let (ci, kd) := v : cval in get_sparse d ci kd) with Ok v => BVal v | Err e => BErr e end)
      | Some (IM phs rows) =>
          let '(cc', mc', r) := mat_lookup vr (tb c) phs (scc s) (mc_get (smc s) phs) k in
          (mkst cc' (mc_set (smc s) phs mc') (sixs s),
           match (do v <- r; mat_get (nchem c) rows v) with Ok v => BVal v | Err e => BErr e end)
      | None => (s, BErr EOther)
      end
  | OSet i k dt =>
      match nth_error (sixs s) i with
      | Some (IC d) =>
          let (cc', r) := chem_lookup (tb c) (scc s) k in
          match r with
          | Ok (ci, kd) =>
              let (d', e) := set_sparse (comps c) d ci kd dt k in
              (mkst cc' (smc s) (upd (sixs s) i (IC d')), BWr e [d'])
          | Err e => (mkst cc' (smc s) (sixs s), BWr (Some e) [d])
          end
      | Some (IM phs rows) =>
          let '(cc', mc', r) := mat_lookup vr (tb c) phs (scc s) (mc_get (smc s) phs) k in
          match r with
          | Ok v =>
              let (rows', e) := mat_set (comps c) rows v dt k in
              (mkst cc' (mc_set (smc s) phs mc') (upd (sixs s) i (IM phs rows')), BWr e rows')
          | Err e => (mkst cc' (mc_set (smc s) phs mc') (sixs s), BWr (Some e) rows)
          end
      | None => (s, BErr EOther)
      end
  | OOverlap cas =>
      let (cc', r) := overlap vr (tb c) (scc s) cas in
      (mkst cc' (smc s) (sixs s), match r with Ok ci => BIdx ci | Err e => BErr e end)
  | OMix i cas vals =>
      match nth_error (sixs s) i with
      | Some (IC d) =>
          let (cc', r) := overlap vr (tb c) (scc s) cas in
          match r with
          | Ok (CMany ts) =>
              if existsb is_grp ts then (mkst cc' (smc s) (sixs s), BWr (Some EOther) [d])
              (* data is cleared (mix_from([]) of the same-package operands), then
                 `data[left_index] += idata[right_index]` = read, add, write back: on a repeated
                 left position the last right entry wins *)
              else let d' := wr_zip (vzero (length d)) (poss ts) vals in
                   (mkst cc' (smc s) (upd (sixs s) i (IC d')), BWr None [d'])
          | Ok _ => (mkst cc' (smc s) (sixs s), BWr (Some EOther) [d])
          | Err e => (mkst cc' (smc s) (sixs s), BWr (Some e) [d])
          end
      | _ => (s, BErr EOther)
      end
  | OIndex k => (s, match get_index (tb c) k with Ok ci => BIdx ci | Err e => BErr e end)
  | OGetMass i k =>
      match nth_error (sixs s) i with
      | Some (IC d) =>
          let (cc', r) := chem_lookup (tb c) (scc s) k in
          (mkst cc' (smc s) (sixs s),
           match (do v <- r; let (ci, kd) := v : cval in get_sparse (to_mass (mws c) d) ci kd) with Ok v => BVal v | Err e => BErr e end)
      | Some (IM phs rows) =>
          let '(cc', mc', r) := mat_lookup vr (tb c) phs (scc s) (mc_get (smc s) phs) k in
          (mkst cc' (mc_set (smc s) phs mc') (sixs s),
           match (do v <- r; mat_get (nchem c) (map (to_mass (mws c)) rows) v) with Ok v => BVal v | Err e => BErr e end)
      | None => (s, BErr EOther)
      end
  | OSetMass i k dt =>
      match nth_error (sixs s) i with
      | Some (IC d) =>
          let (cc', r) := chem_lookup (tb c) (scc s) k in
          match r with
          | Ok (ci, kd) =>
              let (m', e) := set_sparse (wcomps c) (to_mass (mws c) d) ci kd dt k in
              let d' := of_mass (mws c) m' in
              (mkst cc' (smc s) (upd (sixs s) i (IC d')), BWr e [d'])
          | Err e => (mkst cc' (smc s) (sixs s), BWr (Some e) [d])
          end
      | Some (IM phs rows) =>
          let '(cc', mc', r) := mat_lookup vr (tb c) phs (scc s) (mc_get (smc s) phs) k in
          match r with
          | Ok v =>
              let (m', e) := mat_set (wcomps c) (map (to_mass (mws c)) rows) v dt k in
              let rows' := map (of_mass (mws c)) m' in
              (mkst cc' (mc_set (smc s) phs mc') (upd (sixs s) i (IM phs rows')), BWr e rows')
          | Err e => (mkst cc' (mc_set (smc s) phs mc') (sixs s), BWr (Some e) rows)
          end
      | None => (s, BErr EOther)
      end
  | OMixPhase i p v =>
      match nth_error (sixs s) i with
      | Some (IM phs rows) =>
          let '(phs', rows', r) := add_phase_row (nchem c) phs rows p in
          let rows'' := upd rows' r (vadd (nth r rows' []) v) in
          (mkst (scc s) (smc s) (upd (sixs s) i (IM phs' rows'')), BPh phs' rows'')
      | _ => (s, BErr EOther)
      end
  | OCopyPhase i p v =>
      match nth_error (sixs s) i with
      | Some (IM phs rows) =>
          let '(phs', rows', r) := add_phase_row (nchem c) phs (map (fun x => vzero (length x)) rows) p in
          let rows'' := upd rows' r v in
          (mkst (scc s) (smc s) (upd (sixs s) i (IM phs' rows'')), BPh phs' rows'')
      | _ => (s, BErr EOther)
      end
  | OMixMat i src =>
      match nth_error (sixs s) i with
      | Some (IM phs rows) =>
          let (phs', rows') := mix_mat (nchem c) phs rows src in
          (mkst (scc s) (smc s) (upd (sixs s) i (IM phs' rows')), BPh phs' rows')
      | _ => (s, BErr EOther)
      end
  | OCopyMat i src =>
      match nth_error (sixs s) i with
      | Some (IM phs rows) =>
          let (phs', rows') := copy_mat (nchem c) phs rows src in
          (mkst (scc s) (smc s) (upd (sixs s) i (IM phs' rows')), BPh phs' rows')
      | _ => (s, BErr EOther)
      end
  end.

Fixpoint run (vr : variant) (c : cfg) (s : state) (ops : list op) : state * list obs :=
  match ops with
  | [] => (s, [])
  | o :: r => let (s', b) := step vr c s o in let (s'', bs) := run vr c s' r in (s'', b :: bs)
  end.

(* ------------------------------------------------------------------ comparison helpers *)
Definition target_list_eqb := list_eqb target_eqb.
Definition cindex_eqb (a b : cindex) : bool :=
  match a, b with
  | CAll, CAll => true
  | COne x, COne y => target_eqb x y
  | CMany l, CMany m => target_list_eqb l m
  | _, _ => false
  end.
Definition cval_eqb (a b : cval) : bool := cindex_eqb (fst a) (fst b) && kind_eqb (snd a) (snd b).
Definition mindex_eqb (a b : mindex) : bool :=
  match a, b with
  | MChem x, MChem y => cindex_eqb x y
  | MNone, MNone => true
  | MPhase p, MPhase q => Nat.eqb p q
  | MPair p x, MPair q y => opt_eqb Nat.eqb p q && cindex_eqb x y
  | _, _ => false
  end.
Definition mval_eqb (a b : mval) : bool :=
  let '(i, k, s) := a in let '(j, l, t) := b in mindex_eqb i j && kind_eqb k l && Bool.eqb s t.
Definition val_eqb (a b : val) : bool :=
  match a, b with
  | VNum x, VNum y => qapproxb x y
  | VVec x, VVec y => vapproxb x y
  | VMat x, VMat y => list_eqb vapproxb x y
  | _, _ => false
  end.
Definition obs_eqb (a b : obs) : bool :=
  match a, b with
  | BVal x, BVal y => val_eqb x y
  | BErr e, BErr f => err_eqb e f
  | BIdx x, BIdx y => cindex_eqb x y
  | BWr e x, BWr f y => opt_eqb err_eqb e f && list_eqb vapproxb x y
  | BPh p x, BPh q y => phs_eqb p q && list_eqb vapproxb x y
  | _, _ => false
  end.
Definition entry_eqb {A} (eqb : A -> A -> bool) (a b : key * A) : bool :=
  key_eqb (fst a) (fst b) && eqb (snd a) (snd b).
Definition ccache_eqb (a b : ccache) : bool := list_eqb (entry_eqb cval_eqb) a b.
Definition mcache_eqb (a b : mcache) : bool := list_eqb (entry_eqb mval_eqb) a b.

(* table equality as finite maps over a list of probe names *)
Definition table_agrees (t : table) (expect : list (string * target)) (absent : list string) : bool :=
  forallb (fun e => opt_eqb target_eqb (tget t (fst e)) (Some (snd e))) expect
  && forallb (fun s => match tget t s with None => true | Some _ => false end) absent.
Definition comps_agree (cs : list (string * vec)) (expect : list (string * vec)) : bool :=
  forallb (fun e => match sassoc cs (fst e) with Some v => vapproxb v (snd e) | None => false end) expect.

(* the whole case: build the package, run the history, compare everything observed *)
Definition case_eqb (vr : variant) (chems : list chem) (cops : list cop)
           (compile_err : option err) (cop_errs : list (option err))
           (exp_table : list (string * target)) (absent : list string) (exp_comps exp_wcomps : list (string * vec))
           (ixs : list ixr) (ops : list op) (exp_obs : list obs)
           (exp_cc : ccache) (exp_mc : list (list string * mcache)) : bool :=
  match compile chems with
  | Err e => opt_eqb err_eqb (Some e) compile_err
  | Ok c0 =>
      match compile_err with
      | Some _ => false
      | None =>
          let (c, es) := cbuild c0 cops in
          let (s, bs) := run vr c (mkst [] [] ixs) ops in
          list_eqb (opt_eqb err_eqb) es cop_errs
          && table_agrees (tb c) exp_table absent && comps_agree (comps c) exp_comps && comps_agree (wcomps c) exp_wcomps
          && list_eqb obs_eqb bs exp_obs
          && ccache_eqb (scc s) exp_cc
          && forallb (fun pc => mcache_eqb (mc_get (smc s) (fst pc)) (snd pc)) exp_mc
      end
  end.

(* ------------------------------------------------------------------ positional specification
   (what "the corresponding entries of the underlying flow data" means, from the name table alone) *)
Definition tpos (x : target) : list nat := match x with Pos i => [i] | Grp l => l end.

Fixpoint names_targets (t : table) (l : list key) : option (list target) :=
  match l with
  | [] => Some []
  | KStr s :: r => match tget t s, names_targets t r with
                   | Some x, Some xs => Some (x :: xs)
                   | _, _ => None
                   end
  | _ => None
  end.

(* single-phase data *)
Definition spec_chem (t : table) (d : vec) (k : key) : option val :=
  match k with
  | KStr s => match tget t s with Some x => Some (VNum (tsum d x)) | None => None end
  | KEll => Some (VVec d)
  | KTup l | KList l =>
      match names_targets t l with Some xs => Some (VVec (map (tsum d) xs)) | None => None end
  | KObj _ => None
  end.

(* multi-phase data: chemical keys read the phase-summed data; then phase, (phase, key), (..., key) *)
Definition spec_pair (t : table) (phs : list string) (rows : list vec) (p c : key) : option val :=
  match p with
  | KEll =>
      match c with
      | KEll => Some (VMat rows)
      | KStr s => match tget t s with Some x => Some (VVec (map (fun r => tsum r x) rows)) | None => None end
      | KTup l | KList l =>
          match names_targets t l with Some xs => Some (VMat (map (fun r => map (tsum r) xs) rows)) | None => None end
      | KObj _ => None
      end
  | KStr s => if len1 s then match pcall phs s with Ok r => spec_chem t (nth r rows []) c | Err _ => None end else None
  | _ => None
  end.

Definition spec_mat (t : table) (phs : list string) (n : nat) (rows : list vec) (k : key) : option val :=
  match spec_chem t (colsum n rows) k with
  | Some v => Some v
  | None =>
      match k with
      | KStr s => if len1 s then match pcall phs s with Ok r => Some (VVec (nth r rows [])) | Err _ => None end else None
      | KTup [p; c] | KList [p; c] => spec_pair t phs rows p c
      | _ => None
      end
  end.

(* positions a chemical index denotes *)
Definition cpos (n : nat) (ci : cindex) : list nat :=
  match ci with CAll => seq 0 n | COne x => tpos x | CMany xs => flat_targets xs end.

(* the names of the chemicals, as the configuration calls define them *)
Definition chem_names (all : list chem) (c : chem) : list string :=
  cid c :: ccas c :: filter (fun n => negb (repeated all n)) (cnames c).

(* ------------------------------------------------------------------ several property packages
   Every CompiledChemicals object has its own _index_cache, and MaterialIndexer._index_caches is keyed by
   (phases, chemicals): the packages are independent machines.  An indexer belongs to one package at a time;
   reset_chemicals moves it (data re-mapped by CAS number) and, for a MaterialIndexer, re-binds its cache to the one
   registered for (its phases, the NEW chemicals). *)
Definition dflt_cfg : cfg := mkcfg [] [] [] [] 0 [].
Definition dflt_st : state := mkst [] [] [].

Record mstate := mkms {
  mpk : list state;                 (* per package: its caches and the indexers currently on it (moved-away slots stay) *)
  mwhere : list (nat * nat) }.      (* global indexer number -> (package, slot) *)

Definition op_ix (o : op) : option nat :=
  match o with
  | OGet i _ | OSet i _ _ | OMix i _ _ | OGetMass i _ | OSetMass i _ _
  | OMixPhase i _ _ | OCopyPhase i _ _ | OMixMat i _ | OCopyMat i _ => Some i
  | OOverlap _ | OIndex _ => None
  end.
Definition op_at (o : op) (j : nat) : op :=
  match o with
  | OGet _ k => OGet j k | OSet _ k d => OSet j k d | OMix _ c v => OMix j c v
  | OGetMass _ k => OGetMass j k | OSetMass _ k d => OSetMass j k d
  | OMixPhase _ p v => OMixPhase j p v | OCopyPhase _ p v => OCopyPhase j p v
  | OMixMat _ x => OMixMat j x | OCopyMat _ x => OCopyMat j x
  | OOverlap c => OOverlap c | OIndex k => OIndex k
  end.

(* `for CAS, value in zip(old.CASs, old_data): if value: data[new.index(CAS)] = value` *)
Fixpoint remap_row (t' : table) (cas : list string) (row : vec) (acc : vec) : res vec :=
  match cas, row with
  | c :: cr, x :: xr =>
      if qzerob x then remap_row t' cr xr acc
      else match tget t' c with
           | Some (Pos i) => remap_row t' cr xr (wr acc i x)
           | Some (Grp _) => Err EOther
           | None => Err EKey
           end
  | _, _ => Ok acc
  end.

Inductive mop :=
| MOp (o : op)                      (* an operation of the single-package machine; indexers are numbered globally *)
| MOpAt (pk : nat) (o : op)         (* index_overlap / get_index on the chemicals of package pk *)
| MReset (g : nat) (pk : nat).      (* indexer g .reset_chemicals(chemicals of package pk) *)

Definition mstep (vr : variant) (cs : list cfg) (ms : mstate) (o : mop) : mstate * obs :=
  match o with
  | MOp o =>
      match op_ix o with
      | Some g =>
          match nth_error (mwhere ms) g with
          | Some (pk, li) =>
              let (s', b) := step vr (nth pk cs dflt_cfg) (nth pk (mpk ms) dflt_st) (op_at o li) in
              (mkms (upd (mpk ms) pk s') (mwhere ms), b)
          | None => (ms, BErr EOther)
          end
      | None =>
          let (s', b) := step vr (nth O cs dflt_cfg) (nth O (mpk ms) dflt_st) o in
          (mkms (upd (mpk ms) O s') (mwhere ms), b)
      end
  | MOpAt pk o =>
      match op_ix o with
      | Some _ => (ms, BErr EOther)
      | None =>
          let (s', b) := step vr (nth pk cs dflt_cfg) (nth pk (mpk ms) dflt_st) o in
          (mkms (upd (mpk ms) pk s') (mwhere ms), b)
      end
  | MReset g pk' =>
      match nth_error (mwhere ms) g with
      | Some (pk, li) =>
          let c := nth pk cs dflt_cfg in
          let c' := nth pk' cs dflt_cfg in
          let tgt := nth pk' (mpk ms) dflt_st in
          let place (x : ixr) (rows : list vec) :=
            (mkms (upd (mpk ms) pk' (mkst (scc tgt) (smc tgt) (sixs tgt ++ [x])))
                  (upd (mwhere ms) g (pk', length (sixs tgt))), BWr None rows) in
          if Nat.leb (length cs) pk' then (ms, BErr EOther)
          else
          match nth_error (sixs (nth pk (mpk ms) dflt_st)) li with
          | Some (IC d) =>
              match remap_row (tb c') (cass c) d (vzero (nchem c')) with
              | Ok d' => place (IC d') [d']
              | Err e => (ms, BErr e)
              end
          | Some (IM phs rows) =>
              match res_all (map (fun r => remap_row (tb c') (cass c) r (vzero (nchem c'))) rows) with
              | Ok rows' => place (IM phs rows') rows'
              | Err e => (ms, BErr e)
              end
          | None => (ms, BErr EOther)
          end
      | None => (ms, BErr EOther)
      end
  end.

Fixpoint mrun (vr : variant) (cs : list cfg) (ms : mstate) (ops : list mop) : mstate * list obs :=
  match ops with
  | [] => (ms, [])
  | o :: r => let (ms', b) := mstep vr cs ms o in let (ms'', bs) := mrun vr cs ms' r in (ms'', b :: bs)
  end.

(* all indexers start on package 0 *)
Definition minit (npk : nat) (ixs : list ixr) : mstate :=
  mkms (mkst [] [] ixs :: repeat dflt_st (npk - 1)) (map (fun g => (O, g)) (seq 0 (length ixs))).

Definition build_pkg (spec : list chem * list cop) : cfg * list (option err) :=
  match compile (fst spec) with
  | Ok c0 => cbuild c0 (snd spec)
  | Err _ => (dflt_cfg, [])
  end.

(* the whole case with several packages: package 0 is checked in full (table, compositions), the others through
   their configuration-call outcomes and everything observed in the history; final caches of every package *)
Definition mcase_eqb (vr : variant) (chems : list chem) (cops : list cop)
           (compile_err : option err) (cop_errs : list (option err))
           (exp_table : list (string * target)) (absent : list string) (exp_comps exp_wcomps : list (string * vec))
           (others : list (list chem * list cop)) (other_errs : list (list (option err)))
           (ixs : list ixr) (ops : list mop) (exp_obs : list obs)
           (exp_cc : list ccache) (exp_mc : list (nat * (list string * mcache))) : bool :=
  match compile chems with
  | Err e => opt_eqb err_eqb (Some e) compile_err
  | Ok c0 =>
      match compile_err with
      | Some _ => false
      | None =>
          let (c, es) := cbuild c0 cops in
          let built := map build_pkg others in
          let cs := c :: map fst built in
          let (ms, bs) := mrun vr cs (minit (length cs) ixs) ops in
          list_eqb (opt_eqb err_eqb) es cop_errs
          && list_eqb (list_eqb (opt_eqb err_eqb)) (map snd built) other_errs
          && table_agrees (tb c) exp_table absent && comps_agree (comps c) exp_comps && comps_agree (wcomps c) exp_wcomps
          && list_eqb obs_eqb bs exp_obs
          && list_eqb ccache_eqb (map scc (mpk ms)) exp_cc
          && forallb (fun pc => mcache_eqb (mc_get (smc (nth (fst pc) (mpk ms) dflt_st)) (fst (snd pc))) (snd (snd pc))) exp_mc
      end
  end.
