(* C10 -- lemmas about histories in which the caller keeps and re-uses the arrays it handed to define_group *)
From V Require Import Common.NumFacts C10.Model C10.ModelCfg C10.ModelEll C10.ModelBuf.

(* the observations of the flow machine inside a history with caller arrays *)
Fixpoint bproj (l : list bobs) : list hobs :=
  match l with
  | [] => []
  | BH o :: r => o :: bproj r
  | BD e _ :: r => HC e :: bproj r
  | BP _ :: r => bproj r
  end.

Definition is_poke (o : bop) : bool := match o with BPoke _ _ => true | _ => false end.

Lemma estepc_cfg_obs clr vr h o : exists e, snd (estepc clr vr h (EOp (HCfg o))) = HC e.
Proof. simpl. destruct (cstep (hcf h) o) as [c' e]. exists e. reflexivity. Qed.

Lemma brunc_resolve clr vr : forall ops s,
  bh (fst (brunc clr vr s ops)) = fst (erunc clr vr (bh s) (resolve (bbufs s) ops)) /\
  bproj (snd (brunc clr vr s ops)) = snd (erunc clr vr (bh s) (resolve (bbufs s) ops)).
Proof.
  induction ops as [|o r IH]; intros s; [split; reflexivity|].
  destruct o as [o|name ids b len wt|b vals].
  - cbn [brunc bstepc resolve erunc].
    destruct (estepc clr vr (bh s) o) as [h' ob] eqn:E.
    specialize (IH (mkbs h' (bbufs s))). cbn [bh bbufs] in IH.
    destruct (brunc clr vr (mkbs h' (bbufs s)) r) as [s'' bs].
    destruct (erunc clr vr h' (resolve (bbufs s) r)) as [h'' hs].
    cbn [fst snd bproj] in *. destruct IH as [IH1 IH2]. split; congruence.
  - cbn [brunc bstepc resolve].
    destruct (nth_error (bbufs s) b) as [buf|] eqn:Eb.
    + cbn [erunc].
      destruct (estepc_cfg_obs clr vr (bh s) (CGroup name ids (Some (firstn len buf)) wt)) as [e He].
      destruct (estepc clr vr (bh s) (EOp (HCfg (CGroup name ids (Some (firstn len buf)) wt)))) as [h' ob] eqn:E.
      cbn [snd] in He. subst ob.
      specialize (IH (mkbs h' (bbufs s))). cbn [bh bbufs] in IH.
      destruct (brunc clr vr (mkbs h' (bbufs s)) r) as [s'' bs].
      destruct (erunc clr vr h' (resolve (bbufs s) r)) as [h'' hs].
      cbn [fst snd bproj] in *. destruct IH as [IH1 IH2]. split; congruence.
    + specialize (IH s).
      destruct (brunc clr vr s r) as [s'' bs]. cbn [fst snd bproj] in *. exact IH.
  - cbn [brunc bstepc resolve].
    destruct (nth_error (bbufs s) b) as [buf|] eqn:Eb.
    + specialize (IH (mkbs (bh s) (upd (bbufs s) b (poke buf vals)))). cbn [bh bbufs] in IH.
      destruct (brunc clr vr (mkbs (bh s) (upd (bbufs s) b (poke buf vals))) r) as [s'' bs].
      cbn [fst snd bproj] in *. exact IH.
    + specialize (IH s).
      destruct (brunc clr vr s r) as [s'' bs]. cbn [fst snd bproj] in *. exact IH.
Qed.

(* define_group only READS the caller's array *)
Lemma define_keeps_bufs clr vr s name ids b len wt :
  bbufs (fst (bstepc clr vr s (BDefine name ids b len wt))) = bbufs s.
Proof.
  cbn [bstepc]. destruct (nth_error (bbufs s) b) as [buf|]; [|reflexivity].
  destruct (estepc clr vr (bh s) (EOp (HCfg (CGroup name ids (Some (firstn len buf)) wt)))) as [h' ob]. reflexivity.
Qed.

Lemma define_view_obs clr vr s name ids b len wt buf : nth_error (bbufs s) b = Some buf ->
  exists e, snd (bstepc clr vr s (BDefine name ids b len wt)) = BD e (firstn len buf).
Proof.
  intros Hb. cbn [bstepc]. rewrite Hb.
  destruct (estepc clr vr (bh s) (EOp (HCfg (CGroup name ids (Some (firstn len buf)) wt)))) as [h' ob].
  eexists. reflexivity.
Qed.

(* whatever the caller writes into its arrays: table, compositions, caches and data stay as they are *)
Lemma pokes_frame clr vr : forall ops s, forallb is_poke ops = true ->
  bh (fst (brunc clr vr s ops)) = bh s.
Proof.
  induction ops as [|o r IH]; intros s H; [reflexivity|].
  destruct o as [o|name ids b len wt|b vals]; try discriminate H. cbn [forallb is_poke andb] in H.
  cbn [brunc bstepc]. destruct (nth_error (bbufs s) b) as [buf|].
  - specialize (IH (mkbs (bh s) (upd (bbufs s) b (poke buf vals))) H). cbn [bh] in IH.
    destruct (brunc clr vr (mkbs (bh s) (upd (bbufs s) b (poke buf vals))) r) as [s'' bs]. exact IH.
  - specialize (IH s H). destruct (brunc clr vr s r) as [s'' bs]. exact IH.
Qed.

Lemma sassoc_head {A} (t : list (string * A)) n x : sassoc ((n, x) :: t) n = Some x.
Proof. simpl. rewrite String.eqb_refl. reflexivity. Qed.

(* a successful definition stores the composition computed from the values of the view at the time of the call *)
Lemma define_stores c name ids v wt c' : define_group c name ids (Some v) wt = (c', None) ->
  exists idx, let mwi := map (nthq (mws c)) idx in
    sassoc (comps c') name = Some (let cm := if wt then map2 Qdiv v mwi else v in vdivs cm (qsum cm)) /\
    sassoc (wcomps c') name = Some (let cw := if wt then v else vmul v mwi in vdivs cw (qsum cw)).
Proof.
  unfold define_group. intros H.
  destruct (negb (Nat.eqb (length v) (length ids))); [inversion H|].
  destruct (existsb _ ids); [inversion H|].
  destruct (indices (tb c) (map KStr ids)) as [ts|e]; [|inversion H].
  inversion H; subst c'; clear H. exists (poss ts). cbn [comps wcomps]. split; apply sassoc_head.
Qed.
