(* C10 -- value/frame theorems for writes through (..., IDs) and through the mass view *)
From V Require Import Common.NumFacts C10.Model C10.Proofs.

(* ------------------------------------------------------------------ helpers *)
Lemma Forall2_map_r {A B} (P : A -> B -> Prop) (Q : A -> Prop) (f : A -> B) (l : list A) :
  Forall Q l -> (forall a, Q a -> P a (f a)) -> Forall2 P l (map f l).
Proof. induction 1 as [|a l Ha Hl IH]; intros H; simpl; constructor; auto. Qed.

Lemma wr_all_length d idx x : length (wr_all d idx x) = length d.
Proof. rewrite wr_all_zip. apply wr_zip_length. Qed.

(* every write of set_sparse keeps the length of the data *)
Lemma set_nested_num_length cs ts : forall d el x, length (fst (set_nested_num cs d ts el x)) = length d.
Proof.
  induction ts as [|[i|l] ts IH]; intros d el x; simpl; auto.
  - rewrite IH. apply wr_length.
  - destruct (comp_of cs (hd KEll el)); simpl; auto. rewrite IH. apply wr_zip_length.
Qed.
Lemma set_nested_vec_length cs ts : forall d el xs, length (fst (set_nested_vec cs d ts el xs)) = length d.
Proof.
  induction ts as [|t ts IH]; intros d el [|x xs]; simpl; auto.
  destruct t as [i|l].
  - rewrite IH. apply wr_length.
  - destruct (comp_of cs (hd KEll el)); simpl; auto. rewrite IH. apply wr_zip_length.
Qed.

Lemma set_sparse_length cs d ci kd dt k : length (fst (set_sparse cs d ci kd dt k)) = length d.
Proof.
  destruct kd as [[|[|[|[|n]]]]|]; simpl.
  - destruct dt; simpl; auto. destruct ci as [|[i|l]|ts]; simpl; auto. apply wr_length.
  - destruct ci as [|[i|l]|ts]; simpl; auto. destruct dt; simpl; auto.
    + destruct (comp_of cs k); simpl; auto. apply wr_zip_length.
    + apply wr_zip_length.
  - destruct ci as [|t|ts]; simpl; auto. destruct dt; simpl; auto.
    + destruct (qzerob x); simpl; [apply wr_all_length|apply set_nested_num_length].
    + apply set_nested_vec_length.
  - destruct ci as [|t|ts]; simpl; auto. destruct (existsb is_grp ts); simpl; auto.
    destruct dt; simpl; auto; [apply wr_all_length|apply wr_zip_length].
  - reflexivity.
  - unfold reset_sparse. destruct dt; simpl.
    + apply repeat_length.
    + rewrite wr_zip_length. apply repeat_length.
    + apply repeat_length.
Qed.

(* ------------------------------------------------------------------ the mass view: kg = mol * MW, mol = kg / MW *)
Lemma nthq_map2 (f : Q -> Q -> Q) : forall a b i, length a = length b -> (i < length a)%nat ->
  nthq (map2 f a b) i = f (nthq a i) (nthq b i).
Proof.
  induction a as [|x a IH]; intros [|y b] i L H; simpl in *; try discriminate; try lia.
  destruct i; unfold nthq in *; simpl; auto. apply IH; lia.
Qed.
Lemma map2_length_eq {A B C} (f : A -> B -> C) : forall a b, length a = length b -> length (map2 f a b) = length a.
Proof. induction a as [|x a IH]; intros [|y b] L; simpl in *; try discriminate; auto. Qed.
Lemma nthq_beyond (v : vec) i : (length v <= i)%nat -> nthq v i = 0.
Proof. intros H. unfold nthq. apply nth_overflow. exact H. Qed.

Definition mw_ok (mw : vec) : Prop := forall i, (i < length mw)%nat -> ~ nthq mw i == 0.

(* whatever the write does on the mass vector, the molar data afterwards are mass / MW entry by entry, and every entry
   the write left alone on the mass vector is unchanged on the molar data *)
Lemma mass_write_general cs mw d ci kd dt k : length d = length mw -> mw_ok mw ->
  let m := to_mass mw d in
  let m' := fst (set_sparse cs m ci kd dt k) in
  let d' := of_mass mw m' in
  length d' = length d /\
  (forall j, (j < length d)%nat -> nthq d' j == nthq m' j / nthq mw j) /\
  (forall j, nthq m' j = nthq m j -> nthq d' j == nthq d j).
Proof.
  intros L OK m m' d'.
  assert (Lm : length m = length d) by (unfold m, to_mass, vmul; apply map2_length_eq; exact L).
  assert (Lm' : length m' = length mw) by (unfold m'; rewrite set_sparse_length; congruence).
  assert (Ld' : length d' = length d) by (unfold d', of_mass; rewrite map2_length_eq; congruence).
  split; [exact Ld'|]. split.
  - intros j Hj. unfold d', of_mass. rewrite nthq_map2 by (try exact Lm'; lia). reflexivity.
  - intros j E. destruct (Nat.lt_ge_cases j (length d)) as [Hj|Hj].
    + unfold d', of_mass. rewrite nthq_map2 by (try exact Lm'; lia). rewrite E.
      unfold m, to_mass, vmul. rewrite nthq_map2 by (try exact L; lia).
      field. apply OK. lia.
    + rewrite (nthq_beyond d' j) by lia. rewrite (nthq_beyond d j) by lia. reflexivity.
Qed.

(* by_mass()[name] = x : that chemical holds x / MW mol, nothing else moves *)
Lemma mass_set_name_lemma cs mw d i x : length d = length mw -> mw_ok mw -> (i < length d)%nat ->
  let d' := of_mass mw (fst (set_sparse cs (to_mass mw d) (COne (Pos i)) (Some 0%nat) (DNum x) (KStr ""))) in
  snd (set_sparse cs (to_mass mw d) (COne (Pos i)) (Some 0%nat) (DNum x) (KStr "")) = None /\
  length d' = length d /\ nthq d' i == x / nthq mw i /\ forall j, j <> i -> nthq d' j == nthq d j.
Proof.
  intros L OK Hi d'.
  destruct (mass_write_general cs mw d (COne (Pos i)) (Some 0%nat) (DNum x) (KStr "") L OK) as (Ld & V & F).
  assert (Lm : length (to_mass mw d) = length d) by (unfold to_mass, vmul; apply map2_length_eq; exact L).
  split; [reflexivity|]. split; [exact Ld|]. split.
  - unfold d'. rewrite (V i Hi). simpl. unfold wr. rewrite nth_upd_same by lia. reflexivity.
  - intros j Hj. apply F. simpl. apply nth_upd_other. congruence.
Qed.

(* by_mass()[ID, ID, ...] = [x, ...] : entry by entry x / MW; the frame *)
Lemma mass_set_list_lemma cs mw d xs v k : length d = length mw -> mw_ok mw ->
  existsb is_grp xs = false -> NoDup (poss xs) -> length (poss xs) = length v ->
  Forall (fun i => (i < length d)%nat) (poss xs) ->
  let r := set_sparse cs (to_mass mw d) (CMany xs) (Some 3%nat) (DVec v) k in
  let d' := of_mass mw (fst r) in
  snd r = None /\ length d' = length d /\
  Forall2 (fun i x => nthq d' i == x / nthq mw i) (poss xs) v /\
  forall j, ~ In j (poss xs) -> nthq d' j == nthq d j.
Proof.
  intros L OK G ND Lv F r d'.
  destruct (mass_write_general cs mw d (CMany xs) (Some 3%nat) (DVec v) k L OK) as (Ld & V & Fr).
  assert (Lm : length (to_mass mw d) = length d) by (unfold to_mass, vmul; apply map2_length_eq; exact L).
  assert (F' : Forall (fun i => (i < length (to_mass mw d))%nat) (poss xs)) by (rewrite Lm; exact F).
  destruct (set_sparse cs (to_mass mw d) (CMany xs) (Some 3%nat) (DVec v) k) as [m' e] eqn:E.
  destruct (set_get_list_lemma cs _ xs v k m' e G ND Lv F' E) as (E1 & E2 & E3 & E4).
  subst r d'. simpl in *. split; [exact E1|]. split; [exact Ld|]. split.
  - clear Fr E4 ND. rewrite <- E3. clear E3 Lv E.
    induction F as [|i l Hi Hl IH]; simpl; constructor.
    + apply V. exact Hi.
    + apply IH. inversion F'; auto.
  - intros j Hj. apply Fr. apply E4. exact Hj.
Qed.

(* by_mass()[group] = x : member j holds x * wt_composition_j / MW mol *)
Lemma mass_group_scalar_lemma cs mw d l x s c : length d = length mw -> mw_ok mw ->
  sassoc cs s = Some c -> NoDup l -> length l = length c -> Forall (fun i => (i < length d)%nat) l ->
  let r := set_sparse cs (to_mass mw d) (COne (Grp l)) (Some 1%nat) (DNum x) (KStr s) in
  let d' := of_mass mw (fst r) in
  snd r = None /\ length d' = length d /\
  (forall j, (j < length l)%nat -> nthq d' (nth j l O) == x * nthq c j / nthq mw (nth j l O)) /\
  forall j, ~ In j l -> nthq d' j == nthq d j.
Proof.
  intros L OK Hc ND Lc F r d'.
  destruct (mass_write_general cs mw d (COne (Grp l)) (Some 1%nat) (DNum x) (KStr s) L OK) as (Ld & V & Fr).
  assert (Lm : length (to_mass mw d) = length d) by (unfold to_mass, vmul; apply map2_length_eq; exact L).
  assert (F' : Forall (fun i => (i < length (to_mass mw d))%nat) l) by (rewrite Lm; exact F).
  destruct (set_sparse cs (to_mass mw d) (COne (Grp l)) (Some 1%nat) (DNum x) (KStr s)) as [m' e] eqn:E.
  destruct (group_scalar_lemma cs _ l x s c m' e Hc ND Lc F' E) as (E1 & E2 & E3 & _ & E5).
  subst r d'. simpl in *. split; [exact E1|]. split; [exact Ld|]. split.
  - intros j Hj.
    assert (Hi : (nth j l O < length d)%nat).
    { rewrite Forall_forall in F. apply F. apply nth_In. exact Hj. }
    rewrite (V _ Hi). rewrite (E3 j Hj). reflexivity.
  - intros j Hj. apply Fr. apply E5. exact Hj.
Qed.

(* the multi-phase mass view, (phase, key): the other rows are unchanged (up to ==), the row is the single-phase write *)
Lemma of_to_mass mw r : length r = length mw -> mw_ok mw -> forall j, nthq (of_mass mw (to_mass mw r)) j == nthq r j.
Proof.
  intros L OK j.
  assert (Lm : length (to_mass mw r) = length r) by (unfold to_mass, vmul; apply map2_length_eq; exact L).
  destruct (Nat.lt_ge_cases j (length r)) as [Hj|Hj].
  - unfold of_mass. rewrite nthq_map2 by (try lia; congruence).
    unfold to_mass, vmul. rewrite nthq_map2 by (try lia; congruence). field. apply OK. lia.
  - rewrite (nthq_beyond r j) by lia.
    rewrite (nthq_beyond (of_mass mw (to_mass mw r)) j) by (unfold of_mass; rewrite map2_length_eq; lia).
    reflexivity.
Qed.

Lemma nth_map_rows {A} (f : vec -> A) (rows : list vec) q (dA : A) : (q < length rows)%nat ->
  nth q (map f rows) dA = f (nth q rows []).
Proof. revert q; induction rows as [|a l IH]; intros [|q] H; simpl in *; try lia; auto. apply IH. lia. Qed.

Lemma mass_set_row_frame_lemma cs mw rows p ci kd dt k m' e :
  Forall (fun r => length r = length mw) rows -> mw_ok mw -> (p < length rows)%nat ->
  mat_set cs (map (to_mass mw) rows) (MPair (Some p) ci, Some kd, false) dt k = (m', e) ->
  let rows' := map (of_mass mw) m' in
  length rows' = length rows /\
  nth p rows' [] = of_mass mw (fst (set_sparse cs (to_mass mw (nth p rows [])) ci (Some kd) dt (second k))) /\
  e = snd (set_sparse cs (to_mass mw (nth p rows [])) ci (Some kd) dt (second k)) /\
  forall q, q <> p -> (q < length rows)%nat -> forall j, nthq (nth q rows' []) j == nthq (nth q rows []) j.
Proof.
  intros FL OK Hp H rows'.
  destruct (mat_set_row _ _ _ _ _ _ _ _ _ H) as [H1 H2].
  assert (Np : nth p (map (to_mass mw) rows) [] = to_mass mw (nth p rows [])) by (apply nth_map_rows; exact Hp).
  rewrite Np in H1, H2.
  assert (Lm : length m' = length rows) by (rewrite H1, upd_length, map_length; reflexivity).
  split; [unfold rows'; rewrite map_length; exact Lm|]. split; [|split; [exact H2|]].
  - unfold rows'. rewrite nth_map_rows by lia. rewrite H1.
    assert (U : forall (l : list vec) p x, (p < length l)%nat -> nth p (upd l p x) [] = x).
    { induction l as [|a l IH]; intros [|p0] x0 Hl; simpl in *; try lia; auto. apply IH. lia. }
    rewrite U by (rewrite map_length; exact Hp). reflexivity.
  - intros q Hq Hql j. unfold rows'. rewrite nth_map_rows by lia. rewrite H1.
    rewrite upd_rows_other by exact Hq. rewrite nth_map_rows by exact Hql.
    apply of_to_mass; auto. rewrite Forall_forall in FL. apply FL. apply nth_In. exact Hql.
Qed.

(* ------------------------------------------------------------------ writes through (..., IDs): every row *)
(* the key form: (..., x) with x a chemical key of kind 0..3 is classified as the pair (None, chemical index) *)
Lemma classify_ell_pair t phs x ci kn : hashable x = true -> classify_chem t x = Ok (ci, Some kn) ->
  classify_mat_h fixed t phs (KTup [KEll; x]) = Ok (MPair None ci, Some kn, false).
Proof.
  intros Hx C. unfold classify_mat_h.
  assert (EK : classify_chem t (KTup [KEll; x]) = Err EKey) by (unfold classify_chem; simpl; rewrite Hx; reflexivity).
  rewrite EK. rewrite phase_part_pure_pair. simpl. rewrite C. reflexivity.
Qed.

Definition row_ok (i : nat) (r : vec) : Prop := (i < length r)%nat.

(* (..., name) = x : every row holds x at the chemical's position, nothing else moves, no row appears or disappears *)
Lemma ell_set_name_lemma cs rows i x k rows' e : Forall (row_ok i) rows ->
  mat_set cs rows (MPair None (COne (Pos i)), Some 0%nat, false) (DNum x) k = (rows', e) ->
  e = None /\
  Forall2 (fun r r' => length r' = length r /\ nthq r' i = x /\ forall j, j <> i -> nthq r' j = nthq r j) rows rows'.
Proof.
  intros F H. simpl in H. inversion H; subst. split; auto.
  apply (Forall2_map_r _ (row_ok i)); auto. intros r Hr. repeat split.
  - apply wr_length.
  - unfold wr. apply nth_upd_same. exact Hr.
  - intros j Hj. apply nth_upd_other. congruence.
Qed.

Definition rows_ok (idx : list nat) (r : vec) : Prop := Forall (fun i => (i < length r)%nat) idx.

(* (..., (ID, ID, ...)) = [x, ...] : every row holds the vector at the listed positions *)
Lemma ell_set_list_lemma cs rows ts v k rows' e :
  existsb is_grp ts = false -> NoDup (poss ts) -> length (poss ts) = length v -> Forall (rows_ok (poss ts)) rows ->
  mat_set cs rows (MPair None (CMany ts), Some 3%nat, false) (DVec v) k = (rows', e) ->
  e = None /\
  Forall2 (fun r r' => length r' = length r /\ map (nthq r') (poss ts) = v /\
                       forall j, ~ In j (poss ts) -> nthq r' j = nthq r j) rows rows'.
Proof.
  intros G ND L F H. simpl in H. rewrite G in H. inversion H; subst. split; auto.
  apply (Forall2_map_r _ (rows_ok (poss ts))); auto. intros r Hr. repeat split.
  - apply wr_zip_length.
  - apply wr_zip_same; auto.
  - intros j Hj. apply wr_zip_other. exact Hj.
Qed.

(* ... = x : the scalar is broadcast to the listed positions of every row *)
Lemma ell_set_list_scalar_lemma cs rows ts x k rows' e :
  existsb is_grp ts = false -> NoDup (poss ts) -> Forall (rows_ok (poss ts)) rows ->
  mat_set cs rows (MPair None (CMany ts), Some 3%nat, false) (DNum x) k = (rows', e) ->
  e = None /\
  Forall2 (fun r r' => length r' = length r /\ map (nthq r') (poss ts) = repeat x (length (poss ts)) /\
                       forall j, ~ In j (poss ts) -> nthq r' j = nthq r j) rows rows'.
Proof.
  intros G ND F H. simpl in H. rewrite G in H. inversion H; subst. split; auto.
  apply (Forall2_map_r _ (rows_ok (poss ts))); auto. intros r Hr. rewrite wr_all_zip. repeat split.
  - apply wr_zip_length.
  - apply wr_zip_same; auto. rewrite repeat_length. reflexivity.
  - intros j Hj. apply wr_zip_other. exact Hj.
Qed.

(* (..., group) = x : in every row the scalar is distributed by the group's composition *)
Lemma ell_group_scalar_lemma cs rows l x s c rows' e p :
  sassoc cs s = Some c -> NoDup l -> length l = length c -> Forall (rows_ok l) rows ->
  mat_set cs rows (MPair None (COne (Grp l)), Some 1%nat, false) (DNum x) (KTup [p; KStr s]) = (rows', e) ->
  e = None /\
  Forall2 (fun r r' => length r' = length r /\
                       (forall j, (j < length l)%nat -> nthq r' (nth j l O) == x * nthq c j) /\
                       forall j, ~ In j l -> nthq r' j = nthq r j) rows rows'.
Proof.
  intros Hc ND L F H. unfold mat_set in H. cbn [second key_elems comp_of] in H.
  change (@sassoc (list Q) cs s) with (@sassoc vec cs s) in Hc. rewrite Hc in H. inversion H; subst. split; auto.
  apply (Forall2_map_r _ (rows_ok l)); auto. intros r Hr.
  destruct (group_scalar_lemma cs r l x s c (wr_zip r l (vscale x c)) None Hc ND L Hr) as (_ & E2 & E3 & _ & E5).
  { unfold set_sparse, comp_of. change (@sassoc (list Q) cs s) with (@sassoc vec cs s). rewrite Hc. reflexivity. }
  repeat split; auto.
Qed.

(* (..., tuple mixing chemicals and groups) = [x, ...] *)
Lemma map_rows_ok (f : vec -> vec * option err) rows : Forall (fun r => snd (f r) = None) rows ->
  map_rows f rows = (map (fun r => fst (f r)) rows, None).
Proof.
  induction 1 as [|r l Hr Hl IH]; simpl; auto.
  destruct (f r) as [r' [e|]] eqn:E; simpl in Hr; [discriminate|]. rewrite IH. reflexivity.
Qed.

Lemma ell_set_nested_lemma cs rows ts v k rows' e p ids :
  k = KTup [p; ids] ->
  nested_ok cs ts (key_elems ids) -> length v = length ts -> NoDup (flat_targets ts) ->
  Forall (rows_ok (flat_targets ts)) rows ->
  mat_set cs rows (MPair None (CMany ts), Some 2%nat, false) (DVec v) k = (rows', e) ->
  e = None /\
  Forall2 (fun r r' => length r' = length r /\ Forall2 (fun t x => tsum r' t == x) ts v /\
                       forall j, ~ In j (flat_targets ts) -> nthq r' j = nthq r j) rows rows'.
Proof.
  intros Hk Hok L ND F H. subst k. unfold mat_set in H. cbn [second key_elems] in H.
  assert (S : Forall (fun r => snd (set_nested_vec cs r ts (key_elems ids) v) = None) rows).
  { rewrite Forall_forall in *. intros r Hr.
    destruct (set_nested_vec_spec cs ts _ Hok v r L ND (F r Hr)) as (d' & E & _). rewrite E. reflexivity. }
  rewrite (map_rows_ok _ rows S) in H. inversion H; subst. split; auto.
  apply (Forall2_map_r _ (rows_ok (flat_targets ts))); auto. intros r Hr.
  destruct (set_nested_vec_spec cs ts _ Hok v r L ND Hr) as (d' & E & Ld & Fr & R). rewrite E. simpl. auto.
Qed.

(* ------------------------------------------------------------------ the same after ANY history *)
Definition write_chem_mass (c : cfg) (d : vec) (k : key) (dt : data) : vec * option err :=
  match classify_chem (tb c) k with
  | Ok (ci, kd) => let (m', e) := set_sparse (wcomps c) (to_mass (mws c) d) ci kd dt k in (of_mass (mws c) m', e)
  | Err e => (d, Some e)
  end.
Definition write_mat_mass (c : cfg) (phs : list string) (rows : list vec) (k : key) (dt : data) : list vec * option err :=
  match classify_mat fixed (tb c) phs k with
  | Ok v => let (m', e) := mat_set (wcomps c) (map (to_mass (mws c)) rows) v dt k in (map (of_mass (mws c)) m', e)
  | Err e => (rows, Some e)
  end.

Lemma mass_write_after_history c ixs hist i k dt :
  snd (step fixed c (after c ixs hist) (OSetMass i k dt)) =
  match nth_error (sixs (after c ixs hist)) i with
  | Some (IC d) => let (d', e) := write_chem_mass c d k dt in BWr e [d']
  | Some (IM phs rows) => let (r', e) := write_mat_mass c phs rows k dt in BWr e r'
  | None => BErr EOther
  end.
Proof.
  destruct (after_coh c ixs hist) as [Hc Hm]. set (s := after c ixs hist) in *. simpl.
  destruct (nth_error (sixs s) i) as [[d|phs rows]|]; simpl; auto.
  - destruct (chem_lookup_spec (tb c) (scc s) k Hc) as [_ C2].
    destruct (chem_lookup (tb c) (scc s) k) as [cc' r]. simpl in *. subst r.
    unfold write_chem_mass. destruct (classify_chem (tb c) k) as [[ci kd]|e]; simpl; auto.
    destruct (set_sparse (wcomps c) (to_mass (mws c) d) ci kd dt k). reflexivity.
  - destruct (mat_lookup_spec (tb c) phs (scc s) (mc_get (smc s) phs) k Hc (Hm phs)) as (_ & _ & M3).
    destruct (mat_lookup fixed (tb c) phs (scc s) (mc_get (smc s) phs) k) as [[cc' mc'] r]. simpl in *. subst r.
    unfold write_mat_mass. destruct (classify_mat fixed (tb c) phs k) as [v|e]; simpl; auto.
    destruct (mat_set (wcomps c) (map (to_mass (mws c)) rows) v dt k). reflexivity.
Qed.

(* indexer[..., name] = x after any history: no error; every row holds x at the chemical's position; all else unchanged *)
Lemma ell_write_name_after_history c ixs hist i phs rows s pos x :
  nth_error (sixs (after c ixs hist)) i = Some (IM phs rows) ->
  tget (tb c) s = Some (Pos pos) -> Forall (row_ok pos) rows ->
  exists rows', snd (step fixed c (after c ixs hist) (OSet i (KTup [KEll; KStr s]) (DNum x))) = BWr None rows' /\
    Forall2 (fun r r' => length r' = length r /\ nthq r' pos = x /\ forall j, j <> pos -> nthq r' j = nthq r j) rows rows'.
Proof.
  intros Hi Ht F. rewrite write_after_history, Hi. unfold write_mat, classify_mat.
  change (mat_key (KTup [KEll; KStr s])) with (Some (KTup [KEll; KStr s])). cbv iota beta.
  assert (C : classify_chem (tb c) (KStr s) = Ok (COne (Pos pos), Some 0%nat)) by (unfold classify_chem; simpl; rewrite Ht; reflexivity).
  rewrite (classify_ell_pair (tb c) phs (KStr s) _ _ eq_refl C).
  destruct (mat_set (comps c) rows (MPair None (COne (Pos pos)), Some 0%nat, false) (DNum x) (KTup [KEll; KStr s])) as [rows' e] eqn:E.
  destruct (ell_set_name_lemma _ _ _ _ _ _ _ F E) as [E1 E2]. subst e. exists rows'. auto.
Qed.

(* indexer.by_mass()[name] = x after any history, single-phase data: no error; the chemical holds x / MW; all else == *)
Lemma mass_write_name_after_history c ixs hist i d s pos x :
  nth_error (sixs (after c ixs hist)) i = Some (IC d) ->
  tget (tb c) s = Some (Pos pos) -> length d = length (mws c) -> mw_ok (mws c) -> (pos < length d)%nat ->
  exists d', snd (step fixed c (after c ixs hist) (OSetMass i (KStr s) (DNum x))) = BWr None [d'] /\
    length d' = length d /\ nthq d' pos == x / nthq (mws c) pos /\ forall j, j <> pos -> nthq d' j == nthq d j.
Proof.
  intros Hi Ht L OK Hp. rewrite mass_write_after_history, Hi. unfold write_chem_mass.
  assert (C : classify_chem (tb c) (KStr s) = Ok (COne (Pos pos), Some 0%nat)) by (unfold classify_chem; simpl; rewrite Ht; reflexivity).
  rewrite C.
  destruct (mass_set_name_lemma (wcomps c) (mws c) d pos x L OK Hp) as (E1 & E2 & E3 & E4).
  assert (SK : set_sparse (wcomps c) (to_mass (mws c) d) (COne (Pos pos)) (Some 0%nat) (DNum x) (KStr s)
             = set_sparse (wcomps c) (to_mass (mws c) d) (COne (Pos pos)) (Some 0%nat) (DNum x) (KStr "")) by reflexivity.
  rewrite SK.
  destruct (set_sparse (wcomps c) (to_mass (mws c) d) (COne (Pos pos)) (Some 0%nat) (DNum x) (KStr "")) as [m' e].
  simpl in *. subst e. eexists. split; [reflexivity|]. auto.
Qed.

(* ------------------------------------------------------------------ re-basing (reset_chemicals) carries every flow to the
   position its CAS number has in the new package *)
Lemma nthq_vzero n i : nthq (vzero n) i = 0.
Proof. unfold nthq, vzero. revert i; induction n as [|n IH]; intros [|i]; simpl; auto. Qed.

Lemma remap_row_gen t' : forall cas ps row acc,
  Forall2 (fun c i => tget t' c = Some (Pos i)) cas ps -> NoDup ps ->
  Forall (fun i => (i < length acc)%nat) ps -> length row = length cas ->
  exists d', remap_row t' cas row acc = Ok d' /\ length d' = length acc /\
    (forall j, (j < length ps)%nat ->
       nthq d' (nth j ps O) = if qzerob (nthq row j) then nthq acc (nth j ps O) else nthq row j) /\
    (forall i, ~ In i ps -> nthq d' i = nthq acc i).
Proof.
  intros cas ps row acc F; revert row acc.
  induction F as [|c p cas ps Hc F IH]; intros row acc ND FA L.
  - destruct row; [|discriminate]. exists acc. simpl. repeat split; auto. intros j Hj. simpl in Hj. lia.
  - destruct row as [|x row]; [discriminate|]. simpl in L. simpl.
    inversion ND as [|? ? Hn ND']; subst. inversion FA as [|? ? Fp FA']; subst.
    destruct (qzerob x) eqn:Z.
    + destruct (IH row acc ND' FA' ltac:(lia)) as (d' & E & Ld & V & Fr).
      exists d'. rewrite E. split; [reflexivity|]. split; [exact Ld|]. split.
      * intros [|j] Hj; simpl in *.
        -- unfold nthq at 2. simpl. rewrite Z. apply Fr. exact Hn.
        -- unfold nthq at 2 4. simpl. apply V. lia.
      * intros i Hi. apply Fr. intros C. apply Hi. right. exact C.
    + rewrite Hc.
      destruct (IH row (wr acc p x) ND') as (d' & E & Ld & V & Fr).
      { rewrite wr_length. exact FA'. } { lia. }
      exists d'. rewrite E. split; [reflexivity|]. split; [rewrite Ld; apply wr_length|]. split.
      * intros [|j] Hj; simpl in *.
        -- unfold nthq at 2. simpl. rewrite Z. rewrite Fr by exact Hn. unfold wr. apply nth_upd_same. exact Fp.
        -- unfold nthq at 2 4. simpl. rewrite V by lia.
           assert (NE : nth j ps O <> p) by (intros C; apply Hn; rewrite <- C; apply nth_In; lia).
           unfold wr. rewrite nth_upd_other by congruence. reflexivity.
      * intros i Hi. rewrite Fr by (intros C; apply Hi; right; exact C).
        unfold wr. apply nth_upd_other. intros C. apply Hi. left. exact C.
Qed.

Lemma remap_row_spec t' cas ps row n :
  Forall2 (fun c i => tget t' c = Some (Pos i)) cas ps -> NoDup ps ->
  Forall (fun i => (i < n)%nat) ps -> length row = length cas ->
  exists d', remap_row t' cas row (vzero n) = Ok d' /\ length d' = n /\
    (forall j, (j < length ps)%nat -> nthq d' (nth j ps O) == nthq row j) /\
    (forall i, ~ In i ps -> nthq d' i = 0).
Proof.
  intros F ND FA L.
  assert (Lz : length (vzero n) = n) by apply repeat_length.
  destruct (remap_row_gen t' cas ps row (vzero n) F ND) as (d' & E & Ld & V & Fr); auto.
  { rewrite Lz. exact FA. }
  exists d'. rewrite E. repeat split; try congruence.
  - intros j Hj. rewrite (V j Hj). destruct (qzerob (nthq row j)) eqn:Z; [|reflexivity].
    rewrite nthq_vzero. apply qzerob_true in Z. symmetry. exact Z.
  - intros i Hi. rewrite (Fr i Hi). apply nthq_vzero.
Qed.

(* ------------------------------------------------------------------ gaining a phase keeps every row under its phase label *)
Fixpoint index_of (q : string) (l : list string) : option nat :=
  match l with
  | [] => None
  | x :: r => if String.eqb q x then Some O else option_map S (index_of q r)
  end.
Definition row_of (phs : list string) (rows : list vec) (q : string) : vec :=
  match index_of q phs with Some i => nth i rows [] | None => [] end.

Lemma index_of_in q l : In q l -> exists i, index_of q l = Some i.
Proof.
  induction l as [|x r IH]; simpl; intros H; [destruct H|].
  destruct (String.eqb q x) eqn:E; [eauto|].
  destruct H as [H|H]; [subst; rewrite String.eqb_refl in E; discriminate|].
  destruct (IH H) as [i Hi]. rewrite Hi. simpl. eauto.
Qed.
Lemma index_of_none q l : ~ In q l -> index_of q l = None.
Proof.
  induction l as [|x r IH]; simpl; intros H; auto.
  destruct (String.eqb q x) eqn:E.
  - apply String.eqb_eq in E. subst. exfalso. apply H. left. reflexivity.
  - rewrite IH; auto.
Qed.

Lemma sassoc_enum q : forall l k, sassoc (enum_from k l) q = option_map (Nat.add k) (index_of q l).
Proof.
  induction l as [|x r IH]; intros k; simpl; auto.
  destruct (String.eqb q x); simpl; [f_equal; lia|].
  rewrite IH. destruct (index_of q r); simpl; auto; try (f_equal; lia).
Qed.

Lemma sassoc_app_l {A} (a b : list (string * A)) q v : sassoc a q = Some v -> sassoc (a ++ b) q = Some v.
Proof.
  induction a as [|[n x] r IH]; simpl; intros H; [discriminate|].
  destruct (String.eqb q n); auto.
Qed.

(* an exact phase letter is found at its position *)
Lemma pcall_exact phs q i : index_of q phs = Some i -> pcall phs q = Ok i.
Proof.
  intros H. unfold pcall, pindex.
  assert (B : sassoc (enum_from 0 phs) q = Some i) by (rewrite sassoc_enum, H; reflexivity).
  assert (K : forall l acc, sassoc acc q = Some i ->
            sassoc (fold_left (fun idx pn => let sw := swapcase (fst pn) in
                                 match sassoc idx sw with Some _ => idx | None => idx ++ [(sw, snd pn)] end) l acc) q = Some i).
  { induction l as [|x l IHl]; intros acc Ha; simpl; auto. apply IHl.
    destruct (sassoc acc (swapcase (fst x))); auto. apply sassoc_app_l. exact Ha. }
  rewrite (K _ _ B). reflexivity.
Qed.

Lemma insert_phase_rows p z : forall phs rows, length phs = length rows -> ~ In p phs ->
  let r := insert_phase p phs rows z in
  length (fst r) = length (snd r) /\ row_of (fst r) (snd r) p = z /\
  (forall q, In q phs -> row_of (fst r) (snd r) q = row_of phs rows q) /\
  (forall q, In q (fst r) <-> q = p \/ In q phs).
Proof.
  induction phs as [|x phs IH]; intros [|w rows] L Hn; simpl in *; try discriminate.
  - unfold row_of. simpl. rewrite String.eqb_refl. repeat split; auto; try (intros q []); intuition.
  - assert (Hpx : String.eqb p x = false).
    { destruct (String.eqb p x) eqn:E; auto. apply String.eqb_eq in E. subst. exfalso. apply Hn. left. reflexivity. }
    destruct (String.ltb p x).
    + simpl. unfold row_of. simpl. rewrite String.eqb_refl. repeat split; auto.
      * intros q Hq. assert (Hqp : String.eqb q p = false).
        { destruct (String.eqb q p) eqn:E; auto. apply String.eqb_eq in E. subst. contradiction. }
        rewrite Hqp. destruct (String.eqb q x); simpl; auto.
        destruct (index_of q phs); simpl; auto.
      * intros [H|H]; auto.
      * intros [H|H]; [left; auto|right; exact H].
    + destruct (IH rows ltac:(lia) ltac:(intros C; apply Hn; right; exact C)) as (I1 & I2 & I3 & I4).
      destruct (insert_phase p phs rows z) as [a b]. simpl in *. repeat split.
      * lia.
      * unfold row_of in *. simpl. rewrite Hpx. destruct (index_of p a); simpl in *; auto.
      * intros q Hq. unfold row_of in *. simpl. destruct (String.eqb q x) eqn:E; auto.
        destruct Hq as [Hq|Hq]; [subst; rewrite String.eqb_refl in E; discriminate|].
        specialize (I3 q Hq). destruct (index_of q a), (index_of q phs); simpl in *; auto.
      * intros [H|H]; [right; left; exact H|]. apply I4 in H. destruct H; [left; auto|right; right; auto].
      * intros [H|[H|H]]; [right; apply I4; left; exact H|left; exact H|right; apply I4; right; exact H].
Qed.

(* X.mix_from([X, <material in a phase X lacks even up to case>]): X has the old rows under the old labels and the
   incoming material under the new label; nothing else *)
Lemma mix_phase_new_lemma n phs rows p v phs' rows' r :
  length phs = length rows -> NoDup phs -> ~ In p phs -> pcall phs p = Err EUndefPhase ->
  add_phase_row n phs rows p = (phs', rows', r) ->
  let rows'' := upd rows' r (vadd (nth r rows' []) v) in
  length phs' = length rows'' /\
  row_of phs' rows'' p = vadd (vzero n) v /\
  (forall q, In q phs -> row_of phs' rows'' q = row_of phs rows q) /\
  (forall q, In q phs' <-> q = p \/ In q phs).
Proof.
  intros L ND Hn Hp H rows''. unfold add_phase_row in H. rewrite Hp in H.
  destruct (insert_phase_rows p (vzero n) phs rows L Hn) as (I1 & I2 & I3 & I4).
  destruct (insert_phase p phs rows (vzero n)) as [a b]. simpl in *.
  destruct (index_of_in p a (proj2 (I4 p) (or_introl eq_refl))) as [i Hi].
  rewrite (pcall_exact a p i Hi) in H. inversion H; subst phs' rows' r. clear H.
  assert (Li : (i < length b)%nat).
  { rewrite <- I1. clear -Hi. revert i Hi; induction a as [|x a IH]; simpl; intros i Hi; [discriminate|].
    destruct (String.eqb p x); [inversion Hi; lia|].
    destruct (index_of p a) as [k0|]; simpl in Hi; [|discriminate]. inversion Hi. specialize (IH k0 eq_refl). lia. }
  assert (U : forall (l : list vec) k x, (k < length l)%nat -> nth k (upd l k x) [] = x).
  { induction l as [|y l IHl]; intros [|k] x Hl; simpl in *; try lia; auto. apply IHl. lia. }
  unfold rows''. repeat split.
  - rewrite upd_length. exact I1.
  - unfold row_of in *. rewrite Hi in *. rewrite U by exact Li. rewrite I2. reflexivity.
  - intros q Hq. rewrite <- (I3 q Hq). unfold row_of.
    destruct (index_of q a) as [j|] eqn:Hj; auto.
    apply upd_rows_other. intros C. subst j.
    (* two labels at one position: the labels are equal *)
    assert (INJ : forall l s1 s2 k, index_of s1 l = Some k -> index_of s2 l = Some k -> s1 = s2).
    { induction l as [|x l IHl]; simpl; intros s1 s2 k H1 H2; [discriminate|].
      destruct (String.eqb s1 x) eqn:E1, (String.eqb s2 x) eqn:E2.
      - apply String.eqb_eq in E1. apply String.eqb_eq in E2. congruence.
      - inversion H1; subst. destruct (index_of s2 l); discriminate.
      - inversion H2; subst. destruct (index_of s1 l); discriminate.
      - destruct (index_of s1 l) as [a1|] eqn:F1; simpl in H1; [|discriminate].
        destruct (index_of s2 l) as [a2|] eqn:F2; simpl in H2; [|discriminate].
        inversion H1; inversion H2; subst. apply (IHl s1 s2 a1); congruence. }
    apply Hn. rewrite <- (INJ a q p i Hj Hi). exact Hq.
  - apply I4.
  - apply I4.
Qed.
