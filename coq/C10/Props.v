(* C10 -- property theorems only.  Each is closed by [exact <lemma>] (or a two-line combination of
   lemmas) and followed by Print Assumptions.  All theorems are about the [fixed] variant of the
   model (the code with pending_fixes C10_1..3 applied); the Examples at the end exhibit, inside
   Coq, how the [asis] variant (the code as first found) violates the same statements. *)
From V Require Import Common.NumFacts C10.Model C10.ModelCfg C10.ModelEll C10.Proofs C10.ProofsDeep C10.ProofsCfg C10.ProofsEll C10.ModelBuf C10.ProofsBuf.

(* lookup_pure: whatever the earlier lookups, writes, index_overlap / mix_from calls were -- any
   number of them, so that both bounded caches have filled and evicted -- each of the three cached
   look-ups returns the pure classification of the key computed from the name table alone *)
Theorem C10_lookup_pure : forall c ixs hist k,
  let s := fst (run fixed c (mkst [] [] ixs) hist) in
  snd (chem_lookup (tb c) (scc s) k) = classify_chem (tb c) k
  /\ (forall phs, snd (mat_lookup fixed (tb c) phs (scc s) (mc_get (smc s) phs) k) = classify_mat fixed (tb c) phs k)
  /\ (forall cas, snd (overlap fixed (tb c) (scc s) cas) = overlap_pure (tb c) cas).
Proof. exact lookup_pure_lemma. Qed.
Print Assumptions C10_lookup_pure.

(* ... hence what indexer[key] returns (value or error class) after any history is a function of
   the table, the data and the key only *)
Theorem C10_read_history_independent : forall c ixs hist i k,
  snd (step fixed c (after c ixs hist) (OGet i k)) =
  match nth_error (sixs (after c ixs hist)) i with
  | Some (IC d) => obs_of_read (read_chem (tb c) d k)
  | Some (IM phs rows) => obs_of_read (read_mat fixed (tb c) (nchem c) phs rows k)
  | None => BErr EOther
  end.
Proof. exact read_after_history. Qed.
Print Assumptions C10_read_history_independent.

(* ... and likewise what indexer[key] = data does (new data and error class) *)
Theorem C10_write_history_independent : forall c ixs hist i k dt,
  snd (step fixed c (after c ixs hist) (OSet i k dt)) =
  match nth_error (sixs (after c ixs hist)) i with
  | Some (IC d) => let (d', e) := write_chem c d k dt in BWr e [d']
  | Some (IM phs rows) => let (r', e) := write_mat c phs rows k dt in BWr e r'
  | None => BErr EOther
  end.
Proof. exact write_after_history. Qed.
Print Assumptions C10_write_history_independent.

(* the mass view (by_mass / imass) read after any history -- whether the view was created before or after the
   writes -- shows exactly the current molar data times MW under the same key classification *)
Theorem C10_mass_read_history_independent : forall c ixs hist i k,
  snd (step fixed c (after c ixs hist) (OGetMass i k)) =
  match nth_error (sixs (after c ixs hist)) i with
  | Some (IC d) => obs_of_read (read_chem (tb c) (to_mass (mws c) d) k)
  | Some (IM phs rows) => obs_of_read (read_mat fixed (tb c) (nchem c) phs (map (to_mass (mws c)) rows) k)
  | None => BErr EOther
  end.
Proof. exact mass_read_after_history. Qed.
Print Assumptions C10_mass_read_history_independent.

(* an indexer gaining a phase (mix_from / copy_like of material in a phase it lacks) changes no cache at all: it
   continues with the cache of its new phase set, so (by C10_read_history_independent, which covers histories
   containing these operations on ANY indexer) reads on the other indexers of the old phase set are unaffected *)
Theorem C10_expand_keeps_caches : forall vr c s i p v,
  scc (fst (step vr c s (OMixPhase i p v))) = scc s /\ smc (fst (step vr c s (OMixPhase i p v))) = smc s /\
  scc (fst (step vr c s (OCopyPhase i p v))) = scc s /\ smc (fst (step vr c s (OCopyPhase i p v))) = smc s.
Proof. exact expand_keeps_caches. Qed.
Print Assumptions C10_expand_keeps_caches.

(* ... the same when the material comes from a multi-phase indexer and brings several new phases at once *)
Theorem C10_expand_mat_keeps_caches : forall vr c s i src,
  scc (fst (step vr c s (OMixMat i src))) = scc s /\ smc (fst (step vr c s (OMixMat i src))) = smc s /\
  scc (fst (step vr c s (OCopyMat i src))) = scc s /\ smc (fst (step vr c s (OCopyMat i src))) = smc s.
Proof. exact expand_mat_keeps_caches. Qed.
Print Assumptions C10_expand_mat_keeps_caches.

(* several property packages, indexers re-based between them (reset_chemicals): every package's caches stay coherent
   with ITS table, so a read after any such history depends only on the indexer's CURRENT package, its data and the key;
   in particular not on what was cached, by this or any other indexer, under the package it came from *)
Theorem C10_multi_read_history_independent : forall cs ixs hist g k,
  let ms := mafter cs ixs hist in
  snd (mstep fixed cs ms (MOp (OGet g k))) =
  match nth_error (mwhere ms) g with
  | Some (pk, li) =>
      let c := nth pk cs dflt_cfg in
      match nth_error (sixs (nth pk (mpk ms) dflt_st)) li with
      | Some (IC d) => obs_of_read (read_chem (tb c) d k)
      | Some (IM phs rows) => obs_of_read (read_mat fixed (tb c) (nchem c) phs rows k)
      | None => BErr EOther
      end
  | None => BErr EOther
  end.
Proof. exact mread_after_history. Qed.
Print Assumptions C10_multi_read_history_independent.

Theorem C10_multi_caches_coherent : forall cs ixs hist, mcoh_all cs (mafter cs ixs hist).
Proof. intros cs ixs hist. apply mrun_coh. apply minit_coh. Qed.
Print Assumptions C10_multi_caches_coherent.

(* re-basing an indexer changes no cache of any package: it continues with the cache registered for
   (its phases, the new chemicals) *)
Theorem C10_reset_keeps_caches : forall vr cs ms g pk q,
  let ms' := fst (mstep vr cs ms (MReset g pk)) in
  scc (nth q (mpk ms') dflt_st) = scc (nth q (mpk ms) dflt_st) /\ smc (nth q (mpk ms') dflt_st) = smc (nth q (mpk ms) dflt_st).
Proof. exact reset_keeps_caches. Qed.
Print Assumptions C10_reset_keeps_caches.

(* lookup_total + get_refines, single-phase data: for every valid key (spec_chem is defined: an
   ID/alias/CAS, a group, a tuple or list of them, the ellipsis) and after every history the read
   does not raise and returns exactly the listed entries of the dense data, group entries summed *)
Theorem C10_get_refines_chem : forall c ixs hist i d k v,
  nth_error (sixs (after c ixs hist)) i = Some (IC d) ->
  spec_chem (tb c) d k = Some v ->
  snd (step fixed c (after c ixs hist) (OGet i k)) = BVal v.
Proof.
  intros c ixs hist i d k v Hi Hs. rewrite read_after_history, Hi.
  rewrite (get_refines_chem_lemma _ _ _ _ Hs). reflexivity.
Qed.
Print Assumptions C10_get_refines_chem.

(* ... multi-phase data: chemical keys read the phase-summed data; a phase letter (exact, or
   case-insensitive when unambiguous) reads its row; (phase, key), (..., key), (phase, ...) and
   (..., ...) read the corresponding entries per row *)
Theorem C10_get_refines_mat : forall c ixs hist i phs rows k v,
  nth_error (sixs (after c ixs hist)) i = Some (IM phs rows) -> rows <> [] ->
  spec_mat (tb c) phs (nchem c) rows k = Some v ->
  snd (step fixed c (after c ixs hist) (OGet i k)) = BVal v.
Proof.
  intros c ixs hist i phs rows k v Hi NE Hs. rewrite read_after_history, Hi.
  rewrite (get_refines_mat_lemma _ _ _ _ _ _ NE Hs). reflexivity.
Qed.
Print Assumptions C10_get_refines_mat.

(* lookup_total at the level of the cached look-up itself (eviction paths included) *)
Theorem C10_lookup_total : forall c ixs hist phs rows k v,
  rows <> [] -> spec_mat (tb c) phs (nchem c) rows k = Some v ->
  let s := after c ixs hist in
  exists m, snd (mat_lookup fixed (tb c) phs (scc s) (mc_get (smc s) phs) k) = Ok m /\ mat_get (nchem c) rows m = Ok v.
Proof.
  intros c ixs hist phs rows k v NE Hs s.
  destruct (lookup_pure_lemma c ixs hist k) as (_ & M & _). unfold s, after. rewrite (M phs).
  pose proof (get_refines_mat_lemma _ _ _ _ _ _ NE Hs) as R. unfold read_mat in R.
  destruct (classify_mat fixed (tb c) phs k) as [m|e]; simpl in R; [|discriminate].
  exists m. auto.
Qed.
Print Assumptions C10_lookup_total.

(* set_get: a name.  The written value is read back; no other entry moves *)
Theorem C10_set_get_name : forall t cs d s i x d' e,
  tget t s = Some (Pos i) -> (i < length d)%nat ->
  classify_chem t (KStr s) = Ok (COne (Pos i), Some 0%nat) /\
  (set_sparse cs d (COne (Pos i)) (Some 0%nat) (DNum x) (KStr s) = (d', e) ->
   e = None /\ length d' = length d /\ get_sparse d' (COne (Pos i)) (Some 0%nat) = Ok (VNum x) /\
   forall j, j <> i -> nthq d' j = nthq d j).
Proof. exact set_get_name_lemma. Qed.
Print Assumptions C10_set_get_name.

(* set_get: a tuple/list of chemicals with a vector, or with a broadcast scalar *)
Theorem C10_set_get_list : forall cs d xs v k d' e,
  existsb is_grp xs = false -> NoDup (poss xs) -> length (poss xs) = length v ->
  Forall (fun i => (i < length d)%nat) (poss xs) ->
  set_sparse cs d (CMany xs) (Some 3%nat) (DVec v) k = (d', e) ->
  e = None /\ length d' = length d /\ map (nthq d') (poss xs) = v /\
  forall j, ~ In j (poss xs) -> nthq d' j = nthq d j.
Proof. exact set_get_list_lemma. Qed.
Print Assumptions C10_set_get_list.

Theorem C10_set_get_list_scalar : forall cs d xs x k d' e,
  existsb is_grp xs = false -> NoDup (poss xs) ->
  Forall (fun i => (i < length d)%nat) (poss xs) ->
  set_sparse cs d (CMany xs) (Some 3%nat) (DNum x) k = (d', e) ->
  e = None /\ length d' = length d /\ map (nthq d') (poss xs) = repeat x (length (poss xs)) /\
  forall j, ~ In j (poss xs) -> nthq d' j = nthq d j.
Proof. exact set_get_list_scalar_lemma. Qed.
Print Assumptions C10_set_get_list_scalar.

(* set_get: a group with one value per member *)
Theorem C10_set_get_group_vec : forall cs d l v k d' e,
  NoDup l -> length l = length v -> Forall (fun i => (i < length d)%nat) l ->
  set_sparse cs d (COne (Grp l)) (Some 1%nat) (DVec v) k = (d', e) ->
  e = None /\ length d' = length d /\ map (nthq d') l = v /\
  get_sparse d' (COne (Grp l)) (Some 1%nat) = Ok (VNum (qsum v)) /\
  forall j, ~ In j l -> nthq d' j = nthq d j.
Proof. exact set_get_group_vec_lemma. Qed.
Print Assumptions C10_set_get_group_vec.

(* group_scalar: a scalar written to a group is distributed by the group's composition, reads back
   as x * sum(composition) (= x for the normalised compositions define_group stores), nothing else moves *)
Theorem C10_group_scalar : forall cs d l x s c d' e,
  sassoc cs s = Some c -> NoDup l -> length l = length c -> Forall (fun i => (i < length d)%nat) l ->
  set_sparse cs d (COne (Grp l)) (Some 1%nat) (DNum x) (KStr s) = (d', e) ->
  e = None /\ length d' = length d /\
  (forall j, (j < length l)%nat -> nthq d' (nth j l O) == x * nthq c j) /\
  (exists y, get_sparse d' (COne (Grp l)) (Some 1%nat) = Ok (VNum y) /\ y == x * qsum c) /\
  forall j, ~ In j l -> nthq d' j = nthq d j.
Proof. exact group_scalar_lemma. Qed.
Print Assumptions C10_group_scalar.

(* set_get: a tuple mixing chemicals and groups, one value per element: chemicals get their value,
   each group's value is distributed by its (normalised) composition; reading back returns the
   written values; nothing else moves *)
Theorem C10_set_get_nested : forall cs d ts v k d' e,
  nested_ok cs ts (key_elems k) -> length v = length ts -> NoDup (flat_targets ts) ->
  Forall (fun i => (i < length d)%nat) (flat_targets ts) ->
  set_sparse cs d (CMany ts) (Some 2%nat) (DVec v) k = (d', e) ->
  e = None /\ length d' = length d /\
  (exists w, get_sparse d' (CMany ts) (Some 2%nat) = Ok (VVec w) /\ Forall2 Qeq w v) /\
  forall j, ~ In j (flat_targets ts) -> nthq d' j = nthq d j.
Proof. exact set_get_nested_lemma. Qed.
Print Assumptions C10_set_get_nested.

(* set_get: the ellipsis replaces all data *)
Theorem C10_set_get_all : forall cs d v k d' e,
  length v = length d -> set_sparse cs d CAll None (DVec v) k = (d', e) -> e = None /\ d' = v.
Proof. exact set_get_all_lemma. Qed.
Print Assumptions C10_set_get_all.

(* set_get, multi-phase: a write through (phase, key) is the single-phase write on that row and
   leaves every other row untouched *)
Theorem C10_set_row_frame : forall cs rows p ci kd dt k rows' e,
  mat_set cs rows (MPair (Some p) ci, Some kd, false) dt k = (rows', e) ->
  rows' = upd rows p (fst (set_sparse cs (nth p rows []) ci (Some kd) dt (second k))) /\
  e = snd (set_sparse cs (nth p rows []) ci (Some kd) dt (second k)) /\
  forall q, q <> p -> nth q rows' [] = nth q rows [].
Proof.
  intros cs rows p ci kd dt k rows' e H. destruct (mat_set_row _ _ _ _ _ _ _ _ _ H) as [H1 H2].
  repeat split; auto. intros q Hq. rewrite H1. apply upd_rows_other. exact Hq.
Qed.
Print Assumptions C10_set_row_frame.

(* names_single: after compilation every name of chemical i -- its ID, its CAS number, every
   compile-time name not shared with another chemical -- resolves to position i ... *)
Theorem C10_names_single : forall cs c0 i ch n,
  wf_chems cs -> compile cs = Ok c0 ->
  nth_error cs i = Some ch -> In n (chem_names cs ch) -> tget (tb c0) n = Some (Pos i).
Proof. exact names_single_compile. Qed.
Print Assumptions C10_names_single.

(* ... set_alias / define_group calls never change that (as long as no group takes the name), and
   an accepted alias resolves to the position of the name it was attached to *)
Theorem C10_names_kept : forall ops c n x,
  (forall o, In o ops -> group_name o <> Some n) ->
  tget (tb c) n = Some x -> tget (tb (fst (cbuild c ops))) n = Some x.
Proof. exact cbuild_preserves. Qed.
Print Assumptions C10_names_kept.

Theorem C10_alias_resolves : forall c id a c' x,
  cstep c (CAlias id a) = (c', None) -> tget (tb c) id = Some x -> tget (tb c') a = Some x.
Proof. exact alias_resolves. Qed.
Print Assumptions C10_alias_resolves.

(* ------------------------------------------------------------------ non-vacuity and witnesses *)
Open Scope string_scope.
Definition ex_chems := [mkchem "A_" "A_" [] 16; mkchem "B_" "10-00-1" ["bee"] 32; mkchem "C_" "C_" ["cee"; "bee"] 8].
Definition ex_cfg : cfg :=
  match compile ex_chems with
  | Ok c0 => fst (cbuild c0 [CAlias "A_" "ay"; CGroup "G" ["B_"; "C_"] (Some [1; 3]) false])
  | Err _ => mkcfg [] [] [] [] 0 []
  end.
Definition ex_ixs := [IC [1; 2; 4]; IM ["g"; "l"] [[1; 0; 4]; [1 # 2; 2; 0]]].

(* all bit strings of length 1..n as tuples over A_/B_: 2^(n+1) - 2 distinct valid keys *)
Fixpoint bit_keys (n : nat) : list (list key) :=
  match n with
  | O => [[]]
  | S m => flat_map (fun l => [KStr "A_" :: l; KStr "B_" :: l]) (bit_keys m)
  end.
Definition many_keys : list key :=
  flat_map (fun n => map (fun l => KTup [KStr "l"; KTup l]) (bit_keys n)) [1; 2; 3; 4; 5; 6; 7; 8]%nat.
Definition long_hist : list op := map (OGet 1) many_keys.

Example C10_wf_example : wf_chems ex_chems.
Proof.
  repeat split.
  - repeat constructor; simpl; intuition discriminate.
  - repeat constructor; simpl; intuition discriminate.
  - intros i j a b Hi Hj E.
    destruct i as [|[|[|i]]]; destruct j as [|[|[|j]]]; simpl in *; try discriminate; auto;
      try (inversion Hi; inversion Hj; subst; simpl in E; discriminate);
      try (destruct i; discriminate); try (destruct j; discriminate).
Qed.

(* the hypotheses of the read theorems are met, with caches that have really filled and evicted:
   510 distinct valid keys on one MaterialIndexer, then keys of all forms *)
Example C10_nonvacuous :
  length many_keys = 510%nat /\
  (let s := after ex_cfg ex_ixs long_hist in
   length (mc_get (smc s) ["g"; "l"]) = 410%nat /\ length (scc s) = 100%nat) /\
  tget (tb ex_cfg) "10-00-1" = Some (Pos 1) /\ tget (tb ex_cfg) "cee" = Some (Pos 2) /\
  tget (tb ex_cfg) "bee" = None /\ tget (tb ex_cfg) "G" = Some (Grp [1; 2]%nat) /\
  spec_chem (tb ex_cfg) [1; 2; 4] (KTup [KStr "ay"; KStr "G"]) = Some (VVec [1; 6]) /\
  spec_mat (tb ex_cfg) ["g"; "l"] 3 [[1; 0; 4]; [1 # 2; 2; 0]] (KList [KStr "L"; KList [KStr "G"; KStr "A_"]]) = Some (VVec [2; 1 # 2]) /\
  spec_mat (tb ex_cfg) ["g"; "l"] 3 [[1; 0; 4]; [1 # 2; 2; 0]] (KTup [KStr "l"; KEll]) = Some (VVec [1 # 2; 2; 0]) /\
  snd (step fixed ex_cfg (after ex_cfg ex_ixs long_hist) (OGet 1 (KTup [KEll; KStr "G"]))) = BVal (VVec [4; 2]) /\
  snd (step fixed ex_cfg (after ex_cfg ex_ixs long_hist) (OSet 0 (KStr "G") (DNum 8))) = BWr None [[1; 8 # 4; 24 # 4]].
Proof. vm_compute. repeat split; reflexivity. Qed.

Example C10_nested_nonvacuous :
  nested_ok (comps ex_cfg) [Pos 0; Grp [1; 2]%nat] (key_elems (KTup [KStr "ay"; KStr "G"])) /\
  set_sparse (comps ex_cfg) [1; 2; 4] (CMany [Pos 0; Grp [1; 2]%nat]) (Some 2%nat) (DVec [5; 8]) (KTup [KStr "ay"; KStr "G"])
    = ([5; 8 # 4; 24 # 4], None).
Proof.
  split; [|vm_compute; reflexivity].
  apply nok_pos. eapply nok_grp; [vm_compute; reflexivity|reflexivity|vm_compute; reflexivity|apply nok_nil].
Qed.

(* two indexers of one phase set; the first gains 'g' (rows shift), then both are read through cached keys, and
   the mass view shows mol * MW after a write made after the view was first read *)
Example C10_expand_mass_nonvacuous :
  let ixs := [IM ["l"; "s"] [[1; 2; 3]; [10; 20; 30]]; IM ["l"; "s"] [[4; 5; 6]; [40; 50; 60]]] in
  let h := [OGet 0 (KTup [KStr "l"; KStr "A_"]); OGet 1 (KTup [KStr "s"; KStr "A_"]); OGetMass 1 (KStr "l");
            OMixPhase 0 "g" [100; 0; 300]; OGet 0 (KTup [KStr "l"; KStr "A_"]); OGet 1 (KTup [KStr "l"; KStr "A_"]);
            OGet 0 (KTup [KStr "s"; KStr "A_"]); OGet 1 (KTup [KStr "s"; KStr "A_"]); OGet 0 (KTup [KStr "g"; KStr "C_"]);
            OSet 1 (KStr "l") (DVec [5; 0; 7]); OGetMass 1 (KStr "l")] in
  snd (run fixed ex_cfg (mkst [] [] ixs) h) =
  [BVal (VNum 1); BVal (VNum 40); BVal (VVec [64; 160; 48]); BPh ["g"; "l"; "s"] [[100; 0; 300]; [1; 2; 3]; [10; 20; 30]];
   BVal (VNum 1); BVal (VNum 4); BVal (VNum 10); BVal (VNum 40); BVal (VNum 300);
   BWr None [[5; 0; 7]; [40; 50; 60]]; BVal (VVec [80; 0; 56])].
Proof. vm_compute. reflexivity. Qed.

(* an indexer gains two phases at once; the jointly added rows are separate: a write to one does not show in the other *)
Example C10_joint_expansion_nonvacuous :
  let ixs := [IM ["g"; "l"] [[1; 2; 3]; [4; 5; 6]]] in
  let h := [OMixMat 0 [("L", [0; 0; 3]); ("s", [0; 2; 0])]; OSet 0 (KTup [KStr "s"; KStr "A_"]) (DNum 7);
            OGet 0 (KTup [KStr "L"; KStr "A_"]); OGet 0 (KStr "A_"); OCopyMat 0 [("S", [1; 1; 1]); ("l", [2; 2; 2])]] in
  snd (run fixed ex_cfg (mkst [] [] ixs) h) =
  [BPh ["L"; "g"; "l"; "s"] [[0; 0; 3]; [1; 2; 3]; [4; 5; 6]; [0; 2; 0]];
   BWr None [[0; 0; 3]; [1; 2; 3]; [4; 5; 6]; [7; 2; 0]]; BVal (VNum 0); BVal (VNum 12);
   BPh ["L"; "S"; "g"; "l"; "s"] [[0; 0; 0]; [1; 1; 1]; [0; 0; 0]; [2; 2; 2]; [0; 0; 0]]].
Proof. vm_compute. reflexivity. Qed.

(* two packages ordering the chemicals differently and defining the group G differently; indexer 0 is re-based after both
   have filled the cache of the first package: each then reads through its own package's table *)
Definition ex_cfg2 : cfg :=
  fst (build_pkg ([mkchem "C_" "C_" [] 8; mkchem "A_" "A_" [] 16; mkchem "B_" "10-00-1" [] 32], [CGroup "G" ["A_"; "C_"] None false])).
Example C10_rebase_nonvacuous :
  snd (mrun fixed [ex_cfg; ex_cfg2] (minit 2 [IM ["g"; "l"] [[1; 2; 3]; [4; 5; 6]]; IM ["g"; "l"] [[10; 20; 30]; [40; 50; 60]]])
   [MOp (OGet 0 (KTup [KStr "l"; KStr "A_"])); MOp (OGet 1 (KTup [KStr "l"; KStr "G"])); MReset 0 1;
    MOp (OGet 0 (KTup [KStr "l"; KStr "A_"])); MOp (OGet 1 (KTup [KStr "l"; KStr "A_"])); MOp (OGet 0 (KTup [KStr "l"; KStr "G"]));
    MOp (OGet 1 (KTup [KStr "l"; KStr "G"])); MOp (OSet 0 (KTup [KStr "l"; KStr "C_"]) (DNum 9)); MOp (OGet 1 (KStr "l"))]) =
  [BVal (VNum 4); BVal (VNum 110); BWr None [[3; 1; 2]; [6; 4; 5]]; BVal (VNum 4); BVal (VNum 40); BVal (VNum 10);
   BVal (VNum 110); BWr None [[3; 1; 2]; [9; 4; 5]]; BVal (VVec [40; 50; 60])].
Proof. vm_compute. reflexivity. Qed.

(* the code as first found in /repo violates the same statements (one witness per defect):
   trim_cache raises at the 501st distinct key although the key is valid ... *)
Example C10_asis_trim_refuted :
  let s := fst (run asis ex_cfg (mkst [] [] ex_ixs) (firstn 500 long_hist)) in
  let k := nth 500 many_keys KEll in
  spec_mat (tb ex_cfg) ["g"; "l"] 3 [[1; 0; 4]; [1 # 2; 2; 0]] k = Some (VVec [1 # 2; 2; 2; 1 # 2; 2; 2; 2; 2]) /\
  snd (step asis ex_cfg s (OGet 1 k)) = BErr EType /\
  snd (step fixed ex_cfg (after ex_cfg ex_ixs (firstn 500 long_hist)) (OGet 1 k)) = BVal (VVec [1 # 2; 2; 2; 1 # 2; 2; 2; 2; 2]).
Proof. vm_compute. repeat split; reflexivity. Qed.

(* ... index_overlap leaves a list index under kind 0 in the shared cache: the same CAS tuple then
   fails as a key (the result depends on the earlier mix_from) ... *)
Example C10_asis_overlap_refuted :
  let h := [OMix 0 ["C_"; "A_"] [16; 8]] in
  let k := KTup [KStr "C_"; KStr "A_"] in
  snd (step asis ex_cfg (fst (run asis ex_cfg (mkst [] [] ex_ixs) h)) (OGet 0 k)) = BErr EType /\
  snd (step asis ex_cfg (mkst [] [] ex_ixs) (OGet 0 k)) = BVal (VVec [4; 1]) /\
  snd (step fixed ex_cfg (after ex_cfg ex_ixs h) (OGet 0 k)) = BVal (VVec [16; 8]).
Proof. vm_compute. repeat split; reflexivity. Qed.

(* ... and (phase, ...) cannot be read *)
Example C10_asis_phase_ellipsis_refuted :
  let k := KTup [KStr "l"; KEll] in
  snd (step asis ex_cfg (mkst [] [] ex_ixs) (OGet 1 k)) = BErr EType /\
  snd (step fixed ex_cfg (mkst [] [] ex_ixs) (OGet 1 k)) = BVal (VVec [1 # 2; 2; 0]).
Proof. vm_compute. repeat split; reflexivity. Qed.

(* ------------------------------------------------------------------ deepening: value/frame of writes through the mass view
   and through (..., IDs) *)

(* every write keeps the number of entries *)
Theorem C10_write_keeps_length : forall cs d ci kd dt k, length (fst (set_sparse cs d ci kd dt k)) = length d.
Proof. exact set_sparse_length. Qed.
Print Assumptions C10_write_keeps_length.

(* the mass view, any key and data: afterwards the molar data are (written mass vector) / MW entry by entry, and every
   entry the write left alone on the mass basis is unchanged on the molar basis *)
Theorem C10_mass_write_general : forall cs mw d ci kd dt k, length d = length mw -> mw_ok mw ->
  let m := to_mass mw d in
  let m' := fst (set_sparse cs m ci kd dt k) in
  let d' := of_mass mw m' in
  length d' = length d /\
  (forall j, (j < length d)%nat -> nthq d' j == nthq m' j / nthq mw j) /\
  (forall j, nthq m' j = nthq m j -> nthq d' j == nthq d j).
Proof. exact mass_write_general. Qed.
Print Assumptions C10_mass_write_general.

(* by_mass()[name] = x: that chemical holds x / MW, no error, nothing else moves *)
Theorem C10_mass_set_name : forall cs mw d i x, length d = length mw -> mw_ok mw -> (i < length d)%nat ->
  let d' := of_mass mw (fst (set_sparse cs (to_mass mw d) (COne (Pos i)) (Some 0%nat) (DNum x) (KStr ""))) in
  snd (set_sparse cs (to_mass mw d) (COne (Pos i)) (Some 0%nat) (DNum x) (KStr "")) = None /\
  length d' = length d /\ nthq d' i == x / nthq mw i /\ forall j, j <> i -> nthq d' j == nthq d j.
Proof. exact mass_set_name_lemma. Qed.
Print Assumptions C10_mass_set_name.

(* by_mass()[ID, ID, ...] = [x, ...] *)
Theorem C10_mass_set_list : forall cs mw d xs v k, length d = length mw -> mw_ok mw ->
  existsb is_grp xs = false -> NoDup (poss xs) -> length (poss xs) = length v ->
  Forall (fun i => (i < length d)%nat) (poss xs) ->
  let r := set_sparse cs (to_mass mw d) (CMany xs) (Some 3%nat) (DVec v) k in
  let d' := of_mass mw (fst r) in
  snd r = None /\ length d' = length d /\
  Forall2 (fun i x => nthq d' i == x / nthq mw i) (poss xs) v /\
  forall j, ~ In j (poss xs) -> nthq d' j == nthq d j.
Proof. exact mass_set_list_lemma. Qed.
Print Assumptions C10_mass_set_list.

(* by_mass()[group] = x: member j holds x * weight_composition_j / MW *)
Theorem C10_mass_group_scalar : forall cs mw d l x s c, length d = length mw -> mw_ok mw ->
  sassoc cs s = Some c -> NoDup l -> length l = length c -> Forall (fun i => (i < length d)%nat) l ->
  let r := set_sparse cs (to_mass mw d) (COne (Grp l)) (Some 1%nat) (DNum x) (KStr s) in
  let d' := of_mass mw (fst r) in
  snd r = None /\ length d' = length d /\
  (forall j, (j < length l)%nat -> nthq d' (nth j l O) == x * nthq c j / nthq mw (nth j l O)) /\
  forall j, ~ In j l -> nthq d' j == nthq d j.
Proof. exact mass_group_scalar_lemma. Qed.
Print Assumptions C10_mass_group_scalar.

(* multi-phase mass view, (phase, key): the row is the single-phase mass write, every other row is unchanged *)
Theorem C10_mass_set_row_frame : forall cs mw rows p ci kd dt k m' e,
  Forall (fun r => length r = length mw) rows -> mw_ok mw -> (p < length rows)%nat ->
  mat_set cs (map (to_mass mw) rows) (MPair (Some p) ci, Some kd, false) dt k = (m', e) ->
  let rows' := map (of_mass mw) m' in
  length rows' = length rows /\
  nth p rows' [] = of_mass mw (fst (set_sparse cs (to_mass mw (nth p rows [])) ci (Some kd) dt (second k))) /\
  e = snd (set_sparse cs (to_mass mw (nth p rows [])) ci (Some kd) dt (second k)) /\
  forall q, q <> p -> (q < length rows)%nat -> forall j, nthq (nth q rows' []) j == nthq (nth q rows []) j.
Proof. exact mass_set_row_frame_lemma. Qed.
Print Assumptions C10_mass_set_row_frame.

(* what by_mass()[key] = data does after any history is a function of table, data and key *)
Theorem C10_mass_write_history_independent : forall c ixs hist i k dt,
  snd (step fixed c (after c ixs hist) (OSetMass i k dt)) =
  match nth_error (sixs (after c ixs hist)) i with
  | Some (IC d) => let (d', e) := write_chem_mass c d k dt in BWr e [d']
  | Some (IM phs rows) => let (r', e) := write_mat_mass c phs rows k dt in BWr e r'
  | None => BErr EOther
  end.
Proof. exact mass_write_after_history. Qed.
Print Assumptions C10_mass_write_history_independent.

(* ... and, put together, for a name after any history *)
Theorem C10_mass_write_name_after_history : forall c ixs hist i d s pos x,
  nth_error (sixs (after c ixs hist)) i = Some (IC d) ->
  tget (tb c) s = Some (Pos pos) -> length d = length (mws c) -> mw_ok (mws c) -> (pos < length d)%nat ->
  exists d', snd (step fixed c (after c ixs hist) (OSetMass i (KStr s) (DNum x))) = BWr None [d'] /\
    length d' = length d /\ nthq d' pos == x / nthq (mws c) pos /\ forall j, j <> pos -> nthq d' j == nthq d j.
Proof. exact mass_write_name_after_history. Qed.
Print Assumptions C10_mass_write_name_after_history.

(* (..., key) is classified as the pair (no phase, chemical index) *)
Theorem C10_classify_ell_pair : forall t phs x ci kn, hashable x = true -> classify_chem t x = Ok (ci, Some kn) ->
  classify_mat_h fixed t phs (KTup [KEll; x]) = Ok (MPair None ci, Some kn, false).
Proof. exact classify_ell_pair. Qed.
Print Assumptions C10_classify_ell_pair.

(* indexer[..., name] = x: every row holds x at the chemical's position, nothing else moves *)
Theorem C10_ell_set_name : forall cs rows i x k rows' e, Forall (row_ok i) rows ->
  mat_set cs rows (MPair None (COne (Pos i)), Some 0%nat, false) (DNum x) k = (rows', e) ->
  e = None /\
  Forall2 (fun r r' => length r' = length r /\ nthq r' i = x /\ forall j, j <> i -> nthq r' j = nthq r j) rows rows'.
Proof. exact ell_set_name_lemma. Qed.
Print Assumptions C10_ell_set_name.

(* indexer[..., (ID, ...)] = [x, ...] and = x *)
Theorem C10_ell_set_list : forall cs rows ts v k rows' e,
  existsb is_grp ts = false -> NoDup (poss ts) -> length (poss ts) = length v -> Forall (rows_ok (poss ts)) rows ->
  mat_set cs rows (MPair None (CMany ts), Some 3%nat, false) (DVec v) k = (rows', e) ->
  e = None /\
  Forall2 (fun r r' => length r' = length r /\ map (nthq r') (poss ts) = v /\
                       forall j, ~ In j (poss ts) -> nthq r' j = nthq r j) rows rows'.
Proof. exact ell_set_list_lemma. Qed.
Print Assumptions C10_ell_set_list.

Theorem C10_ell_set_list_scalar : forall cs rows ts x k rows' e,
  existsb is_grp ts = false -> NoDup (poss ts) -> Forall (rows_ok (poss ts)) rows ->
  mat_set cs rows (MPair None (CMany ts), Some 3%nat, false) (DNum x) k = (rows', e) ->
  e = None /\
  Forall2 (fun r r' => length r' = length r /\ map (nthq r') (poss ts) = repeat x (length (poss ts)) /\
                       forall j, ~ In j (poss ts) -> nthq r' j = nthq r j) rows rows'.
Proof. exact ell_set_list_scalar_lemma. Qed.
Print Assumptions C10_ell_set_list_scalar.

(* indexer[..., group] = x: distributed by the composition in every row *)
Theorem C10_ell_group_scalar : forall cs rows l x s c rows' e p,
  sassoc cs s = Some c -> NoDup l -> length l = length c -> Forall (rows_ok l) rows ->
  mat_set cs rows (MPair None (COne (Grp l)), Some 1%nat, false) (DNum x) (KTup [p; KStr s]) = (rows', e) ->
  e = None /\
  Forall2 (fun r r' => length r' = length r /\
                       (forall j, (j < length l)%nat -> nthq r' (nth j l O) == x * nthq c j) /\
                       forall j, ~ In j l -> nthq r' j = nthq r j) rows rows'.
Proof. exact ell_group_scalar_lemma. Qed.
Print Assumptions C10_ell_group_scalar.

(* indexer[..., (chemicals and groups)] = [x, ...] *)
Theorem C10_ell_set_nested : forall cs rows ts v k rows' e p ids,
  k = KTup [p; ids] ->
  nested_ok cs ts (key_elems ids) -> length v = length ts -> NoDup (flat_targets ts) ->
  Forall (rows_ok (flat_targets ts)) rows ->
  mat_set cs rows (MPair None (CMany ts), Some 2%nat, false) (DVec v) k = (rows', e) ->
  e = None /\
  Forall2 (fun r r' => length r' = length r /\ Forall2 (fun t x => tsum r' t == x) ts v /\
                       forall j, ~ In j (flat_targets ts) -> nthq r' j = nthq r j) rows rows'.
Proof. exact ell_set_nested_lemma. Qed.
Print Assumptions C10_ell_set_nested.

(* ... and, put together, for a name after any history *)
Theorem C10_ell_write_name_after_history : forall c ixs hist i phs rows s pos x,
  nth_error (sixs (after c ixs hist)) i = Some (IM phs rows) ->
  tget (tb c) s = Some (Pos pos) -> Forall (row_ok pos) rows ->
  exists rows', snd (step fixed c (after c ixs hist) (OSet i (KTup [KEll; KStr s]) (DNum x))) = BWr None rows' /\
    Forall2 (fun r r' => length r' = length r /\ nthq r' pos = x /\ forall j, j <> pos -> nthq r' j = nthq r j) rows rows'.
Proof. exact ell_write_name_after_history. Qed.
Print Assumptions C10_ell_write_name_after_history.

(* the hypotheses are met by reachable states: after the 510-key history (both caches evicted) *)
Example C10_ex_mw_ok : mw_ok (mws ex_cfg).
Proof.
  intros i Hi. change (mws ex_cfg) with [16; 32; 8] in *. simpl in Hi.
  destruct i as [|[|[|i]]]; try lia; unfold nthq; simpl; intros E; discriminate E.
Qed.

Example C10_deep_mass_nonvacuous :
  nth_error (sixs (after ex_cfg ex_ixs long_hist)) 0 = Some (IC [1; 2; 4]) /\
  tget (tb ex_cfg) "cee" = Some (Pos 2) /\ length [1; 2; 4] = length (mws ex_cfg) /\ mw_ok (mws ex_cfg) /\
  sassoc (wcomps ex_cfg) "G" = Some [32 # 56; 24 # 56] /\
  snd (step fixed ex_cfg (after ex_cfg ex_ixs long_hist) (OSetMass 0 (KStr "cee") (DNum 16))) = BWr None [[16 # 16; 64 # 32; 16 # 8]] /\
  snd (step fixed ex_cfg (after ex_cfg ex_ixs long_hist) (OSetMass 0 (KStr "G") (DNum 56))) = BWr None [[16 # 16; 1792 # 1792; 1344 # 448]] /\
  snd (step fixed ex_cfg (after ex_cfg ex_ixs long_hist) (OSetMass 1 (KTup [KStr "l"; KTup [KStr "C_"; KStr "A_"]]) (DVec [8; 16]))) =
    BWr None [[16 # 16; 0 # 32; 32 # 8]; [16 # 16; 64 # 32; 8 # 8]].
Proof. repeat (match goal with |- _ /\ _ => split end); try (vm_compute; reflexivity). exact C10_ex_mw_ok. Qed.

Example C10_deep_ell_nonvacuous :
  nth_error (sixs (after ex_cfg ex_ixs long_hist)) 1 = Some (IM ["g"; "l"] [[1; 0; 4]; [1 # 2; 2; 0]]) /\
  Forall (row_ok 2) [[1; 0; 4]; [1 # 2; 2; 0]] /\ Forall (rows_ok [1; 2]%nat) [[1; 0; 4]; [1 # 2; 2; 0]] /\
  sassoc (comps ex_cfg) "G" = Some [1 # 4; 3 # 4] /\
  nested_ok (comps ex_cfg) [Pos 0; Grp [1; 2]%nat] (key_elems (KTup [KStr "ay"; KStr "G"])) /\
  classify_mat fixed (tb ex_cfg) ["g"; "l"] (KList [KEll; KList [KStr "ay"; KStr "G"]]) = Ok (MPair None (CMany [Pos 0; Grp [1; 2]%nat]), Some 2%nat, false) /\
  snd (step fixed ex_cfg (after ex_cfg ex_ixs long_hist) (OSet 1 (KTup [KEll; KStr "cee"]) (DNum 7))) = BWr None [[1; 0; 7]; [1 # 2; 2; 7]] /\
  snd (step fixed ex_cfg (after ex_cfg ex_ixs long_hist) (OSet 1 (KTup [KEll; KStr "G"]) (DNum 8))) = BWr None [[1; 8 # 4; 24 # 4]; [1 # 2; 8 # 4; 24 # 4]] /\
  snd (step fixed ex_cfg (after ex_cfg ex_ixs long_hist) (OSet 1 (KTup [KEll; KTup [KStr "ay"; KStr "G"]]) (DVec [5; 8]))) =
    BWr None [[5; 8 # 4; 24 # 4]; [5; 8 # 4; 24 # 4]].
Proof.
  repeat (match goal with |- _ /\ _ => split end); try (vm_compute; reflexivity).
  - repeat constructor.
  - repeat constructor.
  - apply nok_pos. eapply nok_grp; [vm_compute; reflexivity|reflexivity|vm_compute; reflexivity|apply nok_nil].
Qed.

(* re-basing (reset_chemicals): every flow is carried to the position its CAS number has in the new package; positions
   no old chemical maps to are empty *)
Theorem C10_rebase_carries_flows : forall t' cas ps row n,
  Forall2 (fun c i => tget t' c = Some (Pos i)) cas ps -> NoDup ps ->
  Forall (fun i => (i < n)%nat) ps -> length row = length cas ->
  exists d', remap_row t' cas row (vzero n) = Ok d' /\ length d' = n /\
    (forall j, (j < length ps)%nat -> nthq d' (nth j ps O) == nthq row j) /\
    (forall i, ~ In i ps -> nthq d' i = 0).
Proof. exact remap_row_spec. Qed.
Print Assumptions C10_rebase_carries_flows.

Example C10_deep_rebase_nonvacuous :
  Forall2 (fun c i => tget (tb ex_cfg2) c = Some (Pos i)) (cass ex_cfg) [1; 2; 0]%nat /\ NoDup [1; 2; 0]%nat /\
  Forall (fun i => (i < nchem ex_cfg2)%nat) [1; 2; 0]%nat /\
  remap_row (tb ex_cfg2) (cass ex_cfg) [1; 0; 3] (vzero (nchem ex_cfg2)) = Ok [3; 1; 0].
Proof.
  split; [repeat constructor|]. split; [repeat constructor; simpl; intuition discriminate|].
  split; [repeat constructor|]. vm_compute. reflexivity.
Qed.

(* an exact phase letter is found at its own row *)
Theorem C10_pcall_exact : forall phs q i, index_of q phs = Some i -> pcall phs q = Ok i.
Proof. exact pcall_exact. Qed.
Print Assumptions C10_pcall_exact.

(* X.mix_from([X, material in a phase X lacks even up to case]): afterwards every old phase label still names its old row,
   the new label names the incoming material, and there are no other labels *)
Theorem C10_mix_phase_rows_by_label : forall n phs rows p v phs' rows' r,
  length phs = length rows -> NoDup phs -> ~ In p phs -> pcall phs p = Err EUndefPhase ->
  add_phase_row n phs rows p = (phs', rows', r) ->
  let rows'' := upd rows' r (vadd (nth r rows' []) v) in
  length phs' = length rows'' /\
  row_of phs' rows'' p = vadd (vzero n) v /\
  (forall q, In q phs -> row_of phs' rows'' q = row_of phs rows q) /\
  (forall q, In q phs' <-> q = p \/ In q phs).
Proof. exact mix_phase_new_lemma. Qed.
Print Assumptions C10_mix_phase_rows_by_label.

Example C10_deep_expand_nonvacuous :
  NoDup ["l"; "s"] /\ ~ In "g" ["l"; "s"] /\ pcall ["l"; "s"] "g" = Err EUndefPhase /\
  add_phase_row 3 ["l"; "s"] [[1; 2; 3]; [10; 20; 30]] "g" = (["g"; "l"; "s"], [[0; 0; 0]; [1; 2; 3]; [10; 20; 30]], 0%nat) /\
  index_of "s" ["g"; "l"; "s"] = Some 2%nat.
Proof.
  split; [repeat constructor; simpl; intuition discriminate|]. split; [simpl; intuition discriminate|].
  repeat split; vm_compute; reflexivity.
Qed.

(* ------------------------------------------------------------------ deepening 2: configuration calls BETWEEN look-ups, SplitIndexer
   (model: ModelCfg.v; lemmas: ProofsCfg.v) *)

(* set_alias / define_group made at any point of a history, each defining a NEW name that is not a phase letter
   (safe_cop, checked in the state the call is made in): afterwards every cached look-up -- chemicals._get_index_and_kind,
   MaterialIndexer._get_index_data for every phase set, index_overlap -- still equals the cache-free classification under the
   CURRENT name table; no cache entry has gone stale *)
Theorem C10_cfg_lookup_pure : forall c ixs sps hist k, hsafe (mkhs c (mkst [] [] ixs) sps) hist ->
  let h := hafter c ixs sps hist in
  let t := tb (hcf h) in
  snd (chem_lookup t (scc (hst h)) k) = classify_chem t k
  /\ (forall phs, snd (mat_lookup fixed t phs (scc (hst h)) (mc_get (smc (hst h)) phs) k) = classify_mat fixed t phs k)
  /\ (forall cas, snd (overlap fixed t (scc (hst h)) cas) = overlap_pure t cas).
Proof. exact cfg_lookup_pure. Qed.
Print Assumptions C10_cfg_lookup_pure.

(* ... hence a read after such a history depends on the current table, the data and the key only *)
Theorem C10_cfg_read_history_independent : forall c ixs sps hist i k, hsafe (mkhs c (mkst [] [] ixs) sps) hist ->
  let h := hafter c ixs sps hist in
  snd (hstep fixed h (HOp (OGet i k))) =
  HB (match nth_error (sixs (hst h)) i with
      | Some (IC d) => obs_of_read (read_chem (tb (hcf h)) d k)
      | Some (IM phs rows) => obs_of_read (read_mat fixed (tb (hcf h)) (nchem (hcf h)) phs rows k)
      | None => BErr EOther
      end).
Proof. exact cfg_read_after_history. Qed.
Print Assumptions C10_cfg_read_history_independent.

(* the step that makes this work: a new name that cannot be read as a phase letter changes no successful classification *)
Theorem C10_new_name_keeps_classification : forall t n x phs k v, tget t n = None -> len1 n = false ->
  (forall w, classify_chem t k = Ok w -> classify_chem (tset t n x) k = Ok w) /\
  (classify_mat_h fixed t phs k = Ok v -> classify_mat_h fixed (tset t n x) phs k = Ok v).
Proof. intros t n x phs k v Hn Hl. split; [intros w; apply classify_chem_ext; exact Hn|apply classify_mat_h_ext; auto]. Qed.
Print Assumptions C10_new_name_keeps_classification.

(* WITHOUT the restriction the statement is false for the code as it is: the caches are never invalidated.
   Full statement (no hsafe): *)
Definition cfg_read_history_independent_statement : Prop :=
  forall c ixs sps hist i k,
  let h := hafter c ixs sps hist in
  snd (hstep fixed h (HOp (OGet i k))) =
  HB (match nth_error (sixs (hst h)) i with
      | Some (IC d) => obs_of_read (read_chem (tb (hcf h)) d k)
      | Some (IM phs rows) => obs_of_read (read_mat fixed (tb (hcf h)) (nchem (hcf h)) phs rows k)
      | None => BErr EOther
      end).

(* witness 1: a group is read, redefined with other members, read again: the old members are summed (3 instead of 12) *)
Definition ex_chems4 := [mkchem "A_" "A_" [] 16; mkchem "B_" "B_" [] 16; mkchem "C_" "C_" [] 16; mkchem "D_" "D_" [] 16].
Definition ex_cfg4 : cfg :=
  match compile ex_chems4 with
  | Ok c0 => fst (cbuild c0 [CGroup "G1" ["A_"; "B_"] None false])
  | Err _ => dflt_cfg
  end.
Definition redefine_hist : list hop := [HOp (OGet 0 (KStr "G1")); HCfg (CGroup "G1" ["C_"; "D_"] (Some [1; 3]) false)].

Theorem C10_cfg_redefine_refuted : ~ cfg_read_history_independent_statement.
Proof.
  intros H. specialize (H ex_cfg4 [IC [1; 2; 4; 8]] [] redefine_hist 0%nat (KStr "G1")).
  vm_compute in H. discriminate H.
Qed.
Print Assumptions C10_cfg_redefine_refuted.

(* the same witness spelled out: with the earlier look-up 3 (members A_, B_), without it 12 (members C_, D_) *)
Example C10_cfg_redefine_witness :
  snd (hstep fixed (hafter ex_cfg4 [IC [1; 2; 4; 8]] [] redefine_hist) (HOp (OGet 0 (KStr "G1")))) = HB (BVal (VNum 3)) /\
  snd (hstep fixed (hafter ex_cfg4 [IC [1; 2; 4; 8]] [] (tl redefine_hist)) (HOp (OGet 0 (KStr "G1")))) = HB (BVal (VNum 12)) /\
  hcf (hafter ex_cfg4 [IC [1; 2; 4; 8]] [] redefine_hist) = hcf (hafter ex_cfg4 [IC [1; 2; 4; 8]] [] (tl redefine_hist)).
Proof. vm_compute. repeat split; reflexivity. Qed.

(* witness 2: a phase letter used as a key, then made the alias of a chemical: the row of the phase is still returned
   (fresh: the flow of the chemical summed over the phases) *)
Definition phase_alias_hist : list hop := [HOp (OGet 0 (KStr "l")); HCfg (CAlias "A_" "l")].
Theorem C10_cfg_phase_alias_refuted :
  let ixs := [IM ["g"; "l"] [[1; 2; 4; 8]; [16; 32; 64; 128]]] in
  snd (hstep fixed (hafter ex_cfg4 ixs [] phase_alias_hist) (HOp (OGet 0 (KStr "l")))) = HB (BVal (VVec [16; 32; 64; 128])) /\
  snd (hstep fixed (hafter ex_cfg4 ixs [] (tl phase_alias_hist)) (HOp (OGet 0 (KStr "l")))) = HB (BVal (VNum 17)) /\
  ~ safe_cop ex_cfg4 (CAlias "A_" "l").
Proof.
  split; [vm_compute; reflexivity|]. split; [vm_compute; reflexivity|].
  intros [_ H]. vm_compute in H. discriminate H.
Qed.
Print Assumptions C10_cfg_phase_alias_refuted.

(* non-vacuity of hsafe: new names defined between look-ups that had failed on them; 130 distinct keys in between so that
   the 100-entry cache has evicted *)
Definition safe_hist : list hop :=
  [HOp (OGet 0 (KStr "G3")); HSGet 0 (KTup [KStr "A_"; KStr "G3"]); HCfg (CGroup "G3" ["B_"; "D_"] (Some [1; 3]) false)]
  ++ map (fun l => HSGet 0 (KTup l)) (firstn 130 (flat_map bit_keys [1; 2; 3; 4; 5; 6; 7]%nat))
  ++ [HCfg (CAlias "C_" "ay"); HOp (OGet 0 (KStr "ay"))].
Example C10_cfg_nonvacuous :
  hsafe (mkhs ex_cfg4 (mkst [] [] [IC [1; 2; 4; 8]]) [[1 # 8; 1 # 4; 1 # 2; 3 # 4]]) safe_hist /\
  (let h := hafter ex_cfg4 [IC [1; 2; 4; 8]] [[1 # 8; 1 # 4; 1 # 2; 3 # 4]] safe_hist in
   length (scc (hst h)) = 100%nat /\
   snd (hstep fixed h (HOp (OGet 0 (KStr "G3")))) = HB (BVal (VNum 10)) /\
   snd (hstep fixed h (HSGet 0 (KTup [KStr "ay"; KStr "G3"]))) = HSV (SVNest [SI (1 # 2); SG [1 # 4; 3 # 4]])).
Proof.
  split.
  - unfold safe_hist. vm_compute. repeat split; reflexivity.
  - vm_compute. repeat split; reflexivity.
Qed.

(* ------------------------------------------------------------------ SplitIndexer *)
(* split[key] and split[key] = data after any history with safe configuration calls: functions of the current table,
   the data and the key (the SplitIndexer shares chemicals._index_cache with the flow indexers) *)
Theorem C10_split_read_history_independent : forall c ixs sps hist i k, hsafe (mkhs c (mkst [] [] ixs) sps) hist ->
  let h := hafter c ixs sps hist in
  snd (hstep fixed h (HSGet i k)) =
  match nth_error (hsp h) i with
  | Some d => hobs_of_sread (split_read (tb (hcf h)) d k)
  | None => HSE EOther
  end.
Proof. intros c ixs sps hist i k S h. apply split_read_coh. apply hafter_coh. exact S. Qed.
Print Assumptions C10_split_read_history_independent.

Theorem C10_split_write_history_independent : forall c ixs sps hist i k dt, hsafe (mkhs c (mkst [] [] ixs) sps) hist ->
  let h := hafter c ixs sps hist in
  snd (hstep fixed h (HSSet i k dt)) =
  match nth_error (hsp h) i with
  | Some d => let (d', e) := split_write (tb (hcf h)) d k dt in HSW e d'
  | None => HSE EOther
  end.
Proof. intros c ixs sps hist i k dt S h. apply split_write_coh. apply hafter_coh. exact S. Qed.
Print Assumptions C10_split_write_history_independent.

(* set_get on a SplitIndexer: a name *)
Theorem C10_split_set_get_name : forall d i x, (i < length d)%nat ->
  let r := split_set d (COne (Pos i)) (Some 0%nat) (SDNum x) in
  snd r = None /\ length (fst r) = length d /\ split_get (fst r) (COne (Pos i)) (Some 0%nat) = Ok (SVNum x) /\
  forall j, j <> i -> nthq (fst r) j = nthq d j.
Proof. exact split_set_name. Qed.
Print Assumptions C10_split_set_get_name.

(* a scalar written to a group of a SplitIndexer goes to EVERY member unchanged (a split is not distributed by composition) *)
Theorem C10_split_group_scalar : forall d l x, NoDup l -> Forall (fun i => (i < length d)%nat) l ->
  let r := split_set d (COne (Grp l)) (Some 1%nat) (SDNum x) in
  snd r = None /\ length (fst r) = length d /\
  split_get (fst r) (COne (Grp l)) (Some 1%nat) = Ok (SVVec (repeat x (length l))) /\
  forall j, ~ In j l -> nthq (fst r) j = nthq d j.
Proof. exact split_set_group_scalar. Qed.
Print Assumptions C10_split_group_scalar.

Theorem C10_split_group_vec : forall d l v, NoDup l -> length l = length v -> Forall (fun i => (i < length d)%nat) l ->
  let r := split_set d (COne (Grp l)) (Some 1%nat) (SDItems (map SI v)) in
  snd r = None /\ length (fst r) = length d /\
  split_get (fst r) (COne (Grp l)) (Some 1%nat) = Ok (SVVec v) /\
  forall j, ~ In j l -> nthq (fst r) j = nthq d j.
Proof. exact split_set_group_vec. Qed.
Print Assumptions C10_split_group_vec.

Theorem C10_split_set_get_list : forall d ts v, existsb is_grp ts = false -> NoDup (poss ts) -> length (poss ts) = length v ->
  Forall (fun i => (i < length d)%nat) (poss ts) ->
  let r := split_set d (CMany ts) (Some 3%nat) (SDItems (map SI v)) in
  snd r = None /\ length (fst r) = length d /\
  split_get (fst r) (CMany ts) (Some 3%nat) = Ok (SVVec v) /\
  forall j, ~ In j (poss ts) -> nthq (fst r) j = nthq d j.
Proof. exact split_set_list. Qed.
Print Assumptions C10_split_set_get_list.

Example C10_split_nonvacuous :
  let h := hafter ex_cfg4 [] [[1 # 8; 1 # 4; 1 # 2; 3 # 4]] [HSGet 0 (KStr "G1")] in
  classify_chem (tb ex_cfg4) (KStr "G1") = Ok (COne (Grp [0; 1]%nat), Some 1%nat) /\
  snd (hstep fixed h (HSGet 0 (KStr "G1"))) = HSV (SVVec [1 # 8; 1 # 4]) /\
  snd (hstep fixed h (HSSet 0 (KStr "G1") (SDNum (1 # 2)))) = HSW None [1 # 2; 1 # 2; 1 # 2; 3 # 4] /\
  snd (hstep fixed h (HSSet 0 (KTup [KStr "C_"; KStr "G1"]) (SDItems [SI (1 # 4); SG [1; 0]]))) = HSW None [1; 0; 1 # 4; 3 # 4].
Proof. vm_compute. repeat split; reflexivity. Qed.

(* ------------------------------------------------------------------ rows by label after a multi-phase source brought new phases *)
(* MaterialIndexer._expand_phases(other_phases), the step mix_from and copy_like share: every old label still names its old
   row, the labels are exactly the union, and every new label names an empty row of its own *)
Theorem C10_expand_phases_rows_by_label : forall z ps phs rows, length phs = length rows ->
  let r := insert_phases ps phs rows z in
  length (fst r) = length (snd r) /\
  (forall q, In q phs -> row_of (fst r) (snd r) q = row_of phs rows q) /\
  (forall q, In q (fst r) <-> In q ps \/ In q phs) /\
  (forall q, In q ps -> ~ In q phs -> row_of (fst r) (snd r) q = z).
Proof. exact insert_phases_rows. Qed.
Print Assumptions C10_expand_phases_rows_by_label.

(* X.mix_from([X, M]), M multi-phase with a phase X lacks even up to case: afterwards the labels are the union and every old
   label that no phase of M resolves to names the row it named before *)
Theorem C10_mix_mat_rows_by_label : forall n phs rows src q i,
  length phs = length rows -> forallb (knows_phase phs) (map fst src) = false ->
  In q phs -> index_of q (fst (mix_mat n phs rows src)) = Some i ->
  (forall p v j, In (p, v) src -> pcall (fst (mix_mat n phs rows src)) p = Ok j -> j <> i) ->
  (forall x, In x (fst (mix_mat n phs rows src)) <-> In x (map fst src) \/ In x phs) /\
  length (fst (mix_mat n phs rows src)) = length (snd (mix_mat n phs rows src)) /\
  row_of (fst (mix_mat n phs rows src)) (snd (mix_mat n phs rows src)) q = row_of phs rows q.
Proof. exact mix_mat_rows_by_label. Qed.
Print Assumptions C10_mix_mat_rows_by_label.

Example C10_mix_mat_rows_nonvacuous :
  let src := [("L", [0; 0; 3]); ("s", [0; 2; 0])] in
  forallb (knows_phase ["g"; "l"]) (map fst src) = false /\
  mix_mat 3 ["g"; "l"] [[1; 2; 3]; [4; 5; 6]] src = (["L"; "g"; "l"; "s"], [[0; 0; 3]; [1; 2; 3]; [4; 5; 6]; [0; 2; 0]]) /\
  index_of "l" ["L"; "g"; "l"; "s"] = Some 2%nat /\ pcall ["L"; "g"; "l"; "s"] "L" = Ok 0%nat /\ pcall ["L"; "g"; "l"; "s"] "s" = Ok 3%nat.
Proof. vm_compute. repeat split; reflexivity. Qed.

(* ------------------------------------------------------------------ indexer[..., IDs] = data for every data form (ModelEll.v) *)
(* on every form Model.mat_set covers, the full model of the branch (SparseArray column assignment with reduce_ndim) agrees
   with it, so the C10_ell_* theorems above are statements about the full model too *)
Theorem C10_ell_full_model_agrees : forall cs rows k,
  (forall i kn x, kn = 0%nat \/ kn = 3%nat ->
     mat_set2 cs rows (MPair None (COne (Pos i)), Some kn, false) (DNum x) k = mat_set cs rows (MPair None (COne (Pos i)), Some kn, false) (DNum x) k) /\
  (forall ts kn x, kn = 0%nat \/ kn = 3%nat ->
     mat_set2 cs rows (MPair None (CMany ts), Some kn, false) (DNum x) k = mat_set cs rows (MPair None (CMany ts), Some kn, false) (DNum x) k) /\
  (forall ts kn v, kn = 0%nat \/ kn = 3%nat -> length (poss ts) = length v ->
     mat_set2 cs rows (MPair None (CMany ts), Some kn, false) (DVec v) k = mat_set cs rows (MPair None (CMany ts), Some kn, false) (DVec v) k) /\
  (forall l x s c p, sassoc cs s = Some c -> length l = length c ->
     mat_set2 cs rows (MPair None (COne (Grp l)), Some 1%nat, false) (DNum x) (KTup [p; KStr s]) =
     mat_set cs rows (MPair None (COne (Grp l)), Some 1%nat, false) (DNum x) (KTup [p; KStr s])).
Proof.
  intros cs rows k. split; [|split; [|split]].
  - intros. apply ell_agrees_name; auto.
  - intros. apply ell_agrees_list_scalar; auto.
  - intros. apply ell_agrees_list_vec; auto.
  - intros. eapply ell_agrees_group_scalar; eauto.
Qed.
Print Assumptions C10_ell_full_model_agrees.

(* the form left out so far: indexer[..., name] = [one value per phase] (two or more phases): row p holds v_p at the
   chemical's position, nothing else moves *)
Theorem C10_ell_set_name_per_phase : forall cs rows i kn v ids, kn = 0%nat \/ kn = 3%nat ->
  length v = length rows -> length v <> 1%nat -> Forall (row_ok i) rows ->
  let r := ell_set cs rows (COne (Pos i)) kn (DVec v) ids in
  snd r = None /\ length (fst r) = length rows /\
  forall p, (p < length rows)%nat ->
    length (nth p (fst r) []) = length (nth p rows []) /\ nthq (nth p (fst r) []) i = nthq v p /\
    forall j, j <> i -> nthq (nth p (fst r) []) j = nthq (nth p rows []) j.
Proof. exact ell_set_name_per_phase. Qed.
Print Assumptions C10_ell_set_name_per_phase.

(* what indexer[key] = data does -- with the (..., IDs) branch in full -- after any history with safe configuration calls
   in between is a function of the current table, the data and the key *)
Theorem C10_ell_write_history_independent : forall c ixs sps hist i phs rows k dt, esafe (mkhs c (mkst [] [] ixs) sps) hist ->
  let h := eafter c ixs sps hist in
  nth_error (sixs (hst h)) i = Some (IM phs rows) ->
  snd (estep fixed h (ESet i k dt)) = let (r', e) := write_mat2 (hcf h) phs rows k dt in HB (BWr e r').
Proof. exact ell_write_after_history. Qed.
Print Assumptions C10_ell_write_history_independent.

Example C10_ell_full_nonvacuous :
  let ixs := [IM ["g"; "l"] [[1; 2; 4; 8]; [16; 32; 64; 128]]] in
  let hist := [EOp (HOp (OGet 0 (KTup [KEll; KStr "B_"]))); EOp (HCfg (CAlias "C_" "cee"))] in
  esafe (mkhs ex_cfg4 (mkst [] [] ixs) []) hist /\
  Forall (row_ok 1) [[1; 2; 4; 8]; [16; 32; 64; 128]] /\
  snd (estep fixed (eafter ex_cfg4 ixs [] hist) (ESet 0 (KTup [KEll; KStr "B_"]) (DVec [5; 7]))) = HB (BWr None [[1; 5; 4; 8]; [16; 7; 64; 128]]) /\
  snd (estep fixed (eafter ex_cfg4 ixs [] hist) (ESet 0 (KTup [KEll; KTup [KStr "cee"; KStr "A_"]]) (DVec [5]))) = HB (BWr None [[5; 2; 5; 8]; [5; 32; 5; 128]]) /\
  snd (estep fixed (eafter ex_cfg4 ixs [] hist) (ESet 0 (KTup [KEll; KTup [KStr "cee"; KStr "A_"]]) (DMat [[5; 6]; [7; 9]]))) = HB (BWr None [[6; 2; 5; 8]; [9; 32; 7; 128]]) /\
  snd (estep fixed (eafter ex_cfg4 ixs [] hist) (ESet 0 (KTup [KEll; KStr "G1"]) (DVec [4; 8]))) = HB (BWr None [[4 # 2; 8 # 2; 4; 8]; [4 # 2; 8 # 2; 64; 128]]).
Proof.
  split; [vm_compute; repeat split; reflexivity|]. split; [repeat constructor|].
  vm_compute. repeat split; reflexivity.
Qed.

(* ------------------------------------------------------------------ the repaired configuration calls (pending_fixes C10_4:
   set_alias / define_group empty the look-up caches of their chemicals object).  Model: ModelCfg.hstepc true / ModelEll.estepc true.
   The statements refuted above for the code as found hold WITHOUT any restriction on the calls *)
Theorem C10_cfg_fixed_lookup_pure : forall c ixs sps hist k,
  let h := eafterc c ixs sps hist in
  let t := tb (hcf h) in
  snd (chem_lookup t (scc (hst h)) k) = classify_chem t k
  /\ (forall phs, snd (mat_lookup fixed t phs (scc (hst h)) (mc_get (smc (hst h)) phs) k) = classify_mat fixed t phs k)
  /\ (forall cas, snd (overlap fixed t (scc (hst h)) cas) = overlap_pure t cas).
Proof. exact cfgc_lookup_pure. Qed.
Print Assumptions C10_cfg_fixed_lookup_pure.

(* the full statement ([cfg_read_history_independent_statement] over the repaired machine): reads after ANY history of look-ups,
   writes and configuration calls (redefinitions, phase letters, IDs taken over included) depend on the current table, the data
   and the key only *)
Theorem C10_cfg_fixed_read_history_independent : forall c ixs sps hist i k,
  let h := eafterc c ixs sps hist in
  snd (estepc true fixed h (EOp (HOp (OGet i k)))) =
  HB (match nth_error (sixs (hst h)) i with
      | Some (IC d) => obs_of_read (read_chem (tb (hcf h)) d k)
      | Some (IM phs rows) => obs_of_read (read_mat fixed (tb (hcf h)) (nchem (hcf h)) phs rows k)
      | None => BErr EOther
      end).
Proof. intros c ixs sps hist i k h. apply read_coh. apply eafterc_coh. Qed.
Print Assumptions C10_cfg_fixed_read_history_independent.

Theorem C10_cfg_fixed_write_history_independent : forall c ixs sps hist i phs rows k dt,
  let h := eafterc c ixs sps hist in
  nth_error (sixs (hst h)) i = Some (IM phs rows) ->
  snd (estepc true fixed h (ESet i k dt)) = let (r', e) := write_mat2 (hcf h) phs rows k dt in HB (BWr e r').
Proof. intros c ixs sps hist i phs rows k dt h. apply ell_write_coh. apply eafterc_coh. Qed.
Print Assumptions C10_cfg_fixed_write_history_independent.

Theorem C10_cfg_fixed_split_history_independent : forall c ixs sps hist i k dt,
  let h := eafterc c ixs sps hist in
  snd (estepc true fixed h (EOp (HSGet i k))) =
    match nth_error (hsp h) i with Some d => hobs_of_sread (split_read (tb (hcf h)) d k) | None => HSE EOther end /\
  snd (estepc true fixed h (EOp (HSSet i k dt))) =
    match nth_error (hsp h) i with
    | Some d => let (d', e) := split_write (tb (hcf h)) d k dt in HSW e d'
    | None => HSE EOther
    end.
Proof.
  intros c ixs sps hist i k dt h. pose proof (eafterc_coh c ixs sps hist) as H. fold h in H.
  split; [apply (split_read_coh h i k H)|apply (split_write_coh h i k dt H)].
Qed.
Print Assumptions C10_cfg_fixed_split_history_independent.

(* a configuration call of the repaired code leaves no cache entry at all *)
Theorem C10_cfg_fixed_clears : forall vr h o,
  scc (hst (fst (hstepc true vr h (HCfg o)))) = [] /\ smc (hst (fst (hstepc true vr h (HCfg o)))) = [].
Proof. intros vr h o. simpl. destruct (cstep (hcf h) o). simpl. auto. Qed.
Print Assumptions C10_cfg_fixed_clears.

(* the two witnesses of the old defect now read the fresh values *)
Example C10_cfg_fixed_witnesses :
  snd (estepc true fixed (eafterc ex_cfg4 [IC [1; 2; 4; 8]] [] (map EOp redefine_hist)) (EOp (HOp (OGet 0 (KStr "G1"))))) = HB (BVal (VNum 12)) /\
  snd (estepc true fixed (eafterc ex_cfg4 [IM ["g"; "l"] [[1; 2; 4; 8]; [16; 32; 64; 128]]] [] (map EOp phase_alias_hist)) (EOp (HOp (OGet 0 (KStr "l"))))) = HB (BVal (VNum 17)).
Proof. vm_compute. split; reflexivity. Qed.


(* ====================================================================== compositions handed to define_group as numpy arrays
   the caller keeps (ModelBuf.v): "a scalar written to a group is distributed by the group's composition" -- the composition
   the group was DEFINED with, whatever the caller does with its own array afterwards *)

(* for EVERY history of look-ups, reads, writes, configuration calls, definitions from caller arrays and writes of the caller
   into those arrays: the package, the caches, the flow data and every observation are those of the history in which each
   definition carries the values its view held at the time of the call and the caller's writes are left out.  So every
   theorem above about erunc histories holds for these histories too *)
Theorem C10_buf_history_resolves : forall clr vr ops s,
  bh (fst (brunc clr vr s ops)) = fst (erunc clr vr (bh s) (resolve (bbufs s) ops)) /\
  bproj (snd (brunc clr vr s ops)) = snd (erunc clr vr (bh s) (resolve (bbufs s) ops)).
Proof. exact brunc_resolve. Qed.
Print Assumptions C10_buf_history_resolves.

(* define_group only reads the caller's array: all caller arrays are unchanged and the view still holds what was given *)
Theorem C10_buf_define_leaves_caller_array : forall clr vr s name ids b len wt,
  bbufs (fst (bstepc clr vr s (BDefine name ids b len wt))) = bbufs s /\
  forall buf, nth_error (bbufs s) b = Some buf ->
    exists e, snd (bstepc clr vr s (BDefine name ids b len wt)) = BD e (firstn len buf).
Proof. intros. split; [apply define_keeps_bufs|intros buf Hb; apply define_view_obs; exact Hb]. Qed.
Print Assumptions C10_buf_define_leaves_caller_array.

(* any number of writes of the caller into its arrays changes nothing of the package (table, compositions), the caches or the
   data, hence no later observation of the flow machine *)
Theorem C10_buf_caller_writes_frame : forall clr vr pokes s o, forallb is_poke pokes = true ->
  let s' := fst (brunc clr vr s pokes) in
  bh s' = bh s /\ snd (bstepc clr vr s' (BOp o)) = snd (bstepc clr vr s (BOp o)).
Proof.
  intros clr vr pokes s o H s'. pose proof (pokes_frame clr vr pokes s H) as E. fold s' in E.
  split; [exact E|]. cbn [bstepc]. rewrite E. destruct (estepc clr vr (bh s) o) as [h' ob]. reflexivity.
Qed.
Print Assumptions C10_buf_caller_writes_frame.

(* a successful definition from a view holding v, followed by any writes of the caller: the stored molar and mass compositions
   of the group are the normalised v (converted by the molecular weights for the other basis) *)
Theorem C10_buf_group_composition_as_defined : forall clr vr s name ids b len wt buf pokes,
  nth_error (bbufs s) b = Some buf ->
  snd (bstepc clr vr s (BDefine name ids b len wt)) = BD None (firstn len buf) ->
  forallb is_poke pokes = true ->
  let v := firstn len buf in
  let c' := hcf (bh (fst (brunc clr vr (fst (bstepc clr vr s (BDefine name ids b len wt))) pokes))) in
  exists idx, let mwi := map (nthq (mws (hcf (bh s)))) idx in
    sassoc (comps c') name = Some (let cm := if wt then map2 Qdiv v mwi else v in vdivs cm (qsum cm)) /\
    sassoc (wcomps c') name = Some (let cw := if wt then v else vmul v mwi in vdivs cw (qsum cw)).
Proof.
  intros clr vr s name ids b len wt buf pokes Hb Hob Hp v c'. subst c'.
  rewrite (pokes_frame clr vr pokes _ Hp).
  revert Hob. cbn [bstepc]. rewrite Hb. cbn [estepc hstepc cstep].
  destruct (define_group (hcf (bh s)) name ids (Some (firstn len buf)) wt) as [c1 e] eqn:E.
  cbn [fst snd bh hcf]. intros Hob. injection Hob as He. subst e.
  exact (define_stores _ _ _ _ _ _ E).
Qed.
Print Assumptions C10_buf_group_composition_as_defined.

(* non-vacuity, and the situation itself: G1 is defined from the caller's array [1; 3], the caller re-uses the array for
   [7; 1], then 8 is written to G1: the members receive 2 and 6 and the read-back is 8; the caller's array holds [7; 1] *)
Example C10_buf_reuse_example :
  let s0 := mkbs (mkhs ex_cfg4 (mkst [] [] [IC [1; 2; 4; 8]]) []) [[1; 3; 0]] in
  let r := brunc true fixed s0 [BDefine "G9" ["A_"; "B_"] 0 2 false; BPoke 0 [7; 1];
                                BOp (ESet 0 (KStr "G9") (DNum 8)); BOp (EOp (HOp (OGet 0 (KStr "G9")))); BOp (EOp (HOp (OGet 0 KEll)))] in
  list_eqb bobs_eqb (snd r) [BD None [1; 3]; BP [7; 1; 0]; BH (HB (BWr None [[2; 6; 4; 8]])); BH (HB (BVal (VNum 8))); BH (HB (BVal (VVec [2; 6; 4; 8])))] = true
  /\ bbufs (fst r) = [[7; 1; 0]].
Proof. vm_compute. split; reflexivity. Qed.
