(* C10 -- property theorems only *)
From V Require Import Common.NumFacts C10.Model C10.Proofs.
