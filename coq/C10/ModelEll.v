(* C10 -- executable model, third part: indexer[..., IDs] = data for every data form.  No proofs in this file. *)
From V Require Export C10.ModelCfg.

(* ------------------------------------------------------------------ indexer[..., IDs] = data for EVERY data form:
   MaterialIndexer.__setitem__ (indexer.py:1044-1058) goes through SparseArray.__setitem__ with the index (slice(None), n)
   (base/sparse.py:813-855) and, row by row, SparseVector.__setitem__ (base/sparse.py:1645-1707); both first strip leading
   dimensions of length one from the value (reduce_ndim, base/sparse.py:464-493) *)
Inductive colix := CI (i : nat) | CL (l : list nat).

Definition reduce_data (dt : data) : data :=
  match dt with
  | DNum x => DNum x
  | DVec [x] => DNum x
  | DVec v => DVec v
  | DMat [] => DVec []
  | DMat [[x]] => DNum x
  | DMat [v] => DVec v
  | DMat m => DMat m
  end.

(* SparseVector.__setitem__(n, value) *)
Definition sv_set (d : vec) (n : colix) (dt : data) : vec * option err :=
  match n, reduce_data dt with
  | CL idx, DNum x => (wr_all d idx x, None)
  | CL idx, DVec v => (wr_zip d idx v, None)
  | CL idx, DMat _ => (d, Some EIndex)
  | CI i, DNum x => (wr d i x, None)
  | CI i, _ => (d, Some EIndex)
  end.

(* `for i, j in zip(rows, value): i[n] = j`, stopping at the first row that raises *)
Fixpoint zip_rows {A} (f : vec -> A -> vec * option err) (rows : list vec) (xs : list A) : list vec * option err :=
  match rows, xs with
  | r :: rs, x :: xs' =>
      match f r x with
      | (r', None) => let (rs', e) := zip_rows f rs xs' in (r' :: rs', e)
      | (r', Some e) => (r' :: rs, Some e)
      end
  | _, _ => (rows, None)
  end.

(* SparseArray.__setitem__((slice(None), n), value) *)
Definition sa_col_set (rows : list vec) (n : colix) (dt : data) : list vec * option err :=
  match reduce_data dt with
  | DNum x => map_rows (fun r => sv_set r n (DNum x)) rows
  | DVec v =>
      match n with
      | CL _ => map_rows (fun r => sv_set r n (DVec v)) rows        (* a list index: every row gets the vector *)
      | CI i => zip_rows (fun r x => (wr r i x, None)) rows v       (* one chemical: one value PER PHASE *)
      end
  | DMat m => zip_rows (fun r j => sv_set r n (DVec j)) rows m       (* one row of values per phase *)
  end.

(* `data * composition` with numpy broadcasting *)
Definition mul_comp (dt : data) (c : vec) : res data :=
  match dt with
  | DNum x => Ok (DVec (vscale x c))
  | DVec v => if Nat.eqb (length v) (length c) then Ok (DVec (map2 Qmult v c))
              else if Nat.eqb (length v) 1 then Ok (DVec (vscale (nthq v 0) c))
              else if Nat.eqb (length c) 1 then Ok (DVec (vscale (nthq c 0) v))
              else Err EValue
  | DMat _ => Err EOther                                             (* 2-d data times a composition: not modelled *)
  end.

(* kind 2: `for n, i in enumerate(index): sparse_data[:, i] = data[n] * group_compositions[key[n]] if <group> else data[n]`:
   element after element over ALL rows, stopping at the first element that raises *)
Fixpoint ell_nested (cs : list (string * vec)) (rows : list vec) (ts : list target) (elems : list key) (items : list data)
  : list vec * option err :=
  match ts with
  | [] => (rows, None)
  | t :: ts' =>
      match items with
      | [] => (rows, Some EIndex)
      | it :: items' =>
          let r := match t with
                   | Pos i => sa_col_set rows (CI i) it
                   | Grp l =>
                       match comp_of cs (hd KEll elems) with
                       | Some c => match mul_comp it c with
                                   | Ok v => sa_col_set rows (CL l) v
                                   | Err e => (rows, Some e)
                                   end
                       | None => (rows, Some EOther)
                       end
                   end in
          match r with
          | (rows', None) => ell_nested cs rows' ts' (tl elems) items'
          | (rows', Some e) => (rows', Some e)
          end
      end
  end.

Definition ell_set (cs : list (string * vec)) (rows : list vec) (ci : cindex) (kn : nat) (dt : data) (ids : key)
  : list vec * option err :=
  match kn, ci with
  | (0%nat | 3%nat), COne (Pos i) => sa_col_set rows (CI i) dt
  | (0%nat | 3%nat), CMany ts => if existsb is_grp ts then (rows, Some EOther) else sa_col_set rows (CL (poss ts)) dt
  | 1%nat, COne (Grp l) =>
      match comp_of cs ids with
      | Some c => match mul_comp dt c with
                  | Ok v => sa_col_set rows (CL l) v
                  | Err e => (rows, Some e)
                  end
      | None => (rows, Some EOther)
      end
  | 2%nat, CMany ts =>
      match dt with
      | DNum _ => (rows, Some EType)                                (* data[n] on a float *)
      | DVec xs => ell_nested cs rows ts (key_elems ids) (map DNum xs)
      | DMat m => ell_nested cs rows ts (key_elems ids) (map DVec m)
      end
  | _, _ => (rows, Some EOther)
  end.

(* SparseVector.__setitem__(slice(None), value): the value is stripped first; more than one dimension raises BEFORE the clear *)
Definition sv_all_set (d : vec) (dt : data) : vec * option err :=
  match reduce_data dt with
  | DNum x => (repeat x (length d), None)
  | DVec v => (wr_zip (vzero (length d)) (seq 0 (length d)) v, None)
  | DMat _ => (d, Some EIndex)
  end.

(* indexer[..., ...] = data: SparseArray.__setitem__(slice(None), value) (base/sparse.py:942-971) *)
Definition sa_all_set (rows : list vec) (dt : data) : list vec * option err :=
  match reduce_data dt with
  | DNum x => map_rows (fun r => sv_all_set r (DNum x)) rows
  | DVec v => map_rows (fun r => sv_all_set r (DVec v)) rows
  | DMat m => zip_rows (fun r j => sv_all_set r (DVec j)) rows m     (* one row of values per phase; extra rows on either side stay *)
  end.

(* MaterialIndexer.__setitem__ with the (..., IDs) and (..., ...) branches modelled in full *)
Definition mat_set2 (cs : list (string * vec)) (rows : list vec) (v : mval) (dt : data) (k : key) : list vec * option err :=
  match v with
  | (MPair None ci, Some kn, false) => ell_set cs rows ci kn dt (second k)
  | (MNone, None, false) => sa_all_set rows dt
  | _ => mat_set cs rows v dt k
  end.


(* ------------------------------------------------------------------ the history machine of ModelCfg.v with this branch in place *)
Inductive eop :=
| EOp (o : hop)
| ESet (i : nat) (k : key) (dt : data).          (* indexer[key] = data, the (..., IDs) branch modelled in full *)

Definition estep (vr : variant) (h : hstate) (o : eop) : hstate * hobs :=
  match o with
  | EOp o => hstep vr h o
  | ESet i k dt =>
      let c := hcf h in let s := hst h in
      match nth_error (sixs s) i with
      | Some (IM phs rows) =>
          let '(cc', mc', r) := mat_lookup vr (tb c) phs (scc s) (mc_get (smc s) phs) k in
          match r with
          | Ok v =>
              let (rows', e) := mat_set2 (comps c) rows v dt k in
              (mkhs c (mkst cc' (mc_set (smc s) phs mc') (upd (sixs s) i (IM phs rows'))) (hsp h), HB (BWr e rows'))
          | Err e => (mkhs c (mkst cc' (mc_set (smc s) phs mc') (sixs s)) (hsp h), HB (BWr (Some e) rows))
          end
      | _ => hstep vr h (HOp (OSet i k dt))
      end
  end.

Fixpoint erun (vr : variant) (h : hstate) (ops : list eop) : hstate * list hobs :=
  match ops with
  | [] => (h, [])
  | o :: r => let (h', b) := estep vr h o in let (h'', bs) := erun vr h' r in (h'', b :: bs)
  end.

Definition ecase_eqb (vr : variant) (chems : list chem) (cops : list cop) (cop_errs : list (option err))
           (ixs : list ixr) (sps : list vec) (ops : list eop) (exp_obs : list hobs)
           (exp_table : list (string * target)) (absent : list string) (exp_comps exp_wcomps : list (string * vec))
           (exp_cc : ccache) (exp_mc : list (list string * mcache)) (exp_sps : list vec) : bool :=
  match compile chems with
  | Err _ => false
  | Ok c0 =>
      let (c1, es) := cbuild c0 cops in
      let (h, bs) := erun vr (mkhs c1 (mkst [] [] ixs) sps) ops in
      let c := hcf h in let s := hst h in
      list_eqb (opt_eqb err_eqb) es cop_errs
      && list_eqb hobs_eqb bs exp_obs
      && table_agrees (tb c) exp_table absent && comps_agree (comps c) exp_comps && comps_agree (wcomps c) exp_wcomps
      && ccache_eqb (scc s) exp_cc
      && forallb (fun pc => mcache_eqb (mc_get (smc s) (fst pc)) (snd pc)) exp_mc
      && list_eqb vapproxb (hsp h) exp_sps
  end.

(* ------------------------------------------------------------------ the same machine over the repaired configuration calls *)
Definition estepc (clr : bool) (vr : variant) (h : hstate) (o : eop) : hstate * hobs :=
  match o with
  | EOp o => hstepc clr vr h o
  | ESet _ _ _ => estep vr h o
  end.

Fixpoint erunc (clr : bool) (vr : variant) (h : hstate) (ops : list eop) : hstate * list hobs :=
  match ops with
  | [] => (h, [])
  | o :: r => let (h', b) := estepc clr vr h o in let (h'', bs) := erunc clr vr h' r in (h'', b :: bs)
  end.

Definition ecasec_eqb (clr : bool) (vr : variant) (chems : list chem) (cops : list cop) (cop_errs : list (option err))
           (ixs : list ixr) (sps : list vec) (ops : list eop) (exp_obs : list hobs)
           (exp_table : list (string * target)) (absent : list string) (exp_comps exp_wcomps : list (string * vec))
           (exp_cc : ccache) (exp_mc : list (list string * mcache)) (exp_sps : list vec) : bool :=
  match compile chems with
  | Err _ => false
  | Ok c0 =>
      let (c1, es) := cbuild c0 cops in
      let (h, bs) := erunc clr vr (mkhs c1 (mkst [] [] ixs) sps) ops in
      let c := hcf h in let s := hst h in
      list_eqb (opt_eqb err_eqb) es cop_errs
      && list_eqb hobs_eqb bs exp_obs
      && table_agrees (tb c) exp_table absent && comps_agree (comps c) exp_comps && comps_agree (wcomps c) exp_wcomps
      && ccache_eqb (scc s) exp_cc
      && forallb (fun pc => mcache_eqb (mc_get (smc s) (fst pc)) (snd pc)) exp_mc
      && list_eqb vapproxb (hsp h) exp_sps
  end.
