(* C10 -- lemmas about the full model of indexer[..., IDs] = data *)
From V Require Import Common.NumFacts C10.Model C10.ModelCfg C10.ModelEll C10.Proofs C10.ProofsDeep C10.ProofsCfg.

Lemma map_rows_total (f : vec -> vec * option err) (g : vec -> vec) rows :
  (forall r, f r = (g r, None)) -> map_rows f rows = (map g rows, None).
Proof.
  intros H. induction rows as [|r rs IH]; simpl; auto. rewrite H, IH. reflexivity.
Qed.

Lemma wr_zip_one (d : vec) i l y : wr_zip d (i :: l) [y] = wr d i y.
Proof. simpl. destruct l; reflexivity. Qed.

(* on the forms Model.mat_set already covers, the full model of the (..., IDs) branch gives the same result *)
Lemma ell_agrees_name cs rows i kn x k : kn = 0%nat \/ kn = 3%nat ->
  mat_set2 cs rows (MPair None (COne (Pos i)), Some kn, false) (DNum x) k =
  mat_set cs rows (MPair None (COne (Pos i)), Some kn, false) (DNum x) k.
Proof.
  intros [-> | ->]; unfold mat_set2, ell_set, sa_col_set; simpl;
    apply (map_rows_total _ (fun r => wr r i x)); reflexivity.
Qed.

Lemma ell_agrees_list_scalar cs rows ts kn x k : kn = 0%nat \/ kn = 3%nat ->
  mat_set2 cs rows (MPair None (CMany ts), Some kn, false) (DNum x) k =
  mat_set cs rows (MPair None (CMany ts), Some kn, false) (DNum x) k.
Proof.
  intros [-> | ->]; unfold mat_set2, ell_set, sa_col_set; simpl; destruct (existsb is_grp ts); auto;
    apply (map_rows_total _ (fun r => wr_all r (poss ts) x)); reflexivity.
Qed.

Lemma ell_agrees_list_vec cs rows ts kn v k : kn = 0%nat \/ kn = 3%nat -> length (poss ts) = length v ->
  mat_set2 cs rows (MPair None (CMany ts), Some kn, false) (DVec v) k =
  mat_set cs rows (MPair None (CMany ts), Some kn, false) (DVec v) k.
Proof.
  intros K L. assert (E : sa_col_set rows (CL (poss ts)) (DVec v) = (map (fun r => wr_zip r (poss ts) v) rows, None)).
  { unfold sa_col_set. destruct v as [|y [|z v]].
    - simpl. apply map_rows_total. reflexivity.
    - simpl. destruct (poss ts) as [|i [|j l]]; simpl in L; try discriminate.
      apply map_rows_total. reflexivity.
    - simpl. apply map_rows_total. reflexivity. }
  destruct K as [-> | ->]; unfold mat_set2, ell_set; simpl; destruct (existsb is_grp ts); auto.
Qed.

Lemma ell_agrees_group_scalar cs rows l x s c p : sassoc cs s = Some c -> length l = length c ->
  mat_set2 cs rows (MPair None (COne (Grp l)), Some 1%nat, false) (DNum x) (KTup [p; KStr s]) =
  mat_set cs rows (MPair None (COne (Grp l)), Some 1%nat, false) (DNum x) (KTup [p; KStr s]).
Proof.
  intros Hc L. unfold mat_set2, ell_set. simpl. unfold vec in *. rewrite Hc.
  unfold sa_col_set. destruct c as [|y [|z c]].
  - simpl. apply map_rows_total. reflexivity.
  - simpl. destruct l as [|i [|j l]]; simpl in L; try discriminate. apply map_rows_total. reflexivity.
  - simpl. apply map_rows_total. reflexivity.
Qed.

(* the form Model.mat_set leaves out: indexer[..., name] = [one value per phase] *)
Lemma zip_rows_wr i : forall rows v, length rows = length v ->
  zip_rows (fun r x => (wr r i x, None)) rows v = (map (fun rx => wr (fst rx) i (snd rx)) (combine rows v), None).
Proof.
  induction rows as [|r rs IH]; intros [|x v] L; simpl in *; try discriminate; auto.
  rewrite IH by lia. reflexivity.
Qed.

Lemma nth_combine_wr i : forall rows v p, length rows = length v -> (p < length rows)%nat ->
  nth p (map (fun rx : vec * Q => wr (fst rx) i (snd rx)) (combine rows v)) [] = wr (nth p rows []) i (nthq v p).
Proof.
  induction rows as [|r rs IH]; intros [|x v] [|p] L Hp; simpl in *; try discriminate; try lia; auto.
  unfold nthq. simpl. apply IH; lia.
Qed.

Lemma ell_set_name_per_phase cs rows i kn v ids : kn = 0%nat \/ kn = 3%nat ->
  length v = length rows -> length v <> 1%nat -> Forall (row_ok i) rows ->
  let r := ell_set cs rows (COne (Pos i)) kn (DVec v) ids in
  snd r = None /\ length (fst r) = length rows /\
  forall p, (p < length rows)%nat ->
    length (nth p (fst r) []) = length (nth p rows []) /\ nthq (nth p (fst r) []) i = nthq v p /\
    forall j, j <> i -> nthq (nth p (fst r) []) j = nthq (nth p rows []) j.
Proof.
  intros K L N1 OK.
  assert (E : ell_set cs rows (COne (Pos i)) kn (DVec v) ids =
              (map (fun rx => wr (fst rx) i (snd rx)) (combine rows v), None)).
  { assert (R : reduce_data (DVec v) = DVec v). { destruct v as [|y [|z v]]; simpl in *; auto; congruence. }
    destruct K as [-> | ->]; unfold ell_set, sa_col_set; rewrite R; apply zip_rows_wr; auto. }
  simpl. rewrite E. simpl. split; auto. split.
  - rewrite map_length, combine_length. lia.
  - intros p Hp. rewrite nth_combine_wr by auto.
    assert (Hi : (i < length (nth p rows []))%nat).
    { rewrite Forall_forall in OK. apply OK. apply nth_In. exact Hp. }
    split; [apply wr_length|]. split.
    + unfold wr. apply nth_upd_same. exact Hi.
    + intros j Hj. unfold wr. apply nth_upd_other. congruence.
Qed.

(* ------------------------------------------------------------------ histories *)
Definition eop_safe (h : hstate) (o : eop) : Prop := match o with EOp o => hop_safe h o | ESet _ _ _ => True end.

Lemma estep_coh h o : hcoh h -> eop_safe h o -> hcoh (fst (estep fixed h o)).
Proof.
  intros H S. destruct o as [o|i k dt]; [apply hstep_coh; auto|].
  cbn [estep]. destruct (nth_error (sixs (hst h)) i) as [[d|phs rows]|] eqn:E; try (apply hstep_coh; simpl; auto).
  destruct H as [Hc Hm].
  destruct (mat_lookup_spec (tb (hcf h)) phs (scc (hst h)) (mc_get (smc (hst h)) phs) k Hc (Hm phs)) as (M1 & M2 & _).
  destruct (mat_lookup fixed (tb (hcf h)) phs (scc (hst h)) (mc_get (smc (hst h)) phs) k) as [[cc' mc'] [v|e]]; simpl in *.
  - destruct (mat_set2 (comps (hcf h)) rows v dt k). unfold hcoh. simpl. apply coh_mc_set; auto.
  - unfold hcoh. simpl. apply coh_mc_set; auto.
Qed.

Fixpoint esafe (h : hstate) (ops : list eop) : Prop :=
  match ops with
  | [] => True
  | o :: r => eop_safe h o /\ esafe (fst (estep fixed h o)) r
  end.

Lemma erun_coh ops : forall h, hcoh h -> esafe h ops -> hcoh (fst (erun fixed h ops)).
Proof.
  induction ops as [|o r IH]; intros h H S; simpl; auto.
  destruct S as [S1 S2]. pose proof (estep_coh h o H S1) as H1.
  destruct (estep fixed h o) as [h' b]. simpl in *.
  specialize (IH h' H1 S2). destruct (erun fixed h' r) as [h'' bs]. exact IH.
Qed.

Definition eafter (c : cfg) (ixs : list ixr) (sps : list vec) (hist : list eop) : hstate :=
  fst (erun fixed (mkhs c (mkst [] [] ixs) sps) hist).

Definition write_mat2 (c : cfg) (phs : list string) (rows : list vec) (k : key) (dt : data) : list vec * option err :=
  match classify_mat fixed (tb c) phs k with
  | Ok v => mat_set2 (comps c) rows v dt k
  | Err e => (rows, Some e)
  end.

Lemma ell_write_after_history c ixs sps hist i phs rows k dt : esafe (mkhs c (mkst [] [] ixs) sps) hist ->
  let h := eafter c ixs sps hist in
  nth_error (sixs (hst h)) i = Some (IM phs rows) ->
  snd (estep fixed h (ESet i k dt)) = let (r', e) := write_mat2 (hcf h) phs rows k dt in HB (BWr e r').
Proof.
  intros S h Hi. assert (H : hcoh h). { apply erun_coh; auto. apply coh_init. }
  cbn [estep]. rewrite Hi. destruct H as [Hc Hm].
  destruct (mat_lookup_spec (tb (hcf h)) phs (scc (hst h)) (mc_get (smc (hst h)) phs) k Hc (Hm phs)) as (_ & _ & M3).
  destruct (mat_lookup fixed (tb (hcf h)) phs (scc (hst h)) (mc_get (smc (hst h)) phs) k) as [[cc' mc'] r]. simpl in M3. subst r.
  unfold write_mat2. destruct (classify_mat fixed (tb (hcf h)) phs k) as [v|e]; simpl; auto.
  destruct (mat_set2 (comps (hcf h)) rows v dt k); reflexivity.
Qed.

(* ------------------------------------------------------------------ the repaired configuration calls: no restriction needed *)
Lemma estepc_coh h o : hcoh h -> hcoh (fst (estepc true fixed h o)).
Proof.
  intros H. destruct o as [o|i k dt]; [|apply (estep_coh h (ESet i k dt)); simpl; auto].
  destruct o as [o|o|i k|i k dt]; try (apply (hstep_coh h); simpl; auto).
  simpl. destruct (cstep (hcf h) o) as [c' e]. unfold hcoh. simpl. apply coh_init.
Qed.

Lemma erunc_coh ops : forall h, hcoh h -> hcoh (fst (erunc true fixed h ops)).
Proof.
  induction ops as [|o r IH]; intros h H; simpl; auto.
  pose proof (estepc_coh h o H) as H1. destruct (estepc true fixed h o) as [h' b]. simpl in *.
  specialize (IH h' H1). destruct (erunc true fixed h' r) as [h'' bs]. exact IH.
Qed.

Definition eafterc (c : cfg) (ixs : list ixr) (sps : list vec) (hist : list eop) : hstate :=
  fst (erunc true fixed (mkhs c (mkst [] [] ixs) sps) hist).

Lemma eafterc_coh c ixs sps hist : hcoh (eafterc c ixs sps hist).
Proof. apply erunc_coh. apply coh_init. Qed.

Lemma cfgc_lookup_pure c ixs sps hist k :
  let h := eafterc c ixs sps hist in
  let t := tb (hcf h) in
  snd (chem_lookup t (scc (hst h)) k) = classify_chem t k
  /\ (forall phs, snd (mat_lookup fixed t phs (scc (hst h)) (mc_get (smc (hst h)) phs) k) = classify_mat fixed t phs k)
  /\ (forall cas, snd (overlap fixed t (scc (hst h)) cas) = overlap_pure t cas).
Proof.
  intros h t. destruct (eafterc_coh c ixs sps hist) as [Hc Hm]. fold h in Hc, Hm. fold t in Hc, Hm.
  split; [|split].
  - apply chem_lookup_spec; auto.
  - intros phs. apply mat_lookup_spec; auto.
  - intros cas. apply overlap_spec; auto.
Qed.

Lemma read_coh h i k : hcoh h ->
  snd (estepc true fixed h (EOp (HOp (OGet i k)))) =
  HB (match nth_error (sixs (hst h)) i with
      | Some (IC d) => obs_of_read (read_chem (tb (hcf h)) d k)
      | Some (IM phs rows) => obs_of_read (read_mat fixed (tb (hcf h)) (nchem (hcf h)) phs rows k)
      | None => BErr EOther
      end).
Proof.
  intros H. pose proof (read_history_independent (hcf h) (hst h) i k H) as R.
  cbn [estepc hstepc hstep]. destruct (step fixed (hcf h) (hst h) (OGet i k)) as [s' b]. simpl in *. rewrite R. reflexivity.
Qed.

Lemma ell_write_coh h i phs rows k dt : hcoh h ->
  nth_error (sixs (hst h)) i = Some (IM phs rows) ->
  snd (estepc true fixed h (ESet i k dt)) = let (r', e) := write_mat2 (hcf h) phs rows k dt in HB (BWr e r').
Proof.
  intros [Hc Hm] Hi. cbn [estepc estep]. rewrite Hi.
  destruct (mat_lookup_spec (tb (hcf h)) phs (scc (hst h)) (mc_get (smc (hst h)) phs) k Hc (Hm phs)) as (_ & _ & M3).
  destruct (mat_lookup fixed (tb (hcf h)) phs (scc (hst h)) (mc_get (smc (hst h)) phs) k) as [[cc' mc'] r]. simpl in M3. subst r.
  unfold write_mat2. destruct (classify_mat fixed (tb (hcf h)) phs k) as [v|e]; simpl; auto.
  destruct (mat_set2 (comps (hcf h)) rows v dt k); reflexivity.
Qed.
