From V Require Import Common.NumFacts C08.Model C08.Proofs.
Theorem C08_placeholder : 1 == 1. Proof. exact placeholder. Qed.
Print Assumptions C08_placeholder.
