(* C08 — property theorems only.  Each is closed by [exact <lemma>] and followed by Print Assumptions.
   The model (C08/Model.v) is of the code WITH pending_fixes/C08_1 applied (solve_Ty / solve_Tx / solve_Px
   hand the normalised composition to the residual).  Root finders are oracles: secant_ok / iq_ok / weg_fix. *)
From V Require Import Common.NumFacts C08.Model C08.Gen_kernels C08.Proofs.
From Coq Require Import Permutation.

(* normalised output: fn.normalize returns fractions that sum to one (also in its equal-fractions fallback)
   and never makes a non-negative vector negative *)
Theorem C08_normalised_out : forall a, a <> [] ->
  qsum (normalize a) == 1 /\ (nonneg a -> nonneg (normalize a)) /\ length (normalize a) = length a.
Proof. intros a H. split; [exact (normalize_sum1 a H)|]. split; [exact (normalize_nonneg a) | exact (normalize_length a)]. Qed.
Print Assumptions C08_normalised_out.

(* a computed bubble temperature satisfies modified Raoult's law on the normalised composition:
   the implied vapour fractions sum to one and they are what is returned *)
Theorem C08_solve_Ty_equation : forall k S z P T y, secant_ok S -> iq_ok S -> N2 z ->
  solve_Ty k S z P = Ok (T, y) ->
  0 < T /\ qsum y == 1 /\ y =v= raoult_y k S (znorm z) T P /\ qsum (raoult_y k S (znorm z) T P) == 1.
Proof. exact solve_Ty_equation. Qed.
Print Assumptions C08_solve_Ty_equation.

(* all four wrappers: the result is a root of the residual built from z/sum z, the returned fractions are
   the ones written by the residual at that root and they sum to one *)
Theorem C08_solve_equations : forall k S z a r out, secant_ok S -> iq_ok S -> N2 z ->
  (solve_Ty k S z a = Ok (r, out) ->
     qsum out == 1 /\ exists raw, out =v= raw /\ root_of (bubble_T_error k S a (vdivs (znorm z) a) (znorm z)) r raw) /\
  (solve_Py k S z a = Ok (r, out) ->
     qsum out == 1 /\ exists raw, out =v= raw /\
       root_of (bubble_P_error k S (clampT k a) (Py_prep k z (clampT k a)) (psats_at k (clampT k a))) r raw) /\
  (solve_Tx k S z a = Ok (r, out) ->
     qsum out == 1 /\ exists raw, out =v= raw /\
       root_of (dew_T_error k S a (znorm z) (map (fun u => u * a) (znorm z))) r raw) /\
  (solve_Px k S z a = Ok (r, out) ->
     qsum out == 1 /\ exists raw, out =v= raw /\
       root_of (dew_P_error k S a (fst (Px_prep k z a)) (snd (Px_prep k z a)) (psats_at k a)) r raw).
Proof. exact solve_all_equations. Qed.
Print Assumptions C08_solve_equations.

(* The dew-equation clause at full strength (no assumption on the root finders; for activity-coefficient packages too):
   a computed dew temperature satisfies the dew equation on the normalised composition.
   What is proved is C08_dew_equation_partial: the clause under the oracle contracts secant_ok / iq_ok (the solver returns a
   root of the residual it was given, the last evaluation being at that root).  Those contracts - and weg_fix for the inner
   x*gamma iteration - are exactly what the real flexsolve (aitken_secant / IQ_interpolation called with checkiter=False,
   wegstein with maxiter 50 and no convergence check) fails to deliver for partially miscible systems with a
   composition-dependent gamma: e.g. Water/Ammonia/Benzene z=(1,3,1), Dortmund, T=348.46 K: solve_Px returns a point with
   1 - sum(x) = 0.66.  That is the registered known finding C08:dew-equation; its witness (props/C08.py WITNESSES) is
   replayed by oracle() on every run.  C08_dew_equation_refuted shows inside the model that the clause is false as soon as
   the root finder breaks its contract (the wrapper hands through whatever the solver returns). *)
Definition C08_dew_equation_statement : Prop := forall k S z P T x, N2 z ->
  solve_Tx k S z P = Ok (T, x) ->
  qsum x == 1 /\ exists raw, x =v= raw /\ root_of (dew_T_error k S P (znorm z) (map (fun u => u * P) (znorm z))) T raw.
Theorem C08_dew_equation_refuted : ~ C08_dew_equation_statement.
Proof. exact dew_equation_needs_contract. Qed.
Print Assumptions C08_dew_equation_refuted.
Theorem C08_dew_equation_partial : forall k S z P T x, secant_ok S -> iq_ok S -> N2 z ->
  solve_Tx k S z P = Ok (T, x) ->
  qsum x == 1 /\ exists raw, x =v= raw /\ root_of (dew_T_error k S P (znorm z) (map (fun u => u * P) (znorm z))) T raw.
Proof.
  intros k S z P T x HS HI HN H.
  exact (proj1 (proj2 (proj2 (solve_all_equations k S z P T x HS HI HN))) H).
Qed.
Print Assumptions C08_dew_equation_partial.

(* listing the chemicals in another order permutes z, Psat, gamma, pcf: the residual is unchanged and the
   vapour fractions are permuted the same way *)
Theorem C08_residual_perm : forall s k k' S S' P zoP zn buf buf' T v y v' y',
  perm_pkg s k k' -> length zoP = length (chems k) -> length zn = length (chems k) ->
  bubble_T_error k S P zoP zn buf T = Ok (v, y) ->
  bubble_T_error k' S' P (vperm s zoP) (vperm s zn) buf' T = Ok (v', y') ->
  v' == v /\ y' = vperm s y.
Proof. exact residual_perm_lemma. Qed.
Print Assumptions C08_residual_perm.
Theorem C08_psats_perm : forall k k' s d T,
  Forall (fun i => (i < length (chems k))%nat) s -> chems k' = map (fun i => nth i (chems k) d) s ->
  psats_at k' T = vperm s (psats_at k T).
Proof. exact psats_at_perm. Qed.
Print Assumptions C08_psats_perm.

(* scale invariance: the wrappers use z only through positives z and z / sum z *)
Theorem C08_prep_scale : forall k c z a, 0 < c -> ~ qsum z == 0 ->
  positives (vscale c z) = positives z /\ znorm (vscale c z) =v= znorm z /\
  fst (Ty_prep (vscale c z) a) =v= fst (Ty_prep z a) /\ snd (Ty_prep (vscale c z) a) =v= snd (Ty_prep z a) /\
  fst (Tx_prep (vscale c z) a) =v= fst (Tx_prep z a) /\ snd (Tx_prep (vscale c z) a) =v= snd (Tx_prep z a) /\
  fst (Px_prep k (vscale c z) a) =v= fst (Px_prep k z a) /\ snd (Px_prep k (vscale c z) a) =v= snd (Px_prep k z a).
Proof.
  intros k c z a Hc Hz. split; [exact (positives_scale c z Hc)|].
  split; [apply znorm_scale; [lra | exact Hz] | exact (prep_scale k c z a Hc Hz)].
Qed.
Print Assumptions C08_prep_scale.
Theorem C08_residual_scale_T : forall k S P c z buf buf' T,
  0 < c -> ~ qsum z == 0 -> phi_ideal k = true -> gam_proper k ->
  resid_equiv
    (bubble_T_error k S P (fst (Ty_prep (vscale c z) P)) (snd (Ty_prep (vscale c z) P)) buf T)
    (bubble_T_error k S P (fst (Ty_prep z P)) (snd (Ty_prep z P)) buf' T).
Proof. exact residual_scale_T_lemma. Qed.
Print Assumptions C08_residual_scale_T.
Theorem C08_residual_scale_P : forall k S T c z buf buf' P,
  0 < c -> ~ qsum z == 0 -> phi_ideal k = true -> gam_proper k ->
  resid_equiv
    (bubble_P_error k S T (Py_prep k (vscale c z) T) (psats_at k T) buf P)
    (bubble_P_error k S T (Py_prep k z T) (psats_at k T) buf' P).
Proof. exact residual_scale_P_lemma. Qed.
Print Assumptions C08_residual_scale_P.
Theorem C08_residual_scale_dew : forall k S P c z buf buf' T v1 x1 v2 x2,
  0 < c -> ~ qsum z == 0 -> ideal_pkg k -> weg_fix S k -> length z = length (chems k) ->
  Forall (fun p => c1em16 <= p) (psats_at k T) ->
  dew_T_error k S P (fst (Tx_prep (vscale c z) P)) (snd (Tx_prep (vscale c z) P)) buf T = Ok (v1, x1) ->
  dew_T_error k S P (fst (Tx_prep z P)) (snd (Tx_prep z P)) buf' T = Ok (v2, x2) ->
  v1 == v2 /\ x1 =v= x2.
Proof. exact residual_scale_dew_lemma. Qed.
Print Assumptions C08_residual_scale_dew.

(* gamma = phi = pcf = 1: closed forms of the two equations *)
Theorem C08_ideal_closed_form_bubble : forall k S P z buf T v y,
  ideal_pkg k -> length z = length (chems k) -> ~ P == 0 ->
  bubble_T_error k S P (vdivs z P) z buf T = Ok (v, y) ->
  (v == 0 <-> P == wsum z (psats_at k T)) /\ y =v= vdivs (vmul z (psats_at k T)) P.
Proof.
  intros k S P z buf T v y I L NZ H. split; [exact (ideal_closed_form_bubble k S P z buf T v y I L NZ H)|].
  exact (proj1 (proj2 (bubble_T_error_ideal_form k S P z buf T v y I L H))).
Qed.
Print Assumptions C08_ideal_closed_form_bubble.
Theorem C08_ideal_closed_form_dew : forall k S P z buf T v x,
  ideal_pkg k -> weg_fix S k -> length z = length (chems k) ->
  Forall (fun p => c1em16 <= p) (psats_at k T) -> ~ P == 0 ->
  dew_T_error k S P z (map (fun a => a * P) z) buf T = Ok (v, x) ->
  (v == 0 <-> 1 / P == wsumi z (psats_at k T)).
Proof. exact ideal_closed_form_dew. Qed.
Print Assumptions C08_ideal_closed_form_dew.

(* weighted AM-HM: dew pressure <= bubble pressure for composition-independent K-values *)
Theorem C08_dew_le_bubble_P : forall z p, nonneg z -> allpos p -> length z = length p -> qsum z == 1 ->
  0 < wsumi z p /\ 1 / wsumi z p <= wsum z p.
Proof. exact dew_le_bubble_P_math. Qed.
Print Assumptions C08_dew_le_bubble_P.
(* bubble temperature <= dew temperature for increasing vapour pressures *)
Theorem C08_bubble_le_dew_T : forall ps z P Tb Td,
  Forall increasing ps -> allpos (pat ps Td) -> nonneg z -> length z = length ps -> qsum z == 1 -> 0 < P ->
  wsum z (pat ps Tb) == P -> P * wsumi z (pat ps Td) == 1 -> Tb <= Td.
Proof. exact bubble_le_dew_T_math. Qed.
Print Assumptions C08_bubble_le_dew_T.

(* the ordering clause of the property for an arbitrary package: NOT a theorem (a composition-dependent
   gamma can produce an azeotrope).  Proved part: ideal packages, on the wrappers themselves. *)
Definition C08_ordering_statement : Prop := forall k S z P Tb yb Td xd,
  secant_ok S -> iq_ok S -> weg_fix S k -> nonneg z -> length z = length (chems k) -> N2 z -> 0 < P ->
  solve_Ty k S z P = Ok (Tb, yb) -> solve_Tx k S z P = Ok (Td, xd) -> Tb <= Td.
Theorem C08_bubble_le_dew_T_partial : forall k S z P Tb yb Td xd,
  secant_ok S -> iq_ok S -> weg_fix S k -> ideal_pkg k -> psat_increasing k -> psat_floor_at k Td ->
  nonneg z -> length z = length (chems k) -> N2 z -> 0 < P ->
  solve_Ty k S z P = Ok (Tb, yb) -> solve_Tx k S z P = Ok (Td, xd) -> Tb <= Td.
Proof. exact bubble_le_dew_T_lemma. Qed.
Print Assumptions C08_bubble_le_dew_T_partial.
Theorem C08_dew_le_bubble_P_partial : forall k S z T Pb yb Pd xd,
  secant_ok S -> iq_ok S -> weg_fix S k -> ideal_pkg k -> allpos (psats_at k T) ->
  nonneg z -> length z = length (chems k) -> N2 z -> pTmin k <= T <= pTmax k ->
  solve_Py k S z T = Ok (Pb, yb) -> solve_Px k S z T = Ok (Pd, xd) -> Pd <= Pb.
Proof. exact dew_le_bubble_P_lemma. Qed.
Print Assumptions C08_dew_le_bubble_P_partial.

(* T <-> P inverse (ideal vapour phase, any activity-coefficient model) *)
Theorem C08_TP_inverse : forall k S z P T y P' y',
  secant_ok S -> iq_ok S -> N2 z -> ideal_vapour k -> gam_shape k -> length z = length (chems k) ->
  ~ P == 0 -> pTmin k <= T <= pTmax k ->
  solve_Ty k S z P = Ok (T, y) -> solve_Py k S z T = Ok (P', y') -> P' == P.
Proof. exact TP_inverse_lemma. Qed.
Print Assumptions C08_TP_inverse.
Theorem C08_PT_inverse : forall k S z T P y T' y',
  secant_ok S -> iq_ok S -> N2 z -> ideal_vapour k -> gam_shape k -> length z = length (chems k) ->
  pTmin k <= T <= pTmax k -> (forall a b, Kfun k z a == Kfun k z b -> a == b) ->
  solve_Py k S z T = Ok (P, y) -> solve_Ty k S z P = Ok (T', y') -> T' == T.
Proof. exact PT_inverse_lemma. Qed.
Print Assumptions C08_PT_inverse.

(* single component: the chemical's own saturation temperature / pressure, unit-vector output *)
Theorem C08_single_component : forall k S z P i c,
  count_true (positives z) = 1%nat -> first_true (positives z) = Some i -> nth_error (chems k) i = Some c ->
  solve_Ty k S z P = (do T <- single_T S c P; Ok (T, normalize z)) /\
  solve_Tx k S z P = (do T <- single_T S c P; Ok (T, normalize z)) /\
  (forall T, solve_Py k S z T = Ok (single_P c T, normalize z)).
Proof. exact solve_Ty_single. Qed.
Print Assumptions C08_single_component.
Theorem C08_single_component_Px : forall k S z T i c, nonneg z ->
  count_true (positives z) = 1%nat -> first_true (positives z) = Some i -> nth_error (chems k) i = Some c ->
  solve_Px k S z T = Ok (single_P c T, normalize z).
Proof.
  intros k S z T i c Hz C F N. apply (solve_Px_single k S z T i c C); [|exact N].
  rewrite (truthy_positives z Hz). exact F.
Qed.
Print Assumptions C08_single_component_Px.
Theorem C08_single_component_output : forall z i, nonneg z ->
  count_true (positives z) = 1%nat -> first_true (positives z) = Some i -> c1em16 <= qsum z ->
  nthq (normalize z) i == 1 /\ forall j, j <> i -> nthq (normalize z) j == 0.
Proof. exact normalize_single. Qed.
Print Assumptions C08_single_component_output.
Theorem C08_Tsat_is_saturation : forall S c P T, secant_ok S -> iq_ok S -> Tsat S c P = Ok T ->
  c_psat c T - P == 0 \/ (c_Tb c = Some T /\ ~ T == 0 /\ P == atm).
Proof. exact Tsat_sound. Qed.
Print Assumptions C08_Tsat_is_saturation.

(* instance cache: for every history of constructor calls the instance returned equals a fresh build,
   and object identity coincides with key equality *)
Theorem C08_cache_coherent : forall (A : Type) (build : key -> res A) ks k,
  let st := snd (cache_run build ([], 0%nat) ks) in
  match fst (cache_new build st k) with
  | Ok (id, a) => build k = Ok a
  | Err e => build k = Err e
  end.
Proof. exact @cache_coherent_lemma. Qed.
Print Assumptions C08_cache_coherent.
Theorem C08_cache_identity : forall (A : Type) (build : key -> res A) ks k1 k2 i1 a1 i2 a2,
  let st := snd (cache_run build ([], 0%nat) ks) in
  let r1 := cache_new build st k1 in
  let r2 := cache_new build (snd r1) k2 in
  fst r1 = Ok (i1, a1) -> fst r2 = Ok (i2, a2) -> (i1 = i2 <-> k1 = k2).
Proof. exact @cache_identity_lemma. Qed.
Print Assumptions C08_cache_identity.

(* histories of calls on one BubblePoint / DewPoint pair: the k-th result is what the same call gives on its own,
   the same call made twice gives the same result, and appending calls does not change earlier results.
   (In the model the package functions gam / phi / pcf / Psat are pure; that the real Gamma / Phi / PCF objects are
   pure, agree with Gamma.f/Gamma.args and are permuted with the chemical list is measured by oracle().) *)
Theorem C08_history_independent : forall k S cs i d,
  nth i (run_calls k S cs) (exec_call k S d) = exec_call k S (nth i cs d).
Proof. exact history_independent_lemma. Qed.
Print Assumptions C08_history_independent.
Theorem C08_repeat_call : forall k S cs i j d, nth i cs d = nth j cs d ->
  nth i (run_calls k S cs) (exec_call k S d) = nth j (run_calls k S cs) (exec_call k S d).
Proof. exact repeat_call_lemma. Qed.
Print Assumptions C08_repeat_call.
Theorem C08_history_prefix : forall k S a b, run_calls k S (a ++ b) = run_calls k S a ++ run_calls k S b.
Proof. exact run_calls_app. Qed.
Print Assumptions C08_history_prefix.

(* histories in which the caller hands over the same array objects again and updates them in place between calls:
   every result is the result of the call on the contents the array had at that moment (so C08_history_independent /
   C08_repeat_call apply to those snapshots: nothing remembered from an earlier call, by value or by alias, can show),
   and the caller's arrays change only through the caller's own writes *)
Theorem C08_alias_history : forall k S ops bufs,
  fst (run_hist k S bufs ops) = run_calls k S (snapshots bufs ops) /\
  snd (run_hist k S bufs ops) = apply_sets bufs ops.
Proof. intros k S ops bufs. split; [apply run_hist_results | apply run_hist_buffers]. Qed.
Print Assumptions C08_alias_history.

(* constructor histories with a changing session default package: a call without `thermo` is the call with the default
   package AT THAT MOMENT (resolved before the cache is consulted), so C08_cache_coherent / C08_cache_identity hold for
   the resolved keys *)
Theorem C08_session_default : forall (A : Type) (build : key -> res A) ops dflt,
  run_session build ([], 0%nat) dflt ops = fst (cache_run build ([], 0%nat) (resolved_keys dflt ops)).
Proof. intros A build ops dflt. apply run_session_cache_run. Qed.
Print Assumptions C08_session_default.

(* error path: an exception of the RuntimeError family raised by the open solver, or by the residual it evaluates
   (InfeasibleRegion: the secant stepped to T <= 0 / P <= 0), never reaches the caller: the result is that of the bounded
   solve over the object's [Tmin, Tmax] / [Pmin, Pmax]; every other exception propagates unchanged *)
Theorem C08_fallback_taken : forall S f buf x0 x1 lo hi e b a c,
  secant S f buf x0 x1 = SErr e b -> is_runtime e = true ->
  f b lo = Ok a -> f (snd a) hi = Ok c ->
  secant_or_iq S f buf x0 x1 lo hi = sres_res (iq S f (snd c) lo hi (fst a) (fst c) (Some x0)).
Proof. exact fallback_taken_lemma. Qed.
Print Assumptions C08_fallback_taken.
Theorem C08_other_errors_escape : forall S f buf x0 x1 lo hi e b,
  secant S f buf x0 x1 = SErr e b -> is_runtime e = false -> secant_or_iq S f buf x0 x1 lo hi = Err e.
Proof. exact other_errors_escape_lemma. Qed.
Print Assumptions C08_other_errors_escape.

(* the domain an instance carries is that of the vapour-pressure correlations of the chemical OBJECTS it was built for
   (two objects with the same ID but other correlations give other domains), and Pmin / Pmax bound their Psat at its ends *)
Theorem C08_instance_domain : forall cs g pid ph pc k, new_pkg cs g pid ph pc = Ok k ->
  chems k = cs /\ vle_domain cs = Ok (pTmin k, pTmax k) /\
  (forall c, In c cs -> pPmin k <= c_psat c (pTmin k) /\ c_psat c (pTmax k) <= pPmax k).
Proof. exact instance_domain_lemma. Qed.
Print Assumptions C08_instance_domain.

(* the residual kernels and the composition arguments, as translated from the current source of /repo by
   tr/C08_kernels.py (regenerated on every run), are the functions the theorems above are about *)
Theorem C08_generated_kernels_agree :
  g_bubble_T_error = bubble_T_error /\ g_bubble_P_error = bubble_P_error /\
  g_bubble_T_error_ideal = bubble_T_error_ideal /\ g_Py_ideal = Py_ideal /\
  g_dew_T_error = dew_T_error /\ g_dew_T_error_ideal = dew_T_error_ideal /\ g_dew_P_error = dew_P_error /\
  g_Ty_prep = Ty_prep /\ g_Py_prep = Py_prep /\ g_Tx_prep = Tx_prep /\ g_Px_prep = Px_prep.
Proof. exact generated_kernels_agree. Qed.
Print Assumptions C08_generated_kernels_agree.

(* ---------- non-vacuity: a concrete ideal package and a root finder meeting the contracts ---------- *)
Example C08_nonvacuous_contracts :
  secant_ok ex_S /\ iq_ok ex_S /\ weg_fix ex_S ex_pkg /\ ideal_pkg ex_pkg /\ psat_increasing ex_pkg /\
  ideal_vapour ex_pkg /\ gam_shape ex_pkg /\ N2 [1; 1] /\ nonneg [1; 1] /\ length [1; 1] = length (chems ex_pkg).
Proof.
  split; [apply checked_secant_ok|]. split; [apply checked_iq_ok|]. split; [exact ex_weg_fix|].
  split; [exact ex_ideal|]. split; [exact ex_increasing|].
  split; [split; reflexivity|]. split; [intros x T H; rewrite H; reflexivity|].
  split; [unfold N2; vm_compute; lia|]. split; [repeat constructor; lra | reflexivity].
Qed.
Example C08_nonvacuous_points :
  (exists y, solve_Ty ex_pkg ex_S [1; 1] 49152 = Ok (320, y)) /\
  (exists x, solve_Tx ex_pkg ex_S [1; 1] 49152 = Ok (352, x)) /\
  (exists y, solve_Py ex_pkg ex_S [1; 1] 320 = Ok (49152, y)) /\
  (exists x, solve_Px ex_pkg ex_S [1; 1] 320 = Ok (131072 # 3, x)) /\
  pTmin ex_pkg <= 320 <= pTmax ex_pkg /\ psat_floor_at ex_pkg 352 /\ allpos (psats_at ex_pkg 320).
Proof.
  split; [eexists; vm_compute; reflexivity|]. split; [eexists; vm_compute; reflexivity|].
  split; [eexists; vm_compute; reflexivity|]. split; [eexists; vm_compute; reflexivity|].
  split; [split; vm_compute; discriminate|].
  split; repeat constructor; vm_compute; try discriminate; reflexivity.
Qed.
Example C08_nonvacuous_perm :
  perm_pkg [1%nat; 0%nat] ex_pkg
    (mkpkg (rev ex_chems) (ideal_gam 2) true (ideal_phi 2) (mock_pcf 2) (pTmin ex_pkg) (pTmax ex_pkg) (pPmin ex_pkg) (pPmax ex_pkg)).
Proof.
  split; [apply perm_swap|]. split; [intros T; reflexivity|]. split; [reflexivity|]. split; [reflexivity|].
  split; intros; split; reflexivity.
Qed.
