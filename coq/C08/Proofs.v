(* C08 — lemmas.  Everything is over Q (exact rationals); no real-number axioms are used. *)
From V Require Import Common.NumFacts C08.Model C08.Gen_kernels.
From Coq Require Import Permutation Setoid Morphisms.
Open Scope Q_scope.

(* ---------- vectors up to pointwise Qeq ---------- *)
Definition veqv : vec -> vec -> Prop := Forall2 Qeq.
Infix "=v=" := veqv (at level 70).

Lemma veqv_refl a : a =v= a.
Proof. induction a; constructor; auto; reflexivity. Qed.
Lemma veqv_sym a b : a =v= b -> b =v= a.
Proof. induction 1; constructor; auto. symmetry; auto. Qed.
Lemma veqv_trans a b c : a =v= b -> b =v= c -> a =v= c.
Proof.
  intros H; revert c; induction H as [|x y a b Hxy Hab IH]; intros c' H2.
  - inversion H2; subst; constructor.
  - inversion H2 as [|y' z b' c'' Hyz Hbc]; subst. constructor.
    + rewrite Hxy. exact Hyz.
    + apply IH. exact Hbc.
Qed.
Global Instance veqv_equiv : Equivalence veqv.
Proof. split; [exact veqv_refl | exact veqv_sym | exact veqv_trans]. Qed.

Lemma veqv_length a b : a =v= b -> length a = length b.
Proof. induction 1; simpl; auto. Qed.

Global Instance qsum_proper : Proper (veqv ==> Qeq) qsum.
Proof. intros a b H; induction H; simpl; [reflexivity|]. rewrite H, IHForall2. reflexivity. Qed.

Lemma map2_veqv (f : Q -> Q -> Q) :
  Proper (Qeq ==> Qeq ==> Qeq) f -> Proper (veqv ==> veqv ==> veqv) (map2 f).
Proof.
  intros Pf a b H; induction H as [|x y a b Hxy Hab IH]; intros c d H2; simpl.
  - constructor.
  - inversion H2 as [|u v c' d' Huv Hcd]; subst; constructor.
    + apply Pf; auto.
    + apply IH; auto.
Qed.
Global Instance vmul_proper : Proper (veqv ==> veqv ==> veqv) vmul.
Proof. apply map2_veqv. intros ? ? H ? ? H'. rewrite H, H'. reflexivity. Qed.
Global Instance vdivq_proper : Proper (veqv ==> veqv ==> veqv) (map2 Qdiv).
Proof. apply map2_veqv. intros ? ? H ? ? H'. rewrite H, H'. reflexivity. Qed.

Lemma map_veqv (f g : Q -> Q) a b :
  (forall x y, x == y -> f x == g y) -> a =v= b -> map f a =v= map g b.
Proof. intros Hf H; induction H; simpl; constructor; auto. Qed.
Global Instance vdivs_proper : Proper (veqv ==> Qeq ==> veqv) vdivs.
Proof. intros a b H c d H'. apply map_veqv; auto. intros x y E. rewrite E, H'. reflexivity. Qed.

Lemma veqv_nth a b : a =v= b -> forall i, nthq a i == nthq b i.
Proof.
  induction 1; intros i; unfold nthq in *; destruct i; simpl; auto; reflexivity.
Qed.

(* ---------- sums ---------- *)
Lemma qsum_vdivs a c : qsum (vdivs a c) == qsum a / c.
Proof.
  induction a as [|x a IH]; simpl.
  - unfold Qdiv. ring.
  - unfold vdivs in IH. rewrite IH. unfold Qdiv. ring.
Qed.

Lemma qsum_map_mulr a c : qsum (map (fun x => x * c) a) == qsum a * c.
Proof. induction a as [|x a IH]; simpl; [ring|]. rewrite IH. ring. Qed.

Lemma qsum_vones n : qsum (vones n) == inject_Z (Z.of_nat n).
Proof.
  induction n as [|n IH]; [reflexivity|].
  unfold vones in *. cbn [repeat qsum fold_right]. fold (qsum (repeat 1 n)). rewrite IH.
  rewrite Nat2Z.inj_succ. unfold Z.succ. rewrite inject_Z_plus. ring.
Qed.

Lemma vones_length n : length (vones n) = n.
Proof. apply repeat_length. Qed.

Lemma qsum_nonneg a : Forall (fun x => 0 <= x) a -> 0 <= qsum a.
Proof. induction 1; simpl; lra. Qed.

Lemma vmul_vones_r a n : (length a <= n)%nat -> vmul a (vones n) =v= a.
Proof.
  revert n; induction a as [|x a IH]; intros n H; simpl.
  - destruct n; constructor.
  - destruct n; simpl in H; [lia|]. simpl. constructor; [ring|]. apply IH. lia.
Qed.
Lemma vmul_vones_l a n : (length a <= n)%nat -> vmul (vones n) a =v= a.
Proof.
  revert n; induction a as [|x a IH]; intros n H; simpl.
  - destruct n; constructor.
  - destruct n; simpl in H; [lia|]. simpl. constructor; [ring|]. apply IH. lia.
Qed.
Lemma vdivq_vones_r a n : (length a <= n)%nat -> map2 Qdiv a (vones n) =v= a.
Proof.
  revert n; induction a as [|x a IH]; intros n H; simpl.
  - destruct n; constructor.
  - destruct n; simpl in H; [lia|]. simpl. constructor; [field|]. apply IH. lia.
Qed.

Lemma vmul_vdivs_l a b c : vmul (vdivs a c) b =v= vdivs (vmul a b) c.
Proof.
  revert b; induction a as [|x a IH]; intros [|y b]; simpl; try constructor.
  - unfold Qdiv; ring.
  - apply IH.
Qed.

Lemma map2_length_min {A B C} (f : A -> B -> C) a b :
  length (map2 f a b) = Nat.min (length a) (length b).
Proof. revert b; induction a; intros [|y b]; simpl; auto. Qed.

(* ---------- comparisons ---------- *)
Lemma qltb_true a b : qltb a b = true <-> a < b.
Proof.
  unfold qltb. rewrite negb_true_iff. split; intros H.
  - destruct (Qlt_le_dec a b) as [L|L]; auto. apply Qle_bool_iff in L. congruence.
  - destruct (Qle_bool b a) eqn:E; auto. apply Qle_bool_iff in E. lra.
Qed.
Lemma qltb_false a b : qltb a b = false <-> b <= a.
Proof.
  unfold qltb. rewrite negb_false_iff. apply Qle_bool_iff.
Qed.
Lemma qleb_true a b : qleb a b = true <-> a <= b.
Proof. apply Qle_bool_iff. Qed.
Lemma qleb_false a b : qleb a b = false <-> b < a.
Proof.
  unfold qleb. split; intros H.
  - destruct (Qlt_le_dec b a) as [L|L]; auto. apply Qle_bool_iff in L. congruence.
  - destruct (Qle_bool a b) eqn:E; auto. apply Qle_bool_iff in E. lra.
Qed.

Lemma c1em16_pos : 0 < c1em16.
Proof. reflexivity. Qed.

(* ---------- normalize ---------- *)
Lemma normalize_length a : length (normalize a) = length a.
Proof.
  unfold normalize. destruct (qltb (qsum a) c1em16); unfold vdivs; rewrite map_length; auto.
  apply vones_length.
Qed.

Lemma normalize_sum1 a : a <> [] -> qsum (normalize a) == 1.
Proof.
  intros NE. unfold normalize. destruct (qltb (qsum a) c1em16) eqn:E.
  - rewrite qsum_vdivs, qsum_vones.
    assert (0 < inject_Z (Z.of_nat (length a))) as Hp.
    { destruct a; [congruence|]. simpl length. rewrite Nat2Z.inj_succ.
      change 0 with (inject_Z 0). rewrite <- Zlt_Qlt. lia. }
    field. lra.
  - apply qltb_false in E. rewrite qsum_vdivs. pose proof c1em16_pos. field. lra.
Qed.

Lemma Forall_nthq (P : Q -> Prop) a : P 0 -> Forall P a -> forall i, P (nthq a i).
Proof.
  intros P0 H; induction H; intros i; unfold nthq in *; destruct i; simpl; auto.
Qed.

Lemma normalize_nonneg a : Forall (fun x => 0 <= x) a -> Forall (fun x => 0 <= x) (normalize a).
Proof.
  intros H. unfold normalize. destruct (qltb (qsum a) c1em16) eqn:E.
  - unfold vdivs, vones. apply Forall_forall. intros x Hx. apply in_map_iff in Hx.
    destruct Hx as (y & <- & Hy). apply repeat_spec in Hy. subst y.
    assert (0 <= inject_Z (Z.of_nat (length a))) as Hp.
    { change 0 with (inject_Z 0). rewrite <- Zle_Qle. lia. }
    destruct (Qeq_dec (inject_Z (Z.of_nat (length a))) 0) as [Z|NZ].
    + rewrite Z. unfold Qdiv, Qinv; simpl. lra.
    + apply Qle_shift_div_l; lra.
  - apply qltb_false in E. pose proof c1em16_pos as Hc.
    unfold vdivs. apply Forall_forall. intros x Hx. apply in_map_iff in Hx.
    destruct Hx as (y & <- & Hy). rewrite Forall_forall in H. specialize (H _ Hy).
    apply Qle_shift_div_l; lra.
Qed.

(* when the raw fractions already sum to one, normalisation only rescales by 1 *)
Lemma normalize_of_sum1 a : qsum a == 1 -> normalize a =v= a.
Proof.
  intros H. unfold normalize.
  assert (qltb (qsum a) c1em16 = false) as E.
  { apply qltb_false. rewrite H. unfold c1em16. unfold Qle; simpl; lia. }
  rewrite E. unfold vdivs. rewrite <- (map_id a) at 2. apply map_veqv; [|reflexivity].
  intros x y Exy. rewrite H, Exy. field.
Qed.

(* ---------- weighted sums and the AM-HM / Cauchy-Schwarz inequality ---------- *)
Lemma qsum_cons x a : qsum (x :: a) = x + qsum a.
Proof. reflexivity. Qed.
Lemma qsum_nil : qsum [] = 0.
Proof. reflexivity. Qed.
Ltac vsimpl := unfold vmul in *; cbn [vdivs map2 map length] in *; change (map2 Qmult) with vmul in *;
  rewrite ?qsum_cons, ?qsum_nil in *.
Definition wsum (z p : vec) : Q := qsum (vmul z p).          (* sum z_i p_i *)
Definition wsumi (z p : vec) : Q := qsum (map2 Qdiv z p).    (* sum z_i / p_i *)
Definition nonneg (z : vec) : Prop := Forall (fun x => 0 <= x) z.
Definition allpos (p : vec) : Prop := Forall (fun x => 0 < x) p.

Lemma wsum_nonneg z p : nonneg z -> allpos p -> 0 <= wsum z p.
Proof.
  unfold wsum. intros Hz; revert p; induction Hz as [|x z Hx Hz IH]; intros p Hp; vsimpl; [lra|].
  destruct Hp as [|y p Hy Hp]; vsimpl; [lra|]. specialize (IH _ Hp). nra.
Qed.
Lemma wsumi_nonneg z p : nonneg z -> allpos p -> 0 <= wsumi z p.
Proof.
  unfold wsumi. intros Hz; revert p; induction Hz as [|x z Hx Hz IH]; intros p Hp; vsimpl; [lra|].
  destruct Hp as [|y p Hy Hp]; vsimpl; [lra|]. specialize (IH _ Hp).
  assert (0 <= x / y) by (apply Qle_shift_div_l; lra). lra.
Qed.

Lemma wsum_pos z p : nonneg z -> allpos p -> length z = length p -> 0 < qsum z -> 0 < wsum z p.
Proof.
  unfold wsum. intros Hz; revert p; induction Hz as [|x z Hx Hz IH]; intros p Hp L S; vsimpl; [lra|].
  destruct Hp as [|y p Hy Hp]; vsimpl; [discriminate|].
  pose proof (wsum_nonneg z p Hz Hp) as N. unfold wsum in N.
  destruct (Qlt_le_dec 0 x) as [Px|Nx].
  - nra.
  - assert (0 < qsum z) as S' by lra. specialize (IH _ Hp ltac:(lia) S'). nra.
Qed.

Lemma amhm_term x y t : 0 <= x -> 0 < y -> 0 < t -> 2 * x <= x * y / t + t * (x / y).
Proof.
  intros Hx Hy Ht.
  assert (x * y / t + t * (x / y) - 2 * x == x * ((y - t) * (y - t)) / (t * y)) as E by (field; lra).
  assert (0 <= x * ((y - t) * (y - t)) / (t * y)) as N.
  { apply Qle_shift_div_l; [nra|]. rewrite Qmult_0_l.
    apply Qmult_le_0_compat; [lra|]. destruct (Qlt_le_dec y t); nra. }
  lra.
Qed.

Lemma amhm_t z p t : nonneg z -> allpos p -> length z = length p -> 0 < t ->
  2 * qsum z <= wsum z p / t + t * wsumi z p.
Proof.
  unfold wsum, wsumi. intros Hz; revert p; induction Hz as [|x z Hx Hz IH]; intros p Hp L Ht; vsimpl.
  - unfold Qdiv. lra.
  - destruct Hp as [|y p Hy Hp]; vsimpl; [discriminate|].
    specialize (IH _ Hp ltac:(lia) Ht). pose proof (amhm_term x y t Hx Hy Ht) as A.
    assert ((x * y + qsum (vmul z p)) / t == x * y / t + qsum (vmul z p) / t) as E by (field; lra).
    rewrite E. lra.
Qed.

(* (sum z)^2 <= (sum z p) (sum z / p) *)
Lemma cauchy_weighted z p : nonneg z -> allpos p -> length z = length p ->
  qsum z * qsum z <= wsum z p * wsumi z p.
Proof.
  intros Hz Hp L.
  pose proof (wsum_nonneg z p Hz Hp) as A0. pose proof (wsumi_nonneg z p Hz Hp) as B0.
  pose proof (qsum_nonneg z Hz) as S0.
  destruct (Qlt_le_dec 0 (qsum z)) as [S|S].
  - pose proof (wsum_pos z p Hz Hp L S) as A.
    assert (0 < wsum z p / qsum z) as Ht by (apply Qlt_shift_div_l; lra).
    pose proof (amhm_t z p _ Hz Hp L Ht) as H.
    assert (wsum z p / (wsum z p / qsum z) == qsum z) as E1 by (field; lra).
    rewrite E1 in H.
    assert (wsum z p / qsum z * wsumi z p == wsum z p * wsumi z p / qsum z) as E2 by (field; lra).
    rewrite E2 in H.
    assert (qsum z <= wsum z p * wsumi z p / qsum z) as H' by lra.
    apply (Qmult_le_compat_r _ _ (qsum z)) in H'; [|lra].
    assert (wsum z p * wsumi z p / qsum z * qsum z == wsum z p * wsumi z p) as E3 by (field; lra).
    rewrite E3 in H'. exact H'.
  - assert (qsum z == 0) as Z by lra. rewrite Z. nra.
Qed.

(* dew pressure <= bubble pressure for ideal K-values: (sum z/p)^-1 <= sum z p *)
Lemma dew_le_bubble_P_math z p : nonneg z -> allpos p -> length z = length p -> qsum z == 1 ->
  0 < wsumi z p /\ 1 / wsumi z p <= wsum z p.
Proof.
  intros Hz Hp L S1. pose proof (cauchy_weighted z p Hz Hp L) as C. rewrite S1 in C.
  pose proof (wsum_nonneg z p Hz Hp) as A0. pose proof (wsumi_nonneg z p Hz Hp) as B0.
  assert (0 < wsumi z p) as B by nra.
  split; [exact B|]. apply Qle_shift_div_r; lra.
Qed.

(* strict monotonicity of weighted sums *)
Lemma wsum_lt z a b : nonneg z -> Forall2 Qlt a b -> length z = length a -> 0 < qsum z ->
  wsum z a < wsum z b.
Proof.
  unfold wsum. intros Hz; revert a b; induction Hz as [|x z Hx Hz IH]; intros a b Hab L S; vsimpl; [lra|].
  destruct Hab as [|u v a b Huv Hab]; vsimpl; [discriminate|].
  assert (wsum z a <= wsum z b) as Hle.
  { clear IH S L. unfold wsum. revert a b Hab. induction Hz as [|x' z Hx' Hz IH']; intros a b Hab; vsimpl; [lra|].
    destruct Hab as [|u' v' a b Huv' Hab]; vsimpl; [lra|]. specialize (IH' _ _ Hab). nra. }
  unfold wsum in Hle.
  destruct (Qlt_le_dec 0 x) as [Px|Nx].
  - nra.
  - assert (0 < qsum z) as S' by lra. specialize (IH _ _ Hab ltac:(lia) S'). nra.
Qed.

(* vapour-pressure functions *)
Definition pat (ps : list (Q -> Q)) (T : Q) : vec := map (fun f => f T) ps.
Definition increasing (f : Q -> Q) : Prop := forall a b, a < b -> f a < f b.
Definition positive (f : Q -> Q) : Prop := forall a, 0 < f a.

Lemma pat_lt ps a b : Forall increasing ps -> a < b -> Forall2 Qlt (pat ps a) (pat ps b).
Proof. intros H L; induction H; vsimpl; constructor; auto. Qed.
Lemma pat_pos ps a : Forall positive ps -> allpos (pat ps a).
Proof. intros H; induction H; vsimpl; constructor; auto. Qed.
Lemma pat_length ps a : length (pat ps a) = length ps.
Proof. apply map_length. Qed.

(* bubble temperature <= dew temperature at the same pressure (ideal K-values, increasing Psat) *)
Lemma bubble_le_dew_T_math ps z P Tb Td :
  Forall increasing ps -> allpos (pat ps Td) -> nonneg z -> length z = length ps -> qsum z == 1 ->
  0 < P ->
  wsum z (pat ps Tb) == P ->            (* 1 - sum z_i Psat_i(Tb) / P = 0 *)
  P * wsumi z (pat ps Td) == 1 ->       (* 1 - sum z_i P / Psat_i(Td) = 0 *)
  Tb <= Td.
Proof.
  intros Hinc Hpos Hz L S1 HP Hb Hd.
  destruct (Qlt_le_dec Td Tb) as [Lt|]; [exfalso|assumption].
  assert (length z = length (pat ps Td)) as L' by (rewrite pat_length; exact L).
  pose proof (cauchy_weighted z (pat ps Td) Hz Hpos L') as C. rewrite S1 in C.
  assert (0 < qsum z) as S by lra.
  pose proof (wsum_lt z _ _ Hz (pat_lt ps Td Tb Hinc Lt) L' S) as W.
  assert (wsumi z (pat ps Td) == 1 / P) as E by (field_simplify_eq; lra).
  rewrite E in C.
  assert (wsum z (pat ps Td) * (1 / P) == wsum z (pat ps Td) / P) as E2 by (field; lra).
  rewrite E2 in C.
  assert (1 * 1 * P <= wsum z (pat ps Td) / P * P) as C' by (apply Qmult_le_compat_r; lra).
  assert (wsum z (pat ps Td) / P * P == wsum z (pat ps Td)) as E3 by (field; lra).
  rewrite E3 in C'. lra.
Qed.

(* dew pressure <= bubble pressure at the same temperature, as roots of the two ideal residuals *)
Lemma dew_le_bubble_P_roots p z Pb Pd :
  allpos p -> nonneg z -> length z = length p -> qsum z == 1 ->
  0 < Pb -> 0 < Pd ->
  1 - wsum z p / Pb == 0 ->
  1 - Pd * wsumi z p == 0 ->
  Pd <= Pb.
Proof.
  intros Hp Hz L S1 HPb HPd Hb Hd.
  destruct (dew_le_bubble_P_math z p Hz Hp L S1) as (B & H).
  assert (wsum z p == Pb) as Eb.
  { assert (wsum z p / Pb == 1) as E by lra.
    assert (wsum z p / Pb * Pb == wsum z p) as E' by (field; lra). rewrite <- E', E. ring. }
  assert (Pd == 1 / wsumi z p) as Ed by (field_simplify_eq; lra).
  rewrite Ed, <- Eb. exact H.
Qed.

(* ---------- the residual kernels in an ideal package ---------- *)
Definition ideal_pkg (k : pkg) : Prop :=
  phi_ideal k = true /\
  (forall x T, gam k x T = vones (length (chems k))) /\
  (forall y T P, phi k y T P = vones (length (chems k))) /\
  (forall T P Ps, pcf k T P Ps = vones (length (chems k))).

Lemma psats_at_length k T : length (psats_at k T) = length (chems k).
Proof. apply map_length. Qed.
Lemma psats_at_pat k T : psats_at k T = pat (map c_psat (chems k)) T.
Proof. unfold psats_at, pat. rewrite map_map. reflexivity. Qed.

Lemma vmul_length a b : length a = length b -> length (vmul a b) = length a.
Proof. intros H. unfold vmul. rewrite map2_length_min, H. apply Nat.min_id. Qed.

Lemma wsum_vdivs_l z p c : wsum (vdivs z c) p == wsum z p / c.
Proof. unfold wsum. rewrite vmul_vdivs_l. apply qsum_vdivs. Qed.

Lemma bubble_T_error_ideal_form k S P z buf T v y :
  ideal_pkg k -> length z = length (chems k) ->
  bubble_T_error k S P (vdivs z P) z buf T = Ok (v, y) ->
  0 < T /\ y =v= vdivs (vmul z (psats_at k T)) P /\ v == 1 - wsum z (psats_at k T) / P.
Proof.
  intros (Hphi & Hg & _ & Hpc) L H. unfold bubble_T_error in H.
  destruct (qleb T 0) eqn:ET; [discriminate|]. apply qleb_false in ET.
  unfold solve_y in H. rewrite Hphi, Hg, Hpc in H. inversion H; subst; clear H.
  assert (length (vmul (vdivs z P) (psats_at k T)) = length (chems k)) as L1.
  { rewrite vmul_length; unfold vdivs; rewrite map_length; [exact L|]. rewrite psats_at_length. exact L. }
  assert (vmul (vmul (vmul (vdivs z P) (psats_at k T)) (vones (length (chems k)))) (vones (length (chems k)))
          =v= vdivs (vmul z (psats_at k T)) P) as E.
  { rewrite vmul_vones_r.
    - rewrite vmul_vones_r; [apply vmul_vdivs_l | lia].
    - rewrite vmul_length; [lia|]. rewrite L1, vones_length. reflexivity. }
  split; [exact ET|]. split; [exact E|]. rewrite E, qsum_vdivs. reflexivity.
Qed.

(* gamma = phi = pcf = 1: the bubble residual vanishes exactly when P = sum z_i Psat_i(T) *)
Lemma ideal_closed_form_bubble k S P z buf T v y :
  ideal_pkg k -> length z = length (chems k) -> ~ P == 0 ->
  bubble_T_error k S P (vdivs z P) z buf T = Ok (v, y) ->
  (v == 0 <-> P == wsum z (psats_at k T)).
Proof.
  intros I L NZ H. destruct (bubble_T_error_ideal_form _ _ _ _ _ _ _ _ I L H) as (_ & _ & E).
  rewrite E. split; intros A.
  - assert (wsum z (psats_at k T) / P == 1) as B by lra.
    assert (wsum z (psats_at k T) / P * P == wsum z (psats_at k T)) as C by (field; exact NZ).
    rewrite <- C, B. ring.
  - rewrite <- A. field. exact NZ.
Qed.

(* wegstein returns a fixed point of the activity-coefficient map it is given by dew_point.solve_x *)
Definition weg_fix (S : solvers) (k : pkg) : Prop :=
  forall xg T x, gamma_iter k xg T (weg S (gamma_iter k xg T) x) = weg S (gamma_iter k xg T) x.

Lemma existsb_qzerob_vones n : existsb qzerob (vones n) = false.
Proof. induction n; simpl; auto. Qed.

Lemma solve_x_ideal k S xg x_gamma T :
  ideal_pkg k -> weg_fix S k -> (length x_gamma <= length (chems k))%nat ->
  solve_x k S xg x_gamma T =v= x_gamma.
Proof.
  intros (_ & Hg & _ & _) W L. unfold solve_x.
  set (g := weg S (gamma_iter k x_gamma T) _).
  assert (g = vones (length (chems k))) as Eg.
  { unfold g. rewrite <- W. unfold gamma_iter at 1. apply Hg. }
  rewrite Eg, existsb_qzerob_vones. apply vdivq_vones_r. exact L.
Qed.

Lemma clamp_lo_id m v : Forall (fun p => m <= p) v -> clamp_lo m v = v.
Proof.
  intros H; induction H as [|x v Hx Hv IH]; simpl; auto.
  assert (qltb x m = false) as E by (apply qltb_false; exact Hx). rewrite E, IH. reflexivity.
Qed.

Lemma wsumi_mulr z p c : qsum (map2 Qdiv (map (fun a => a * c) z) p) == c * wsumi z p.
Proof.
  unfold wsumi. revert p; induction z as [|x z IH]; intros [|y p]; simpl; try ring.
  rewrite IH. unfold Qdiv. ring.
Qed.

Lemma dew_T_error_ideal_form k S P z buf T v x :
  ideal_pkg k -> weg_fix S k -> length z = length (chems k) ->
  Forall (fun p => c1em16 <= p) (psats_at k T) ->
  dew_T_error k S P z (map (fun a => a * P) z) buf T = Ok (v, x) ->
  0 < T /\ x =v= map2 Qdiv (map (fun a => a * P) z) (psats_at k T) /\
  v == 1 - P * wsumi z (psats_at k T).
Proof.
  intros I W L Hps H. pose proof I as (_ & _ & Hph & Hpc). unfold dew_T_error in H.
  destruct (qleb T 0) eqn:ET; [discriminate|]. apply qleb_false in ET.
  rewrite (clamp_lo_id _ _ Hps), Hph, Hpc in H. inversion H; subst; clear H.
  set (n := length (chems k)).
  set (zP := map (fun a => a * P) z).
  assert (length zP = n) as LzP by (unfold zP; rewrite map_length; exact L).
  assert (map2 Qdiv (map2 Qdiv (vmul (vones n) zP) (psats_at k T)) (vones n)
          =v= map2 Qdiv zP (psats_at k T)) as E.
  { rewrite vdivq_vones_r.
    - rewrite vmul_vones_l; [reflexivity | lia].
    - rewrite map2_length_min, psats_at_length. fold n. lia. }
  assert (solve_x k S buf (map2 Qdiv (map2 Qdiv (vmul (vones n) zP) (psats_at k T)) (vones n)) T
          =v= map2 Qdiv zP (psats_at k T)) as E2.
  { rewrite solve_x_ideal; auto. rewrite map2_length_min, vones_length. fold n. lia. }
  split; [exact ET|]. split; [exact E2|]. rewrite E2. unfold zP. rewrite wsumi_mulr. reflexivity.
Qed.

Lemma ideal_closed_form_dew k S P z buf T v x :
  ideal_pkg k -> weg_fix S k -> length z = length (chems k) ->
  Forall (fun p => c1em16 <= p) (psats_at k T) -> ~ P == 0 ->
  dew_T_error k S P z (map (fun a => a * P) z) buf T = Ok (v, x) ->
  (v == 0 <-> 1 / P == wsumi z (psats_at k T)).
Proof.
  intros I W L Hps NZ H.
  destruct (dew_T_error_ideal_form _ _ _ _ _ _ _ _ I W L Hps H) as (_ & _ & E).
  rewrite E. split; intros A.
  - assert (P * wsumi z (psats_at k T) == 1) as B by lra.
    assert (wsumi z (psats_at k T) == P * wsumi z (psats_at k T) / P) as C by (field; exact NZ).
    rewrite C, B. reflexivity.
  - rewrite <- A. field. exact NZ.
Qed.

(* the pressure kernels in an ideal package *)
Lemma bubble_P_error_ideal_form k S T z buf P v y :
  ideal_pkg k -> length z = length (chems k) ->
  bubble_P_error k S T (Py_prep k z T) (psats_at k T) buf P = Ok (v, y) ->
  0 < P /\ v == 1 - wsum (znorm z) (psats_at k T) / P.
Proof.
  intros (Hphi & Hg & _ & Hpc) L H. unfold bubble_P_error in H.
  destruct (qleb P 0) eqn:EP; [discriminate|]. apply qleb_false in EP.
  unfold solve_y, Py_prep in H. rewrite Hphi, Hg, Hpc in H. inversion H; subst; clear H.
  split; [exact EP|].
  assert (length (znorm z) = length (chems k)) as Ln by (unfold znorm, vdivs; rewrite map_length; exact L).
  assert (length (vmul (znorm z) (psats_at k T)) = length (chems k)) as L1.
  { rewrite vmul_length; [exact Ln|]. rewrite psats_at_length. exact Ln. }
  rewrite qsum_vdivs. rewrite vmul_vones_r.
  - rewrite vmul_vones_r; [reflexivity | lia].
  - rewrite vmul_length; [lia|]. rewrite L1, vones_length. reflexivity.
Qed.

Lemma dew_P_error_ideal_form k S T z buf P v x :
  ideal_pkg k -> weg_fix S k -> length z = length (chems k) ->
  dew_P_error k S T (fst (Px_prep k z T)) (snd (Px_prep k z T)) (psats_at k T) buf P = Ok (v, x) ->
  0 < P /\ v == 1 - P * wsumi (znorm z) (psats_at k T).
Proof.
  intros I W L H. pose proof I as (_ & _ & Hph & Hpc). unfold dew_P_error, Px_prep in H. cbn [fst snd] in H.
  destruct (qleb P 0) eqn:EP; [discriminate|]. apply qleb_false in EP.
  rewrite Hph, Hpc in H. inversion H; subst; clear H.
  split; [exact EP|].
  set (n := length (chems k)).
  assert (length (znorm z) = n) as Ln by (unfold znorm, vdivs; rewrite map_length; exact L).
  set (w := map (fun a => a * P) (map2 Qdiv (znorm z) (psats_at k T))).
  assert (length w = n) as Lw.
  { unfold w. rewrite map_length, map2_length_min, psats_at_length, Ln. apply Nat.min_id. }
  rewrite solve_x_ideal; auto.
  - rewrite vdivq_vones_r; [|unfold vmul; rewrite map2_length_min, vones_length; lia].
    rewrite vmul_vones_r; [|lia]. unfold w. rewrite qsum_map_mulr. unfold wsumi. ring.
  - rewrite map2_length_min, vones_length. fold n. lia.
Qed.

(* ---------- root-finder contracts and soundness of the four wrappers ---------- *)
(* x is a root of f and b is the buffer written by an evaluation of f at x *)
Definition root_of (f : resid) (x : Q) (b : vec) : Prop :=
  exists b0 v, f b0 x = Ok (v, b) /\ v == 0.
Definition secant_ok (S : solvers) : Prop :=
  forall f b x0 x1 x b', secant S f b x0 x1 = SOk x b' -> root_of f x b'.
Definition iq_ok (S : solvers) : Prop :=
  forall f b x0 x1 y0 y1 g x b', iq S f b x0 x1 y0 y1 g = SOk x b' -> root_of f x b'.

Lemma secant_or_iq_root S f buf x0 x1 lo hi x b :
  secant_ok S -> iq_ok S -> secant_or_iq S f buf x0 x1 lo hi = Ok (x, b) -> root_of f x b.
Proof.
  intros HS HI H. unfold secant_or_iq in H.
  destruct (secant S f buf x0 x1) as [r rb|e eb] eqn:E.
  - inversion H; subst. eapply HS; eauto.
  - destruct (is_runtime e); simpl in H; [|discriminate].
    destruct (f eb lo) as [a|]; simpl in H; [|discriminate].
    destruct (f (snd a) hi) as [c|]; simpl in H; [|discriminate].
    destruct (iq S f (snd c) lo hi (fst a) (fst c) (Some x0)) as [r rb|e' eb'] eqn:E'; simpl in H; [|discriminate].
    inversion H; subst. eapply HI; eauto.
Qed.

Definition N2 (z : vec) : Prop := (2 <= count_true (positives z))%nat.

Lemma solve_Ty_sound k S z P T y : secant_ok S -> iq_ok S -> N2 z ->
  solve_Ty k S z P = Ok (T, y) ->
  ~ qsum z == 0 /\
  exists raw, root_of (bubble_T_error k S P (vdivs (znorm z) P) (znorm z)) T raw /\ y = normalize raw.
Proof.
  intros HS HI HN H. unfold N2 in HN. unfold solve_Ty in H.
  destruct (count_true (positives z)) as [|[|n]]; try lia.
  destruct (qzerob (qsum z)) eqn:EZ; [discriminate|]. apply qzerob_false in EZ.
  split; [exact EZ|]. unfold Ty_prep in H. cbn [fst snd] in H.
  destruct (Ty_ideal k S (vdivs (znorm z) P)) as [g|]; simpl in H; [|discriminate].
  destruct (secant_or_iq S _ (snd g) (fst g) (fst g + c1em3) (pTmin k) (pTmax k)) as [r|] eqn:E; simpl in H; [|discriminate].
  inversion H; subst. destruct r as [r rb]. exists rb. split; [|reflexivity].
  eapply secant_or_iq_root; eauto.
Qed.

Lemma solve_Py_sound k S z T P y : secant_ok S -> iq_ok S -> N2 z ->
  solve_Py k S z T = Ok (P, y) ->
  ~ qsum z == 0 /\
  exists raw, root_of (bubble_P_error k S (clampT k T) (Py_prep k z (clampT k T)) (psats_at k (clampT k T))) P raw
              /\ y = normalize raw.
Proof.
  intros HS HI HN H. unfold N2 in HN. unfold solve_Py in H.
  destruct (count_true (positives z)) as [|[|n]]; try lia.
  destruct (qzerob (qsum z)) eqn:EZ; [discriminate|]. apply qzerob_false in EZ.
  split; [exact EZ|].
  destruct (secant_or_iq S _ _ _ _ (pPmin k) (pPmax k)) as [r|] eqn:E; simpl in H; [|discriminate].
  inversion H; subst. destruct r as [r rb]. exists rb. split; [|reflexivity].
  eapply secant_or_iq_root; eauto.
Qed.

Lemma solve_Tx_sound k S z P T x : secant_ok S -> iq_ok S -> N2 z ->
  solve_Tx k S z P = Ok (T, x) ->
  ~ qsum z == 0 /\
  exists raw, root_of (dew_T_error k S P (znorm z) (map (fun a => a * P) (znorm z))) T raw /\ x = normalize raw.
Proof.
  intros HS HI HN H. unfold N2 in HN. unfold solve_Tx in H.
  destruct (count_true (positives z)) as [|[|n]]; try lia.
  destruct (qzerob (qsum z)) eqn:EZ; [discriminate|]. apply qzerob_false in EZ.
  split; [exact EZ|]. unfold Tx_prep in H. cbn [fst snd] in H.
  destruct (Tx_ideal k S _) as [g|]; simpl in H; [|discriminate].
  destruct (secant_or_iq S _ (snd g) (fst g) (fst g + c1em3) (pTmin k) (pTmax k)) as [r|] eqn:E; simpl in H; [|discriminate].
  inversion H; subst. destruct r as [r rb]. exists rb. split; [|reflexivity].
  eapply secant_or_iq_root; eauto.
Qed.

Lemma solve_Px_sound k S z T P x : secant_ok S -> iq_ok S -> N2 z ->
  solve_Px k S z T = Ok (P, x) ->
  ~ qsum z == 0 /\
  exists raw, root_of (dew_P_error k S T (fst (Px_prep k z T)) (snd (Px_prep k z T)) (psats_at k T)) P raw
              /\ x = normalize raw.
Proof.
  intros HS HI HN H. unfold N2 in HN. unfold solve_Px in H.
  destruct (count_true (positives z)) as [|[|n]]; try lia.
  destruct (qzerob (qsum z)) eqn:EZ; [discriminate|]. apply qzerob_false in EZ.
  split; [exact EZ|].
  destruct (Px_ideal _) as [g|]; simpl in H; [|discriminate].
  destruct (secant_or_iq S _ (snd g) (fst g) (fst g - 10) (pPmin k) (pPmax k)) as [r|] eqn:E; simpl in H; [|discriminate].
  inversion H; subst. destruct r as [r rb]. exists rb. split; [|reflexivity].
  eapply secant_or_iq_root; eauto.
Qed.

(* every residual kernel returns 1 - sum(buffer): at a root the raw fractions sum to one *)
Lemma bubble_T_root_sum1 k S P a b T raw : root_of (bubble_T_error k S P a b) T raw -> 0 < T /\ qsum raw == 1.
Proof.
  intros (b0 & v & H & V). unfold bubble_T_error in H.
  destruct (qleb T 0) eqn:E; [discriminate|]. apply qleb_false in E. inversion H; subst. split; [exact E|lra].
Qed.
Lemma bubble_P_root_sum1 k S T a b P raw : root_of (bubble_P_error k S T a b) P raw -> 0 < P /\ qsum raw == 1.
Proof.
  intros (b0 & v & H & V). unfold bubble_P_error in H.
  destruct (qleb P 0) eqn:E; [discriminate|]. apply qleb_false in E. inversion H; subst. split; [exact E|lra].
Qed.
Lemma dew_T_root_sum1 k S P a b T raw : root_of (dew_T_error k S P a b) T raw -> 0 < T /\ qsum raw == 1.
Proof.
  intros (b0 & v & H & V). unfold dew_T_error in H.
  destruct (qleb T 0) eqn:E; [discriminate|]. apply qleb_false in E. inversion H; subst. split; [exact E|lra].
Qed.
Lemma dew_P_root_sum1 k S T a b c P raw : root_of (dew_P_error k S T a b c) P raw -> 0 < P /\ qsum raw == 1.
Proof.
  intros (b0 & v & H & V). unfold dew_P_error in H.
  destruct (qleb P 0) eqn:E; [discriminate|]. apply qleb_false in E. inversion H; subst. split; [exact E|lra].
Qed.

(* the vapour fractions implied by modified Raoult's law at the returned point *)
Definition raoult_y (k : pkg) (S : solvers) (zn : vec) (T P : Q) : vec :=
  let Ps := psats_at k T in
  solve_y k S (vmul (vmul (vmul (vdivs zn P) Ps) (gam k zn T)) (pcf k T P Ps)) T P.

Lemma bubble_T_root_raoult k S P zn T raw :
  root_of (bubble_T_error k S P (vdivs zn P) zn) T raw -> raw = raoult_y k S zn T P.
Proof.
  intros (b0 & v & H & V). unfold bubble_T_error in H.
  destruct (qleb T 0); [discriminate|]. inversion H; subst. reflexivity.
Qed.

(* composition facts *)
Lemma positives_count_sum z : nonneg z -> (1 <= count_true (positives z))%nat -> 0 < qsum z.
Proof.
  intros H; induction H as [|x z Hx Hz IH]; unfold count_true, positives in *; simpl; [lia|].
  intros C. pose proof (qsum_nonneg z Hz) as N.
  destruct (qltb 0 x) eqn:E.
  - apply qltb_true in E. lra.
  - simpl in C. specialize (IH C). lra.
Qed.

Lemma znorm_length z : length (znorm z) = length z.
Proof. unfold znorm, vdivs. apply map_length. Qed.
Lemma znorm_sum1 z : ~ qsum z == 0 -> qsum (znorm z) == 1.
Proof. intros H. unfold znorm. rewrite qsum_vdivs. field. exact H. Qed.
Lemma znorm_nonneg z : nonneg z -> 0 < qsum z -> nonneg (znorm z).
Proof.
  intros H S. unfold znorm, vdivs, nonneg. apply Forall_forall. intros x Hx. apply in_map_iff in Hx.
  destruct Hx as (y & <- & Hy). unfold nonneg in H. rewrite Forall_forall in H. specialize (H _ Hy).
  apply Qle_shift_div_l; lra.
Qed.

(* ---------- T <-> P inverse ---------- *)
(* phi ideal, pcf = 1, any gamma: solving for P at the bubble temperature found for P returns P *)
Definition ideal_vapour (k : pkg) : Prop :=
  phi_ideal k = true /\ (forall T P Ps, pcf k T P Ps = vones (length (chems k))).
Definition gam_shape (k : pkg) : Prop :=
  forall x T, length x = length (chems k) -> length (gam k x T) = length x.

Lemma TP_inverse_lemma k S z P T y P' y' :
  secant_ok S -> iq_ok S -> N2 z -> ideal_vapour k -> gam_shape k -> length z = length (chems k) ->
  ~ P == 0 -> pTmin k <= T <= pTmax k ->
  solve_Ty k S z P = Ok (T, y) -> solve_Py k S z T = Ok (P', y') -> P' == P.
Proof.
  intros HS HI HN (Hphi & Hpc) Hg L NZ (Tlo & Thi) H1 H2.
  destruct (solve_Ty_sound _ _ _ _ _ _ HS HI HN H1) as (_ & r1 & (b1 & v1 & R1 & V1) & _).
  destruct (solve_Py_sound _ _ _ _ _ _ HS HI HN H2) as (_ & r2 & (b2 & v2 & R2 & V2) & _).
  assert (clampT k T = T) as EC.
  { unfold clampT. assert (qltb (pTmax k) T = false) as -> by (apply qltb_false; exact Thi).
    assert (qltb T (pTmin k) = false) as -> by (apply qltb_false; exact Tlo). reflexivity. }
  rewrite EC in R2.
  unfold bubble_T_error in R1. destruct (qleb T 0); [discriminate|].
  unfold bubble_P_error in R2. destruct (qleb P' 0) eqn:EP; [discriminate|]. apply qleb_false in EP.
  unfold solve_y, Py_prep in *. rewrite Hphi, Hpc in *. inversion R1; subst; clear R1. inversion R2; subst; clear R2.
  set (zn := znorm z) in *. set (Ps := psats_at k T) in *. set (n := length (chems k)) in *.
  assert (length zn = n) as Lzn by (unfold zn; rewrite znorm_length; exact L).
  assert (length Ps = n) as LPs by apply psats_at_length.
  assert (length (vmul (vmul zn Ps) (gam k zn T)) = n) as L3.
  { rewrite vmul_length; rewrite vmul_length; try lia. rewrite (Hg zn) by exact Lzn. lia. }
  assert (length (vmul (vmul (vdivs zn P) Ps) (gam k zn T)) = n) as L4.
  { assert (length (vdivs zn P) = n) as Ld by (unfold vdivs; rewrite map_length; exact Lzn).
    rewrite vmul_length; rewrite vmul_length; try lia. rewrite (Hg zn) by exact Lzn. lia. }
  rewrite vmul_vones_r in V1 by lia. rewrite qsum_vdivs in V2. rewrite vmul_vones_r in V2 by lia.
  rewrite vmul_vdivs_l in V1. rewrite vmul_vdivs_l in V1. rewrite qsum_vdivs in V1.
  set (K := qsum (vmul (vmul zn Ps) (gam k zn T))) in *.
  assert (K == P) as E1.
  { assert (K / P == 1) as B by lra. assert (K / P * P == K) as C by (field; exact NZ). rewrite <- C, B. ring. }
  assert (K == P') as E2.
  { assert (K / P' == 1) as B by lra. assert (K / P' * P' == K) as C by (field; lra). rewrite <- C, B. ring. }
  rewrite <- E2. exact E1.
Qed.

(* the converse direction needs uniqueness of the root in T: K(T) = sum zn_i Psat_i(T) gamma_i(zn, T) injective *)
Definition Kfun (k : pkg) (z : vec) (T : Q) : Q :=
  qsum (vmul (vmul (znorm z) (psats_at k T)) (gam k (znorm z) T)).

Lemma PT_inverse_lemma k S z T P y T' y' :
  secant_ok S -> iq_ok S -> N2 z -> ideal_vapour k -> gam_shape k -> length z = length (chems k) ->
  pTmin k <= T <= pTmax k ->
  (forall a b, Kfun k z a == Kfun k z b -> a == b) ->
  solve_Py k S z T = Ok (P, y) -> solve_Ty k S z P = Ok (T', y') -> T' == T.
Proof.
  intros HS HI HN (Hphi & Hpc) Hg L (Tlo & Thi) Inj H2 H1.
  destruct (solve_Ty_sound _ _ _ _ _ _ HS HI HN H1) as (_ & r1 & (b1 & v1 & R1 & V1) & _).
  destruct (solve_Py_sound _ _ _ _ _ _ HS HI HN H2) as (_ & r2 & (b2 & v2 & R2 & V2) & _).
  assert (clampT k T = T) as EC.
  { unfold clampT. assert (qltb (pTmax k) T = false) as -> by (apply qltb_false; exact Thi).
    assert (qltb T (pTmin k) = false) as -> by (apply qltb_false; exact Tlo). reflexivity. }
  rewrite EC in R2.
  unfold bubble_T_error in R1. destruct (qleb T' 0); [discriminate|].
  unfold bubble_P_error in R2. destruct (qleb P 0) eqn:EP; [discriminate|]. apply qleb_false in EP.
  unfold solve_y, Py_prep in *. rewrite Hphi, Hpc in *. inversion R1; subst; clear R1. inversion R2; subst; clear R2.
  apply Inj. unfold Kfun.
  set (zn := znorm z) in *. set (n := length (chems k)) in *.
  assert (length zn = n) as Lzn by (unfold zn; rewrite znorm_length; exact L).
  assert (forall t, length (vmul (vmul zn (psats_at k t)) (gam k zn t)) = n) as L3.
  { intros t. rewrite vmul_length; rewrite vmul_length; rewrite ?psats_at_length; try lia. rewrite (Hg zn) by exact Lzn. lia. }
  assert (length (vmul (vmul (vdivs zn P) (psats_at k T')) (gam k zn T')) = n) as L4.
  { assert (length (vdivs zn P) = n) as Ld by (unfold vdivs; rewrite map_length; exact Lzn).
    rewrite vmul_length; rewrite vmul_length; rewrite ?psats_at_length; try lia. rewrite (Hg zn) by exact Lzn. lia. }
  rewrite vmul_vones_r in V1 by lia. rewrite qsum_vdivs in V2. rewrite vmul_vones_r in V2 by (rewrite L3; lia).
  rewrite vmul_vdivs_l in V1. rewrite vmul_vdivs_l in V1. rewrite qsum_vdivs in V1.
  set (K1 := qsum (vmul (vmul zn (psats_at k T')) (gam k zn T'))) in *.
  set (K2 := qsum (vmul (vmul zn (psats_at k T)) (gam k zn T))) in *.
  assert (K1 == P) as E1.
  { assert (K1 / P == 1) as B by lra. assert (K1 / P * P == K1) as C by (field; lra). rewrite <- C, B. ring. }
  assert (K2 == P) as E2.
  { assert (K2 / P == 1) as B by lra. assert (K2 / P * P == K2) as C by (field; lra). rewrite <- C, B. ring. }
  rewrite E1, E2. reflexivity.
Qed.

(* ---------- ordering of bubble and dew points on the model (ideal package) ---------- *)
Definition psat_increasing (k : pkg) : Prop := Forall increasing (map c_psat (chems k)).
Definition psat_floor_at (k : pkg) (T : Q) : Prop := Forall (fun p => c1em16 <= p) (psats_at k T).

Lemma floor_allpos v : Forall (fun p => c1em16 <= p) v -> allpos v.
Proof. intros H. pose proof c1em16_pos. induction H; constructor; auto. lra. Qed.

Lemma bubble_le_dew_T_lemma k S z P Tb yb Td xd :
  secant_ok S -> iq_ok S -> weg_fix S k -> ideal_pkg k -> psat_increasing k -> psat_floor_at k Td ->
  nonneg z -> length z = length (chems k) -> N2 z -> 0 < P ->
  solve_Ty k S z P = Ok (Tb, yb) -> solve_Tx k S z P = Ok (Td, xd) -> Tb <= Td.
Proof.
  intros HS HI HW I PS PF Hz L HN HP H1 H2.
  destruct (solve_Ty_sound _ _ _ _ _ _ HS HI HN H1) as (NZ & r1 & (b1 & v1 & R1 & V1) & _).
  destruct (solve_Tx_sound _ _ _ _ _ _ HS HI HN H2) as (_ & r2 & (b2 & v2 & R2 & V2) & _).
  assert (0 < qsum z) as Sz by (apply positives_count_sum; [exact Hz | unfold N2 in HN; lia]).
  assert (length (znorm z) = length (chems k)) as Ln by (rewrite znorm_length; exact L).
  destruct (bubble_T_error_ideal_form _ _ _ _ _ _ _ _ I Ln R1) as (_ & _ & E1).
  destruct (dew_T_error_ideal_form _ _ _ _ _ _ _ _ I HW Ln PF R2) as (_ & _ & E2).
  pose proof (floor_allpos _ PF) as PP. rewrite psats_at_pat in E1, E2, PP.
  apply (bubble_le_dew_T_math (map c_psat (chems k)) (znorm z) P Tb Td).
  - exact PS.
  - exact PP.
  - apply znorm_nonneg; assumption.
  - rewrite map_length. exact Ln.
  - apply znorm_sum1; exact NZ.
  - exact HP.
  - assert (wsum (znorm z) (pat (map c_psat (chems k)) Tb) / P == 1) as B by lra.
    assert (wsum (znorm z) (pat (map c_psat (chems k)) Tb) / P * P == wsum (znorm z) (pat (map c_psat (chems k)) Tb)) as C
      by (field; lra).
    rewrite <- C, B. ring.
  - lra.
Qed.

Lemma dew_le_bubble_P_lemma k S z T Pb yb Pd xd :
  secant_ok S -> iq_ok S -> weg_fix S k -> ideal_pkg k -> allpos (psats_at k T) ->
  nonneg z -> length z = length (chems k) -> N2 z -> pTmin k <= T <= pTmax k ->
  solve_Py k S z T = Ok (Pb, yb) -> solve_Px k S z T = Ok (Pd, xd) -> Pd <= Pb.
Proof.
  intros HS HI HW I PS Hz L HN (Tlo & Thi) H1 H2.
  destruct (solve_Py_sound _ _ _ _ _ _ HS HI HN H1) as (NZ & r1 & (b1 & v1 & R1 & V1) & _).
  destruct (solve_Px_sound _ _ _ _ _ _ HS HI HN H2) as (_ & r2 & (b2 & v2 & R2 & V2) & _).
  assert (clampT k T = T) as EC.
  { unfold clampT. assert (qltb (pTmax k) T = false) as -> by (apply qltb_false; exact Thi).
    assert (qltb T (pTmin k) = false) as -> by (apply qltb_false; exact Tlo). reflexivity. }
  rewrite EC in R1.
  assert (0 < qsum z) as Sz by (apply positives_count_sum; [exact Hz | unfold N2 in HN; lia]).
  destruct (bubble_P_error_ideal_form _ _ _ _ _ _ _ _ I L R1) as (Pb0 & E1).
  destruct (dew_P_error_ideal_form _ _ _ _ _ _ _ _ I HW L R2) as (Pd0 & E2).
  rewrite psats_at_pat in E1, E2.
  apply (dew_le_bubble_P_roots (pat (map c_psat (chems k)) T) (znorm z)); auto.
  - rewrite <- psats_at_pat. exact PS.
  - apply znorm_nonneg; assumption.
  - rewrite pat_length, map_length, znorm_length. exact L.
  - apply znorm_sum1; exact NZ.
  - lra.
  - lra.
Qed.

(* ---------- single component ---------- *)
Lemma solve_Ty_single k S z P i c :
  count_true (positives z) = 1%nat -> first_true (positives z) = Some i -> nth_error (chems k) i = Some c ->
  solve_Ty k S z P = (do T <- single_T S c P; Ok (T, normalize z)) /\
  solve_Tx k S z P = (do T <- single_T S c P; Ok (T, normalize z)) /\
  (forall T, solve_Py k S z T = Ok (single_P c T, normalize z)).
Proof.
  intros C F N. unfold solve_Ty, solve_Tx, solve_Py. rewrite C, F, N. auto.
Qed.

Lemma solve_Px_single k S z T i c :
  count_true (positives z) = 1%nat -> first_true (truthy z) = Some i -> nth_error (chems k) i = Some c ->
  solve_Px k S z T = Ok (single_P c T, normalize z).
Proof. intros C F N. unfold solve_Px. rewrite C, F, N. auto. Qed.

(* for a non-negative composition the first truthy entry is the first positive one *)
Lemma truthy_positives z : nonneg z -> truthy z = positives z.
Proof.
  intros H; induction H as [|x z Hx Hz IH]; simpl; auto. rewrite IH. f_equal.
  destruct (qltb 0 x) eqn:E.
  - apply qltb_true in E. apply negb_true_iff. apply qzerob_false. lra.
  - apply qltb_false in E. apply negb_false_iff. apply qzerob_true. lra.
Qed.

(* Chemical.Tsat: the root-finder contract gives Psat(T) = P, except for the Tb shortcut at 101325 Pa *)
Lemma Tsat_go_sound S c P T guess : secant_ok S -> iq_ok S ->
    (let g := fun T0 : Q => c_psat c T0 - P in
     let y0 := g (c_Tlo c + 1) in let y1 := g (c_Thi c - 1) in
     if qltb y0 0 && qltb 0 y1
     then do r <- sres_res (iq S (scalar_resid g) [] (c_Tlo c + 1) (c_Thi c - 1) y0 y1 (Some guess)); Ok (fst r)
     else do r <- sres_res (secant S (scalar_resid g) [] (c_Tlo c + 1) (c_Thi c - 1)); Ok (fst r)) = Ok T ->
    c_psat c T - P == 0.
Proof.
  intros HS HI H'. cbv zeta in H'.
  destruct (qltb (c_psat c (c_Tlo c + 1) - P) 0 && qltb 0 (c_psat c (c_Thi c - 1) - P)).
  - destruct (iq S _ [] _ _ _ _ _) as [r rb|e eb] eqn:E; simpl in H'; [|discriminate].
    inversion H'; subst. destruct (HI _ _ _ _ _ _ _ _ _ E) as (b0 & v & Hv & V).
    unfold scalar_resid in Hv. inversion Hv; subst. exact V.
  - destruct (secant S _ [] _ _) as [r rb|e eb] eqn:E; simpl in H'; [|discriminate].
    inversion H'; subst. destruct (HS _ _ _ _ _ _ E) as (b0 & v & Hv & V).
    unfold scalar_resid in Hv. inversion Hv; subst. exact V.
Qed.

Lemma Tsat_sound S c P T : secant_ok S -> iq_ok S -> Tsat S c P = Ok T ->
  c_psat c T - P == 0 \/ (c_Tb c = Some T /\ ~ T == 0 /\ P == atm).
Proof.
  intros HS HI H. unfold Tsat in H.
  destruct (c_Tb c) as [Tb|] eqn:ETb.
  - destruct (negb (qzerob Tb)) eqn:ENZ.
    + destruct (qeqb P atm) eqn:EP.
      * inversion H; subst. right. split; [reflexivity|]. split.
        -- apply negb_true_iff in ENZ. apply qzerob_false in ENZ. exact ENZ.
        -- apply Qeq_bool_iff. exact EP.
      * left. eapply Tsat_go_sound; eauto.
    + left. eapply Tsat_go_sound; eauto.
  - left. eapply Tsat_go_sound; eauto.
Qed.

(* a single positive entry in a non-negative composition: the normalised output is the unit vector *)
Lemma single_positive_shape z i : nonneg z ->
  count_true (positives z) = 1%nat -> first_true (positives z) = Some i ->
  qsum z == nthq z i /\ 0 < nthq z i /\ forall j, j <> i -> nthq z j == 0.
Proof.
  intros H; revert i; induction H as [|x z Hx Hz IH]; intros i C F; unfold count_true, positives in *; simpl in *; [discriminate|].
  destruct (qltb 0 x) eqn:E.
  - inversion F; subst. simpl in C. apply qltb_true in E.
    assert (forall j, nthq z j == 0) as Z.
    { clear IH. assert (length (filter (fun b => b) (map (fun x0 => qltb 0 x0) z)) = 0%nat) as C0 by lia.
      clear C. induction Hz as [|y z Hy Hz IHz]; intros j; [rewrite nthq_nil; reflexivity|].
      simpl in C0. destruct (qltb 0 y) eqn:Ey; [simpl in C0; discriminate|]. apply qltb_false in Ey.
      destruct j; unfold nthq in *; simpl; [lra | apply IHz; exact C0]. }
    assert (qsum z == 0) as S0.
    { clear -Z. induction z as [|y z IHz]; [reflexivity|]. simpl.
      pose proof (Z 0%nat) as Z0. unfold nthq in Z0; simpl in Z0. rewrite Z0, IHz; [ring|].
      intros j. specialize (Z (S j)). unfold nthq in *; simpl in Z. exact Z. }
    unfold nthq; simpl. split; [lra|]. split; [exact E|].
    intros [|j] Hj; [congruence|]. simpl. apply Z.
  - apply qltb_false in E. destruct (first_true (map (fun x0 => qltb 0 x0) z)) as [i'|] eqn:F'; [|discriminate].
    inversion F; subst. simpl in C. destruct (IH i' C eq_refl) as (S1 & P1 & Z1).
    unfold nthq in *; simpl. split; [lra|]. split; [exact P1|].
    intros [|j] Hj; simpl; [lra|]. apply Z1. congruence.
Qed.

Lemma normalize_single z i : nonneg z ->
  count_true (positives z) = 1%nat -> first_true (positives z) = Some i -> c1em16 <= qsum z ->
  nthq (normalize z) i == 1 /\ forall j, j <> i -> nthq (normalize z) j == 0.
Proof.
  intros H C F Hs. destruct (single_positive_shape z i H C F) as (S1 & P1 & Z1).
  unfold normalize. assert (qltb (qsum z) c1em16 = false) as -> by (apply qltb_false; exact Hs).
  split.
  - rewrite nthq_vdivs, S1. field. lra.
  - intros j Hj. rewrite nthq_vdivs, (Z1 j Hj). unfold Qdiv. ring.
Qed.

(* ---------- the result depends on z only through z / sum z ---------- *)
Lemma qsum_vscale c z : qsum (vscale c z) == c * qsum z.
Proof. induction z as [|x z IH]; simpl; [ring|]. unfold vscale in IH. rewrite IH. ring. Qed.

Lemma znorm_scale c z : ~ c == 0 -> ~ qsum z == 0 -> znorm (vscale c z) =v= znorm z.
Proof.
  intros Hc Hz. unfold znorm, vdivs. pose proof (qsum_vscale c z) as Es. unfold vscale in *. rewrite map_map.
  apply map_veqv; [|reflexivity]. intros x y E. rewrite E, Es. field. split; assumption.
Qed.

Lemma positives_scale c z : 0 < c -> positives (vscale c z) = positives z.
Proof.
  intros Hc. unfold positives, vscale. rewrite map_map. apply map_ext. intros x.
  destruct (qltb 0 x) eqn:E.
  - apply qltb_true in E. apply qltb_true. nra.
  - apply qltb_false in E. apply qltb_false. nra.
Qed.

Lemma prep_scale k c z a : 0 < c -> ~ qsum z == 0 ->
  fst (Ty_prep (vscale c z) a) =v= fst (Ty_prep z a) /\ snd (Ty_prep (vscale c z) a) =v= snd (Ty_prep z a) /\
  fst (Tx_prep (vscale c z) a) =v= fst (Tx_prep z a) /\ snd (Tx_prep (vscale c z) a) =v= snd (Tx_prep z a) /\
  fst (Px_prep k (vscale c z) a) =v= fst (Px_prep k z a) /\ snd (Px_prep k (vscale c z) a) =v= snd (Px_prep k z a).
Proof.
  intros Hc Hz. assert (~ c == 0) as Hc' by lra. pose proof (znorm_scale c z Hc' Hz) as E.
  unfold Ty_prep, Tx_prep, Px_prep; cbn [fst snd]. repeat split; try exact E.
  - rewrite E. reflexivity.
  - apply map_veqv; [|exact E]. intros x y Exy. rewrite Exy. reflexivity.
  - rewrite E. reflexivity.
Qed.

Definition gam_proper (k : pkg) : Prop := forall a b T, a =v= b -> gam k a T =v= gam k b T.

Definition resid_equiv (r1 r2 : res (Q * vec)) : Prop :=
  match r1, r2 with
  | Ok (v1, y1), Ok (v2, y2) => v1 == v2 /\ y1 =v= y2
  | Err e1, Err e2 => e1 = e2
  | _, _ => False
  end.

Lemma residual_scale_T_lemma k S P c z buf buf' T :
  0 < c -> ~ qsum z == 0 -> phi_ideal k = true -> gam_proper k ->
  resid_equiv
    (bubble_T_error k S P (fst (Ty_prep (vscale c z) P)) (snd (Ty_prep (vscale c z) P)) buf T)
    (bubble_T_error k S P (fst (Ty_prep z P)) (snd (Ty_prep z P)) buf' T).
Proof.
  intros Hc Hz Hphi Hg. destruct (prep_scale k c z P Hc Hz) as (E1 & E2 & _).
  unfold bubble_T_error, resid_equiv. destruct (qleb T 0); [reflexivity|].
  unfold solve_y. rewrite Hphi.
  assert (vmul (vmul (vmul (fst (Ty_prep (vscale c z) P)) (psats_at k T)) (gam k (snd (Ty_prep (vscale c z) P)) T))
               (pcf k T P (psats_at k T))
          =v= vmul (vmul (vmul (fst (Ty_prep z P)) (psats_at k T)) (gam k (snd (Ty_prep z P)) T))
               (pcf k T P (psats_at k T))) as E.
  { rewrite E1. rewrite (Hg _ _ T E2). reflexivity. }
  split; [rewrite E; reflexivity | exact E].
Qed.

(* pressure residual of the bubble point: solve_Py hands over z_norm-based quantities only *)
Lemma residual_scale_P_lemma k S T c z buf buf' P :
  0 < c -> ~ qsum z == 0 -> phi_ideal k = true -> gam_proper k ->
  resid_equiv
    (bubble_P_error k S T (Py_prep k (vscale c z) T) (psats_at k T) buf P)
    (bubble_P_error k S T (Py_prep k z T) (psats_at k T) buf' P).
Proof.
  intros Hc Hz Hphi Hg. assert (~ c == 0) as Hc' by lra. pose proof (znorm_scale c z Hc' Hz) as E0.
  unfold bubble_P_error, resid_equiv. destruct (qleb P 0); [reflexivity|].
  unfold solve_y. rewrite Hphi. unfold Py_prep.
  assert (vdivs (vmul (vmul (vmul (znorm (vscale c z)) (psats_at k T)) (gam k (znorm (vscale c z)) T)) (pcf k T P (psats_at k T))) P
          =v= vdivs (vmul (vmul (vmul (znorm z) (psats_at k T)) (gam k (znorm z) T)) (pcf k T P (psats_at k T))) P) as E.
  { rewrite E0 at 1. rewrite (Hg _ _ T E0). reflexivity. }
  split; [rewrite E; reflexivity | exact E].
Qed.

(* dew residuals, ideal package *)
Lemma residual_scale_dew_lemma k S P c z buf buf' T v1 x1 v2 x2 :
  0 < c -> ~ qsum z == 0 -> ideal_pkg k -> weg_fix S k -> length z = length (chems k) ->
  Forall (fun p => c1em16 <= p) (psats_at k T) ->
  dew_T_error k S P (fst (Tx_prep (vscale c z) P)) (snd (Tx_prep (vscale c z) P)) buf T = Ok (v1, x1) ->
  dew_T_error k S P (fst (Tx_prep z P)) (snd (Tx_prep z P)) buf' T = Ok (v2, x2) ->
  v1 == v2 /\ x1 =v= x2.
Proof.
  intros Hc Hz I W L Hps H1 H2. assert (~ c == 0) as Hc' by lra. pose proof (znorm_scale c z Hc' Hz) as E0.
  unfold Tx_prep in *; cbn [fst snd] in *.
  assert (length (znorm (vscale c z)) = length (chems k)) as L1.
  { rewrite znorm_length. unfold vscale. rewrite map_length. exact L. }
  assert (length (znorm z) = length (chems k)) as L2 by (rewrite znorm_length; exact L).
  destruct (dew_T_error_ideal_form _ _ _ _ _ _ _ _ I W L1 Hps H1) as (_ & X1 & V1).
  destruct (dew_T_error_ideal_form _ _ _ _ _ _ _ _ I W L2 Hps H2) as (_ & X2 & V2).
  assert (map (fun a => a * P) (znorm (vscale c z)) =v= map (fun a => a * P) (znorm z)) as E1.
  { apply map_veqv; [|exact E0]. intros x y Exy. rewrite Exy. reflexivity. }
  split.
  - rewrite V1, V2. unfold wsumi. rewrite E0. reflexivity.
  - rewrite X1, X2, E1. reflexivity.
Qed.

(* ---------- permutation of the chemical list ---------- *)
Definition vperm (s : list nat) (v : vec) : vec := map (fun i => nthq v i) s.

Lemma qsum_permutation (a b : vec) : Permutation a b -> qsum a == qsum b.
Proof. induction 1; simpl; try lra. Qed.

Lemma map_nthq_seq v : map (fun i => nthq v i) (seq 0 (length v)) = v.
Proof.
  induction v as [|x v IH]; [reflexivity|].
  simpl length. cbn [seq map]. f_equal. rewrite <- seq_shift, map_map. exact IH.
Qed.

Lemma qsum_vperm s v : Permutation s (seq 0 (length v)) -> qsum (vperm s v) == qsum v.
Proof.
  intros H. unfold vperm. rewrite (qsum_permutation _ _ (Permutation_map (fun i => nthq v i) H)).
  rewrite map_nthq_seq. reflexivity.
Qed.

Lemma perm_lt s n : Permutation s (seq 0 n) -> Forall (fun i => (i < n)%nat) s.
Proof.
  intros H. apply Forall_forall. intros i Hi. apply (Permutation_in _ H) in Hi. apply in_seq in Hi. lia.
Qed.

Lemma nthq_map2 (f : Q -> Q -> Q) a b i : length a = length b -> (i < length a)%nat ->
  nthq (map2 f a b) i = f (nthq a i) (nthq b i).
Proof.
  revert b i; induction a as [|x a IH]; intros [|y b] i L H; simpl in *; try lia.
  destruct i; unfold nthq in *; simpl; [reflexivity|]. apply IH; lia.
Qed.

Lemma vperm_map2 (f : Q -> Q -> Q) s a b : length a = length b -> Forall (fun i => (i < length a)%nat) s ->
  vperm s (map2 f a b) = map2 f (vperm s a) (vperm s b).
Proof.
  intros L H. unfold vperm. induction H as [|i s Hi Hs IH]; simpl; [reflexivity|].
  rewrite IH. f_equal. apply nthq_map2; assumption.
Qed.

Lemma vperm_length s v : length (vperm s v) = length s.
Proof. apply map_length. Qed.

(* psats_at of a package whose chemical list is the permuted list *)
Lemma psats_at_perm k k' s d T :
  Forall (fun i => (i < length (chems k))%nat) s ->
  chems k' = map (fun i => nth i (chems k) d) s ->
  psats_at k' T = vperm s (psats_at k T).
Proof.
  intros H E. unfold psats_at, vperm. rewrite E, map_map. apply map_ext_in. intros i Hi.
  rewrite Forall_forall in H. specialize (H _ Hi). unfold nthq.
  rewrite (nth_indep _ 0 (c_psat d T)) by (rewrite map_length; exact H).
  symmetry. exact (map_nth (fun c => c_psat c T) (chems k) d i).
Qed.

Definition perm_pkg (s : list nat) (k k' : pkg) : Prop :=
  let n := length (chems k) in
  Permutation s (seq 0 n) /\
  (forall T, psats_at k' T = vperm s (psats_at k T)) /\
  phi_ideal k = true /\ phi_ideal k' = true /\
  (forall x T, length x = n -> gam k' (vperm s x) T = vperm s (gam k x T) /\ length (gam k x T) = n) /\
  (forall T P Ps, length Ps = n -> pcf k' T P (vperm s Ps) = vperm s (pcf k T P Ps) /\ length (pcf k T P Ps) = n).

Lemma residual_perm_lemma s k k' S S' P zoP zn buf buf' T v y v' y' :
  perm_pkg s k k' -> length zoP = length (chems k) -> length zn = length (chems k) ->
  bubble_T_error k S P zoP zn buf T = Ok (v, y) ->
  bubble_T_error k' S' P (vperm s zoP) (vperm s zn) buf' T = Ok (v', y') ->
  v' == v /\ y' = vperm s y.
Proof.
  intros (HP & HPs & Hphi & Hphi' & Hg & Hpc) L1 L2 H H'. cbv zeta in *.
  set (n := length (chems k)) in *.
  pose proof (perm_lt _ _ HP) as Hlt.
  unfold bubble_T_error in *. destruct (qleb T 0); [discriminate|].
  unfold solve_y in *. rewrite Hphi in H. rewrite Hphi' in H'.
  inversion H; subst v y; clear H. inversion H'; subst v' y'; clear H'.
  rewrite HPs.
  assert (length (psats_at k T) = n) as LP by apply psats_at_length.
  destruct (Hg zn T L2) as (Eg & Lg). destruct (Hpc T P (psats_at k T) LP) as (Epc & Lpc).
  rewrite Eg, Epc.
  assert (length (vmul zoP (psats_at k T)) = n) as La by (rewrite vmul_length; lia).
  assert (length (vmul (vmul zoP (psats_at k T)) (gam k zn T)) = n) as Lb by (rewrite vmul_length; lia).
  assert (vmul (vmul (vmul (vperm s zoP) (vperm s (psats_at k T))) (vperm s (gam k zn T))) (vperm s (pcf k T P (psats_at k T)))
          = vperm s (vmul (vmul (vmul zoP (psats_at k T)) (gam k zn T)) (pcf k T P (psats_at k T)))) as E.
  { unfold vmul. rewrite <- !vperm_map2; try reflexivity; change (map2 Qmult) with vmul.
    - lia.
    - rewrite Lb. exact Hlt.
    - lia.
    - rewrite La. exact Hlt.
    - lia.
    - rewrite L1. exact Hlt. }
  rewrite E. split; [|reflexivity].
  rewrite qsum_vperm; [reflexivity|].
  rewrite vmul_length; [rewrite Lb; exact HP | lia].
Qed.

(* ---------- instance cache ---------- *)
Lemma list_eqb_nat_eq (a b : list nat) : list_eqb Nat.eqb a b = true <-> a = b.
Proof.
  revert b; induction a as [|x a IH]; intros [|y b]; simpl; split; intros H; try discriminate; auto.
  - apply andb_true_iff in H. destruct H as (H1 & H2). apply Nat.eqb_eq in H1. apply IH in H2. congruence.
  - inversion H; subst. rewrite Nat.eqb_refl. simpl. apply IH. reflexivity.
Qed.

Lemma key_eqb_eq (a b : key) : key_eqb a b = true <-> a = b.
Proof.
  destruct a as [[[ca ga] pa] fa], b as [[[cb gb] pb] fb]. unfold key_eqb.
  rewrite !andb_true_iff, list_eqb_nat_eq, !Nat.eqb_eq. split.
  - intros (((A & B) & C) & D). congruence.
  - intros H; inversion H; auto.
Qed.

Section Cache.
Context {A : Type} (build : key -> res A).

Definition cache_inv (st : cache A * nat) : Prop :=
  (forall k id a, cache_find (fst st) k = Some (id, a) -> build k = Ok a /\ (id < snd st)%nat) /\
  (forall k1 k2 id a1 a2, cache_find (fst st) k1 = Some (id, a1) -> cache_find (fst st) k2 = Some (id, a2) -> k1 = k2).

Lemma cache_inv_init : cache_inv ([], 0%nat).
Proof. split; simpl; intros; discriminate. Qed.

Lemma cache_new_inv st k : cache_inv st -> cache_inv (snd (cache_new build st k)).
Proof.
  intros (I1 & I2). unfold cache_new. destruct (cache_find (fst st) k) as [v|] eqn:F; [split; assumption|].
  destruct (build k) as [a|e] eqn:B; [|split; assumption].
  cbn [snd fst]. split.
  - intros k' id a'. cbn [fst snd cache_find]. destruct (key_eqb k' k) eqn:E.
    + apply key_eqb_eq in E. subst k'. intros H; inversion H; subst. split; [exact B | lia].
    + intros H. destruct (I1 _ _ _ H). split; [assumption | lia].
  - intros k1 k2 id a1 a2. cbn [fst snd cache_find].
    destruct (key_eqb k1 k) eqn:E1; destruct (key_eqb k2 k) eqn:E2; intros H1 H2.
    + apply key_eqb_eq in E1, E2. congruence.
    + inversion H1; subst. destruct (I1 _ _ _ H2). lia.
    + inversion H2; subst. destruct (I1 _ _ _ H1). lia.
    + eapply I2; eauto.
Qed.

Lemma cache_run_inv ks st : cache_inv st -> cache_inv (snd (cache_run build st ks)).
Proof.
  revert st; induction ks as [|k ks IH]; intros st I; simpl; [exact I|].
  apply IH. apply cache_new_inv. exact I.
Qed.

(* whatever the history, the instance a constructor call returns is the one a fresh build gives *)
Lemma cache_coherent_lemma ks k :
  let st := snd (cache_run build ([], 0%nat) ks) in
  match fst (cache_new build st k) with
  | Ok (id, a) => build k = Ok a
  | Err e => build k = Err e
  end.
Proof.
  cbv zeta. pose proof (cache_run_inv ks _ cache_inv_init) as (I1 & _).
  set (st := snd (cache_run build ([], 0%nat) ks)) in *.
  unfold cache_new. destruct (cache_find (fst st) k) as [[id a]|] eqn:F.
  - simpl. apply (I1 _ _ _ F).
  - destruct (build k) as [a|e]; simpl; reflexivity.
Qed.

(* identity: a second call with the same key returns the same object, another key another object *)
Lemma cache_identity_lemma ks k1 k2 i1 a1 i2 a2 :
  let st := snd (cache_run build ([], 0%nat) ks) in
  let r1 := cache_new build st k1 in
  let r2 := cache_new build (snd r1) k2 in
  fst r1 = Ok (i1, a1) -> fst r2 = Ok (i2, a2) -> (i1 = i2 <-> k1 = k2).
Proof.
  cbv zeta. pose proof (cache_run_inv ks _ cache_inv_init) as I.
  set (st := snd (cache_run build ([], 0%nat) ks)) in *.
  pose proof (cache_new_inv st k1 I) as I'.
  intros H1 H2.
  assert (cache_find (fst (snd (cache_new build st k1))) k1 = Some (i1, a1)) as F1.
  { unfold cache_new in *. destruct (cache_find (fst st) k1) as [v|] eqn:F.
    - simpl in *. inversion H1; subst. exact F.
    - destruct (build k1) as [a|e]; simpl in *; [|discriminate]. inversion H1; subst.
      assert (key_eqb k1 k1 = true) as -> by (apply key_eqb_eq; reflexivity). reflexivity. }
  set (st1 := snd (cache_new build st k1)) in *.
  pose proof (cache_new_inv st1 k2 I') as I''.
  assert (cache_find (fst (snd (cache_new build st1 k2))) k2 = Some (i2, a2)) as F2.
  { unfold cache_new in *. destruct (cache_find (fst st1) k2) as [v|] eqn:F.
    - simpl in *. inversion H2; subst. exact F.
    - destruct (build k2) as [a|e]; simpl in *; [|discriminate]. inversion H2; subst.
      assert (key_eqb k2 k2 = true) as -> by (apply key_eqb_eq; reflexivity). reflexivity. }
  assert (cache_find (fst (snd (cache_new build st1 k2))) k1 = Some (i1, a1)) as F1'.
  { unfold cache_new. destruct (cache_find (fst st1) k2) as [v|] eqn:F; [exact F1|].
    destruct (build k2) as [a|e]; [|exact F1]. cbn [snd fst cache_find].
    destruct (key_eqb k1 k2) eqn:E; [|exact F1]. apply key_eqb_eq in E. subst k2. congruence. }
  split.
  - intros ->. destruct I'' as (_ & J). eapply J; eauto.
  - intros ->. congruence.
Qed.
End Cache.

(* ---------- the returned point satisfies its defining equation; output normalised ---------- *)
Lemma normalized_root raw : qsum raw == 1 -> qsum (normalize raw) == 1 /\ normalize raw =v= raw.
Proof.
  intros H. pose proof (normalize_of_sum1 raw H) as E. split; [rewrite E; exact H | exact E].
Qed.

Lemma solve_Ty_equation k S z P T y : secant_ok S -> iq_ok S -> N2 z -> solve_Ty k S z P = Ok (T, y) ->
  0 < T /\ qsum y == 1 /\ y =v= raoult_y k S (znorm z) T P /\ qsum (raoult_y k S (znorm z) T P) == 1.
Proof.
  intros HS HI HN H. destruct (solve_Ty_sound _ _ _ _ _ _ HS HI HN H) as (_ & raw & R & ->).
  destruct (bubble_T_root_sum1 _ _ _ _ _ _ _ R) as (HT & S1).
  rewrite <- (bubble_T_root_raoult _ _ _ _ _ _ R).
  destruct (normalized_root raw S1) as (N1 & N2'). auto.
Qed.

Lemma solve_all_equations k S z a r out : secant_ok S -> iq_ok S -> N2 z ->
  (solve_Ty k S z a = Ok (r, out) ->
     qsum out == 1 /\ exists raw, out =v= raw /\ root_of (bubble_T_error k S a (vdivs (znorm z) a) (znorm z)) r raw) /\
  (solve_Py k S z a = Ok (r, out) ->
     qsum out == 1 /\ exists raw, out =v= raw /\
       root_of (bubble_P_error k S (clampT k a) (Py_prep k z (clampT k a)) (psats_at k (clampT k a))) r raw) /\
  (solve_Tx k S z a = Ok (r, out) ->
     qsum out == 1 /\ exists raw, out =v= raw /\
       root_of (dew_T_error k S a (znorm z) (map (fun u => u * a) (znorm z))) r raw) /\
  (solve_Px k S z a = Ok (r, out) ->
     qsum out == 1 /\ exists raw, out =v= raw /\
       root_of (dew_P_error k S a (fst (Px_prep k z a)) (snd (Px_prep k z a)) (psats_at k a)) r raw).
Proof.
  intros HS HI HN. split; [|split; [|split]]; intros H.
  - destruct (solve_Ty_sound _ _ _ _ _ _ HS HI HN H) as (_ & raw & R & ->).
    destruct (bubble_T_root_sum1 _ _ _ _ _ _ _ R) as (_ & S1). destruct (normalized_root raw S1) as (N1 & N2').
    split; [exact N1 | eauto].
  - destruct (solve_Py_sound _ _ _ _ _ _ HS HI HN H) as (_ & raw & R & ->).
    destruct (bubble_P_root_sum1 _ _ _ _ _ _ _ R) as (_ & S1). destruct (normalized_root raw S1) as (N1 & N2').
    split; [exact N1 | eauto].
  - destruct (solve_Tx_sound _ _ _ _ _ _ HS HI HN H) as (_ & raw & R & ->).
    destruct (dew_T_root_sum1 _ _ _ _ _ _ _ R) as (_ & S1). destruct (normalized_root raw S1) as (N1 & N2').
    split; [exact N1 | eauto].
  - destruct (solve_Px_sound _ _ _ _ _ _ HS HI HN H) as (_ & raw & R & ->).
    destruct (dew_P_root_sum1 _ _ _ _ _ _ _ _ R) as (_ & S1). destruct (normalized_root raw S1) as (N1 & N2').
    split; [exact N1 | eauto].
Qed.

(* ---------- a root finder that meets the contracts (used by the non-vacuity examples) ---------- *)
Fixpoint try_cands (f : resid) (buf : vec) (cands : list Q) : sres :=
  match cands with
  | [] => SErr ERuntime buf
  | c :: t => match f buf c with
              | Ok (v, b) => if qzerob v then SOk c b else try_cands f b t
              | Err e => try_cands f buf t
              end
  end.
Definition checked_solvers (cands : list Q) : solvers :=
  mksolvers (fun f b _ _ => try_cands f b cands) (fun f b _ _ _ _ _ => try_cands f b cands) (fun f x => f x).

Lemma try_cands_root f cands : forall buf x b, try_cands f buf cands = SOk x b -> root_of f x b.
Proof.
  induction cands as [|c t IH]; intros buf x b H; simpl in H; [discriminate|].
  destruct (f buf c) as [[v b']|e] eqn:E.
  - destruct (qzerob v) eqn:Z.
    + inversion H; subst. exists buf, v. split; [exact E|]. apply qzerob_true. exact Z.
    + eapply IH; eauto.
  - eapply IH; eauto.
Qed.
Lemma checked_secant_ok cands : secant_ok (checked_solvers cands).
Proof. intros f b x0 x1 x b' H. simpl in H. eapply try_cands_root; eauto. Qed.
Lemma checked_iq_ok cands : iq_ok (checked_solvers cands).
Proof. intros f b x0 x1 y0 y1 g x b' H. simpl in H. eapply try_cands_root; eauto. Qed.

(* a two-chemical ideal package with Psat_A = 256 (T - 64), Psat_B = 128 (T - 64) *)
Definition ex_chems : list chem :=
  [mkchem (fun T => 256 * T - 16384) 200 600 None 640 4194304;
   mkchem (fun T => 128 * T - 8192) 220 640 (Some 352) 700 4194304].
Definition ex_pkg : pkg :=
  match new_pkg ex_chems (ideal_gam 2) true (ideal_phi 2) (mock_pcf 2) with
  | Ok k => k
  | Err _ => mkpkg [] (ideal_gam 0) true (ideal_phi 0) (mock_pcf 0) 0 0 0 0
  end.
Definition ex_S : solvers := checked_solvers [320; 352; 49152; 131072 # 3].

Lemma ex_ideal : ideal_pkg ex_pkg.
Proof. repeat split. Qed.
Lemma ex_weg_fix : weg_fix ex_S ex_pkg.
Proof. intros xg T x. reflexivity. Qed.
Lemma ex_chems_eq : chems ex_pkg = ex_chems.
Proof. reflexivity. Qed.
Lemma ex_increasing : psat_increasing ex_pkg.
Proof.
  unfold psat_increasing. rewrite ex_chems_eq. unfold ex_chems. cbn [map c_psat].
  repeat constructor; intros a b H; lra.
Qed.

(* ---------- histories: a call's result does not depend on the calls made before it ---------- *)
Lemma history_independent_lemma k S cs i d :
  nth i (run_calls k S cs) (exec_call k S d) = exec_call k S (nth i cs d).
Proof. unfold run_calls. apply map_nth. Qed.

Lemma repeat_call_lemma k S cs i j d :
  nth i cs d = nth j cs d ->
  nth i (run_calls k S cs) (exec_call k S d) = nth j (run_calls k S cs) (exec_call k S d).
Proof. intros H. rewrite !history_independent_lemma, H. reflexivity. Qed.

Lemma run_calls_app k S a b : run_calls k S (a ++ b) = run_calls k S a ++ run_calls k S b.
Proof. unfold run_calls. apply map_app. Qed.

(* ---------- caller-owned arrays updated in place; default package of the session ---------- *)
(* the calls of a history, each with the contents its array had when the call was made *)
Fixpoint snapshots (bufs : list vec) (ops : list hop) : list pcall :=
  match ops with
  | [] => []
  | HSet i v :: t => snapshots (upd bufs i v) t
  | HCall w i a :: t => call_of w (nth i bufs []) a :: snapshots bufs t
  end.
Fixpoint apply_sets (bufs : list vec) (ops : list hop) : list vec :=
  match ops with
  | [] => bufs
  | HSet i v :: t => apply_sets (upd bufs i v) t
  | HCall _ _ _ :: t => apply_sets bufs t
  end.

Lemma run_hist_results k S ops : forall bufs,
  fst (run_hist k S bufs ops) = run_calls k S (snapshots bufs ops).
Proof.
  induction ops as [|o t IH]; intros bufs; [reflexivity|].
  destruct o as [i v|w i a]; cbn [run_hist snapshots]; [apply IH|].
  cbn [fst run_calls map]. f_equal. apply IH.
Qed.
Lemma run_hist_buffers k S ops : forall bufs,
  snd (run_hist k S bufs ops) = apply_sets bufs ops.
Proof.
  induction ops as [|o t IH]; intros bufs; [reflexivity|].
  destruct o as [i v|w i a]; cbn [run_hist apply_sets]; [apply IH|]. cbn [snd]. apply IH.
Qed.

Lemma run_session_cache_run {A} (build : key -> res A) ops : forall st dflt,
  run_session build st dflt ops = fst (cache_run build st (resolved_keys dflt ops)).
Proof.
  induction ops as [|o t IH]; intros st dflt; [reflexivity|].
  destruct o as [d|cs th]; cbn [run_session resolved_keys]; [apply IH|].
  cbn [cache_run fst]. f_equal. apply IH.
Qed.

(* ---------- error path and instance data ---------- *)
(* when the open solver (or the residual it evaluates: InfeasibleRegion is a RuntimeError) raises, the wrapper's result is
   the bounded solve over [lo, hi] started from the residual values at the two ends - the exception does not escape *)
Lemma fallback_taken_lemma S f buf x0 x1 lo hi e b a c :
  secant S f buf x0 x1 = SErr e b -> is_runtime e = true ->
  f b lo = Ok a -> f (snd a) hi = Ok c ->
  secant_or_iq S f buf x0 x1 lo hi = sres_res (iq S f (snd c) lo hi (fst a) (fst c) (Some x0)).
Proof.
  intros H R A C. unfold secant_or_iq. rewrite H, R. cbn [negb]. rewrite A. cbn [bind]. rewrite C. reflexivity.
Qed.
Lemma other_errors_escape_lemma S f buf x0 x1 lo hi e b :
  secant S f buf x0 x1 = SErr e b -> is_runtime e = false -> secant_or_iq S f buf x0 x1 lo hi = Err e.
Proof. intros H R. unfold secant_or_iq. rewrite H, R. reflexivity. Qed.

(* the VLE domain an instance carries is a function of the data of ITS chemical objects (nothing else: no name, no
   earlier instance) *)
Lemma instance_domain_lemma cs g pid ph pc k : new_pkg cs g pid ph pc = Ok k ->
  chems k = cs /\ vle_domain cs = Ok (pTmin k, pTmax k) /\
  (forall c, In c cs -> pPmin k <= c_psat c (pTmin k) /\ c_psat c (pTmax k) <= pPmax k).
Proof.
  unfold new_pkg. destruct (vle_domain cs) as [[lo hi]|] eqn:D; cbn [bind fst snd]; [|discriminate].
  destruct cs as [|c0 t]; [discriminate|]. cbn [map]. intros H. inversion H; subst; clear H. cbn [chems pTmin pTmax pPmin pPmax].
  split; [reflexivity|]. split; [reflexivity|].
  assert (forall (l : list Q) a x, (x == a \/ In x l) -> fold_left Qmin l a <= x) as Fmin.
  { induction l as [|y l IH]; intros a x [E|I]; cbn [fold_left].
    - rewrite E. apply Qle_refl.
    - destruct I.
    - eapply Qle_trans; [apply IH; left; reflexivity|]. rewrite E. apply Q.le_min_l.
    - destruct I as [->|I].
      + eapply Qle_trans; [apply IH; left; reflexivity|]. apply Q.le_min_r.
      + apply IH. right. exact I. }
  assert (forall (l : list Q) a x, (x == a \/ In x l) -> x <= fold_left Qmax l a) as Fmax.
  { induction l as [|y l IH]; intros a x [E|I]; cbn [fold_left].
    - rewrite E. apply Qle_refl.
    - destruct I.
    - eapply Qle_trans; [|apply IH; left; reflexivity]. rewrite E. apply Q.le_max_l.
    - destruct I as [->|I].
      + eapply Qle_trans; [|apply IH; left; reflexivity]. apply Q.le_max_r.
      + apply IH. right. exact I. }
  intros c [->|I]; split.
  - apply Fmin. left. reflexivity.
  - apply Fmax. left. reflexivity.
  - apply Fmin. right. apply (in_map (fun c1 => c_psat c1 lo)). exact I.
  - apply Fmax. right. apply (in_map (fun c1 => c_psat c1 hi)). exact I.
Qed.

(* ---------- the dew-equation clause without the solver contracts ---------- *)
(* the clause of the property as the text has it: whatever the root finders do, a computed dew temperature satisfies the
   dew equation on the normalised composition and the returned liquid fractions are the ones of that point *)
Definition dew_equation_statement : Prop := forall k S z P T x, N2 z ->
  solve_Tx k S z P = Ok (T, x) ->
  qsum x == 1 /\ exists raw, x =v= raw /\ root_of (dew_T_error k S P (znorm z) (map (fun u => u * P) (znorm z))) T raw.

(* a root finder that does not deliver a root (here: it returns 300 K whatever it is given) makes the wrapper return a
   point that violates the equation: the contracts secant_ok / iq_ok / weg_fix of the proved part cannot be dropped *)
Definition bad_S : solvers := stub_solvers (KTable 300 300) (KTable 300 300) 1.

Lemma bad_S_weg_fix : weg_fix bad_S ex_pkg.
Proof. intros xg T x. reflexivity. Qed.

Lemma dew_equation_needs_contract : ~ dew_equation_statement.
Proof.
  intros H.
  assert (exists x, solve_Tx ex_pkg bad_S [1; 1] 49152 = Ok (300, x)) as (x & Hx) by (eexists; vm_compute; reflexivity).
  assert (N2 [1; 1]) as HN by (unfold N2; vm_compute; lia).
  destruct (H ex_pkg bad_S [1; 1] 49152 300 x HN Hx) as (_ & raw & _ & (b0 & v & R & V)).
  assert (length (znorm [1; 1]) = length (chems ex_pkg)) as L by reflexivity.
  assert (Forall (fun p => c1em16 <= p) (psats_at ex_pkg 300)) as F.
  { repeat constructor; vm_compute; discriminate. }
  destruct (dew_T_error_ideal_form ex_pkg bad_S 49152 (znorm [1; 1]) b0 300 v raw ex_ideal bad_S_weg_fix L F R) as (_ & _ & E).
  rewrite E in V. vm_compute in V. discriminate.
Qed.

(* ---------- tie to the source: the kernels generated from /repo by tr/C08_kernels.py are the hand-written ones ---------- *)
Lemma generated_kernels_agree :
  g_bubble_T_error = bubble_T_error /\ g_bubble_P_error = bubble_P_error /\
  g_bubble_T_error_ideal = bubble_T_error_ideal /\ g_Py_ideal = Py_ideal /\
  g_dew_T_error = dew_T_error /\ g_dew_T_error_ideal = dew_T_error_ideal /\ g_dew_P_error = dew_P_error /\
  g_Ty_prep = Ty_prep /\ g_Py_prep = Py_prep /\ g_Tx_prep = Tx_prep /\ g_Px_prep = Px_prep.
Proof. repeat split; reflexivity. Qed.
