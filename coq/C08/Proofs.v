(* C08 — lemmas.  Everything is over Q (exact rationals); no real-number axioms are used. *)
From V Require Import Common.NumFacts C08.Model.
From Coq Require Import Permutation Setoid Morphisms.
Open Scope Q_scope.

(* ---------- vectors up to pointwise Qeq ---------- *)
Definition veqv : vec -> vec -> Prop := Forall2 Qeq.
Infix "=v=" := veqv (at level 70).

Lemma veqv_refl a : a =v= a.
Proof. induction a; constructor; auto; reflexivity. Qed.
Lemma veqv_sym a b : a =v= b -> b =v= a.
Proof. induction 1; constructor; auto. symmetry; auto. Qed.
Lemma veqv_trans a b c : a =v= b -> b =v= c -> a =v= c.
Proof.
  intros H; revert c; induction H as [|x y a b Hxy Hab IH]; intros c' H2.
  - inversion H2; subst; constructor.
  - inversion H2 as [|y' z b' c'' Hyz Hbc]; subst. constructor.
    + rewrite Hxy. exact Hyz.
    + apply IH. exact Hbc.
Qed.
Global Instance veqv_equiv : Equivalence veqv.
Proof. split; [exact veqv_refl | exact veqv_sym | exact veqv_trans]. Qed.

Lemma veqv_length a b : a =v= b -> length a = length b.
Proof. induction 1; simpl; auto. Qed.

Global Instance qsum_proper : Proper (veqv ==> Qeq) qsum.
Proof. intros a b H; induction H; simpl; [reflexivity|]. rewrite H, IHForall2. reflexivity. Qed.

Lemma map2_veqv (f : Q -> Q -> Q) :
  Proper (Qeq ==> Qeq ==> Qeq) f -> Proper (veqv ==> veqv ==> veqv) (map2 f).
Proof.
  intros Pf a b H; induction H as [|x y a b Hxy Hab IH]; intros c d H2; simpl.
  - constructor.
  - inversion H2 as [|u v c' d' Huv Hcd]; subst; constructor.
    + apply Pf; auto.
    + apply IH; auto.
Qed.
Global Instance vmul_proper : Proper (veqv ==> veqv ==> veqv) vmul.
Proof. apply map2_veqv. intros ? ? H ? ? H'. rewrite H, H'. reflexivity. Qed.
Global Instance vdivq_proper : Proper (veqv ==> veqv ==> veqv) (map2 Qdiv).
Proof. apply map2_veqv. intros ? ? H ? ? H'. rewrite H, H'. reflexivity. Qed.

Lemma map_veqv (f g : Q -> Q) a b :
  (forall x y, x == y -> f x == g y) -> a =v= b -> map f a =v= map g b.
Proof. intros Hf H; induction H; simpl; constructor; auto. Qed.
Global Instance vdivs_proper : Proper (veqv ==> Qeq ==> veqv) vdivs.
Proof. intros a b H c d H'. apply map_veqv; auto. intros x y E. rewrite E, H'. reflexivity. Qed.

Lemma veqv_nth a b : a =v= b -> forall i, nthq a i == nthq b i.
Proof.
  induction 1; intros i; unfold nthq in *; destruct i; simpl; auto; reflexivity.
Qed.

(* ---------- sums ---------- *)
Lemma qsum_vdivs a c : qsum (vdivs a c) == qsum a / c.
Proof.
  induction a as [|x a IH]; simpl.
  - unfold Qdiv. ring.
  - unfold vdivs in IH. rewrite IH. unfold Qdiv. ring.
Qed.

Lemma qsum_map_mulr a c : qsum (map (fun x => x * c) a) == qsum a * c.
Proof. induction a as [|x a IH]; simpl; [ring|]. rewrite IH. ring. Qed.

Lemma qsum_vones n : qsum (vones n) == inject_Z (Z.of_nat n).
Proof.
  induction n as [|n IH]; [reflexivity|].
  unfold vones in *. cbn [repeat qsum fold_right]. fold (qsum (repeat 1 n)). rewrite IH.
  rewrite Nat2Z.inj_succ. unfold Z.succ. rewrite inject_Z_plus. ring.
Qed.

Lemma vones_length n : length (vones n) = n.
Proof. apply repeat_length. Qed.

Lemma qsum_nonneg a : Forall (fun x => 0 <= x) a -> 0 <= qsum a.
Proof. induction 1; simpl; lra. Qed.

Lemma vmul_vones_r a n : (length a <= n)%nat -> vmul a (vones n) =v= a.
Proof.
  revert n; induction a as [|x a IH]; intros n H; simpl.
  - destruct n; constructor.
  - destruct n; simpl in H; [lia|]. simpl. constructor; [ring|]. apply IH. lia.
Qed.
Lemma vmul_vones_l a n : (length a <= n)%nat -> vmul (vones n) a =v= a.
Proof.
  revert n; induction a as [|x a IH]; intros n H; simpl.
  - destruct n; constructor.
  - destruct n; simpl in H; [lia|]. simpl. constructor; [ring|]. apply IH. lia.
Qed.
Lemma vdivq_vones_r a n : (length a <= n)%nat -> map2 Qdiv a (vones n) =v= a.
Proof.
  revert n; induction a as [|x a IH]; intros n H; simpl.
  - destruct n; constructor.
  - destruct n; simpl in H; [lia|]. simpl. constructor; [field|]. apply IH. lia.
Qed.

Lemma vmul_vdivs_l a b c : vmul (vdivs a c) b =v= vdivs (vmul a b) c.
Proof.
  revert b; induction a as [|x a IH]; intros [|y b]; simpl; try constructor.
  - unfold Qdiv; ring.
  - apply IH.
Qed.

Lemma map2_length_min {A B C} (f : A -> B -> C) a b :
  length (map2 f a b) = Nat.min (length a) (length b).
Proof. revert b; induction a; intros [|y b]; simpl; auto. Qed.

(* ---------- comparisons ---------- *)
Lemma qltb_true a b : qltb a b = true <-> a < b.
Proof.
  unfold qltb. rewrite negb_true_iff. split; intros H.
  - destruct (Qlt_le_dec a b) as [L|L]; auto. apply Qle_bool_iff in L. congruence.
  - destruct (Qle_bool b a) eqn:E; auto. apply Qle_bool_iff in E. lra.
Qed.
Lemma qltb_false a b : qltb a b = false <-> b <= a.
Proof.
  unfold qltb. rewrite negb_false_iff. apply Qle_bool_iff.
Qed.
Lemma qleb_true a b : qleb a b = true <-> a <= b.
Proof. apply Qle_bool_iff. Qed.
Lemma qleb_false a b : qleb a b = false <-> b < a.
Proof.
  unfold qleb. split; intros H.
  - destruct (Qlt_le_dec b a) as [L|L]; auto. apply Qle_bool_iff in L. congruence.
  - destruct (Qle_bool a b) eqn:E; auto. apply Qle_bool_iff in E. lra.
Qed.

Lemma c1em16_pos : 0 < c1em16.
Proof. reflexivity. Qed.

(* ---------- normalize ---------- *)
Lemma normalize_length a : length (normalize a) = length a.
Proof.
  unfold normalize. destruct (qltb (qsum a) c1em16); unfold vdivs; rewrite map_length; auto.
  apply vones_length.
Qed.

Lemma normalize_sum1 a : a <> [] -> qsum (normalize a) == 1.
Proof.
  intros NE. unfold normalize. destruct (qltb (qsum a) c1em16) eqn:E.
  - rewrite qsum_vdivs, qsum_vones.
    assert (0 < inject_Z (Z.of_nat (length a))) as Hp.
    { destruct a; [congruence|]. simpl length. rewrite Nat2Z.inj_succ.
      change 0 with (inject_Z 0). rewrite <- Zlt_Qlt. lia. }
    field. lra.
  - apply qltb_false in E. rewrite qsum_vdivs. pose proof c1em16_pos. field. lra.
Qed.

Lemma Forall_nthq (P : Q -> Prop) a : P 0 -> Forall P a -> forall i, P (nthq a i).
Proof.
  intros P0 H; induction H; intros i; unfold nthq in *; destruct i; simpl; auto.
Qed.

Lemma normalize_nonneg a : Forall (fun x => 0 <= x) a -> Forall (fun x => 0 <= x) (normalize a).
Proof.
  intros H. unfold normalize. destruct (qltb (qsum a) c1em16) eqn:E.
  - unfold vdivs, vones. apply Forall_forall. intros x Hx. apply in_map_iff in Hx.
    destruct Hx as (y & <- & Hy). apply repeat_spec in Hy. subst y.
    assert (0 <= inject_Z (Z.of_nat (length a))) as Hp.
    { change 0 with (inject_Z 0). rewrite <- Zle_Qle. lia. }
    destruct (Qeq_dec (inject_Z (Z.of_nat (length a))) 0) as [Z|NZ].
    + rewrite Z. unfold Qdiv, Qinv; simpl. lra.
    + apply Qle_shift_div_l; lra.
  - apply qltb_false in E. pose proof c1em16_pos as Hc.
    unfold vdivs. apply Forall_forall. intros x Hx. apply in_map_iff in Hx.
    destruct Hx as (y & <- & Hy). rewrite Forall_forall in H. specialize (H _ Hy).
    apply Qle_shift_div_l; lra.
Qed.

(* when the raw fractions already sum to one, normalisation only rescales by 1 *)
Lemma normalize_of_sum1 a : qsum a == 1 -> normalize a =v= a.
Proof.
  intros H. unfold normalize.
  assert (qltb (qsum a) c1em16 = false) as E.
  { apply qltb_false. rewrite H. unfold c1em16. unfold Qle; simpl; lia. }
  rewrite E. unfold vdivs. rewrite <- (map_id a) at 2. apply map_veqv; [|reflexivity].
  intros x y Exy. rewrite H, Exy. field.
Qed.

(* ---------- weighted sums and the AM-HM / Cauchy-Schwarz inequality ---------- *)
Lemma qsum_cons x a : qsum (x :: a) = x + qsum a.
Proof. reflexivity. Qed.
Lemma qsum_nil : qsum [] = 0.
Proof. reflexivity. Qed.
Ltac vsimpl := unfold vmul in *; cbn [vdivs map2 map length] in *; change (map2 Qmult) with vmul in *;
  rewrite ?qsum_cons, ?qsum_nil in *.
Definition wsum (z p : vec) : Q := qsum (vmul z p).          (* sum z_i p_i *)
Definition wsumi (z p : vec) : Q := qsum (map2 Qdiv z p).    (* sum z_i / p_i *)
Definition nonneg (z : vec) : Prop := Forall (fun x => 0 <= x) z.
Definition allpos (p : vec) : Prop := Forall (fun x => 0 < x) p.

Lemma wsum_nonneg z p : nonneg z -> allpos p -> 0 <= wsum z p.
Proof.
  unfold wsum. intros Hz; revert p; induction Hz as [|x z Hx Hz IH]; intros p Hp; vsimpl; [lra|].
  destruct Hp as [|y p Hy Hp]; vsimpl; [lra|]. specialize (IH _ Hp). nra.
Qed.
Lemma wsumi_nonneg z p : nonneg z -> allpos p -> 0 <= wsumi z p.
Proof.
  unfold wsumi. intros Hz; revert p; induction Hz as [|x z Hx Hz IH]; intros p Hp; vsimpl; [lra|].
  destruct Hp as [|y p Hy Hp]; vsimpl; [lra|]. specialize (IH _ Hp).
  assert (0 <= x / y) by (apply Qle_shift_div_l; lra). lra.
Qed.

Lemma wsum_pos z p : nonneg z -> allpos p -> length z = length p -> 0 < qsum z -> 0 < wsum z p.
Proof.
  unfold wsum. intros Hz; revert p; induction Hz as [|x z Hx Hz IH]; intros p Hp L S; vsimpl; [lra|].
  destruct Hp as [|y p Hy Hp]; vsimpl; [discriminate|].
  pose proof (wsum_nonneg z p Hz Hp) as N. unfold wsum in N.
  destruct (Qlt_le_dec 0 x) as [Px|Nx].
  - nra.
  - assert (0 < qsum z) as S' by lra. specialize (IH _ Hp ltac:(lia) S'). nra.
Qed.

Lemma amhm_term x y t : 0 <= x -> 0 < y -> 0 < t -> 2 * x <= x * y / t + t * (x / y).
Proof.
  intros Hx Hy Ht.
  assert (x * y / t + t * (x / y) - 2 * x == x * ((y - t) * (y - t)) / (t * y)) as E by (field; lra).
  assert (0 <= x * ((y - t) * (y - t)) / (t * y)) as N.
  { apply Qle_shift_div_l; [nra|]. rewrite Qmult_0_l.
    apply Qmult_le_0_compat; [lra|]. destruct (Qlt_le_dec y t); nra. }
  lra.
Qed.

Lemma amhm_t z p t : nonneg z -> allpos p -> length z = length p -> 0 < t ->
  2 * qsum z <= wsum z p / t + t * wsumi z p.
Proof.
  unfold wsum, wsumi. intros Hz; revert p; induction Hz as [|x z Hx Hz IH]; intros p Hp L Ht; vsimpl.
  - unfold Qdiv. lra.
  - destruct Hp as [|y p Hy Hp]; vsimpl; [discriminate|].
    specialize (IH _ Hp ltac:(lia) Ht). pose proof (amhm_term x y t Hx Hy Ht) as A.
    assert ((x * y + qsum (vmul z p)) / t == x * y / t + qsum (vmul z p) / t) as E by (field; lra).
    rewrite E. lra.
Qed.

(* (sum z)^2 <= (sum z p) (sum z / p) *)
Lemma cauchy_weighted z p : nonneg z -> allpos p -> length z = length p ->
  qsum z * qsum z <= wsum z p * wsumi z p.
Proof.
  intros Hz Hp L.
  pose proof (wsum_nonneg z p Hz Hp) as A0. pose proof (wsumi_nonneg z p Hz Hp) as B0.
  pose proof (qsum_nonneg z Hz) as S0.
  destruct (Qlt_le_dec 0 (qsum z)) as [S|S].
  - pose proof (wsum_pos z p Hz Hp L S) as A.
    assert (0 < wsum z p / qsum z) as Ht by (apply Qlt_shift_div_l; lra).
    pose proof (amhm_t z p _ Hz Hp L Ht) as H.
    assert (wsum z p / (wsum z p / qsum z) == qsum z) as E1 by (field; lra).
    rewrite E1 in H.
    assert (wsum z p / qsum z * wsumi z p == wsum z p * wsumi z p / qsum z) as E2 by (field; lra).
    rewrite E2 in H.
    assert (qsum z <= wsum z p * wsumi z p / qsum z) as H' by lra.
    apply (Qmult_le_compat_r _ _ (qsum z)) in H'; [|lra].
    assert (wsum z p * wsumi z p / qsum z * qsum z == wsum z p * wsumi z p) as E3 by (field; lra).
    rewrite E3 in H'. exact H'.
  - assert (qsum z == 0) as Z by lra. rewrite Z. nra.
Qed.

(* dew pressure <= bubble pressure for ideal K-values: (sum z/p)^-1 <= sum z p *)
Lemma dew_le_bubble_P_math z p : nonneg z -> allpos p -> length z = length p -> qsum z == 1 ->
  0 < wsumi z p /\ 1 / wsumi z p <= wsum z p.
Proof.
  intros Hz Hp L S1. pose proof (cauchy_weighted z p Hz Hp L) as C. rewrite S1 in C.
  pose proof (wsum_nonneg z p Hz Hp) as A0. pose proof (wsumi_nonneg z p Hz Hp) as B0.
  assert (0 < wsumi z p) as B by nra.
  split; [exact B|]. apply Qle_shift_div_r; lra.
Qed.

(* strict monotonicity of weighted sums *)
Lemma wsum_lt z a b : nonneg z -> Forall2 Qlt a b -> length z = length a -> 0 < qsum z ->
  wsum z a < wsum z b.
Proof.
  unfold wsum. intros Hz; revert a b; induction Hz as [|x z Hx Hz IH]; intros a b Hab L S; vsimpl; [lra|].
  destruct Hab as [|u v a b Huv Hab]; vsimpl; [discriminate|].
  assert (wsum z a <= wsum z b) as Hle.
  { clear IH S L. unfold wsum. revert a b Hab. induction Hz as [|x' z Hx' Hz IH']; intros a b Hab; vsimpl; [lra|].
    destruct Hab as [|u' v' a b Huv' Hab]; vsimpl; [lra|]. specialize (IH' _ _ Hab). nra. }
  unfold wsum in Hle.
  destruct (Qlt_le_dec 0 x) as [Px|Nx].
  - nra.
  - assert (0 < qsum z) as S' by lra. specialize (IH _ _ Hab ltac:(lia) S'). nra.
Qed.

(* vapour-pressure functions *)
Definition pat (ps : list (Q -> Q)) (T : Q) : vec := map (fun f => f T) ps.
Definition increasing (f : Q -> Q) : Prop := forall a b, a < b -> f a < f b.
Definition positive (f : Q -> Q) : Prop := forall a, 0 < f a.

Lemma pat_lt ps a b : Forall increasing ps -> a < b -> Forall2 Qlt (pat ps a) (pat ps b).
Proof. intros H L; induction H; vsimpl; constructor; auto. Qed.
Lemma pat_pos ps a : Forall positive ps -> allpos (pat ps a).
Proof. intros H; induction H; vsimpl; constructor; auto. Qed.
Lemma pat_length ps a : length (pat ps a) = length ps.
Proof. apply map_length. Qed.

(* bubble temperature <= dew temperature at the same pressure (ideal K-values, increasing Psat) *)
Lemma bubble_le_dew_T_math ps z P Tb Td :
  Forall increasing ps -> Forall positive ps -> nonneg z -> length z = length ps -> qsum z == 1 ->
  0 < P ->
  wsum z (pat ps Tb) == P ->            (* 1 - sum z_i Psat_i(Tb) / P = 0 *)
  P * wsumi z (pat ps Td) == 1 ->       (* 1 - sum z_i P / Psat_i(Td) = 0 *)
  Tb <= Td.
Proof.
  intros Hinc Hpos Hz L S1 HP Hb Hd.
  destruct (Qlt_le_dec Td Tb) as [Lt|]; [exfalso|assumption].
  assert (length z = length (pat ps Td)) as L' by (rewrite pat_length; exact L).
  pose proof (cauchy_weighted z (pat ps Td) Hz (pat_pos ps Td Hpos) L') as C. rewrite S1 in C.
  assert (0 < qsum z) as S by lra.
  pose proof (wsum_lt z _ _ Hz (pat_lt ps Td Tb Hinc Lt) L' S) as W.
  assert (wsumi z (pat ps Td) == 1 / P) as E by (field_simplify_eq; lra).
  rewrite E in C.
  assert (wsum z (pat ps Td) * (1 / P) == wsum z (pat ps Td) / P) as E2 by (field; lra).
  rewrite E2 in C.
  assert (1 * 1 * P <= wsum z (pat ps Td) / P * P) as C' by (apply Qmult_le_compat_r; lra).
  assert (wsum z (pat ps Td) / P * P == wsum z (pat ps Td)) as E3 by (field; lra).
  rewrite E3 in C'. lra.
Qed.

(* dew pressure <= bubble pressure at the same temperature, as roots of the two ideal residuals *)
Lemma dew_le_bubble_P_roots p z Pb Pd :
  allpos p -> nonneg z -> length z = length p -> qsum z == 1 ->
  0 < Pb -> 0 < Pd ->
  1 - wsum z p / Pb == 0 ->
  1 - Pd * wsumi z p == 0 ->
  Pd <= Pb.
Proof.
  intros Hp Hz L S1 HPb HPd Hb Hd.
  destruct (dew_le_bubble_P_math z p Hz Hp L S1) as (B & H).
  assert (wsum z p == Pb) as Eb.
  { assert (wsum z p / Pb == 1) as E by lra.
    assert (wsum z p / Pb * Pb == wsum z p) as E' by (field; lra). rewrite <- E', E. ring. }
  assert (Pd == 1 / wsumi z p) as Ed by (field_simplify_eq; lra).
  rewrite Ed, <- Eb. exact H.
Qed.

(* ---------- the residual kernels in an ideal package ---------- *)
Definition ideal_pkg (k : pkg) : Prop :=
  phi_ideal k = true /\
  (forall x T, gam k x T = vones (length (chems k))) /\
  (forall y T P, phi k y T P = vones (length (chems k))) /\
  (forall T P Ps, pcf k T P Ps = vones (length (chems k))).

Lemma psats_at_length k T : length (psats_at k T) = length (chems k).
Proof. apply map_length. Qed.
Lemma psats_at_pat k T : psats_at k T = pat (map c_psat (chems k)) T.
Proof. unfold psats_at, pat. rewrite map_map. reflexivity. Qed.

Lemma vmul_length a b : length a = length b -> length (vmul a b) = length a.
Proof. intros H. unfold vmul. rewrite map2_length_min, H. apply Nat.min_id. Qed.

Lemma wsum_vdivs_l z p c : wsum (vdivs z c) p == wsum z p / c.
Proof. unfold wsum. rewrite vmul_vdivs_l. apply qsum_vdivs. Qed.

Lemma bubble_T_error_ideal_form k S P z buf T v y :
  ideal_pkg k -> length z = length (chems k) ->
  bubble_T_error k S P (vdivs z P) z buf T = Ok (v, y) ->
  0 < T /\ y =v= vdivs (vmul z (psats_at k T)) P /\ v == 1 - wsum z (psats_at k T) / P.
Proof.
  intros (Hphi & Hg & _ & Hpc) L H. unfold bubble_T_error in H.
  destruct (qleb T 0) eqn:ET; [discriminate|]. apply qleb_false in ET.
  unfold solve_y in H. rewrite Hphi, Hg, Hpc in H. inversion H; subst; clear H.
  assert (length (vmul (vdivs z P) (psats_at k T)) = length (chems k)) as L1.
  { rewrite vmul_length; unfold vdivs; rewrite map_length; [exact L|]. rewrite psats_at_length. exact L. }
  assert (vmul (vmul (vmul (vdivs z P) (psats_at k T)) (vones (length (chems k)))) (vones (length (chems k)))
          =v= vdivs (vmul z (psats_at k T)) P) as E.
  { rewrite vmul_vones_r.
    - rewrite vmul_vones_r; [apply vmul_vdivs_l | lia].
    - rewrite vmul_length; [lia|]. rewrite L1, vones_length. reflexivity. }
  split; [exact ET|]. split; [exact E|]. rewrite E, qsum_vdivs. reflexivity.
Qed.

(* gamma = phi = pcf = 1: the bubble residual vanishes exactly when P = sum z_i Psat_i(T) *)
Lemma ideal_closed_form_bubble k S P z buf T v y :
  ideal_pkg k -> length z = length (chems k) -> ~ P == 0 ->
  bubble_T_error k S P (vdivs z P) z buf T = Ok (v, y) ->
  (v == 0 <-> P == wsum z (psats_at k T)).
Proof.
  intros I L NZ H. destruct (bubble_T_error_ideal_form _ _ _ _ _ _ _ _ I L H) as (_ & _ & E).
  rewrite E. split; intros A.
  - assert (wsum z (psats_at k T) / P == 1) as B by lra.
    assert (wsum z (psats_at k T) / P * P == wsum z (psats_at k T)) as C by (field; exact NZ).
    rewrite <- C, B. ring.
  - rewrite <- A. field. exact NZ.
Qed.

Definition weg_fix (S : solvers) : Prop := forall f x, f (weg S f x) = weg S f x.

Lemma existsb_qzerob_vones n : existsb qzerob (vones n) = false.
Proof. induction n; simpl; auto. Qed.

Lemma solve_x_ideal k S xg x_gamma T :
  ideal_pkg k -> weg_fix S -> (length x_gamma <= length (chems k))%nat ->
  solve_x k S xg x_gamma T =v= x_gamma.
Proof.
  intros (_ & Hg & _ & _) W L. unfold solve_x.
  set (g := weg S (gamma_iter k x_gamma T) _).
  assert (g = vones (length (chems k))) as Eg.
  { unfold g. rewrite <- W. unfold gamma_iter at 1. apply Hg. }
  rewrite Eg, existsb_qzerob_vones. apply vdivq_vones_r. exact L.
Qed.

Lemma clamp_lo_id m v : Forall (fun p => m <= p) v -> clamp_lo m v = v.
Proof.
  intros H; induction H as [|x v Hx Hv IH]; simpl; auto.
  assert (qltb x m = false) as E by (apply qltb_false; exact Hx). rewrite E, IH. reflexivity.
Qed.

Lemma wsumi_mulr z p c : qsum (map2 Qdiv (map (fun a => a * c) z) p) == c * wsumi z p.
Proof.
  unfold wsumi. revert p; induction z as [|x z IH]; intros [|y p]; simpl; try ring.
  rewrite IH. unfold Qdiv. ring.
Qed.

Lemma dew_T_error_ideal_form k S P z buf T v x :
  ideal_pkg k -> weg_fix S -> length z = length (chems k) ->
  Forall (fun p => c1em16 <= p) (psats_at k T) ->
  dew_T_error k S P z (map (fun a => a * P) z) buf T = Ok (v, x) ->
  0 < T /\ x =v= map2 Qdiv (map (fun a => a * P) z) (psats_at k T) /\
  v == 1 - P * wsumi z (psats_at k T).
Proof.
  intros I W L Hps H. pose proof I as (_ & _ & Hph & Hpc). unfold dew_T_error in H.
  destruct (qleb T 0) eqn:ET; [discriminate|]. apply qleb_false in ET.
  rewrite (clamp_lo_id _ _ Hps), Hph, Hpc in H. inversion H; subst; clear H.
  set (n := length (chems k)).
  set (zP := map (fun a => a * P) z).
  assert (length zP = n) as LzP by (unfold zP; rewrite map_length; exact L).
  assert (map2 Qdiv (map2 Qdiv (vmul (vones n) zP) (psats_at k T)) (vones n)
          =v= map2 Qdiv zP (psats_at k T)) as E.
  { rewrite vdivq_vones_r.
    - rewrite vmul_vones_l; [reflexivity | lia].
    - rewrite map2_length_min, psats_at_length. fold n. lia. }
  assert (solve_x k S buf (map2 Qdiv (map2 Qdiv (vmul (vones n) zP) (psats_at k T)) (vones n)) T
          =v= map2 Qdiv zP (psats_at k T)) as E2.
  { rewrite solve_x_ideal; auto. rewrite map2_length_min, vones_length. fold n. lia. }
  split; [exact ET|]. split; [exact E2|]. rewrite E2. unfold zP. rewrite wsumi_mulr. reflexivity.
Qed.

Lemma ideal_closed_form_dew k S P z buf T v x :
  ideal_pkg k -> weg_fix S -> length z = length (chems k) ->
  Forall (fun p => c1em16 <= p) (psats_at k T) -> ~ P == 0 ->
  dew_T_error k S P z (map (fun a => a * P) z) buf T = Ok (v, x) ->
  (v == 0 <-> 1 / P == wsumi z (psats_at k T)).
Proof.
  intros I W L Hps NZ H.
  destruct (dew_T_error_ideal_form _ _ _ _ _ _ _ _ I W L Hps H) as (_ & _ & E).
  rewrite E. split; intros A.
  - assert (P * wsumi z (psats_at k T) == 1) as B by lra.
    assert (wsumi z (psats_at k T) == P * wsumi z (psats_at k T) / P) as C by (field; exact NZ).
    rewrite C, B. reflexivity.
  - rewrite <- A. field. exact NZ.
Qed.

(* the pressure kernels in an ideal package *)
Lemma bubble_P_error_ideal_form k S T z buf P v y :
  ideal_pkg k -> length z = length (chems k) ->
  bubble_P_error k S T (Py_prep k z T) (psats_at k T) buf P = Ok (v, y) ->
  0 < P /\ v == 1 - wsum (znorm z) (psats_at k T) / P.
Proof.
  intros (Hphi & Hg & _ & Hpc) L H. unfold bubble_P_error in H.
  destruct (qleb P 0) eqn:EP; [discriminate|]. apply qleb_false in EP.
  unfold solve_y, Py_prep in H. rewrite Hphi, Hg, Hpc in H. inversion H; subst; clear H.
  split; [exact EP|].
  assert (length (znorm z) = length (chems k)) as Ln by (unfold znorm, vdivs; rewrite map_length; exact L).
  assert (length (vmul (znorm z) (psats_at k T)) = length (chems k)) as L1.
  { rewrite vmul_length; [exact Ln|]. rewrite psats_at_length. exact Ln. }
  rewrite qsum_vdivs. rewrite vmul_vones_r.
  - rewrite vmul_vones_r; [reflexivity | lia].
  - rewrite vmul_length; [lia|]. rewrite L1, vones_length. reflexivity.
Qed.

Lemma dew_P_error_ideal_form k S T z buf P v x :
  ideal_pkg k -> weg_fix S -> length z = length (chems k) ->
  dew_P_error k S T (fst (Px_prep k z T)) (snd (Px_prep k z T)) (psats_at k T) buf P = Ok (v, x) ->
  0 < P /\ v == 1 - P * wsumi (znorm z) (psats_at k T).
Proof.
  intros I W L H. pose proof I as (_ & _ & Hph & Hpc). unfold dew_P_error, Px_prep in H. cbn [fst snd] in H.
  destruct (qleb P 0) eqn:EP; [discriminate|]. apply qleb_false in EP.
  rewrite Hph, Hpc in H. inversion H; subst; clear H.
  split; [exact EP|].
  set (n := length (chems k)).
  assert (length (znorm z) = n) as Ln by (unfold znorm, vdivs; rewrite map_length; exact L).
  set (w := map (fun a => a * P) (map2 Qdiv (znorm z) (psats_at k T))).
  assert (length w = n) as Lw.
  { unfold w. rewrite map_length, map2_length_min, psats_at_length, Ln. apply Nat.min_id. }
  rewrite solve_x_ideal; auto.
  - rewrite vdivq_vones_r; [|unfold vmul; rewrite map2_length_min, vones_length; lia].
    rewrite vmul_vones_r; [|lia]. unfold w. rewrite qsum_map_mulr. unfold wsumi. ring.
  - rewrite map2_length_min, vones_length. fold n. lia.
Qed.

(* ---------- root-finder contracts and soundness of the four wrappers ---------- *)
(* x is a root of f and b is the buffer written by an evaluation of f at x *)
Definition root_of (f : resid) (x : Q) (b : vec) : Prop :=
  exists b0 v, f b0 x = Ok (v, b) /\ v == 0.
Definition secant_ok (S : solvers) : Prop :=
  forall f b x0 x1 x b', secant S f b x0 x1 = SOk x b' -> root_of f x b'.
Definition iq_ok (S : solvers) : Prop :=
  forall f b x0 x1 y0 y1 g x b', iq S f b x0 x1 y0 y1 g = SOk x b' -> root_of f x b'.

Lemma secant_or_iq_root S f buf x0 x1 lo hi x b :
  secant_ok S -> iq_ok S -> secant_or_iq S f buf x0 x1 lo hi = Ok (x, b) -> root_of f x b.
Proof.
  intros HS HI H. unfold secant_or_iq in H.
  destruct (secant S f buf x0 x1) as [r rb|e eb] eqn:E.
  - inversion H; subst. eapply HS; eauto.
  - destruct (is_runtime e); simpl in H; [|discriminate].
    destruct (f eb lo) as [a|]; simpl in H; [|discriminate].
    destruct (f (snd a) hi) as [c|]; simpl in H; [|discriminate].
    destruct (iq S f (snd c) lo hi (fst a) (fst c) (Some x0)) as [r rb|e' eb'] eqn:E'; simpl in H; [|discriminate].
    inversion H; subst. eapply HI; eauto.
Qed.

Definition N2 (z : vec) : Prop := (2 <= count_true (positives z))%nat.

Lemma solve_Ty_sound k S z P T y : secant_ok S -> iq_ok S -> N2 z ->
  solve_Ty k S z P = Ok (T, y) ->
  ~ qsum z == 0 /\
  exists raw, root_of (bubble_T_error k S P (vdivs (znorm z) P) (znorm z)) T raw /\ y = normalize raw.
Proof.
  intros HS HI HN H. unfold N2 in HN. unfold solve_Ty in H.
  destruct (count_true (positives z)) as [|[|n]]; try lia.
  destruct (qzerob (qsum z)) eqn:EZ; [discriminate|]. apply qzerob_false in EZ.
  split; [exact EZ|]. unfold Ty_prep in H. cbn [fst snd] in H.
  destruct (Ty_ideal k S (vdivs (znorm z) P)) as [g|]; simpl in H; [|discriminate].
  destruct (secant_or_iq S _ (snd g) (fst g) (fst g + c1em3) (pTmin k) (pTmax k)) as [r|] eqn:E; simpl in H; [|discriminate].
  inversion H; subst. destruct r as [r rb]. exists rb. split; [|reflexivity].
  eapply secant_or_iq_root; eauto.
Qed.

Lemma solve_Py_sound k S z T P y : secant_ok S -> iq_ok S -> N2 z ->
  solve_Py k S z T = Ok (P, y) ->
  ~ qsum z == 0 /\
  exists raw, root_of (bubble_P_error k S (clampT k T) (Py_prep k z (clampT k T)) (psats_at k (clampT k T))) P raw
              /\ y = normalize raw.
Proof.
  intros HS HI HN H. unfold N2 in HN. unfold solve_Py in H.
  destruct (count_true (positives z)) as [|[|n]]; try lia.
  destruct (qzerob (qsum z)) eqn:EZ; [discriminate|]. apply qzerob_false in EZ.
  split; [exact EZ|].
  destruct (secant_or_iq S _ _ _ _ (pPmin k) (pPmax k)) as [r|] eqn:E; simpl in H; [|discriminate].
  inversion H; subst. destruct r as [r rb]. exists rb. split; [|reflexivity].
  eapply secant_or_iq_root; eauto.
Qed.

Lemma solve_Tx_sound k S z P T x : secant_ok S -> iq_ok S -> N2 z ->
  solve_Tx k S z P = Ok (T, x) ->
  ~ qsum z == 0 /\
  exists raw, root_of (dew_T_error k S P (znorm z) (map (fun a => a * P) (znorm z))) T raw /\ x = normalize raw.
Proof.
  intros HS HI HN H. unfold N2 in HN. unfold solve_Tx in H.
  destruct (count_true (positives z)) as [|[|n]]; try lia.
  destruct (qzerob (qsum z)) eqn:EZ; [discriminate|]. apply qzerob_false in EZ.
  split; [exact EZ|]. unfold Tx_prep in H. cbn [fst snd] in H.
  destruct (Tx_ideal k S _) as [g|]; simpl in H; [|discriminate].
  destruct (secant_or_iq S _ (snd g) (fst g) (fst g + c1em3) (pTmin k) (pTmax k)) as [r|] eqn:E; simpl in H; [|discriminate].
  inversion H; subst. destruct r as [r rb]. exists rb. split; [|reflexivity].
  eapply secant_or_iq_root; eauto.
Qed.

Lemma solve_Px_sound k S z T P x : secant_ok S -> iq_ok S -> N2 z ->
  solve_Px k S z T = Ok (P, x) ->
  ~ qsum z == 0 /\
  exists raw, root_of (dew_P_error k S T (fst (Px_prep k z T)) (snd (Px_prep k z T)) (psats_at k T)) P raw
              /\ x = normalize raw.
Proof.
  intros HS HI HN H. unfold N2 in HN. unfold solve_Px in H.
  destruct (count_true (positives z)) as [|[|n]]; try lia.
  destruct (qzerob (qsum z)) eqn:EZ; [discriminate|]. apply qzerob_false in EZ.
  split; [exact EZ|].
  destruct (Px_ideal _) as [g|]; simpl in H; [|discriminate].
  destruct (secant_or_iq S _ (snd g) (fst g) (fst g - 10) (pPmin k) (pPmax k)) as [r|] eqn:E; simpl in H; [|discriminate].
  inversion H; subst. destruct r as [r rb]. exists rb. split; [|reflexivity].
  eapply secant_or_iq_root; eauto.
Qed.

(* every residual kernel returns 1 - sum(buffer): at a root the raw fractions sum to one *)
Lemma bubble_T_root_sum1 k S P a b T raw : root_of (bubble_T_error k S P a b) T raw -> 0 < T /\ qsum raw == 1.
Proof.
  intros (b0 & v & H & V). unfold bubble_T_error in H.
  destruct (qleb T 0) eqn:E; [discriminate|]. apply qleb_false in E. inversion H; subst. split; [exact E|lra].
Qed.
Lemma bubble_P_root_sum1 k S T a b P raw : root_of (bubble_P_error k S T a b) P raw -> 0 < P /\ qsum raw == 1.
Proof.
  intros (b0 & v & H & V). unfold bubble_P_error in H.
  destruct (qleb P 0) eqn:E; [discriminate|]. apply qleb_false in E. inversion H; subst. split; [exact E|lra].
Qed.
Lemma dew_T_root_sum1 k S P a b T raw : root_of (dew_T_error k S P a b) T raw -> 0 < T /\ qsum raw == 1.
Proof.
  intros (b0 & v & H & V). unfold dew_T_error in H.
  destruct (qleb T 0) eqn:E; [discriminate|]. apply qleb_false in E. inversion H; subst. split; [exact E|lra].
Qed.
Lemma dew_P_root_sum1 k S T a b c P raw : root_of (dew_P_error k S T a b c) P raw -> 0 < P /\ qsum raw == 1.
Proof.
  intros (b0 & v & H & V). unfold dew_P_error in H.
  destruct (qleb P 0) eqn:E; [discriminate|]. apply qleb_false in E. inversion H; subst. split; [exact E|lra].
Qed.

(* the vapour fractions implied by modified Raoult's law at the returned point *)
Definition raoult_y (k : pkg) (S : solvers) (zn : vec) (T P : Q) : vec :=
  let Ps := psats_at k T in
  solve_y k S (vmul (vmul (vmul (vdivs zn P) Ps) (gam k zn T)) (pcf k T P Ps)) T P.

Lemma bubble_T_root_raoult k S P zn T raw :
  root_of (bubble_T_error k S P (vdivs zn P) zn) T raw -> raw = raoult_y k S zn T P.
Proof.
  intros (b0 & v & H & V). unfold bubble_T_error in H.
  destruct (qleb T 0); [discriminate|]. inversion H; subst. reflexivity.
Qed.

(* composition facts *)
Lemma positives_count_sum z : nonneg z -> (1 <= count_true (positives z))%nat -> 0 < qsum z.
Proof.
  intros H; induction H as [|x z Hx Hz IH]; unfold count_true, positives in *; simpl; [lia|].
  intros C. pose proof (qsum_nonneg z Hz) as N.
  destruct (qltb 0 x) eqn:E.
  - apply qltb_true in E. lra.
  - simpl in C. specialize (IH C). lra.
Qed.

Lemma znorm_length z : length (znorm z) = length z.
Proof. unfold znorm, vdivs. apply map_length. Qed.
Lemma znorm_sum1 z : ~ qsum z == 0 -> qsum (znorm z) == 1.
Proof. intros H. unfold znorm. rewrite qsum_vdivs. field. exact H. Qed.
Lemma znorm_nonneg z : nonneg z -> 0 < qsum z -> nonneg (znorm z).
Proof.
  intros H S. unfold znorm, vdivs, nonneg. apply Forall_forall. intros x Hx. apply in_map_iff in Hx.
  destruct Hx as (y & <- & Hy). unfold nonneg in H. rewrite Forall_forall in H. specialize (H _ Hy).
  apply Qle_shift_div_l; lra.
Qed.

(* ---------- T <-> P inverse ---------- *)
(* phi ideal, pcf = 1, any gamma: solving for P at the bubble temperature found for P returns P *)
Definition ideal_vapour (k : pkg) : Prop :=
  phi_ideal k = true /\ (forall T P Ps, pcf k T P Ps = vones (length (chems k))).
Definition gam_shape (k : pkg) : Prop := forall x T, length (gam k x T) = length x.

Lemma TP_inverse_lemma k S z P T y P' y' :
  secant_ok S -> iq_ok S -> N2 z -> ideal_vapour k -> gam_shape k -> length z = length (chems k) ->
  ~ P == 0 -> pTmin k <= T <= pTmax k ->
  solve_Ty k S z P = Ok (T, y) -> solve_Py k S z T = Ok (P', y') -> P' == P.
Proof.
  intros HS HI HN (Hphi & Hpc) Hg L NZ (Tlo & Thi) H1 H2.
  destruct (solve_Ty_sound _ _ _ _ _ _ HS HI HN H1) as (_ & r1 & (b1 & v1 & R1 & V1) & _).
  destruct (solve_Py_sound _ _ _ _ _ _ HS HI HN H2) as (_ & r2 & (b2 & v2 & R2 & V2) & _).
  assert (clampT k T = T) as EC.
  { unfold clampT. assert (qltb (pTmax k) T = false) as -> by (apply qltb_false; exact Thi).
    assert (qltb T (pTmin k) = false) as -> by (apply qltb_false; exact Tlo). reflexivity. }
  rewrite EC in R2.
  unfold bubble_T_error in R1. destruct (qleb T 0); [discriminate|].
  unfold bubble_P_error in R2. destruct (qleb P' 0) eqn:EP; [discriminate|]. apply qleb_false in EP.
  unfold solve_y, Py_prep in *. rewrite Hphi, Hpc in *. inversion R1; subst; clear R1. inversion R2; subst; clear R2.
  set (zn := znorm z) in *. set (Ps := psats_at k T) in *. set (n := length (chems k)) in *.
  assert (length zn = n) as Lzn by (unfold zn; rewrite znorm_length; exact L).
  assert (length Ps = n) as LPs by apply psats_at_length.
  assert (length (vmul (vmul zn Ps) (gam k zn T)) = n) as L3.
  { rewrite vmul_length; rewrite vmul_length; try lia. rewrite Hg. lia. }
  assert (length (vmul (vmul (vdivs zn P) Ps) (gam k zn T)) = n) as L4.
  { assert (length (vdivs zn P) = n) as Ld by (unfold vdivs; rewrite map_length; exact Lzn).
    rewrite vmul_length; rewrite vmul_length; try lia. rewrite Hg. lia. }
  rewrite vmul_vones_r in V1 by lia. rewrite qsum_vdivs in V2. rewrite vmul_vones_r in V2 by lia.
  rewrite vmul_vdivs_l in V1. rewrite vmul_vdivs_l in V1. rewrite qsum_vdivs in V1.
  set (K := qsum (vmul (vmul zn Ps) (gam k zn T))) in *.
  assert (K == P) as E1.
  { assert (K / P == 1) as B by lra. assert (K / P * P == K) as C by (field; exact NZ). rewrite <- C, B. ring. }
  assert (K == P') as E2.
  { assert (K / P' == 1) as B by lra. assert (K / P' * P' == K) as C by (field; lra). rewrite <- C, B. ring. }
  rewrite <- E2. exact E1.
Qed.

(* the converse direction needs uniqueness of the root in T: K(T) = sum zn_i Psat_i(T) gamma_i(zn, T) injective *)
Definition Kfun (k : pkg) (z : vec) (T : Q) : Q :=
  qsum (vmul (vmul (znorm z) (psats_at k T)) (gam k (znorm z) T)).

Lemma PT_inverse_lemma k S z T P y T' y' :
  secant_ok S -> iq_ok S -> N2 z -> ideal_vapour k -> gam_shape k -> length z = length (chems k) ->
  pTmin k <= T <= pTmax k ->
  (forall a b, Kfun k z a == Kfun k z b -> a == b) ->
  solve_Py k S z T = Ok (P, y) -> solve_Ty k S z P = Ok (T', y') -> T' == T.
Proof.
  intros HS HI HN (Hphi & Hpc) Hg L (Tlo & Thi) Inj H2 H1.
  destruct (solve_Ty_sound _ _ _ _ _ _ HS HI HN H1) as (_ & r1 & (b1 & v1 & R1 & V1) & _).
  destruct (solve_Py_sound _ _ _ _ _ _ HS HI HN H2) as (_ & r2 & (b2 & v2 & R2 & V2) & _).
  assert (clampT k T = T) as EC.
  { unfold clampT. assert (qltb (pTmax k) T = false) as -> by (apply qltb_false; exact Thi).
    assert (qltb T (pTmin k) = false) as -> by (apply qltb_false; exact Tlo). reflexivity. }
  rewrite EC in R2.
  unfold bubble_T_error in R1. destruct (qleb T' 0); [discriminate|].
  unfold bubble_P_error in R2. destruct (qleb P 0) eqn:EP; [discriminate|]. apply qleb_false in EP.
  unfold solve_y, Py_prep in *. rewrite Hphi, Hpc in *. inversion R1; subst; clear R1. inversion R2; subst; clear R2.
  apply Inj. unfold Kfun.
  set (zn := znorm z) in *. set (n := length (chems k)) in *.
  assert (length zn = n) as Lzn by (unfold zn; rewrite znorm_length; exact L).
  assert (forall t, length (vmul (vmul zn (psats_at k t)) (gam k zn t)) = n) as L3.
  { intros t. rewrite vmul_length; rewrite vmul_length; rewrite ?psats_at_length; try lia. rewrite Hg. lia. }
  assert (length (vmul (vmul (vdivs zn P) (psats_at k T')) (gam k zn T')) = n) as L4.
  { assert (length (vdivs zn P) = n) as Ld by (unfold vdivs; rewrite map_length; exact Lzn).
    rewrite vmul_length; rewrite vmul_length; rewrite ?psats_at_length; try lia. rewrite Hg. lia. }
  rewrite vmul_vones_r in V1 by lia. rewrite qsum_vdivs in V2. rewrite vmul_vones_r in V2 by (rewrite L3; lia).
  rewrite vmul_vdivs_l in V1. rewrite vmul_vdivs_l in V1. rewrite qsum_vdivs in V1.
  set (K1 := qsum (vmul (vmul zn (psats_at k T')) (gam k zn T'))) in *.
  set (K2 := qsum (vmul (vmul zn (psats_at k T)) (gam k zn T))) in *.
  assert (K1 == P) as E1.
  { assert (K1 / P == 1) as B by lra. assert (K1 / P * P == K1) as C by (field; lra). rewrite <- C, B. ring. }
  assert (K2 == P) as E2.
  { assert (K2 / P == 1) as B by lra. assert (K2 / P * P == K2) as C by (field; lra). rewrite <- C, B. ring. }
  rewrite E1, E2. reflexivity.
Qed.
