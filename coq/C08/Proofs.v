(* C08 — lemmas.  Everything is over Q (exact rationals); no real-number axioms are used. *)
From V Require Import Common.NumFacts C08.Model.
From Coq Require Import Permutation Setoid Morphisms.
Open Scope Q_scope.

(* ---------- vectors up to pointwise Qeq ---------- *)
Definition veqv : vec -> vec -> Prop := Forall2 Qeq.
Infix "=v=" := veqv (at level 70).

Lemma veqv_refl a : a =v= a.
Proof. induction a; constructor; auto; reflexivity. Qed.
Lemma veqv_sym a b : a =v= b -> b =v= a.
Proof. induction 1; constructor; auto. symmetry; auto. Qed.
Lemma veqv_trans a b c : a =v= b -> b =v= c -> a =v= c.
Proof.
  intros H; revert c; induction H as [|x y a b Hxy Hab IH]; intros c' H2.
  - inversion H2; subst; constructor.
  - inversion H2 as [|y' z b' c'' Hyz Hbc]; subst. constructor.
    + rewrite Hxy. exact Hyz.
    + apply IH. exact Hbc.
Qed.
Global Instance veqv_equiv : Equivalence veqv.
Proof. split; [exact veqv_refl | exact veqv_sym | exact veqv_trans]. Qed.

Lemma veqv_length a b : a =v= b -> length a = length b.
Proof. induction 1; simpl; auto. Qed.

Global Instance qsum_proper : Proper (veqv ==> Qeq) qsum.
Proof. intros a b H; induction H; simpl; [reflexivity|]. rewrite H, IHForall2. reflexivity. Qed.

Lemma map2_veqv (f : Q -> Q -> Q) :
  Proper (Qeq ==> Qeq ==> Qeq) f -> Proper (veqv ==> veqv ==> veqv) (map2 f).
Proof.
  intros Pf a b H; induction H as [|x y a b Hxy Hab IH]; intros c d H2; simpl.
  - constructor.
  - inversion H2 as [|u v c' d' Huv Hcd]; subst; constructor.
    + apply Pf; auto.
    + apply IH; auto.
Qed.
Global Instance vmul_proper : Proper (veqv ==> veqv ==> veqv) vmul.
Proof. apply map2_veqv. intros ? ? H ? ? H'. rewrite H, H'. reflexivity. Qed.
Global Instance vdivq_proper : Proper (veqv ==> veqv ==> veqv) (map2 Qdiv).
Proof. apply map2_veqv. intros ? ? H ? ? H'. rewrite H, H'. reflexivity. Qed.

Lemma map_veqv (f g : Q -> Q) a b :
  (forall x y, x == y -> f x == g y) -> a =v= b -> map f a =v= map g b.
Proof. intros Hf H; induction H; simpl; constructor; auto. Qed.
Global Instance vdivs_proper : Proper (veqv ==> Qeq ==> veqv) vdivs.
Proof. intros a b H c d H'. apply map_veqv; auto. intros x y E. rewrite E, H'. reflexivity. Qed.

Lemma veqv_nth a b : a =v= b -> forall i, nthq a i == nthq b i.
Proof.
  induction 1; intros i; unfold nthq in *; destruct i; simpl; auto; reflexivity.
Qed.

(* ---------- sums ---------- *)
Lemma qsum_vdivs a c : qsum (vdivs a c) == qsum a / c.
Proof.
  induction a as [|x a IH]; simpl.
  - unfold Qdiv. ring.
  - unfold vdivs in IH. rewrite IH. unfold Qdiv. ring.
Qed.

Lemma qsum_map_mulr a c : qsum (map (fun x => x * c) a) == qsum a * c.
Proof. induction a as [|x a IH]; simpl; [ring|]. rewrite IH. ring. Qed.

Lemma qsum_vones n : qsum (vones n) == inject_Z (Z.of_nat n).
Proof.
  induction n as [|n IH]; [reflexivity|].
  unfold vones in *. cbn [repeat qsum fold_right]. fold (qsum (repeat 1 n)). rewrite IH.
  rewrite Nat2Z.inj_succ. unfold Z.succ. rewrite inject_Z_plus. ring.
Qed.

Lemma vones_length n : length (vones n) = n.
Proof. apply repeat_length. Qed.

Lemma qsum_nonneg a : Forall (fun x => 0 <= x) a -> 0 <= qsum a.
Proof. induction 1; simpl; lra. Qed.

Lemma vmul_vones_r a n : (length a <= n)%nat -> vmul a (vones n) =v= a.
Proof.
  revert n; induction a as [|x a IH]; intros n H; simpl.
  - destruct n; constructor.
  - destruct n; simpl in H; [lia|]. simpl. constructor; [ring|]. apply IH. lia.
Qed.
Lemma vmul_vones_l a n : (length a <= n)%nat -> vmul (vones n) a =v= a.
Proof.
  revert n; induction a as [|x a IH]; intros n H; simpl.
  - destruct n; constructor.
  - destruct n; simpl in H; [lia|]. simpl. constructor; [ring|]. apply IH. lia.
Qed.
Lemma vdivq_vones_r a n : (length a <= n)%nat -> map2 Qdiv a (vones n) =v= a.
Proof.
  revert n; induction a as [|x a IH]; intros n H; simpl.
  - destruct n; constructor.
  - destruct n; simpl in H; [lia|]. simpl. constructor; [field|]. apply IH. lia.
Qed.

Lemma vmul_vdivs_l a b c : vmul (vdivs a c) b =v= vdivs (vmul a b) c.
Proof.
  revert b; induction a as [|x a IH]; intros [|y b]; simpl; try constructor.
  - unfold Qdiv; ring.
  - apply IH.
Qed.

Lemma map2_length_min {A B C} (f : A -> B -> C) a b :
  length (map2 f a b) = Nat.min (length a) (length b).
Proof. revert b; induction a; intros [|y b]; simpl; auto. Qed.

(* ---------- comparisons ---------- *)
Lemma qltb_true a b : qltb a b = true <-> a < b.
Proof.
  unfold qltb. rewrite negb_true_iff. split; intros H.
  - destruct (Qlt_le_dec a b) as [L|L]; auto. apply Qle_bool_iff in L. congruence.
  - destruct (Qle_bool b a) eqn:E; auto. apply Qle_bool_iff in E. lra.
Qed.
Lemma qltb_false a b : qltb a b = false <-> b <= a.
Proof.
  unfold qltb. rewrite negb_false_iff. apply Qle_bool_iff.
Qed.
Lemma qleb_true a b : qleb a b = true <-> a <= b.
Proof. apply Qle_bool_iff. Qed.
Lemma qleb_false a b : qleb a b = false <-> b < a.
Proof.
  unfold qleb. split; intros H.
  - destruct (Qlt_le_dec b a) as [L|L]; auto. apply Qle_bool_iff in L. congruence.
  - destruct (Qle_bool a b) eqn:E; auto. apply Qle_bool_iff in E. lra.
Qed.

Lemma c1em16_pos : 0 < c1em16.
Proof. reflexivity. Qed.

(* ---------- normalize ---------- *)
Lemma normalize_length a : length (normalize a) = length a.
Proof.
  unfold normalize. destruct (qltb (qsum a) c1em16); unfold vdivs; rewrite map_length; auto.
  apply vones_length.
Qed.

Lemma normalize_sum1 a : a <> [] -> qsum (normalize a) == 1.
Proof.
  intros NE. unfold normalize. destruct (qltb (qsum a) c1em16) eqn:E.
  - rewrite qsum_vdivs, qsum_vones.
    assert (0 < inject_Z (Z.of_nat (length a))) as Hp.
    { destruct a; [congruence|]. simpl length. rewrite Nat2Z.inj_succ.
      change 0 with (inject_Z 0). rewrite <- Zlt_Qlt. lia. }
    field. lra.
  - apply qltb_false in E. rewrite qsum_vdivs. pose proof c1em16_pos. field. lra.
Qed.

Lemma Forall_nthq (P : Q -> Prop) a : P 0 -> Forall P a -> forall i, P (nthq a i).
Proof.
  intros P0 H; induction H; intros i; unfold nthq in *; destruct i; simpl; auto.
Qed.

Lemma normalize_nonneg a : Forall (fun x => 0 <= x) a -> Forall (fun x => 0 <= x) (normalize a).
Proof.
  intros H. unfold normalize. destruct (qltb (qsum a) c1em16) eqn:E.
  - unfold vdivs, vones. apply Forall_forall. intros x Hx. apply in_map_iff in Hx.
    destruct Hx as (y & <- & Hy). apply repeat_spec in Hy. subst y.
    assert (0 <= inject_Z (Z.of_nat (length a))) as Hp.
    { change 0 with (inject_Z 0). rewrite <- Zle_Qle. lia. }
    destruct (Qeq_dec (inject_Z (Z.of_nat (length a))) 0) as [Z|NZ].
    + rewrite Z. unfold Qdiv, Qinv; simpl. lra.
    + apply Qle_shift_div_l; lra.
  - apply qltb_false in E. pose proof c1em16_pos as Hc.
    unfold vdivs. apply Forall_forall. intros x Hx. apply in_map_iff in Hx.
    destruct Hx as (y & <- & Hy). rewrite Forall_forall in H. specialize (H _ Hy).
    apply Qle_shift_div_l; lra.
Qed.

(* when the raw fractions already sum to one, normalisation only rescales by 1 *)
Lemma normalize_of_sum1 a : qsum a == 1 -> normalize a =v= a.
Proof.
  intros H. unfold normalize.
  assert (qltb (qsum a) c1em16 = false) as E.
  { apply qltb_false. rewrite H. unfold c1em16. unfold Qle; simpl; lia. }
  rewrite E. unfold vdivs. rewrite <- (map_id a) at 2. apply map_veqv; [|reflexivity].
  intros x y Exy. rewrite H, Exy. field.
Qed.
