From V Require Import Common.NumFacts C08.Model.
Lemma placeholder : 1 == 1. Proof. reflexivity. Qed.
