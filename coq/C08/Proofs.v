(* C08 — lemmas.  Everything is over Q (exact rationals); no real-number axioms are used. *)
From V Require Import Common.NumFacts C08.Model.
From Coq Require Import Permutation Setoid Morphisms.
Open Scope Q_scope.

(* ---------- vectors up to pointwise Qeq ---------- *)
Definition veqv : vec -> vec -> Prop := Forall2 Qeq.
Infix "=v=" := veqv (at level 70).

Lemma veqv_refl a : a =v= a.
Proof. induction a; constructor; auto; reflexivity. Qed.
Lemma veqv_sym a b : a =v= b -> b =v= a.
Proof. induction 1; constructor; auto. symmetry; auto. Qed.
Lemma veqv_trans a b c : a =v= b -> b =v= c -> a =v= c.
Proof.
  intros H; revert c; induction H as [|x y a b Hxy Hab IH]; intros c' H2.
  - inversion H2; subst; constructor.
  - inversion H2 as [|y' z b' c'' Hyz Hbc]; subst. constructor.
    + rewrite Hxy. exact Hyz.
    + apply IH. exact Hbc.
Qed.
Global Instance veqv_equiv : Equivalence veqv.
Proof. split; [exact veqv_refl | exact veqv_sym | exact veqv_trans]. Qed.

Lemma veqv_length a b : a =v= b -> length a = length b.
Proof. induction 1; simpl; auto. Qed.

Global Instance qsum_proper : Proper (veqv ==> Qeq) qsum.
Proof. intros a b H; induction H; simpl; [reflexivity|]. rewrite H, IHForall2. reflexivity. Qed.

Lemma map2_veqv (f : Q -> Q -> Q) :
  Proper (Qeq ==> Qeq ==> Qeq) f -> Proper (veqv ==> veqv ==> veqv) (map2 f).
Proof.
  intros Pf a b H; induction H as [|x y a b Hxy Hab IH]; intros c d H2; simpl.
  - constructor.
  - inversion H2 as [|u v c' d' Huv Hcd]; subst; constructor.
    + apply Pf; auto.
    + apply IH; auto.
Qed.
Global Instance vmul_proper : Proper (veqv ==> veqv ==> veqv) vmul.
Proof. apply map2_veqv. intros ? ? H ? ? H'. rewrite H, H'. reflexivity. Qed.
Global Instance vdivq_proper : Proper (veqv ==> veqv ==> veqv) (map2 Qdiv).
Proof. apply map2_veqv. intros ? ? H ? ? H'. rewrite H, H'. reflexivity. Qed.

Lemma map_veqv (f g : Q -> Q) a b :
  (forall x y, x == y -> f x == g y) -> a =v= b -> map f a =v= map g b.
Proof. intros Hf H; induction H; simpl; constructor; auto. Qed.
Global Instance vdivs_proper : Proper (veqv ==> Qeq ==> veqv) vdivs.
Proof. intros a b H c d H'. apply map_veqv; auto. intros x y E. rewrite E, H'. reflexivity. Qed.

Lemma veqv_nth a b : a =v= b -> forall i, nthq a i == nthq b i.
Proof.
  induction 1; intros i; unfold nthq in *; destruct i; simpl; auto; reflexivity.
Qed.

(* ---------- sums ---------- *)
Lemma qsum_vdivs a c : qsum (vdivs a c) == qsum a / c.
Proof.
  induction a as [|x a IH]; simpl.
  - unfold Qdiv. ring.
  - unfold vdivs in IH. rewrite IH. unfold Qdiv. ring.
Qed.

Lemma qsum_map_mulr a c : qsum (map (fun x => x * c) a) == qsum a * c.
Proof. induction a as [|x a IH]; simpl; [ring|]. rewrite IH. ring. Qed.

Lemma qsum_vones n : qsum (vones n) == inject_Z (Z.of_nat n).
Proof.
  induction n as [|n IH]; [reflexivity|].
  unfold vones in *. cbn [repeat qsum fold_right]. fold (qsum (repeat 1 n)). rewrite IH.
  rewrite Nat2Z.inj_succ. unfold Z.succ. rewrite inject_Z_plus. ring.
Qed.

Lemma vones_length n : length (vones n) = n.
Proof. apply repeat_length. Qed.

Lemma qsum_nonneg a : Forall (fun x => 0 <= x) a -> 0 <= qsum a.
Proof. induction 1; simpl; lra. Qed.

Lemma vmul_vones_r a n : (length a <= n)%nat -> vmul a (vones n) =v= a.
Proof.
  revert n; induction a as [|x a IH]; intros n H; simpl.
  - destruct n; constructor.
  - destruct n; simpl in H; [lia|]. simpl. constructor; [ring|]. apply IH. lia.
Qed.
Lemma vmul_vones_l a n : (length a <= n)%nat -> vmul (vones n) a =v= a.
Proof.
  revert n; induction a as [|x a IH]; intros n H; simpl.
  - destruct n; constructor.
  - destruct n; simpl in H; [lia|]. simpl. constructor; [ring|]. apply IH. lia.
Qed.
Lemma vdivq_vones_r a n : (length a <= n)%nat -> map2 Qdiv a (vones n) =v= a.
Proof.
  revert n; induction a as [|x a IH]; intros n H; simpl.
  - destruct n; constructor.
  - destruct n; simpl in H; [lia|]. simpl. constructor; [field|]. apply IH. lia.
Qed.

Lemma vmul_vdivs_l a b c : vmul (vdivs a c) b =v= vdivs (vmul a b) c.
Proof.
  revert b; induction a as [|x a IH]; intros [|y b]; simpl; try constructor.
  - unfold Qdiv; ring.
  - apply IH.
Qed.

Lemma map2_length_min {A B C} (f : A -> B -> C) a b :
  length (map2 f a b) = Nat.min (length a) (length b).
Proof. revert b; induction a; intros [|y b]; simpl; auto. Qed.

(* ---------- comparisons ---------- *)
Lemma qltb_true a b : qltb a b = true <-> a < b.
Proof.
  unfold qltb. rewrite negb_true_iff. split; intros H.
  - destruct (Qlt_le_dec a b) as [L|L]; auto. apply Qle_bool_iff in L. congruence.
  - destruct (Qle_bool b a) eqn:E; auto. apply Qle_bool_iff in E. lra.
Qed.
Lemma qltb_false a b : qltb a b = false <-> b <= a.
Proof.
  unfold qltb. rewrite negb_false_iff. apply Qle_bool_iff.
Qed.
Lemma qleb_true a b : qleb a b = true <-> a <= b.
Proof. apply Qle_bool_iff. Qed.
Lemma qleb_false a b : qleb a b = false <-> b < a.
Proof.
  unfold qleb. split; intros H.
  - destruct (Qlt_le_dec b a) as [L|L]; auto. apply Qle_bool_iff in L. congruence.
  - destruct (Qle_bool a b) eqn:E; auto. apply Qle_bool_iff in E. lra.
Qed.

Lemma c1em16_pos : 0 < c1em16.
Proof. reflexivity. Qed.

(* ---------- normalize ---------- *)
Lemma normalize_length a : length (normalize a) = length a.
Proof.
  unfold normalize. destruct (qltb (qsum a) c1em16); unfold vdivs; rewrite map_length; auto.
  apply vones_length.
Qed.

Lemma normalize_sum1 a : a <> [] -> qsum (normalize a) == 1.
Proof.
  intros NE. unfold normalize. destruct (qltb (qsum a) c1em16) eqn:E.
  - rewrite qsum_vdivs, qsum_vones.
    assert (0 < inject_Z (Z.of_nat (length a))) as Hp.
    { destruct a; [congruence|]. simpl length. rewrite Nat2Z.inj_succ.
      change 0 with (inject_Z 0). rewrite <- Zlt_Qlt. lia. }
    field. lra.
  - apply qltb_false in E. rewrite qsum_vdivs. pose proof c1em16_pos. field. lra.
Qed.

Lemma Forall_nthq (P : Q -> Prop) a : P 0 -> Forall P a -> forall i, P (nthq a i).
Proof.
  intros P0 H; induction H; intros i; unfold nthq in *; destruct i; simpl; auto.
Qed.

Lemma normalize_nonneg a : Forall (fun x => 0 <= x) a -> Forall (fun x => 0 <= x) (normalize a).
Proof.
  intros H. unfold normalize. destruct (qltb (qsum a) c1em16) eqn:E.
  - unfold vdivs, vones. apply Forall_forall. intros x Hx. apply in_map_iff in Hx.
    destruct Hx as (y & <- & Hy). apply repeat_spec in Hy. subst y.
    assert (0 <= inject_Z (Z.of_nat (length a))) as Hp.
    { change 0 with (inject_Z 0). rewrite <- Zle_Qle. lia. }
    destruct (Qeq_dec (inject_Z (Z.of_nat (length a))) 0) as [Z|NZ].
    + rewrite Z. unfold Qdiv, Qinv; simpl. lra.
    + apply Qle_shift_div_l; lra.
  - apply qltb_false in E. pose proof c1em16_pos as Hc.
    unfold vdivs. apply Forall_forall. intros x Hx. apply in_map_iff in Hx.
    destruct Hx as (y & <- & Hy). rewrite Forall_forall in H. specialize (H _ Hy).
    apply Qle_shift_div_l; lra.
Qed.

(* when the raw fractions already sum to one, normalisation only rescales by 1 *)
Lemma normalize_of_sum1 a : qsum a == 1 -> normalize a =v= a.
Proof.
  intros H. unfold normalize.
  assert (qltb (qsum a) c1em16 = false) as E.
  { apply qltb_false. rewrite H. unfold c1em16. unfold Qle; simpl; lia. }
  rewrite E. unfold vdivs. rewrite <- (map_id a) at 2. apply map_veqv; [|reflexivity].
  intros x y Exy. rewrite H, Exy. field.
Qed.

(* ---------- weighted sums and the AM-HM / Cauchy-Schwarz inequality ---------- *)
Lemma qsum_cons x a : qsum (x :: a) = x + qsum a.
Proof. reflexivity. Qed.
Lemma qsum_nil : qsum [] = 0.
Proof. reflexivity. Qed.
Ltac vsimpl := unfold vmul in *; cbn [vdivs map2 map length] in *; change (map2 Qmult) with vmul in *;
  rewrite ?qsum_cons, ?qsum_nil in *.
Definition wsum (z p : vec) : Q := qsum (vmul z p).          (* sum z_i p_i *)
Definition wsumi (z p : vec) : Q := qsum (map2 Qdiv z p).    (* sum z_i / p_i *)
Definition nonneg (z : vec) : Prop := Forall (fun x => 0 <= x) z.
Definition allpos (p : vec) : Prop := Forall (fun x => 0 < x) p.

Lemma wsum_nonneg z p : nonneg z -> allpos p -> 0 <= wsum z p.
Proof.
  unfold wsum. intros Hz; revert p; induction Hz as [|x z Hx Hz IH]; intros p Hp; vsimpl; [lra|].
  destruct Hp as [|y p Hy Hp]; vsimpl; [lra|]. specialize (IH _ Hp). nra.
Qed.
Lemma wsumi_nonneg z p : nonneg z -> allpos p -> 0 <= wsumi z p.
Proof.
  unfold wsumi. intros Hz; revert p; induction Hz as [|x z Hx Hz IH]; intros p Hp; vsimpl; [lra|].
  destruct Hp as [|y p Hy Hp]; vsimpl; [lra|]. specialize (IH _ Hp).
  assert (0 <= x / y) by (apply Qle_shift_div_l; lra). lra.
Qed.

Lemma wsum_pos z p : nonneg z -> allpos p -> length z = length p -> 0 < qsum z -> 0 < wsum z p.
Proof.
  unfold wsum. intros Hz; revert p; induction Hz as [|x z Hx Hz IH]; intros p Hp L S; vsimpl; [lra|].
  destruct Hp as [|y p Hy Hp]; vsimpl; [discriminate|].
  pose proof (wsum_nonneg z p Hz Hp) as N. unfold wsum in N.
  destruct (Qlt_le_dec 0 x) as [Px|Nx].
  - nra.
  - assert (0 < qsum z) as S' by lra. specialize (IH _ Hp ltac:(lia) S'). nra.
Qed.

Lemma amhm_term x y t : 0 <= x -> 0 < y -> 0 < t -> 2 * x <= x * y / t + t * (x / y).
Proof.
  intros Hx Hy Ht.
  assert (x * y / t + t * (x / y) - 2 * x == x * ((y - t) * (y - t)) / (t * y)) as E by (field; lra).
  assert (0 <= x * ((y - t) * (y - t)) / (t * y)) as N.
  { apply Qle_shift_div_l; [nra|]. rewrite Qmult_0_l.
    apply Qmult_le_0_compat; [lra|]. destruct (Qlt_le_dec y t); nra. }
  lra.
Qed.

Lemma amhm_t z p t : nonneg z -> allpos p -> length z = length p -> 0 < t ->
  2 * qsum z <= wsum z p / t + t * wsumi z p.
Proof.
  unfold wsum, wsumi. intros Hz; revert p; induction Hz as [|x z Hx Hz IH]; intros p Hp L Ht; vsimpl.
  - unfold Qdiv. lra.
  - destruct Hp as [|y p Hy Hp]; vsimpl; [discriminate|].
    specialize (IH _ Hp ltac:(lia) Ht). pose proof (amhm_term x y t Hx Hy Ht) as A.
    assert ((x * y + qsum (vmul z p)) / t == x * y / t + qsum (vmul z p) / t) as E by (field; lra).
    rewrite E. lra.
Qed.

(* (sum z)^2 <= (sum z p) (sum z / p) *)
Lemma cauchy_weighted z p : nonneg z -> allpos p -> length z = length p ->
  qsum z * qsum z <= wsum z p * wsumi z p.
Proof.
  intros Hz Hp L.
  pose proof (wsum_nonneg z p Hz Hp) as A0. pose proof (wsumi_nonneg z p Hz Hp) as B0.
  pose proof (qsum_nonneg z Hz) as S0.
  destruct (Qlt_le_dec 0 (qsum z)) as [S|S].
  - pose proof (wsum_pos z p Hz Hp L S) as A.
    assert (0 < wsum z p / qsum z) as Ht by (apply Qlt_shift_div_l; lra).
    pose proof (amhm_t z p _ Hz Hp L Ht) as H.
    assert (wsum z p / (wsum z p / qsum z) == qsum z) as E1 by (field; lra).
    rewrite E1 in H.
    assert (wsum z p / qsum z * wsumi z p == wsum z p * wsumi z p / qsum z) as E2 by (field; lra).
    rewrite E2 in H.
    assert (qsum z <= wsum z p * wsumi z p / qsum z) as H' by lra.
    apply (Qmult_le_compat_r _ _ (qsum z)) in H'; [|lra].
    assert (wsum z p * wsumi z p / qsum z * qsum z == wsum z p * wsumi z p) as E3 by (field; lra).
    rewrite E3 in H'. exact H'.
  - assert (qsum z == 0) as Z by lra. rewrite Z. nra.
Qed.

(* dew pressure <= bubble pressure for ideal K-values: (sum z/p)^-1 <= sum z p *)
Lemma dew_le_bubble_P_math z p : nonneg z -> allpos p -> length z = length p -> qsum z == 1 ->
  0 < wsumi z p /\ 1 / wsumi z p <= wsum z p.
Proof.
  intros Hz Hp L S1. pose proof (cauchy_weighted z p Hz Hp L) as C. rewrite S1 in C.
  pose proof (wsum_nonneg z p Hz Hp) as A0. pose proof (wsumi_nonneg z p Hz Hp) as B0.
  assert (0 < wsumi z p) as B by nra.
  split; [exact B|]. apply Qle_shift_div_r; lra.
Qed.

(* strict monotonicity of weighted sums *)
Lemma wsum_lt z a b : nonneg z -> Forall2 Qlt a b -> length z = length a -> 0 < qsum z ->
  wsum z a < wsum z b.
Proof.
  unfold wsum. intros Hz; revert a b; induction Hz as [|x z Hx Hz IH]; intros a b Hab L S; vsimpl; [lra|].
  destruct Hab as [|u v a b Huv Hab]; vsimpl; [discriminate|].
  assert (wsum z a <= wsum z b) as Hle.
  { clear IH S L. unfold wsum. revert a b Hab. induction Hz as [|x' z Hx' Hz IH']; intros a b Hab; vsimpl; [lra|].
    destruct Hab as [|u' v' a b Huv' Hab]; vsimpl; [lra|]. specialize (IH' _ _ Hab). nra. }
  unfold wsum in Hle.
  destruct (Qlt_le_dec 0 x) as [Px|Nx].
  - nra.
  - assert (0 < qsum z) as S' by lra. specialize (IH _ _ Hab ltac:(lia) S'). nra.
Qed.

(* vapour-pressure functions *)
Definition pat (ps : list (Q -> Q)) (T : Q) : vec := map (fun f => f T) ps.
Definition increasing (f : Q -> Q) : Prop := forall a b, a < b -> f a < f b.
Definition positive (f : Q -> Q) : Prop := forall a, 0 < f a.

Lemma pat_lt ps a b : Forall increasing ps -> a < b -> Forall2 Qlt (pat ps a) (pat ps b).
Proof. intros H L; induction H; vsimpl; constructor; auto. Qed.
Lemma pat_pos ps a : Forall positive ps -> allpos (pat ps a).
Proof. intros H; induction H; vsimpl; constructor; auto. Qed.
Lemma pat_length ps a : length (pat ps a) = length ps.
Proof. apply map_length. Qed.

(* bubble temperature <= dew temperature at the same pressure (ideal K-values, increasing Psat) *)
Lemma bubble_le_dew_T_math ps z P Tb Td :
  Forall increasing ps -> Forall positive ps -> nonneg z -> length z = length ps -> qsum z == 1 ->
  0 < P ->
  wsum z (pat ps Tb) == P ->            (* 1 - sum z_i Psat_i(Tb) / P = 0 *)
  P * wsumi z (pat ps Td) == 1 ->       (* 1 - sum z_i P / Psat_i(Td) = 0 *)
  Tb <= Td.
Proof.
  intros Hinc Hpos Hz L S1 HP Hb Hd.
  destruct (Qlt_le_dec Td Tb) as [Lt|]; [exfalso|assumption].
  assert (length z = length (pat ps Td)) as L' by (rewrite pat_length; exact L).
  pose proof (cauchy_weighted z (pat ps Td) Hz (pat_pos ps Td Hpos) L') as C. rewrite S1 in C.
  assert (0 < qsum z) as S by lra.
  pose proof (wsum_lt z _ _ Hz (pat_lt ps Td Tb Hinc Lt) L' S) as W.
  assert (wsumi z (pat ps Td) == 1 / P) as E by (field_simplify_eq; lra).
  rewrite E in C.
  assert (wsum z (pat ps Td) * (1 / P) == wsum z (pat ps Td) / P) as E2 by (field; lra).
  rewrite E2 in C.
  assert (1 * 1 * P <= wsum z (pat ps Td) / P * P) as C' by (apply Qmult_le_compat_r; lra).
  assert (wsum z (pat ps Td) / P * P == wsum z (pat ps Td)) as E3 by (field; lra).
  rewrite E3 in C'. lra.
Qed.

(* dew pressure <= bubble pressure at the same temperature, as roots of the two ideal residuals *)
Lemma dew_le_bubble_P_roots p z Pb Pd :
  allpos p -> nonneg z -> length z = length p -> qsum z == 1 ->
  0 < Pb -> 0 < Pd ->
  1 - wsum z p / Pb == 0 ->
  1 - Pd * wsumi z p == 0 ->
  Pd <= Pb.
Proof.
  intros Hp Hz L S1 HPb HPd Hb Hd.
  destruct (dew_le_bubble_P_math z p Hz Hp L S1) as (B & H).
  assert (wsum z p == Pb) as Eb.
  { assert (wsum z p / Pb == 1) as E by lra.
    assert (wsum z p / Pb * Pb == wsum z p) as E' by (field; lra). rewrite <- E', E. ring. }
  assert (Pd == 1 / wsumi z p) as Ed by (field_simplify_eq; lra).
  rewrite Ed, <- Eb. exact H.
Qed.
