(* C08 — executable model of thermosteam.equilibrium.{bubble_point,dew_point,domain},
   functional.normalize / first_true_index and Chemical.Tsat (thermosteam/_chemical.py).
   Source modelled (non-reactive paths, i.e. liquid_conversion / gas_conversion is None):
     bubble_point.py  y_iter, solve_y, BubblePoint.{__new__, _T_error, _P_error, _T_error_ideal,
                      _Ty_ideal, _Py_ideal, __call__, solve_Ty, solve_Py}
     dew_point.py     gamma_iter, solve_x, DewPoint.{__new__, _solve_x, _T_error, _T_error_ideal,
                      _P_error, _Tx_ideal, _Px_ideal, __call__, solve_Tx, solve_Px}
     domain.py        vle_domain
     _chemical.py     Chemical.Tsat (check_validity=False, no Tguess/Tmin/Tmax arguments)
   Third-party numerics are ORACLES: flexsolve.aitken_secant, IQ_interpolation, wegstein are
   fields of [solvers]; property-package functions (Psat handles, Gamma, Phi, PCF objects) are
   fields of [chem] / [pkg].  The residual functions write into a buffer (y or x) that the caller
   keeps; a residual is therefore a state-passing function [buffer -> point -> (value, buffer)].
   Numbers are exact rationals; decimal literals of the source are the exact values of the doubles.
   No lemmas in this file. *)
From V Require Export Common.Num.
From Coq Require Export Qround.

(* ---------- literals of the source, as the doubles they denote ---------- *)
Definition c1em32 : Q := 7307508186654515 # 730750818665451459101842416358141509827966271488.
Definition c1em16 : Q := 2028240960365167 # 20282409603651670423947251286016.
Definition c1em3  : Q := 1152921504606847 # 1152921504606846976.
Definition c1em2  : Q := 5764607523034235 # 576460752303423488.
Definition Tmin_limit : Q := 50.
Definition Tmax_limit : Q := 1000.
Definition atm : Q := 101325.

(* ---------- functional.normalize (sum_array=None, minimum=1e-16), first_true_index ---------- *)
Definition vones (n : nat) : vec := repeat 1 n.
Definition normalize (a : vec) : vec :=
  let s := qsum a in
  if qltb s c1em16 then vdivs (vones (length a)) (inject_Z (Z.of_nat (length a)))
  else vdivs a s.

Fixpoint first_true (l : list bool) : option nat :=
  match l with
  | [] => None
  | b :: t => if b then Some O else option_map S (first_true t)
  end.
Definition positives (z : vec) : list bool := map (fun x => qltb 0 x) z.   (* z > 0. *)
Definition truthy (z : vec) : list bool := map (fun x => negb (qzerob x)) z. (* bool(z_i) *)
Definition count_true (l : list bool) : nat := length (filter (fun b => b) l).

(* ---------- oracles ---------- *)
Definition resid := vec -> Q -> res (Q * vec).   (* buffer -> point -> (residual, new buffer) *)
(* SErr e buf: the solver (or the residual it called) raised e; buf is the buffer at that moment *)
Inductive sres := SOk (root : Q) (buf : vec) | SErr (e : err) (buf : vec).
(* InfeasibleRegion is a subclass of RuntimeError, so `except RuntimeError` catches both *)
Definition is_runtime (e : err) : bool :=
  match e with ERuntime | EInfeasible => true | _ => false end.
Record solvers := mksolvers {
  secant : resid -> vec -> Q -> Q -> sres;                          (* flx.aitken_secant f x0 x1 *)
  iq : resid -> vec -> Q -> Q -> Q -> Q -> option Q -> sres;        (* flx.IQ_interpolation f x0 x1 y0 y1 x *)
  weg : (vec -> vec) -> vec -> vec                                  (* flx.wegstein f x *)
}.
Definition sres_res (r : sres) : res (Q * vec) :=
  match r with SOk x b => Ok (x, b) | SErr e _ => Err e end.

(* ---------- chemicals and Chemical.Tsat ---------- *)
Record chem := mkchem {
  c_psat : Q -> Q;      (* Psat handle, called *)
  c_Tlo : Q; c_Thi : Q; (* Psat.Tmin, Psat.Tmax *)
  c_Tb : option Q; c_Tc : Q; c_Pc : Q }.

Definition opt_truthy (o : option Q) : bool :=
  match o with Some x => negb (qzerob x) | None => false end.

Definition scalar_resid (g : Q -> Q) : resid := fun buf x => Ok (g x, buf).

Definition Tsat (S : solvers) (c : chem) (P : Q) : res Q :=
  let Tlo := c_Tlo c + 1 in
  let Thi := c_Thi c - 1 in
  let go (guess : Q) :=
    let g := fun T => c_psat c T - P in
    let y0 := g Tlo in
    let y1 := g Thi in
    if qltb y0 0 && qltb 0 y1
    then do r <- sres_res (iq S (scalar_resid g) [] Tlo Thi y0 y1 (Some guess)); Ok (fst r)
    else do r <- sres_res (secant S (scalar_resid g) [] Tlo Thi); Ok (fst r) in
  match c_Tb c with
  | Some Tb => if negb (qzerob Tb)
               then (if qeqb P atm then Ok Tb else go Tb)
               else go ((Tlo + Thi) / 2)
  | None => go ((Tlo + Thi) / 2)
  end.

(* ---------- domain.vle_domain and __new__ ---------- *)
Definition vle_domain (cs : list chem) : res (Q * Q) :=
  match cs with
  | [] => Err EValue                      (* max([]) *)
  | c :: t =>
    let hi := fold_left Qmax (map c_Thi t) (c_Thi c) in
    let lo := fold_left Qmin (map c_Tlo t) (c_Tlo c) in
    Ok (Qmax lo Tmin_limit + c1em2, Qmin hi Tmax_limit - c1em2)
  end.

Record pkg := mkpkg {
  chems : list chem;
  gam : vec -> Q -> vec;          (* self.gamma(x, T)  ==  gamma.f(x, T, *gamma.args) *)
  phi_ideal : bool;               (* isinstance(self.phi, IdealFugacityCoefficients) *)
  phi : vec -> Q -> Q -> vec;     (* self.phi(y, T, P)  (a scalar result is the constant vector) *)
  pcf : Q -> Q -> vec -> vec;     (* self.pcf(T, P, Psats) *)
  pTmin : Q; pTmax : Q; pPmin : Q; pPmax : Q }.

Definition new_pkg (cs : list chem) g pid ph pc : res pkg :=
  do d <- vle_domain cs;
  let lo := fst d in
  let hi := snd d in
  match map (fun c => c_psat c lo) cs, map (fun c => c_psat c hi) cs with
  | a :: ta, b :: tb => Ok (mkpkg cs g pid ph pc lo hi (fold_left Qmin ta a) (fold_left Qmax tb b))
  | _, _ => Err EValue
  end.

(* instance cache of __new__: key = (chemical object ids, Gamma, Phi, PCF class ids);
   an entry holds the object identity handed out and the instance *)
Definition key := (list nat * nat * nat * nat)%type.
Definition key_eqb (a b : key) : bool :=
  match a, b with
  | (ca, ga, pa, fa), (cb, gb, pb, fb) =>
    list_eqb Nat.eqb ca cb && Nat.eqb ga gb && Nat.eqb pa pb && Nat.eqb fa fb
  end.
Definition cache (A : Type) := list (key * (nat * A)).
Fixpoint cache_find {A} (c : cache A) (k : key) : option (nat * A) :=
  match c with
  | [] => None
  | (k', v) :: t => if key_eqb k k' then Some v else cache_find t k
  end.
(* state = (cache, number of objects created so far); result = (object id, instance) *)
Definition cache_new {A} (build : key -> res A) (st : cache A * nat) (k : key)
  : res (nat * A) * (cache A * nat) :=
  match cache_find (fst st) k with
  | Some v => (Ok v, st)
  | None => match build k with
            | Ok a => (Ok (snd st, a), ((k, (snd st, a)) :: fst st, S (snd st)))
            | Err e => (Err e, st)
            end
  end.
Fixpoint cache_run {A} (build : key -> res A) (st : cache A * nat) (ks : list key)
  : list (res (nat * A)) * (cache A * nat) :=
  match ks with
  | [] => ([], st)
  | k :: t => let r := cache_new build st k in
              let rs := cache_run build (snd r) t in
              (fst r :: fst rs, snd rs)
  end.

(* ---------- bubble point kernels ---------- *)
Definition psats_at (k : pkg) (T : Q) : vec := map (fun c => c_psat c T) (chems k).

Definition y_iter (k : pkg) (y_phi : vec) (T P : Q) (y : vec) : vec :=
  map2 Qdiv y_phi (phi k (normalize y) T P).
Definition solve_y (k : pkg) (S : solvers) (y_phi : vec) (T P : Q) : vec :=
  if phi_ideal k then y_phi else weg S (y_iter k y_phi T P) y_phi.

Definition bubble_T_error (k : pkg) (S : solvers) (P : Q) (z_over_P z_norm : vec) : resid :=
  fun _ T =>
  if qleb T 0 then Err EInfeasible else
  let Ps := psats_at k T in
  let y_phi := vmul (vmul (vmul z_over_P Ps) (gam k z_norm T)) (pcf k T P Ps) in
  let y := solve_y k S y_phi T P in
  Ok (1 - qsum y, y).

Definition bubble_P_error (k : pkg) (S : solvers) (T : Q) (z_Psat_gamma Ps : vec) : resid :=
  fun _ P =>
  if qleb P 0 then Err EInfeasible else
  let y_phi := vdivs (vmul z_Psat_gamma (pcf k T P Ps)) P in
  let y := solve_y k S y_phi T P in
  Ok (1 - qsum y, y).

Definition bubble_T_error_ideal (k : pkg) (z_over_P : vec) : resid :=
  fun _ T => let y := vmul z_over_P (psats_at k T) in Ok (1 - qsum y, y).

Definition Py_ideal (v : vec) : Q * vec := let P := qsum v in (P, vdivs v P).

Definition Ty_ideal (k : pkg) (S : solvers) (z_over_P : vec) : res (Q * vec) :=
  let f := bubble_T_error_ideal k z_over_P in
  let Tlo := pTmin k + 10 in
  let Thi := pTmax k - 10 in
  do a <- f z_over_P Tlo;
  if qltb (fst a) 0 then Ok (Tlo, snd a) else
  do b <- f (snd a) Thi;
  if qltb 0 (fst b) then Ok (Thi, snd b) else
  sres_res (iq S f (snd b) Tlo Thi (fst a) (fst b) None).

(* try: aitken_secant  except RuntimeError: IQ_interpolation(f, lo, hi, f(lo), f(hi), guess) *)
Definition secant_or_iq (S : solvers) (f : resid) (buf : vec) (x0 x1 lo hi : Q) : res (Q * vec) :=
  match secant S f buf x0 x1 with
  | SOk x b => Ok (x, b)
  | SErr e b =>
    if negb (is_runtime e) then Err e else
    do a <- f b lo;
    do c <- f (snd a) hi;
    sres_res (iq S f (snd c) lo hi (fst a) (fst c) (Some x0))
  end.

(* the N == 1 shortcuts *)
Definition single_T (S : solvers) (c : chem) (P : Q) : res Q :=
  if qleb P (c_Pc c) then Tsat S c P else Ok (c_Tc c).
Definition single_P (c : chem) (T : Q) : Q :=
  if qleb T (c_Tc c) then c_psat c T else c_Pc c.

(* how solve_Ty prepares its composition arguments: (z_over_P, z_norm) *)
Definition znorm (z : vec) : vec := vdivs z (qsum z).
Definition Ty_prep (z : vec) (P : Q) : vec * vec := (vdivs (znorm z) P, znorm z).

Definition solve_Ty (k : pkg) (S : solvers) (z : vec) (P : Q) : res (Q * vec) :=
  let pos := positives z in
  match count_true pos with
  | O => Err EValue
  | 1%nat =>
    match first_true pos with
    | Some i => match nth_error (chems k) i with
                | Some c => do T <- single_T S c P; Ok (T, normalize z)
                | None => Err EIndex
                end
    | None => Err EType
    end
  | _ =>
    if qzerob (qsum z) then Err EZeroDiv else
    let z_over_P := fst (Ty_prep z P) in
    let z_norm := snd (Ty_prep z P) in
    do g <- Ty_ideal k S z_over_P;
    let f := bubble_T_error k S P z_over_P z_norm in
    do r <- secant_or_iq S f (snd g) (fst g) (fst g + c1em3) (pTmin k) (pTmax k);
    Ok (fst r, normalize (snd r))
  end.

Definition clampT (k : pkg) (T : Q) : Q :=
  if qltb (pTmax k) T then pTmax k else if qltb T (pTmin k) then pTmin k else T.

(* z_Psat_gamma of solve_Py *)
Definition Py_prep (k : pkg) (z : vec) (T : Q) : vec :=
  vmul (vmul (znorm z) (psats_at k T)) (gam k (znorm z) T).

Definition solve_Py (k : pkg) (S : solvers) (z : vec) (T : Q) : res (Q * vec) :=
  let pos := positives z in
  match count_true pos with
  | O => Err EValue
  | 1%nat =>
    match first_true pos with
    | Some i => match nth_error (chems k) i with
                | Some c => Ok (single_P c T, normalize z)
                | None => Err EIndex
                end
    | None => Err EType
    end
  | _ =>
    let T := clampT k T in
    if qzerob (qsum z) then Err EZeroDiv else
    let Ps := psats_at k T in
    let zpg := Py_prep k z T in
    let g := Py_ideal zpg in
    let f := bubble_P_error k S T zpg Ps in
    do r <- secant_or_iq S f (snd g) (fst g) (fst g - 1) (pPmin k) (pPmax k);
    Ok (fst r, normalize (snd r))
  end.

(* BubblePoint.__call__ / DewPoint.__call__: (T, P, y or x) of the values object *)
Definition point_call (sT sP : vec -> Q -> res (Q * vec)) (z : vec) (T P : option Q)
  : res (Q * Q * vec) :=
  match T, opt_truthy T with
  | Some t, true =>
    if opt_truthy P then Err EValue
    else do r <- sP z t; Ok (t, fst r, snd r)
  | _, _ =>
    match P, opt_truthy P with
    | Some p, true => do r <- sT z p; Ok (fst r, p, snd r)
    | _, _ => Err EValue
    end
  end.
Definition bubble_call k S := point_call (solve_Ty k S) (solve_Py k S).

(* ---------- dew point kernels ---------- *)
Definition clamp_lo (m : Q) (v : vec) : vec := map (fun x => if qltb x m then m else x) v.

Definition gamma_iter (k : pkg) (x_gamma : vec) (T : Q) (g : vec) : vec :=
  gam k (normalize (clamp_lo c1em32 (map2 Qdiv x_gamma g))) T.

Definition solve_x (k : pkg) (S : solvers) (x_guess x_gamma : vec) (T : Q) : vec :=
  let xg := normalize (clamp_lo c1em32 x_guess) in
  let g := weg S (gamma_iter k x_gamma T) (gam k xg T) in
  if existsb qzerob g then map2 Qdiv x_gamma (gamma_iter k x_gamma T g)
  else map2 Qdiv x_gamma g.

Definition dew_T_error (k : pkg) (S : solvers) (P : Q) (z_norm zP : vec) : resid :=
  fun x T =>
  if qleb T 0 then Err EInfeasible else
  let Ps := clamp_lo c1em16 (psats_at k T) in
  let ph := phi k z_norm T P in
  let pc := pcf k T P Ps in
  let x_gamma := map2 Qdiv (map2 Qdiv (vmul ph zP) Ps) pc in
  let x' := solve_x k S x x_gamma T in
  Ok (1 - qsum x', x').

Definition dew_T_error_ideal (k : pkg) (zP : vec) : resid :=
  fun _ T => let x := map2 Qdiv zP (clamp_lo c1em16 (psats_at k T)) in Ok (1 - qsum x, x).

Definition dew_P_error (k : pkg) (S : solvers) (T : Q) (z_norm z_over_Psats Ps : vec) : resid :=
  fun x P =>
  if qleb P 0 then Err EInfeasible else
  let x_gamma := map2 Qdiv (vmul (map (fun a => a * P) z_over_Psats) (phi k z_norm T P))
                           (pcf k T P Ps) in
  let x' := solve_x k S x x_gamma T in
  Ok (1 - qsum x', x').

Definition Px_ideal (v : vec) : res (Q * vec) :=
  if qzerob (qsum v) then Err EZeroDiv
  else let P := 1 / qsum v in Ok (P, map (fun a => a * P) v).

Definition Tx_ideal (k : pkg) (S : solvers) (zP : vec) : res (Q * vec) :=
  let f := dew_T_error_ideal k zP in
  let Tlo := pTmin k + 10 in
  let Thi := pTmax k - 10 in
  do a <- f zP Tlo;
  if qltb 0 (fst a) then Ok (Tlo, snd a) else
  do b <- f (snd a) Thi;
  if qltb (fst b) 0 then Ok (Thi, snd b) else
  sres_res (iq S f (snd b) Tlo Thi (fst a) (fst b) None).

(* (z_norm, zP) of solve_Tx and (z_norm, z_over_Psats) of solve_Px *)
Definition Tx_prep (z : vec) (P : Q) : vec * vec := (znorm z, map (fun a => a * P) (znorm z)).
Definition Px_prep (k : pkg) (z : vec) (T : Q) : vec * vec :=
  (znorm z, map2 Qdiv (znorm z) (psats_at k T)).

Definition solve_Tx (k : pkg) (S : solvers) (z : vec) (P : Q) : res (Q * vec) :=
  let pos := positives z in
  match count_true pos with
  | O => Err EValue
  | 1%nat =>
    match first_true pos with
    | Some i => match nth_error (chems k) i with
                | Some c => do T <- single_T S c P; Ok (T, normalize z)
                | None => Err EIndex
                end
    | None => Err EType
    end
  | _ =>
    if qzerob (qsum z) then Err EZeroDiv else
    let z_norm := fst (Tx_prep z P) in
    let zP := snd (Tx_prep z P) in
    do g <- Tx_ideal k S zP;
    let f := dew_T_error k S P z_norm zP in
    do r <- secant_or_iq S f (snd g) (fst g) (fst g + c1em3) (pTmin k) (pTmax k);
    Ok (fst r, normalize (snd r))
  end.

Definition solve_Px (k : pkg) (S : solvers) (z : vec) (T : Q) : res (Q * vec) :=
  let pos := positives z in
  match count_true pos with
  | O => Err EValue
  | 1%nat =>
    match first_true (truthy z) with          (* fn.first_true_index(z), not (positives) *)
    | Some i => match nth_error (chems k) i with
                | Some c => Ok (single_P c T, normalize z)
                | None => Err EIndex
                end
    | None => Err EType
    end
  | _ =>
    if qzerob (qsum z) then Err EZeroDiv else
    let z_norm := fst (Px_prep k z T) in
    let Ps := psats_at k T in
    let zoP := snd (Px_prep k z T) in
    do g <- Px_ideal zoP;
    let f := dew_P_error k S T z_norm zoP Ps in
    do r <- secant_or_iq S f (snd g) (fst g) (fst g - 10) (pPmin k) (pPmax k);
    Ok (fst r, normalize (snd r))
  end.

Definition dew_call k S := point_call (solve_Tx k S) (solve_Px k S).

(* ---------- histories of calls on one BubblePoint / DewPoint pair ---------- *)
(* The objects keep nothing between calls (the y / x buffers are created per call, the package objects are
   functions of their arguments), so a history is executed call by call against the same [pkg]. *)
Inductive pcall :=
| CTy (z : vec) (P : Q) | CPy (z : vec) (T : Q) | CTx (z : vec) (P : Q) | CPx (z : vec) (T : Q).
Definition exec_call (k : pkg) (S : solvers) (c : pcall) : res (Q * vec) :=
  match c with
  | CTy z P => solve_Ty k S z P
  | CPy z T => solve_Py k S z T
  | CTx z P => solve_Tx k S z P
  | CPx z T => solve_Px k S z T
  end.
Definition run_calls (k : pkg) (S : solvers) (cs : list pcall) : list (res (Q * vec)) :=
  map (exec_call k S) cs.

(* ---------- histories in which the caller re-uses (and updates in place) its composition arrays ---------- *)
(* The wrappers read the array they are handed at call time, keep no reference to it and do not write to it:
   a call with array i is the call with the current contents of array i, and only HSet changes an array. *)
Inductive wh := WTy | WPy | WTx | WPx.
Definition call_of (w : wh) (z : vec) (a : Q) : pcall :=
  match w with WTy => CTy z a | WPy => CPy z a | WTx => CTx z a | WPx => CPx z a end.
Inductive hop :=
| HSet (i : nat) (v : vec)            (* z_i[:] = v   (in place) *)
| HCall (w : wh) (i : nat) (a : Q).   (* solve_X(z_i, a), handing over the array object itself *)
Fixpoint run_hist (k : pkg) (S : solvers) (bufs : list vec) (ops : list hop)
  : list (res (Q * vec)) * list vec :=
  match ops with
  | [] => ([], bufs)
  | HSet i v :: t => run_hist k S (upd bufs i v) t
  | HCall w i a :: t =>
    let r := run_hist k S bufs t in
    (exec_call k S (call_of w (nth i bufs []) a) :: fst r, snd r)
  end.

(* ---------- constructor histories with a session default package ---------- *)
(* BubblePoint(chemicals, thermo=None) / DewPoint(...): thermo = settings.get_default_thermo(thermo) FIRST, then the
   cache key (chemicals, thermo.Gamma, thermo.Phi, thermo.PCF).  A package is the triple of class ids. *)
Definition pkgid := (nat * nat * nat)%type.
Inductive cop :=
| CDefault (t : pkgid)                             (* settings.set_thermo(...) *)
| CNew (cs : list nat) (th : option pkgid).        (* cls(chemicals, thermo) / cls(chemicals) *)
Definition resolve_key (dflt : pkgid) (cs : list nat) (th : option pkgid) : key :=
  match (match th with Some t => t | None => dflt end) with (g, p, f) => (cs, g, p, f) end.
Fixpoint run_session {A} (build : key -> res A) (st : cache A * nat) (dflt : pkgid) (ops : list cop)
  : list (res (nat * A)) :=
  match ops with
  | [] => []
  | CDefault t :: r => run_session build st t r
  | CNew cs th :: r =>
    let x := cache_new build st (resolve_key dflt cs th) in
    fst x :: run_session build (snd x) dflt r
  end.
(* the keys a history resolves to, in order *)
Fixpoint resolved_keys (dflt : pkgid) (ops : list cop) : list key :=
  match ops with
  | [] => []
  | CDefault t :: r => resolved_keys t r
  | CNew cs th :: r => resolve_key dflt cs th :: resolved_keys dflt r
  end.

(* ---------- oracle stand-ins used by the correspondence cases (mirrored in props/C08.py) ---------- *)
(* stand-ins round their results to 2^-64 (the implementation rounds to 53 bits; compared at 1e-9):
   keeps the exact rationals of long evaluation chains small *)
Definition qrnd (x : Q) : Q := Qred (Qmake (Qfloor (x * 18446744073709551616)) 18446744073709551616).

Inductive skind := KTable (root last : Q) | KNewton | KEcho | KRaise.

Definition stub_secant (kd : skind) : resid -> vec -> Q -> Q -> sres :=
  fun f buf x0 x1 =>
  match kd with
  | KTable r l => match f buf l with Ok a => SOk r (snd a) | Err e => SErr e buf end
  | KNewton =>
    match f buf x0 with
    | Err e => SErr e buf
    | Ok a0 =>
      match f (snd a0) (x0 + 16) with
      | Err e => SErr e (snd a0)
      | Ok a1 =>
        if qeqb (fst a1) (fst a0) then SOk x0 (snd a1) else
        let x := qrnd (x0 - fst a0 * 16 / (fst a1 - fst a0)) in
        match f (snd a1) x with Ok a => SOk x (snd a) | Err e => SErr e (snd a1) end
      end
    end
  | KEcho =>
    match f buf (x0 + 4) with
    | Ok a => SOk (qrnd (x0 + (x1 - x0) * 1024 + fst a * 64)) (snd a)
    | Err e => SErr e buf
    end
  | KRaise => SErr ERuntime buf
  end.

Definition stub_iq (kd : skind) : resid -> vec -> Q -> Q -> Q -> Q -> option Q -> sres :=
  fun f buf x0 x1 y0 y1 g =>
  match kd with
  | KTable r l => match f buf l with Ok a => SOk r (snd a) | Err e => SErr e buf end
  | KNewton =>
    if qeqb y1 y0 then SOk x0 buf else
    let x := qrnd (x0 - y0 * (x1 - x0) / (y1 - y0)) in
    match f buf x with Ok a => SOk x (snd a) | Err e => SErr e buf end
  | KEcho =>
    let m := (x0 + x1) / 2 in
    match f buf m with
    | Ok a => SOk (qrnd (m + y0 * 8 + y1 * 16 + (match g with Some v => v | None => 0 end) + fst a * 64)) (snd a)
    | Err e => SErr e buf
    end
  | KRaise => SErr ERuntime buf
  end.

Definition stub_weg (n : nat) : (vec -> vec) -> vec -> vec := fun f x => Nat.iter n (fun v => map qrnd (f v)) x.

Definition stub_solvers (ks ki : skind) (n : nat) : solvers :=
  mksolvers (stub_secant ks) (stub_iq ki) (stub_weg n).

(* stand-in property functions: quadratic Psat, polynomial gamma / phi / pcf *)
Definition quad (c0 c1 c2 : Q) : Q -> Q := fun T => qrnd (c0 + c1 * T + c2 * T * T).
Definition stub_gam (a : vec) : vec -> Q -> vec :=
  fun x T => map2 (fun ai xi => qrnd (1 + ai * (1 - xi) * (1 - xi) * 256 / T)) a x.
Definition stub_phi (c : vec) : vec -> Q -> Q -> vec :=
  fun y T P => map2 (fun ci yi => qrnd (1 + ci * yi * P / 1048576)) c y.
Definition stub_pcf (d : vec) : Q -> Q -> vec -> vec :=
  fun T P Ps => map2 (fun di ps => qrnd (1 + di * (P - ps) / 4194304)) d Ps.
Definition ideal_gam (n : nat) : vec -> Q -> vec := fun _ _ => vones n.
Definition ideal_phi (n : nat) : vec -> Q -> Q -> vec := fun _ _ _ => vones n.
Definition mock_pcf (n : nat) : Q -> Q -> vec -> vec := fun _ _ _ => vones n.

(* ---------- comparison helpers for case files ---------- *)
Definition qv_approxb (a b : Q * vec) : bool := qapproxb (fst a) (fst b) && vapproxb (snd a) (snd b).
Definition rqv_approxb (a b : res (Q * vec)) : bool := res_eqb qv_approxb a b.
Definition rq_approxb (a b : res Q) : bool := res_eqb qapproxb a b.
Definition call_approxb (a b : res (Q * Q * vec)) : bool :=
  res_eqb (fun u v => qapproxb (fst (fst u)) (fst (fst v)) && qapproxb (snd (fst u)) (snd (fst v))
                      && vapproxb (snd u) (snd v)) a b.
Definition dom_approxb (a b : res (Q * Q * Q * Q)) : bool :=
  res_eqb (fun u v => match u, v with (a1, a2, a3, a4), (b1, b2, b3, b4) =>
     qapproxb a1 b1 && qapproxb a2 b2 && qapproxb a3 b3 && qapproxb a4 b4 end) a b.
Definition pkg_dom (k : pkg) : Q * Q * Q * Q := (pTmin k, pTmax k, pPmin k, pPmax k).
