(* C12 — deepening round: (1) get_data/set_data for one-phase MultiStreams (also as initial states and as
   MultiStream.from_streams of a single stream); (2) what a sub-stream aliases after it has been detached.
   Lemmas about the existing model only. *)
From V Require Import Common.NumFacts C12.Model C12.Proofs.

(* ================= (1) snapshots of ANY stream, one-phase MultiStreams included ================= *)
(* what get_data produces: a Stream's snapshot has exactly its one phase; nothing is asked of a MultiStream's *)
Definition sd_ok (d : sdata) : Prop :=
  match sd_single d with
  | Some q => forall p, isSome (sd_rows d p) = phase_eqb p q
  | None => True
  end.
Definition good1 (s : st) : Prop := wf s /\ Forall sd_ok (saved s).

Lemma snapshot_ok s : sd_ok (snapshot s).
Proof.
  unfold snapshot, sd_ok. destruct (tc_get (tcs s) (ptc s)) as [T P].
  destruct (par s) as [q c|r]; simpl; [|exact I]. intros p. destruct (phase_eqb p q); reflexivity.
Qed.

Lemma card_one_inv (t : pset) : pset_card t = 1%nat -> exists q, forall p, t p = phase_eqb p q.
Proof.
  unfold pset_card, pset_list, all_phases. simpl.
  destruct (t PL) eqn:A, (t PS) eqn:B, (t Pg) eqn:C, (t Pl) eqn:D, (t Ps) eqn:E; simpl; intros H; try discriminate.
  - exists PL. intros []; simpl; assumption.
  - exists PS. intros []; simpl; assumption.
  - exists Pg. intros []; simpl; assumption.
  - exists Pl. intros []; simpl; assumption.
  - exists Ps. intros []; simpl; assumption.
Qed.

Lemma pset_list_single (t : pset) q : (forall p, t p = phase_eqb p q) -> pset_list t = [q].
Proof. intros H. unfold pset_list, all_phases. simpl. rewrite !H. destruct q; reflexivity. Qed.

(* restoring the snapshot of a one-phase MultiStream: the stream comes back as a Stream of that phase *)
Lemma restore_onephase s d s' q :
  wf s -> sdwf (nch s) d -> sd_single d = None -> (forall p, isSome (sd_rows d p) = phase_eqb p q) ->
  restore s d = Ok s' ->
  wf s' /\ nch s' = nch s /\ saved s' = saved s /\
  T_of s' = sd_T d /\ P_of s' = sd_P d /\ is_multi s' = false /\
  (forall p, pset_now s' p = isSome (sd_rows d p)) /\
  (forall p, flow s' p = match sd_rows d p with Some v => v | None => vzero (nch s) end).
Proof.
  intros W Hd Sd Hprop H. unfold restore in H.
  destruct (empty_all_spec s W) as (W0 & F0 & P0 & _ & _).
  set (t := fun p => isSome (sd_rows d p)) in *.
  destruct (set_phases (empty_all s) t false) as [s1|e] eqn:S1; [|discriminate]. simpl in H.
  destruct (set_phases_conv _ _ _ _ W0 S1) as (W1 & F1 & _ & _).
  destruct F0 as (n0 & t0 & c0 & sv0 & _). destruct F1 as (n1 & t1 & c1 & sv1 & _).
  pose proof W1 as (Hh1 & Hp1 & Htc1 & Hsv1).
  destruct (card_one_hd t q Hprop) as [Card Hd1].
  assert (P1 : exists c, par s1 = Single q c).
  { unfold set_phases in S1. rewrite Nat.add_0_r, Card in S1. simpl in S1. rewrite Hd1 in S1.
    destruct (par (empty_all s)); destruct (to_single_spec _ _ _ W0 S1) as (_ & _ & X & _); exact X. }
  destruct P1 as (c & P1). rewrite P1 in H, Hp1. simpl in Hp1.
  rewrite Sd in H. rewrite (pset_list_single t q Hprop) in H. simpl in H.
  destruct (sd_rows d q) as [v|] eqn:Rq; [|discriminate]. simpl in H. inversion H; subst s'. clear H.
  assert (Lv : length v = nch s) by (eapply Hd; eauto).
  split.
  { split; simpl; [apply hwf_upd; auto; congruence|]. split; [rewrite upd_length; exact Hp1|].
    split; [rewrite upd_length; exact Htc1|exact Hsv1]. }
  split; [simpl; congruence|]. split; [simpl; congruence|].
  unfold T_of, P_of; simpl. rewrite tc_get_upd by exact Htc1. simpl.
  split; [reflexivity|]. split; [reflexivity|]. split; [reflexivity|]. split.
  - intros p. unfold pset_now; simpl. symmetry. apply Hprop.
  - intros p. unfold flow; simpl. specialize (Hprop p). unfold t in Hprop.
    destruct (phase_eqb p q) eqn:E.
    + apply phase_eqb_eq in E. subst p. rewrite Rq. apply cellv_upd_same. exact Hp1.
    + destruct (sd_rows d p); [discriminate|]. congruence.
Qed.

Definition sd_t (d : sdata) : pset := fun p => isSome (sd_rows d p).

(* set_data of any snapshot get_data can have produced: exact, and a MultiStream again unless it had one phase *)
Lemma restore_exact_any s d s' :
  wf s -> sdwf (nch s) d -> sd_ok d -> restore s d = Ok s' ->
  wf s' /\ nch s' = nch s /\ saved s' = saved s /\
  T_of s' = sd_T d /\ P_of s' = sd_P d /\
  is_multi s' = negb (isSome (sd_single d)) && negb (Nat.eqb (pset_card (sd_t d)) 1) /\
  (forall p, pset_now s' p = isSome (sd_rows d p)) /\
  (forall p, flow s' p = match sd_rows d p with Some v => v | None => vzero (nch s) end).
Proof.
  intros W Hd Hok H. unfold sd_ok in Hok.
  destruct (sd_single d) as [q|] eqn:Sd.
  - assert (Hp : sd_proper d) by (unfold sd_proper; rewrite Sd; exact Hok).
    destruct (restore_exact s d s' W Hd Hp H) as (A & B & C & D & E & F & G & K).
    rewrite Sd in F. simpl in F. split; [exact A|]. split; [exact B|]. split; [exact C|]. split; [exact D|]. split; [exact E|]. split; [simpl; auto|]. split; [exact G|exact K].
  - destruct (Nat.eqb (pset_card (sd_t d)) 1) eqn:Card.
    + apply Nat.eqb_eq in Card. destruct (card_one_inv _ Card) as (q & Hq).
      destruct (restore_onephase s d s' q W Hd Sd Hq H) as (A & B & C & D & E & F & G & K).
      split; [exact A|]. split; [exact B|]. split; [exact C|]. split; [exact D|]. split; [exact E|]. split; [simpl; auto|]. split; [exact G|exact K].
    + apply Nat.eqb_neq in Card.
      assert (Hp : sd_proper d) by (unfold sd_proper; rewrite Sd; exact Card).
      destruct (restore_exact s d s' W Hd Hp H) as (A & B & C & D & E & F & G & K).
      rewrite Sd in F. simpl in F. split; [exact A|]. split; [exact B|]. split; [exact C|]. split; [exact D|]. split; [exact E|]. split; [simpl; auto|]. split; [exact G|exact K].
Qed.

(* ... and it never raises (the stream has at least one phase) *)
Lemma restore_total_any s d :
  wf s -> sd_ok d -> has_rows s -> exists s', restore s d = Ok s'.
Proof.
  intros W Hok Hr.
  destruct (empty_all_spec s W) as (W0 & _ & P0 & _ & Z0).
  assert (Hr0 : has_rows (empty_all s)) by (unfold has_rows; rewrite P0; exact Hr).
  assert (Z0' : forall p c, (match par (empty_all s) with Single _ c0 => c = c0 | Multi r => r p = Some c end) ->
               cellv (heap (empty_all s)) c = vzero (nch (empty_all s))).
  { intros p c X. rewrite P0 in X. rewrite (Z0 p c X). unfold empty_all. destruct (par s); reflexivity. }
  destruct (set_phases_empty_total (empty_all s) (fun p => isSome (sd_rows d p)) W0 Hr0 Z0') as (s1 & S1 & One & Many).
  unfold restore. rewrite S1. simpl. unfold sd_ok in Hok. destruct (sd_single d) as [q|] eqn:Sd.
  - destruct (card_one_hd _ q Hok) as [Card Hd1]. destruct (One Card) as (c & P1). rewrite P1.
    specialize (Hok q). rewrite phase_eqb_refl in Hok. destruct (sd_rows d q); [|discriminate].
    simpl. eexists. reflexivity.
  - destruct (Nat.eq_dec (pset_card (fun p => isSome (sd_rows d p))) 1) as [Card|Card].
    + destruct (One Card) as (c & P1). rewrite P1.
      destruct (card_one_inv _ Card) as (q & Hq). rewrite (pset_list_single _ q Hq). simpl.
      specialize (Hq q). rewrite phase_eqb_refl in Hq. destruct (sd_rows d q); [|discriminate].
      simpl. eexists. reflexivity.
    + destruct (Many Card) as (r & P1). rewrite P1. simpl. eexists. reflexivity.
Qed.

(* every history keeps the state well-formed and its snapshots of the get_data shape: no restriction on how
   many phases a MultiStream has *)
Lemma step_good1 s o s' :
  good1 s -> step s o = Ok s' ->
  good1 s' /\ nch s' = nch s /\ exists l, saved s' = saved s ++ l.
Proof.
  intros (W & Sp) H.
  assert (ConvCase : wf s' /\ frame s s' -> good1 s' /\ nch s' = nch s /\ exists l, saved s' = saved s ++ l).
  { intros (W' & (En & _ & _ & Es & _)). split; [split; [exact W'|rewrite Es; exact Sp]|].
    split; [exact En|]. exists []. rewrite app_nil_r. exact Es. }
  assert (Same : wf s' -> nch s' = nch s -> saved s' = saved s ->
                 good1 s' /\ nch s' = nch s /\ exists l, saved s' = saved s ++ l).
  { intros W' En Es. split; [split; [exact W'|rewrite Es; exact Sp]|].
    split; [exact En|]. exists []. rewrite app_nil_r. exact Es. }
  destruct o; simpl in H.
  - apply ConvCase; apply conv_ok_wf_frame; eapply set_phases_conv; eauto.
  - apply ConvCase; apply conv_ok_wf_frame; eapply set_phase_conv; eauto.
  - unfold reduce_phases in H. destruct (par s) eqn:Ps.
    + inversion H; subst. apply Same; auto.
    + apply ConvCase; apply conv_ok_wf_frame; eapply set_phase_conv; eauto.
  - unfold as_stream in H. destruct (par s) as [|r] eqn:Ps.
    + inversion H; subst. apply Same; auto.
    + destruct (phase_string (heap s) r) as [|q [|q' l']]; [|apply ConvCase; apply conv_ok_wf_frame; eapply set_phase_conv; eauto|discriminate].
      destruct (pset_list (rset r)); [discriminate|].
      apply ConvCase; apply conv_ok_wf_frame; eapply set_phase_conv; eauto.
  - unfold accessor in H. destruct (acc_pair a) as [x y]. destruct (par s) as [p c|r] eqn:Ps.
    + destruct (relabel_conv s p c (acc_phase a p) Ps W) as (W1 & F1 & _).
      destruct (set_phases_conv _ _ _ _ W1 H) as (W' & F' & _).
      apply ConvCase; split; [exact W'|exact (frame_trans _ _ _ F1 F')].
    + destruct (rset r x && rset r y).
      * inversion H; subst. apply Same; auto.
      * apply ConvCase; apply conv_ok_wf_frame; eapply set_phases_conv; eauto.
  - unfold get_view in H. destruct (par s) as [p c|r] eqn:Ps.
    + destruct (lower_eqb l p); [|discriminate]. inversion H; subst. apply Same; auto.
    + destruct (find_cached (views s) l 0); [inversion H; subst; apply Same; auto|].
      destruct (rlookup r l); [|discriminate]. inversion H; subst. apply Same; auto.
  - unfold write_view in H. destruct (nth_error (views s) i); [|discriminate]. inversion H; subst.
    apply Same; auto. apply heap_write_wf; auto; [apply write_cell_hwf; apply W|apply write_cell_length].
  - unfold write_parent in H. destruct (par s) as [p c|r] eqn:Ps.
    + inversion H; subst. apply Same; auto.
      apply heap_write_wf; auto; [apply write_cell_hwf; apply W|apply write_cell_length].
    + destruct (rlookup r l); [|discriminate]. inversion H; subst. apply Same; auto.
      apply heap_write_wf; auto; [apply write_cell_hwf; apply W|apply write_cell_length].
  - inversion H; subst. apply Same; auto. apply tcs_write_wf; exact W.
  - inversion H; subst. apply Same; auto. apply tcs_write_wf; exact W.
  - destruct (nth_error (views s) i); [|discriminate]. inversion H; subst. apply Same; auto. apply tcs_write_wf; exact W.
  - destruct (nth_error (views s) i); [|discriminate]. inversion H; subst. apply Same; auto. apply tcs_write_wf; exact W.
  - destruct (nth_error (views s) i) as [v|]; [|discriminate].
    destruct (vlocked v).
    + destruct (phase_eqb (vphase v) l); [|discriminate]. inversion H; subst. apply Same; auto.
    + inversion H; subst. apply Same; auto.
  - unfold view_mass_touch in H. destruct (nth_error (views s) i); [|discriminate]. inversion H; subst.
    apply Same; auto.
  - unfold view_mass_write in H. destruct (nth_error (views s) i); [|discriminate]. inversion H; subst.
    apply Same; auto.
    apply (heap_write_wf (set_views s _)); auto; [apply write_cell_hwf; apply W|apply write_cell_length].
  - inversion H; subst. split; [|split; [reflexivity|eexists; reflexivity]].
    pose proof (snapshot_wf s W) as SW. destruct W as (A & B & D & E).
    split; [split; [exact A|split; [exact B|split; [exact D|]]]|]; simpl.
    + apply Forall_app. split; [exact E|]. constructor; [exact SW|constructor].
    + apply Forall_app. split; [exact Sp|]. constructor; [apply snapshot_ok|constructor].
  - destruct (nth_error (saved s) k) as [d|] eqn:Nk; [|discriminate].
    assert (Hd : sdwf (nch s) d).
    { destruct W as (_ & _ & _ & E). rewrite Forall_forall in E. apply E. eapply nth_error_In; eauto. }
    assert (Hp : sd_ok d) by (rewrite Forall_forall in Sp; apply Sp; eapply nth_error_In; eauto).
    destruct (restore_exact_any s d s' W Hd Hp H) as (W' & En & Es & _).
    apply Same; auto.
Qed.

Lemma run_good1 ops : forall s s',
  good1 s -> run s ops = Ok s' -> good1 s' /\ nch s' = nch s /\ exists l, saved s' = saved s ++ l.
Proof.
  induction ops as [|o ops IH]; intros s s' G H; simpl in H.
  - inversion H; subst. split; [exact G|]. split; [reflexivity|]. exists []. rewrite app_nil_r. reflexivity.
  - destruct (step s o) as [s1|e] eqn:S1; [|discriminate]. simpl in H.
    destruct (step_good1 s o s1 G S1) as (G1 & N1 & (l1 & L1)).
    destruct (IH s1 s' G1 H) as (G' & N' & (l' & L')).
    split; [exact G'|]. split; [congruence|]. exists (l1 ++ l'). rewrite L', L1, app_assoc. reflexivity.
Qed.

(* get_data, any history, set_data: phases, flows, T, P come back exactly from ANY well-formed stream; the class
   comes back too except that a one-phase MultiStream returns as a Stream of that phase *)
Lemma data_roundtrip_any s0 ops s s' :
  good1 s0 ->
  run (set_saved s0 (saved s0 ++ [snapshot s0])) ops = Ok s ->
  step s (ORestore (length (saved s0))) = Ok s' ->
  (forall p, pset_now s' p = pset_now s0 p) /\ (forall p, flow s' p = flow s0 p) /\
  T_of s' = T_of s0 /\ P_of s' = P_of s0 /\
  is_multi s' = is_multi s0 && negb (Nat.eqb (pset_card (pset_now s0)) 1).
Proof.
  intros G0 R H.
  assert (S0 : step s0 OSave = Ok (set_saved s0 (saved s0 ++ [snapshot s0]))) by reflexivity.
  destruct (step_good1 _ _ _ G0 S0) as (G1 & _ & _).
  destruct (run_good1 ops _ _ G1 R) as (G & En & (l & El)). simpl in En, El.
  simpl in H.
  assert (Nk : nth_error (saved s) (length (saved s0)) = Some (snapshot s0)).
  { rewrite El, <- app_assoc. rewrite nth_error_app2 by lia. rewrite Nat.sub_diag. reflexivity. }
  rewrite Nk in H. destruct G as (W & _). destruct G0 as (W0 & _).
  assert (Hd : sdwf (nch s) (snapshot s0)) by (rewrite En; apply snapshot_wf; exact W0).
  destruct (restore_exact_any s _ s' W Hd (snapshot_ok s0) H) as (_ & _ & _ & ET & EP & Im & PN & Fl).
  destruct (snapshot_fields s0) as (FT & FP & FM & FN & FF).
  split; [intros p; rewrite PN; apply FN|]. split; [intros p; rewrite Fl, En; apply FF|].
  split; [congruence|]. split; [congruence|].
  assert (EC : pset_card (sd_t (snapshot s0)) = pset_card (pset_now s0)) by (apply pset_card_ext; intros p; apply FN).
  rewrite Im, FM, EC. reflexivity.
Qed.

(* restoring any snapshot taken earlier in the history never raises *)
Lemma restore_never_raises_any s0 ops s k :
  good1 s0 -> run s0 ops = Ok s -> (k < length (saved s))%nat -> has_rows s ->
  exists s', step s (ORestore k) = Ok s'.
Proof.
  intros G0 R Hk Hr. destruct (run_good1 ops _ _ G0 R) as ((W & Sp) & _).
  simpl. destruct (nth_error (saved s) k) as [d|] eqn:Nk; [|apply nth_error_None in Nk; lia].
  apply restore_total_any; auto. rewrite Forall_forall in Sp. apply Sp. eapply nth_error_In; eauto.
Qed.

(* initial states: every stream the constructors make, one-phase MultiStreams and one-stream from_streams included *)
Lemma from_streams_good1 n mw ss s :
  from_streams n mw ss = Ok s -> Forall (fun x => length (ss_flow x) = n) ss -> good1 s /\ has_rows s.
Proof.
  intros H F. destruct (from_streams_live n mw ss s H F) as (W & _).
  split; [split; [exact W|]|].
  - unfold from_streams in H. destruct ss; [discriminate|]. destruct (negb _); [discriminate|]. inversion H; subst. constructor.
  - unfold from_streams in H. destruct ss as [|y t]; [discriminate|]. destruct (negb _); [discriminate|]. inversion H; subst.
    unfold has_rows. cbn [par]. intros E. unfold pset_card in E. apply length_zero_iff_nil in E.
    match type of E with ?l = [] => assert (X : In (ss_phase y) l) end.
    { apply pset_list_in. unfold rset. simpl. rewrite phase_eqb_refl. reflexivity. }
    rewrite E in X. destruct X.
Qed.

(* ================= (2) what a detached sub-stream aliases ================= *)
(* cells (row objects) the stream's current indexer holds *)
Definition owns (s : st) (c : nat) : Prop :=
  match par s with Single _ c0 => c = c0 | Multi r => exists p, r p = Some c end.
(* every view object points at an existing row object, and one that is no longer in _streams points at a row
   object the stream does NOT hold any more: the row it aliased when it was detached *)
Definition det_inv (s : st) : Prop :=
  forall v, In v (views s) ->
    (vcell v < length (heap s))%nat /\ (vin v = false -> ~ owns s (vcell v)).

Lemma move_rows_length ps src r : forall h h', move_rows ps src h r = Ok h' -> length h' = length h.
Proof.
  induction ps as [|a ps IH]; intros h h' H; simpl in H; [inversion H; reflexivity|].
  destruct (src a) as [c|]; [|apply IH; exact H].
  destruct (any_nz (cellv h c)); [|apply IH; exact H].
  unfold add_into in H. destruct (rlookup r a); [|discriminate]. simpl in H.
  rewrite (IH _ _ H). apply upd_length.
Qed.

(* the representation was rebuilt on fresh cells *)
Lemma det_fresh s s' (f : view -> view) :
  det_inv s -> views s' = map f (views s) ->
  (forall v, vcell (f v) = vcell v \/ (vin (f v) = true /\ (vcell (f v) < length (heap s'))%nat)) ->
  (length (heap s) <= length (heap s'))%nat ->
  (forall c, owns s' c -> (length (heap s) <= c)%nat) ->
  det_inv s'.
Proof.
  intros D Ev Hf Hl Ho w Hw. rewrite Ev in Hw. apply in_map_iff in Hw. destruct Hw as (v & <- & Hv).
  destruct (D v Hv) as [R _]. destruct (Hf v) as [E|[Vin Rn]].
  - rewrite E. split; [lia|]. intros _ O. specialize (Ho _ O). lia.
  - split; [exact Rn|]. intros X. congruence.
Qed.

(* the representation kept its cells *)
Lemma det_same s s' :
  det_inv s ->
  (forall w, In w (views s') -> exists v, In v (views s) /\ vcell w = vcell v /\ vin w = vin v) ->
  length (heap s') = length (heap s) -> (forall c, owns s' c -> owns s c) -> det_inv s'.
Proof.
  intros D Hv Hl Ho w Hw. destruct (Hv w Hw) as (v & Iv & Ec & Ei). destruct (D v Iv) as [R N].
  rewrite Ec, Ei, Hl. split; [exact R|]. intros X O. apply (N X). apply Ho. exact O.
Qed.

Lemma views_id s s' : views s' = views s ->
  forall w, In w (views s') -> exists v, In v (views s) /\ vcell w = vcell v /\ vin w = vin v.
Proof. intros E w Hw. rewrite E in Hw. exists w. auto. Qed.

Lemma views_upd_core s s' i v w0 :
  nth_error (views s) i = Some v -> views s' = upd (views s) i w0 -> vcell w0 = vcell v -> vin w0 = vin v ->
  forall w, In w (views s') -> exists v, In v (views s) /\ vcell w = vcell v /\ vin w = vin v.
Proof.
  intros N E Ec Ei w Hw. rewrite E in Hw. apply in_upd in Hw. destruct Hw as [->|Hw].
  - exists v. split; [eapply nth_error_In; eauto|auto].
  - exists w. auto.
Qed.

Lemma owns_par s s' : par s' = par s -> forall c, owns s' c -> owns s c.
Proof. unfold owns. intros ->. auto. Qed.

Lemma to_single_det s p s' : det_inv s -> to_single s p = Ok s' -> det_inv s'.
Proof.
  unfold to_single. intros D H. destruct (par s) as [p0 c|r] eqn:Ps.
  - inversion H; subst. apply (det_same s); [assumption|apply views_id; reflexivity|reflexivity|].
    unfold owns; simpl. rewrite Ps. auto.
  - destruct (Nat.eqb _ 0); [discriminate|]. inversion H; subst.
    apply (det_fresh s _ uncache); [assumption|reflexivity|intros v; left; reflexivity| |].
    + simpl. rewrite app_length. lia.
    + unfold owns; simpl. intros c ->. lia.
Qed.

Lemma set_phases_det s t bad s' : wf s -> det_inv s -> set_phases s t bad = Ok s' -> det_inv s'.
Proof.
  intros W D H. pose proof (set_phases_conv s t bad s' W H) as (W' & _).
  unfold set_phases in H. destruct (par s) as [p0 c|r0] eqn:Ps.
  - destruct (Nat.eqb _ 1).
    + destruct bad; [discriminate|]. eapply to_single_det; eauto.
    + destruct bad; [discriminate|]. destruct (blank (nch s) t (heap s)) as [h1 r] eqn:B.
      destruct (blank_spec _ _ _ _ _ B) as (_ & _ & Hrange & _).
      destruct (blank_cells _ _ _ _ _ B) as (_ & _ & Clen).
      destruct (any_nz (cellv (heap s) c)).
      * destruct (rlookup r p0); [|discriminate]. inversion H; subst.
        apply (det_fresh s _ uncache); [assumption|reflexivity|intros v; left; reflexivity| |].
        -- simpl. rewrite upd_length. exact Clen.
        -- unfold owns; simpl. intros c0 (p & Hp). apply (Hrange p c0 Hp).
      * inversion H; subst. apply (det_fresh s _ uncache); [assumption|reflexivity|intros v; left; reflexivity|exact Clen|].
        unfold owns; simpl. intros c0 (p & Hp). apply (Hrange p c0 Hp).
  - destruct (Nat.eqb _ 1).
    + destruct bad; [destruct (Nat.eqb _ 0); discriminate|]. eapply to_single_det; eauto.
    + destruct bad; [discriminate|]. destruct (pset_eqb t (rset r0)); [inversion H; subst; exact D|].
      destruct (blank (nch s) t (heap s)) as [h1 r] eqn:B.
      destruct (blank_spec _ _ _ _ _ B) as (_ & _ & Hrange & _).
      destruct (blank_cells _ _ _ _ _ B) as (_ & _ & Clen).
      destruct (move_rows all_phases r0 h1 r) as [h2|e] eqn:M; [|discriminate]. simpl in H. inversion H; subst.
      pose proof (move_rows_length _ _ _ _ _ M) as L2.
      apply (det_fresh s _ (rebind r)); [assumption|reflexivity| | |].
      * intros v. unfold rebind. destruct (vin v); [|left; reflexivity].
        destruct (rlookup r (vlabel v)) as [c|] eqn:Lk; [|left; reflexivity].
        right. simpl. split; [reflexivity|]. destruct (rlookup_some r _ _ Lk) as (q & _ & Rq).
        rewrite L2. apply (Hrange q c Rq).
      * simpl. lia.
      * unfold owns; simpl. intros c0 (p & Hp). apply (Hrange p c0 Hp).
Qed.

Lemma set_phase_det s ls s' : wf s -> det_inv s -> set_phase s ls = Ok s' -> det_inv s'.
Proof.
  unfold set_phase. intros W D H. destruct (par s) as [p0 c|r] eqn:Ps.
  - destruct ls as [|q [|? ?]]; try discriminate. inversion H; subst.
    apply (det_same s); [assumption|apply views_id; reflexivity|reflexivity|]. unfold owns; simpl. rewrite Ps. auto.
  - destruct ls as [|q [|q' l']]; [eapply to_single_det; eauto|eapply to_single_det; eauto|].
    eapply set_phases_det; eauto.
Qed.

Lemma heap_len_det s h :
  det_inv s -> length h = length (heap s) -> det_inv (set_heap s h).
Proof. intros D L. apply (det_same s); [assumption|apply views_id; reflexivity|exact L|apply owns_par; reflexivity]. Qed.

Lemma empty_all_length s : wf s -> length (heap (empty_all s)) = length (heap s).
Proof.
  intros (Hh & _). unfold empty_all. destruct (par s) as [q c|r]; simpl; [apply upd_length|].
  destruct (empty_all_fold_spec (nch s) r all_phases (heap s) Hh) as (A & _). exact A.
Qed.

Lemma copy_rows_length h (r : rmap) d : length (copy_rows h r d) = length h.
Proof.
  unfold copy_rows. generalize all_phases. intros ps. revert h.
  induction ps as [|a ps IH]; intros h; simpl; [reflexivity|].
  destruct (r a); [destruct (d a)|]; rewrite IH; try reflexivity. apply upd_length.
Qed.

Lemma step_det s o s' : wf s -> det_inv s -> step s o = Ok s' -> det_inv s'.
Proof.
  intros W D H. destruct o; simpl in H.
  - eapply set_phases_det; eauto.
  - eapply set_phase_det; eauto.
  - unfold reduce_phases in H. destruct (par s); [inversion H; subst; exact D|]. eapply set_phase_det; eauto.
  - unfold as_stream in H. destruct (par s) as [|r]; [inversion H; subst; exact D|].
    destruct (phase_string (heap s) r) as [|q [|q' l']]; [|eapply set_phase_det; eauto|discriminate].
    destruct (pset_list (rset r)); [discriminate|]. eapply set_phase_det; eauto.
  - unfold accessor in H. destruct (acc_pair a) as [x y]. destruct (par s) as [p c|r] eqn:Ps.
    + eapply set_phases_det; [eapply relabel_wf; eauto| |exact H].
      apply (det_same s); [assumption|apply views_id; reflexivity|reflexivity|]. unfold owns; simpl. rewrite Ps. auto.
    + destruct (rset r x && rset r y); [inversion H; subst; exact D|]. eapply set_phases_det; eauto.
  - unfold get_view in H. destruct (par s) as [p c|r] eqn:Ps.
    + destruct (lower_eqb l p); [|discriminate]. inversion H; subst.
      apply (det_same s); [assumption|apply views_id; reflexivity|reflexivity|apply owns_par; reflexivity].
    + destruct (find_cached (views s) l 0).
      * inversion H; subst. apply (det_same s); [assumption|apply views_id; reflexivity|reflexivity|apply owns_par; reflexivity].
      * destruct (rlookup r l) as [c|] eqn:Lk; [|discriminate]. inversion H; subst.
        intros w Hw. simpl in Hw. apply in_app_or in Hw. destruct Hw as [Hw|[<-|[]]].
        -- destruct (D w Hw) as [R N]. split; [exact R|]. intros X O. apply (N X).
           unfold owns in *. simpl in O. exact O.
        -- simpl. split; [|discriminate]. destruct (rlookup_some r l c Lk) as (q & _ & Rq).
           destruct W as (_ & Hp & _). rewrite Ps in Hp. destruct Hp as [Hr _]. eapply Hr; eauto.
  - unfold write_view in H. destruct (nth_error (views s) i); [|discriminate]. inversion H; subst.
    apply heap_len_det; auto. apply write_cell_length.
  - unfold write_parent in H. destruct (par s) as [p c|r].
    + inversion H; subst. apply heap_len_det; auto. apply write_cell_length.
    + destruct (rlookup r l); [|discriminate]. inversion H; subst. apply heap_len_det; auto. apply write_cell_length.
  - inversion H; subst. apply (det_same s); [assumption|apply views_id; reflexivity|reflexivity|apply owns_par; reflexivity].
  - inversion H; subst. apply (det_same s); [assumption|apply views_id; reflexivity|reflexivity|apply owns_par; reflexivity].
  - destruct (nth_error (views s) i); [|discriminate]. inversion H; subst.
    apply (det_same s); [assumption|apply views_id; reflexivity|reflexivity|apply owns_par; reflexivity].
  - destruct (nth_error (views s) i); [|discriminate]. inversion H; subst.
    apply (det_same s); [assumption|apply views_id; reflexivity|reflexivity|apply owns_par; reflexivity].
  - destruct (nth_error (views s) i) as [v|] eqn:N; [|discriminate]. destruct (vlocked v).
    + destruct (phase_eqb (vphase v) l); [|discriminate]. inversion H; subst. exact D.
    + inversion H; subst. apply (det_same s); [assumption| |reflexivity|apply owns_par; reflexivity].
      eapply (views_upd_core s _ i v); [exact N|reflexivity|reflexivity|reflexivity].
  - unfold view_mass_touch in H. destruct (nth_error (views s) i) as [v|] eqn:N; [|discriminate]. inversion H; subst.
    apply (det_same s); [assumption| |reflexivity|apply owns_par; reflexivity]. eapply (views_upd_core s _ i v); [exact N|reflexivity|reflexivity|reflexivity].
  - unfold view_mass_write in H. destruct (nth_error (views s) i) as [v|] eqn:N; [|discriminate]. inversion H; subst.
    apply (det_same s); [assumption| |simpl; apply write_cell_length|apply owns_par; reflexivity].
    eapply (views_upd_core s _ i v); [exact N|reflexivity|reflexivity|reflexivity].
  - inversion H; subst. apply (det_same s); [assumption|apply views_id; reflexivity|reflexivity|apply owns_par; reflexivity].
  - destruct (nth_error (saved s) k) as [d|]; [|discriminate]. unfold restore in H.
    destruct (empty_all_spec s W) as (W0 & _ & P0 & V0 & _).
    assert (D0 : det_inv (empty_all s)).
    { apply (det_same s); [assumption|apply views_id; exact V0|apply empty_all_length; exact W|apply owns_par; exact P0]. }
    destruct (set_phases (empty_all s) (fun p => isSome (sd_rows d p)) false) as [s1|e] eqn:S1; [|discriminate].
    simpl in H. pose proof (set_phases_det _ _ _ _ W0 D0 S1) as D1.
    destruct (par s1) as [p c|r] eqn:P1.
    + destruct (match sd_single d with Some q => Some q | None => hd_error (pset_list (fun p0 => isSome (sd_rows d p0))) end) as [q|]; [|discriminate].
      destruct (sd_rows d q); [|discriminate]. simpl in H. inversion H; subst.
      apply (det_same s1); [assumption|apply views_id; reflexivity|simpl; apply upd_length|].
      unfold owns; simpl. rewrite P1. auto.
    + destruct (sd_single d); [discriminate|]. simpl in H. inversion H; subst.
      apply (det_same s1); [assumption|apply views_id; reflexivity|simpl; apply copy_rows_length|apply owns_par; reflexivity].
Qed.

Lemma run_det ops : forall s s', good1 s -> det_inv s -> run s ops = Ok s' -> det_inv s'.
Proof.
  induction ops as [|o ops IH]; intros s s' G D H; simpl in H.
  - inversion H; subst; exact D.
  - destruct (step s o) as [s1|e] eqn:S1; [|discriminate]. simpl in H.
    destruct (step_good1 s o s1 G S1) as (G1 & _).
    eapply IH; [exact G1|eapply step_det; [apply G|exact D|exact S1]|exact H].
Qed.

Lemma flow_unowned s h :
  (forall c, owns s c -> cellv h c = cellv (heap s) c) -> forall p, flow (set_heap s h) p = flow s p.
Proof.
  intros E p. unfold flow, owns in *. simpl. destruct (par s) as [q c|r].
  - destruct (phase_eqb p q); [apply E; reflexivity|reflexivity].
  - destruct (r p) as [c|] eqn:Rp; [apply E; exists p; exact Rp|reflexivity].
Qed.

(* a write through a detached sub-stream changes nothing in the stream *)
Lemma detached_write_isolated s i j x s' v :
  det_inv s -> nth_error (views s) i = Some v -> vin v = false ->
  step s (OWriteView i j x) = Ok s' -> forall p, flow s' p = flow s p.
Proof.
  intros D N Hin H. simpl in H. unfold write_view in H. rewrite N in H. inversion H; subst s'.
  destruct (D v (nth_error_In _ _ N)) as [_ NO]. apply flow_unowned. intros c O.
  unfold write_cell. apply cellv_upd_other. intros E. apply (NO Hin). rewrite E. exact O.
Qed.

(* ... and a write through the stream changes nothing a detached sub-stream reads *)
Lemma detached_unaffected_by_parent_write s l j x s' v :
  det_inv s -> In v (views s) -> vin v = false ->
  step s (OWriteParent l j x) = Ok s' -> cellv (heap s') (vcell v) = cellv (heap s) (vcell v).
Proof.
  intros D Iv Hin H. destruct (D v Iv) as [_ NO]. specialize (NO Hin).
  simpl in H. unfold write_parent in H. unfold owns in NO. destruct (par s) as [q c|r] eqn:Ps.
  - inversion H; subst s'. simpl. unfold write_cell. apply cellv_upd_other. intros E. apply NO. symmetry. exact E.
  - destruct (rlookup r l) as [c|] eqn:Lk; [|discriminate]. inversion H; subst s'. simpl.
    unfold write_cell. apply cellv_upd_other. intros E. apply NO.
    destruct (rlookup_some r l _ Lk) as (q & _ & Rq). exists q. rewrite <- E. exact Rq.
Qed.

(* the collapse to a single phase: a cached sub-stream keeps the row object of the DISCARDED indexer, which
   still holds its phase's flows as they were; the new single-phase data is another object *)
Lemma collapse_keeps_row s p s' :
  wf s -> live_inv s -> is_multi s = true -> to_single s p = Ok s' ->
  is_multi s' = false /\
  forall i v, nth_error (views s) i = Some v -> vin v = true ->
    exists q, resolve (pset_now s) (vlabel v) = Some q /\
      nth_error (views s') i = Some (uncache v) /\
      cellv (heap s') (vcell v) = flow s q /\ ~ owns s' (vcell v).
Proof.
  intros W L Im H. unfold to_single in H. unfold is_multi in Im.
  destruct (par s) as [|r] eqn:Ps; [discriminate|].
  destruct (Nat.eqb _ 0); [discriminate|]. inversion H; subst s'. clear H.
  split; [reflexivity|]. intros i v N Hin.
  destruct (view_reads_parent s i v L N Hin) as (r' & q & Ps' & Rq & Rc & Ec & _).
  rewrite Ps in Ps'. inversion Ps'; subst r'.
  destruct W as (_ & Hp & _). rewrite Ps in Hp. destruct Hp as [Hr _].
  assert (Lc : (vcell v < length (heap s))%nat) by (eapply Hr; eauto).
  exists q. split; [unfold pset_now; rewrite Ps; exact Rq|]. split; [|split].
  - simpl. apply map_nth_error. exact N.
  - simpl. rewrite cellv_app_l by exact Lc. exact Ec.
  - unfold owns; simpl. lia.
Qed.

(* ================= nothing but a write through a view changes what a detached sub-stream reads ================= *)
Lemma move_rows_old_cells L0 (src r : rmap) : forall ps h h',
  (forall p c, r p = Some c -> (L0 <= c)%nat) -> move_rows ps src h r = Ok h' ->
  forall c, (c < L0)%nat -> cellv h' c = cellv h c.
Proof.
  induction ps as [|a ps IH]; intros h h' Hn H c Hc; simpl in H; [inversion H; reflexivity|].
  destruct (src a) as [c0|]; [|eapply IH; eauto].
  destruct (any_nz (cellv h c0)); [|eapply IH; eauto].
  unfold add_into in H. destruct (rlookup r a) as [c'|] eqn:Lk; [|discriminate]. simpl in H.
  rewrite (IH _ _ Hn H c Hc). apply cellv_upd_other.
  destruct (rlookup_some r a c' Lk) as (q & _ & Rq). specialize (Hn q c' Rq). lia.
Qed.

Lemma to_single_old_cells s p s' : to_single s p = Ok s' ->
  forall c, (c < length (heap s))%nat -> cellv (heap s') c = cellv (heap s) c.
Proof.
  unfold to_single. intros H c Hc. destruct (par s).
  - inversion H; subst. reflexivity.
  - destruct (Nat.eqb _ 0); [discriminate|]. inversion H; subst. simpl. apply cellv_app_l. exact Hc.
Qed.

(* conversions write fresh row objects only *)
Lemma set_phases_old_cells s t bad s' : set_phases s t bad = Ok s' ->
  forall c, (c < length (heap s))%nat -> cellv (heap s') c = cellv (heap s) c.
Proof.
  unfold set_phases. intros H c Hc. destruct (par s) as [p0 c0|r0].
  - destruct (Nat.eqb _ 1).
    + destruct bad; [discriminate|]. eapply to_single_old_cells; eauto.
    + destruct bad; [discriminate|]. destruct (blank (nch s) t (heap s)) as [h1 r] eqn:B.
      destruct (blank_spec _ _ _ _ _ B) as (_ & _ & Hrange & _).
      destruct (blank_cells _ _ _ _ _ B) as (Cold & _ & _).
      destruct (any_nz (cellv (heap s) c0)).
      * destruct (rlookup r p0) as [c'|] eqn:Lk; [|discriminate]. inversion H; subst. simpl.
        destruct (rlookup_some r p0 c' Lk) as (q & _ & Rq). pose proof (Hrange q c' Rq).
        rewrite cellv_upd_other by lia. apply Cold. exact Hc.
      * inversion H; subst. simpl. apply Cold. exact Hc.
  - destruct (Nat.eqb _ 1).
    + destruct bad; [destruct (Nat.eqb _ 0); discriminate|]. eapply to_single_old_cells; eauto.
    + destruct bad; [discriminate|]. destruct (pset_eqb t (rset r0)); [inversion H; subst; reflexivity|].
      destruct (blank (nch s) t (heap s)) as [h1 r] eqn:B.
      destruct (blank_spec _ _ _ _ _ B) as (_ & _ & Hrange & _).
      destruct (blank_cells _ _ _ _ _ B) as (Cold & _ & _).
      destruct (move_rows all_phases r0 h1 r) as [h2|e] eqn:M; [|discriminate]. simpl in H. inversion H; subst. simpl.
      rewrite (move_rows_old_cells (length (heap s)) r0 r all_phases h1 h2); [apply Cold; exact Hc| |exact M|exact Hc].
      intros p c1 Hp. apply (Hrange p c1 Hp).
Qed.

Lemma set_phase_old_cells s ls s' : set_phase s ls = Ok s' ->
  forall c, (c < length (heap s))%nat -> cellv (heap s') c = cellv (heap s) c.
Proof.
  unfold set_phase. intros H c Hc. destruct (par s) as [p0 c0|r].
  - destruct ls as [|q [|? ?]]; try discriminate. inversion H; subst. reflexivity.
  - destruct ls as [|q [|q' l']]; [eapply to_single_old_cells; eauto|eapply to_single_old_cells; eauto|].
    eapply set_phases_old_cells; eauto.
Qed.

Definition view_write (o : op) : bool :=
  match o with OWriteView _ _ _ | OViewMassWrite _ _ _ | ORestore _ => true | _ => false end.

(* every operation other than a write through a view (and set_data) leaves every existing row object that the
   stream does not hold exactly as it was: a detached sub-stream keeps reading its frozen row *)
Lemma frozen_step s o s' :
  view_write o = false -> step s o = Ok s' ->
  forall c, (c < length (heap s))%nat -> ~ owns s c -> cellv (heap s') c = cellv (heap s) c.
Proof.
  intros NW H c Hc NO. destruct o; simpl in NW; try discriminate; simpl in H.
  - eapply set_phases_old_cells; eauto.
  - eapply set_phase_old_cells; eauto.
  - unfold reduce_phases in H. destruct (par s); [inversion H; subst; reflexivity|]. eapply set_phase_old_cells; eauto.
  - unfold as_stream in H. destruct (par s) as [|r]; [inversion H; subst; reflexivity|].
    destruct (phase_string (heap s) r) as [|q [|q' l']]; [|eapply set_phase_old_cells; eauto|discriminate].
    destruct (pset_list (rset r)); [discriminate|]. eapply set_phase_old_cells; eauto.
  - unfold accessor in H. destruct (acc_pair a) as [x y]. destruct (par s) as [p c0|r].
    + apply (set_phases_old_cells _ _ _ _ H c Hc).
    + destruct (rset r x && rset r y); [inversion H; subst; reflexivity|]. eapply set_phases_old_cells; eauto.
  - unfold get_view in H. destruct (par s) as [p c0|r].
    + destruct (lower_eqb l p); [|discriminate]. inversion H; subst. reflexivity.
    + destruct (find_cached (views s) l 0); [inversion H; subst; reflexivity|].
      destruct (rlookup r l); [|discriminate]. inversion H; subst. reflexivity.
  - unfold write_parent in H. unfold owns in NO. destruct (par s) as [q c0|r].
    + inversion H; subst. simpl. unfold write_cell. apply cellv_upd_other. intros E. apply NO. symmetry. exact E.
    + destruct (rlookup r l) as [c0|] eqn:Lk; [|discriminate]. inversion H; subst. simpl.
      unfold write_cell. apply cellv_upd_other. intros E. apply NO.
      destruct (rlookup_some r l _ Lk) as (q & _ & Rq). exists q. rewrite <- E. exact Rq.
  - inversion H; subst. reflexivity.
  - inversion H; subst. reflexivity.
  - destruct (nth_error (views s) i); [|discriminate]. inversion H; subst. reflexivity.
  - destruct (nth_error (views s) i); [|discriminate]. inversion H; subst. reflexivity.
  - destruct (nth_error (views s) i) as [v|]; [|discriminate]. destruct (vlocked v).
    + destruct (phase_eqb (vphase v) l); [|discriminate]. inversion H; subst. reflexivity.
    + inversion H; subst. reflexivity.
  - unfold view_mass_touch in H. destruct (nth_error (views s) i); [|discriminate]. inversion H; subst. reflexivity.
  - inversion H; subst. reflexivity.
Qed.
