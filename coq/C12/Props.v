(* C12 — property theorems only.  Each is closed by [exact <lemma>] and followed by Print Assumptions.
   Vocabulary (Model.v / Proofs.v):
     step s o = Ok s'   one operation on the stream state returned normally
     conversion o       o is phases=, phase=, reduce_phases, as_stream, .vle/.lle/.sle, s[phase] or get_data
     flow s p           dense flow vector of phase p (zeros when the stream has no such phase)
     fl s p j           chemical j of it;  total s j = sum over the five phases
     pset_now s         the set of phase labels the stream has now
     covers s t         every non-empty phase of s has its label, or the other case of it, in t
     placed s s'        material of phase p of s is found in s' under p if s' has p, else under the other case
     live_inv s         every cached sub-stream aliases the parent's CURRENT row of its label and every
                        sub-stream ever made holds the parent's thermal-condition object
     good s             well-formed heap/rows/snapshots; MultiStreams never have exactly one phase
     has_rows s         a MultiStream has at least one phase (phases = () on an empty stream gives none) *)
From V Require Import Common.NumFacts C12.Model C12.Proofs C12.ProofsDeep.

(* ---- totals, T, P ---- *)
(* every conversion, the relabelling Stream accessors included *)
Theorem C12_totals_preserved : forall s o s',
  wf s -> conversion o = true -> step s o = Ok s' -> forall j, total s' j == total s j.
Proof. intros s o s' W C H. exact (proj2 (proj2 (proj2 (step_conv0 s o s' C W H)))). Qed.
Print Assumptions C12_totals_preserved.

Theorem C12_TP_preserved : forall s o s',
  wf s -> conversion o = true -> step s o = Ok s' -> T_of s' = T_of s /\ P_of s' = P_of s.
Proof. intros s o s' W C H. exact (proj1 (proj2 (proj2 (step_conv0 s o s' C W H)))). Qed.
Print Assumptions C12_TP_preserved.

(* ... along every history of conversions, of any length *)
Theorem C12_totals_TP_all_histories : forall ops s s',
  good s -> Forall (fun o => conversion o = true) ops -> run s ops = Ok s' ->
  (forall j, total s' j == total s j) /\ T_of s' = T_of s /\ P_of s' = P_of s.
Proof. exact run_conversions. Qed.
Print Assumptions C12_totals_TP_all_histories.

(* ---- placement ---- *)
(* [norelabel s o]: o is not .vle/.lle/.sle of a single-phase Stream whose label the accessor rewrites to
   'l' (see the refuted clause below); true of every other conversion *)
Theorem C12_placement : forall s o s',
  wf s -> conversion o = true -> norelabel s o -> step s o = Ok s' -> covers s (pset_now s') ->
  forall q j, fl s' q j ==
    psum all_phases (fun p => if lands (pset_now s') p q then fl s p j else 0).
Proof. intros s o s' W C NR H. exact (proj2 (proj2 (proj2 (proj2 (step_conv s o s' C NR W H))))). Qed.
Print Assumptions C12_placement.

(* phases = <two or more distinct labels>: if it returns, the stream has exactly those phases, every
   non-empty phase was covered by them (otherwise it raises) and the material is placed by the rule *)
Theorem C12_explicit_target : forall s t s',
  wf s -> set_phases s t false = Ok s' -> pset_card t <> 1%nat ->
  wf s' /\ frame s s' /\ (forall p, pset_now s' p = t p) /\ covers s t /\ placed s s'.
Proof. exact set_phases_multi_target. Qed.
Print Assumptions C12_explicit_target.

(* "merely asking for an equilibrium solver object keeps each phase's material in that phase":
   the full clause, for every stream and every accessor *)
Definition C12_accessor_moves_nothing_statement : Prop := forall s a s',
  wf s -> step s (OAcc a) = Ok s' ->
  covers s (pset_now s') /\ (forall q j, fl s' q j == fl s q j) /\
  (forall p, pset_now s p = true -> pset_now s' p = true).

(* REFUTED by the code as it is: Stream.vle of a solid stream rewrites 's' to 'l' (known finding
   C12:vle-relabels-solid; .lle and .sle relabel likewise, props/C12.py WITNESSES) *)
Definition ex_solid : st := init_single 3 [16; 32; 8] Ps [1; 0; 2] 300 101325.
Theorem C12_accessor_moves_nothing_refuted : ~ C12_accessor_moves_nothing_statement.
Proof.
  intros H.
  assert (E : exists s', step ex_solid (OAcc AVle) = Ok s' /\ fl s' Ps 0 == 0).
  { eexists. split; [vm_compute; reflexivity|vm_compute; reflexivity]. }
  destruct E as (s' & E & Z).
  assert (W : wf ex_solid) by (apply (init_single_good 3 [16; 32; 8] Ps [1; 0; 2] 300 101325 eq_refl)).
  destruct (H ex_solid AVle s' W E) as (_ & K & _).
  specialize (K Ps 0%nat). rewrite Z in K. vm_compute in K. discriminate.
Qed.
Print Assumptions C12_accessor_moves_nothing_refuted.

(* what does hold: the clause for every MultiStream, and for a Stream whose phase already is one of the
   two phases of the equilibrium *)
Theorem C12_accessor_moves_nothing_partial : forall s a s',
  wf s -> step s (OAcc a) = Ok s' -> acc_in_pair s a ->
  covers s (pset_now s') /\ (forall q j, fl s' q j == fl s q j) /\
  (forall p, pset_now s p = true -> pset_now s' p = true).
Proof. exact accessor_keeps. Qed.
Print Assumptions C12_accessor_moves_nothing_partial.

(* ... and placement by the case rule whenever the accessor does not rewrite the label (e.g. 'L'.vle) *)
Theorem C12_accessor_placement_partial : forall s a s',
  wf s -> norelabel s (OAcc a) -> step s (OAcc a) = Ok s' -> covers s (pset_now s') /\ placed s s'.
Proof. exact accessor_placement_partial. Qed.
Print Assumptions C12_accessor_placement_partial.

(* the other relabelling call sites and the raise, as the model (= the code) has them *)
Example C12_ex_sle_S_into_l :
  match step (init_single 3 [16; 32; 8] PS [1; 0; 2] 300 101325) (OAcc ASle) with
  | Ok s => phases_of s = [Pl; Ps] /\ flow s Pl = [1; 0; 2] /\ flow s Ps = [0; 0; 0]
  | Err _ => False
  end.
Proof. vm_compute. repeat split; reflexivity. Qed.
Example C12_ex_lle_gas_into_l :
  match step (init_single 3 [16; 32; 8] Pg [1; 0; 2] 300 101325) (OAcc ALle) with
  | Ok s => phases_of s = [PL; Pl] /\ flow s Pl = [1; 0; 2]
  | Err _ => False
  end.
Proof. vm_compute. repeat split; reflexivity. Qed.
Example C12_ex_vle_S_raises :
  step (init_single 3 [16; 32; 8] PS [1; 0; 2] 300 101325) (OAcc AVle) = Err EUndefPhase.
Proof. vm_compute. reflexivity. Qed.

(* ---- live views ---- *)
Theorem C12_views_live : forall ops s s', live_inv s -> run s ops = Ok s' -> live_inv s'.
Proof. exact run_live. Qed.
Print Assumptions C12_views_live.

Theorem C12_view_reads_parent : forall s i v,
  live_inv s -> nth_error (views s) i = Some v -> vin v = true ->
  exists r q, par s = Multi r /\ resolve (rset r) (vlabel v) = Some q /\ r q = Some (vcell v) /\
              cellv (heap s) (vcell v) = flow s q /\ tc_get (tcs s) (vtc v) = (T_of s, P_of s).
Proof. exact view_reads_parent. Qed.
Print Assumptions C12_view_reads_parent.

Theorem C12_write_through_view : forall s i j x s' v,
  wf s -> live_inv s -> nth_error (views s) i = Some v -> vin v = true ->
  step s (OWriteView i j x) = Ok s' ->
  exists q, resolve (pset_now s) (vlabel v) = Some q /\
    flow s' q = upd (flow s q) j x /\ (forall p, p <> q -> flow s' p = flow s p) /\ live_inv s'.
Proof. exact write_view_visible. Qed.
Print Assumptions C12_write_through_view.

Theorem C12_write_through_parent : forall s l j x s',
  live_inv s -> step s (OWriteParent l j x) = Ok s' -> is_multi s = true ->
  exists q, resolve (pset_now s) l = Some q /\ flow s' q = upd (flow s q) j x /\
    forall v, In v (views s') -> vin v = true -> resolve (pset_now s') (vlabel v) = Some q ->
              cellv (heap s') (vcell v) = flow s' q.
Proof. exact write_parent_visible. Qed.
Print Assumptions C12_write_through_parent.

(* the views are live on the mass basis too: the mass indexer cached inside a view wraps the row the view
   reads now, along every history *)
Theorem C12_views_live_mass : forall ops s s', mass_inv s -> run s ops = Ok s' -> mass_inv s'.
Proof. exact run_mass. Qed.
Print Assumptions C12_views_live_mass.

Theorem C12_view_mass_reads_parent : forall s i v c,
  live_inv s -> mass_inv s -> nth_error (views s) i = Some v -> vin v = true -> vmass v = Some c ->
  exists q, resolve (pset_now s) (vlabel v) = Some q /\
            vmul (cellv (heap s) c) (mws s) = vmul (flow s q) (mws s).
Proof. exact view_mass_reads. Qed.
Print Assumptions C12_view_mass_reads_parent.

Theorem C12_mass_write_through_view : forall s i j x s' v,
  wf s -> live_inv s -> mass_inv s -> nth_error (views s) i = Some v -> vin v = true ->
  step s (OViewMassWrite i j x) = Ok s' ->
  exists q, resolve (pset_now s) (vlabel v) = Some q /\
    flow s' q = upd (flow s q) j (x / nthq (mws s) j) /\ (forall p, p <> q -> flow s' p = flow s p) /\
    live_inv s' /\ mass_inv s'.
Proof. exact view_mass_write_visible. Qed.
Print Assumptions C12_mass_write_through_view.

(* MultiStream.from_streams: the streams handed in ARE live sub-streams from the start (rows aliased, one
   shared thermal-condition object, caches consistent), so every history theorem above applies to them *)
Theorem C12_from_streams_views_live : forall n mw ss s,
  from_streams n mw ss = Ok s -> Forall (fun x => length (ss_flow x) = n) ss ->
  wf s /\ live_inv s /\ mass_inv s /\ (proper_state s -> good s).
Proof. exact from_streams_live. Qed.
Print Assumptions C12_from_streams_views_live.

(* a sub-stream stays the parent's cached (hence live) sub-stream across EVERY operation unless the stream
   collapsed to a single phase or no longer has a row for its label *)
Theorem C12_view_stays_cached : forall s o s' i v,
  live_inv s -> step s o = Ok s' -> nth_error (views s) i = Some v -> vin v = true ->
  exists v', nth_error (views s') i = Some v' /\ vlabel v' = vlabel v /\
    (vin v' = true \/ is_multi s' = false \/ resolve (pset_now s') (vlabel v) = None).
Proof. intros s o s' i v L H. exact (step_stays s o s' L H i v). Qed.
Print Assumptions C12_view_stays_cached.

(* ---- get_data / set_data ---- *)
Theorem C12_data_roundtrip : forall s0 ops s s',
  good s0 ->
  run (set_saved s0 (saved s0 ++ [snapshot s0])) ops = Ok s ->
  step s (ORestore (length (saved s0))) = Ok s' ->
  is_multi s' = is_multi s0 /\ (forall p, pset_now s' p = pset_now s0 p) /\
  (forall p, flow s' p = flow s0 p) /\ T_of s' = T_of s0 /\ P_of s' = P_of s0.
Proof. exact data_roundtrip_lemma. Qed.
Print Assumptions C12_data_roundtrip.

Theorem C12_histories_stay_good : forall ops s s',
  good s -> run s ops = Ok s' -> good s' /\ nch s' = nch s /\ exists l, saved s' = saved s ++ l.
Proof. exact run_good. Qed.
Print Assumptions C12_histories_stay_good.

(* ---- inside the property's quantifier nothing raises ---- *)
(* phases = t for ANY target that covers the non-empty phases (up to case) returns *)
Theorem C12_covered_target_never_raises : forall s t,
  wf s -> has_rows s -> covers s t -> exists s', set_phases s t false = Ok s'.
Proof. exact set_phases_total. Qed.
Print Assumptions C12_covered_target_never_raises.

(* set_data of ANY earlier snapshot returns, whatever the stream holds now *)
Theorem C12_restore_never_raises : forall s d,
  good s -> In d (saved s) -> has_rows s -> exists s', restore s d = Ok s'.
Proof. exact restore_total. Qed.
Print Assumptions C12_restore_never_raises.

(* ---- non-vacuity: the hypotheses are met by reachable states, and the histories do return ---- *)
Definition ex0 : st := init_single 3 [16; 32; 8] Pl [1; 0; 2] 300 101325.
Example C12_ex_good : good ex0 /\ live_inv ex0.
Proof. apply init_single_good. reflexivity. Qed.

(* a liquid stream: .vle, take the view of 'l', change the phases, write through the OLD view, save,
   mutate, collapse, restore: everything returns *)
Definition ex_ops : list op :=
  [OAcc AVle; OView Pl; OSetPhases [PS; Pg; Pl; PL] false; OWriteView 0 1 (7#2); OSave;
   OWriteParent Pg 0 5; OSetT 400; OReduce; ORestore 0].
Example C12_ex_history_returns :
  match run ex0 ex_ops with
  | Ok s => phases_of s = [PL; PS; Pg; Pl] /\ flow s Pl = [1; 7#2; 2] /\ T_of s = 300 /\
            total s 0%nat == 1 /\ is_multi s = true
  | Err _ => False
  end.
Proof. vm_compute. repeat split; reflexivity. Qed.

(* the view taken before the phase change still is the parent's sub-stream and sees the parent's row *)
Example C12_ex_view_live :
  match run ex0 [OAcc AVle; OView Pl; OSetPhases [PS; Pg; Pl; PL] false; OWriteParent Pl 2 9] with
  | Ok s => map (fun v => (vin v, cellv (heap s) (vcell v))) (views s) = [(true, [1; 0; 9])] /\ flow s Pl = [1; 0; 9]
  | Err _ => False
  end.
Proof. vm_compute. split; reflexivity. Qed.

(* mass cache filled BEFORE the phase change, mass-basis write through the old view AFTER it *)
Example C12_ex_view_live_mass :
  mass_inv ex0 /\
  match run ex0 [OAcc AVle; OView Pl; OViewMassTouch 0; OSetPhases [Ps; Pg; Pl] false; OViewMassWrite 0 1 64] with
  | Ok s => nthq (flow s Pl) 1 == 2 /\ phases_of s = [Pg; Pl; Ps] /\
            map vmass (views s) = map (fun v => Some (vcell v)) (views s) /\ length (views s) = 1%nat
  | Err _ => False
  end.
Proof. split; [intros v []|vm_compute; repeat split; reflexivity]. Qed.

(* three streams with their own T, P put together; T written through the parent, P through the last one *)
Example C12_ex_from_streams :
  match from_streams 3 [16; 32; 8]
          [mkss Pl [2; 0; 0] 300 101325 true; mkss Pg [0; 1; 0] 360 200000 false; mkss PL [0; 0; 1] 280 3 false] with
  | Ok s0 => proper_state s0 /\
      match run s0 [OSetT 321; OViewSetP 2 5; OSetPhases [Pl; Pg; PL; Ps] false; OViewSetT 1 77; OWriteView 1 0 4] with
      | Ok s => map (fun v => tc_get (tcs s) (vtc v)) (views s) = [(77, 5); (77, 5); (77, 5)] /\
                T_of s = 77 /\ P_of s = 5 /\ flow s Pg = [4; 1; 0] /\ map vin (views s) = [true; true; true]
      | Err _ => False
      end
  | Err _ => False
  end.
Proof. vm_compute. repeat split; try reflexivity; discriminate. Qed.

Example C12_ex_covers : covers ex0 (pset_of [PL; Pg]) /\ ~ covers ex0 (pset_of [Pg; Ps]).
Proof.
  split.
  - intros p j R. destruct p; try (vm_compute in R; discriminate); exact (nthq_vzero 3 j).
  - intros H. specialize (H Pl 0%nat eq_refl). vm_compute in H. discriminate.
Qed.

(* ================= deepening round ================= *)
(* [good1 s]: well-formed state whose snapshots have the get_data shape; NO restriction on the number of phases of
   a MultiStream (one-phase MultiStreams and MultiStream.from_streams of one stream included) *)

(* set_data of any get_data snapshot is exact; the class comes back unless the snapshot is of a one-phase
   MultiStream, which returns as a Stream of that phase *)
Theorem C12_restore_exact_any : forall s d s',
  wf s -> sdwf (nch s) d -> sd_ok d -> restore s d = Ok s' ->
  wf s' /\ nch s' = nch s /\ saved s' = saved s /\
  T_of s' = sd_T d /\ P_of s' = sd_P d /\
  is_multi s' = negb (isSome (sd_single d)) && negb (Nat.eqb (pset_card (sd_t d)) 1) /\
  (forall p, pset_now s' p = isSome (sd_rows d p)) /\
  (forall p, flow s' p = match sd_rows d p with Some v => v | None => vzero (nch s) end).
Proof. exact restore_exact_any. Qed.
Print Assumptions C12_restore_exact_any.

Theorem C12_data_roundtrip_any : forall s0 ops s s',
  good1 s0 ->
  run (set_saved s0 (saved s0 ++ [snapshot s0])) ops = Ok s ->
  step s (ORestore (length (saved s0))) = Ok s' ->
  (forall p, pset_now s' p = pset_now s0 p) /\ (forall p, flow s' p = flow s0 p) /\
  T_of s' = T_of s0 /\ P_of s' = P_of s0 /\
  is_multi s' = is_multi s0 && negb (Nat.eqb (pset_card (pset_now s0)) 1).
Proof. exact data_roundtrip_any. Qed.
Print Assumptions C12_data_roundtrip_any.

Theorem C12_restore_never_raises_any : forall s0 ops s k,
  good1 s0 -> run s0 ops = Ok s -> (k < length (saved s))%nat -> has_rows s ->
  exists s', step s (ORestore k) = Ok s'.
Proof. exact restore_never_raises_any. Qed.
Print Assumptions C12_restore_never_raises_any.

Theorem C12_from_streams_any_count : forall n mw ss s,
  from_streams n mw ss = Ok s -> Forall (fun x => length (ss_flow x) = n) ss -> good1 s /\ has_rows s.
Proof. exact from_streams_good1. Qed.
Print Assumptions C12_from_streams_any_count.

(* a one-stream from_streams result (a one-phase MultiStream): saved, mutated into three phases, restored *)
Example C12_ex_onephase_roundtrip :
  match from_streams 3 [16; 32; 8] [mkss Ps [1; 0; 2] 300 101325 false] with
  | Ok s0 => pset_card (pset_now s0) = 1%nat /\ is_multi s0 = true /\
      match run s0 [OSave; OSetPhases [Ps; Pg; Pl] false; OWriteParent Pg 1 5; OSetT 400; ORestore 0] with
      | Ok s => is_multi s = false /\ phases_of s = [Ps] /\ flow s Ps = [1; 0; 2] /\ T_of s = 300
      | Err _ => False
      end
  | Err _ => False
  end.
Proof. vm_compute. repeat split; reflexivity. Qed.

(* detached sub-streams: along EVERY history, a view object that is no longer in _streams points at an existing
   row object that the stream does not hold any more *)
Theorem C12_detached_views_alias_discarded_rows : forall ops s s',
  good1 s -> det_inv s -> run s ops = Ok s' -> det_inv s'.
Proof. exact run_det. Qed.
Print Assumptions C12_detached_views_alias_discarded_rows.

(* at the collapse to one phase a cached sub-stream keeps the row object of the discarded indexer, still holding
   its phase's flows as they were; the new single-phase data is a different object *)
Theorem C12_collapse_keeps_row : forall s p s',
  wf s -> live_inv s -> is_multi s = true -> to_single s p = Ok s' ->
  is_multi s' = false /\
  forall i v, nth_error (views s) i = Some v -> vin v = true ->
    exists q, resolve (pset_now s) (vlabel v) = Some q /\
      nth_error (views s') i = Some (uncache v) /\
      cellv (heap s') (vcell v) = flow s q /\ ~ owns s' (vcell v).
Proof. exact collapse_keeps_row. Qed.
Print Assumptions C12_collapse_keeps_row.

(* consequently writes through a detached sub-stream never reach the stream, and writes through the stream never
   reach a detached sub-stream: it is an independent frozen copy, not a stale alias of live data *)
Theorem C12_detached_write_isolated : forall s i j x s' v,
  det_inv s -> nth_error (views s) i = Some v -> vin v = false ->
  step s (OWriteView i j x) = Ok s' -> forall p, flow s' p = flow s p.
Proof. exact detached_write_isolated. Qed.
Print Assumptions C12_detached_write_isolated.

Theorem C12_detached_unaffected_by_parent_write : forall s l j x s' v,
  det_inv s -> In v (views s) -> vin v = false ->
  step s (OWriteParent l j x) = Ok s' -> cellv (heap s') (vcell v) = cellv (heap s) (vcell v).
Proof. exact detached_unaffected_by_parent_write. Qed.
Print Assumptions C12_detached_unaffected_by_parent_write.

(* reachable: a view taken, the stream collapsed (view detached), re-expanded, written on both sides *)
Example C12_ex_detached :
  good1 ex0 /\ det_inv ex0 /\
  match run ex0 [OAcc AVle; OView Pl; OSetPhase [Pl]; OSetPhases [Pg; Pl] false; OWriteParent Pl 0 7; OWriteView 0 1 9] with
  | Ok s => map vin (views s) = [false] /\ flow s Pl = [7; 0; 2] /\
            map (fun v => cellv (heap s) (vcell v)) (views s) = [[1; 9; 2]]
  | Err _ => False
  end.
Proof.
  split; [|split].
  - split; [apply (init_single_good 3 [16; 32; 8] Pl [1; 0; 2] 300 101325 eq_refl)|constructor].
  - intros v [].
  - vm_compute. repeat split; reflexivity.
Qed.

(* every operation other than a write through a view (and set_data) leaves every existing row object that the
   stream does not hold exactly as it was: a detached sub-stream goes on reading the frozen row it kept *)
Theorem C12_detached_rows_frozen : forall s o s',
  view_write o = false -> step s o = Ok s' ->
  forall c, (c < length (heap s))%nat -> ~ owns s c -> cellv (heap s') c = cellv (heap s) c.
Proof. exact frozen_step. Qed.
Print Assumptions C12_detached_rows_frozen.

Example C12_ex_frozen :
  match run ex0 [OAcc AVle; OView Pl; OSetPhase [Pl]] with
  | Ok s => exists c, (c < length (heap s))%nat /\ ~ owns s c /\ map vcell (views s) = [c] /\ map vin (views s) = [false]
  | Err _ => False
  end.
Proof. vm_compute. exists 2%nat. repeat split; try reflexivity; try lia; try discriminate. Qed.
