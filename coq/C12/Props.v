From V Require Import Common.NumFacts C12.Model C12.Proofs.
Theorem C12_placeholder : True. Proof. exact placeholder. Qed.
Print Assumptions C12_placeholder.
