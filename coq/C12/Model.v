(* C12 — executable model of the phase-representation state machine of thermosteam streams.
   Source modelled (thermosteam/):
     _stream.py        Stream.phases setter, Stream.phase setter, as_stream, reduce_phases,
                       vle/lle/sle accessors, __getitem__, get_data/set_data, StreamData, T, P
     _multi_stream.py  MultiStream.phases setter, phase getter/setter, __getitem__ (phase views and the
                       _streams cache), as_stream, reduce_phases, vle/lle/sle accessors
     indexer.py        ChemicalIndexer.to_material_indexer, MaterialIndexer.to_material_indexer,
                       to_chemical_indexer, get_phase, phases_are_empty, copy_like (same chemicals),
                       MaterialIndexer.blank
     _phase.py         phase_tuple / check_phase, PhaseIndexer (exact label, else the other case),
                       LockedPhase
   Objects with identity are cells of small heaps: [heap] holds the SparseVector row objects (a phase
   view aliases a row by holding the same cell id), [tcs] holds ThermalCondition objects.
   Dense values only: the sparse dictionary layout of a row is C09's subject.
   No proofs in this file. *)
From V Require Export Common.Num.

(* ---------- phase labels; constructor order = python sort order of 'L','S','g','l','s' ---------- *)
Inductive phase := PL | PS | Pg | Pl | Ps.
Definition all_phases : list phase := [PL; PS; Pg; Pl; Ps].

Definition phase_eqb (a b : phase) : bool :=
  match a, b with
  | PL, PL | PS, PS | Pg, Pg | Pl, Pl | Ps, Ps => true
  | _, _ => false
  end.

(* str.upper()/str.lower() of the label; 'G' is not a valid phase and never a row *)
Definition swapc (p : phase) : option phase :=
  match p with PL => Some Pl | Pl => Some PL | PS => Some Ps | Ps => Some PS | Pg => None end.

Definition pset := phase -> bool.
Definition pset_of (ls : list phase) : pset := fun p => existsb (phase_eqb p) ls.
Definition pset_list (t : pset) : list phase := filter t all_phases.      (* phase_tuple *)
Definition pset_card (t : pset) : nat := length (pset_list t).
Definition pset_eqb (a b : pset) : bool := forallb (fun p => Bool.eqb (a p) (b p)) all_phases.
Definition pset_union (a b : pset) : pset := fun p => a p || b p.

(* PhaseIndexer.__call__ on the rows [t]; also the placement rule of to_material_indexer:
   the exact label if present, else the other case, else UndefinedPhase *)
Definition resolve (t : pset) (p : phase) : option phase :=
  if t p then Some p
  else match swapc p with
       | Some q => if t q then Some q else None
       | None => None
       end.

(* ---------- objects ---------- *)
Definition rmap := phase -> option nat.            (* rows of a MaterialIndexer: label -> heap cell *)
Definition isSome {A} (o : option A) : bool := match o with Some _ => true | None => false end.
Definition rset (r : rmap) : pset := fun p => isSome (r p).
Definition rlookup (r : rmap) (p : phase) : option nat :=
  match resolve (rset r) p with Some q => r q | None => None end.

Inductive repr :=
| Single (p : phase) (c : nat)      (* class Stream: ChemicalIndexer with phase p over cell c *)
| Multi (r : rmap).                 (* class MultiStream: MaterialIndexer *)

(* a Stream object made by MultiStream.__getitem__ *)
Record view := mkview {
  vlabel : phase;      (* LockedPhase(label) and the key under which it sits in _streams *)
  vcell : nat;         (* its _imol.data is this row object *)
  vtc : nat;           (* its _thermal_condition object *)
  vin : bool;          (* still an entry of the parent's _streams dict *)
  vmass : option nat;  (* its _imol._data_cache['mass'], once filled: the row object (dict) the cached
                          mass-basis indexer wraps *)
  vphase : phase;      (* what its Phase object reports (= vlabel while locked) *)
  vlocked : bool       (* LockedPhase (views made by __getitem__ / re-attached by the phases setter) or the
                          ordinary mutable Phase of a stream handed to MultiStream.from_streams *)
}.

(* StreamData: imol.copy(), T, P, phases *)
Record sdata := mksd {
  sd_single : option phase;            (* Some p: taken from a Stream (ChemicalIndexer copy) *)
  sd_rows : phase -> option vec;
  sd_T : Q; sd_P : Q
}.

Record st := mkst {
  nch : nat;                  (* number of chemicals *)
  mws : vec;                  (* chemicals.MW *)
  heap : list vec;
  tcs : list (Q * Q);
  par : repr;
  ptc : nat;
  views : list view;          (* every view object ever created, in creation order *)
  lastret : nat;              (* what the last s[phase] returned: 0 = the stream itself, i+1 = view i *)
  saved : list sdata
}.

Definition set_heap s h := mkst (nch s) (mws s) h (tcs s) (par s) (ptc s) (views s) (lastret s) (saved s).
Definition set_tcs s t := mkst (nch s) (mws s) (heap s) t (par s) (ptc s) (views s) (lastret s) (saved s).
Definition set_par s p := mkst (nch s) (mws s) (heap s) (tcs s) p (ptc s) (views s) (lastret s) (saved s).
Definition set_views s v := mkst (nch s) (mws s) (heap s) (tcs s) (par s) (ptc s) v (lastret s) (saved s).
Definition set_lastret s k := mkst (nch s) (mws s) (heap s) (tcs s) (par s) (ptc s) (views s) k (saved s).
Definition set_saved s d := mkst (nch s) (mws s) (heap s) (tcs s) (par s) (ptc s) (views s) (lastret s) d.

Definition cellv (h : list vec) (c : nat) : vec := nth c h [].
Definition any_nz (v : vec) : bool := existsb (fun x => negb (qzerob x)) v.
Definition tc_get (t : list (Q * Q)) (i : nat) : Q * Q := nth i t (0, 0).

Definition uncache (v : view) : view :=
  mkview (vlabel v) (vcell v) (vtc v) false (vmass v) (vphase v) (vlocked v).
Definition clear_cache (s : st) : st := set_views s (map uncache (views s)).   (* _streams = {} / .clear() *)

(* ---------- indexer conversions ---------- *)
(* MaterialIndexer.blank: one fresh all-zero row per phase, phases sorted *)
Fixpoint blank_rows (n : nat) (ps : list phase) (h : list vec) (r : rmap) : list vec * rmap :=
  match ps with
  | [] => (h, r)
  | p :: ps' => blank_rows n ps' (h ++ [vzero n])
                  (fun q => if phase_eqb q p then Some (length h) else r q)
  end.
Definition blank (n : nat) (t : pset) (h : list vec) : list vec * rmap :=
  blank_rows n (pset_list t) h (fun _ => None).

(* material_indexer[phase] += data with the label replaced by the other case when absent *)
Definition add_into (h : list vec) (r : rmap) (p : phase) (v : vec) : res (list vec) :=
  match rlookup r p with
  | Some c => Ok (upd h c (vadd (cellv h c) v))
  | None => Err EUndefPhase
  end.

(* MaterialIndexer.to_material_indexer: non-empty rows only, in row order *)
Fixpoint move_rows (ps : list phase) (src : rmap) (h : list vec) (r : rmap) : res (list vec) :=
  match ps with
  | [] => Ok h
  | p :: ps' =>
      match src p with
      | Some c =>
          let v := cellv h c in
          if any_nz v then (do h' <- add_into h r p v; move_rows ps' src h' r)
          else move_rows ps' src h r
      | None => move_rows ps' src h r
      end
  end.

(* to_chemical_indexer: python sum() over the rows, a new vector *)
Definition sum_rows (n : nat) (h : list vec) (r : rmap) : vec :=
  fold_left (fun acc p => match r p with Some c => vadd acc (cellv h c) | None => acc end)
            all_phases (vzero n).

(* the phases setter re-attaches the cached sub-streams to the new rows by giving them a NEW indexer
   object (streams[phase]._imol = imol.get_phase(phase)), whose _data_cache is empty; sub-streams whose
   label has no row any more are dropped from _streams and keep their old indexer *)
Definition rebind (r : rmap) (v : view) : view :=
  if vin v then
    match rlookup r (vlabel v) with
    | Some c => mkview (vlabel v) c (vtc v) true None (vlabel v) true
    | None => uncache v
    end
  else v.

(* MultiStream.phase setter with one label / Stream.phase setter *)
Definition to_single (s : st) (p : phase) : res st :=
  match par s with
  | Multi r =>
      if Nat.eqb (pset_card (rset r)) 0 then Err EType     (* sum([]) is the int 0 *)
      else
        let v := sum_rows (nch s) (heap s) r in
        Ok (clear_cache (set_par (set_heap s (heap s ++ [v])) (Single p (length (heap s)))))
  | Single _ c => Ok (set_par s (Single p c))
  end.

(* [bad]: the assigned collection also contains a label outside s l g S L *)
Definition set_phases (s : st) (t : pset) (bad : bool) : res st :=
  let card := (pset_card t + (if bad then 1 else 0))%nat in
  match par s with
  | Single p c =>
      if Nat.eqb card 1 then
        (if bad then Err ERuntime else to_single s (hd Pl (pset_list t)))
      else if bad then Err ERuntime
      else
        let '(h1, r) := blank (nch s) t (heap s) in
        let v := cellv (heap s) c in
        let s1 := clear_cache (set_par (set_heap s h1) (Multi r)) in
        if any_nz v then
          match rlookup r p with
          | Some c' => Ok (set_heap s1 (upd h1 c' v))
          | None => Err EUndefPhase
          end
        else Ok s1
  | Multi r0 =>
      if Nat.eqb card 1 then
        (if bad then (if Nat.eqb (pset_card (rset r0)) 0 then Err EType else Err ERuntime)
         else to_single s (hd Pl (pset_list t)))
      else if bad then Err ERuntime
      else if pset_eqb t (rset r0) then Ok s
      else
        let '(h1, r) := blank (nch s) t (heap s) in
        do h2 <- move_rows all_phases r0 h1 r;
        Ok (set_views (set_par (set_heap s h2) (Multi r)) (map (rebind r) (views s)))
  end.

(* MultiStream.phase getter *)
Definition group_nonempty (h : list vec) (r : rmap) (ps : list phase) : bool :=
  existsb (fun p => match r p with Some c => any_nz (cellv h c) | None => false end) ps.
Definition phase_string (h : list vec) (r : rmap) : list phase :=
  (if group_nonempty h r [Pg] then [Pg] else []) ++
  (if group_nonempty h r [Pl; PL] then [Pl] else []) ++
  (if group_nonempty h r [Ps; PS] then [Ps] else []).

(* s.phase = <string of labels> *)
Definition set_phase (s : st) (ls : list phase) : res st :=
  match par s with
  | Single p c =>
      match ls with
      | [q] => Ok (set_par s (Single q c))
      | _ => Err ERuntime                      (* check_phase on '' or a longer string *)
      end
  | Multi r =>
      match ls with
      | [] => to_single s Pl
      | [q] => to_single s q
      | _ => set_phases s (pset_of ls) false
      end
  end.

Definition reduce_phases (s : st) : res st :=
  match par s with
  | Single _ _ => Ok s
  | Multi r => set_phase s (phase_string (heap s) r)
  end.

Definition as_stream (s : st) : res st :=
  match par s with
  | Single _ _ => Ok s
  | Multi r =>
      match phase_string (heap s) r with
      | [q] => set_phase s [q]
      | [] => match pset_list (rset r) with
              | p0 :: _ => set_phase s [p0]
              | [] => Err EIndex
              end
      | _ => Err ERuntime
      end
  end.

Inductive acc := AVle | ALle | ASle.
Definition acc_pair (a : acc) : phase * phase :=
  match a with AVle => (Pg, Pl) | ALle => (PL, Pl) | ASle => (Ps, Pl) end.

(* Stream.vle/.lle/.sle first rewrite the phase label: 's' -> 'l' for vle, anything but l/L -> 'l' for
   lle, anything but l/s -> 'l' for sle *)
Definition acc_phase (a : acc) (p : phase) : phase :=
  match a with
  | AVle => if phase_eqb p Ps then Pl else p
  | ALle => if phase_eqb p Pl || phase_eqb p PL then p else Pl
  | ASle => if phase_eqb p Pl || phase_eqb p Ps then p else Pl
  end.

(* .vle / .lle / .sle : a Stream relabels and becomes a MultiStream of the two equilibrium phases; a
   MultiStream extends its phase set; then the cached solver object is handed out *)
Definition accessor (s : st) (a : acc) : res st :=
  let '(x, y) := acc_pair a in
  match par s with
  | Single p c => set_phases (set_par s (Single (acc_phase a p) c)) (pset_of [x; y]) false
  | Multi r =>
      if rset r x && rset r y then Ok s
      else set_phases s (pset_union (rset r) (pset_of [x; y])) false
  end.

(* ---------- views ---------- *)
Fixpoint find_cached (vs : list view) (l : phase) (i : nat) : option nat :=
  match vs with
  | [] => None
  | v :: vs' => if vin v && phase_eqb (vlabel v) l then Some i else find_cached vs' l (S i)
  end.

Definition lower_eqb (a b : phase) : bool :=
  phase_eqb a b || match swapc a with Some a' => phase_eqb a' b | None => false end.

Definition get_view (s : st) (l : phase) : res st :=
  match par s with
  | Single p _ => if lower_eqb l p then Ok (set_lastret s 0) else Err EOther
  | Multi r =>
      match find_cached (views s) l 0 with
      | Some i => Ok (set_lastret s (S i))
      | None =>
          match rlookup r l with
          | Some c => Ok (set_lastret (set_views s (views s ++ [mkview l c (ptc s) true None l true]))
                                      (S (length (views s))))
          | None => Err EUndefPhase
          end
      end
  end.

Definition write_cell (h : list vec) (c j : nat) (x : Q) : list vec := upd h c (upd (cellv h c) j x).

Definition write_view (s : st) (i j : nat) (x : Q) : res st :=
  match nth_error (views s) i with
  | Some v => Ok (set_heap s (write_cell (heap s) (vcell v) j x))
  | None => Err EIndex
  end.

(* view.imass : by_mass() builds the mass-basis indexer over the row's dict on first use and caches it in
   the view's indexer object *)
Definition mass_cell (v : view) : nat := match vmass v with Some c => c | None => vcell v end.
Definition touch_mass (v : view) : view :=
  mkview (vlabel v) (vcell v) (vtc v) (vin v) (Some (mass_cell v)) (vphase v) (vlocked v).
Definition view_mass_touch (s : st) (i : nat) : res st :=
  match nth_error (views s) i with
  | Some v => Ok (set_views s (upd (views s) i (touch_mass v)))
  | None => Err EIndex
  end.
(* view.imass[chemical j] = x : MassFlowDict stores x / MW[j] in the wrapped dict *)
Definition view_mass_write (s : st) (i j : nat) (x : Q) : res st :=
  match nth_error (views s) i with
  | Some v =>
      Ok (set_heap (set_views s (upd (views s) i (touch_mass v)))
                   (write_cell (heap s) (mass_cell v) j (x / nthq (mws s) j)))
  | None => Err EIndex
  end.

Definition write_parent (s : st) (l : phase) (j : nat) (x : Q) : res st :=
  match par s with
  | Single _ c => Ok (set_heap s (write_cell (heap s) c j x))
  | Multi r =>
      match rlookup r l with
      | Some c => Ok (set_heap s (write_cell (heap s) c j x))
      | None => Err EUndefPhase
      end
  end.

Definition set_T (s : st) (k : nat) (x : Q) : st :=
  set_tcs s (upd (tcs s) k (x, snd (tc_get (tcs s) k))).
Definition set_P (s : st) (k : nat) (x : Q) : st :=
  set_tcs s (upd (tcs s) k (fst (tc_get (tcs s) k), x)).

(* ---------- get_data / set_data ---------- *)
Definition snapshot (s : st) : sdata :=
  let '(T, P) := tc_get (tcs s) (ptc s) in
  match par s with
  | Single p c =>
      mksd (Some p) (fun q => if phase_eqb q p then Some (cellv (heap s) c) else None) T P
  | Multi r =>
      mksd None (fun q => match r q with Some c => Some (cellv (heap s) c) | None => None end) T P
  end.

(* Stream.empty(): every row cleared in place *)
Definition empty_all (s : st) : st :=
  match par s with
  | Single _ c => set_heap s (upd (heap s) c (vzero (nch s)))
  | Multi r =>
      set_heap s (fold_left (fun h p => match r p with Some c => upd h c (vzero (nch s)) | None => h end)
                            all_phases (heap s))
  end.

(* SparseArray.copy_like: row by row, in place *)
Definition copy_rows (h : list vec) (r : rmap) (d : phase -> option vec) : list vec :=
  fold_left (fun h p => match r p, d p with Some c, Some v => upd h c v | _, _ => h end)
            all_phases h.

Definition restore (s : st) (d : sdata) : res st :=
  let t : pset := fun p => isSome (sd_rows d p) in
  do s1 <- set_phases (empty_all s) t false;
  do s2 <- match par s1 with
           | Single p c =>
               (* snapshot of a Stream, or of a one-phase MultiStream (imol.get_phase(phases[0])) *)
               match (match sd_single d with Some q => Some q | None => hd_error (pset_list t) end) with
               | Some q =>
                   match sd_rows d q with
                   | Some v => Ok (set_par (set_heap s1 (upd (heap s1) c v)) (Single q c))
                   | None => Err EOther
                   end
               | None => Err EOther
               end
           | Multi r =>
               match sd_single d with
               | None => Ok (set_heap s1 (copy_rows (heap s1) r (sd_rows d)))
               | Some _ => Err EOther      (* not reachable: one label gives a Stream *)
               end
           end;
  Ok (set_tcs s2 (upd (tcs s2) (ptc s2) (sd_T d, sd_P d))).

(* ---------- operations and histories ---------- *)
Inductive op :=
| OSetPhases (ls : list phase) (bad : bool)     (* s.phases = ls *)
| OSetPhase (ls : list phase)                   (* s.phase = ''.join(ls) *)
| OReduce                                       (* s.reduce_phases() *)
| OAsStream                                     (* s.as_stream() *)
| OAcc (a : acc)                                (* s.vle / s.lle / s.sle *)
| OView (l : phase)                             (* s[l] *)
| OWriteView (i j : nat) (x : Q)                (* views[i].imol[chemical j] = x *)
| OWriteParent (l : phase) (j : nat) (x : Q)    (* s.imol[l, j] = x   (s.imol[j] = x on a Stream) *)
| OSetT (x : Q) | OSetP (x : Q)                 (* s.T = x / s.P = x *)
| OViewSetT (i : nat) (x : Q) | OViewSetP (i : nat) (x : Q)
| OViewSetPhase (i : nat) (l : phase)           (* views[i].phase = l : raises when the phase is locked *)
| OViewMassTouch (i : nat)                      (* views[i].imass[...] read: fills the view's mass cache *)
| OViewMassWrite (i j : nat) (x : Q)            (* views[i].imass[chemical j] = x *)
| OSave                                         (* saved.append(s.get_data()) *)
| ORestore (k : nat).                           (* s.set_data(saved[k]) *)

Definition step (s : st) (o : op) : res st :=
  match o with
  | OSetPhases ls bad => set_phases s (pset_of ls) bad
  | OSetPhase ls => set_phase s ls
  | OReduce => reduce_phases s
  | OAsStream => as_stream s
  | OAcc a => accessor s a
  | OView l => get_view s l
  | OWriteView i j x => write_view s i j x
  | OWriteParent l j x => write_parent s l j x
  | OSetT x => Ok (set_T s (ptc s) x)
  | OSetP x => Ok (set_P s (ptc s) x)
  | OViewSetT i x =>
      match nth_error (views s) i with Some v => Ok (set_T s (vtc v) x) | None => Err EIndex end
  | OViewSetP i x =>
      match nth_error (views s) i with Some v => Ok (set_P s (vtc v) x) | None => Err EIndex end
  | OViewSetPhase i l =>
      match nth_error (views s) i with
      | Some v =>
          if vlocked v then (if phase_eqb (vphase v) l then Ok s else Err EOther)
          else Ok (set_views s (upd (views s) i
                     (mkview (vlabel v) (vcell v) (vtc v) (vin v) (vmass v) l false)))
      | None => Err EIndex
      end
  | OViewMassTouch i => view_mass_touch s i
  | OViewMassWrite i j x => view_mass_write s i j x
  | OSave => Ok (set_saved s (saved s ++ [snapshot s]))
  | ORestore k =>
      match nth_error (saved s) k with Some d => restore s d | None => Err EIndex end
  end.

Fixpoint run (s : st) (ops : list op) : res st :=
  match ops with
  | [] => Ok s
  | o :: ops' => do s' <- step s o; run s' ops'
  end.

(* ---------- observations ---------- *)
Definition flow (s : st) (p : phase) : vec :=
  match par s with
  | Single q c => if phase_eqb p q then cellv (heap s) c else vzero (nch s)
  | Multi r => match r p with Some c => cellv (heap s) c | None => vzero (nch s) end
  end.
Definition phases_of (s : st) : list phase :=
  match par s with Single q _ => [q] | Multi r => pset_list (rset r) end.
Definition is_multi (s : st) : bool := match par s with Multi _ => true | Single _ _ => false end.
Definition T_of (s : st) : Q := fst (tc_get (tcs s) (ptc s)).
Definition P_of (s : st) : Q := snd (tc_get (tcs s) (ptc s)).
Definition total (s : st) (j : nat) : Q :=
  fold_right (fun p acc => nthq (flow s p) j + acc) 0 all_phases.

Record vobs := mkvobs { vo_label : phase; vo_flow : vec; vo_T : Q; vo_P : Q; vo_in : bool;
                        vo_mass : option vec (* what the cached mass indexer reads, when the cache is filled *) }.
Record obs := mkobs {
  o_multi : bool; o_phases : list phase; o_flows : list vec; o_T : Q; o_P : Q;
  o_views : list vobs; o_ret : nat; o_saved : nat
}.

Definition observe (s : st) : obs :=
  mkobs (is_multi s) (phases_of s) (map (flow s) (phases_of s)) (T_of s) (P_of s)
        (map (fun v => mkvobs (vphase v) (cellv (heap s) (vcell v))
                              (fst (tc_get (tcs s) (vtc v))) (snd (tc_get (tcs s) (vtc v))) (vin v)
                              (match vmass v with
                               | Some c => Some (vmul (cellv (heap s) c) (mws s))
                               | None => None
                               end))
             (views s))
        (lastret s) (length (saved s)).

Definition vobs_eqb (a b : vobs) : bool :=
  phase_eqb (vo_label a) (vo_label b) && vapproxb (vo_flow a) (vo_flow b) &&
  qapproxb (vo_T a) (vo_T b) && qapproxb (vo_P a) (vo_P b) && Bool.eqb (vo_in a) (vo_in b) &&
  opt_eqb vapproxb (vo_mass a) (vo_mass b).
Definition obs_eqb (a b : obs) : bool :=
  Bool.eqb (o_multi a) (o_multi b) && list_eqb phase_eqb (o_phases a) (o_phases b) &&
  list_eqb vapproxb (o_flows a) (o_flows b) && qapproxb (o_T a) (o_T b) && qapproxb (o_P a) (o_P b) &&
  list_eqb vobs_eqb (o_views a) (o_views b) && Nat.eqb (o_ret a) (o_ret b) &&
  Nat.eqb (o_saved a) (o_saved b).

(* observations after every operation that returned; the error of the first one that raised *)
Fixpoint trace (s : st) (ops : list op) : list obs * option err :=
  match ops with
  | [] => ([], None)
  | o :: ops' =>
      match step s o with
      | Ok s' => let '(l, e) := trace s' ops' in (observe s' :: l, e)
      | Err e => ([], Some e)
      end
  end.

Definition trace_eqb (s : st) (ops : list op) (expect : list obs) (e : option err) : bool :=
  let '(l, e') := trace s ops in
  list_eqb obs_eqb l expect && opt_eqb err_eqb e' e.

(* ---------- initial states ---------- *)
(* MultiStream.from_streams(streams): the given single-phase Stream objects BECOME the sub-streams: their
   data vectors are the rows, the first one's ThermalCondition object is the stream's and is re-bound into
   all the others; whatever their indexers cached before stays cached *)
Record sstream := mkss { ss_phase : phase; ss_flow : vec; ss_T : Q; ss_P : Q; ss_mass : bool }.

Fixpoint fs_index (ss : list sstream) (p : phase) : option nat :=
  match ss with
  | [] => None
  | x :: t => if phase_eqb (ss_phase x) p then Some 0%nat
              else match fs_index t p with Some i => Some (S i) | None => None end
  end.
Fixpoint fs_views (ss : list sstream) (i : nat) : list view :=
  match ss with
  | [] => []
  | x :: t => mkview (ss_phase x) i 0 true (if ss_mass x then Some i else None) (ss_phase x) false
              :: fs_views t (S i)
  end.
Fixpoint distinct_phases (ss : list sstream) : bool :=
  match ss with
  | [] => true
  | x :: t => negb (existsb (fun y => phase_eqb (ss_phase y) (ss_phase x)) t) && distinct_phases t
  end.
Definition from_streams (n : nat) (mw : vec) (ss : list sstream) : res st :=
  match ss with
  | [] => Err EValue                                    (* at least one stream must be passed *)
  | _ =>
      if negb (distinct_phases ss) then Err EValue      (* each stream must have a different phase *)
      else Ok (mkst n mw (map ss_flow ss) (map (fun x => (ss_T x, ss_P x)) ss)
                    (Multi (fs_index ss)) 0 (fs_views ss 0) 0 [])
  end.
(* run a check on the constructed state, or expect the constructor's exception *)
Definition with_init (r : res st) (e : option err) (f : st -> bool) : bool :=
  match r, e with
  | Ok s, None => f s
  | Err a, Some b => err_eqb a b
  | _, _ => false
  end.

Definition init_single (n : nat) (mw : vec) (p : phase) (v : vec) (T P : Q) : st :=
  mkst n mw [v] [(T, P)] (Single p 0) 0 [] 0 [].

Fixpoint init_rows (rows : list (phase * vec)) (h : list vec) (r : rmap) : list vec * rmap :=
  match rows with
  | [] => (h, r)
  | (p, v) :: rows' => init_rows rows' (h ++ [v]) (fun q => if phase_eqb q p then Some (length h) else r q)
  end.
Definition init_multi (n : nat) (mw : vec) (rows : list (phase * vec)) (T P : Q) : st :=
  let '(h, r) := init_rows rows [] (fun _ => None) in
  mkst n mw h [(T, P)] (Multi r) 0 [] 0 [].
