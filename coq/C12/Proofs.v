(* C12 — lemmas about the phase-representation state machine of Model.v *)
From V Require Import Common.NumFacts C12.Model.

(* ================= generic helpers ================= *)
Lemma phase_eqb_eq a b : phase_eqb a b = true <-> a = b.
Proof. destruct a, b; simpl; split; intros H; try reflexivity; try discriminate. Qed.
Lemma phase_eqb_refl a : phase_eqb a a = true.
Proof. destruct a; reflexivity. Qed.
Lemma phase_eqb_neq a b : phase_eqb a b = false <-> a <> b.
Proof.
  split; intros H.
  - intros E. subst. rewrite phase_eqb_refl in H. discriminate.
  - destruct (phase_eqb a b) eqn:E; auto. apply phase_eqb_eq in E. contradiction.
Qed.
Lemma phase_eq_dec (a b : phase) : {a = b} + {a <> b}.
Proof. decide equality. Qed.
Lemma all_phases_in p : In p all_phases.
Proof. destruct p; simpl; auto 10. Qed.
Lemma all_phases_nodup : NoDup all_phases.
Proof. repeat constructor; simpl; intuition discriminate. Qed.

Definition psum (l : list phase) (f : phase -> Q) : Q := fold_right (fun p acc => f p + acc) 0 l.

Lemma psum_ext l f g : (forall p, In p l -> f p == g p) -> psum l f == psum l g.
Proof.
  induction l as [|a l IH]; intros H; simpl; [reflexivity|].
  rewrite (H a (or_introl eq_refl)), IH; [reflexivity|]. intros p Hp. apply H. right; exact Hp.
Qed.
Lemma psum_zero l f : (forall p, In p l -> f p == 0) -> psum l f == 0.
Proof.
  induction l as [|a l IH]; intros H; simpl; [reflexivity|].
  rewrite (H a (or_introl eq_refl)), IH; [lra|]. intros p Hp. apply H. right; exact Hp.
Qed.
Lemma psum_plus l f g : psum l (fun p => f p + g p) == psum l f + psum l g.
Proof. induction l as [|a l IH]; simpl; [lra|]. rewrite IH. lra. Qed.
(* changing f at one point of a duplicate-free list *)
Lemma psum_upd_one l q f f' d :
  NoDup l -> In q l -> (forall p, In p l -> p <> q -> f' p == f p) -> f' q == f q + d ->
  psum l f' == psum l f + d.
Proof.
  induction l as [|a l IH]; intros ND Hin Hoth Hq; simpl; [destruct Hin|].
  inversion ND as [|? ? Hna ND']; subst.
  destruct Hin as [E|Hin].
  - subst a. rewrite Hq.
    assert (E : psum l f' == psum l f).
    { apply psum_ext. intros p Hp. apply Hoth; [right; exact Hp|]. intros ->. contradiction. }
    rewrite E. lra.
  - assert (Ha : a <> q) by (intros ->; contradiction).
    rewrite (Hoth a (or_introl eq_refl) Ha).
    rewrite IH; auto; [lra|]. intros p Hp Hne. apply Hoth; auto. right; exact Hp.
Qed.
(* the indicator of one point *)
Lemma psum_indicator l q x :
  NoDup l -> In q l -> psum l (fun p => if phase_eqb p q then x else 0) == x.
Proof.
  intros ND Hin.
  assert (H := psum_upd_one l q (fun _ => 0) (fun p => if phase_eqb p q then x else 0) x ND Hin).
  rewrite H.
  - rewrite psum_zero; [lra|]. intros; reflexivity.
  - intros p _ Hne. apply phase_eqb_neq in Hne. rewrite Hne. reflexivity.
  - rewrite phase_eqb_refl. lra.
Qed.
Lemma psum_swap l1 l2 (f : phase -> phase -> Q) :
  psum l1 (fun p => psum l2 (fun q => f p q)) == psum l2 (fun q => psum l1 (fun p => f p q)).
Proof.
  induction l1 as [|a l1 IH]; simpl.
  - rewrite psum_zero; [reflexivity|]. intros; reflexivity.
  - rewrite IH. rewrite <- psum_plus. reflexivity.
Qed.

Lemma psum_cons a l f : psum (a :: l) f = f a + psum l f.
Proof. reflexivity. Qed.
Lemma psum_nil f : psum [] f = 0.
Proof. reflexivity. Qed.
Arguments psum : simpl never.

Lemma nthq_vzero n j : nthq (vzero n) j == 0.
Proof.
  unfold nthq, vzero. revert j. induction n as [|n IH]; intros [|j]; simpl; try reflexivity. apply IH.
Qed.
Lemma vzero_length n : length (vzero n) = n.
Proof. apply repeat_length. Qed.

Lemma any_nz_false v : any_nz v = false -> forall j, nthq v j == 0.
Proof.
  unfold any_nz, nthq. induction v as [|x v IH]; intros H j.
  - destruct j; reflexivity.
  - simpl in H. apply orb_false_elim in H. destruct H as [Hx Hv].
    destruct j; simpl.
    + apply negb_false_iff in Hx. apply qzerob_true in Hx. exact Hx.
    + apply IH. exact Hv.
Qed.
Lemma any_nz_vzero n : any_nz (vzero n) = false.
Proof. unfold any_nz, vzero. induction n; simpl; auto. Qed.

Lemma cellv_app_l h h' c : (c < length h)%nat -> cellv (h ++ h') c = cellv h c.
Proof. intros H. unfold cellv. apply app_nth1. exact H. Qed.
Lemma cellv_app_new h v : cellv (h ++ [v]) (length h) = v.
Proof. unfold cellv. rewrite app_nth2; [|lia]. rewrite Nat.sub_diag. reflexivity. Qed.
Lemma cellv_upd_same h c v : (c < length h)%nat -> cellv (upd h c v) c = v.
Proof.
  unfold cellv. revert c. induction h as [|a h IH]; intros [|c] H; simpl in *; try lia; auto.
  apply IH. lia.
Qed.
Lemma cellv_upd_other h c c' v : c <> c' -> cellv (upd h c v) c' = cellv h c'.
Proof.
  unfold cellv. revert c c'. induction h as [|a h IH]; intros [|c] [|c'] H; simpl; auto; try congruence.
Qed.

(* ================= well-formed heaps and rows ================= *)
Definition hwf (n : nat) (h : list vec) : Prop :=
  forall c, (c < length h)%nat -> length (cellv h c) = n.
Definition rwf (h : list vec) (r : rmap) : Prop :=
  (forall p c, r p = Some c -> (c < length h)%nat) /\
  (forall p q c, r p = Some c -> r q = Some c -> p = q).
(* dense value of row p, 0 when the row does not exist *)
Definition rowv (h : list vec) (r : rmap) (p : phase) (j : nat) : Q :=
  match r p with Some c => nthq (cellv h c) j | None => 0 end.
(* material of phase p is placed in row q of the rows r *)
Definition lands (t : pset) (p q : phase) : bool :=
  match resolve t p with Some q' => phase_eqb q q' | None => false end.

Lemma hwf_app n h v : hwf n h -> length v = n -> hwf n (h ++ [v]).
Proof.
  intros H Hv c Hc. rewrite app_length in Hc. simpl in Hc.
  destruct (Nat.eq_dec c (length h)) as [->|Hne].
  - rewrite cellv_app_new. exact Hv.
  - rewrite cellv_app_l by lia. apply H. lia.
Qed.
Lemma hwf_upd n h c v : hwf n h -> length v = n -> hwf n (upd h c v).
Proof.
  intros H Hv c' Hc'. rewrite upd_length in Hc'.
  destruct (Nat.eq_dec c c') as [->|Hne].
  - rewrite cellv_upd_same by exact Hc'. exact Hv.
  - rewrite cellv_upd_other by exact Hne. apply H. exact Hc'.
Qed.
Lemma rwf_len h h' r : rwf h r -> (length h <= length h')%nat -> rwf h' r.
Proof. intros [A B] L. split; [|exact B]. intros p c H. specialize (A p c H). lia. Qed.

Lemma nth_repeat_in {A} (z d : A) k c : (c < k)%nat -> nth c (repeat z k) d = z.
Proof. revert c. induction k as [|k IH]; intros [|c] H; simpl; try lia; auto. apply IH. lia. Qed.

Lemma pset_list_in t p : In p (pset_list t) <-> t p = true.
Proof.
  unfold pset_list. rewrite filter_In. split; [intros [_ H]; exact H|].
  intros H. split; [apply all_phases_in|exact H].
Qed.
Lemma pset_list_nodup t : NoDup (pset_list t).
Proof. apply NoDup_filter. apply all_phases_nodup. Qed.

Lemma blank_rows_spec n ps : forall h r h1 r1,
  NoDup ps -> blank_rows n ps h r = (h1, r1) ->
  h1 = h ++ repeat (vzero n) (length ps) /\
  (forall p, ~ In p ps -> r1 p = r p) /\
  (forall p, In p ps -> exists c, r1 p = Some c /\ (length h <= c < length h1)%nat) /\
  (forall p q c, In p ps -> In q ps -> r1 p = Some c -> r1 q = Some c -> p = q).
Proof.
  induction ps as [|a ps IH]; intros h r h1 r1 ND H; simpl in H.
  - inversion H; subst. simpl. rewrite app_nil_r. repeat split; auto; intros; contradiction.
  - inversion ND as [|? ? Hna ND']; subst.
    destruct (IH _ _ _ _ ND' H) as (E & Hout & Hin & Hinj).
    assert (Ea : r1 a = Some (length h)).
    { rewrite (Hout a Hna). rewrite phase_eqb_refl. reflexivity. }
    assert (Lh1 : length h1 = (length h + S (length ps))%nat).
    { rewrite E. rewrite !app_length, repeat_length. simpl. lia. }
    split; [|split; [|split]].
    + rewrite E. rewrite <- app_assoc. reflexivity.
    + intros p Hp. rewrite Hout by (intros Hp'; apply Hp; right; exact Hp').
      assert (Hne : p <> a) by (intros ->; apply Hp; left; reflexivity).
      apply phase_eqb_neq in Hne. rewrite Hne. reflexivity.
    + intros p [->|Hp].
      * exists (length h). split; [exact Ea|]. lia.
      * destruct (Hin p Hp) as (c & Hc & Hr). exists c. split; [exact Hc|].
        rewrite app_length in Hr. simpl in Hr. lia.
    + intros p q c [->|Hp] [->|Hq] Hpc Hqc; auto.
      * destruct (Hin q Hq) as (c' & Hc' & Hr). rewrite app_length in Hr. simpl in Hr.
        rewrite Ea in Hpc. rewrite Hc' in Hqc. inversion Hpc; inversion Hqc; subst. lia.
      * destruct (Hin p Hp) as (c' & Hc' & Hr). rewrite app_length in Hr. simpl in Hr.
        rewrite Ea in Hqc. rewrite Hc' in Hpc. inversion Hpc; inversion Hqc; subst. lia.
      * eapply Hinj; eauto.
Qed.

Lemma blank_spec n t h h1 r :
  blank n t h = (h1, r) ->
  h1 = h ++ repeat (vzero n) (pset_card t) /\
  (forall p, rset r p = t p) /\
  (forall p c, r p = Some c -> (length h <= c < length h1)%nat) /\
  (forall p q c, r p = Some c -> r q = Some c -> p = q).
Proof.
  unfold blank. intros H.
  destruct (blank_rows_spec n (pset_list t) h (fun _ => None) h1 r (pset_list_nodup t) H)
    as (E & Hout & Hin & Hinj).
  assert (Hdom : forall p c, r p = Some c -> In p (pset_list t)).
  { intros p c Hc. destruct (in_dec phase_eq_dec p (pset_list t)) as [Hi|Hn]; auto.
    rewrite (Hout p Hn) in Hc. discriminate. }
  split; [exact E|]. split; [|split].
  - intros p. unfold rset. destruct (t p) eqn:Tp.
    + apply pset_list_in in Tp. destruct (Hin p Tp) as (c & Hc & _). rewrite Hc. reflexivity.
    + destruct (r p) eqn:Rp; auto. apply Hdom in Rp. apply pset_list_in in Rp. congruence.
  - intros p c Hc. destruct (Hin p (Hdom p c Hc)) as (c' & Hc' & Hr). congruence.
  - intros p q c Hp Hq. eapply Hinj; eauto.
Qed.

Lemma blank_cells n t h h1 r :
  blank n t h = (h1, r) ->
  (forall c, (c < length h)%nat -> cellv h1 c = cellv h c) /\
  (forall c, (length h <= c < length h1)%nat -> cellv h1 c = vzero n) /\
  (length h <= length h1)%nat.
Proof.
  intros H. destruct (blank_spec n t h h1 r H) as (E & _). subst h1. repeat split.
  - intros c Hc. unfold cellv. apply app_nth1. exact Hc.
  - intros c Hc. rewrite app_length, repeat_length in Hc. unfold cellv.
    rewrite app_nth2 by lia. apply nth_repeat_in. lia.
  - rewrite app_length. lia.
Qed.

Lemma blank_hwf n t h h1 r : blank n t h = (h1, r) -> hwf n h -> hwf n h1.
Proof.
  intros H Hh c Hc. destruct (blank_cells n t h h1 r H) as (A & B & _).
  destruct (Nat.lt_ge_cases c (length h)) as [L|L].
  - rewrite A by exact L. apply Hh. exact L.
  - rewrite B by lia. apply vzero_length.
Qed.

(* ================= conversions between row sets ================= *)
Lemma rlookup_some r p c :
  rlookup r p = Some c -> exists q, resolve (rset r) p = Some q /\ r q = Some c.
Proof. unfold rlookup. destruct (resolve (rset r) p) as [q|]; intros H; [exists q; auto|discriminate]. Qed.
Lemma resolve_in t p q : resolve t p = Some q -> t q = true.
Proof.
  unfold resolve. destruct (t p) eqn:Tp; [intros H; inversion H; subst; exact Tp|].
  destruct (swapc p) as [p'|]; [|discriminate]. destruct (t p') eqn:Tp'; [|discriminate].
  intros H; inversion H; subst; exact Tp'.
Qed.
Lemma rlookup_none_resolve r p : rlookup r p = None -> resolve (rset r) p = None.
Proof.
  unfold rlookup. destruct (resolve (rset r) p) as [q|] eqn:E; auto.
  apply resolve_in in E. unfold rset in E. destruct (r q); [discriminate|discriminate].
Qed.

Lemma rowv_upd_add n h r q c v q' j :
  hwf n h -> rwf h r -> length v = n -> r q = Some c ->
  rowv (upd h c (vadd (cellv h c) v)) r q' j ==
  rowv h r q' j + (if phase_eqb q' q then nthq v j else 0).
Proof.
  intros Hh [Hr Hinj] Hv Hq. unfold rowv.
  destruct (phase_eqb q' q) eqn:E.
  - apply phase_eqb_eq in E. subst q'. rewrite Hq.
    rewrite cellv_upd_same by (eapply Hr; eauto).
    apply nthq_vadd. rewrite Hv. apply Hh. eapply Hr; eauto.
  - apply phase_eqb_neq in E. destruct (r q') as [c'|] eqn:Rq'; [|lra].
    rewrite cellv_upd_other; [lra|]. intros ->. apply E. eapply Hinj; eauto.
Qed.

Lemma move_rows_spec n L0 r0 r : forall ps h h2,
  hwf n h -> rwf h r -> (forall p c, r p = Some c -> (L0 <= c)%nat) ->
  (forall p c, r0 p = Some c -> (c < L0)%nat /\ (c < length h)%nat) ->
  move_rows ps r0 h r = Ok h2 ->
  length h2 = length h /\ hwf n h2 /\
  (forall c, (c < L0)%nat -> cellv h2 c = cellv h c) /\
  (forall q j, rowv h2 r q j ==
     rowv h r q j + psum ps (fun p => if lands (rset r) p q then rowv h r0 p j else 0)) /\
  (forall p, In p ps -> resolve (rset r) p = None -> forall j, rowv h r0 p j == 0).
Proof.
  induction ps as [|a ps IH]; intros h h2 Hh Hr Hnew Hold H; simpl in H.
  - inversion H; subst. repeat split; auto.
    + intros. rewrite psum_nil. lra.
    + intros p [].
  - assert (Skip : move_rows ps r0 h r = Ok h2 -> (forall j, rowv h r0 a j == 0) ->
        length h2 = length h /\ hwf n h2 /\
        (forall c, (c < L0)%nat -> cellv h2 c = cellv h c) /\
        (forall q j, rowv h2 r q j ==
           rowv h r q j + psum (a :: ps) (fun p => if lands (rset r) p q then rowv h r0 p j else 0)) /\
        (forall p, In p (a :: ps) -> resolve (rset r) p = None -> forall j, rowv h r0 p j == 0)).
    { intros H' Hz. destruct (IH h h2 Hh Hr Hnew Hold H') as (A & B & C & D & E).
      repeat split; auto.
      - intros q j. rewrite D. rewrite psum_cons. pose proof (Hz j) as Hzj. destruct (lands (rset r) a q); lra.
      - intros p [->|Hp] Hn j; [apply Hz|apply E; auto]. }
    destruct (r0 a) as [c|] eqn:Ra.
    + destruct (any_nz (cellv h c)) eqn:NZ.
      * unfold add_into in H. destruct (rlookup r a) as [c'|] eqn:Lk; [|discriminate].
        simpl in H. destruct (rlookup_some r a c' Lk) as (q & Rq & Rc).
        destruct (Hold a c Ra) as [HcL Hclen].
        assert (Hv : length (cellv h c) = n) by (apply Hh; exact Hclen).
        assert (Hc'len : (c' < length h)%nat) by (destruct Hr as [Hr _]; eapply Hr; eauto).
        set (h' := upd h c' (vadd (cellv h c') (cellv h c))) in *.
        assert (Hh' : hwf n h').
        { apply hwf_upd; auto. rewrite vadd_length; [apply Hh; exact Hc'len|].
          rewrite Hv. apply Hh. exact Hc'len. }
        assert (Hr' : rwf h' r) by (apply (rwf_len h); auto; unfold h'; rewrite upd_length; lia).
        assert (Hold' : forall p c0, r0 p = Some c0 -> (c0 < L0)%nat /\ (c0 < length h')%nat).
        { intros p c0 Hp. unfold h'. rewrite upd_length. exact (Hold p c0 Hp). }
        assert (Hne : forall c0, (c0 < L0)%nat -> cellv h' c0 = cellv h c0).
        { intros c0 Hc0. unfold h'. apply cellv_upd_other. specialize (Hnew q c' Rc). lia. }
        assert (Hrow0 : forall p j, rowv h' r0 p j = rowv h r0 p j).
        { intros p j. unfold rowv. destruct (r0 p) as [c0|] eqn:Rp; auto.
          rewrite Hne; auto. apply (Hold p c0 Rp). }
        destruct (IH h' h2 Hh' Hr' Hnew Hold' H) as (A & B & C & D & E).
        split; [rewrite A; unfold h'; apply upd_length|]. split; [exact B|]. split; [|split].
        -- intros c0 Hc0. rewrite C by exact Hc0. apply Hne. exact Hc0.
        -- intros q0 j. rewrite D. unfold h' at 1.
           rewrite (rowv_upd_add n h r q c' (cellv h c) q0 j Hh Hr Hv Rc).
           rewrite psum_cons. unfold lands at 2. rewrite Rq.
           assert (Ex : psum ps (fun p => if lands (rset r) p q0 then rowv h' r0 p j else 0) ==
                        psum ps (fun p => if lands (rset r) p q0 then rowv h r0 p j else 0)).
           { apply psum_ext. intros p _. rewrite Hrow0. reflexivity. }
           rewrite Ex.
           assert (Ea : rowv h r0 a j = nthq (cellv h c) j) by (unfold rowv; rewrite Ra; reflexivity).
           rewrite Ea. destruct (phase_eqb q0 q); lra.
        -- intros p [->|Hp] Hn j.
           ++ congruence.
           ++ rewrite <- Hrow0. apply E; auto.
      * apply Skip; auto. intros j. unfold rowv. rewrite Ra. apply any_nz_false. exact NZ.
    + apply Skip; auto. intros j. unfold rowv. rewrite Ra. reflexivity.
Qed.

Lemma sum_rows_gen n h r : forall ps acc,
  hwf n h -> (forall p c, r p = Some c -> (c < length h)%nat) -> length acc = n ->
  let res := fold_left (fun acc p => match r p with Some c => vadd acc (cellv h c) | None => acc end) ps acc in
  length res = n /\ forall j, nthq res j == nthq acc j + psum ps (fun p => rowv h r p j).
Proof.
  induction ps as [|a ps IH]; intros acc Hh Hr Ha; simpl.
  - split; auto. intros; rewrite psum_nil; lra.
  - destruct (r a) as [c|] eqn:Ra.
    + assert (Hc : length (cellv h c) = n) by (apply Hh; eapply Hr; eauto).
      assert (Hl : length (vadd acc (cellv h c)) = n) by (rewrite vadd_length; congruence).
      destruct (IH (vadd acc (cellv h c)) Hh Hr Hl) as [A B]. split; [exact A|].
      intros j. rewrite B. rewrite nthq_vadd by congruence. rewrite psum_cons.
      assert (Ea : rowv h r a j = nthq (cellv h c) j) by (unfold rowv; rewrite Ra; reflexivity).
      rewrite Ea. lra.
    + destruct (IH acc Hh Hr Ha) as [A B]. split; [exact A|].
      intros j. rewrite B. rewrite psum_cons.
      assert (Ea : rowv h r a j = 0) by (unfold rowv; rewrite Ra; reflexivity).
      rewrite Ea. lra.
Qed.

Lemma sum_rows_spec n h r :
  hwf n h -> (forall p c, r p = Some c -> (c < length h)%nat) ->
  length (sum_rows n h r) = n /\
  forall j, nthq (sum_rows n h r) j == psum all_phases (fun p => rowv h r p j).
Proof.
  intros Hh Hr. destruct (sum_rows_gen n h r all_phases (vzero n) Hh Hr (vzero_length n)) as [A B].
  split; [exact A|]. intros j. unfold sum_rows. rewrite B. rewrite nthq_vzero. lra.
Qed.

(* ================= views_live: an invariant of every history ================= *)
(* every view object still in the parent's _streams cache aliases the parent's CURRENT row for its
   label and every view object ever made shares the parent's thermal-condition object *)
Definition live_inv (s : st) : Prop :=
  forall v, In v (views s) ->
    vtc v = ptc s /\
    (vin v = true -> exists r, par s = Multi r /\ rlookup r (vlabel v) = Some (vcell v)).

Lemma live_clear s p :
  (forall v, In v (views s) -> vtc v = ptc s) ->
  forall v, In v (map uncache (views s)) -> vtc v = ptc s /\ (vin v = true -> exists r, p = Multi r /\ rlookup r (vlabel v) = Some (vcell v)).
Proof.
  intros H v Hv. apply in_map_iff in Hv. destruct Hv as (w & <- & Hw). simpl.
  split; [apply H; exact Hw|discriminate].
Qed.

Lemma live_tc s : live_inv s -> forall v, In v (views s) -> vtc v = ptc s.
Proof. intros H v Hv. apply (H v Hv). Qed.

Lemma to_single_live s p s' : live_inv s -> to_single s p = Ok s' -> live_inv s'.
Proof.
  unfold to_single. intros L H. destruct (par s) as [p0 c|r] eqn:Ps.
  - inversion H; subst. intros v Hv. simpl in *. destruct (L v Hv) as [A B]. split; [exact A|].
    intros Hin. destruct (B Hin) as (r & Hr & _). congruence.
  - destruct (Nat.eqb (pset_card (rset r)) 0); [discriminate|]. inversion H; subst.
    intros v Hv. simpl in Hv. simpl.
    apply (live_clear s (Single p (length (heap s))) (live_tc s L) v Hv).
Qed.

Lemma set_phases_live s t bad s' : live_inv s -> set_phases s t bad = Ok s' -> live_inv s'.
Proof.
  unfold set_phases. intros L H. destruct (par s) as [p0 c|r0] eqn:Ps.
  - destruct (Nat.eqb _ 1).
    + destruct bad; [discriminate|]. eapply to_single_live; eauto.
    + destruct bad; [discriminate|]. destruct (blank (nch s) t (heap s)) as [h1 r] eqn:B.
      destruct (any_nz (cellv (heap s) c)).
      * destruct (rlookup r p0); [|discriminate]. inversion H; subst.
        intros v Hv. simpl in Hv. simpl. apply (live_clear s (Multi r) (live_tc s L) v Hv).
      * inversion H; subst. intros v Hv. simpl in Hv. simpl.
        apply (live_clear s (Multi r) (live_tc s L) v Hv).
  - destruct (Nat.eqb _ 1).
    + destruct bad; [destruct (Nat.eqb _ 0); discriminate|]. eapply to_single_live; eauto.
    + destruct bad; [discriminate|]. destruct (pset_eqb t (rset r0)); [inversion H; subst; exact L|].
      destruct (blank (nch s) t (heap s)) as [h1 r] eqn:B.
      destruct (move_rows all_phases r0 h1 r) as [h2|e]; [|discriminate]. simpl in H.
      inversion H; subst. intros v Hv. simpl in Hv. simpl.
      apply in_map_iff in Hv. destruct Hv as (w & <- & Hw).
      unfold rebind. destruct (vin w) eqn:Win.
      * destruct (rlookup r (vlabel w)) as [c|] eqn:Lk; simpl.
        -- split; [apply (live_tc s L w Hw)|]. intros _. exists r. split; auto.
        -- split; [apply (live_tc s L w Hw)|discriminate].
      * split; [apply (live_tc s L w Hw)|]. rewrite Win. discriminate.
Qed.

Lemma set_phase_live s ls s' : live_inv s -> set_phase s ls = Ok s' -> live_inv s'.
Proof.
  unfold set_phase. intros L H. destruct (par s) as [p0 c|r0] eqn:Ps.
  - destruct ls as [|q [|? ?]]; try discriminate. inversion H; subst.
    intros v Hv. simpl in *. destruct (L v Hv) as [A B]. split; [exact A|].
    intros Hin. destruct (B Hin) as (r & Hr & _). congruence.
  - destruct ls as [|q [|q' ls']].
    + eapply to_single_live; eauto.
    + eapply to_single_live; eauto.
    + eapply set_phases_live; eauto.
Qed.

Lemma heap_only_live s h : live_inv s -> live_inv (set_heap s h).
Proof. intros L v Hv. exact (L v Hv). Qed.
Lemma tcs_only_live s t : live_inv s -> live_inv (set_tcs s t).
Proof. intros L v Hv. exact (L v Hv). Qed.

Lemma empty_all_live s : live_inv s -> live_inv (empty_all s).
Proof. unfold empty_all. intros L. destruct (par s); apply heap_only_live; exact L. Qed.

Lemma relabel_live s p c q : par s = Single p c -> live_inv s -> live_inv (set_par s (Single q c)).
Proof.
  intros Ps L v Hv. simpl in Hv. destruct (L v Hv) as [A B]. split; [exact A|].
  intros Hin. destruct (B Hin) as (r & Hr & _). congruence.
Qed.

Lemma restore_live s d s' : live_inv s -> restore s d = Ok s' -> live_inv s'.
Proof.
  unfold restore. intros L H.
  destruct (set_phases (empty_all s) (fun p => isSome (sd_rows d p)) false) as [s1|e] eqn:S1; [|discriminate].
  simpl in H. assert (L1 : live_inv s1) by (eapply set_phases_live; [apply empty_all_live; exact L|exact S1]).
  destruct (par s1) as [p c|r] eqn:P1.
  - destruct (match sd_single d with Some q => Some q | None => hd_error (pset_list (fun p0 => isSome (sd_rows d p0))) end) as [q|]; [|discriminate].
    destruct (sd_rows d q) as [v|]; [|discriminate].
    simpl in H. inversion H; subst. intros w Hw. simpl in *. destruct (L1 w Hw) as [A B].
    split; [exact A|]. intros Hin. destruct (B Hin) as (r & Hr & _). congruence.
  - destruct (sd_single d) as [q|]; [discriminate|]. simpl in H. inversion H; subst.
    intros w Hw. simpl in *. destruct (L1 w Hw) as [A B]. split; [exact A|].
    intros Hin. destruct (B Hin) as (r' & Hr & Hl). exists r'. split; [congruence|exact Hl].
Qed.

Lemma find_cached_none vs l : forall i, find_cached vs l i = None ->
  forall v, In v vs -> vin v = true -> vlabel v <> l.
Proof.
  induction vs as [|a vs IH]; intros i H v Hv Hin; [destruct Hv|].
  simpl in H. destruct (vin a && phase_eqb (vlabel a) l) eqn:E; [discriminate|].
  destruct Hv as [->|Hv].
  - rewrite Hin in E. simpl in E. apply phase_eqb_neq. exact E.
  - eapply IH; eauto.
Qed.

Lemma in_upd {A} (l : list A) i (x w : A) : In w (upd l i x) -> w = x \/ In w l.
Proof.
  revert i. induction l as [|a l IH]; intros [|i] H; simpl in *; auto.
  - destruct H as [->|H]; auto.
  - destruct H as [->|H]; auto. destruct (IH i H); auto.
Qed.

Lemma touch_live s i v :
  live_inv s -> nth_error (views s) i = Some v -> live_inv (set_views s (upd (views s) i (touch_mass v))).
Proof.
  intros L N w Hw. simpl in Hw. apply in_upd in Hw. destruct Hw as [->|Hw]; [|exact (L w Hw)].
  exact (L v (nth_error_In _ _ N)).
Qed.

Lemma step_live s o s' : live_inv s -> step s o = Ok s' -> live_inv s'.
Proof.
  intros L H. destruct o; simpl in H.
  - eapply set_phases_live; eauto.
  - eapply set_phase_live; eauto.
  - unfold reduce_phases in H. destruct (par s); [inversion H; subst; exact L|]. eapply set_phase_live; eauto.
  - unfold as_stream in H. destruct (par s) as [|r]; [inversion H; subst; exact L|].
    destruct (phase_string (heap s) r) as [|q [|q' l']].
    + destruct (pset_list (rset r)); [discriminate|]. eapply set_phase_live; eauto.
    + eapply set_phase_live; eauto.
    + discriminate.
  - unfold accessor in H. destruct (acc_pair a) as [x y]. destruct (par s) as [p c|r] eqn:Ps.
    + eapply set_phases_live; [eapply relabel_live; eauto|exact H].
    + destruct (rset r x && rset r y); [inversion H; subst; exact L|]. eapply set_phases_live; eauto.
  - unfold get_view in H. destruct (par s) as [p c|r] eqn:Ps.
    + destruct (lower_eqb l p); [|discriminate]. inversion H; subst. intros v Hv. exact (L v Hv).
    + destruct (find_cached (views s) l 0); [inversion H; subst; intros v Hv; exact (L v Hv)|].
      destruct (rlookup r l) as [c|] eqn:Lk; [|discriminate]. inversion H; subst.
      intros v Hv. simpl in Hv. simpl. apply in_app_or in Hv. destruct Hv as [Hv|[<-|[]]].
      * exact (L v Hv).
      * simpl. split; auto. intros _. exists r. split; auto.
  - unfold write_view in H. destruct (nth_error (views s) i); [|discriminate]. inversion H; subst.
    apply heap_only_live; exact L.
  - unfold write_parent in H. destruct (par s) as [p c|r].
    + inversion H; subst. apply heap_only_live; exact L.
    + destruct (rlookup r l); [|discriminate]. inversion H; subst. apply heap_only_live; exact L.
  - inversion H; subst. apply tcs_only_live; exact L.
  - inversion H; subst. apply tcs_only_live; exact L.
  - destruct (nth_error (views s) i); [|discriminate]. inversion H; subst. apply tcs_only_live; exact L.
  - destruct (nth_error (views s) i); [|discriminate]. inversion H; subst. apply tcs_only_live; exact L.
  - destruct (nth_error (views s) i) as [v|] eqn:N; [|discriminate].
    destruct (vlocked v).
    + destruct (phase_eqb (vphase v) l); [|discriminate]. inversion H; subst. exact L.
    + inversion H; subst. intros w Hw. simpl in Hw. apply in_upd in Hw. destruct Hw as [->|Hw]; [|exact (L w Hw)].
      exact (L v (nth_error_In _ _ N)).
  - unfold view_mass_touch in H. destruct (nth_error (views s) i) as [v|] eqn:N; [|discriminate].
    inversion H; subst. apply touch_live; auto.
  - unfold view_mass_write in H. destruct (nth_error (views s) i) as [v|] eqn:N; [|discriminate].
    inversion H; subst. apply heap_only_live. apply touch_live; auto.
  - inversion H; subst. intros v Hv. exact (L v Hv).
  - destruct (nth_error (saved s) k); [|discriminate]. eapply restore_live; eauto.
Qed.

Lemma run_live ops : forall s s', live_inv s -> run s ops = Ok s' -> live_inv s'.
Proof.
  induction ops as [|o ops IH]; intros s s' L H; simpl in H.
  - inversion H; subst; exact L.
  - destruct (step s o) as [s1|e] eqn:S1; [|discriminate]. simpl in H.
    eapply IH; [eapply step_live; eauto|exact H].
Qed.

(* ================= well-formed states, dense abstraction ================= *)
Definition fl (s : st) (p : phase) (j : nat) : Q := nthq (flow s p) j.
Definition sdwf (n : nat) (d : sdata) : Prop := forall p v, sd_rows d p = Some v -> length v = n.
Definition par_wf (h : list vec) (p : repr) : Prop :=
  match p with Single _ c => (c < length h)%nat | Multi r => rwf h r end.
Definition wf (s : st) : Prop :=
  hwf (nch s) (heap s) /\ par_wf (heap s) (par s) /\ (ptc s < length (tcs s))%nat /\
  Forall (sdwf (nch s)) (saved s).
Definition frame (s s' : st) : Prop :=
  nch s' = nch s /\ tcs s' = tcs s /\ ptc s' = ptc s /\ saved s' = saved s /\ lastret s' = lastret s.
(* the set of phase labels the stream has now *)
Definition pset_now (s : st) : pset :=
  match par s with Single q _ => (fun p => phase_eqb p q) | Multi r => rset r end.
(* material of phase p is found in p if the stream now has p, else in the other case *)
Definition placed (s s' : st) : Prop :=
  forall q j, fl s' q j == psum all_phases (fun p => if lands (pset_now s') p q then fl s p j else 0).
(* every non-empty phase of s has a place in t (up to case) *)
Definition covers (s : st) (t : pset) : Prop := forall p j, resolve t p = None -> fl s p j == 0.

Lemma total_psum s j : total s j = psum all_phases (fun p => fl s p j).
Proof. reflexivity. Qed.

Lemma fl_multi s r p j : par s = Multi r -> fl s p j == rowv (heap s) r p j.
Proof.
  intros H. unfold fl, flow, rowv. rewrite H. destruct (r p); [reflexivity|apply nthq_vzero].
Qed.
Lemma fl_single s q c p j : par s = Single q c ->
  fl s p j == if phase_eqb p q then nthq (cellv (heap s) c) j else 0.
Proof.
  intros H. unfold fl, flow. rewrite H. destruct (phase_eqb p q); [reflexivity|apply nthq_vzero].
Qed.
Lemma total_single s q c j : par s = Single q c -> total s j == nthq (cellv (heap s) c) j.
Proof.
  intros H. rewrite total_psum.
  rewrite (psum_ext all_phases _ (fun p => if phase_eqb p q then nthq (cellv (heap s) c) j else 0)).
  - apply psum_indicator; [apply all_phases_nodup|apply all_phases_in].
  - intros p _. apply fl_single. exact H.
Qed.

Lemma resolve_ext t t' p : (forall x, t x = t' x) -> resolve t p = resolve t' p.
Proof. intros H. unfold resolve. rewrite (H p). destruct (swapc p) as [q|]; [rewrite (H q)|]; reflexivity. Qed.
Lemma lands_ext t t' p q : (forall x, t x = t' x) -> lands t p q = lands t' p q.
Proof. intros H. unfold lands. rewrite (resolve_ext t t' p H). reflexivity. Qed.
Lemma resolve_self t p : t p = true -> resolve t p = Some p.
Proof. intros H. unfold resolve. rewrite H. reflexivity. Qed.

(* a target in which every non-empty phase keeps its own label moves nothing *)
Lemma psum_lands_id t f q :
  (forall p, resolve t p <> Some p -> f p == 0) ->
  psum all_phases (fun p => if lands t p q then f p else 0) == f q.
Proof.
  intros H.
  rewrite (psum_ext all_phases _ (fun p => if phase_eqb p q then f q else 0)).
  - apply psum_indicator; [apply all_phases_nodup|apply all_phases_in].
  - intros p _. unfold lands. destruct (phase_eqb p q) eqn:E.
    + apply phase_eqb_eq in E. subst p.
      destruct (resolve t q) as [q'|] eqn:R.
      * destruct (phase_eqb q q') eqn:E'; [reflexivity|].
        symmetry. apply H. intros X. rewrite R in X. inversion X; subst. rewrite phase_eqb_refl in E'. discriminate.
      * symmetry. apply H. rewrite R. discriminate.
    + destruct (resolve t p) as [q'|] eqn:R; [|reflexivity].
      destruct (phase_eqb q q') eqn:E'; [|reflexivity].
      apply phase_eqb_eq in E'. subst q'. apply H. intros X. rewrite R in X. inversion X; subst.
      rewrite phase_eqb_refl in E. discriminate.
Qed.

(* placement + every non-empty phase placed  ==>  totals *)
Lemma placed_total s s' :
  placed s s' -> covers s (pset_now s') -> forall j, total s' j == total s j.
Proof.
  intros Hp Hc j. rewrite !total_psum.
  rewrite (psum_ext all_phases _ (fun q => psum all_phases (fun p => if lands (pset_now s') p q then fl s p j else 0)))
    by (intros q _; apply Hp).
  rewrite psum_swap. apply psum_ext. intros p _.
  unfold lands. destruct (resolve (pset_now s') p) as [q'|] eqn:R.
  - apply (psum_indicator all_phases q' (fl s p j)); [apply all_phases_nodup|apply all_phases_in].
  - rewrite psum_zero by (intros; reflexivity). symmetry. apply Hc. exact R.
Qed.

Lemma single_placed s s' q c :
  par s' = Single q c -> (forall j, fl s' q j == total s j) -> covers s (pset_now s') -> placed s s'.
Proof.
  intros Hs Ht Hc q0 j. rewrite (fl_single s' q c q0 j Hs).
  assert (PN : forall x, pset_now s' x = phase_eqb x q) by (intros x; unfold pset_now; rewrite Hs; reflexivity).
  destruct (phase_eqb q0 q) eqn:E.
  - apply phase_eqb_eq in E. subst q0.
    pose proof (fl_single s' q c q j Hs) as X. rewrite phase_eqb_refl in X. rewrite <- X.
    rewrite Ht, total_psum.
    apply psum_ext. intros p _. unfold lands. destruct (resolve (pset_now s') p) as [q'|] eqn:R.
    + apply resolve_in in R. rewrite PN in R. apply phase_eqb_eq in R. subst q'.
      rewrite phase_eqb_refl. reflexivity.
    + apply Hc. exact R.
  - symmetry. apply psum_zero. intros p _. unfold lands.
    destruct (resolve (pset_now s') p) as [q'|] eqn:R; [|reflexivity].
    apply resolve_in in R. rewrite PN in R. apply phase_eqb_eq in R. subst q'. rewrite E. reflexivity.
Qed.

Lemma wf_views_irrelevant s v : wf s -> wf (set_views s v).
Proof. intros H; exact H. Qed.

Lemma to_single_spec s p s' :
  wf s -> to_single s p = Ok s' ->
  wf s' /\ frame s s' /\ (exists c, par s' = Single p c) /\ (forall j, fl s' p j == total s j).
Proof.
  unfold to_single. intros (Hh & Hp & Htc & Hsv) H. destruct (par s) as [p0 c|r] eqn:Ps.
  - inversion H; subst. simpl in Hp. split; [|split; [|split]].
    + repeat split; simpl; auto.
    + repeat split.
    + exists c. reflexivity.
    + intros j. match goal with |- fl ?S _ _ == _ => rewrite (fl_single S p c p j eq_refl) end. rewrite phase_eqb_refl. simpl.
      rewrite (total_single s p0 c j Ps). reflexivity.
  - destruct (Nat.eqb (pset_card (rset r)) 0); [discriminate|]. inversion H; subst. clear H.
    simpl in Hp. destruct Hp as [Hr Hinj].
    destruct (sum_rows_spec (nch s) (heap s) r Hh Hr) as [Lv Sv].
    split; [|split; [|split]].
    + unfold wf; simpl. split; [apply hwf_app; auto|]. split; [rewrite app_length; simpl; lia|]. split; auto.
    + repeat split.
    + eexists. reflexivity.
    + intros j. match goal with |- fl ?S _ _ == _ => rewrite (fl_single S p (length (heap s)) p j eq_refl) end. rewrite phase_eqb_refl. simpl.
      rewrite cellv_app_new. rewrite Sv. rewrite total_psum. apply psum_ext. intros q _.
      symmetry. apply fl_multi. exact Ps.
Qed.

Lemma pset_eqb_true a b : pset_eqb a b = true -> forall p, a p = b p.
Proof.
  unfold pset_eqb. rewrite forallb_forall. intros H p. specialize (H p (all_phases_in p)).
  apply Bool.eqb_prop in H. exact H.
Qed.

Lemma set_phases_multi_target s t s' :
  wf s -> set_phases s t false = Ok s' -> pset_card t <> 1%nat ->
  wf s' /\ frame s s' /\ (forall p, pset_now s' p = t p) /\ covers s t /\ placed s s'.
Proof.
  unfold set_phases. intros (Hh & Hp & Htc & Hsv) H Hcard. rewrite Nat.add_0_r in H.
  apply Nat.eqb_neq in Hcard. rewrite Hcard in H.
  destruct (par s) as [p0 c|r0] eqn:Ps.
  - (* Stream -> MultiStream *)
    destruct (blank (nch s) t (heap s)) as [h1 r] eqn:B.
    destruct (blank_spec _ _ _ _ _ B) as (E & Hset & Hrange & Hinj).
    destruct (blank_cells _ _ _ _ _ B) as (Cold & Cnew & Clen).
    assert (Hh1 : hwf (nch s) h1) by (eapply blank_hwf; eauto).
    assert (Hr1 : rwf h1 r) by (split; [intros p c' Hc'; apply (Hrange p c' Hc')|exact Hinj]).
    simpl in Hp.
    assert (Z1 : forall q j, rowv h1 r q j == 0).
    { intros q j. unfold rowv. destruct (r q) as [c'|] eqn:Rq; [|reflexivity].
      rewrite Cnew by (apply (Hrange q c' Rq)). apply nthq_vzero. }
    destruct (any_nz (cellv (heap s) c)) eqn:NZ.
    + destruct (rlookup r p0) as [c'|] eqn:Lk; [|discriminate]. inversion H as [Hs']; subst s'; clear H.
      destruct (rlookup_some r p0 c' Lk) as (q0 & Rq0 & Rc').
      assert (Lc' : (c' < length h1)%nat) by (apply (Hrange q0 c' Rc')).
      split; [|split; [|split; [|split]]].
      * unfold wf; simpl. split; [apply hwf_upd; auto|].
        split; [apply (rwf_len h1); auto; rewrite upd_length; lia|]. split; auto.
      * repeat split.
      * intros p. unfold pset_now; simpl. apply Hset.
      * intros p j Rn. rewrite (fl_single s p0 c p j Ps). destruct (phase_eqb p p0) eqn:Ep; [|reflexivity].
        apply phase_eqb_eq in Ep. subst p.
        rewrite (resolve_ext t (rset r) p0) in Rn by (intros x; symmetry; apply Hset). congruence.
      * intros q j. match goal with |- fl ?S _ _ == _ => rewrite (fl_multi S r q j eq_refl) end. simpl.
        rewrite (psum_ext all_phases _ (fun p => if phase_eqb p p0
                    then (if phase_eqb q q0 then nthq (cellv (heap s) c) j else 0) else 0)).
        -- rewrite psum_indicator by (try apply all_phases_nodup; apply all_phases_in).
           unfold rowv. destruct (phase_eqb q q0) eqn:Eq.
           ++ apply phase_eqb_eq in Eq. subst q. rewrite Rc'. rewrite cellv_upd_same by exact Lc'. reflexivity.
           ++ destruct (r q) as [c2|] eqn:Rq; [|reflexivity].
              rewrite cellv_upd_other.
              ** rewrite Cnew by (apply (Hrange q c2 Rq)). apply nthq_vzero.
              ** intros ->. apply phase_eqb_neq in Eq. apply Eq. eapply Hinj; eauto.
        -- intros p _. pose proof (fl_single s p0 c p j Ps) as Fp. unfold pset_now; simpl.
           destruct (phase_eqb p p0) eqn:Ep.
           ++ apply phase_eqb_eq in Ep. subst p. unfold lands. rewrite Rq0.
              destruct (phase_eqb q q0); [exact Fp|reflexivity].
           ++ destruct (lands (rset r) p q); [exact Fp|reflexivity].
    + inversion H as [Hs']; subst s'; clear H.
      assert (Zs : forall p j, fl s p j == 0).
      { intros p j. rewrite (fl_single s p0 c p j Ps). destruct (phase_eqb p p0); [|reflexivity].
        apply any_nz_false. exact NZ. }
      split; [|split; [|split; [|split]]].
      * unfold wf; simpl. split; auto.
      * repeat split.
      * intros p. unfold pset_now; simpl. apply Hset.
      * intros p j _. apply Zs.
      * intros q j. match goal with |- fl ?S _ _ == _ => rewrite (fl_multi S r q j eq_refl) end. simpl. rewrite Z1.
        symmetry. apply psum_zero. intros p _. destruct (lands _ p q); [apply Zs|reflexivity].
  - (* MultiStream -> MultiStream *)
    simpl in Hp. destruct Hp as [Hr0 Hinj0].
    destruct (pset_eqb t (rset r0)) eqn:Eqb.
    + inversion H as [Hs']; subst s'; clear H. pose proof (pset_eqb_true _ _ Eqb) as Et.
      assert (PN : forall x, pset_now s x = t x) by (intros x; unfold pset_now; rewrite Ps; symmetry; apply Et).
      split; [repeat split; auto; rewrite Ps; split; auto|]. split; [repeat split|]. split; [exact PN|].
      assert (Cv : covers s t).
      { intros p j Rn. rewrite (fl_multi s r0 p j Ps). unfold rowv.
        destruct (r0 p) eqn:Rp; [|reflexivity].
        rewrite (resolve_self t p) in Rn; [discriminate|]. rewrite Et. unfold rset. rewrite Rp. reflexivity. }
      split; [exact Cv|].
      intros q j. symmetry.
      rewrite (psum_ext all_phases _ (fun p => if lands t p q then fl s p j else 0))
        by (intros p _; rewrite (lands_ext _ t p q PN); reflexivity).
      apply (psum_lands_id t (fun p => fl s p j) q). intros p Hne.
      rewrite (fl_multi s r0 p j Ps). unfold rowv. destruct (r0 p) eqn:Rp; [|reflexivity].
      exfalso. apply Hne. apply resolve_self. rewrite Et. unfold rset. rewrite Rp. reflexivity.
    + destruct (blank (nch s) t (heap s)) as [h1 r] eqn:B.
      destruct (blank_spec _ _ _ _ _ B) as (E & Hset & Hrange & Hinj).
      destruct (blank_cells _ _ _ _ _ B) as (Cold & Cnew & Clen).
      assert (Hh1 : hwf (nch s) h1) by (eapply blank_hwf; eauto).
      assert (Hr1 : rwf h1 r) by (split; [intros p c' Hc'; apply (Hrange p c' Hc')|exact Hinj]).
      destruct (move_rows all_phases r0 h1 r) as [h2|e] eqn:M; [|discriminate]. simpl in H.
      inversion H as [Hs']; subst s'; clear H.
      assert (Hnew : forall p c, r p = Some c -> (length (heap s) <= c)%nat) by (intros p c Hc; apply (Hrange p c Hc)).
      assert (Hold : forall p c, r0 p = Some c -> (c < length (heap s))%nat /\ (c < length h1)%nat).
      { intros p c Hc. specialize (Hr0 p c Hc). lia. }
      destruct (move_rows_spec (nch s) (length (heap s)) r0 r all_phases h1 h2 Hh1 Hr1 Hnew Hold M)
        as (A1 & A2 & A3 & A4 & A5).
      assert (Z1 : forall q j, rowv h1 r q j == 0).
      { intros q j. unfold rowv. destruct (r q) as [c'|] eqn:Rq; [|reflexivity].
        rewrite Cnew by (apply (Hrange q c' Rq)). apply nthq_vzero. }
      assert (Old : forall p j, rowv h1 r0 p j == fl s p j).
      { intros p j. rewrite (fl_multi s r0 p j Ps). unfold rowv. destruct (r0 p) as [c|] eqn:Rp; [|reflexivity].
        rewrite Cold by (apply (Hr0 p c Rp)). reflexivity. }
      split; [|split; [|split; [|split]]].
      * unfold wf; simpl. split; [exact A2|]. split; [apply (rwf_len h1); auto; lia|]. split; auto.
      * repeat split.
      * intros p. unfold pset_now; simpl. apply Hset.
      * intros p j Rn. rewrite <- Old. apply A5; [apply all_phases_in|].
        rewrite (resolve_ext (rset r) t p) by (intros x; apply Hset). exact Rn.
      * intros q j. match goal with |- fl ?S _ _ == _ => rewrite (fl_multi S r q j eq_refl) end. simpl. rewrite A4, Z1.
        rewrite Qplus_0_l. apply psum_ext. intros p _. unfold pset_now; simpl.
        destruct (lands (rset r) p q); [apply Old|reflexivity].
Qed.

(* ================= every conversion keeps totals, T, P and well-formedness ================= *)
Definition TP_same (s s' : st) : Prop := T_of s' = T_of s /\ P_of s' = P_of s.
Lemma frame_TP s s' : frame s s' -> TP_same s s'.
Proof. intros (_ & A & B & _). unfold TP_same, T_of, P_of. rewrite A, B. split; reflexivity. Qed.

Definition conv_ok (s s' : st) : Prop :=
  wf s' /\ frame s s' /\ (forall j, total s' j == total s j) /\ (covers s (pset_now s') -> placed s s').

Lemma placed_refl s : placed s s.
Proof.
  intros q j. symmetry. apply (psum_lands_id (pset_now s) (fun p => fl s p j) q).
  intros p Hne. unfold pset_now in Hne. destruct (par s) as [q0 c|r] eqn:Ps.
  - rewrite (fl_single s q0 c p j Ps). destruct (phase_eqb p q0) eqn:E; [|reflexivity].
    exfalso. apply Hne. apply resolve_self. exact E.
  - rewrite (fl_multi s r p j Ps). unfold rowv. destruct (r p) eqn:Rp; [|reflexivity].
    exfalso. apply Hne. apply resolve_self. unfold rset. rewrite Rp. reflexivity.
Qed.

Lemma conv_refl s : wf s -> conv_ok s s.
Proof.
  intros W. split; [exact W|]. split; [repeat split|]. split; [intros; reflexivity|].
  intros _. apply placed_refl.
Qed.

(* an operation that leaves heap and representation alone *)
Lemma same_flow_conv s s' :
  wf s' -> frame s s' -> heap s' = heap s -> par s' = par s -> conv_ok s s'.
Proof.
  intros W' F Eh Ep. pose proof F as (En & _).
  assert (Efl : forall p j, fl s' p j = fl s p j).
  { intros p j. unfold fl, flow. rewrite Ep, Eh, En. reflexivity. }
  split; [exact W'|]. split; [exact F|]. split.
  - intros j. rewrite !total_psum. apply psum_ext. intros p _. rewrite Efl. reflexivity.
  - intros _ q j. rewrite Efl. rewrite (placed_refl s q j).
    assert (PN : forall x, pset_now s x = pset_now s' x) by (intros x; unfold pset_now; rewrite Ep; reflexivity).
    apply psum_ext. intros p _. rewrite (lands_ext _ _ p q PN). reflexivity.
Qed.

Lemma to_single_conv s p s' : wf s -> to_single s p = Ok s' -> conv_ok s s'.
Proof.
  intros W H. destruct (to_single_spec s p s' W H) as (W' & F & (c & Ps') & Ht).
  split; [exact W'|]. split; [exact F|]. split.
  - intros j. rewrite (total_single s' p c j Ps').
    pose proof (fl_single s' p c p j Ps') as X. rewrite phase_eqb_refl in X. rewrite <- X. apply Ht.
  - intros Cv. eapply single_placed; eauto.
Qed.

Lemma set_phases_conv s t bad s' : wf s -> set_phases s t bad = Ok s' -> conv_ok s s'.
Proof.
  intros W H. destruct bad.
  - unfold set_phases in H. destruct (par s); destruct (Nat.eqb _ 1); try discriminate.
    destruct (Nat.eqb _ 0); discriminate.
  - destruct (Nat.eq_dec (pset_card t) 1) as [E|E].
    + unfold set_phases in H. rewrite Nat.add_0_r, E in H. simpl in H.
      destruct (par s); eapply to_single_conv; eauto.
    + destruct (set_phases_multi_target s t s' W H E) as (W' & F & PN & Cv & Pl).
      split; [exact W'|]. split; [exact F|]. split; [|intros _; exact Pl].
      apply placed_total; [exact Pl|]. intros p j Rn. apply Cv.
      rewrite (resolve_ext t (pset_now s') p) by (intros x; symmetry; apply PN). exact Rn.
Qed.

Lemma set_phase_conv s ls s' : wf s -> set_phase s ls = Ok s' -> conv_ok s s'.
Proof.
  intros W H. unfold set_phase in H. destruct (par s) as [p0 c|r] eqn:Ps.
  - destruct ls as [|q [|? ?]]; try discriminate.
    apply (to_single_conv s q s' W). unfold to_single. rewrite Ps. exact H.
  - destruct ls as [|q [|q' l']].
    + eapply to_single_conv; eauto.
    + eapply to_single_conv; eauto.
    + eapply set_phases_conv; eauto.
Qed.

Definition conversion (o : op) : bool :=
  match o with
  | OSetPhases _ _ | OSetPhase _ | OReduce | OAsStream | OAcc _ | OView _ | OSave => true
  | _ => false
  end.

Lemma wf_set_lastret s k : wf s -> wf (set_lastret s k).
Proof. intros W; exact W. Qed.


Definition conv_res (s s' : st) : Prop :=
  wf s' /\ nch s' = nch s /\ TP_same s s' /\ (forall j, total s' j == total s j) /\
  (covers s (pset_now s') -> placed s s').

Lemma conv_ok_res s s' : conv_ok s s' -> conv_res s s'.
Proof.
  intros (W & F & T & Pl). split; [exact W|]. split; [apply F|]. split; [apply frame_TP; exact F|].
  split; auto.
Qed.

Lemma same_flow_res s s' :
  wf s' -> nch s' = nch s -> tcs s' = tcs s -> ptc s' = ptc s -> heap s' = heap s -> par s' = par s ->
  conv_res s s'.
Proof.
  intros W' En Et Ec Eh Ep.
  assert (Efl : forall p j, fl s' p j = fl s p j).
  { intros p j. unfold fl, flow. rewrite Ep, Eh, En. reflexivity. }
  split; [exact W'|]. split; [exact En|]. split; [|split].
  - unfold TP_same, T_of, P_of. rewrite Et, Ec. split; reflexivity.
  - intros j. rewrite !total_psum. apply psum_ext. intros p _. rewrite Efl. reflexivity.
  - intros _ q j. rewrite Efl. rewrite (placed_refl s q j).
    assert (PN : forall x, pset_now s x = pset_now s' x) by (intros x; unfold pset_now; rewrite Ep; reflexivity).
    apply psum_ext. intros p _. rewrite (lands_ext _ _ p q PN). reflexivity.
Qed.

Lemma snapshot_wf s : wf s -> sdwf (nch s) (snapshot s).
Proof.
  intros (Hh & Hp & _). unfold snapshot. destruct (tc_get (tcs s) (ptc s)) as [T P].
  destruct (par s) as [p c|r]; intros q v; simpl.
  - destruct (phase_eqb q p); [|discriminate]. intros E; inversion E; subst. apply Hh. exact Hp.
  - destruct (r q) as [c|] eqn:Rq; [|discriminate]. intros E; inversion E; subst.
    apply Hh. destruct Hp as [Hr _]. eapply Hr; eauto.
Qed.

(* the operation does not rewrite the stream's phase label: everything but .vle/.lle/.sle of a
   single-phase Stream whose label the accessor replaces by 'l' *)
Definition norelabel (s : st) (o : op) : Prop :=
  match o with
  | OAcc a => match par s with Single p _ => acc_phase a p = p | Multi _ => True end
  | _ => True
  end.

Lemma set_par_same s r : par s = r -> set_par s r = s.
Proof. intros <-. destruct s; reflexivity. Qed.

Lemma relabel_wf s p c q : par s = Single p c -> wf s -> wf (set_par s (Single q c)).
Proof. intros Ps (A & B & C & D). rewrite Ps in B. repeat split; simpl; auto. Qed.

Lemma step_conv s o s' :
  conversion o = true -> norelabel s o -> wf s -> step s o = Ok s' -> conv_res s s'.
Proof.
  intros C NR W H. destruct o; simpl in C; try discriminate; simpl in H.
  - apply conv_ok_res. eapply set_phases_conv; eauto.
  - apply conv_ok_res. eapply set_phase_conv; eauto.
  - unfold reduce_phases in H. destruct (par s).
    + inversion H; subst. apply conv_ok_res. apply conv_refl. exact W.
    + apply conv_ok_res. eapply set_phase_conv; eauto.
  - unfold as_stream in H. destruct (par s) as [|r].
    + inversion H; subst. apply conv_ok_res. apply conv_refl. exact W.
    + destruct (phase_string (heap s) r) as [|q [|q' l']].
      * destruct (pset_list (rset r)); [discriminate|]. apply conv_ok_res. eapply set_phase_conv; eauto.
      * apply conv_ok_res. eapply set_phase_conv; eauto.
      * discriminate.
  - unfold accessor in H. destruct (acc_pair a) as [x y]. simpl in NR. destruct (par s) as [p c|r] eqn:Ps.
    + rewrite NR in H. rewrite (set_par_same s (Single p c) Ps) in H.
      apply conv_ok_res. eapply set_phases_conv; eauto.
    + destruct (rset r x && rset r y).
      * inversion H; subst. apply conv_ok_res. apply conv_refl. exact W.
      * apply conv_ok_res. eapply set_phases_conv; eauto.
  - unfold get_view in H. destruct (par s) as [p c|r] eqn:Ps.
    + destruct (lower_eqb l p); [|discriminate]. inversion H; subst.
      apply same_flow_res; auto.
    + destruct (find_cached (views s) l 0).
      * inversion H; subst. apply same_flow_res; auto.
      * destruct (rlookup r l); [|discriminate]. inversion H; subst. apply same_flow_res; auto.
  - inversion H; subst. apply same_flow_res; auto.
    pose proof (snapshot_wf s W) as SW. destruct W as (A & B & D & E).
    split; [exact A|]. split; [exact B|]. split; [exact D|]. simpl.
    apply Forall_app. split; [exact E|]. constructor; [exact SW|constructor].
Qed.

(* totals, T, P and well-formedness survive EVERY conversion, the relabelling accessors included *)
Definition conv_res0 (s s' : st) : Prop :=
  wf s' /\ nch s' = nch s /\ TP_same s s' /\ (forall j, total s' j == total s j).

Lemma relabel_conv s p c q : par s = Single p c -> wf s -> conv_ok s (set_par s (Single q c)).
Proof.
  intros Ps W. apply (to_single_conv s q _ W). unfold to_single. rewrite Ps. reflexivity.
Qed.

Lemma step_conv0 s o s' :
  conversion o = true -> wf s -> step s o = Ok s' -> conv_res0 s s'.
Proof.
  intros C W H.
  assert (Gen : norelabel s o -> conv_res0 s s').
  { intros NR. destruct (step_conv s o s' C NR W H) as (A & B & D & E & _). split; [exact A|]. split; [exact B|]. split; [exact D|exact E]. }
  destruct o; try (apply Gen; exact I).
  simpl in H. unfold accessor in H. destruct (acc_pair a) as [x y] eqn:Ea.
  destruct (par s) as [p c|r] eqn:Ps.
  - destruct (relabel_conv s p c (acc_phase a p) Ps W) as (W1 & F1 & T1 & _).
    destruct (set_phases_conv _ _ _ _ W1 H) as (W' & F' & T' & _).
    pose proof (frame_TP _ _ F1) as [TA PA]. pose proof (frame_TP _ _ F') as [TB PB].
    split; [exact W'|]. split; [destruct F1 as (n1 & _); destruct F' as (n' & _); congruence|].
    split; [split; congruence|]. intros j. rewrite T'. apply T1.
  - apply Gen. simpl. rewrite Ps. exact I.
Qed.

(* ================= accessors move nothing ================= *)
Lemma card_two t x y : t x = true -> t y = true -> x <> y -> pset_card t <> 1%nat.
Proof.
  unfold pset_card, pset_list, all_phases. intros Hx Hy Hne. simpl.
  destruct x, y; try congruence;
    destruct (t PL), (t PS), (t Pg), (t Pl), (t Ps); simpl; try discriminate; congruence.
Qed.

Lemma superset_keeps s t s' :
  wf s -> set_phases s t false = Ok s' -> pset_card t <> 1%nat ->
  (forall p, pset_now s p = true -> t p = true) ->
  covers s (pset_now s') /\ forall q j, fl s' q j == fl s q j.
Proof.
  intros W H Hc Sup. destruct (set_phases_multi_target s t s' W H Hc) as (_ & _ & PN & Cv & Pl).
  assert (Z : forall p j, resolve t p <> Some p -> fl s p j == 0).
  { intros p j Hne. destruct (pset_now s p) eqn:Np.
    - exfalso. apply Hne. apply resolve_self. apply Sup. exact Np.
    - unfold pset_now in Np. destruct (par s) as [q0 c|r] eqn:Ps.
      + rewrite (fl_single s q0 c p j Ps). rewrite Np. reflexivity.
      + rewrite (fl_multi s r p j Ps). unfold rowv. unfold rset in Np. destruct (r p); [discriminate|reflexivity]. }
  split.
  - intros p j Rn. apply Cv. rewrite (resolve_ext t (pset_now s') p) by (intros x; symmetry; apply PN). exact Rn.
  - intros q j. rewrite (Pl q j).
    rewrite (psum_ext all_phases _ (fun p => if lands t p q then fl s p j else 0))
      by (intros p _; rewrite (lands_ext _ t p q PN); reflexivity).
    apply (psum_lands_id t (fun p => fl s p j) q). intros p Hne. apply Z. exact Hne.
Qed.

Lemma pset_of_in ls p : pset_of ls p = true <-> In p ls.
Proof.
  unfold pset_of. rewrite existsb_exists. split.
  - intros (x & Hx & E). apply phase_eqb_eq in E. subst. exact Hx.
  - intros H. exists p. split; [exact H|apply phase_eqb_refl].
Qed.

(* the stream's phase already is one of the two phases of the equilibrium (always so for a MultiStream) *)
Definition acc_in_pair (s : st) (a : acc) : Prop :=
  match par s with
  | Single p _ => p = fst (acc_pair a) \/ p = snd (acc_pair a)
  | Multi _ => True
  end.

Lemma in_pair_norelabel a p : p = fst (acc_pair a) \/ p = snd (acc_pair a) -> acc_phase a p = p.
Proof. destruct a; simpl; intros [->| ->]; reflexivity. Qed.

Lemma accessor_keeps s a s' :
  wf s -> accessor s a = Ok s' -> acc_in_pair s a ->
  covers s (pset_now s') /\ (forall q j, fl s' q j == fl s q j) /\
  (forall p, pset_now s p = true -> pset_now s' p = true).
Proof.
  intros W H IP. unfold accessor in H. unfold acc_in_pair in IP. destruct (acc_pair a) as [x y] eqn:Ea.
  assert (Hxy : x <> y) by (destruct a; inversion Ea; subst; discriminate).
  destruct (par s) as [p0 c|r] eqn:Ps.
  - simpl in IP. rewrite (in_pair_norelabel a p0) in H by (rewrite Ea; exact IP).
    rewrite (set_par_same s (Single p0 c) Ps) in H.
    assert (Hc : pset_card (pset_of [x; y]) <> 1%nat).
    { apply (card_two _ x y); auto; apply pset_of_in; simpl; auto. }
    assert (Sup : forall p, pset_now s p = true -> pset_of [x; y] p = true).
    { intros p Hp. unfold pset_now in Hp. rewrite Ps in Hp. apply phase_eqb_eq in Hp. subst.
      apply pset_of_in. simpl. destruct IP as [->| ->]; auto. }
    destruct (superset_keeps s _ s' W H Hc Sup) as [A B]. split; [exact A|]. split; [exact B|].
    destruct (set_phases_multi_target s _ s' W H Hc) as (_ & _ & PN & _).
    intros p Hp. rewrite PN. apply Sup. exact Hp.
  - destruct (rset r x && rset r y) eqn:Both.
    + inversion H; subst. split; [|split; auto; intros; reflexivity].
      intros p j Rn. unfold pset_now in Rn. rewrite Ps in Rn.
      rewrite (fl_multi s' r p j Ps). unfold rowv. destruct (r p) eqn:Rp; [|reflexivity].
      rewrite (resolve_self (rset r) p) in Rn; [discriminate|]. unfold rset. rewrite Rp. reflexivity.
    + assert (Hc : pset_card (pset_union (rset r) (pset_of [x; y])) <> 1%nat).
      { apply (card_two _ x y); auto; unfold pset_union; apply orb_true_iff; right; apply pset_of_in; simpl; auto. }
      assert (Sup : forall p, pset_now s p = true -> pset_union (rset r) (pset_of [x; y]) p = true).
      { intros p Hp. unfold pset_now in Hp. rewrite Ps in Hp. unfold pset_union. rewrite Hp. reflexivity. }
      destruct (superset_keeps s _ s' W H Hc Sup) as [A B]. split; [exact A|]. split; [exact B|].
      destruct (set_phases_multi_target s _ s' W H Hc) as (_ & _ & PN & _).
      intros p Hp. rewrite PN. apply Sup. exact Hp.
Qed.

(* ================= the remaining operations keep states well-formed ================= *)
Lemma write_cell_hwf n h c j x : hwf n h -> hwf n (write_cell h c j x).
Proof.
  intros Hh. unfold write_cell. destruct (Nat.lt_ge_cases c (length h)) as [L|L].
  - apply hwf_upd; auto. rewrite upd_length. apply Hh. exact L.
  - intros c' Hc'. rewrite upd_length in Hc'. rewrite cellv_upd_other by lia. apply Hh. exact Hc'.
Qed.
Lemma write_cell_length h c j x : length (write_cell h c j x) = length h.
Proof. apply upd_length. Qed.

Lemma par_wf_len h h' p : par_wf h p -> length h' = length h -> par_wf h' p.
Proof.
  intros H E. destruct p as [q c|r]; simpl in *; [lia|]. apply (rwf_len h); auto. lia.
Qed.

Lemma heap_write_wf s h :
  wf s -> hwf (nch s) h -> length h = length (heap s) -> wf (set_heap s h).
Proof.
  intros (A & B & C & D) Hh E. split; [exact Hh|]. split; [eapply par_wf_len; eauto|]. split; auto.
Qed.
Lemma tcs_write_wf s k v : wf s -> wf (set_tcs s (upd (tcs s) k v)).
Proof. intros (A & B & C & D). repeat split; simpl; auto; try apply B. rewrite upd_length. exact C. Qed.

Lemma upd_oor {A} (l : list A) c v : (length l <= c)%nat -> upd l c v = l.
Proof. revert c. induction l as [|a l IH]; intros [|c] H; simpl in *; auto; try lia. f_equal. apply IH. lia. Qed.

Lemma empty_all_fold_spec n (r : rmap) : forall ps h,
  hwf n h ->
  let h' := fold_left (fun h p => match r p with Some c => upd h c (vzero n) | None => h end) ps h in
  length h' = length h /\ hwf n h' /\
  (forall p c, In p ps -> r p = Some c -> (c < length h)%nat -> cellv h' c = vzero n) /\
  (forall c, (forall p, In p ps -> r p <> Some c) -> cellv h' c = cellv h c) /\
  (forall c, cellv h' c = cellv h c \/ cellv h' c = vzero n).
Proof.
  induction ps as [|a ps IH]; intros h Hh; simpl.
  - repeat split; auto. intros p c [].
  - destruct (r a) as [ca|] eqn:Ra.
    + assert (Hh' : hwf n (upd h ca (vzero n))) by (apply hwf_upd; auto; apply vzero_length).
      destruct (IH _ Hh') as (A & B & C & D & E). rewrite upd_length in A.
      split; [exact A|]. split; [exact B|]. split; [|split].
      * intros p c [->|Hp] Rp Lc.
        -- rewrite Ra in Rp. inversion Rp; subst.
           destruct (E c) as [X|X]; [|exact X]. rewrite X. apply cellv_upd_same. exact Lc.
        -- apply (C p c Hp Rp). rewrite upd_length. exact Lc.
      * intros c Hc. rewrite D by (intros p Hp; apply Hc; right; exact Hp).
        apply cellv_upd_other. intros ->. apply (Hc a (or_introl eq_refl)). exact Ra.
      * intros c. destruct (E c) as [X|X]; [|right; exact X].
        destruct (Nat.eq_dec ca c) as [->|Hne].
        -- destruct (Nat.lt_ge_cases c (length h)) as [L|L].
           ++ right. rewrite X. apply cellv_upd_same. exact L.
           ++ left. rewrite X. rewrite upd_oor by exact L. reflexivity.
        -- left. rewrite X. apply cellv_upd_other. exact Hne.
    + destruct (IH _ Hh) as (A & B & C & D & E). split; [exact A|]. split; [exact B|]. split; [|split].
      * intros p c [->|Hp] Rp Lc; [congruence|]. apply (C p c Hp Rp Lc).
      * intros c Hc. apply D. intros p Hp. apply Hc. right; exact Hp.
      * exact E.
Qed.

Lemma empty_all_spec s :
  wf s -> wf (empty_all s) /\ frame s (empty_all s) /\ par (empty_all s) = par s /\
  views (empty_all s) = views s /\
  (forall p c, (match par s with Single _ c0 => c = c0 | Multi r => r p = Some c end) ->
               cellv (heap (empty_all s)) c = vzero (nch s)).
Proof.
  intros W. pose proof W as (Hh & Hp & Htc & Hsv). unfold empty_all. destruct (par s) as [q c|r] eqn:Ps.
  - split; [apply heap_write_wf; auto; [apply hwf_upd; auto; apply vzero_length|apply upd_length]|].
    split; [repeat split|]. split; [simpl; exact Ps|]. split; [reflexivity|].
    intros p c' ->. simpl. apply cellv_upd_same. exact Hp.
  - destruct (empty_all_fold_spec (nch s) r all_phases (heap s) Hh) as (A & B & C & D & E).
    split; [apply heap_write_wf; auto|]. split; [repeat split|]. split; [simpl; exact Ps|].
    split; [reflexivity|]. intros p c Rp. simpl. apply (C p c (all_phases_in p) Rp).
    destruct Hp as [Hr _]. eapply Hr; eauto.
Qed.

Lemma copy_rows_spec (r : rmap) (d : phase -> option vec) n : forall ps h,
  NoDup ps -> hwf n h -> rwf h r -> (forall p v, d p = Some v -> length v = n) ->
  let h' := fold_left (fun h p => match r p, d p with Some c, Some v => upd h c v | _, _ => h end) ps h in
  length h' = length h /\ hwf n h' /\
  (forall p c v, In p ps -> r p = Some c -> d p = Some v -> cellv h' c = v) /\
  (forall c, (forall p, In p ps -> r p <> Some c) -> cellv h' c = cellv h c).
Proof.
  induction ps as [|a ps IH]; intros h ND Hh Hr Hd; simpl.
  - repeat split; auto. intros p c v [].
  - inversion ND as [|? ? Hna ND']; subst.
    destruct (r a) as [ca|] eqn:Ra; [destruct (d a) as [va|] eqn:Da|].
    + assert (Hh' : hwf n (upd h ca va)) by (apply hwf_upd; auto; eapply Hd; eauto).
      assert (Hr' : rwf (upd h ca va) r) by (apply (rwf_len h); auto; rewrite upd_length; lia).
      destruct (IH _ ND' Hh' Hr' Hd) as (A & B & C & D). rewrite upd_length in A.
      split; [exact A|]. split; [exact B|]. split.
      * intros p c v [->|Hp] Rp Dp.
        -- rewrite Ra in Rp. rewrite Da in Dp. inversion Rp; inversion Dp; subst.
           rewrite D.
           ++ apply cellv_upd_same. destruct Hr as [Hr _]. eapply Hr; eauto.
           ++ intros p' Hp' X. destruct Hr as [_ Hinj]. assert (p' = p) by (eapply Hinj; eauto). subst. contradiction.
        -- eapply C; eauto.
      * intros c Hc. rewrite D by (intros p Hp; apply Hc; right; exact Hp).
        apply cellv_upd_other. intros ->. apply (Hc a (or_introl eq_refl)). exact Ra.
    + destruct (IH _ ND' Hh Hr Hd) as (A & B & C & D). split; [exact A|]. split; [exact B|]. split.
      * intros p c v [->|Hp] Rp Dp; [congruence|]. eapply C; eauto.
      * intros c Hc. apply D. intros p Hp. apply Hc. right; exact Hp.
    + destruct (IH _ ND' Hh Hr Hd) as (A & B & C & D). split; [exact A|]. split; [exact B|]. split.
      * intros p c v [->|Hp] Rp Dp; [congruence|]. eapply C; eauto.
      * intros c Hc. apply D. intros p Hp. apply Hc. right; exact Hp.
Qed.

(* a snapshot as get_data makes them: a Stream's has exactly its one phase *)
Definition sd_proper (d : sdata) : Prop :=
  match sd_single d with
  | Some q => forall p, isSome (sd_rows d p) = phase_eqb p q
  | None => pset_card (fun p => isSome (sd_rows d p)) <> 1%nat
  end.

Lemma card_one_hd t q : (forall p, t p = phase_eqb p q) -> pset_card t = 1%nat /\ hd Pl (pset_list t) = q.
Proof.
  intros H. unfold pset_card, pset_list, all_phases. simpl. rewrite !H. destruct q; simpl; auto.
Qed.

Lemma tc_get_upd t k v : (k < length t)%nat -> tc_get (upd t k v) k = v.
Proof.
  unfold tc_get. revert k. induction t as [|a t IH]; intros [|k] H; simpl in *; try lia; auto. apply IH. lia.
Qed.

(* what set_data leaves behind, whenever it returns *)
Lemma restore_exact s d s' :
  wf s -> sdwf (nch s) d -> sd_proper d -> restore s d = Ok s' ->
  wf s' /\ nch s' = nch s /\ saved s' = saved s /\
  T_of s' = sd_T d /\ P_of s' = sd_P d /\
  is_multi s' = negb (isSome (sd_single d)) /\
  (forall p, pset_now s' p = isSome (sd_rows d p)) /\
  (forall p, flow s' p = match sd_rows d p with Some v => v | None => vzero (nch s) end).
Proof.
  intros W Hd Hprop H. unfold restore in H.
  destruct (empty_all_spec s W) as (W0 & F0 & P0 & _ & _).
  set (t := fun p => isSome (sd_rows d p)) in *.
  destruct (set_phases (empty_all s) t false) as [s1|e] eqn:S1; [|discriminate]. simpl in H.
  destruct (set_phases_conv _ _ _ _ W0 S1) as (W1 & F1 & _ & _).
  destruct F0 as (n0 & t0 & c0 & sv0 & _). destruct F1 as (n1 & t1 & c1 & sv1 & _).
  pose proof W1 as (Hh1 & Hp1 & Htc1 & Hsv1).
  unfold sd_proper in Hprop. destruct (sd_single d) as [q|] eqn:Sd.
  - (* snapshot of a Stream *)
    destruct (card_one_hd t q Hprop) as [Card Hd1].
    assert (P1 : exists c, par s1 = Single q c).
    { unfold set_phases in S1. rewrite Nat.add_0_r, Card in S1. simpl in S1. rewrite Hd1 in S1.
      destruct (par (empty_all s)); destruct (to_single_spec _ _ _ W0 S1) as (_ & _ & X & _); exact X. }
    destruct P1 as (c & P1). rewrite P1 in H, Hp1. simpl in Hp1.
    destruct (sd_rows d q) as [v|] eqn:Rq; [|discriminate]. simpl in H. inversion H; subst s'. clear H.
    assert (Lv : length v = nch s) by (eapply Hd; eauto).
    split.
    { split; simpl; [apply hwf_upd; auto; congruence|]. split; [rewrite upd_length; exact Hp1|].
      split; [rewrite upd_length; exact Htc1|exact Hsv1]. }
    split; [simpl; congruence|]. split; [simpl; congruence|].
    unfold T_of, P_of; simpl. rewrite tc_get_upd by exact Htc1. simpl.
    split; [reflexivity|]. split; [reflexivity|]. split; [reflexivity|]. split.
    + intros p. unfold pset_now; simpl. symmetry. apply Hprop.
    + intros p. unfold flow; simpl. specialize (Hprop p). unfold t in Hprop.
      destruct (phase_eqb p q) eqn:E.
      * apply phase_eqb_eq in E. subst p. rewrite Rq. apply cellv_upd_same. exact Hp1.
      * destruct (sd_rows d p); [discriminate|]. congruence.
  - (* snapshot of a MultiStream *)
    destruct (set_phases_multi_target _ _ _ W0 S1 Hprop) as (_ & _ & PN & _).
    destruct (par s1) as [q c|r] eqn:P1.
    { exfalso. apply Hprop. apply (card_one_hd t q). intros p. rewrite <- PN. unfold pset_now. rewrite P1. reflexivity. }
    simpl in H. inversion H; subst s'. clear H.
    simpl in Hp1.
    assert (Hd' : forall p v, sd_rows d p = Some v -> length v = nch s1) by (intros p v X; rewrite n1, n0; eapply Hd; eauto).
    destruct (copy_rows_spec r (sd_rows d) (nch s1) all_phases (heap s1) all_phases_nodup Hh1 Hp1 Hd')
      as (A & B & C & D).
    fold (copy_rows (heap s1) r (sd_rows d)) in A, B, C, D.
    split.
    { split; simpl; [exact B|]. split; [rewrite P1; apply (rwf_len (heap s1)); auto; lia|].
      split; [rewrite upd_length; exact Htc1|exact Hsv1]. }
    split; [simpl; congruence|]. split; [simpl; congruence|].
    unfold T_of, P_of; simpl. rewrite tc_get_upd by exact Htc1. simpl.
    split; [reflexivity|]. split; [reflexivity|]. split; [unfold is_multi; simpl; rewrite P1; reflexivity|]. split.
    + intros p. unfold pset_now; simpl. rewrite P1. specialize (PN p). unfold pset_now in PN. rewrite P1 in PN. exact PN.
    + intros p. unfold flow; simpl. rewrite P1. specialize (PN p). unfold pset_now in PN. rewrite P1 in PN.
      unfold rset, t in PN. destruct (r p) as [c|] eqn:Rp; destruct (sd_rows d p) as [v|] eqn:Dp; try discriminate.
      * eapply C; eauto. apply all_phases_in.
      * congruence.
Qed.

(* ================= invariants of every history ================= *)
(* MultiStreams met in histories never have exactly one phase (phases= with one label gives a Stream) *)
Definition proper_state (s : st) : Prop :=
  match par s with Multi r => pset_card (rset r) <> 1%nat | Single _ _ => True end.
Definition good (s : st) : Prop := wf s /\ proper_state s /\ Forall sd_proper (saved s).

Lemma pset_card_ext a b : (forall p, a p = b p) -> pset_card a = pset_card b.
Proof. intros H. unfold pset_card, pset_list, all_phases. simpl. rewrite !H. reflexivity. Qed.

Lemma to_single_proper s p s' : to_single s p = Ok s' -> proper_state s'.
Proof.
  unfold to_single. destruct (par s); [intros H; inversion H; subst; exact I|].
  destruct (Nat.eqb _ 0); [discriminate|]. intros H; inversion H; subst. exact I.
Qed.

Lemma set_phases_proper s t bad s' : wf s -> proper_state s -> set_phases s t bad = Ok s' -> proper_state s'.
Proof.
  intros W Pr H. destruct bad.
  - unfold set_phases in H. destruct (par s); destruct (Nat.eqb _ 1); try discriminate.
    destruct (Nat.eqb _ 0); discriminate.
  - destruct (Nat.eq_dec (pset_card t) 1) as [E|E].
    + unfold set_phases in H. rewrite Nat.add_0_r, E in H. simpl in H.
      destruct (par s); eapply to_single_proper; eauto.
    + destruct (set_phases_multi_target s t s' W H E) as (_ & _ & PN & _).
      unfold proper_state. destruct (par s') as [|r] eqn:Ps'; [exact I|].
      rewrite (pset_card_ext (rset r) t); [exact E|]. intros p. specialize (PN p).
      unfold pset_now in PN. rewrite Ps' in PN. exact PN.
Qed.

Lemma set_phase_proper s ls s' : wf s -> proper_state s -> set_phase s ls = Ok s' -> proper_state s'.
Proof.
  intros W Pr H. unfold set_phase in H. destruct (par s) as [p0 c|r] eqn:Ps.
  - destruct ls as [|q [|? ?]]; try discriminate. inversion H; subst. exact I.
  - destruct ls as [|q [|q' l']]; [eapply to_single_proper; eauto|eapply to_single_proper; eauto|].
    eapply set_phases_proper; eauto.
Qed.

Lemma snapshot_proper s : proper_state s -> sd_proper (snapshot s).
Proof.
  unfold proper_state, snapshot, sd_proper. destruct (tc_get (tcs s) (ptc s)) as [T P].
  destruct (par s) as [q c|r]; simpl.
  - intros _ p. destruct (phase_eqb p q); reflexivity.
  - intros H. rewrite (pset_card_ext _ (rset r)); [exact H|]. intros p. unfold rset. destruct (r p); reflexivity.
Qed.

Lemma same_par_proper s s' : par s' = par s -> proper_state s -> proper_state s'.
Proof. unfold proper_state. intros ->. auto. Qed.

Lemma conv_ok_wf_frame s s' : conv_ok s s' -> wf s' /\ frame s s'.
Proof. intros (A & B & _). split; auto. Qed.
Lemma frame_trans a b c : frame a b -> frame b c -> frame a c.
Proof. intros (A1 & A2 & A3 & A4 & A5) (B1 & B2 & B3 & B4 & B5). repeat split; congruence. Qed.

Lemma step_good s o s' :
  good s -> step s o = Ok s' ->
  good s' /\ nch s' = nch s /\ exists l, saved s' = saved s ++ l.
Proof.
  intros (W & Pr & Sp) H.
  assert (ConvCase : wf s' /\ frame s s' -> proper_state s' -> good s' /\ nch s' = nch s /\ exists l, saved s' = saved s ++ l).
  { intros (W' & (En & _ & _ & Es & _)) Pr'. split; [split; [exact W'|split; [exact Pr'|rewrite Es; exact Sp]]|].
    split; [exact En|]. exists []. rewrite app_nil_r. exact Es. }
  assert (Same : wf s' -> par s' = par s -> nch s' = nch s -> saved s' = saved s ->
                 good s' /\ nch s' = nch s /\ exists l, saved s' = saved s ++ l).
  { intros W' Ep En Es. split; [split; [exact W'|split; [eapply same_par_proper; eauto|rewrite Es; exact Sp]]|].
    split; [exact En|]. exists []. rewrite app_nil_r. exact Es. }
  destruct o; simpl in H.
  - apply ConvCase; [apply conv_ok_wf_frame; eapply set_phases_conv; eauto|eapply set_phases_proper; eauto].
  - apply ConvCase; [apply conv_ok_wf_frame; eapply set_phase_conv; eauto|eapply set_phase_proper; eauto].
  - unfold reduce_phases in H. destruct (par s) eqn:Ps.
    + inversion H; subst. apply Same; auto.
    + apply ConvCase; [apply conv_ok_wf_frame; eapply set_phase_conv; eauto|eapply set_phase_proper; eauto].
  - unfold as_stream in H. destruct (par s) as [|r] eqn:Ps.
    + inversion H; subst. apply Same; auto.
    + destruct (phase_string (heap s) r) as [|q [|q' l']]; [|apply ConvCase; [apply conv_ok_wf_frame; eapply set_phase_conv; eauto|eapply set_phase_proper; eauto]|discriminate].
      destruct (pset_list (rset r)); [discriminate|].
      apply ConvCase; [apply conv_ok_wf_frame; eapply set_phase_conv; eauto|eapply set_phase_proper; eauto].
  - unfold accessor in H. destruct (acc_pair a) as [x y]. destruct (par s) as [p c|r] eqn:Ps.
    + destruct (relabel_conv s p c (acc_phase a p) Ps W) as (W1 & F1 & _).
      destruct (set_phases_conv _ _ _ _ W1 H) as (W' & F' & _).
      apply ConvCase; [split; [exact W'|exact (frame_trans _ _ _ F1 F')]|].
      eapply (set_phases_proper _ _ _ _ W1); [exact I|exact H].
    + destruct (rset r x && rset r y).
      * inversion H; subst. apply Same; auto.
      * apply ConvCase; [apply conv_ok_wf_frame; eapply set_phases_conv; eauto|eapply set_phases_proper; eauto].
  - unfold get_view in H. destruct (par s) as [p c|r] eqn:Ps.
    + destruct (lower_eqb l p); [|discriminate]. inversion H; subst. apply Same; auto.
    + destruct (find_cached (views s) l 0); [inversion H; subst; apply Same; auto|].
      destruct (rlookup r l); [|discriminate]. inversion H; subst. apply Same; auto.
  - unfold write_view in H. destruct (nth_error (views s) i); [|discriminate]. inversion H; subst.
    apply Same; auto. apply heap_write_wf; auto; [apply write_cell_hwf; apply W|apply write_cell_length].
  - unfold write_parent in H. destruct (par s) as [p c|r] eqn:Ps.
    + inversion H; subst. apply Same; auto.
      apply heap_write_wf; auto; [apply write_cell_hwf; apply W|apply write_cell_length].
    + destruct (rlookup r l); [|discriminate]. inversion H; subst. apply Same; auto.
      apply heap_write_wf; auto; [apply write_cell_hwf; apply W|apply write_cell_length].
  - inversion H; subst. apply Same; auto. apply tcs_write_wf; exact W.
  - inversion H; subst. apply Same; auto. apply tcs_write_wf; exact W.
  - destruct (nth_error (views s) i); [|discriminate]. inversion H; subst. apply Same; auto. apply tcs_write_wf; exact W.
  - destruct (nth_error (views s) i); [|discriminate]. inversion H; subst. apply Same; auto. apply tcs_write_wf; exact W.
  - destruct (nth_error (views s) i) as [v|]; [|discriminate].
    destruct (vlocked v).
    + destruct (phase_eqb (vphase v) l); [|discriminate]. inversion H; subst. apply Same; auto.
    + inversion H; subst. apply Same; auto.
  - unfold view_mass_touch in H. destruct (nth_error (views s) i); [|discriminate]. inversion H; subst.
    apply Same; auto.
  - unfold view_mass_write in H. destruct (nth_error (views s) i); [|discriminate]. inversion H; subst.
    apply Same; auto.
    apply (heap_write_wf (set_views s _)); auto; [apply write_cell_hwf; apply W|apply write_cell_length].
  - inversion H; subst. split; [|split; [reflexivity|eexists; reflexivity]].
    pose proof (snapshot_wf s W) as SW. destruct W as (A & B & D & E).
    split; [split; [exact A|split; [exact B|split; [exact D|]]]|split; [exact Pr|]]; simpl.
    + apply Forall_app. split; [exact E|]. constructor; [exact SW|constructor].
    + apply Forall_app. split; [exact Sp|]. constructor; [apply snapshot_proper; exact Pr|constructor].
  - destruct (nth_error (saved s) k) as [d|] eqn:Nk; [|discriminate].
    assert (Hd : sdwf (nch s) d).
    { destruct W as (_ & _ & _ & E). rewrite Forall_forall in E. apply E. eapply nth_error_In; eauto. }
    assert (Hp : sd_proper d) by (rewrite Forall_forall in Sp; apply Sp; eapply nth_error_In; eauto).
    destruct (restore_exact s d s' W Hd Hp H) as (W' & En & Es & _ & _ & Im & PN & _).
    split; [split; [exact W'|split; [|rewrite Es; exact Sp]]|split; [exact En|exists []; rewrite app_nil_r; exact Es]].
    unfold proper_state. destruct (par s') as [|r] eqn:Ps'; [exact I|].
    unfold sd_proper in Hp. unfold is_multi in Im. rewrite Ps' in Im. destruct (sd_single d); [discriminate|].
    rewrite (pset_card_ext (rset r) (fun p => isSome (sd_rows d p))); [exact Hp|].
    intros p. specialize (PN p). unfold pset_now in PN. rewrite Ps' in PN. exact PN.
Qed.

Lemma run_good ops : forall s s',
  good s -> run s ops = Ok s' -> good s' /\ nch s' = nch s /\ exists l, saved s' = saved s ++ l.
Proof.
  induction ops as [|o ops IH]; intros s s' G H; simpl in H.
  - inversion H; subst. split; [exact G|]. split; [reflexivity|]. exists []. rewrite app_nil_r. reflexivity.
  - destruct (step s o) as [s1|e] eqn:S1; [|discriminate]. simpl in H.
    destruct (step_good s o s1 G S1) as (G1 & N1 & (l1 & L1)).
    destruct (IH s1 s' G1 H) as (G' & N' & (l' & L')).
    split; [exact G'|]. split; [congruence|]. exists (l1 ++ l'). rewrite L', L1, app_assoc. reflexivity.
Qed.

(* ================= set_data (get_data s) after arbitrary mutation ================= *)
Lemma snapshot_fields s :
  sd_T (snapshot s) = T_of s /\ sd_P (snapshot s) = P_of s /\
  negb (isSome (sd_single (snapshot s))) = is_multi s /\
  (forall p, isSome (sd_rows (snapshot s) p) = pset_now s p) /\
  (forall p, match sd_rows (snapshot s) p with Some v => v | None => vzero (nch s) end = flow s p).
Proof.
  unfold snapshot, T_of, P_of, is_multi, pset_now, flow.
  destruct (tc_get (tcs s) (ptc s)) as [T P]. destruct (par s) as [q c|r]; simpl.
  - repeat split; auto; intros p; destruct (phase_eqb p q); reflexivity.
  - repeat split; auto; intros p; unfold rset; destruct (r p); reflexivity.
Qed.

Lemma data_roundtrip_lemma s0 ops s s' :
  good s0 ->
  run (set_saved s0 (saved s0 ++ [snapshot s0])) ops = Ok s ->
  step s (ORestore (length (saved s0))) = Ok s' ->
  is_multi s' = is_multi s0 /\ (forall p, pset_now s' p = pset_now s0 p) /\
  (forall p, flow s' p = flow s0 p) /\ T_of s' = T_of s0 /\ P_of s' = P_of s0.
Proof.
  intros G0 R H.
  assert (S0 : step s0 OSave = Ok (set_saved s0 (saved s0 ++ [snapshot s0]))) by reflexivity.
  destruct (step_good _ _ _ G0 S0) as (G1 & _ & _).
  destruct (run_good ops _ _ G1 R) as (G & En & (l & El)). simpl in En, El.
  simpl in H.
  assert (Nk : nth_error (saved s) (length (saved s0)) = Some (snapshot s0)).
  { rewrite El, <- app_assoc. rewrite nth_error_app2 by lia. rewrite Nat.sub_diag. reflexivity. }
  rewrite Nk in H. destruct G as (W & _ & _). destruct G0 as (W0 & Pr0 & _).
  assert (Hd : sdwf (nch s) (snapshot s0)) by (rewrite En; apply snapshot_wf; exact W0).
  destruct (restore_exact s _ s' W Hd (snapshot_proper s0 Pr0) H) as (_ & _ & _ & ET & EP & Im & PN & Fl).
  destruct (snapshot_fields s0) as (FT & FP & FM & FN & FF).
  split; [rewrite Im; exact FM|]. split; [intros p; rewrite PN; apply FN|].
  split; [intros p; rewrite Fl, En; apply FF|]. split; congruence.
Qed.

(* ================= totals / T / P over whole histories of conversions ================= *)
Lemma run_conversions ops : forall s s',
  good s -> Forall (fun o => conversion o = true) ops -> run s ops = Ok s' ->
  (forall j, total s' j == total s j) /\ T_of s' = T_of s /\ P_of s' = P_of s.
Proof.
  induction ops as [|o ops IH]; intros s s' G F H; simpl in H.
  - inversion H; subst. repeat split; reflexivity.
  - inversion F as [|? ? Co Fo]; subst.
    destruct (step s o) as [s1|e] eqn:S1; [|discriminate]. simpl in H.
    destruct (step_conv0 s o s1 Co (proj1 G) S1) as (_ & _ & (T1 & P1) & Tot1).
    destruct (step_good s o s1 G S1) as (G1 & _).
    destruct (IH s1 s' G1 Fo H) as (Tot & T2 & P2).
    split; [intros j; rewrite Tot; apply Tot1|]. split; congruence.
Qed.

(* ================= reads and writes through a live view ================= *)
Lemma view_reads_parent s i v :
  live_inv s -> nth_error (views s) i = Some v -> vin v = true ->
  exists r q, par s = Multi r /\ resolve (rset r) (vlabel v) = Some q /\ r q = Some (vcell v) /\
              cellv (heap s) (vcell v) = flow s q /\
              tc_get (tcs s) (vtc v) = (T_of s, P_of s).
Proof.
  intros L N Hin. destruct (L v (nth_error_In _ _ N)) as [Etc B].
  destruct (B Hin) as (r & Ps & Lk). destruct (rlookup_some r _ _ Lk) as (q & Rq & Rc).
  exists r, q. repeat split; auto.
  - unfold flow. rewrite Ps, Rc. reflexivity.
  - rewrite Etc. unfold T_of, P_of. destruct (tc_get (tcs s) (ptc s)); reflexivity.
Qed.

Lemma write_view_visible s i j x s' v :
  wf s -> live_inv s -> nth_error (views s) i = Some v -> vin v = true ->
  step s (OWriteView i j x) = Ok s' ->
  exists q, resolve (pset_now s) (vlabel v) = Some q /\
    flow s' q = upd (flow s q) j x /\ (forall p, p <> q -> flow s' p = flow s p) /\
    live_inv s'.
Proof.
  intros W L N Hin H.
  destruct (view_reads_parent s i v L N Hin) as (r & q & Ps & Rq & Rc & Ec & _).
  pose proof (step_live _ _ _ L H) as L'.
  simpl in H. unfold write_view in H. rewrite N in H. inversion H; subst s'. clear H.
  destruct W as (_ & Hp & _). rewrite Ps in Hp. destruct Hp as [Hr Hinj].
  exists q. split; [unfold pset_now; rewrite Ps; exact Rq|]. split; [|split; [|exact L']].
  - unfold flow; simpl. rewrite Ps, Rc. unfold write_cell. apply cellv_upd_same. eapply Hr; eauto.
  - intros p Hne. unfold flow; simpl. rewrite Ps. destruct (r p) as [c|] eqn:Rp; [|reflexivity].
    unfold write_cell. apply cellv_upd_other. intros E. apply Hne. subst c. eapply Hinj; eauto.
Qed.

Lemma write_parent_visible s l j x s' :
  live_inv s -> step s (OWriteParent l j x) = Ok s' -> is_multi s = true ->
  exists q, resolve (pset_now s) l = Some q /\ flow s' q = upd (flow s q) j x /\
    forall v, In v (views s') -> vin v = true -> resolve (pset_now s') (vlabel v) = Some q ->
              cellv (heap s') (vcell v) = flow s' q.
Proof.
  intros L H Im. pose proof (step_live _ _ _ L H) as L'.
  simpl in H. unfold write_parent in H. unfold is_multi in Im.
  destruct (par s) as [|r] eqn:Ps; [discriminate|].
  destruct (rlookup r l) as [c|] eqn:Lk; [|discriminate]. inversion H; subst s'. clear H.
  destruct (rlookup_some r l c Lk) as (q & Rq & Rc).
  exists q. split; [unfold pset_now; rewrite Ps; exact Rq|]. split.
  - unfold flow; simpl. rewrite Ps, Rc. unfold write_cell.
    destruct (Nat.lt_ge_cases c (length (heap s))) as [Lc|Lc].
    + apply cellv_upd_same. exact Lc.
    + rewrite (upd_oor (heap s)) by exact Lc. unfold cellv. rewrite !nth_overflow by (simpl; lia).
      destruct j; reflexivity.
  - intros v Hv Hin Rv. destruct (L' v Hv) as [_ B]. destruct (B Hin) as (r' & Ps' & Lk').
    simpl in Ps'. rewrite Ps in Ps'. inversion Ps'; subst r'.
    unfold pset_now in Rv. simpl in Rv. rewrite Ps in Rv.
    unfold rlookup in Lk'. rewrite Rv in Lk'.
    unfold flow. simpl. rewrite Ps, Lk'. reflexivity.
Qed.

(* ================= a cached view leaves the cache only for a reason ================= *)
Definition stays (s s' : st) : Prop :=
  forall i v, nth_error (views s) i = Some v -> vin v = true ->
    exists v', nth_error (views s') i = Some v' /\ vlabel v' = vlabel v /\
      (vin v' = true \/ is_multi s' = false \/ resolve (pset_now s') (vlabel v) = None).

Lemma stays_same s s' : views s' = views s -> stays s s'.
Proof. intros E i v N Hin. exists v. rewrite E. auto. Qed.

Lemma stays_uncache s s' : views s' = map uncache (views s) -> is_multi s' = false -> stays s s'.
Proof.
  intros E Im i v N Hin. exists (uncache v). rewrite E. split; [apply map_nth_error; exact N|]. auto.
Qed.

Lemma stays_touch s s' i0 v0 :
  nth_error (views s) i0 = Some v0 -> views s' = upd (views s) i0 (touch_mass v0) -> stays s s'.
Proof.
  intros N0 E i v N Hin. rewrite E. destruct (Nat.eq_dec i0 i) as [->|Hne].
  - rewrite N in N0. inversion N0; subst v0. exists (touch_mass v).
    split; [apply nth_error_upd_same; apply nth_error_Some; congruence|]. simpl. auto.
  - exists v. rewrite nth_error_upd_other by exact Hne. auto.
Qed.

Lemma to_single_stays s p s' : to_single s p = Ok s' -> stays s s'.
Proof.
  unfold to_single. destruct (par s).
  - intros H; inversion H; subst. apply stays_same. reflexivity.
  - destruct (Nat.eqb _ 0); [discriminate|]. intros H; inversion H; subst.
    apply stays_uncache; reflexivity.
Qed.

Lemma set_phases_stays s t bad s' : live_inv s -> set_phases s t bad = Ok s' -> stays s s'.
Proof.
  unfold set_phases. intros L H. destruct (par s) as [p0 c|r0] eqn:Ps.
  - (* a Stream has no cached views *)
    intros i v N Hin. destruct (L v (nth_error_In _ _ N)) as [_ B]. destruct (B Hin) as (r & X & _). congruence.
  - destruct (Nat.eqb _ 1).
    + destruct bad; [destruct (Nat.eqb _ 0); discriminate|]. eapply to_single_stays; eauto.
    + destruct bad; [discriminate|]. destruct (pset_eqb t (rset r0)); [inversion H; subst; apply stays_same; reflexivity|].
      destruct (blank (nch s) t (heap s)) as [h1 r] eqn:B.
      destruct (move_rows all_phases r0 h1 r) as [h2|e]; [|discriminate]. simpl in H. inversion H; subst. clear H.
      intros i v N Hin. exists (rebind r v). simpl. split; [apply map_nth_error; exact N|].
      unfold rebind. rewrite Hin. destruct (rlookup r (vlabel v)) eqn:Lk; simpl; auto.
      split; auto. right; right. unfold pset_now; simpl. apply rlookup_none_resolve. exact Lk.
Qed.

Lemma set_phase_stays s ls s' : live_inv s -> set_phase s ls = Ok s' -> stays s s'.
Proof.
  unfold set_phase. intros L H. destruct (par s) as [p0 c|r] eqn:Ps.
  - destruct ls as [|q [|? ?]]; try discriminate. inversion H; subst. apply stays_same. reflexivity.
  - destruct ls as [|q [|q' l']]; [eapply to_single_stays; eauto|eapply to_single_stays; eauto|].
    eapply set_phases_stays; eauto.
Qed.

Lemma stays_trans_same s s0 s' : views s0 = views s -> stays s0 s' -> stays s s'.
Proof. intros E H i v N Hin. apply H; auto. rewrite E. exact N. Qed.

Lemma step_stays s o s' : live_inv s -> step s o = Ok s' -> stays s s'.
Proof.
  intros L H. destruct o; simpl in H.
  - eapply set_phases_stays; eauto.
  - eapply set_phase_stays; eauto.
  - unfold reduce_phases in H. destruct (par s); [inversion H; subst; apply stays_same; reflexivity|].
    eapply set_phase_stays; eauto.
  - unfold as_stream in H. destruct (par s) as [|r]; [inversion H; subst; apply stays_same; reflexivity|].
    destruct (phase_string (heap s) r) as [|q [|q' l']]; [|eapply set_phase_stays; eauto|discriminate].
    destruct (pset_list (rset r)); [discriminate|]. eapply set_phase_stays; eauto.
  - unfold accessor in H. destruct (acc_pair a) as [x y]. destruct (par s) as [p c|r] eqn:Ps.
    + apply (stays_trans_same s (set_par s (Single (acc_phase a p) c)) s'); [reflexivity|].
      eapply set_phases_stays; [eapply relabel_live; eauto|exact H].
    + destruct (rset r x && rset r y); [inversion H; subst; apply stays_same; reflexivity|].
      eapply set_phases_stays; eauto.
  - unfold get_view in H. destruct (par s) as [p c|r].
    + destruct (lower_eqb l p); [|discriminate]. inversion H; subst. apply stays_same. reflexivity.
    + destruct (find_cached (views s) l 0); [inversion H; subst; apply stays_same; reflexivity|].
      destruct (rlookup r l); [|discriminate]. inversion H; subst.
      intros i v N Hin. exists v. simpl. split; [|auto].
      rewrite nth_error_app1; [exact N|]. apply nth_error_Some. congruence.
  - unfold write_view in H. destruct (nth_error (views s) i); [|discriminate]. inversion H; subst.
    apply stays_same. reflexivity.
  - unfold write_parent in H. destruct (par s) as [p c|r].
    + inversion H; subst. apply stays_same. reflexivity.
    + destruct (rlookup r l); [|discriminate]. inversion H; subst. apply stays_same. reflexivity.
  - inversion H; subst. apply stays_same. reflexivity.
  - inversion H; subst. apply stays_same. reflexivity.
  - destruct (nth_error (views s) i); [|discriminate]. inversion H; subst. apply stays_same. reflexivity.
  - destruct (nth_error (views s) i); [|discriminate]. inversion H; subst. apply stays_same. reflexivity.
  - destruct (nth_error (views s) i) as [v|] eqn:N; [|discriminate].
    destruct (vlocked v).
    + destruct (phase_eqb (vphase v) l); [|discriminate]. inversion H; subst. apply stays_same. reflexivity.
    + inversion H; subst. intros i0 v0 N0 Hin. simpl. destruct (Nat.eq_dec i i0) as [->|Hne].
      * rewrite N0 in N. inversion N; subst v0. eexists.
        split; [apply nth_error_upd_same; apply nth_error_Some; congruence|]. simpl. auto.
      * exists v0. rewrite nth_error_upd_other by exact Hne. auto.
  - unfold view_mass_touch in H. destruct (nth_error (views s) i) as [v|] eqn:N; [|discriminate].
    inversion H; subst. eapply stays_touch; eauto.
  - unfold view_mass_write in H. destruct (nth_error (views s) i) as [v|] eqn:N; [|discriminate].
    inversion H; subst. eapply stays_touch; eauto.
  - inversion H; subst. apply stays_same. reflexivity.
  - destruct (nth_error (saved s) k) as [d|]; [|discriminate]. unfold restore in H.
    destruct (set_phases (empty_all s) (fun p => isSome (sd_rows d p)) false) as [s1|e] eqn:S1; [|discriminate].
    simpl in H.
    assert (St1 : stays s s1).
    { apply (stays_trans_same s (empty_all s) s1).
      - unfold empty_all. destruct (par s); reflexivity.
      - eapply set_phases_stays; [apply empty_all_live; exact L|exact S1]. }
    assert (Fin : views s' = views s1 /\ is_multi s' = is_multi s1 /\
                  (is_multi s1 = true -> forall p, resolve (pset_now s') p = resolve (pset_now s1) p)).
    { destruct (par s1) as [p c|r] eqn:P1.
      - destruct (match sd_single d with Some q => Some q | None => hd_error (pset_list (fun p0 => isSome (sd_rows d p0))) end) as [q|]; [|discriminate].
        destruct (sd_rows d q); [|discriminate].
        simpl in H. inversion H; subst. unfold is_multi; simpl. rewrite P1. repeat split. discriminate.
      - destruct (sd_single d); [discriminate|]. simpl in H. inversion H; subst.
        unfold is_multi, pset_now; simpl. rewrite P1. repeat split. }
    destruct Fin as (Ev & Em & Er).
    intros i v N Hin. destruct (St1 i v N Hin) as (v' & N' & Lb & Cases).
    exists v'. rewrite Ev, Em. split; [exact N'|]. split; [exact Lb|].
    destruct Cases as [X|[X|X]]; auto.
    destruct (is_multi s1) eqn:M1; auto. right; right. rewrite Er; auto.
Qed.

(* ================= initial states ================= *)
Lemma init_single_good n mw p v T P : length v = n -> good (init_single n mw p v T P) /\ live_inv (init_single n mw p v T P).
Proof.
  intros Lv. split; [split; [|split]|].
  - unfold wf, init_single; simpl. split; [|split; [lia|split; [lia|constructor]]].
    intros c Hc. simpl in Hc. destruct c; [exact Lv|lia].
  - exact I.
  - constructor.
  - intros w [].
Qed.

(* ================= set_data never raises (stream with at least one phase) ================= *)
Lemma move_rows_all_empty (r0 r : rmap) : forall ps h,
  (forall p c, r0 p = Some c -> any_nz (cellv h c) = false) -> move_rows ps r0 h r = Ok h.
Proof.
  induction ps as [|a ps IH]; intros h He; simpl; [reflexivity|].
  destruct (r0 a) as [c|] eqn:Ra; [|apply IH; exact He].
  rewrite (He a c Ra). apply IH. exact He.
Qed.

Definition has_rows (s : st) : Prop :=
  match par s with Multi r => pset_card (rset r) <> 0%nat | Single _ _ => True end.

Lemma set_phases_empty_total s t :
  wf s -> has_rows s ->
  (forall p c, (match par s with Single _ c0 => c = c0 | Multi r => r p = Some c end) ->
               cellv (heap s) c = vzero (nch s)) ->
  exists s1, set_phases s t false = Ok s1 /\
    (pset_card t = 1%nat -> exists c, par s1 = Single (hd Pl (pset_list t)) c) /\
    (pset_card t <> 1%nat -> exists r, par s1 = Multi r).
Proof.
  intros W Hr Hz. unfold set_phases. rewrite Nat.add_0_r. unfold has_rows in Hr.
  destruct (par s) as [p0 c|r0] eqn:Ps.
  - destruct (Nat.eqb (pset_card t) 1) eqn:E.
    + apply Nat.eqb_eq in E. unfold to_single. rewrite Ps. eexists. split; [reflexivity|].
      split; [intros _; eexists; reflexivity|intros X; contradiction].
    + apply Nat.eqb_neq in E. destruct (blank (nch s) t (heap s)) as [h1 r] eqn:B.
      rewrite (Hz p0 c eq_refl). rewrite any_nz_vzero. eexists. split; [reflexivity|].
      split; [intros X; contradiction|intros _; eexists; reflexivity].
  - destruct (Nat.eqb (pset_card t) 1) eqn:E.
    + apply Nat.eqb_eq in E. unfold to_single. rewrite Ps.
      apply Nat.eqb_neq in Hr. rewrite Hr. eexists. split; [reflexivity|].
      split; [intros _; eexists; reflexivity|intros X; contradiction].
    + apply Nat.eqb_neq in E. destruct (pset_eqb t (rset r0)).
      * exists s. split; [reflexivity|]. split; [intros X; contradiction|intros _; exists r0; exact Ps].
      * destruct (blank (nch s) t (heap s)) as [h1 r] eqn:B.
        destruct (blank_cells _ _ _ _ _ B) as (Cold & _ & _).
        destruct W as (_ & Hp & _). rewrite Ps in Hp. destruct Hp as [Hr0 _].
        rewrite (move_rows_all_empty r0 r all_phases h1).
        -- simpl. eexists. split; [reflexivity|].
           split; [intros X; contradiction|intros _; eexists; reflexivity].
        -- intros p c Rp. rewrite Cold by (eapply Hr0; eauto). rewrite (Hz p c Rp). apply any_nz_vzero.
Qed.

Lemma restore_total s d :
  good s -> In d (saved s) -> has_rows s -> exists s', restore s d = Ok s'.
Proof.
  intros (W & _ & Sp) Hin Hr.
  assert (Hp : sd_proper d) by (rewrite Forall_forall in Sp; apply Sp; exact Hin).
  destruct (empty_all_spec s W) as (W0 & _ & P0 & _ & Z0).
  assert (Hr0 : has_rows (empty_all s)) by (unfold has_rows; rewrite P0; exact Hr).
  assert (Z0' : forall p c, (match par (empty_all s) with Single _ c0 => c = c0 | Multi r => r p = Some c end) ->
               cellv (heap (empty_all s)) c = vzero (nch (empty_all s))).
  { intros p c X. rewrite P0 in X. rewrite (Z0 p c X). unfold empty_all. destruct (par s); reflexivity. }
  destruct (set_phases_empty_total (empty_all s) (fun p => isSome (sd_rows d p)) W0 Hr0 Z0') as (s1 & S1 & One & Many).
  unfold restore. rewrite S1. simpl. unfold sd_proper in Hp. destruct (sd_single d) as [q|] eqn:Sd.
  - destruct (card_one_hd _ q Hp) as [Card Hd1]. destruct (One Card) as (c & P1). rewrite P1.
    specialize (Hp q). rewrite phase_eqb_refl in Hp. destruct (sd_rows d q); [|discriminate].
    simpl. eexists. reflexivity.
  - destruct (Many Hp) as (r & P1). rewrite P1. simpl. eexists. reflexivity.
Qed.

(* ================= phases = <a covering target> never raises ================= *)
Lemma any_nz_true_ex v : any_nz v = true -> exists j, ~ nthq v j == 0.
Proof.
  unfold any_nz, nthq. induction v as [|x v IH]; simpl; [discriminate|].
  intros H. apply orb_true_iff in H. destruct H as [H|H].
  - exists 0%nat. simpl. apply negb_true_iff in H. apply qzerob_false in H. exact H.
  - destruct (IH H) as (j & Hj). exists (S j). exact Hj.
Qed.

Lemma rlookup_defined (r : rmap) p : resolve (rset r) p <> None -> rlookup r p <> None.
Proof.
  unfold rlookup. destruct (resolve (rset r) p) as [q|] eqn:R; [|congruence].
  intros _. apply resolve_in in R. unfold rset in R. destruct (r q); [discriminate|discriminate].
Qed.

Lemma move_rows_total n L0 (r0 r : rmap) : forall ps h,
  hwf n h -> rwf h r -> (forall p c, r p = Some c -> (L0 <= c)%nat) ->
  (forall p c, r0 p = Some c -> (c < L0)%nat /\ (c < length h)%nat) ->
  (forall p c, r0 p = Some c -> any_nz (cellv h c) = true -> rlookup r p <> None) ->
  exists h2, move_rows ps r0 h r = Ok h2.
Proof.
  induction ps as [|a ps IH]; intros h Hh Hr Hnew Hold Hcov; simpl; [eexists; reflexivity|].
  destruct (r0 a) as [c|] eqn:Ra; [|apply IH; auto].
  destruct (any_nz (cellv h c)) eqn:NZ; [|apply IH; auto].
  unfold add_into. destruct (rlookup r a) as [c'|] eqn:Lk; [|exfalso; eapply Hcov; eauto].
  simpl. destruct (rlookup_some r a c' Lk) as (q & Rq & Rc).
  destruct (Hold a c Ra) as [HcL Hclen].
  assert (Hc'len : (c' < length h)%nat) by (destruct Hr as [Hr _]; eapply Hr; eauto).
  assert (Hne : forall c0, (c0 < L0)%nat -> cellv (upd h c' (vadd (cellv h c') (cellv h c))) c0 = cellv h c0).
  { intros c0 Hc0. apply cellv_upd_other. specialize (Hnew q c' Rc). lia. }
  apply IH.
  - apply hwf_upd; auto. rewrite vadd_length; [apply Hh; exact Hc'len|].
    rewrite (Hh c Hclen). apply Hh. exact Hc'len.
  - apply (rwf_len h); auto. rewrite upd_length. lia.
  - exact Hnew.
  - intros p c0 Hp. rewrite upd_length. exact (Hold p c0 Hp).
  - intros p c0 Hp. rewrite Hne by (apply (Hold p c0 Hp)). apply Hcov. exact Hp.
Qed.

Lemma set_phases_total s t :
  wf s -> has_rows s -> covers s t -> exists s', set_phases s t false = Ok s'.
Proof.
  intros W Hr Cv. unfold set_phases. rewrite Nat.add_0_r. unfold has_rows in Hr.
  pose proof W as (Hh & Hp & _).
  destruct (par s) as [p0 c|r0] eqn:Ps.
  - destruct (Nat.eqb (pset_card t) 1).
    + unfold to_single. rewrite Ps. eexists; reflexivity.
    + destruct (blank (nch s) t (heap s)) as [h1 r] eqn:B.
      destruct (blank_spec _ _ _ _ _ B) as (_ & Hset & _).
      destruct (any_nz (cellv (heap s) c)) eqn:NZ; [|eexists; reflexivity].
      destruct (rlookup r p0) as [c'|] eqn:Lk; [eexists; reflexivity|].
      exfalso. apply (rlookup_defined r p0); [|exact Lk]. intros Rn.
      destruct (any_nz_true_ex _ NZ) as (j & Hj). apply Hj.
      pose proof (fl_single s p0 c p0 j Ps) as X. rewrite phase_eqb_refl in X. rewrite <- X.
      apply Cv. rewrite (resolve_ext t (rset r) p0) by (intros x; symmetry; apply Hset). exact Rn.
  - destruct (Nat.eqb (pset_card t) 1).
    + unfold to_single. rewrite Ps. apply Nat.eqb_neq in Hr. rewrite Hr. eexists; reflexivity.
    + destruct (pset_eqb t (rset r0)); [eexists; reflexivity|].
      destruct (blank (nch s) t (heap s)) as [h1 r] eqn:B.
      destruct (blank_spec _ _ _ _ _ B) as (_ & Hset & Hrange & Hinj).
      destruct (blank_cells _ _ _ _ _ B) as (Cold & _ & Clen).
      simpl in Hp. destruct Hp as [Hr0 _].
      assert (Hh1 : hwf (nch s) h1) by (eapply blank_hwf; eauto).
      assert (Hr1 : rwf h1 r) by (split; [intros p c' Hc'; apply (Hrange p c' Hc')|exact Hinj]).
      destruct (move_rows_total (nch s) (length (heap s)) r0 r all_phases h1 Hh1 Hr1) as (h2 & M).
      * intros p c Hc. apply (Hrange p c Hc).
      * intros p c Hc. specialize (Hr0 p c Hc). lia.
      * intros p c Rp NZ. apply rlookup_defined. intros Rn.
        rewrite Cold in NZ by (eapply Hr0; eauto).
        destruct (any_nz_true_ex _ NZ) as (j & Hj). apply Hj.
        assert (X : fl s p j == nthq (cellv (heap s) c) j).
        { rewrite (fl_multi s r0 p j Ps). unfold rowv. rewrite Rp. reflexivity. }
        rewrite <- X. apply Cv. rewrite (resolve_ext t (rset r) p) by (intros x; symmetry; apply Hset). exact Rn.
      * rewrite M. simpl. eexists; reflexivity.
Qed.

(* ================= accessors: placement whenever the label is not rewritten ================= *)
Lemma covers_self s : covers s (pset_now s).
Proof.
  intros p j Rn. unfold pset_now in Rn. destruct (par s) as [q0 c|r] eqn:Ps.
  - rewrite (fl_single s q0 c p j Ps). destruct (phase_eqb p q0) eqn:E; [|reflexivity].
    rewrite (resolve_self _ p E) in Rn. discriminate.
  - rewrite (fl_multi s r p j Ps). unfold rowv. destruct (r p) eqn:Rp; [|reflexivity].
    rewrite (resolve_self (rset r) p) in Rn; [discriminate|]. unfold rset. rewrite Rp. reflexivity.
Qed.

Lemma accessor_placement_partial s a s' :
  wf s -> norelabel s (OAcc a) -> step s (OAcc a) = Ok s' ->
  covers s (pset_now s') /\ placed s s'.
Proof.
  intros W NR H.
  destruct (step_conv s (OAcc a) s' eq_refl NR W H) as (_ & _ & _ & _ & Pl).
  assert (Cv : covers s (pset_now s')).
  { simpl in H, NR. unfold accessor in H. destruct (acc_pair a) as [x y] eqn:Ea.
    assert (Hxy : x <> y) by (destruct a; inversion Ea; subst; discriminate).
    destruct (par s) as [p c|r] eqn:Ps.
    - rewrite NR in H. rewrite (set_par_same s (Single p c) Ps) in H.
      assert (Hc : pset_card (pset_of [x; y]) <> 1%nat).
      { apply (card_two _ x y); auto; apply pset_of_in; simpl; auto. }
      destruct (set_phases_multi_target s _ s' W H Hc) as (_ & _ & PN & Cv & _).
      intros p0 j Rn. apply Cv. rewrite (resolve_ext _ (pset_now s') p0) by (intros z; symmetry; apply PN). exact Rn.
    - destruct (rset r x && rset r y).
      + inversion H; subst. apply covers_self.
      + assert (Hc : pset_card (pset_union (rset r) (pset_of [x; y])) <> 1%nat).
        { apply (card_two _ x y); auto; unfold pset_union; apply orb_true_iff; right; apply pset_of_in; simpl; auto. }
        destruct (set_phases_multi_target s _ s' W H Hc) as (_ & _ & PN & Cv & _).
        intros p0 j Rn. apply Cv. rewrite (resolve_ext _ (pset_now s') p0) by (intros z; symmetry; apply PN). exact Rn. }
  split; [exact Cv|apply Pl; exact Cv].
Qed.

(* ================= the views are live on the mass basis too ================= *)
(* the mass-basis indexer cached inside a view's indexer object wraps the row the view reads NOW *)
Definition mass_ok (v : view) : Prop := forall c, vmass v = Some c -> c = vcell v.
Definition mass_inv (s : st) : Prop := forall v, In v (views s) -> mass_ok v.

Lemma uncache_ok v : mass_ok v -> mass_ok (uncache v).
Proof. intros H c E. exact (H c E). Qed.
Lemma rebind_ok r v : mass_ok v -> mass_ok (rebind r v).
Proof.
  intros H. unfold rebind. destruct (vin v); [|exact H].
  destruct (rlookup r (vlabel v)); [intros c E; discriminate|apply uncache_ok; exact H].
Qed.
Lemma touch_ok v : mass_ok v -> mass_ok (touch_mass v).
Proof.
  intros H c E. simpl in E. inversion E; subst. unfold mass_cell. destruct (vmass v) as [c|] eqn:M; auto.
Qed.
Lemma mass_map (f : view -> view) s s' :
  (forall v, mass_ok v -> mass_ok (f v)) -> mass_inv s -> views s' = map f (views s) -> mass_inv s'.
Proof.
  intros Hf M E v Hv. rewrite E in Hv. apply in_map_iff in Hv. destruct Hv as (w & <- & Hw). apply Hf. exact (M w Hw).
Qed.
Lemma mass_same s s' : mass_inv s -> views s' = views s -> mass_inv s'.
Proof. intros M E v Hv. rewrite E in Hv. exact (M v Hv). Qed.

Lemma to_single_mass s p s' : mass_inv s -> to_single s p = Ok s' -> mass_inv s'.
Proof.
  unfold to_single. intros M H. destruct (par s).
  - inversion H; subst. eapply mass_same; eauto.
  - destruct (Nat.eqb _ 0); [discriminate|]. inversion H; subst.
    apply (mass_map uncache s); [apply uncache_ok|exact M|reflexivity].
Qed.

Lemma set_phases_mass s t bad s' : mass_inv s -> set_phases s t bad = Ok s' -> mass_inv s'.
Proof.
  unfold set_phases. intros M H. destruct (par s) as [p0 c|r0].
  - destruct (Nat.eqb _ 1).
    + destruct bad; [discriminate|]. eapply to_single_mass; eauto.
    + destruct bad; [discriminate|]. destruct (blank (nch s) t (heap s)) as [h1 r].
      destruct (any_nz (cellv (heap s) c)).
      * destruct (rlookup r p0); [|discriminate]. inversion H; subst.
        apply (mass_map uncache s); [apply uncache_ok|exact M|reflexivity].
      * inversion H; subst. apply (mass_map uncache s); [apply uncache_ok|exact M|reflexivity].
  - destruct (Nat.eqb _ 1).
    + destruct bad; [destruct (Nat.eqb _ 0); discriminate|]. eapply to_single_mass; eauto.
    + destruct bad; [discriminate|]. destruct (pset_eqb t (rset r0)); [inversion H; subst; exact M|].
      destruct (blank (nch s) t (heap s)) as [h1 r].
      destruct (move_rows all_phases r0 h1 r) as [h2|e]; [|discriminate]. simpl in H. inversion H; subst.
      apply (mass_map (rebind r) s); [apply rebind_ok|exact M|reflexivity].
Qed.

Lemma set_phase_mass s ls s' : mass_inv s -> set_phase s ls = Ok s' -> mass_inv s'.
Proof.
  unfold set_phase. intros M H. destruct (par s) as [p0 c|r].
  - destruct ls as [|q [|? ?]]; try discriminate. inversion H; subst. eapply mass_same; eauto.
  - destruct ls as [|q [|q' l']]; [eapply to_single_mass; eauto|eapply to_single_mass; eauto|].
    eapply set_phases_mass; eauto.
Qed.

Lemma step_mass s o s' : mass_inv s -> step s o = Ok s' -> mass_inv s'.
Proof.
  intros M H. destruct o; simpl in H.
  - eapply set_phases_mass; eauto.
  - eapply set_phase_mass; eauto.
  - unfold reduce_phases in H. destruct (par s); [inversion H; subst; exact M|]. eapply set_phase_mass; eauto.
  - unfold as_stream in H. destruct (par s) as [|r]; [inversion H; subst; exact M|].
    destruct (phase_string (heap s) r) as [|q [|q' l']]; [|eapply set_phase_mass; eauto|discriminate].
    destruct (pset_list (rset r)); [discriminate|]. eapply set_phase_mass; eauto.
  - unfold accessor in H. destruct (acc_pair a) as [x y]. destruct (par s) as [p c|r].
    + eapply set_phases_mass; [|exact H]. eapply mass_same; eauto.
    + destruct (rset r x && rset r y); [inversion H; subst; exact M|]. eapply set_phases_mass; eauto.
  - unfold get_view in H. destruct (par s) as [p c|r].
    + destruct (lower_eqb l p); [|discriminate]. inversion H; subst. eapply mass_same; eauto.
    + destruct (find_cached (views s) l 0); [inversion H; subst; eapply mass_same; eauto|].
      destruct (rlookup r l); [|discriminate]. inversion H; subst.
      intros v Hv. simpl in Hv. apply in_app_or in Hv. destruct Hv as [Hv|[<-|[]]]; [exact (M v Hv)|].
      intros c0 E. discriminate.
  - unfold write_view in H. destruct (nth_error (views s) i); [|discriminate]. inversion H; subst. eapply mass_same; eauto.
  - unfold write_parent in H. destruct (par s) as [p c|r].
    + inversion H; subst. eapply mass_same; eauto.
    + destruct (rlookup r l); [|discriminate]. inversion H; subst. eapply mass_same; eauto.
  - inversion H; subst. eapply mass_same; eauto.
  - inversion H; subst. eapply mass_same; eauto.
  - destruct (nth_error (views s) i); [|discriminate]. inversion H; subst. eapply mass_same; eauto.
  - destruct (nth_error (views s) i); [|discriminate]. inversion H; subst. eapply mass_same; eauto.
  - destruct (nth_error (views s) i) as [v|] eqn:N; [|discriminate].
    destruct (vlocked v).
    + destruct (phase_eqb (vphase v) l); [|discriminate]. inversion H; subst. exact M.
    + inversion H; subst. intros w Hw. simpl in Hw. apply in_upd in Hw. destruct Hw as [->|Hw]; [|exact (M w Hw)].
      intros c E. simpl in E. exact (M v (nth_error_In _ _ N) c E).
  - unfold view_mass_touch in H. destruct (nth_error (views s) i) as [v|] eqn:N; [|discriminate]. inversion H; subst.
    intros w Hw. simpl in Hw. apply in_upd in Hw. destruct Hw as [->|Hw]; [|exact (M w Hw)].
    apply touch_ok. exact (M v (nth_error_In _ _ N)).
  - unfold view_mass_write in H. destruct (nth_error (views s) i) as [v|] eqn:N; [|discriminate]. inversion H; subst.
    intros w Hw. simpl in Hw. apply in_upd in Hw. destruct Hw as [->|Hw]; [|exact (M w Hw)].
    apply touch_ok. exact (M v (nth_error_In _ _ N)).
  - inversion H; subst. eapply mass_same; eauto.
  - destruct (nth_error (saved s) k) as [d|]; [|discriminate]. unfold restore in H.
    destruct (set_phases (empty_all s) (fun p => isSome (sd_rows d p)) false) as [s1|e] eqn:S1; [|discriminate].
    simpl in H.
    assert (M1 : mass_inv s1).
    { eapply set_phases_mass; [|exact S1]. eapply mass_same; [exact M|]. unfold empty_all. destruct (par s); reflexivity. }
    destruct (par s1) as [p c|r].
    + destruct (match sd_single d with Some q => Some q | None => hd_error (pset_list (fun p0 => isSome (sd_rows d p0))) end) as [q|]; [|discriminate].
      destruct (sd_rows d q); [|discriminate]. simpl in H. inversion H; subst. eapply mass_same; eauto.
    + destruct (sd_single d); [discriminate|]. simpl in H. inversion H; subst. eapply mass_same; eauto.
Qed.

Lemma run_mass ops : forall s s', mass_inv s -> run s ops = Ok s' -> mass_inv s'.
Proof.
  induction ops as [|o ops IH]; intros s s' M H; simpl in H.
  - inversion H; subst; exact M.
  - destruct (step s o) as [s1|e] eqn:S1; [|discriminate]. simpl in H.
    eapply IH; [eapply step_mass; eauto|exact H].
Qed.

(* a mass-basis read through a live view is MW times the parent's current row; a mass-basis write lands in it *)
Lemma view_mass_reads s i v c :
  live_inv s -> mass_inv s -> nth_error (views s) i = Some v -> vin v = true -> vmass v = Some c ->
  exists q, resolve (pset_now s) (vlabel v) = Some q /\
            vmul (cellv (heap s) c) (mws s) = vmul (flow s q) (mws s).
Proof.
  intros L M N Hin Hm. destruct (view_reads_parent s i v L N Hin) as (r & q & Ps & Rq & Rc & Ec & _).
  rewrite (M v (nth_error_In _ _ N) c Hm). exists q. split; [unfold pset_now; rewrite Ps; exact Rq|].
  rewrite Ec. reflexivity.
Qed.

Lemma view_mass_write_visible s i j x s' v :
  wf s -> live_inv s -> mass_inv s -> nth_error (views s) i = Some v -> vin v = true ->
  step s (OViewMassWrite i j x) = Ok s' ->
  exists q, resolve (pset_now s) (vlabel v) = Some q /\
    flow s' q = upd (flow s q) j (x / nthq (mws s) j) /\ (forall p, p <> q -> flow s' p = flow s p) /\
    live_inv s' /\ mass_inv s'.
Proof.
  intros W L M N Hin H.
  destruct (view_reads_parent s i v L N Hin) as (r & q & Ps & Rq & Rc & Ec & _).
  pose proof (step_live _ _ _ L H) as L'. pose proof (step_mass _ _ _ M H) as M'.
  simpl in H. unfold view_mass_write in H. rewrite N in H. inversion H; subst s'. clear H.
  assert (Ec' : mass_cell v = vcell v).
  { unfold mass_cell. destruct (vmass v) as [c|] eqn:E; [|reflexivity]. exact (M v (nth_error_In _ _ N) c E). }
  rewrite Ec' in *.
  destruct W as (_ & Hp & _). rewrite Ps in Hp. destruct Hp as [Hr Hinj].
  exists q. split; [unfold pset_now; rewrite Ps; exact Rq|]. split; [|split; [|split; [exact L'|exact M']]].
  - unfold flow; simpl. rewrite Ps, Rc. unfold write_cell. apply cellv_upd_same. eapply Hr; eauto.
  - intros p Hne. unfold flow; simpl. rewrite Ps. destruct (r p) as [c|] eqn:Rp; [|reflexivity].
    unfold write_cell. apply cellv_upd_other. intros E. apply Hne. subst c. eapply Hinj; eauto.
Qed.

(* ================= MultiStream.from_streams: the given streams are live sub-streams from the start ================= *)
Lemma fs_index_some ss : forall p i, fs_index ss p = Some i ->
  exists x, nth_error ss i = Some x /\ ss_phase x = p.
Proof.
  induction ss as [|y t IH]; intros p i H; simpl in H; [discriminate|].
  destruct (phase_eqb (ss_phase y) p) eqn:E.
  - inversion H; subst. exists y. split; [reflexivity|apply phase_eqb_eq; exact E].
  - destruct (fs_index t p) as [j|] eqn:F; [|discriminate]. inversion H; subst.
    destruct (IH p j F) as (x & Nx & Px). exists x. split; auto.
Qed.

Lemma fs_index_of ss : forall j x, distinct_phases ss = true -> nth_error ss j = Some x ->
  fs_index ss (ss_phase x) = Some j.
Proof.
  induction ss as [|y t IH]; intros j x D N; [destruct j; discriminate|].
  simpl in D. apply andb_true_iff in D. destruct D as [D1 D2].
  destruct j as [|j]; simpl in N |- *.
  - inversion N; subst. rewrite phase_eqb_refl. reflexivity.
  - assert (E : phase_eqb (ss_phase y) (ss_phase x) = false).
    { apply phase_eqb_neq. intros Eq. apply negb_true_iff in D1.
      assert (X : existsb (fun z => phase_eqb (ss_phase z) (ss_phase y)) t = true).
      { apply existsb_exists. exists x. split; [eapply nth_error_In; eauto|]. rewrite Eq. apply phase_eqb_refl. }
      congruence. }
    rewrite E. rewrite (IH j x D2 N). reflexivity.
Qed.

Lemma fs_views_in ss : forall k v, In v (fs_views ss k) ->
  exists j x, nth_error ss j = Some x /\
    v = mkview (ss_phase x) (k + j) 0 true (if ss_mass x then Some (k + j)%nat else None) (ss_phase x) false.
Proof.
  induction ss as [|y t IH]; intros k v H; simpl in H; [destruct H|].
  destruct H as [<-|H].
  - exists 0%nat, y. rewrite Nat.add_0_r. split; reflexivity.
  - destruct (IH (S k) v H) as (j & x & N & E). exists (S j), x. split; [exact N|].
    rewrite E. replace (S k + j)%nat with (k + S j)%nat by lia. reflexivity.
Qed.

Lemma hwf_map_flows n ss : Forall (fun x => length (ss_flow x) = n) ss -> hwf n (map ss_flow ss).
Proof.
  induction 1 as [|x t Hx Ht IH]; intros c Hc; simpl in *; [lia|].
  destruct c as [|c]; [exact Hx|]. apply IH. lia.
Qed.

Lemma from_streams_live n mw ss s :
  from_streams n mw ss = Ok s -> Forall (fun x => length (ss_flow x) = n) ss ->
  wf s /\ live_inv s /\ mass_inv s /\ (proper_state s -> good s).
Proof.
  unfold from_streams. intros H F. destruct ss as [|y t] eqn:Ess; [discriminate|]. rewrite <- Ess in *.
  destruct (distinct_phases ss) eqn:D; [|discriminate]. simpl in H. inversion H; subst s. clear H.
  assert (W : wf (mkst n mw (map ss_flow ss) (map (fun x => (ss_T x, ss_P x)) ss) (Multi (fs_index ss)) 0 (fs_views ss 0) 0 [])).
  { split; [apply hwf_map_flows; exact F|]. split; [|split; [simpl; rewrite map_length, Ess; simpl; lia|constructor]].
    split.
    - intros p c Hc. destruct (fs_index_some ss p c Hc) as (x & Nx & _). simpl. rewrite map_length.
      apply nth_error_Some. congruence.
    - intros p q c Hp Hq. destruct (fs_index_some ss p c Hp) as (x & Nx & Px).
      destruct (fs_index_some ss q c Hq) as (x' & Nx' & Px'). congruence. }
  split; [exact W|]. split; [|split].
  - intros v Hv. simpl in Hv. destruct (fs_views_in ss 0 v Hv) as (j & x & N & ->). simpl.
    split; [reflexivity|]. intros _. exists (fs_index ss). split; [reflexivity|].
    pose proof (fs_index_of ss j x D N) as I. unfold rlookup.
    rewrite (resolve_self (rset (fs_index ss)) (ss_phase x)) by (unfold rset; rewrite I; reflexivity).
    exact I.
  - intros v Hv. simpl in Hv. destruct (fs_views_in ss 0 v Hv) as (j & x & N & ->).
    intros c E. simpl in *. destruct (ss_mass x); [inversion E; reflexivity|discriminate].
  - intros Pr. split; [exact W|]. split; [exact Pr|constructor].
Qed.
