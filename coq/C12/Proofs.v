(* C12 — lemmas about the phase-representation state machine of Model.v *)
From V Require Import Common.NumFacts C12.Model.

(* ================= generic helpers ================= *)
Lemma phase_eqb_eq a b : phase_eqb a b = true <-> a = b.
Proof. destruct a, b; simpl; split; intros H; try reflexivity; try discriminate. Qed.
Lemma phase_eqb_refl a : phase_eqb a a = true.
Proof. destruct a; reflexivity. Qed.
Lemma phase_eqb_neq a b : phase_eqb a b = false <-> a <> b.
Proof.
  split; intros H.
  - intros E. subst. rewrite phase_eqb_refl in H. discriminate.
  - destruct (phase_eqb a b) eqn:E; auto. apply phase_eqb_eq in E. contradiction.
Qed.
Lemma phase_eq_dec (a b : phase) : {a = b} + {a <> b}.
Proof. decide equality. Qed.
Lemma all_phases_in p : In p all_phases.
Proof. destruct p; simpl; auto 10. Qed.
Lemma all_phases_nodup : NoDup all_phases.
Proof. repeat constructor; simpl; intuition discriminate. Qed.

Definition psum (l : list phase) (f : phase -> Q) : Q := fold_right (fun p acc => f p + acc) 0 l.

Lemma psum_ext l f g : (forall p, In p l -> f p == g p) -> psum l f == psum l g.
Proof.
  induction l as [|a l IH]; intros H; simpl; [reflexivity|].
  rewrite (H a (or_introl eq_refl)), IH; [reflexivity|]. intros p Hp. apply H. right; exact Hp.
Qed.
Lemma psum_zero l f : (forall p, In p l -> f p == 0) -> psum l f == 0.
Proof.
  induction l as [|a l IH]; intros H; simpl; [reflexivity|].
  rewrite (H a (or_introl eq_refl)), IH; [lra|]. intros p Hp. apply H. right; exact Hp.
Qed.
Lemma psum_plus l f g : psum l (fun p => f p + g p) == psum l f + psum l g.
Proof. induction l as [|a l IH]; simpl; [lra|]. rewrite IH. lra. Qed.
(* changing f at one point of a duplicate-free list *)
Lemma psum_upd_one l q f f' d :
  NoDup l -> In q l -> (forall p, In p l -> p <> q -> f' p == f p) -> f' q == f q + d ->
  psum l f' == psum l f + d.
Proof.
  induction l as [|a l IH]; intros ND Hin Hoth Hq; simpl; [destruct Hin|].
  inversion ND as [|? ? Hna ND']; subst.
  destruct Hin as [E|Hin].
  - subst a. rewrite Hq.
    assert (E : psum l f' == psum l f).
    { apply psum_ext. intros p Hp. apply Hoth; [right; exact Hp|]. intros ->. contradiction. }
    rewrite E. lra.
  - assert (Ha : a <> q) by (intros ->; contradiction).
    rewrite (Hoth a (or_introl eq_refl) Ha).
    rewrite IH; auto; [lra|]. intros p Hp Hne. apply Hoth; auto. right; exact Hp.
Qed.
(* the indicator of one point *)
Lemma psum_indicator l q x :
  NoDup l -> In q l -> psum l (fun p => if phase_eqb p q then x else 0) == x.
Proof.
  intros ND Hin.
  assert (H := psum_upd_one l q (fun _ => 0) (fun p => if phase_eqb p q then x else 0) x ND Hin).
  rewrite H.
  - rewrite psum_zero; [lra|]. intros; reflexivity.
  - intros p _ Hne. apply phase_eqb_neq in Hne. rewrite Hne. reflexivity.
  - rewrite phase_eqb_refl. lra.
Qed.
Lemma psum_swap l1 l2 (f : phase -> phase -> Q) :
  psum l1 (fun p => psum l2 (fun q => f p q)) == psum l2 (fun q => psum l1 (fun p => f p q)).
Proof.
  induction l1 as [|a l1 IH]; simpl.
  - rewrite psum_zero; [reflexivity|]. intros; reflexivity.
  - rewrite IH. rewrite <- psum_plus. reflexivity.
Qed.

Lemma nthq_vzero n j : nthq (vzero n) j == 0.
Proof.
  unfold nthq, vzero. revert j. induction n as [|n IH]; intros [|j]; simpl; try reflexivity. apply IH.
Qed.
Lemma vzero_length n : length (vzero n) = n.
Proof. apply repeat_length. Qed.

Lemma any_nz_false v : any_nz v = false -> forall j, nthq v j == 0.
Proof.
  unfold any_nz, nthq. induction v as [|x v IH]; intros H j.
  - destruct j; reflexivity.
  - simpl in H. apply orb_false_elim in H. destruct H as [Hx Hv].
    destruct j; simpl.
    + apply negb_false_iff in Hx. apply qzerob_true in Hx. exact Hx.
    + apply IH. exact Hv.
Qed.
Lemma any_nz_vzero n : any_nz (vzero n) = false.
Proof. unfold any_nz, vzero. induction n; simpl; auto. Qed.

Lemma cellv_app_l h h' c : (c < length h)%nat -> cellv (h ++ h') c = cellv h c.
Proof. intros H. unfold cellv. apply app_nth1. exact H. Qed.
Lemma cellv_app_new h v : cellv (h ++ [v]) (length h) = v.
Proof. unfold cellv. rewrite app_nth2; [|lia]. rewrite Nat.sub_diag. reflexivity. Qed.
Lemma cellv_upd_same h c v : (c < length h)%nat -> cellv (upd h c v) c = v.
Proof.
  unfold cellv. revert c. induction h as [|a h IH]; intros [|c] H; simpl in *; try lia; auto.
  apply IH. lia.
Qed.
Lemma cellv_upd_other h c c' v : c <> c' -> cellv (upd h c v) c' = cellv h c'.
Proof.
  unfold cellv. revert c c'. induction h as [|a h IH]; intros [|c] [|c'] H; simpl; auto; try congruence.
Qed.
