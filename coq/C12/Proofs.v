(* C12 — lemmas about the phase-representation state machine of Model.v *)
From V Require Import Common.NumFacts C12.Model.

(* ================= generic helpers ================= *)
Lemma phase_eqb_eq a b : phase_eqb a b = true <-> a = b.
Proof. destruct a, b; simpl; split; intros H; try reflexivity; try discriminate. Qed.
Lemma phase_eqb_refl a : phase_eqb a a = true.
Proof. destruct a; reflexivity. Qed.
Lemma phase_eqb_neq a b : phase_eqb a b = false <-> a <> b.
Proof.
  split; intros H.
  - intros E. subst. rewrite phase_eqb_refl in H. discriminate.
  - destruct (phase_eqb a b) eqn:E; auto. apply phase_eqb_eq in E. contradiction.
Qed.
Lemma phase_eq_dec (a b : phase) : {a = b} + {a <> b}.
Proof. decide equality. Qed.
Lemma all_phases_in p : In p all_phases.
Proof. destruct p; simpl; auto 10. Qed.
Lemma all_phases_nodup : NoDup all_phases.
Proof. repeat constructor; simpl; intuition discriminate. Qed.

Definition psum (l : list phase) (f : phase -> Q) : Q := fold_right (fun p acc => f p + acc) 0 l.

Lemma psum_ext l f g : (forall p, In p l -> f p == g p) -> psum l f == psum l g.
Proof.
  induction l as [|a l IH]; intros H; simpl; [reflexivity|].
  rewrite (H a (or_introl eq_refl)), IH; [reflexivity|]. intros p Hp. apply H. right; exact Hp.
Qed.
Lemma psum_zero l f : (forall p, In p l -> f p == 0) -> psum l f == 0.
Proof.
  induction l as [|a l IH]; intros H; simpl; [reflexivity|].
  rewrite (H a (or_introl eq_refl)), IH; [lra|]. intros p Hp. apply H. right; exact Hp.
Qed.
Lemma psum_plus l f g : psum l (fun p => f p + g p) == psum l f + psum l g.
Proof. induction l as [|a l IH]; simpl; [lra|]. rewrite IH. lra. Qed.
(* changing f at one point of a duplicate-free list *)
Lemma psum_upd_one l q f f' d :
  NoDup l -> In q l -> (forall p, In p l -> p <> q -> f' p == f p) -> f' q == f q + d ->
  psum l f' == psum l f + d.
Proof.
  induction l as [|a l IH]; intros ND Hin Hoth Hq; simpl; [destruct Hin|].
  inversion ND as [|? ? Hna ND']; subst.
  destruct Hin as [E|Hin].
  - subst a. rewrite Hq.
    assert (E : psum l f' == psum l f).
    { apply psum_ext. intros p Hp. apply Hoth; [right; exact Hp|]. intros ->. contradiction. }
    rewrite E. lra.
  - assert (Ha : a <> q) by (intros ->; contradiction).
    rewrite (Hoth a (or_introl eq_refl) Ha).
    rewrite IH; auto; [lra|]. intros p Hp Hne. apply Hoth; auto. right; exact Hp.
Qed.
(* the indicator of one point *)
Lemma psum_indicator l q x :
  NoDup l -> In q l -> psum l (fun p => if phase_eqb p q then x else 0) == x.
Proof.
  intros ND Hin.
  assert (H := psum_upd_one l q (fun _ => 0) (fun p => if phase_eqb p q then x else 0) x ND Hin).
  rewrite H.
  - rewrite psum_zero; [lra|]. intros; reflexivity.
  - intros p _ Hne. apply phase_eqb_neq in Hne. rewrite Hne. reflexivity.
  - rewrite phase_eqb_refl. lra.
Qed.
Lemma psum_swap l1 l2 (f : phase -> phase -> Q) :
  psum l1 (fun p => psum l2 (fun q => f p q)) == psum l2 (fun q => psum l1 (fun p => f p q)).
Proof.
  induction l1 as [|a l1 IH]; simpl.
  - rewrite psum_zero; [reflexivity|]. intros; reflexivity.
  - rewrite IH. rewrite <- psum_plus. reflexivity.
Qed.

Lemma psum_cons a l f : psum (a :: l) f = f a + psum l f.
Proof. reflexivity. Qed.
Lemma psum_nil f : psum [] f = 0.
Proof. reflexivity. Qed.
Arguments psum : simpl never.

Lemma nthq_vzero n j : nthq (vzero n) j == 0.
Proof.
  unfold nthq, vzero. revert j. induction n as [|n IH]; intros [|j]; simpl; try reflexivity. apply IH.
Qed.
Lemma vzero_length n : length (vzero n) = n.
Proof. apply repeat_length. Qed.

Lemma any_nz_false v : any_nz v = false -> forall j, nthq v j == 0.
Proof.
  unfold any_nz, nthq. induction v as [|x v IH]; intros H j.
  - destruct j; reflexivity.
  - simpl in H. apply orb_false_elim in H. destruct H as [Hx Hv].
    destruct j; simpl.
    + apply negb_false_iff in Hx. apply qzerob_true in Hx. exact Hx.
    + apply IH. exact Hv.
Qed.
Lemma any_nz_vzero n : any_nz (vzero n) = false.
Proof. unfold any_nz, vzero. induction n; simpl; auto. Qed.

Lemma cellv_app_l h h' c : (c < length h)%nat -> cellv (h ++ h') c = cellv h c.
Proof. intros H. unfold cellv. apply app_nth1. exact H. Qed.
Lemma cellv_app_new h v : cellv (h ++ [v]) (length h) = v.
Proof. unfold cellv. rewrite app_nth2; [|lia]. rewrite Nat.sub_diag. reflexivity. Qed.
Lemma cellv_upd_same h c v : (c < length h)%nat -> cellv (upd h c v) c = v.
Proof.
  unfold cellv. revert c. induction h as [|a h IH]; intros [|c] H; simpl in *; try lia; auto.
  apply IH. lia.
Qed.
Lemma cellv_upd_other h c c' v : c <> c' -> cellv (upd h c v) c' = cellv h c'.
Proof.
  unfold cellv. revert c c'. induction h as [|a h IH]; intros [|c] [|c'] H; simpl; auto; try congruence.
Qed.

(* ================= well-formed heaps and rows ================= *)
Definition hwf (n : nat) (h : list vec) : Prop :=
  forall c, (c < length h)%nat -> length (cellv h c) = n.
Definition rwf (h : list vec) (r : rmap) : Prop :=
  (forall p c, r p = Some c -> (c < length h)%nat) /\
  (forall p q c, r p = Some c -> r q = Some c -> p = q).
(* dense value of row p, 0 when the row does not exist *)
Definition rowv (h : list vec) (r : rmap) (p : phase) (j : nat) : Q :=
  match r p with Some c => nthq (cellv h c) j | None => 0 end.
(* material of phase p is placed in row q of the rows r *)
Definition lands (t : pset) (p q : phase) : bool :=
  match resolve t p with Some q' => phase_eqb q q' | None => false end.

Lemma hwf_app n h v : hwf n h -> length v = n -> hwf n (h ++ [v]).
Proof.
  intros H Hv c Hc. rewrite app_length in Hc. simpl in Hc.
  destruct (Nat.eq_dec c (length h)) as [->|Hne].
  - rewrite cellv_app_new. exact Hv.
  - rewrite cellv_app_l by lia. apply H. lia.
Qed.
Lemma hwf_upd n h c v : hwf n h -> length v = n -> hwf n (upd h c v).
Proof.
  intros H Hv c' Hc'. rewrite upd_length in Hc'.
  destruct (Nat.eq_dec c c') as [->|Hne].
  - rewrite cellv_upd_same by exact Hc'. exact Hv.
  - rewrite cellv_upd_other by exact Hne. apply H. exact Hc'.
Qed.
Lemma rwf_len h h' r : rwf h r -> (length h <= length h')%nat -> rwf h' r.
Proof. intros [A B] L. split; [|exact B]. intros p c H. specialize (A p c H). lia. Qed.

Lemma nth_repeat_in {A} (z d : A) k c : (c < k)%nat -> nth c (repeat z k) d = z.
Proof. revert c. induction k as [|k IH]; intros [|c] H; simpl; try lia; auto. apply IH. lia. Qed.

Lemma pset_list_in t p : In p (pset_list t) <-> t p = true.
Proof.
  unfold pset_list. rewrite filter_In. split; [intros [_ H]; exact H|].
  intros H. split; [apply all_phases_in|exact H].
Qed.
Lemma pset_list_nodup t : NoDup (pset_list t).
Proof. apply NoDup_filter. apply all_phases_nodup. Qed.

Lemma blank_rows_spec n ps : forall h r h1 r1,
  NoDup ps -> blank_rows n ps h r = (h1, r1) ->
  h1 = h ++ repeat (vzero n) (length ps) /\
  (forall p, ~ In p ps -> r1 p = r p) /\
  (forall p, In p ps -> exists c, r1 p = Some c /\ (length h <= c < length h1)%nat) /\
  (forall p q c, In p ps -> In q ps -> r1 p = Some c -> r1 q = Some c -> p = q).
Proof.
  induction ps as [|a ps IH]; intros h r h1 r1 ND H; simpl in H.
  - inversion H; subst. simpl. rewrite app_nil_r. repeat split; auto; intros; contradiction.
  - inversion ND as [|? ? Hna ND']; subst.
    destruct (IH _ _ _ _ ND' H) as (E & Hout & Hin & Hinj).
    assert (Ea : r1 a = Some (length h)).
    { rewrite (Hout a Hna). rewrite phase_eqb_refl. reflexivity. }
    assert (Lh1 : length h1 = (length h + S (length ps))%nat).
    { rewrite E. rewrite !app_length, repeat_length. simpl. lia. }
    split; [|split; [|split]].
    + rewrite E. rewrite <- app_assoc. reflexivity.
    + intros p Hp. rewrite Hout by (intros Hp'; apply Hp; right; exact Hp').
      assert (Hne : p <> a) by (intros ->; apply Hp; left; reflexivity).
      apply phase_eqb_neq in Hne. rewrite Hne. reflexivity.
    + intros p [->|Hp].
      * exists (length h). split; [exact Ea|]. lia.
      * destruct (Hin p Hp) as (c & Hc & Hr). exists c. split; [exact Hc|].
        rewrite app_length in Hr. simpl in Hr. lia.
    + intros p q c [->|Hp] [->|Hq] Hpc Hqc; auto.
      * destruct (Hin q Hq) as (c' & Hc' & Hr). rewrite app_length in Hr. simpl in Hr.
        rewrite Ea in Hpc. rewrite Hc' in Hqc. inversion Hpc; inversion Hqc; subst. lia.
      * destruct (Hin p Hp) as (c' & Hc' & Hr). rewrite app_length in Hr. simpl in Hr.
        rewrite Ea in Hqc. rewrite Hc' in Hpc. inversion Hpc; inversion Hqc; subst. lia.
      * eapply Hinj; eauto.
Qed.

Lemma blank_spec n t h h1 r :
  blank n t h = (h1, r) ->
  h1 = h ++ repeat (vzero n) (pset_card t) /\
  (forall p, rset r p = t p) /\
  (forall p c, r p = Some c -> (length h <= c < length h1)%nat) /\
  (forall p q c, r p = Some c -> r q = Some c -> p = q).
Proof.
  unfold blank. intros H.
  destruct (blank_rows_spec n (pset_list t) h (fun _ => None) h1 r (pset_list_nodup t) H)
    as (E & Hout & Hin & Hinj).
  assert (Hdom : forall p c, r p = Some c -> In p (pset_list t)).
  { intros p c Hc. destruct (in_dec phase_eq_dec p (pset_list t)) as [Hi|Hn]; auto.
    rewrite (Hout p Hn) in Hc. discriminate. }
  split; [exact E|]. split; [|split].
  - intros p. unfold rset. destruct (t p) eqn:Tp.
    + apply pset_list_in in Tp. destruct (Hin p Tp) as (c & Hc & _). rewrite Hc. reflexivity.
    + destruct (r p) eqn:Rp; auto. apply Hdom in Rp. apply pset_list_in in Rp. congruence.
  - intros p c Hc. destruct (Hin p (Hdom p c Hc)) as (c' & Hc' & Hr). congruence.
  - intros p q c Hp Hq. eapply Hinj; eauto.
Qed.

Lemma blank_cells n t h h1 r :
  blank n t h = (h1, r) ->
  (forall c, (c < length h)%nat -> cellv h1 c = cellv h c) /\
  (forall c, (length h <= c < length h1)%nat -> cellv h1 c = vzero n) /\
  (length h <= length h1)%nat.
Proof.
  intros H. destruct (blank_spec n t h h1 r H) as (E & _). subst h1. repeat split.
  - intros c Hc. unfold cellv. apply app_nth1. exact Hc.
  - intros c Hc. rewrite app_length, repeat_length in Hc. unfold cellv.
    rewrite app_nth2 by lia. apply nth_repeat_in. lia.
  - rewrite app_length. lia.
Qed.

Lemma blank_hwf n t h h1 r : blank n t h = (h1, r) -> hwf n h -> hwf n h1.
Proof.
  intros H Hh c Hc. destruct (blank_cells n t h h1 r H) as (A & B & _).
  destruct (Nat.lt_ge_cases c (length h)) as [L|L].
  - rewrite A by exact L. apply Hh. exact L.
  - rewrite B by lia. apply vzero_length.
Qed.

(* ================= conversions between row sets ================= *)
Lemma rlookup_some r p c :
  rlookup r p = Some c -> exists q, resolve (rset r) p = Some q /\ r q = Some c.
Proof. unfold rlookup. destruct (resolve (rset r) p) as [q|]; intros H; [exists q; auto|discriminate]. Qed.
Lemma resolve_in t p q : resolve t p = Some q -> t q = true.
Proof.
  unfold resolve. destruct (t p) eqn:Tp; [intros H; inversion H; subst; exact Tp|].
  destruct (swapc p) as [p'|]; [|discriminate]. destruct (t p') eqn:Tp'; [|discriminate].
  intros H; inversion H; subst; exact Tp'.
Qed.
Lemma rlookup_none_resolve r p : rlookup r p = None -> resolve (rset r) p = None.
Proof.
  unfold rlookup. destruct (resolve (rset r) p) as [q|] eqn:E; auto.
  apply resolve_in in E. unfold rset in E. destruct (r q); [discriminate|discriminate].
Qed.

Lemma rowv_upd_add n h r q c v q' j :
  hwf n h -> rwf h r -> length v = n -> r q = Some c ->
  rowv (upd h c (vadd (cellv h c) v)) r q' j ==
  rowv h r q' j + (if phase_eqb q' q then nthq v j else 0).
Proof.
  intros Hh [Hr Hinj] Hv Hq. unfold rowv.
  destruct (phase_eqb q' q) eqn:E.
  - apply phase_eqb_eq in E. subst q'. rewrite Hq.
    rewrite cellv_upd_same by (eapply Hr; eauto).
    apply nthq_vadd. rewrite Hv. apply Hh. eapply Hr; eauto.
  - apply phase_eqb_neq in E. destruct (r q') as [c'|] eqn:Rq'; [|lra].
    rewrite cellv_upd_other; [lra|]. intros ->. apply E. eapply Hinj; eauto.
Qed.

Lemma move_rows_spec n L0 r0 r : forall ps h h2,
  hwf n h -> rwf h r -> (forall p c, r p = Some c -> (L0 <= c)%nat) ->
  (forall p c, r0 p = Some c -> (c < L0)%nat /\ (c < length h)%nat) ->
  move_rows ps r0 h r = Ok h2 ->
  length h2 = length h /\ hwf n h2 /\
  (forall c, (c < L0)%nat -> cellv h2 c = cellv h c) /\
  (forall q j, rowv h2 r q j ==
     rowv h r q j + psum ps (fun p => if lands (rset r) p q then rowv h r0 p j else 0)) /\
  (forall p, In p ps -> resolve (rset r) p = None -> forall j, rowv h r0 p j == 0).
Proof.
  induction ps as [|a ps IH]; intros h h2 Hh Hr Hnew Hold H; simpl in H.
  - inversion H; subst. repeat split; auto.
    + intros. rewrite psum_nil. lra.
    + intros p [].
  - assert (Skip : move_rows ps r0 h r = Ok h2 -> (forall j, rowv h r0 a j == 0) ->
        length h2 = length h /\ hwf n h2 /\
        (forall c, (c < L0)%nat -> cellv h2 c = cellv h c) /\
        (forall q j, rowv h2 r q j ==
           rowv h r q j + psum (a :: ps) (fun p => if lands (rset r) p q then rowv h r0 p j else 0)) /\
        (forall p, In p (a :: ps) -> resolve (rset r) p = None -> forall j, rowv h r0 p j == 0)).
    { intros H' Hz. destruct (IH h h2 Hh Hr Hnew Hold H') as (A & B & C & D & E).
      repeat split; auto.
      - intros q j. rewrite D. rewrite psum_cons. pose proof (Hz j) as Hzj. destruct (lands (rset r) a q); lra.
      - intros p [->|Hp] Hn j; [apply Hz|apply E; auto]. }
    destruct (r0 a) as [c|] eqn:Ra.
    + destruct (any_nz (cellv h c)) eqn:NZ.
      * unfold add_into in H. destruct (rlookup r a) as [c'|] eqn:Lk; [|discriminate].
        simpl in H. destruct (rlookup_some r a c' Lk) as (q & Rq & Rc).
        destruct (Hold a c Ra) as [HcL Hclen].
        assert (Hv : length (cellv h c) = n) by (apply Hh; exact Hclen).
        assert (Hc'len : (c' < length h)%nat) by (destruct Hr as [Hr _]; eapply Hr; eauto).
        set (h' := upd h c' (vadd (cellv h c') (cellv h c))) in *.
        assert (Hh' : hwf n h').
        { apply hwf_upd; auto. rewrite vadd_length; [apply Hh; exact Hc'len|].
          rewrite Hv. apply Hh. exact Hc'len. }
        assert (Hr' : rwf h' r) by (apply (rwf_len h); auto; unfold h'; rewrite upd_length; lia).
        assert (Hold' : forall p c0, r0 p = Some c0 -> (c0 < L0)%nat /\ (c0 < length h')%nat).
        { intros p c0 Hp. unfold h'. rewrite upd_length. exact (Hold p c0 Hp). }
        assert (Hne : forall c0, (c0 < L0)%nat -> cellv h' c0 = cellv h c0).
        { intros c0 Hc0. unfold h'. apply cellv_upd_other. specialize (Hnew q c' Rc). lia. }
        assert (Hrow0 : forall p j, rowv h' r0 p j = rowv h r0 p j).
        { intros p j. unfold rowv. destruct (r0 p) as [c0|] eqn:Rp; auto.
          rewrite Hne; auto. apply (Hold p c0 Rp). }
        destruct (IH h' h2 Hh' Hr' Hnew Hold' H) as (A & B & C & D & E).
        split; [rewrite A; unfold h'; apply upd_length|]. split; [exact B|]. split; [|split].
        -- intros c0 Hc0. rewrite C by exact Hc0. apply Hne. exact Hc0.
        -- intros q0 j. rewrite D. unfold h' at 1.
           rewrite (rowv_upd_add n h r q c' (cellv h c) q0 j Hh Hr Hv Rc).
           rewrite psum_cons. unfold lands at 2. rewrite Rq.
           assert (Ex : psum ps (fun p => if lands (rset r) p q0 then rowv h' r0 p j else 0) ==
                        psum ps (fun p => if lands (rset r) p q0 then rowv h r0 p j else 0)).
           { apply psum_ext. intros p _. rewrite Hrow0. reflexivity. }
           rewrite Ex.
           assert (Ea : rowv h r0 a j = nthq (cellv h c) j) by (unfold rowv; rewrite Ra; reflexivity).
           rewrite Ea. destruct (phase_eqb q0 q); lra.
        -- intros p [->|Hp] Hn j.
           ++ congruence.
           ++ rewrite <- Hrow0. apply E; auto.
      * apply Skip; auto. intros j. unfold rowv. rewrite Ra. apply any_nz_false. exact NZ.
    + apply Skip; auto. intros j. unfold rowv. rewrite Ra. reflexivity.
Qed.

Lemma sum_rows_gen n h r : forall ps acc,
  hwf n h -> (forall p c, r p = Some c -> (c < length h)%nat) -> length acc = n ->
  let res := fold_left (fun acc p => match r p with Some c => vadd acc (cellv h c) | None => acc end) ps acc in
  length res = n /\ forall j, nthq res j == nthq acc j + psum ps (fun p => rowv h r p j).
Proof.
  induction ps as [|a ps IH]; intros acc Hh Hr Ha; simpl.
  - split; auto. intros; rewrite psum_nil; lra.
  - destruct (r a) as [c|] eqn:Ra.
    + assert (Hc : length (cellv h c) = n) by (apply Hh; eapply Hr; eauto).
      assert (Hl : length (vadd acc (cellv h c)) = n) by (rewrite vadd_length; congruence).
      destruct (IH (vadd acc (cellv h c)) Hh Hr Hl) as [A B]. split; [exact A|].
      intros j. rewrite B. rewrite nthq_vadd by congruence. rewrite psum_cons.
      assert (Ea : rowv h r a j = nthq (cellv h c) j) by (unfold rowv; rewrite Ra; reflexivity).
      rewrite Ea. lra.
    + destruct (IH acc Hh Hr Ha) as [A B]. split; [exact A|].
      intros j. rewrite B. rewrite psum_cons.
      assert (Ea : rowv h r a j = 0) by (unfold rowv; rewrite Ra; reflexivity).
      rewrite Ea. lra.
Qed.

Lemma sum_rows_spec n h r :
  hwf n h -> (forall p c, r p = Some c -> (c < length h)%nat) ->
  length (sum_rows n h r) = n /\
  forall j, nthq (sum_rows n h r) j == psum all_phases (fun p => rowv h r p j).
Proof.
  intros Hh Hr. destruct (sum_rows_gen n h r all_phases (vzero n) Hh Hr (vzero_length n)) as [A B].
  split; [exact A|]. intros j. unfold sum_rows. rewrite B. rewrite nthq_vzero. lra.
Qed.

(* ================= views_live: an invariant of every history ================= *)
(* every view object still in the parent's _streams cache aliases the parent's CURRENT row for its
   label and every view object ever made shares the parent's thermal-condition object *)
Definition live_inv (s : st) : Prop :=
  forall v, In v (views s) ->
    vtc v = ptc s /\
    (vin v = true -> exists r, par s = Multi r /\ rlookup r (vlabel v) = Some (vcell v)).

Lemma live_clear s p :
  (forall v, In v (views s) -> vtc v = ptc s) ->
  forall v, In v (map uncache (views s)) -> vtc v = ptc s /\ (vin v = true -> exists r, p = Multi r /\ rlookup r (vlabel v) = Some (vcell v)).
Proof.
  intros H v Hv. apply in_map_iff in Hv. destruct Hv as (w & <- & Hw). simpl.
  split; [apply H; exact Hw|discriminate].
Qed.

Lemma live_tc s : live_inv s -> forall v, In v (views s) -> vtc v = ptc s.
Proof. intros H v Hv. apply (H v Hv). Qed.

Lemma to_single_live s p s' : live_inv s -> to_single s p = Ok s' -> live_inv s'.
Proof.
  unfold to_single. intros L H. destruct (par s) as [p0 c|r] eqn:Ps.
  - inversion H; subst. intros v Hv. simpl in *. destruct (L v Hv) as [A B]. split; [exact A|].
    intros Hin. destruct (B Hin) as (r & Hr & _). congruence.
  - destruct (Nat.eqb (pset_card (rset r)) 0); [discriminate|]. inversion H; subst.
    intros v Hv. simpl in Hv. simpl.
    apply (live_clear s (Single p (length (heap s))) (live_tc s L) v Hv).
Qed.

Lemma set_phases_live s t bad s' : live_inv s -> set_phases s t bad = Ok s' -> live_inv s'.
Proof.
  unfold set_phases. intros L H. destruct (par s) as [p0 c|r0] eqn:Ps.
  - destruct (Nat.eqb _ 1).
    + destruct bad; [discriminate|]. eapply to_single_live; eauto.
    + destruct bad; [discriminate|]. destruct (blank (nch s) t (heap s)) as [h1 r] eqn:B.
      destruct (any_nz (cellv (heap s) c)).
      * destruct (rlookup r p0); [|discriminate]. inversion H; subst.
        intros v Hv. simpl in Hv. simpl. apply (live_clear s (Multi r) (live_tc s L) v Hv).
      * inversion H; subst. intros v Hv. simpl in Hv. simpl.
        apply (live_clear s (Multi r) (live_tc s L) v Hv).
  - destruct (Nat.eqb _ 1).
    + destruct bad; [destruct (Nat.eqb _ 0); discriminate|]. eapply to_single_live; eauto.
    + destruct bad; [discriminate|]. destruct (pset_eqb t (rset r0)); [inversion H; subst; exact L|].
      destruct (blank (nch s) t (heap s)) as [h1 r] eqn:B.
      destruct (move_rows all_phases r0 h1 r) as [h2|e]; [|discriminate]. simpl in H.
      inversion H; subst. intros v Hv. simpl in Hv. simpl.
      apply in_map_iff in Hv. destruct Hv as (w & <- & Hw).
      unfold rebind. destruct (vin w) eqn:Win.
      * destruct (rlookup r (vlabel w)) as [c|] eqn:Lk; simpl.
        -- split; [apply (live_tc s L w Hw)|]. intros _. exists r. split; auto.
        -- split; [apply (live_tc s L w Hw)|discriminate].
      * split; [apply (live_tc s L w Hw)|]. rewrite Win. discriminate.
Qed.

Lemma set_phase_live s ls s' : live_inv s -> set_phase s ls = Ok s' -> live_inv s'.
Proof.
  unfold set_phase. intros L H. destruct (par s) as [p0 c|r0] eqn:Ps.
  - destruct ls as [|q [|? ?]]; try discriminate. inversion H; subst.
    intros v Hv. simpl in *. destruct (L v Hv) as [A B]. split; [exact A|].
    intros Hin. destruct (B Hin) as (r & Hr & _). congruence.
  - destruct ls as [|q [|q' ls']].
    + eapply to_single_live; eauto.
    + eapply to_single_live; eauto.
    + eapply set_phases_live; eauto.
Qed.

Lemma heap_only_live s h : live_inv s -> live_inv (set_heap s h).
Proof. intros L v Hv. exact (L v Hv). Qed.
Lemma tcs_only_live s t : live_inv s -> live_inv (set_tcs s t).
Proof. intros L v Hv. exact (L v Hv). Qed.

Lemma empty_all_live s : live_inv s -> live_inv (empty_all s).
Proof. unfold empty_all. intros L. destruct (par s); apply heap_only_live; exact L. Qed.

Lemma restore_live s d s' : live_inv s -> restore s d = Ok s' -> live_inv s'.
Proof.
  unfold restore. intros L H.
  destruct (set_phases (empty_all s) (fun p => isSome (sd_rows d p)) false) as [s1|e] eqn:S1; [|discriminate].
  simpl in H. assert (L1 : live_inv s1) by (eapply set_phases_live; [apply empty_all_live; exact L|exact S1]).
  destruct (par s1) as [p c|r] eqn:P1.
  - destruct (sd_single d) as [q|]; [|discriminate]. destruct (sd_rows d q) as [v|]; [|discriminate].
    simpl in H. inversion H; subst. intros w Hw. simpl in *. destruct (L1 w Hw) as [A B].
    split; [exact A|]. intros Hin. destruct (B Hin) as (r & Hr & _). congruence.
  - destruct (sd_single d) as [q|]; [discriminate|]. simpl in H. inversion H; subst.
    intros w Hw. simpl in *. destruct (L1 w Hw) as [A B]. split; [exact A|].
    intros Hin. destruct (B Hin) as (r' & Hr & Hl). exists r'. split; [congruence|exact Hl].
Qed.

Lemma find_cached_none vs l : forall i, find_cached vs l i = None ->
  forall v, In v vs -> vin v = true -> vlabel v <> l.
Proof.
  induction vs as [|a vs IH]; intros i H v Hv Hin; [destruct Hv|].
  simpl in H. destruct (vin a && phase_eqb (vlabel a) l) eqn:E; [discriminate|].
  destruct Hv as [->|Hv].
  - rewrite Hin in E. simpl in E. apply phase_eqb_neq. exact E.
  - eapply IH; eauto.
Qed.

Lemma step_live s o s' : live_inv s -> step s o = Ok s' -> live_inv s'.
Proof.
  intros L H. destruct o; simpl in H.
  - eapply set_phases_live; eauto.
  - eapply set_phase_live; eauto.
  - unfold reduce_phases in H. destruct (par s); [inversion H; subst; exact L|]. eapply set_phase_live; eauto.
  - unfold as_stream in H. destruct (par s) as [|r]; [inversion H; subst; exact L|].
    destruct (phase_string (heap s) r) as [|q [|q' l']].
    + destruct (pset_list (rset r)); [discriminate|]. eapply set_phase_live; eauto.
    + eapply set_phase_live; eauto.
    + discriminate.
  - unfold accessor in H. destruct (acc_pair a) as [x y]. destruct (par s) as [p c|r].
    + eapply set_phases_live; eauto.
    + destruct (rset r x && rset r y); [inversion H; subst; exact L|]. eapply set_phases_live; eauto.
  - unfold get_view in H. destruct (par s) as [p c|r] eqn:Ps.
    + destruct (lower_eqb l p); [|discriminate]. inversion H; subst. intros v Hv. exact (L v Hv).
    + destruct (find_cached (views s) l 0); [inversion H; subst; intros v Hv; exact (L v Hv)|].
      destruct (rlookup r l) as [c|] eqn:Lk; [|discriminate]. inversion H; subst.
      intros v Hv. simpl in Hv. simpl. apply in_app_or in Hv. destruct Hv as [Hv|[<-|[]]].
      * exact (L v Hv).
      * simpl. split; auto. intros _. exists r. split; auto.
  - unfold write_view in H. destruct (nth_error (views s) i); [|discriminate]. inversion H; subst.
    apply heap_only_live; exact L.
  - unfold write_parent in H. destruct (par s) as [p c|r].
    + inversion H; subst. apply heap_only_live; exact L.
    + destruct (rlookup r l); [|discriminate]. inversion H; subst. apply heap_only_live; exact L.
  - inversion H; subst. apply tcs_only_live; exact L.
  - inversion H; subst. apply tcs_only_live; exact L.
  - destruct (nth_error (views s) i); [|discriminate]. inversion H; subst. apply tcs_only_live; exact L.
  - destruct (nth_error (views s) i); [|discriminate]. inversion H; subst. apply tcs_only_live; exact L.
  - destruct (nth_error (views s) i) as [v|]; [|discriminate].
    destruct (phase_eqb (vlabel v) l); [|discriminate]. inversion H; subst. exact L.
  - inversion H; subst. intros v Hv. exact (L v Hv).
  - destruct (nth_error (saved s) k); [|discriminate]. eapply restore_live; eauto.
Qed.

Lemma run_live ops : forall s s', live_inv s -> run s ops = Ok s' -> live_inv s'.
Proof.
  induction ops as [|o ops IH]; intros s s' L H; simpl in H.
  - inversion H; subst; exact L.
  - destruct (step s o) as [s1|e] eqn:S1; [|discriminate]. simpl in H.
    eapply IH; [eapply step_live; eauto|exact H].
Qed.

(* ================= well-formed states, dense abstraction ================= *)
Definition fl (s : st) (p : phase) (j : nat) : Q := nthq (flow s p) j.
Definition sdwf (n : nat) (d : sdata) : Prop := forall p v, sd_rows d p = Some v -> length v = n.
Definition par_wf (h : list vec) (p : repr) : Prop :=
  match p with Single _ c => (c < length h)%nat | Multi r => rwf h r end.
Definition wf (s : st) : Prop :=
  hwf (nch s) (heap s) /\ par_wf (heap s) (par s) /\ (ptc s < length (tcs s))%nat /\
  Forall (sdwf (nch s)) (saved s).
Definition frame (s s' : st) : Prop :=
  nch s' = nch s /\ tcs s' = tcs s /\ ptc s' = ptc s /\ saved s' = saved s /\ lastret s' = lastret s.
(* the set of phase labels the stream has now *)
Definition pset_now (s : st) : pset :=
  match par s with Single q _ => (fun p => phase_eqb p q) | Multi r => rset r end.
(* material of phase p is found in p if the stream now has p, else in the other case *)
Definition placed (s s' : st) : Prop :=
  forall q j, fl s' q j == psum all_phases (fun p => if lands (pset_now s') p q then fl s p j else 0).
(* every non-empty phase of s has a place in t (up to case) *)
Definition covers (s : st) (t : pset) : Prop := forall p j, resolve t p = None -> fl s p j == 0.

Lemma total_psum s j : total s j = psum all_phases (fun p => fl s p j).
Proof. reflexivity. Qed.

Lemma fl_multi s r p j : par s = Multi r -> fl s p j == rowv (heap s) r p j.
Proof.
  intros H. unfold fl, flow, rowv. rewrite H. destruct (r p); [reflexivity|apply nthq_vzero].
Qed.
Lemma fl_single s q c p j : par s = Single q c ->
  fl s p j == if phase_eqb p q then nthq (cellv (heap s) c) j else 0.
Proof.
  intros H. unfold fl, flow. rewrite H. destruct (phase_eqb p q); [reflexivity|apply nthq_vzero].
Qed.
Lemma total_single s q c j : par s = Single q c -> total s j == nthq (cellv (heap s) c) j.
Proof.
  intros H. rewrite total_psum.
  rewrite (psum_ext all_phases _ (fun p => if phase_eqb p q then nthq (cellv (heap s) c) j else 0)).
  - apply psum_indicator; [apply all_phases_nodup|apply all_phases_in].
  - intros p _. apply fl_single. exact H.
Qed.

Lemma resolve_ext t t' p : (forall x, t x = t' x) -> resolve t p = resolve t' p.
Proof. intros H. unfold resolve. rewrite (H p). destruct (swapc p) as [q|]; [rewrite (H q)|]; reflexivity. Qed.
Lemma lands_ext t t' p q : (forall x, t x = t' x) -> lands t p q = lands t' p q.
Proof. intros H. unfold lands. rewrite (resolve_ext t t' p H). reflexivity. Qed.
Lemma resolve_self t p : t p = true -> resolve t p = Some p.
Proof. intros H. unfold resolve. rewrite H. reflexivity. Qed.

(* a target in which every non-empty phase keeps its own label moves nothing *)
Lemma psum_lands_id t f q :
  (forall p, resolve t p <> Some p -> f p == 0) ->
  psum all_phases (fun p => if lands t p q then f p else 0) == f q.
Proof.
  intros H.
  rewrite (psum_ext all_phases _ (fun p => if phase_eqb p q then f q else 0)).
  - apply psum_indicator; [apply all_phases_nodup|apply all_phases_in].
  - intros p _. unfold lands. destruct (phase_eqb p q) eqn:E.
    + apply phase_eqb_eq in E. subst p.
      destruct (resolve t q) as [q'|] eqn:R.
      * destruct (phase_eqb q q') eqn:E'; [reflexivity|].
        symmetry. apply H. intros X. rewrite R in X. inversion X; subst. rewrite phase_eqb_refl in E'. discriminate.
      * symmetry. apply H. rewrite R. discriminate.
    + destruct (resolve t p) as [q'|] eqn:R; [|reflexivity].
      destruct (phase_eqb q q') eqn:E'; [|reflexivity].
      apply phase_eqb_eq in E'. subst q'. apply H. intros X. rewrite R in X. inversion X; subst.
      rewrite phase_eqb_refl in E. discriminate.
Qed.

(* placement + every non-empty phase placed  ==>  totals *)
Lemma placed_total s s' :
  placed s s' -> covers s (pset_now s') -> forall j, total s' j == total s j.
Proof.
  intros Hp Hc j. rewrite !total_psum.
  rewrite (psum_ext all_phases _ (fun q => psum all_phases (fun p => if lands (pset_now s') p q then fl s p j else 0)))
    by (intros q _; apply Hp).
  rewrite psum_swap. apply psum_ext. intros p _.
  unfold lands. destruct (resolve (pset_now s') p) as [q'|] eqn:R.
  - apply (psum_indicator all_phases q' (fl s p j)); [apply all_phases_nodup|apply all_phases_in].
  - rewrite psum_zero by (intros; reflexivity). symmetry. apply Hc. exact R.
Qed.

Lemma single_placed s s' q c :
  par s' = Single q c -> (forall j, fl s' q j == total s j) -> covers s (pset_now s') -> placed s s'.
Proof.
  intros Hs Ht Hc q0 j. rewrite (fl_single s' q c q0 j Hs).
  assert (PN : forall x, pset_now s' x = phase_eqb x q) by (intros x; unfold pset_now; rewrite Hs; reflexivity).
  destruct (phase_eqb q0 q) eqn:E.
  - apply phase_eqb_eq in E. subst q0.
    pose proof (fl_single s' q c q j Hs) as X. rewrite phase_eqb_refl in X. rewrite <- X.
    rewrite Ht, total_psum.
    apply psum_ext. intros p _. unfold lands. destruct (resolve (pset_now s') p) as [q'|] eqn:R.
    + apply resolve_in in R. rewrite PN in R. apply phase_eqb_eq in R. subst q'.
      rewrite phase_eqb_refl. reflexivity.
    + apply Hc. exact R.
  - symmetry. apply psum_zero. intros p _. unfold lands.
    destruct (resolve (pset_now s') p) as [q'|] eqn:R; [|reflexivity].
    apply resolve_in in R. rewrite PN in R. apply phase_eqb_eq in R. subst q'. rewrite E. reflexivity.
Qed.

Lemma wf_views_irrelevant s v : wf s -> wf (set_views s v).
Proof. intros H; exact H. Qed.

Lemma to_single_spec s p s' :
  wf s -> to_single s p = Ok s' ->
  wf s' /\ frame s s' /\ (exists c, par s' = Single p c) /\ (forall j, fl s' p j == total s j).
Proof.
  unfold to_single. intros (Hh & Hp & Htc & Hsv) H. destruct (par s) as [p0 c|r] eqn:Ps.
  - inversion H; subst. simpl in Hp. split; [|split; [|split]].
    + repeat split; simpl; auto.
    + repeat split.
    + exists c. reflexivity.
    + intros j. match goal with |- fl ?S _ _ == _ => rewrite (fl_single S p c p j eq_refl) end. rewrite phase_eqb_refl. simpl.
      rewrite (total_single s p0 c j Ps). reflexivity.
  - destruct (Nat.eqb (pset_card (rset r)) 0); [discriminate|]. inversion H; subst. clear H.
    simpl in Hp. destruct Hp as [Hr Hinj].
    destruct (sum_rows_spec (nch s) (heap s) r Hh Hr) as [Lv Sv].
    split; [|split; [|split]].
    + unfold wf; simpl. split; [apply hwf_app; auto|]. split; [rewrite app_length; simpl; lia|]. split; auto.
    + repeat split.
    + eexists. reflexivity.
    + intros j. match goal with |- fl ?S _ _ == _ => rewrite (fl_single S p (length (heap s)) p j eq_refl) end. rewrite phase_eqb_refl. simpl.
      rewrite cellv_app_new. rewrite Sv. rewrite total_psum. apply psum_ext. intros q _.
      symmetry. apply fl_multi. exact Ps.
Qed.

Lemma pset_eqb_true a b : pset_eqb a b = true -> forall p, a p = b p.
Proof.
  unfold pset_eqb. rewrite forallb_forall. intros H p. specialize (H p (all_phases_in p)).
  apply Bool.eqb_prop in H. exact H.
Qed.

Lemma set_phases_multi_target s t s' :
  wf s -> set_phases s t false = Ok s' -> pset_card t <> 1%nat ->
  wf s' /\ frame s s' /\ (forall p, pset_now s' p = t p) /\ covers s t /\ placed s s'.
Proof.
  unfold set_phases. intros (Hh & Hp & Htc & Hsv) H Hcard. rewrite Nat.add_0_r in H.
  apply Nat.eqb_neq in Hcard. rewrite Hcard in H.
  destruct (par s) as [p0 c|r0] eqn:Ps.
  - (* Stream -> MultiStream *)
    destruct (blank (nch s) t (heap s)) as [h1 r] eqn:B.
    destruct (blank_spec _ _ _ _ _ B) as (E & Hset & Hrange & Hinj).
    destruct (blank_cells _ _ _ _ _ B) as (Cold & Cnew & Clen).
    assert (Hh1 : hwf (nch s) h1) by (eapply blank_hwf; eauto).
    assert (Hr1 : rwf h1 r) by (split; [intros p c' Hc'; apply (Hrange p c' Hc')|exact Hinj]).
    simpl in Hp.
    assert (Z1 : forall q j, rowv h1 r q j == 0).
    { intros q j. unfold rowv. destruct (r q) as [c'|] eqn:Rq; [|reflexivity].
      rewrite Cnew by (apply (Hrange q c' Rq)). apply nthq_vzero. }
    destruct (any_nz (cellv (heap s) c)) eqn:NZ.
    + destruct (rlookup r p0) as [c'|] eqn:Lk; [|discriminate]. inversion H as [Hs']; subst s'; clear H.
      destruct (rlookup_some r p0 c' Lk) as (q0 & Rq0 & Rc').
      assert (Lc' : (c' < length h1)%nat) by (apply (Hrange q0 c' Rc')).
      split; [|split; [|split; [|split]]].
      * unfold wf; simpl. split; [apply hwf_upd; auto|].
        split; [apply (rwf_len h1); auto; rewrite upd_length; lia|]. split; auto.
      * repeat split.
      * intros p. unfold pset_now; simpl. apply Hset.
      * intros p j Rn. rewrite (fl_single s p0 c p j Ps). destruct (phase_eqb p p0) eqn:Ep; [|reflexivity].
        apply phase_eqb_eq in Ep. subst p.
        rewrite (resolve_ext t (rset r) p0) in Rn by (intros x; symmetry; apply Hset). congruence.
      * intros q j. match goal with |- fl ?S _ _ == _ => rewrite (fl_multi S r q j eq_refl) end. simpl.
        rewrite (psum_ext all_phases _ (fun p => if phase_eqb p p0
                    then (if phase_eqb q q0 then nthq (cellv (heap s) c) j else 0) else 0)).
        -- rewrite psum_indicator by (try apply all_phases_nodup; apply all_phases_in).
           unfold rowv. destruct (phase_eqb q q0) eqn:Eq.
           ++ apply phase_eqb_eq in Eq. subst q. rewrite Rc'. rewrite cellv_upd_same by exact Lc'. reflexivity.
           ++ destruct (r q) as [c2|] eqn:Rq; [|reflexivity].
              rewrite cellv_upd_other.
              ** rewrite Cnew by (apply (Hrange q c2 Rq)). apply nthq_vzero.
              ** intros ->. apply phase_eqb_neq in Eq. apply Eq. eapply Hinj; eauto.
        -- intros p _. rewrite (fl_single s p0 c p j Ps). unfold pset_now; simpl.
           destruct (phase_eqb p p0) eqn:Ep.
           ++ apply phase_eqb_eq in Ep. subst p. unfold lands. rewrite Rq0. reflexivity.
           ++ destruct (lands (rset r) p q); reflexivity.
    + inversion H as [Hs']; subst s'; clear H.
      assert (Zs : forall p j, fl s p j == 0).
      { intros p j. rewrite (fl_single s p0 c p j Ps). destruct (phase_eqb p p0); [|reflexivity].
        apply any_nz_false. exact NZ. }
      split; [|split; [|split; [|split]]].
      * unfold wf; simpl. split; auto.
      * repeat split.
      * intros p. unfold pset_now; simpl. apply Hset.
      * intros p j _. apply Zs.
      * intros q j. match goal with |- fl ?S _ _ == _ => rewrite (fl_multi S r q j eq_refl) end. simpl. rewrite Z1.
        symmetry. apply psum_zero. intros p _. destruct (lands _ p q); [apply Zs|reflexivity].
  - (* MultiStream -> MultiStream *)
    simpl in Hp. destruct Hp as [Hr0 Hinj0].
    destruct (pset_eqb t (rset r0)) eqn:Eqb.
    + inversion H as [Hs']; subst s'; clear H. pose proof (pset_eqb_true _ _ Eqb) as Et.
      assert (PN : forall x, pset_now s' x = t x) by (intros x; unfold pset_now; rewrite Ps; symmetry; apply Et).
      split; [repeat split; auto; rewrite Ps; split; auto|]. split; [repeat split|]. split; [exact PN|].
      assert (Cv : covers s' t).
      { intros p j Rn. rewrite (fl_multi s' r0 p j Ps). unfold rowv.
        destruct (r0 p) eqn:Rp; [|reflexivity].
        rewrite (resolve_self t p) in Rn; [discriminate|]. rewrite Et. unfold rset. rewrite Rp. reflexivity. }
      split; [exact Cv|].
      intros q j. symmetry.
      rewrite (psum_ext all_phases _ (fun p => if lands t p q then fl s' p j else 0))
        by (intros p _; rewrite (lands_ext _ t p q PN); reflexivity).
      apply (psum_lands_id t (fun p => fl s' p j) q). intros p Hne.
      rewrite (fl_multi s' r0 p j Ps). unfold rowv. destruct (r0 p) eqn:Rp; [|reflexivity].
      exfalso. apply Hne. apply resolve_self. rewrite Et. unfold rset. rewrite Rp. reflexivity.
    + destruct (blank (nch s) t (heap s)) as [h1 r] eqn:B.
      destruct (blank_spec _ _ _ _ _ B) as (E & Hset & Hrange & Hinj).
      destruct (blank_cells _ _ _ _ _ B) as (Cold & Cnew & Clen).
      assert (Hh1 : hwf (nch s) h1) by (eapply blank_hwf; eauto).
      assert (Hr1 : rwf h1 r) by (split; [intros p c' Hc'; apply (Hrange p c' Hc')|exact Hinj]).
      destruct (move_rows all_phases r0 h1 r) as [h2|e] eqn:M; [|discriminate]. simpl in H.
      inversion H as [Hs']; subst s'; clear H.
      assert (Hnew : forall p c, r p = Some c -> (length (heap s) <= c)%nat) by (intros p c Hc; apply (Hrange p c Hc)).
      assert (Hold : forall p c, r0 p = Some c -> (c < length (heap s))%nat /\ (c < length h1)%nat).
      { intros p c Hc. specialize (Hr0 p c Hc). lia. }
      destruct (move_rows_spec (nch s) (length (heap s)) r0 r all_phases h1 h2 Hh1 Hr1 Hnew Hold M)
        as (A1 & A2 & A3 & A4 & A5).
      assert (Z1 : forall q j, rowv h1 r q j == 0).
      { intros q j. unfold rowv. destruct (r q) as [c'|] eqn:Rq; [|reflexivity].
        rewrite Cnew by (apply (Hrange q c' Rq)). apply nthq_vzero. }
      assert (Old : forall p j, rowv h1 r0 p j == fl s p j).
      { intros p j. rewrite (fl_multi s r0 p j Ps). unfold rowv. destruct (r0 p) as [c|] eqn:Rp; [|reflexivity].
        rewrite Cold by (apply (Hr0 p c Rp)). reflexivity. }
      split; [|split; [|split; [|split]]].
      * unfold wf; simpl. split; [exact A2|]. split; [apply (rwf_len h1); auto; lia|]. split; auto.
      * repeat split.
      * intros p. unfold pset_now; simpl. apply Hset.
      * intros p j Rn. rewrite <- Old. apply A5; [apply all_phases_in|].
        rewrite (resolve_ext (rset r) t p) by (intros x; apply Hset). exact Rn.
      * intros q j. match goal with |- fl ?S _ _ == _ => rewrite (fl_multi S r q j eq_refl) end. simpl. rewrite A4, Z1.
        rewrite Qplus_0_l. apply psum_ext. intros p _. unfold pset_now; simpl.
        destruct (lands (rset r) p q); [apply Old|reflexivity].
Qed.
