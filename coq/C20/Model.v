(* C20 — executable model of the stream-level separation helpers of
   thermosteam/separations.py, as algebra over flow vectors (one Q per chemical).

   Source modelled, statement by statement in execution order:
     handle_infeasible_flow_rates / check_partition_infeasibility   (separations.py:33-54)
     mix_and_split            = Stream.mix_from + Stream.split_to   (:172-210, _stream.py:1554-1577)
     adjust_moisture_content                                          (:107-170)
     mix_and_split_with_moisture_content                              (:61-105)
     phase_split                                                      (:212-261)
     chemical_splits  (through SparseVector._truediv_sparse)          (:298-321)
     phase_fraction, partition                                        (:391-573)
     lle, vle wrappers                                                (:575-739)
     material_balance, balance='flow'                                 (:741-829)
     equilibrium/binary_phase_fraction.py: as_valid_fraction, compute_phase_fraction_2N and the
       dispatch of phase_fraction for two components without forced chemicals
   Oracles (function arguments here, Section variables in Proofs.v): the phase-fraction solver
   [pf z K za zb], the equilibrium call of the lle / vle wrappers [eq feed], the density of a
   phase [rho], the linear solver [solve A b].
   A single-phase Stream is its flow vector.  For adjust_moisture_content a stream is
   [strm]: the row that the key ('l', ID) (MultiStream) or ID (Stream) addresses, and the sum of
   the rows of all other phases (zero for a Stream).
   No proofs in this file. *)
From V Require Export Common.Num.
Open Scope Q_scope.

(* ---------- numpy fancy indexing ---------- *)
Definition gather (v : vec) (idx : list nat) : vec := map (nthq v) idx.

Fixpoint scatter (v : vec) (idx : list nat) (vals : vec) : vec :=
  match idx, vals with
  | i :: idx', x :: vals' => scatter (upd v i x) idx' vals'
  | _, _ => v
  end.

Fixpoint scatter_c (v : vec) (idx : list nat) (c : Q) : vec :=
  match idx with
  | [] => v
  | i :: idx' => scatter_c (upd v i c) idx' c
  end.

Fixpoint vsum (n : nat) (vs : list vec) : vec :=
  match vs with
  | [] => vzero n
  | v :: r => vadd v (vsum n r)
  end.

(* ---------- handle_infeasible_flow_rates(mol, maxmol, strict) ----------
   the array is modified in place; c_arr is its content when the function returns or raises *)
Record clipres := mkClip { c_arr : vec; c_err : option err; c_warns : nat }.

Definition handle_infeasible (mol maxmol : vec) (strict : bool) : clipres :=
  let neg := existsb (fun x => qltb x 0) mol in                 (* np.where(mol < 0.) non-empty *)
  if neg && strict then mkClip mol (Some EInfeasible) 0 else
  let w1 := if neg then 1%nat else 0%nat in
  let mol1 := map (fun x => if qltb x 0 then 0 else x) mol in    (* mol[idx] = 0. *)
  let over := existsb (fun b : bool => b) (map2 (fun x m => qltb m x) mol1 maxmol) in
  if over && strict then mkClip mol1 (Some EInfeasible) w1 else
  let mol2 := map2 (fun x m => if qltb m x then m else x) mol1 maxmol in
  mkClip mol2 None (w1 + (if over then 1 else 0))%nat.

(* ---------- mix_and_split ---------- *)
Definition split_to (mol split : vec) : vec * vec :=
  let values := vmul mol split in
  let dummy := vsub mol values in
  (values, dummy).

Definition mix_and_split (n : nat) (ins : list vec) (split : vec) : vec * vec :=
  split_to (vsum n ins) split.

(* Stream.split_to when the second outlet is defined on another property package with m chemicals:
   s2.empty(); s2._imol[CASs] = values for the non-zero values.  pos_i = Some j: chemical i of the feed's package is
   chemical j of the outlet's package; None: the outlet's package lacks it (the lookup of the whole tuple fails
   after the outlet was emptied).  The first outlet of mix_and_split is the mixed stream itself (same package). *)
Fixpoint other_lookup (pos : list (option nat)) (vals : vec) : bool :=     (* every non-zero value has a place *)
  match pos, vals with
  | p :: pos', x :: vals' =>
    (qzerob x || match p with Some _ => true | None => false end) && other_lookup pos' vals'
  | _, _ => true
  end.

Fixpoint other_put (v : vec) (pos : list (option nat)) (vals : vec) : vec :=
  match pos, vals with
  | p :: pos', x :: vals' =>
    match p with
    | Some j => other_put (if qzerob x then v else upd v j x) pos' vals'
    | None => other_put v pos' vals'
    end
  | _, _ => v
  end.

Record osplit := mkO { o_top : vec; o_bot : vec; o_err : option err }.

Definition mix_and_split_other (n : nat) (ins : list vec) (split : vec) (m : nat) (pos : list (option nat)) : osplit :=
  let '(values, dummy) := split_to (vsum n ins) split in
  if other_lookup pos dummy then mkO values (other_put (vzero m) pos dummy) None
  else mkO values (vzero m) (Some EKey).

(* mix_and_split_with_moisture_content with the permeate on another package in which the moisture chemical
   has the same index w (e.g. a package that appends chemicals) *)
Definition osplit_eqb (o : osplit) (top bot : vec) (e : option err) : bool :=
  vapproxb (o_top o) top && vapproxb (o_bot o) bot && opt_eqb err_eqb (o_err o) e.

(* ---------- adjust_moisture_content ---------- *)
Record strm := mkS { liq : vec; oth : vec }.
Definition total (s : strm) : vec := vadd (liq s) (oth s).
Definition set_liq (s : strm) (i : nat) (x : Q) : strm := mkS (upd (liq s) i x) (oth s).
Definition fmass (mws : vec) (s : strm) : Q := vdot (total s) mws.

Record mres := mkM { m_ret : strm; m_perm : strm; m_err : option err }.

(* w: index of the moisture chemical; by_mass = (ID was given): the imass branch with the
   chemical's own MW; otherwise the imol branch with the constant [mwc] = 18.01528.
   strict: None -> True. *)
(* the transfer between permeate and retentate (everything before the feasibility test) *)
Definition moisture_shift (mws : vec) (R P : strm) (w : nat) (mc : Q) (by_mass : bool) (mwc : Q) : strm * strm :=
  let F_mass := fmass mws R in
  if by_mass then
    let mw := nthq mws w in
    let retentate_moisture := nthq (total R) w * mw in
    let dry_mass := F_mass - retentate_moisture in
    let moisture := dry_mass * mc / (1 - mc) in
    let R1 := set_liq R w ((nthq (liq R) w * mw + (moisture - retentate_moisture)) / mw) in
    let P1 := set_liq P w ((nthq (liq P) w * mw - (moisture - retentate_moisture)) / mw) in
    (R1, P1)
  else
    let retentate_water := nthq (total R) w in
    let dry_mass := F_mass - mwc * retentate_water in
    let water := (dry_mass * mc / (1 - mc)) / mwc in
    let R1 := set_liq R w (nthq (liq R) w + (water - retentate_water)) in
    let P1 := set_liq P w (nthq (liq P) w - (water - retentate_water)) in
    (R1, P1).

Definition adjust_moisture (mws : vec) (R P : strm) (w : nat) (mc : Q) (by_mass : bool)
           (mwc : Q) (strict : option bool) : mres :=
  if qzerob (1 - mc) then mkM R P (Some EZeroDiv) else      (* mc/(1-mc): ZeroDivisionError *)
  let '(R1, P1) := moisture_shift mws R P w mc by_mass mwc in
  if qltb (nthq (liq P1) w) 0 then
    if match strict with None => true | Some b => b end
    then mkM R1 P1 (Some EInfeasible)
    else
      let R2 := set_liq R1 w (nthq (liq R1) w + nthq (liq P1) w) in
      let P2 := set_liq P1 w 0 in
      mkM R2 P2 None
  else mkM R1 P1 None.

Definition single (v : vec) : strm := mkS v (vzero (length v)).

Definition mix_and_split_with_moisture (n : nat) (mws : vec) (ins : list vec) (split : vec)
           (w : nat) (mc : Q) (by_mass : bool) (mwc : Q) (strict : option bool) : mres :=
  let '(top, bottom) := mix_and_split n ins split in
  adjust_moisture mws (single top) (single bottom) w mc by_mass mwc strict.

(* ... with the permeate on another package in which the moisture chemical keeps its index w
   (e.g. a package that appends chemicals); a failed lookup in split_to propagates before the adjustment *)
Definition mix_and_split_with_moisture_other (n : nat) (mws : vec) (ins : list vec) (split : vec)
           (m : nat) (pos : list (option nat))
           (w : nat) (mc : Q) (by_mass : bool) (mwc : Q) (strict : option bool) : mres :=
  let o := mix_and_split_other n ins split m pos in
  match o_err o with
  | Some e => mkM (single (o_top o)) (single (o_bot o)) (Some e)
  | None => adjust_moisture mws (single (o_top o)) (single (o_bot o)) w mc by_mass mwc strict
  end.

(* ---------- phase_split ---------- *)
Definition phase_split (rows : list vec) (outs0 : list vec) : res (list vec) :=
  if Nat.eqb (length outs0) (length rows)
  then Ok (map2 (fun r _ => r) rows outs0)          (* for i, j in zip(feed, outlets): j.copy_like(i) *)
  else Err ERuntime.

(* ---------- chemical_splits ----------
   a.mol / mixed_mol is SparseVector._truediv_sparse.  [heur] = true is the rule of the present
   source (raise only when the dividend has more stored entries than the divisor, otherwise an
   entry whose divisor is 0 is dropped); [heur] = false is the rule "raise whenever a stored
   entry of the dividend meets a zero divisor". *)
Definition nnz (v : vec) : nat := length (filter (fun x => negb (qzerob x)) v).

Definition chemical_splits (heur : bool) (a : vec) (b mixed : option vec) : res vec :=
  match (match mixed with
         | Some m => Ok m
         | None => match b with Some b => Ok (vadd a b) | None => Err EOther end
         end) with
  | Err e => Err e
  | Ok m =>
    let bad := existsb (fun b : bool => b) (map2 (fun x y => negb (qzerob x) && qzerob y) a m) in
    if (if heur then Nat.ltb (nnz m) (nnz a) else bad) then Err EZeroDiv
    else Ok (map2 (fun x y => if qzerob x || qzerob y then 0 else x / y) a m)
  end.

(* ---------- phase_fraction and partition ---------- *)
Record pres := mkP { p_top : vec; p_bot : vec; p_phi : res Q; p_warns : nat }.

(* top.imol[cs] = flows = feed.imol[cs]; bottom.imol[cs] = 0; Fa = flows.sum()   (when cs is non-empty) *)
Definition forced (feed dst other : vec) (idx : list nat) : vec * vec * Q :=
  match idx with
  | [] => (dst, other, 0)
  | _ => let fl := gather feed idx in (scatter dst idx fl, scatter_c other idx 0, qsum fl)
  end.

Definition forced_sum (feed : vec) (idx : list nat) : Q := qsum (gather feed idx).

(* arguments handed to the phase-fraction solver: z_mol, Fa/F_mol, Fb/F_mol *)
Definition pf_args (feed : vec) (ids topc botc : list nat) : res (vec * Q * Q) :=
  let mol := gather feed ids in
  let Fa := forced_sum feed topc in
  let Fb := forced_sum feed botc in
  let F := qsum mol + (Fa + Fb) in
  if qzerob F then Err EZeroDiv else Ok (vdivs mol F, Fa / F, Fb / F).

Definition bottom_flows (z K : vec) (phi F : Q) : vec :=
  let x := map2 Qdiv z (map (fun k => phi * k + (1 - phi)) K) in
  map (fun xi => xi * (1 - phi) * F) x.

Definition partition (pf : vec -> vec -> Q -> Q -> Q) (feed top0 bot0 : vec) (ids : list nat)
           (K : vec) (topc botc : list nat) (strict : bool) : pres :=
  let mol := gather feed ids in
  let F0 := qsum mol in
  let '(top1, bot1, Fa) := forced feed top0 bot0 topc in
  let '(bot2, top2, Fb) := forced feed bot1 top1 botc in
  let F := F0 + (Fa + Fb) in
  if qzerob F then mkP top2 bot2 (Err EZeroDiv) 0 else      (* mol / F_mol: FloatingPointError *)
  let z := vdivs mol F in
  let phi := pf z K (Fa / F) (Fb / F) in
  if qleb phi 0 then
    let bot3 := scatter bot2 ids mol in
    mkP (vsub feed bot3) bot3 (Ok 0) 0
  else if qltb phi 1 then
    if existsb qzerob (map (fun k => phi * k + (1 - phi)) K) then mkP top2 bot2 (Err EZeroDiv) 0 else
    let c := handle_infeasible (bottom_flows z K phi F) mol strict in
    match c_err c with
    | Some e => mkP top2 bot2 (Err e) 0
    | None =>
      let bot3 := scatter bot2 ids (c_arr c) in
      mkP (vsub feed bot3) bot3 (Ok phi) (c_warns c)
    end
  else
    let bot3 := scatter_c bot2 ids 0 in
    mkP (vsub feed bot3) bot3 (Ok 1) 0.

(* separations.phase_fraction: the same computation without outlets; the clipped array is dropped *)
Definition phase_fraction (pf : vec -> vec -> Q -> Q -> Q) (feed : vec) (ids : list nat) (K : vec)
           (topc botc : list nat) (strict : bool) : res Q * nat :=
  let mol := gather feed ids in
  let Fa := forced_sum feed topc in
  let Fb := forced_sum feed botc in
  let F := qsum mol + (Fa + Fb) in
  if qzerob F then (Err EZeroDiv, 0%nat) else
  let z := vdivs mol F in
  let phi := pf z K (Fa / F) (Fb / F) in
  if qleb phi 0 then (Ok 0, 0%nat)
  else if qltb phi 1 then
    if existsb qzerob (map (fun k => phi * k + (1 - phi)) K) then (Err EZeroDiv, 0%nat) else
    let c := handle_infeasible (bottom_flows z K phi F) mol strict in
    match c_err c with
    | Some e => (Err e, 0%nat)
    | None => (Ok phi, c_warns c)
    end
  else (Ok 1, 0%nat).

(* ---------- equilibrium/binary_phase_fraction.py ---------- *)
(* phase_fraction_objective_function(phi, -zs*(Ks-1), Ks-1, za, zb): the Rachford-Rice residual whose root
   solve_phase_fraction_Rashford_Rice looks for *)
Definition rr_objective (phi : Q) (zs Ks : vec) (za zb : Q) : Q :=
  let K_minus_1 := map (fun k => k - 1) Ks in
  let negative_zs_K_minus_1 := map2 (fun z km => - z * km) zs K_minus_1 in
  let denominator := map (fun km => 1 + phi * km) K_minus_1 in
  let a := if qltb 0 za then za / phi else 0 in
  let b := if qltb 0 zb then zb / (1 - phi) else 0 in
  qsum (map2 Qdiv negative_zs_K_minus_1 denominator) - a + b.

Definition as_valid_fraction (x : Q) : Q := if qltb x 0 then 0 else if qltb 1 x then 1 else x.

Definition compute_phase_fraction_2N (z1 z2 K1 K2 : Q) : Q :=
  let K1z1 := K1 * z1 in let K1z2 := K1 * z2 in let K2z1 := K2 * z1 in let K2z2 := K2 * z2 in
  let K1K2 := K1 * K2 in let K1K2z1 := K1K2 * z1 in let K1K2z2 := K1K2 * z2 in
  let z1_z2 := z1 + z2 in let K1z1_K2z2 := K1z1 + K2z2 in
  (- K1z1_K2z2 + z1_z2) / (K1K2z1 + K1K2z2 - K1z2 - K1z1_K2z2 - K2z1 + z1_z2).

(* the float constants of the source as exact rationals: 1.0 + 1e-9, 1.0 - 1e-9, 1e-16, 1 - 1e-16 *)
Definition one_plus : Q := 281474976992131 # 281474976710656.
Definition one_minus : Q := 9007199245733793 # 9007199254740992.
Definition x_lo : Q := 2028240960365167 # 20282409603651670423947251286016.
Definition x_hi : Q := 9007199254740991 # 9007199254740992.

Definition all_le (Ks : vec) (c : Q) : bool := forallb (fun k => qleb k c) Ks.     (* Ks.max() <= c *)
Definition all_ge (Ks : vec) (c : Q) : bool := forallb (fun k => qleb c k) Ks.     (* Ks.min() >= c *)

(* phase_fraction(zs, Ks) for N = 2, za = zb = 0 *)
Definition binary_phase_fraction_2 (z1 z2 K1 K2 : Q) : res Q :=
  if all_le [K1; K2] one_plus then Ok 1
  else if all_ge [K1; K2] one_minus then Ok 0
  else
    let d := K1 * K2 * z1 + K1 * K2 * z2 - K1 * z2 - (K1 * z1 + K2 * z2) - K2 * z1 + (z1 + z2) in
    if qzerob d then Err EZeroDiv
    else Ok (as_valid_fraction (compute_phase_fraction_2N z1 z2 K1 K2)).

(* solve_phase_fraction_Rashford_Rice(zs, Ks, guess, za, zb): the in-repository part (early exits on the range of
   K guarded by the forced fractions, end points of the bracket, sign tests on the residual); flx.find_bracket +
   flx.IQ_interpolation (or the mid point of a tiny bracket) is the oracle value [root] *)
Definition rr_solve (root : Q) (zs Ks : vec) (za zb : Q) : Q :=
  if all_le Ks one_plus && qzerob za then 0 else
  if all_ge Ks one_minus && qzerob zb then 1 else
  let x0 := if qzerob za then 0 else x_lo in
  let x1 := if qzerob zb then 1 else x_hi in
  let y0 := rr_objective x0 zs Ks za zb in
  let y1 := rr_objective x1 zs Ks za zb in
  if qltb y1 y0 && qltb 0 y1 then 1 else
  if qltb y0 y1 && qltb 0 y0 then 0 else
  if qltb y0 y1 && qltb y1 0 then 1 else
  if qltb y1 y0 && qltb y0 0 then 0 else
  root.

(* phase_fraction(zs, Ks, guess, za, zb) *)
Definition binary_phase_fraction (root : Q) (zs Ks : vec) (za zb : Q) : res Q :=
  if negb (qzerob za) || negb (qzerob zb) || Nat.ltb 2 (length zs)
  then Ok (as_valid_fraction (rr_solve root zs Ks za zb))
  else if all_le Ks one_plus then Ok 1
  else if all_ge Ks one_minus then Ok 0
  else match zs, Ks with
       | [z1; z2], [K1; K2] => binary_phase_fraction_2 z1 z2 K1 K2
       | _, _ => Err EValue
       end.

(* the solver as partition sees it: [rootf] is the numeric root finder *)
Definition pf_real (rootf : vec -> vec -> Q -> Q -> Q) (zs Ks : vec) (za zb : Q) : Q :=
  match binary_phase_fraction (rootf zs Ks za zb) zs Ks za zb with Ok p => p | Err _ => 0 end.

(* ---------- lle / vle wrappers ---------- *)
Record eqres := mkE { e_top : vec; e_bot : vec; e_err : option err }.

(* not top_chemical: the lighter phase goes to the top; rho of an empty phase is None *)
Definition top_is_l (rho : vec -> option Q) (rowL rowl : vec) (topchem : bool) : bool :=
  if topchem then false else
  match rho rowL with
  | None => true
  | Some rL => match rho rowl with
               | None => false
               | Some rl => qltb rl rL
               end
  end.

(* eq: the stream's LLE call, returns the rows of phases 'L' and 'l'.  extra: number of phases of the
   working MultiStream other than 'L' and 'l' (top_phase, bottom_phase = ms.phases needs exactly two) *)
Definition lle_wrap (rho : vec -> option Q) (eq : vec -> vec * vec) (extra : nat)
           (feed top0 bot0 : vec) (topchem : bool) (eff : Q) : eqres :=
  let '(rowL, rowl) := eq feed in
  if negb (Nat.eqb extra 0) then mkE top0 bot0 (Some EValue) else
  let swap := top_is_l rho rowL rowl topchem in
  let top := if swap then rowl else rowL in
  let bottom := if swap then rowL else rowl in
  if qltb eff 1 then
    let top1 := vscale eff top in
    let bot1 := vscale eff bottom in
    let mixing := vscale ((1 - eff) / 2) feed in
    mkE (vadd top1 mixing) (vadd bot1 mixing) None
  else mkE top bottom None.

(* eq: the stream's VLE call, returns the rows of phases 'g' and 'l' *)
Definition vle_wrap (eq : vec -> vec * vec) (feed : vec) : vec * vec :=
  let '(rowg, rowl) := eq feed in (rowg, rowl).

(* State kept between calls: the multi_stream argument is a caller-owned MultiStream that is reused.  After
   ms.copy_like(feed) (or feed.copy() and the phase conversion of .lle / .vle) the working stream has one row per phase,
   the feed in the row of its phase (index k) and EVERY other row empty, whatever the rows ms0 held before.
   The equilibrium oracle [eqr] sees those rows. *)
Definition ms_after_copy (ms0 : list vec) (k : nat) (feed : vec) : list vec :=
  upd (map (fun _ : vec => vzero (length feed)) ms0) k feed.

Definition lle_ms (rho : vec -> option Q) (eqr : list vec -> vec * vec) (extra : nat) (ms0 : list vec) (k : nat)
           (feed top0 bot0 : vec) (topchem : bool) (eff : Q) : eqres :=
  lle_wrap rho (fun f => eqr (ms_after_copy ms0 k f)) extra feed top0 bot0 topchem eff.

Definition vle_ms (eqr : list vec -> vec * vec) (ms0 : list vec) (k : nat) (feed : vec) : vec * vec :=
  vle_wrap (fun f => eqr (ms_after_copy ms0 k f)) feed.

(* table-driven equilibrium stubs of the harness: fixed rows, or a split of whatever material the stream holds *)
Definition eq_abs (a b : vec) (rows : list vec) : vec * vec := (a, b).
Definition eq_rel (n : nat) (s : vec) (rows : list vec) : vec * vec :=
  let t := vsum n rows in (vmul s t, vsub t (vmul s t)).

(* ---------- phase_split on a MultiStream with a history ----------
   A MultiStream caches one Stream view per phase (MultiStream._streams) that points at a row of the indexer.  The
   phases setter replaces the indexer (to_material_indexer) and re-links the cached views.  Phases are coded
   0 = 'L', 1 = 'g', 2 = 'l', 3 = 's' (their sorted order).  [ms_gen] numbers the indexer objects, [ms_views] says
   which indexer generation each cached view points at, [ms_old] keeps the rows of replaced indexers. *)
Record mstate := mkMS {
  ms_gen : nat; ms_present : list bool; ms_rows : list vec;
  ms_views : list (option nat); ms_old : list (nat * list vec) }.

Inductive mop :=
| MView (p : nat)                 (* feed[p]: create / fetch the cached view *)
| MSet (p : nat) (v : vec)        (* feed.imol[p] = v *)
| MPhases (np : list bool)        (* feed.phases = ... (two or more phases) *)
| MSplit.                         (* an earlier phase_split(feed, fresh outlets) *)

Definition nthb (l : list bool) (p : nat) : bool := nth p l false.
Definition nthv (l : list vec) (p : nat) : vec := nth p l [].
Definition swap_case (p : nat) : option nat :=
  match p with 0%nat => Some 2%nat | 2%nat => Some 0%nat | _ => None end.

Fixpoint old_rows (old : list (nat * list vec)) (g : nat) : list vec :=
  match old with
  | [] => []
  | (g', r) :: t => if Nat.eqb g g' then r else old_rows t g
  end.

(* the flows a cached (or freshly made) view of phase p shows *)
Definition view_read (s : mstate) (p : nat) : vec :=
  match nth p (ms_views s) None with
  | Some g => if Nat.eqb g (ms_gen s) then nthv (ms_rows s) p else nthv (old_rows (ms_old s) g) p
  | None => nthv (ms_rows s) p
  end.

Definition touch_view (gen : nat) (v : option nat) : option nat :=
  match v with None => Some gen | Some g => Some g end.

(* MaterialIndexer.to_material_indexer: non-empty rows of dropped phases go to the phase of the other case *)
Fixpoint regroup (n : nat) (np : list bool) (ps : list nat) (present : list bool) (rows acc : list vec) : res (list vec) :=
  match ps with
  | [] => Ok acc
  | p :: ps' =>
    if nthb present p && existsb (fun x => negb (qzerob x)) (nthv rows p) then
      let target := if nthb np p then Some p else swap_case p in
      match target with
      | Some t => if nthb np t then regroup n np ps' present rows (upd acc t (vadd (nthv acc t) (nthv rows p)))
                  else Err EUndefPhase
      | None => Err EUndefPhase
      end
    else regroup n np ps' present rows acc
  end.

Definition all_phases : list nat := [0; 1; 2; 3]%nat.
Definition blist_eqb (a b : list bool) : bool := list_eqb Bool.eqb a b.

Definition mstep (n : nat) (s : mstate) (o : mop) : res mstate :=
  match o with
  | MView p =>
    if nthb (ms_present s) p
    then Ok (mkMS (ms_gen s) (ms_present s) (ms_rows s)
                  (upd (ms_views s) p (touch_view (ms_gen s) (nth p (ms_views s) None))) (ms_old s))
    else Err EUndefPhase
  | MSet p v =>
    if nthb (ms_present s) p
    then Ok (mkMS (ms_gen s) (ms_present s) (upd (ms_rows s) p v) (ms_views s) (ms_old s))
    else Err EUndefPhase
  | MPhases np =>
    if blist_eqb np (ms_present s) then Ok s else
    do rows' <- regroup n np all_phases (ms_present s) (ms_rows s) (repeat (vzero n) 4);
    let gen' := S (ms_gen s) in
    Ok (mkMS gen' np rows'
             (map2 (fun (v : option nat) (keep : bool) =>
                      if keep then match v with Some _ => Some gen' | None => None end else None)
                   (ms_views s) np)
             ((ms_gen s, ms_rows s) :: ms_old s))
  | MSplit =>
    Ok (mkMS (ms_gen s) (ms_present s) (ms_rows s)
             (map2 (fun (v : option nat) (pr : bool) => if pr then touch_view (ms_gen s) v else v)
                   (ms_views s) (ms_present s)) (ms_old s))
  end.

Fixpoint mrun (n : nat) (s : mstate) (ops : list mop) : res mstate :=
  match ops with
  | [] => Ok s
  | o :: t => do s' <- mstep n s o; mrun n s' t
  end.

Definition present_phases (s : mstate) : list nat := filter (nthb (ms_present s)) all_phases.
Definition minit (present : list bool) (rows : list vec) : mstate :=
  mkMS 0 present rows [None; None; None; None] [].

(* phase_split(feed, outlets) after the history: for i, j in zip(feed, outlets): j.copy_like(i), where iterating the
   feed yields the per-phase views *)
Definition phase_split_hist (n : nat) (present : list bool) (rows : list vec) (ops : list mop) (outs0 : list vec)
  : res (list vec * list vec) :=
  do s <- mrun n (minit present rows) ops;
  do outs <- phase_split (map (view_read s) (present_phases s)) outs0;
  Ok (outs, map (nthv (ms_rows s)) (present_phases s)).

Definition pairvl_approxb (a b : res (list vec * list vec)) : bool :=
  res_eqb (fun x y => list_eqb vapproxb (fst x) (fst y) && list_eqb vapproxb (snd x) (snd y)) a b.

(* ---------- inlets of another property package: indexer.index_overlap and its cache ----------
   Chemicals have global identities (CAS numbers, here naturals); a property package is the list of the identities
   of its chemicals in order.  ChemicalIndexer.mix_from / copy_like move the flows of an inlet of another package by
   index_overlap(receiver chemicals, inlet chemicals, non-zero keys of the inlet): the keys come in the insertion
   order of the inlet's sparse dict; the function turns them into identities, looks the TUPLE of identities up in the
   receiver's _index_cache, and otherwise computes the receiver's index of every identity and stores it under that
   tuple.  The cache lives on the receiver's Chemicals object: it is state kept between inlets and between calls. *)
Definition icache := list (list nat * list nat).

Fixpoint icache_find (c : icache) (key : list nat) : option (list nat) :=
  match c with
  | [] => None
  | (k, li) :: t => if list_eqb Nat.eqb k key then Some li else icache_find t key
  end.

Fixpoint find_pos (pk : list nat) (g : nat) : option nat :=
  match pk with
  | [] => None
  | h :: t => if Nat.eqb h g then Some 0%nat else match find_pos t g with Some j => Some (S j) | None => None end
  end.

Fixpoint left_indices (rk : list nat) (key : list nat) : res (list nat) :=
  match key with
  | [] => Ok []
  | g :: t => match find_pos rk g with
              | Some j => do r <- left_indices rk t; Ok (j :: r)
              | None => Err EKey                                  (* UndefinedChemicalAlias *)
              end
  end.

Definition index_overlap (rk : list nat) (c : icache) (key : list nat) : res (list nat) * icache :=
  match icache_find c key with
  | Some li => (Ok li, c)
  | None => match left_indices rk key with
            | Ok li => (Ok li, (key, li) :: c)
            | Err e => (Err e, c)
            end
  end.

(* data[left_index] += vals *)
Fixpoint add_at (v : vec) (idx : list nat) (vals : vec) : vec :=
  match idx, vals with
  | i :: idx', x :: vals' => add_at (upd v i (nthq v i + x)) idx' vals'
  | _, _ => v
  end.

(* an inlet: its package (None: the receiver's own), its flows in its package's order, and the insertion order of
   its non-zero flows *)
Record finlet := mkFI { fi_pk : option (list nat); fi_flows : vec; fi_order : list nat }.
Definition finlet_nonempty (i : finlet) : bool := existsb (fun x => negb (qzerob x)) (fi_flows i).

(* first loop of ChemicalIndexer.mix_from: the index lists of the foreign inlets, in inlet order, through the cache *)
Fixpoint overlaps (rk : list nat) (c : icache) (ins : list finlet) : res (list (option (list nat))) * icache :=
  match ins with
  | [] => (Ok [], c)
  | i :: t =>
    match fi_pk i with
    | None => let '(r, c') := overlaps rk c t in ((do l <- r; Ok (None :: l)), c')
    | Some pk =>
      let key := map (fun k => nth k pk 0%nat) (fi_order i) in
      match index_overlap rk c key with
      | (Err e, c') => (Err e, c')
      | (Ok li, c') => let '(r, c'') := overlaps rk c' t in ((do l <- r; Ok (Some li :: l)), c'')
      end
    end
  end.

Fixpoint apply_inlets (acc : vec) (ins : list finlet) (lis : list (option (list nat))) : vec :=
  match ins, lis with
  | i :: t, None :: lt => apply_inlets (vadd acc (fi_flows i)) t lt
  | i :: t, Some li :: lt => apply_inlets (add_at acc li (gather (fi_flows i) (fi_order i))) t lt
  | _, _ => acc
  end.

Record pkstate := mkPK { pk_top : vec; pk_bot : vec; pk_cache : icache }.

(* one mix_and_split(ins, top, bottom, split) with single-phase outlets on the package rk *)
Definition mix_and_split_pk (n : nat) (rk : list nat) (s : pkstate) (ins : list finlet) (split : vec)
  : pkstate * option err :=
  let ne := filter finlet_nonempty ins in
  match overlaps rk (pk_cache s) ne with
  | (Err e, c') =>
    (* a single inlet goes through copy_like, which empties the receiver before the lookup *)
    (mkPK (if Nat.eqb (length ne) 1 then vzero n else pk_top s) (pk_bot s) c', Some e)
  | (Ok lis, c') =>
    let mixed := apply_inlets (vzero n) ne lis in
    let '(values, dummy) := split_to mixed split in
    (mkPK values dummy c', None)
  end.

(* a history of calls on the same outlet objects and the same receiving package *)
Fixpoint run_calls (n : nat) (rk : list nat) (s : pkstate) (calls : list (list finlet * vec))
  : list (vec * vec * option err) :=
  match calls with
  | [] => []
  | (ins, split) :: t =>
    let '(s', e) := mix_and_split_pk n rk s ins split in
    (pk_top s', pk_bot s', e) :: run_calls n rk s' t
  end.

Definition call_eqb (a b : vec * vec * option err) : bool :=
  let '(t1, b1, e1) := a in let '(t2, b2, e2) := b in
  vapproxb t1 t2 && vapproxb b1 b2 && opt_eqb err_eqb e1 e2.

(* contract of the equilibrium call checked on every real (not stubbed) VLE call of the correspondence:
   the rows add up to the feed and none is negative (absolute slack 1e-9 for rounding) *)
Definition nonneg_tolb (v : vec) : bool := forallb (fun x => qleb (- (1 # 1000000000)) x) v.
Definition eq_contract_okb (feed a b : vec) : bool := vapproxb (vadd a b) feed && nonneg_tolb a && nonneg_tolb b.

(* ---------- mix_and_split with a MultiStream top outlet ----------
   Stream.mix_from on a MultiStream receiver: empty inlets are dropped; MaterialIndexer.mix_from (or copy_like for a
   single inlet) puts every inlet into the row of its phase.  A phase the receiver lacks but whose other-case twin it
   owns ('L' into ('g','l')) is an alias of that twin; if some inlet phase is neither owned nor aliased the receiver's
   phase set grows by ALL inlet phases.  Inlets of another property package contribute the same flows (matched by
   chemical).  MultiStream.split_to then splits phase by phase into the top itself and the bottom, which takes the
   same phases.  Phases are coded as in [mstate]; rows are kept for all four codes (absent phases: zero rows). *)
Definition in_indexer (present : list bool) (p : nat) : bool :=
  nthb present p || match swap_case p with Some q => nthb present q | None => false end.

Definition inlet_nonempty (i : nat * vec) : bool := existsb (fun x => negb (qzerob x)) (snd i).

Definition grow_phases (present : list bool) (inl : list (nat * vec)) : list bool :=
  if existsb (fun i => negb (in_indexer present (fst i))) inl
  then map (fun p => nthb present p || existsb (fun i => Nat.eqb (fst i) p) inl) all_phases
  else present.

Definition row_of (phases : list bool) (p : nat) : nat :=
  if nthb phases p then p else match swap_case p with Some q => q | None => p end.

Fixpoint mix_rows (phases : list bool) (inl : list (nat * vec)) (acc : list vec) : list vec :=
  match inl with
  | [] => acc
  | (p, v) :: t => let r := row_of phases p in mix_rows phases t (upd acc r (vadd (nthv acc r) v))
  end.

Record xsplit := mkX { x_phases : list bool; x_top : list vec; x_bot : list vec }.

Definition mix_and_split_multi (n : nat) (present : list bool) (inl : list (nat * vec)) (split : vec) : xsplit :=
  let ne := filter inlet_nonempty inl in
  let phases := grow_phases present ne in
  let mixed := mix_rows phases ne (repeat (vzero n) 4) in
  mkX phases (map (fun r => fst (split_to r split)) mixed) (map (fun r => snd (split_to r split)) mixed).

Definition xsplit_eqb (x : xsplit) (phases : list bool) (top bot : list vec) : bool :=
  blist_eqb (x_phases x) phases && list_eqb vapproxb (x_top x) top && list_eqb vapproxb (x_bot x) bot.

(* stub property package: rho = (sum n_i MW_i) / (sum n_i MW_i / rho_i) *)
Definition rho_stub (mws vms : vec) (row : vec) : option Q :=
  if qzerob (qsum row) then None else Some (vdot row mws / vdot row vms).

(* ---------- material_balance(balance='flow') ---------- *)
Definition mb_matrix (ids : list nat) (vin : list vec) : list vec :=
  map (fun i => map (fun s => nthq s i) vin) ids.             (* inlet_mols[index, :] *)

Definition mb_rhs (n : nat) (ids : list nat) (cin cout : list vec) : vec :=
  let f := gather (vsum n cout) ids in
  let g := vsum (length ids) (map (fun s => gather s ids) cin) in
  vsub f g.

Fixpoint scale_zip (x : vec) (vin : list vec) : list vec :=
  match x, vin with
  | f :: x', s :: vin' => vscale f s :: scale_zip x' vin'
  | _, _ => vin                                                (* zip stops; the rest is untouched *)
  end.

Definition material_balance (solve : list vec -> vec -> res vec) (n : nat) (ids : list nat)
           (vin cin cout : list vec) (balance_ok : bool) : res (list vec) :=
  match vin with
  | [] => Err EValue
  | _ =>
    match cout with
    | [] => Err EOther                                         (* sum([]) = 0 has no .to_array() *)
    | _ =>
      if negb balance_ok then Err EValue else
      do x <- solve (mb_matrix ids vin) (mb_rhs n ids cin cout);
      Ok (scale_zip x vin)
    end
  end.

Definition matvec (A : list vec) (x : vec) : vec := map (fun r => vdot r x) A.

(* ---------- comparison helpers for the correspondence files ---------- *)
Definition oerr_eqb (a b : option err) : bool := opt_eqb err_eqb a b.
Definition vlist_approxb (a b : list vec) : bool := list_eqb vapproxb a b.
Definition clip_eqb (c : clipres) (arr : vec) (e : option err) (w : nat) : bool :=
  vapproxb (c_arr c) arr && oerr_eqb (c_err c) e && Nat.eqb (c_warns c) w.
Definition strm_approxb (s : strm) (l o : vec) : bool := vapproxb (liq s) l && vapproxb (oth s) o.
Definition mres_eqb (m : mres) (rl ro pl po : vec) (e : option err) : bool :=
  strm_approxb (m_ret m) rl ro && strm_approxb (m_perm m) pl po && oerr_eqb (m_err m) e.
Definition resq_approxb (a b : res Q) : bool := res_eqb qapproxb a b.
Definition pres_eqb (p : pres) (top bot : vec) (phi : res Q) (w : nat) : bool :=
  vapproxb (p_top p) top && vapproxb (p_bot p) bot && resq_approxb (p_phi p) phi && Nat.eqb (p_warns p) w.
Definition args_eqb (a : res (vec * Q * Q)) (b : res (vec * Q * Q)) : bool :=
  res_eqb (fun x y => let '(z, za, zb) := x in let '(z', za', zb') := y in
                      vapproxb z z' && qapproxb za za' && qapproxb zb zb') a b.
Definition eqres_eqb (r : eqres) (top bot : vec) (e : option err) : bool :=
  vapproxb (e_top r) top && vapproxb (e_bot r) bot && oerr_eqb (e_err r) e.
Definition pair_approxb (p : vec * vec) (a b : vec) : bool := vapproxb (fst p) a && vapproxb (snd p) b.
Definition resv_approxb (a b : res vec) : bool := res_eqb vapproxb a b.
Definition resvl_approxb (a b : res (list vec)) : bool := res_eqb vlist_approxb a b.
Definition respf_eqb (a : res Q * nat) (phi : res Q) (w : nat) : bool :=
  resq_approxb (fst a) phi && Nat.eqb (snd a) w.

(* ====================================================================================================
   Deepening round 2: outlets aliased with the feed, material_balance(balance='composition')
   ==================================================================================================== *)

(* ---------- partition(feed, top, bottom, ...) when one outlet IS the feed object ----------
   separations.py:547-574.  feed_mol = feed.mol is a reference to the live flow vector, mol = feed.imol[IDs] is a copy
   taken before anything is written.  bot_is_feed = false: top is feed; true: bottom is feed.  [o0]: what the other
   outlet held.  Every read of feed.imol after a write sees the written data ([live1]); the last statement
   top.mol[:] = feed_mol - bottom.mol reads the live vector. *)
Definition partition_alias (pf : vec -> vec -> Q -> Q -> Q) (bot_is_feed : bool) (feed o0 : vec) (ids : list nat)
           (K : vec) (topc botc : list nat) (strict : bool) : pres :=
  let mol := gather feed ids in
  let F0 := qsum mol in
  let top0 := if bot_is_feed then o0 else feed in
  let bot0 := if bot_is_feed then feed else o0 in
  let '(top1, bot1, Fa) := forced feed top0 bot0 topc in
  let live1 := if bot_is_feed then bot1 else top1 in
  let '(bot2, top2, Fb) := forced live1 bot1 top1 botc in
  let F := F0 + (Fa + Fb) in
  if qzerob F then mkP top2 bot2 (Err EZeroDiv) 0 else
  let z := vdivs mol F in
  let phi := pf z K (Fa / F) (Fb / F) in
  let fin (bot3 : vec) := vsub (if bot_is_feed then bot3 else top2) bot3 in
  if qleb phi 0 then
    let bot3 := scatter bot2 ids mol in
    mkP (fin bot3) bot3 (Ok 0) 0
  else if qltb phi 1 then
    if existsb qzerob (map (fun k => phi * k + (1 - phi)) K) then mkP top2 bot2 (Err EZeroDiv) 0 else
    let c := handle_infeasible (bottom_flows z K phi F) mol strict in
    match c_err c with
    | Some e => mkP top2 bot2 (Err e) 0
    | None =>
      let bot3 := scatter bot2 ids (c_arr c) in
      mkP (fin bot3) bot3 (Ok phi) (c_warns c)
    end
  else
    let bot3 := scatter_c bot2 ids 0 in
    mkP (fin bot3) bot3 (Ok 1) 0.

(* ---------- lle(feed, top, bottom, ...) when one outlet IS the feed object ----------
   separations.py:641-663.  The equilibrium runs on a copy (feed.copy() / multi_stream.copy_like(feed)), so the rows do
   not depend on the aliasing; top.mol[:] = ..., bottom.mol[:] = ... overwrite the feed; with efficiency < 1 the
   statement mixing = (1 - efficiency) / 2 * feed.mol reads the feed AFTER top.mol *= efficiency; bottom.mol *= efficiency. *)
Definition lle_wrap_alias (rho : vec -> option Q) (eq : vec -> vec * vec) (extra : nat) (bot_is_feed : bool)
           (feed o0 : vec) (topchem : bool) (eff : Q) : eqres :=
  let '(rowL, rowl) := eq feed in
  if negb (Nat.eqb extra 0)
  then mkE (if bot_is_feed then o0 else feed) (if bot_is_feed then feed else o0) (Some EValue) else
  let swap := top_is_l rho rowL rowl topchem in
  let top := if swap then rowl else rowL in
  let bottom := if swap then rowL else rowl in
  if qltb eff 1 then
    let top1 := vscale eff top in
    let bot1 := vscale eff bottom in
    let mixing := vscale ((1 - eff) / 2) (if bot_is_feed then bot1 else top1) in
    mkE (vadd top1 mixing) (vadd bot1 mixing) None
  else mkE top bottom None.

Definition lle_ms_alias (rho : vec -> option Q) (eqr : list vec -> vec * vec) (extra : nat) (ms0 : list vec) (k : nat)
           (bot_is_feed : bool) (feed o0 : vec) (topchem : bool) (eff : Q) : eqres :=
  lle_wrap_alias rho (fun f => eqr (ms_after_copy ms0 k f)) extra bot_is_feed feed o0 topchem eff.

(* ---------- material_balance(balance='composition') ----------  separations.py:831-868
   The linear solver is called once per pass of the while loop: [solve k A b] is its answer in pass k (an oracle).
   x_guess starts as ones (one per chemical ID; A_ * x_guess needs as many inlets as IDs).  The loop is modelled with
   fuel; running out of fuel is reported as Err ERuntime (the Python loop would still be running).
   The result carries the right-hand sides handed to the solver (compared with the recorded ones). *)
Definition conv_tol : Q := 4722366482869645 # 4722366482869645213696.       (* the float 1e-6 *)

Definition qmin_list (v : vec) : Q :=
  match v with [] => 0 | x :: r => fold_left (fun a b => if qltb b a then b else a) r x end.

(* infeasibles = x_new < 0.; if infeasibles.any(): x_new -= x_new[infeasibles].min() *)
Definition shift_feasible (x : vec) : vec :=
  if existsb (fun a => qltb a 0) x then map (fun a => a - qmin_list x) x else x.

(* sum(((x_new - x_guess)/denominator)**2), denominator = x_guess with zeros replaced by one *)
Definition conv_measure (xn xg : vec) : Q :=
  qsum (map2 (fun a g => let d := if qzerob g then 1 else g in ((a - g) / d) * ((a - g) / d)) xn xg).

(* (A_ * x_guess).sum(): every chemical of every variable inlet *)
Definition mix_total (vin : list vec) (x : vec) : Q := qsum (map2 (fun s f => f * qsum s) vin x).

Definition comp_f (n : nat) (ids : list nat) (cout : list vec) : vec :=
  let mol_out := vsum n cout in
  let Fo := qsum mol_out in
  gather (if qzerob Fo then mol_out else vdivs mol_out Fo) ids.

Definition comp_O (n : nat) (ids : list nat) (cin cout : list vec) : vec :=
  let g_ := vsum n cin in
  vsub (vscale (qsum g_) (comp_f n ids cout)) (gather g_ ids).

Definition comp_b (n : nat) (ids : list nat) (vin cin cout : list vec) (xg : vec) : vec :=
  vadd (vscale (mix_total vin xg) (comp_f n ids cout)) (comp_O n ids cin cout).

Fixpoint comp_loop (solve : nat -> list vec -> vec -> res vec) (A : list vec) (n : nat) (ids : list nat)
         (vin cin cout : list vec) (xg : vec) (k fuel : nat) (bs : list vec) : res (vec * list vec) :=
  match fuel with
  | O => Err ERuntime
  | S fuel' =>
    let b := comp_b n ids vin cin cout xg in
    do x <- solve k A b;
    let xn := shift_feasible x in
    if qltb conv_tol (conv_measure xn xg)
    then comp_loop solve A n ids vin cin cout xn (S k) fuel' (bs ++ [b])
    else Ok (xn, bs ++ [b])
  end.

Definition material_balance_comp (solve : nat -> list vec -> vec -> res vec) (n : nat) (ids : list nat)
           (vin cin cout : list vec) (fuel : nat) : res (list vec * list vec) :=
  match vin with
  | [] => Err EValue
  | _ =>
    match cout with
    | [] => Err EOther                                         (* sum([]) = 0 has no .to_array() *)
    | _ =>
      match cin with
      | [] => Err EType                                        (* g_ = sum([]) = 0; g_[index]: TypeError *)
      | _ =>
        if negb (Nat.eqb (length vin) (length ids)) then Err EValue else    (* A_ * x_guess does not broadcast *)
        do r <- comp_loop solve (mb_matrix ids vin) n ids vin cin cout (map (fun _ => 1) ids) 0 fuel [];
        Ok (scale_zip (fst r) vin, snd r)
      end
    end
  end.

Definition comp_res_eqb (r : res (list vec * list vec)) (vin' bs : list vec) : bool :=
  match r with Ok (v, b) => vlist_approxb v vin' && vlist_approxb b bs | Err _ => false end.
Definition comp_err_eqb (r : res (list vec * list vec)) (e : err) : bool :=
  match r with Err e' => err_eqb e e' | Ok _ => false end.

(* ---------- round 6: state that the helpers read through caches between calls ----------
   (a) Stream.link_with / Stream.unlink / Stream.imass before adjust_moisture_content.  The ID branch of the helper
   works through retentate.imass / permeate.imass, a view kept in imol._data_cache['mass'] that wraps the flow vector
   object it was made from.  [ls_data] names the flow vector object the stream uses now, [ls_view] the object the cached
   mass view wraps (None: no view cached yet), [ls_next] the next fresh object name.
   LMass: the stream's imass is read (view made if absent).  LLink: fresh.link_with(stream): the partner takes over the
   stream's flow vector and its _data_cache dictionary, the stream itself is untouched.  LUnlink: stream.unlink():
   imol._data_cache = {} and imol.data = imol.data.copy(). *)
Record lstate := mkL { ls_data : nat; ls_view : option nat; ls_next : nat }.
Inductive lop := LMass | LLink | LUnlink.
Definition view_target (s : lstate) : nat := match ls_view s with Some d => d | None => ls_data s end.
Definition lstep (s : lstate) (o : lop) : lstate :=
  match o with
  | LMass => mkL (ls_data s) (Some (view_target s)) (ls_next s)
  | LLink => s
  | LUnlink => mkL (ls_next s) None (S (ls_next s))
  end.
Definition lrun (s : lstate) (ops : list lop) : lstate := fold_left lstep ops s.
Definition linit : lstate := mkL 0 None 1.
Definition view_okb (s : lstate) : bool := Nat.eqb (view_target s) (ls_data s).
(* None: the mass view wraps another flow vector than the stream's own, the ID branch would write elsewhere *)
Definition adjust_moisture_hist (mws : vec) (R P : strm) (opsR opsP : list lop) (w : nat) (mc : Q) (by_mass : bool)
           (mwc : Q) (strict : option bool) : option mres :=
  if negb by_mass || (view_okb (lrun linit opsR) && view_okb (lrun linit opsP))
  then Some (adjust_moisture mws R P w mc by_mass mwc strict) else None.
(* mix_and_split_with_moisture_content on outlets with such a history (mix_from / split_to write the flow vector in place) *)
Definition mix_and_split_with_moisture_hist (n : nat) (mws : vec) (ins : list vec) (split : vec) (opsR opsP : list lop)
           (w : nat) (mc : Q) (by_mass : bool) (mwc : Q) (strict : option bool) : option mres :=
  if negb by_mass || (view_okb (lrun linit opsR) && view_okb (lrun linit opsP))
  then Some (mix_and_split_with_moisture n mws ins split w mc by_mass mwc strict) else None.
Definition omres_eqb (m : option mres) (rl ro pl po : vec) (e : option err) : bool :=
  match m with Some m' => mres_eqb m' rl ro pl po e | None => false end.

(* (b) separations.vle with a caller-owned multi_stream over a history of calls.  MaterialIndexer keeps class-level
   index caches, one per (phases, chemicals): key (here a phase) -> row NUMBER in the sorted phase tuple.  An indexer
   points at the cache of its phase tuple ([vs_ckey]); _expand_phases (reached from copy_like when the feed carries a phase
   the holder lacks) re-sorts the rows and ends with _set_cache(), which re-points the indexer.  Rows are kept per phase
   code (four slots, absent phases zero) as in [mstate]. *)
Definition pcache := list (nat * nat).
Definition pcaches := list (list bool * pcache).
Fixpoint pc_find (c : pcache) (p : nat) : option nat :=
  match c with [] => None | (k, r) :: t => if Nat.eqb k p then Some r else pc_find t p end.
Fixpoint caches_get (cs : pcaches) (key : list bool) : pcache :=
  match cs with [] => [] | (k, c) :: t => if blist_eqb k key then c else caches_get t key end.
Record vstate := mkVS { vs_present : list bool; vs_rows : list vec; vs_ckey : list bool; vs_caches : pcaches }.

Definition present_codes (present : list bool) : list nat := filter (nthb present) all_phases.
(* PhaseIndexer.__call__: position of the phase (or of its other-case twin) in the sorted tuple *)
Definition pos_of (present : list bool) (p : nat) : nat :=
  length (filter (nthb present) (firstn (row_of present p) all_phases)).
Definition phase_at (present : list bool) (r : nat) : option nat := nth_error (present_codes present) r.

(* _get_index_data for a phase key: cached row number, else computed from the phase indexer and cached *)
Definition vs_index (s : vstate) (p : nat) : nat * vstate :=
  let c := caches_get (vs_caches s) (vs_ckey s) in
  match pc_find c p with
  | Some r => (r, s)
  | None => let r := pos_of (vs_present s) p in
            (r, mkVS (vs_present s) (vs_rows s) (vs_ckey s) ((vs_ckey s, (p, r) :: c) :: vs_caches s))
  end.
(* ms.imol[p] *)
Definition vs_read (s : vstate) (p : nat) : res vec * vstate :=
  let '(r, s') := vs_index s p in
  match phase_at (vs_present s') r with
  | Some q => (Ok (nthv (vs_rows s') q), s')
  | None => (Err EIndex, s')
  end.

Definition vs_expand (s : vstate) (other : list bool) : vstate :=
  if existsb (fun p => nthb other p && negb (nthb (vs_present s) p)) all_phases then
    let np := map (fun p => nthb (vs_present s) p || nthb other p) all_phases in
    mkVS np (vs_rows s) np (vs_caches s)                                   (* self._set_cache() *)
  else s.

Inductive vfeed := FStream (k : nat) (v : vec) | FMulti (fp : list bool) (frows : list vec).
(* PhaseIndexer._compatibility: the sorted phases in lower case *)
Definition compat (a : list bool) : list nat := map (fun p => if Nat.eqb p 0 then 2%nat else p) (present_codes a).
Definition zero_rows (n : nat) : list vec := repeat (vzero n) 4.

(* MaterialIndexer.copy_like(other) for the same chemicals *)
Definition vs_copy_like (n : nat) (s : vstate) (f : vfeed) : vstate :=
  match f with
  | FStream k v =>
    let s1 := if in_indexer (vs_present s) k then s else vs_expand s (map (Nat.eqb k) all_phases) in
    mkVS (vs_present s1) (upd (zero_rows n) (row_of (vs_present s1) k) v) (vs_ckey s1) (vs_caches s1)
  | FMulti fp frows =>
    if blist_eqb fp (vs_present s) then mkVS (vs_present s) frows (vs_ckey s) (vs_caches s) else
    let s1 := if list_eqb Nat.eqb (compat fp) (compat (vs_present s)) then s else vs_expand s fp in
    mkVS (vs_present s1)
         (fold_left (fun acc p => upd acc (row_of (vs_present s1) p) (nthv frows p)) (present_codes fp) (zero_rows n))
         (vs_ckey s1) (vs_caches s1)
  end.

Definition vs_seen (s : vstate) : list vec := map (nthv (vs_rows s)) (present_codes (vs_present s)).

(* one vle(feed, vap, liq, multi_stream=ms): copy_like, the flash oracle writes the g and l rows (keep = false: it
   empties every other row as well), the wrapper reads ms.imol['g'] and ms.imol['l'].  Holder must have g and l. *)
Record vcall := mkVC { vc_feed : vfeed; vc_eq : list vec -> vec * vec; vc_keep : bool }.
Definition vle_call (n : nat) (s : vstate) (c : vcall) : res (vec * vec) * list vec * vstate :=
  let s1 := vs_copy_like n s (vc_feed c) in
  let seen := vs_seen s1 in
  let '(g, l) := vc_eq c seen in
  let base := if vc_keep c then vs_rows s1 else zero_rows n in
  let s2 := mkVS (vs_present s1) (upd (upd base 1 g) 2 l) (vs_ckey s1) (vs_caches s1) in
  let '(rg, s3) := vs_read s2 1 in
  let '(rl, s4) := vs_read s3 2 in
  (do a <- rg; do b <- rl; Ok (a, b), seen, s4).

Fixpoint vle_hist (n : nat) (s : vstate) (cs : list vcall) : list (res (vec * vec) * list vec) :=
  match cs with
  | [] => []
  | c :: t => let '(r, seen, s') := vle_call n s c in (r, seen) :: vle_hist n s' t
  end.
Definition vinit (present : list bool) (rows : list vec) (caches : pcaches) : vstate := mkVS present rows present caches.

Definition vres_eqb (a b : res (vec * vec) * list vec) : bool :=
  res_eqb (fun x y => vapproxb (fst x) (fst y) && vapproxb (snd x) (snd y)) (fst a) (fst b)
  && vlist_approxb (snd a) (snd b).
Definition vhist_eqb (a b : list (res (vec * vec) * list vec)) : bool := list_eqb vres_eqb a b.
