(* C20 — deepening: end-to-end per-chemical (by identity) conservation for inlets of other property packages,
   for one mix_and_split call and for call histories, and the state left by the unknown-chemical error.
   Only statements about the existing model (Model.v); extra definitions live here. *)
From V Require Import Common.NumFacts C20.Model C20.Proofs.
Open Scope Q_scope.

(* flow of the chemical with identity g in a vector laid out on package pk (0 if the package lacks it) *)
Definition flow_of (pk : list nat) (v : vec) (g : nat) : Q :=
  match find_pos pk g with Some i => nthq v i | None => 0 end.

Definition inlet_pk (rk : list nat) (i : finlet) : list nat :=
  match fi_pk i with Some pk => pk | None => rk end.
Definition inlet_flow (rk : list nat) (i : finlet) (g : nat) : Q := flow_of (inlet_pk rk i) (fi_flows i) g.
Fixpoint inlets_flow (rk : list nat) (ins : list finlet) (g : nat) : Q :=
  match ins with [] => 0 | i :: t => inlet_flow rk i g + inlets_flow rk t g end.

(* a well-formed inlet: own-package inlets have the receiver's length; for an inlet of another package the entry
   order lists distinct positions of its package, contains every non-zero flow (it is the key list of the sparse
   dict), and every listed chemical is known to the receiver *)
Definition wf_inlet (n : nat) (rk : list nat) (i : finlet) : Prop :=
  match fi_pk i with
  | None => length (fi_flows i) = n
  | Some pk =>
    NoDup pk /\ NoDup (fi_order i) /\ (forall k, In k (fi_order i) -> (k < length pk)%nat) /\
    (forall k, (k < length pk)%nat -> ~ nthq (fi_flows i) k == 0 -> In k (fi_order i)) /\
    (forall k, In k (fi_order i) -> find_pos rk (nth k pk 0%nat) <> None)
  end.

(* ---------------------------------------------------------------- find_pos / left_indices *)
Lemma find_pos_complete pk i : NoDup pk -> (i < length pk)%nat -> find_pos pk (nth i pk 0%nat) = Some i.
Proof.
  revert i; induction pk as [|h t IH]; intros i ND Hi; simpl in Hi; [lia|].
  inversion ND as [|? ? NI ND']; subst. destruct i as [|i]; simpl.
  - rewrite Nat.eqb_refl. reflexivity.
  - destruct (Nat.eqb_spec h (nth i t 0%nat)) as [E|_].
    + exfalso. apply NI. rewrite E. apply nth_In. lia.
    + rewrite IH by (auto; lia). reflexivity.
Qed.

Lemma key_nth pk order k : (k < length order)%nat ->
  nth k (map (fun k0 => nth k0 pk 0%nat) order) 0%nat = nth (nth k order 0%nat) pk 0%nat.
Proof.
  intros Hk. rewrite nth_indep with (d' := nth 0 pk 0%nat) by (rewrite map_length; exact Hk).
  change (nth 0 pk 0%nat) with ((fun k0 => nth k0 pk 0%nat) 0%nat). rewrite map_nth. reflexivity.
Qed.

Lemma left_indices_nth rk key li : left_indices rk key = Ok li ->
  forall k, (k < length key)%nat -> find_pos rk (nth k key 0%nat) = Some (nth k li 0%nat).
Proof.
  revert li; induction key as [|g t IH]; intros li H k Hk; simpl in *; [lia|].
  destruct (find_pos rk g) as [j|] eqn:F; [|discriminate].
  destruct (left_indices rk t) as [r|e] eqn:L; simpl in H; [|discriminate]. inversion H; subst.
  destruct k as [|k]; simpl; [exact F|apply IH; [reflexivity|lia]].
Qed.

Lemma left_indices_total rk key : (forall g, In g key -> find_pos rk g <> None) -> exists li, left_indices rk key = Ok li.
Proof.
  induction key as [|g t IH]; intros H; simpl; [eexists; reflexivity|].
  destruct (find_pos rk g) as [j|] eqn:F; [|exfalso; apply (H g); [left; reflexivity|exact F]].
  destruct IH as [r R]; [intros g' Hg; apply H; right; exact Hg|]. rewrite R. simpl. eexists; reflexivity.
Qed.

Lemma left_indices_err rk key e : left_indices rk key = Err e ->
  e = EKey /\ exists g, In g key /\ find_pos rk g = None.
Proof.
  induction key as [|g t IH]; intros H; simpl in H; [discriminate|].
  destruct (find_pos rk g) as [j|] eqn:F.
  - destruct (left_indices rk t) as [r|e'] eqn:L; simpl in H; [discriminate|]. inversion H; subst.
    destruct (IH eq_refl) as [A (g' & G1 & G2)]. split; [exact A|]. exists g'. split; [right; exact G1|exact G2].
  - inversion H; subst. split; [reflexivity|]. exists g. split; [left; reflexivity|exact F].
Qed.

Lemma NoDup_key pk order : NoDup pk -> NoDup order -> (forall k, In k order -> (k < length pk)%nat) ->
  NoDup (map (fun k0 => nth k0 pk 0%nat) order).
Proof.
  intros NP NO B. induction order as [|k t IH]; simpl; constructor.
  - inversion NO as [|? ? NI NO']; subst. intros Hin. apply in_map_iff in Hin. destruct Hin as (k' & E & Hk').
    apply NI. assert (k' = k); [|subst; exact Hk'].
    apply (proj1 (NoDup_nth pk 0%nat) NP); [apply B; right; exact Hk'|apply B; left; reflexivity|exact E].
  - inversion NO; subst. apply IH; auto. intros k' Hk'. apply B. right; exact Hk'.
Qed.

(* ---------------------------------------------------------------- one inlet *)
Lemma flow_of_vzero rk n g : flow_of rk (vzero n) g == 0.
Proof. unfold flow_of. destruct (find_pos rk g); [rewrite nthq_vzero|]; lra. Qed.

Lemma flow_of_vadd rk (a b : vec) g : length a = length b ->
  flow_of rk (vadd a b) g == flow_of rk a g + flow_of rk b g.
Proof. intros L. unfold flow_of. destruct (find_pos rk g); [apply nthq_vadd; exact L|lra]. Qed.

(* moving an inlet of another package adds, for every chemical identity, exactly that inlet's flow of it *)
Lemma foreign_inlet_flow rk pk (acc flows : vec) order li g :
  NoDup rk -> length acc = length rk ->
  NoDup pk -> NoDup order -> (forall k, In k order -> (k < length pk)%nat) ->
  (forall k, (k < length pk)%nat -> ~ nthq flows k == 0 -> In k order) ->
  left_indices rk (map (fun k0 => nth k0 pk 0%nat) order) = Ok li ->
  flow_of rk (add_at acc li (gather flows order)) g == flow_of rk acc g + flow_of pk flows g.
Proof.
  intros NR LA NP NO BO COV L.
  pose proof (NoDup_key pk order NP NO BO) as NK.
  destruct (foreign_transfer_lemma rk pk acc flows order li L NK LA) as (T1 & T2 & _).
  pose proof (left_indices_nth _ _ _ L) as LN. rewrite map_length in LN.
  destruct (left_indices_spec _ _ _ L) as [LEN _]. rewrite map_length in LEN.
  (* the flow of g in the inlet is zero unless g is one of the listed chemicals *)
  assert (ZERO : ~ In g (map (fun k0 => nth k0 pk 0%nat) order) -> flow_of pk flows g == 0).
  { intros NI. unfold flow_of. destruct (find_pos pk g) as [i|] eqn:F; [|lra].
    destruct (find_pos_spec pk g i F) as [Hi Ei].
    destruct (Qeq_dec (nthq flows i) 0) as [Z|NZ]; [exact Z|]. exfalso. apply NI.
    apply in_map_iff. exists i. split; [exact Ei|apply COV; assumption]. }
  destruct (in_dec Nat.eq_dec g (map (fun k0 => nth k0 pk 0%nat) order)) as [Hin|Hnin].
  - apply In_nth with (d := 0%nat) in Hin. destruct Hin as (k & Hk & Ek). rewrite map_length in Hk.
    rewrite key_nth in Ek by exact Hk.
    destruct (T1 k Hk) as [_ V].
    pose proof (LN k Hk) as FP. rewrite key_nth in FP by exact Hk. rewrite Ek in FP.
    assert (OK : (nth k order 0%nat < length pk)%nat) by (apply BO; apply nth_In; exact Hk).
    pose proof (find_pos_complete pk (nth k order 0%nat) NP OK) as FQ. rewrite Ek in FQ.
    unfold flow_of. rewrite FP, FQ. exact V.
  - rewrite (ZERO Hnin). unfold flow_of. destruct (find_pos rk g) as [j|] eqn:F; [|lra].
    rewrite T2; [lra|]. intros Hj. apply Hnin.
    apply In_nth with (d := 0%nat) in Hj. destruct Hj as (k & Hk & Ek). rewrite LEN in Hk.
    pose proof (LN k Hk) as FP. rewrite Ek in FP.
    destruct (find_pos_spec rk _ _ FP) as [_ E1]. destruct (find_pos_spec rk _ _ F) as [_ E2].
    rewrite <- E2, E1. apply nth_In. rewrite map_length. exact Hk.
Qed.

(* ---------------------------------------------------------------- all inlets of a call *)
Lemma wf_keys_known n rk i pk : wf_inlet n rk i -> fi_pk i = Some pk ->
  forall g, In g (map (fun k0 => nth k0 pk 0%nat) (fi_order i)) -> find_pos rk g <> None.
Proof.
  unfold wf_inlet. intros W E. rewrite E in W. destruct W as (_ & _ & _ & _ & KN).
  intros g Hg. apply in_map_iff in Hg. destruct Hg as (k & <- & Hk). apply KN. exact Hk.
Qed.

Lemma overlaps0_total n rk ins : Forall (wf_inlet n rk) ins -> exists lis, overlaps0 rk ins = Ok lis.
Proof.
  induction 1 as [|i t W _ IH]; simpl; [eexists; reflexivity|].
  destruct IH as [l Hl]. destruct (fi_pk i) as [pk|] eqn:E.
  - destruct (left_indices_total rk _ (wf_keys_known n rk i pk W E)) as [li Hli].
    rewrite Hli, Hl. simpl. eexists; reflexivity.
  - rewrite Hl. simpl. eexists; reflexivity.
Qed.

Lemma apply_inlets_flow n rk ins : NoDup rk -> length rk = n -> Forall (wf_inlet n rk) ins ->
  forall acc lis, length acc = n -> overlaps0 rk ins = Ok lis ->
  length (apply_inlets acc ins lis) = n /\
  forall g, flow_of rk (apply_inlets acc ins lis) g == flow_of rk acc g + inlets_flow rk ins g.
Proof.
  intros NR LR. induction 1 as [|i t W _ IH]; intros acc lis LA H; simpl in H.
  - inversion H; subst. simpl. split; [exact LA|]. intros g; lra.
  - unfold inlet_flow, inlet_pk. simpl. destruct (fi_pk i) as [pk|] eqn:E.
    + destruct (left_indices rk (map (fun k0 => nth k0 pk 0%nat) (fi_order i))) as [li|e] eqn:L; [|discriminate].
      destruct (overlaps0 rk t) as [l|e] eqn:R; simpl in H; [|discriminate]. inversion H; subst lis. simpl.
      unfold wf_inlet in W. rewrite E in W. destruct W as (NP & NO & BO & COV & _).
      destruct (IH (add_at acc li (gather (fi_flows i) (fi_order i))) l) as [A B];
        [rewrite add_at_length; exact LA|reflexivity|].
      split; [exact A|]. intros g. rewrite B.
      rewrite (foreign_inlet_flow rk pk acc (fi_flows i) (fi_order i) li g NR) by (auto; congruence).
      unfold inlet_flow, inlet_pk. rewrite E. lra.
    + destruct (overlaps0 rk t) as [l|e] eqn:R; simpl in H; [|discriminate]. inversion H; subst lis. simpl.
      unfold wf_inlet in W. rewrite E in W.
      destruct (IH (vadd acc (fi_flows i)) l) as [A B]; [rewrite vadd_length; congruence|reflexivity|].
      split; [exact A|]. intros g. rewrite B. rewrite flow_of_vadd by congruence.
      unfold inlet_flow, inlet_pk. rewrite E. lra.
Qed.

Lemma empty_inlet_flow rk i g : finlet_nonempty i = false -> inlet_flow rk i g == 0.
Proof.
  unfold finlet_nonempty, inlet_flow, flow_of. intros H.
  destruct (find_pos (inlet_pk rk i) g); [apply empty_inlet_zero; exact H|lra].
Qed.

Lemma inlets_flow_filter rk ins g : inlets_flow rk (filter finlet_nonempty ins) g == inlets_flow rk ins g.
Proof.
  induction ins as [|i t IH]; simpl; [lra|].
  destruct (finlet_nonempty i) eqn:E; simpl; rewrite IH; [lra|]. rewrite (empty_inlet_flow rk i g E). lra.
Qed.

Lemma Forall_filter_wf n rk ins : Forall (wf_inlet n rk) ins -> Forall (wf_inlet n rk) (filter finlet_nonempty ins).
Proof.
  induction 1 as [|i t W _ IH]; simpl; [constructor|]. destruct (finlet_nonempty i); [constructor|]; assumption.
Qed.

(* ---------------------------------------------------------------- one call *)
(* per chemical IDENTITY: top + bottom = sum over all inlets of their flow of that chemical, whatever packages the
   inlets live on (permutations, sub- and supersets of the receiver's), in whatever order their flows were entered and
   whatever the index cache holds; the call does not fail; the top holds the split fraction *)
Lemma mix_pk_conserves_lemma n rk s ins split :
  NoDup rk -> length rk = n -> length split = n -> cache_ok rk (pk_cache s) ->
  Forall (wf_inlet n rk) ins ->
  let r := mix_and_split_pk n rk s ins split in
  snd r = None /\ cache_ok rk (pk_cache (fst r)) /\
  forall g, flow_of rk (pk_top (fst r)) g + flow_of rk (pk_bot (fst r)) g == inlets_flow rk ins g /\
            flow_of rk (pk_top (fst r)) g == flow_of rk split g * inlets_flow rk ins g.
Proof.
  intros NR LR LS CK WF r.
  destruct (mix_pk_cache_independent n rk s ins split CK) as [_ CK']. fold r in CK'.
  unfold r, mix_and_split_pk in *.
  destruct (overlaps_ok rk (pk_cache s) (filter finlet_nonempty ins) CK) as [A _].
  destruct (overlaps rk (pk_cache s) (filter finlet_nonempty ins)) as [ro c'] eqn:E. simpl in A. subst ro.
  pose proof (Forall_filter_wf n rk ins WF) as WF'.
  destruct (overlaps0_total n rk _ WF') as [lis HL]. rewrite HL in *.
  destruct (apply_inlets_flow n rk _ NR LR WF' (vzero n) lis (vzero_length n) HL) as [LM FM].
  set (mixed := apply_inlets (vzero n) (filter finlet_nonempty ins) lis) in *.
  unfold split_to. cbn [fst snd pk_top pk_bot pk_cache] in *.
  split; [reflexivity|]. split; [exact CK'|]. intros g.
  assert (M : flow_of rk mixed g == inlets_flow rk ins g).
  { rewrite FM, flow_of_vzero, inlets_flow_filter. lra. }
  unfold flow_of in *. destruct (find_pos rk g) as [j|].
  - rewrite nthq_vsub by (rewrite vmul_length; congruence). rewrite nthq_vmul by congruence.
    rewrite <- M. split; [lra|ring].
  - rewrite <- M. split; [lra|ring].
Qed.

(* ---------------------------------------------------------------- call histories *)
Fixpoint calls_conserve (rk : list nat) (calls : list (list finlet * vec)) (results : list (vec * vec * option err)) : Prop :=
  match calls, results with
  | [], [] => True
  | (ins, split) :: ct, (top, bot, e) :: rt =>
    e = None /\ (forall g, flow_of rk top g + flow_of rk bot g == inlets_flow rk ins g) /\ calls_conserve rk ct rt
  | _, _ => False
  end.

Lemma run_calls_conserve_lemma n rk s calls :
  NoDup rk -> length rk = n -> cache_ok rk (pk_cache s) ->
  Forall (fun c => Forall (wf_inlet n rk) (fst c) /\ length (snd c) = n) calls ->
  calls_conserve rk calls (run_calls n rk s calls).
Proof.
  intros NR LR CK F. revert s CK. induction F as [|[ins split] t [WF LS] _ IH]; intros s CK; simpl; [exact I|].
  simpl in WF, LS.
  destruct (mix_pk_conserves_lemma n rk s ins split NR LR LS CK WF) as (E & CK' & C).
  destruct (mix_and_split_pk n rk s ins split) as [s' e] eqn:M. simpl in E, CK', C. subst e.
  split; [reflexivity|]. split; [intros g; apply (C g)|]. apply IH. exact CK'.
Qed.

(* ---------------------------------------------------------------- the error branch *)
Definition has_unknown (rk : list nat) (ins : list finlet) : Prop :=
  exists i, In i ins /\ exists pk, fi_pk i = Some pk /\
    exists k, In k (fi_order i) /\ find_pos rk (nth k pk 0%nat) = None.

Lemma overlaps0_err_kind rk ins e : overlaps0 rk ins = Err e -> e = EKey.
Proof.
  induction ins as [|i t IH]; simpl; [discriminate|]. destruct (fi_pk i) as [pk|].
  - destruct (left_indices rk _) as [li|e'] eqn:L.
    + destruct (overlaps0 rk t) as [l|e''] eqn:R; simpl; [discriminate|]. intros H; inversion H; subst. apply IH; reflexivity.
    + intros H; inversion H; subst. apply (left_indices_err _ _ _ L).
  - destruct (overlaps0 rk t) as [l|e''] eqn:R; simpl; [discriminate|]. intros H; inversion H; subst. apply IH; reflexivity.
Qed.

Lemma overlaps0_unknown rk ins : has_unknown rk ins -> overlaps0 rk ins = Err EKey.
Proof.
  intros (i & Hin & pk & E & k & Hk & F).
  assert (X : forall lis, overlaps0 rk ins <> Ok lis).
  { induction ins as [|i' t IH]; [destruct Hin|]. intros lis. simpl.
    destruct Hin as [->|Hin].
    - rewrite E. destruct (left_indices rk _) as [li|e'] eqn:L; [|discriminate]. exfalso.
      assert (Hg : In (nth k pk 0%nat) (map (fun k0 => nth k0 pk 0%nat) (fi_order i))) by (apply (in_map (fun k0 => nth k0 pk 0%nat)); exact Hk).
      apply In_nth with (d := 0%nat) in Hg. destruct Hg as (m & Hm & Em).
      pose proof (left_indices_nth _ _ _ L m Hm) as P. rewrite Em, F in P. discriminate.
    - destruct (fi_pk i') as [pk'|].
      + destruct (left_indices rk _) as [li|e']; [|discriminate].
        destruct (overlaps0 rk t) as [l|e''] eqn:R; simpl; [exfalso; apply (IH Hin l); reflexivity|discriminate].
      + destruct (overlaps0 rk t) as [l|e''] eqn:R; simpl; [exfalso; apply (IH Hin l); reflexivity|discriminate]. }
  destruct (overlaps0 rk ins) as [lis|e] eqn:O; [exfalso; apply (X lis); reflexivity|].
  rewrite (overlaps0_err_kind rk ins e O). reflexivity.
Qed.

(* a non-empty inlet carries a chemical the receiver's package lacks: UndefinedChemicalAlias (EKey); the bottom outlet is
   untouched; the top is untouched too unless that inlet is the only non-empty one (copy_like empties the receiver
   before the lookup); the cache stays valid, so later calls are unaffected *)
Lemma mix_pk_unknown_lemma n rk s ins split :
  cache_ok rk (pk_cache s) -> has_unknown rk (filter finlet_nonempty ins) ->
  let r := mix_and_split_pk n rk s ins split in
  snd r = Some EKey /\ pk_bot (fst r) = pk_bot s /\
  pk_top (fst r) = (if Nat.eqb (length (filter finlet_nonempty ins)) 1 then vzero n else pk_top s) /\
  cache_ok rk (pk_cache (fst r)).
Proof.
  intros CK U r.
  destruct (mix_pk_cache_independent n rk s ins split CK) as [_ CK']. fold r in CK'.
  unfold r, mix_and_split_pk in *.
  destruct (overlaps_ok rk (pk_cache s) (filter finlet_nonempty ins) CK) as [A _].
  destruct (overlaps rk (pk_cache s) (filter finlet_nonempty ins)) as [ro c'] eqn:E. simpl in A. subst ro.
  rewrite (overlaps0_unknown rk _ U) in *. cbn [fst snd pk_top pk_bot pk_cache] in *.
  repeat split; auto.
Qed.

(* ---------------------------------------------------------------- histories that contain failing calls *)
(* per call: either it conserves every chemical, or it reports the unknown chemical and leaves the documented state;
   the outlets threaded through are the ones the previous call left *)
Fixpoint calls_outcome (n : nat) (rk : list nat) (top bot : vec) (calls : list (list finlet * vec))
         (results : list (vec * vec * option err)) : Prop :=
  match calls, results with
  | [], [] => True
  | (ins, split) :: ct, (t, b, e) :: rt =>
    ((e = None /\ forall g, flow_of rk t g + flow_of rk b g == inlets_flow rk ins g) \/
     (e = Some EKey /\ b = bot /\
      t = (if Nat.eqb (length (filter finlet_nonempty ins)) 1 then vzero n else top))) /\
    calls_outcome n rk t b ct rt
  | _, _ => False
  end.

Lemma run_calls_outcome_lemma n rk s calls :
  NoDup rk -> length rk = n -> cache_ok rk (pk_cache s) ->
  Forall (fun c => (Forall (wf_inlet n rk) (fst c) /\ length (snd c) = n) \/
                   has_unknown rk (filter finlet_nonempty (fst c))) calls ->
  calls_outcome n rk (pk_top s) (pk_bot s) calls (run_calls n rk s calls).
Proof.
  intros NR LR CK F. revert s CK. induction F as [|[ins split] t H _ IH]; intros s CK; simpl; [exact I|].
  simpl in H. destruct H as [[WF LS]|U].
  - destruct (mix_pk_conserves_lemma n rk s ins split NR LR LS CK WF) as (E & CK' & C).
    destruct (mix_and_split_pk n rk s ins split) as [s' e] eqn:M. simpl in E, CK', C. subst e.
    split; [left; split; [reflexivity|intros g; apply (C g)]|]. apply IH. exact CK'.
  - destruct (mix_pk_unknown_lemma n rk s ins split CK U) as (E & B & T & CK').
    destruct (mix_and_split_pk n rk s ins split) as [s' e] eqn:M. simpl in E, B, T, CK'. subst e.
    split; [right; repeat split; assumption|]. apply IH. exact CK'.
Qed.

(* ---------------------------------------------------------------- no negative flows *)
Lemma inlets_flow_nonneg rk ins g :
  (forall i, In i ins -> forall k, 0 <= nthq (fi_flows i) k) -> 0 <= inlets_flow rk ins g.
Proof.
  induction ins as [|i t IH]; intros H; simpl; [lra|].
  assert (A : 0 <= inlet_flow rk i g).
  { unfold inlet_flow, flow_of. destruct (find_pos (inlet_pk rk i) g); [apply H; left; reflexivity|lra]. }
  assert (B : 0 <= inlets_flow rk t g) by (apply IH; intros i' Hi; apply H; right; exact Hi). lra.
Qed.

Lemma flow_of_own rk (v : vec) j : NoDup rk -> (j < length rk)%nat -> flow_of rk v (nth j rk 0%nat) = nthq v j.
Proof. intros NR Hj. unfold flow_of. rewrite find_pos_complete by assumption. reflexivity. Qed.

(* non-negative inlets (on any packages) and splits in [0, 1]: no negative outlet flow *)
Lemma mix_pk_nonneg_lemma n rk s ins split :
  NoDup rk -> length rk = n -> length split = n -> cache_ok rk (pk_cache s) ->
  Forall (wf_inlet n rk) ins ->
  (forall i, In i ins -> forall k, 0 <= nthq (fi_flows i) k) -> (forall k, 0 <= nthq split k <= 1) ->
  let r := mix_and_split_pk n rk s ins split in
  forall j, (j < n)%nat -> 0 <= nthq (pk_top (fst r)) j /\ 0 <= nthq (pk_bot (fst r)) j.
Proof.
  intros NR LR LS CK WF NN SP r j Hj.
  destruct (mix_pk_conserves_lemma n rk s ins split NR LR LS CK WF) as (_ & _ & C). fold r in C.
  destruct (C (nth j rk 0%nat)) as [C1 C2].
  rewrite !flow_of_own in C1, C2 by (auto; lia).
  pose proof (inlets_flow_nonneg rk ins (nth j rk 0%nat) NN) as S. specialize (SP j).
  set (m := inlets_flow rk ins (nth j rk 0%nat)) in *. split; nra.
Qed.

(* ================================================================ partition with the repository's solver, all paths *)

(* an interior phase fraction returned by partition is the value the solver gave for exactly these arguments *)
Lemma partition_interior_phi pf feed top0 bot0 ids K topc botc strict phi :
  let r := partition pf feed top0 bot0 ids K topc botc strict in
  p_phi r = Ok phi -> 0 < phi < 1 ->
  let Fa := forced_sum feed topc in
  let Fb := forced_sum feed botc in
  let F := qsum (gather feed ids) + (Fa + Fb) in
  ~ F == 0 /\ phi = pf (vdivs (gather feed ids) F) K (Fa / F) (Fb / F).
Proof.
  cbv zeta. unfold partition.
  destruct (forced feed top0 bot0 topc) as [[top1 bot1] Fa'] eqn:F1.
  destruct (forced feed bot1 top1 botc) as [[bot2 top2] Fb'] eqn:F2.
  destruct (forced_spec _ _ _ _ _ _ _ F1) as (_ & _ & _ & _ & EA & _).
  destruct (forced_spec _ _ _ _ _ _ _ F2) as (_ & _ & _ & _ & EB & _).
  subst Fa' Fb'.
  set (Fa := forced_sum feed topc). set (Fb := forced_sum feed botc).
  set (F := qsum (gather feed ids) + (Fa + Fb)).
  destruct (qzerob F) eqn:EF; cbn [p_phi]; [discriminate|]. apply qzerob_false in EF.
  set (ph := pf (vdivs (gather feed ids) F) K (Fa / F) (Fb / F)).
  destruct (qleb ph 0) eqn:E1; cbn [p_phi]; [intros H; inversion H; subst; lra|].
  destruct (qltb ph 1) eqn:E2; cbn [p_phi]; [|intros H; inversion H; subst; lra].
  destruct (existsb qzerob _); cbn [p_phi]; [discriminate|].
  destruct (c_err _); cbn [p_phi]; [discriminate|].
  intros H _. inversion H; subst. split; [exact EF|reflexivity].
Qed.

Lemma rr_objective_zero_forced phi zs Ks za zb : za == 0 -> zb == 0 ->
  rr_objective phi zs Ks za zb == rr_objective phi zs Ks 0 0.
Proof.
  intros A B. unfold rr_objective.
  assert (QA : qltb 0 za = false) by (apply qltb_false; lra).
  assert (QB : qltb 0 zb = false) by (apply qltb_false; lra).
  assert (Q0 : qltb 0 0 = false) by (apply qltb_false; lra).
  rewrite QA, QB, Q0. reflexivity.
Qed.

(* two equilibrium chemicals and nothing forced: the closed form.  An interior value it returns is a root of the same
   residual (for non-negative K) *)
Lemma pf_real_interior_root_2 rootf z1 z2 K1 K2 za zb :
  za == 0 -> zb == 0 -> 0 <= K1 -> 0 <= K2 ->
  0 < pf_real rootf [z1; z2] [K1; K2] za zb < 1 ->
  rr_objective (pf_real rootf [z1; z2] [K1; K2] za zb) [z1; z2] [K1; K2] za zb == 0.
Proof.
  intros A B P1 P2. unfold pf_real, binary_phase_fraction.
  apply qzerob_true in A. apply qzerob_true in B. rewrite A, B. cbn [negb orb length Nat.ltb Nat.leb].
  destruct (all_le [K1; K2] one_plus) eqn:E1; [intros I; lra|].
  destruct (all_ge [K1; K2] one_minus) eqn:E2; [intros I; lra|].
  unfold binary_phase_fraction_2. rewrite E1, E2.
  set (d := K1 * K2 * z1 + K1 * K2 * z2 - K1 * z2 - (K1 * z1 + K2 * z2) - K2 * z1 + (z1 + z2)).
  destruct (qzerob d) eqn:ED; [intros I; lra|]. apply qzerob_false in ED.
  intros I. pose proof (as_valid_fraction_interior _ I) as AV. rewrite AV in I |- *. clear AV.
  apply qzerob_true in A. apply qzerob_true in B.
  rewrite rr_objective_zero_forced by assumption.
  set (p := compute_phase_fraction_2N z1 z2 K1 K2) in *.
  assert (PK1 : 0 <= p * K1) by (apply Qmult_le_0_compat; lra).
  assert (PK2 : 0 <= p * K2) by (apply Qmult_le_0_compat; lra).
  apply rr2_root_lemma.
  - intros Z. apply ED. unfold d. rewrite <- Z. ring.
  - fold p. intros Z. assert (X : 1 + p * (K1 - 1) == (1 - p) + p * K1) by ring. lra.
  - fold p. intros Z. assert (X : 1 + p * (K2 - 1) == (1 - p) + p * K2) by ring. lra.
Qed.

Section PartitionRealAll.
Variable rootf : vec -> vec -> Q -> Q -> Q.
Hypothesis rootf_root : forall zs Ks za zb,
  0 < rootf zs Ks za zb < 1 -> rr_objective (rootf zs Ks za zb) zs Ks za zb == 0.

(* every path of the repository's solver (closed form for two chemicals without forced ones, Rachford-Rice wrapper
   otherwise): an interior phase fraction is a root of the residual for the arguments partition passes *)
Lemma partition_real_root_all feed top0 bot0 ids K topc botc strict phi :
  (2 <= length ids)%nat -> length K = length ids -> (forall k, 0 <= nthq K k) ->
  let r := partition (pf_real rootf) feed top0 bot0 ids K topc botc strict in
  p_phi r = Ok phi -> 0 < phi < 1 ->
  let Fa := forced_sum feed topc in
  let Fb := forced_sum feed botc in
  let F := qsum (gather feed ids) + (Fa + Fb) in
  rr_objective phi (vdivs (gather feed ids) F) K (Fa / F) (Fb / F) == 0.
Proof.
  intros L2 LK NK r H PH Fa Fb F.
  destruct (Nat.eq_dec (length ids) 2) as [E2|N2].
  2:{ apply (partition_real_root_lemma rootf rootf_root feed top0 bot0 ids K topc botc strict phi H PH).
      left. lia. }
  destruct (Qeq_dec Fa 0) as [ZA|NA].
  2:{ apply (partition_real_root_lemma rootf rootf_root feed top0 bot0 ids K topc botc strict phi H PH).
      right; left; exact NA. }
  destruct (Qeq_dec Fb 0) as [ZB|NB].
  2:{ apply (partition_real_root_lemma rootf rootf_root feed top0 bot0 ids K topc botc strict phi H PH).
      right; right; exact NB. }
  destruct (partition_interior_phi (pf_real rootf) feed top0 bot0 ids K topc botc strict phi H PH) as [FNZ EQ].
  fold Fa Fb F in FNZ, EQ.
  destruct ids as [|i1 [|i2 [|i3 ids]]]; simpl in E2; try lia.
  destruct K as [|K1 [|K2 [|K3 K]]]; simpl in LK; try lia.
  simpl gather in *. simpl vdivs in *.
  assert (ZA' : Fa / F == 0) by (rewrite ZA; field; exact FNZ).
  assert (ZB' : Fb / F == 0) by (rewrite ZB; field; exact FNZ).
  rewrite EQ. apply pf_real_interior_root_2; auto.
  - exact (NK 0%nat).
  - exact (NK 1%nat).
  - rewrite <- EQ. exact PH.
Qed.

(* ... hence partition with the repository's solver reproduces K exactly (mole fractions over equilibrium + forced
   chemicals) whenever both phases form, under the single contract of the numeric root finder *)
Lemma partition_real_K_exact feed top0 bot0 ids K topc botc strict phi :
  length feed = length bot0 -> nonneg feed ->
  NoDup ids -> (forall i, In i ids -> (i < length bot0)%nat) ->
  (2 <= length ids)%nat -> length K = length ids -> (forall k, 0 <= nthq K k) ->
  let r := partition (pf_real rootf) feed top0 bot0 ids K topc botc strict in
  p_phi r = Ok phi -> 0 < phi < 1 ->
  let Fa := forced_sum feed topc in
  let Fb := forced_sum feed botc in
  let F := qsum (gather feed ids) + (Fa + Fb) in
  let T := qsum (gather (p_top r) ids) + Fa in
  let B := qsum (gather (p_bot r) ids) + Fb in
  T == phi * F /\ B == (1 - phi) * F /\
  forall k, (k < length ids)%nat -> ~ nthq (p_bot r) (nth k ids 0%nat) == 0 ->
    (nthq (p_top r) (nth k ids 0%nat) / T) / (nthq (p_bot r) (nth k ids 0%nat) / B) == nthq K k.
Proof.
  intros L N ND IB L2 LK NK r H PH Fa Fb F.
  apply (partition_K_exact_lemma (pf_real rootf) feed top0 bot0 ids K topc botc strict phi L N ND IB LK NK H PH).
  apply (partition_real_root_all feed top0 bot0 ids K topc botc strict phi L2 LK NK H PH).
Qed.
End PartitionRealAll.
