(* C20 — lemmas of the second deepening round: outlets aliased with the feed (partition, lle), the single-equilibrium-
   chemical path of the phase-fraction solver, material_balance(balance='composition'). *)
From V Require Import Common.NumFacts C20.Model C20.Proofs C20.ProofsDeep.
Require Import Lia Lqa.
Open Scope Q_scope.

(* ================================================================ partition with an outlet that is the feed *)
Section PartitionAlias.
Variable pf : vec -> vec -> Q -> Q -> Q.

(* shape of every normal return: the bottom has the length of what it was, the top is live - bottom where live is the
   feed object's final content before the last statement *)
Lemma partition_alias_shape b feed o0 ids K topc botc strict phi :
  length feed = length o0 ->
  let r := partition_alias pf b feed o0 ids K topc botc strict in
  p_phi r = Ok phi ->
  exists top1 bot1 Fa bot2 top2 Fb,
    forced feed (if b then o0 else feed) (if b then feed else o0) topc = (top1, bot1, Fa) /\
    forced (if b then bot1 else top1) bot1 top1 botc = (bot2, top2, Fb) /\
    length (p_bot r) = length feed /\ length top2 = length feed /\
    p_top r = vsub (if b then p_bot r else top2) (p_bot r) /\ 0 <= phi <= 1.
Proof.
  intros L. cbv zeta. unfold partition_alias.
  destruct (forced feed (if b then o0 else feed) (if b then feed else o0) topc) as [[top1 bot1] Fa] eqn:F1.
  destruct (forced (if b then bot1 else top1) bot1 top1 botc) as [[bot2 top2] Fb] eqn:F2.
  destruct (forced_spec _ _ _ _ _ _ _ F1) as (L1t & L1b & _).
  destruct (forced_spec _ _ _ _ _ _ _ F2) as (L2b & L2t & _).
  assert (LB : length bot2 = length feed) by (rewrite L2b, L1b; destruct b; congruence).
  assert (LT : length top2 = length feed) by (rewrite L2t, L1t; destruct b; congruence).
  intros H. exists top1, bot1, Fa, bot2, top2, Fb. split; [first [reflexivity|exact F1]|]. split; [first [reflexivity|exact F2]|].
  revert H.
  destruct (qzerob _); cbn [p_phi p_top p_bot]; [discriminate|].
  destruct (qleb _ 0) eqn:E1; cbn [p_phi p_top p_bot].
  - intros H; inversion H; subst. rewrite scatter_length. repeat split; try lra; auto.
  - destruct (qltb _ 1) eqn:E2.
    + destruct (existsb qzerob _); cbn [p_phi]; [discriminate|].
      destruct (c_err _); cbn [p_phi p_top p_bot]; [discriminate|].
      intros H; inversion H; subst. rewrite scatter_length.
      apply qleb_false in E1. apply qltb_true in E2. repeat split; try lra; auto.
    + cbn [p_phi p_top p_bot]. intros H; inversion H; subst. rewrite scatter_c_length.
      repeat split; try lra; auto.
Qed.

(* a vector written back onto itself at some positions reads the same everywhere *)
Lemma forced_self_reads feed other idx d' o' F :
  forced feed feed other idx = (d', o', F) -> length other = length feed -> forall j, nthq d' j = nthq feed j.
Proof.
  intros H LO j. destruct (forced_spec _ _ _ _ _ _ _ H) as (LD & _ & _ & _ & _ & OUT & INN).
  destruct (in_dec Nat.eq_dec j idx) as [I|NI].
  - destruct (Nat.lt_ge_cases j (length feed)) as [LT|GE].
    + apply INN; [exact I|exact LT|rewrite LO; exact LT].
    + rewrite !nthq_overflow; [reflexivity|exact GE|rewrite LD; exact GE].
  - apply OUT. exact NI.
Qed.

(* TOP IS THE FEED.  Per chemical, on every normal return: top + bottom = feed except for the chemicals forced to the
   bottom, where top + bottom = 0 (the bottom holds the feed's flow, the top MINUS that flow). *)
Lemma partition_top_is_feed_lemma feed o0 ids K topc botc strict phi :
  length feed = length o0 ->
  let r := partition_alias pf false feed o0 ids K topc botc strict in
  p_phi r = Ok phi ->
  (forall i, ~ In i botc -> nthq (p_top r) i + nthq (p_bot r) i == nthq feed i) /\
  (forall i, In i botc -> (i < length feed)%nat -> nthq (p_top r) i + nthq (p_bot r) i == 0).
Proof.
  intros L r H.
  destruct (partition_alias_shape false feed o0 ids K topc botc strict phi L H)
    as (top1 & bot1 & Fa & bot2 & top2 & Fb & F1 & F2 & LB & LT & T & _).
  fold r in LB, T. cbn [negb] in *. simpl in F1, F2, T.
  pose proof (forced_self_reads feed o0 topc top1 bot1 Fa F1 (eq_sym L)) as R1.
  destruct (forced_spec _ _ _ _ _ _ _ F1) as (L1t & L1b & _).
  destruct (forced_spec _ _ _ _ _ _ _ F2) as (_ & _ & _ & _ & _ & OUT & INN).
  split; intros i Hi.
  - rewrite T, nthq_vsub by congruence. destruct (OUT i Hi) as [_ E]. rewrite E, R1. lra.
  - intros LI. rewrite T, nthq_vsub by congruence.
    destruct (INN i Hi) as [_ E]; [rewrite L1b, <- L; exact LI|rewrite L1t; exact LI|]. rewrite E. lra.
Qed.

(* hence: if the chemicals forced to the bottom carry no flow (in particular if there are none), the in-place call
   conserves every chemical *)
Lemma partition_top_is_feed_conserves feed o0 ids K topc botc strict phi :
  length feed = length o0 -> (forall i, In i botc -> nthq feed i == 0) ->
  let r := partition_alias pf false feed o0 ids K topc botc strict in
  p_phi r = Ok phi ->
  forall i, nthq (p_top r) i + nthq (p_bot r) i == nthq feed i.
Proof.
  intros L Z r H i.
  destruct (partition_top_is_feed_lemma feed o0 ids K topc botc strict phi L H) as [A B]. fold r in A, B.
  destruct (in_dec Nat.eq_dec i botc) as [I|NI]; [|apply A; exact NI].
  destruct (Nat.lt_ge_cases i (length feed)) as [LT|GE].
  - rewrite (B i I LT), (Z i I). reflexivity.
  - destruct (partition_alias_shape false feed o0 ids K topc botc strict phi L H)
      as (top1 & bot1 & Fa & bot2 & top2 & Fb & _ & _ & LB & LT & T & _).
    fold r in LB, T. simpl in T. rewrite T, nthq_vsub by congruence.
    rewrite !nthq_overflow by lia. lra.
Qed.

(* without forced-bottom chemicals the in-place call computes exactly what the call with a separate top computes
   (same bottom, same fraction, same warnings), so the earlier theorems transfer *)
Lemma partition_top_is_feed_same feed o0 ids K topc strict :
  let ra := partition_alias pf false feed o0 ids K topc [] strict in
  let r := partition pf feed feed o0 ids K topc [] strict in
  p_bot ra = p_bot r /\ p_phi ra = p_phi r /\ p_warns ra = p_warns r.
Proof.
  cbv zeta. unfold partition_alias, partition.
  destruct (forced feed feed o0 topc) as [[top1 bot1] Fa] eqn:F1. cbn [forced].
  destruct (qzerob _); [repeat split|].
  destruct (qleb _ 0); [repeat split|].
  destruct (qltb _ 1); [|repeat split].
  destruct (existsb qzerob _); [repeat split|].
  destruct (c_err _); repeat split.
Qed.

Lemma partition_top_is_feed_nonneg feed o0 ids K topc strict phi :
  length feed = length o0 -> nonneg feed -> bounded feed o0 ->
  let r := partition_alias pf false feed o0 ids K topc [] strict in
  p_phi r = Ok phi ->
  forall i, 0 <= nthq (p_top r) i /\ 0 <= nthq (p_bot r) i <= nthq feed i.
Proof.
  intros L N B r H i.
  destruct (partition_top_is_feed_same feed o0 ids K topc strict) as (EB & EP & _).
  fold r in EB, EP. rewrite EP in H.
  pose proof (partition_nonneg_lemma pf feed feed o0 ids K topc [] strict phi L N B H i) as [_ NB].
  rewrite <- EB in NB.
  assert (C : nthq (p_top r) i + nthq (p_bot r) i == nthq feed i).
  { apply (partition_top_is_feed_conserves feed o0 ids K topc [] strict phi L); [intros j []|].
    fold r. rewrite EP. exact H. }
  split; [lra|exact NB].
Qed.

(* BOTTOM IS THE FEED.  feed_mol and bottom.mol are the same vector when the last statement runs: the top outlet is
   emptied on every normal return, whatever the phase fraction *)
Lemma partition_bottom_is_feed_lemma feed o0 ids K topc botc strict phi :
  length feed = length o0 ->
  let r := partition_alias pf true feed o0 ids K topc botc strict in
  p_phi r = Ok phi ->
  forall i, nthq (p_top r) i == 0.
Proof.
  intros L r H i.
  destruct (partition_alias_shape true feed o0 ids K topc botc strict phi L H)
    as (top1 & bot1 & Fa & bot2 & top2 & Fb & _ & _ & LB & _ & T & _).
  fold r in LB, T. simpl in T. rewrite T, nthq_vsub by reflexivity. lra.
Qed.
End PartitionAlias.

(* the statement "an in-place partition conserves every chemical and leaves no negative flow" is false for both kinds
   of aliasing *)
Definition partition_alias_conserves_statement (b : bool) : Prop :=
  forall pf feed o0 ids K topc botc strict phi,
    length feed = length o0 -> nonneg feed -> bounded feed o0 -> Forall (fun k => 0 < k) K ->
    let r := partition_alias pf b feed o0 ids K topc botc strict in
    p_phi r = Ok phi ->
    forall i, nthq (p_top r) i + nthq (p_bot r) i == nthq feed i /\ 0 <= nthq (p_top r) i.

Lemma nonneg_of_list (v : vec) : forallb (fun x => qleb 0 x) v = true -> nonneg v.
Proof.
  intros H i. unfold nthq. destruct (nth_in_or_default i v 0) as [I|E]; [|rewrite E; lra].
  rewrite forallb_forall in H. apply qleb_true. apply H. exact I.
Qed.

Lemma bounded_zero (feed : vec) n : nonneg feed -> bounded feed (vzero n).
Proof. intros N i. rewrite nthq_vzero. split; [lra|apply N]. Qed.

Definition wit_feed : vec := [4; 2; 1; 1; 3].
Definition wit_K : vec := [2; 1 # 2].

(* top is the feed, one chemical (index 3, flow 1) forced to the bottom: the top ends with -1 of it *)
Lemma partition_top_is_feed_refuted : ~ partition_alias_conserves_statement false.
Proof.
  intros S.
  assert (N : nonneg wit_feed) by (apply nonneg_of_list; reflexivity).
  assert (PK : Forall (fun k => 0 < k) wit_K) by (repeat constructor).
  pose proof (S (fun _ _ _ _ => 1 # 2) wit_feed (vzero 5) [0; 1]%nat wit_K [2]%nat [3]%nat false (1 # 2)
                eq_refl N (bounded_zero wit_feed 5 N) PK eq_refl 3%nat) as [_ X].
  vm_compute in X. apply X. reflexivity.
Qed.

(* bottom is the feed, nothing forced: the top share of every equilibrium chemical is gone *)
Lemma partition_bottom_is_feed_refuted : ~ partition_alias_conserves_statement true.
Proof.
  intros S.
  assert (N : nonneg wit_feed) by (apply nonneg_of_list; reflexivity).
  assert (PK : Forall (fun k => 0 < k) wit_K) by (repeat constructor).
  pose proof (S (fun _ _ _ _ => 1 # 2) wit_feed (vzero 5) [0; 1]%nat wit_K [] [] false (1 # 2)
                eq_refl N (bounded_zero wit_feed 5 N) PK eq_refl 0%nat) as [X _].
  vm_compute in X. discriminate X.
Qed.

(* ================================================================ lle with an outlet that is the feed *)
(* without mixing (efficiency >= 1) the in-place call returns what the call with separate outlets returns *)
Lemma lle_alias_same rho eq extra b feed o0 top0 bot0 topchem eff :
  1 <= eff ->
  let ra := lle_wrap_alias rho eq extra b feed o0 topchem eff in
  let r := lle_wrap rho eq extra feed top0 bot0 topchem eff in
  e_err ra = e_err r /\ (e_err r = None -> e_top ra = e_top r /\ e_bot ra = e_bot r).
Proof.
  intros EF. cbv zeta. unfold lle_wrap_alias, lle_wrap. destruct (eq feed) as [rowL rowl].
  destruct (negb (Nat.eqb extra 0)); cbn [e_err]; [split; [reflexivity|discriminate]|].
  destruct (qltb eff 1) eqn:E1; [apply qltb_true in E1; lra|].
  cbn [e_err e_top e_bot]. repeat split.
Qed.

Lemma lle_alias_conserves_lemma rho eq extra b feed o0 topchem eff rowL rowl :
  eq feed = (rowL, rowl) -> length rowL = length feed -> length rowl = length feed ->
  (forall i, nthq rowL i + nthq rowl i == nthq feed i) -> 1 <= eff ->
  let r := lle_wrap_alias rho eq extra b feed o0 topchem eff in
  e_err r = None ->
  forall i, nthq (e_top r) i + nthq (e_bot r) i == nthq feed i.
Proof.
  intros E LL Ll C EF r H i.
  destruct (lle_alias_same rho eq extra b feed o0 o0 o0 topchem eff EF) as [EE ET]. fold r in EE, ET.
  rewrite EE in H. destruct (ET H) as [A B]. rewrite A, B.
  apply (lle_conserves_lemma rho eq extra feed o0 o0 topchem eff rowL rowl E LL Ll C H).
Qed.

(* with mixing the share that should be (1 - eff) of the FEED is (1 - eff) of the already scaled outlet that aliases
   the feed: top' + bottom' = eff (rowL + rowl) + (1 - eff) eff row_alias *)
Lemma lle_alias_mix_lemma rho eq extra b feed o0 topchem eff rowL rowl :
  eq feed = (rowL, rowl) -> length rowL = length feed -> length rowl = length feed -> eff < 1 ->
  let r := lle_wrap_alias rho eq extra b feed o0 topchem eff in
  e_err r = None ->
  exists row_alias, (row_alias = rowL \/ row_alias = rowl) /\
  forall i, nthq (e_top r) i + nthq (e_bot r) i ==
            eff * (nthq rowL i + nthq rowl i) + (1 - eff) * eff * nthq row_alias i.
Proof.
  intros E LL Ll EF. cbv zeta. unfold lle_wrap_alias. rewrite E.
  destruct (negb (Nat.eqb extra 0)); cbn [e_err]; [discriminate|].
  apply qltb_true in EF. rewrite EF. intros _.
  destruct (top_is_l rho rowL rowl topchem); destruct b; cbn [e_top e_bot];
    [exists rowL|exists rowl|exists rowl|exists rowL]; (split; [auto|]); intros i;
    rewrite !nthq_vadd by (rewrite !vscale_length; congruence); rewrite !nthq_vscale; field.
Qed.

Definition lle_alias_conserves_statement : Prop :=
  forall rho eq extra b feed o0 topchem eff rowL rowl,
    eq feed = (rowL, rowl) -> length rowL = length feed -> length rowl = length feed ->
    (forall i, nthq rowL i + nthq rowl i == nthq feed i) -> 0 <= eff ->
    let r := lle_wrap_alias rho eq extra b feed o0 topchem eff in
    e_err r = None ->
    forall i, nthq (e_top r) i + nthq (e_bot r) i == nthq feed i.

(* feed (2, 4) split into (1, 1) and (1, 3), efficiency 1/2, top is the feed: outlets add up to (5/4, 9/4) *)
Lemma lle_alias_refuted : ~ lle_alias_conserves_statement.
Proof.
  intros S.
  pose proof (S (fun _ => None) (fun _ => ([1; 1], [1; 3])) 0%nat false [2; 4] [0; 0] true (1 # 2) [1; 1] [1; 3]
                eq_refl eq_refl eq_refl) as X.
  assert (C : forall i, nthq [1; 1] i + nthq [1; 3] i == nthq [2; 4] i).
  { intros i. do 2 (destruct i as [|i]; [reflexivity|]). destruct i; reflexivity. }
  specialize (X C). assert (E : 0 <= 1 # 2) by lra. specialize (X E eq_refl 0%nat).
  vm_compute in X. discriminate X.
Qed.

(* ================================================================ the solver with ONE equilibrium chemical *)
(* phase_fraction(zs, Ks) with zs.size = 1 and no forced fractions: K <= 1 + 1e-9 -> 1, otherwise K >= 1 - 1e-9 -> 0;
   the closed form / ValueError are unreachable: the result is never interior *)
Lemma pf_real_single rootf z K za zb : za == 0 -> zb == 0 ->
  pf_real rootf [z] [K] za zb = 0 \/ pf_real rootf [z] [K] za zb = 1.
Proof.
  intros A B. unfold pf_real, binary_phase_fraction.
  apply qzerob_true in A. apply qzerob_true in B. rewrite A, B. cbn [negb orb length Nat.ltb Nat.leb].
  destruct (all_le [K] one_plus); [right; reflexivity|].
  destruct (all_ge [K] one_minus); left; reflexivity.
Qed.

Section PartitionRealSingle.
Variable rootf : vec -> vec -> Q -> Q -> Q.
Hypothesis rootf_root : forall zs Ks za zb,
  0 < rootf zs Ks za zb < 1 -> rr_objective (rootf zs Ks za zb) zs Ks za zb == 0.

(* one equilibrium chemical, no forced flow: partition never returns an interior fraction, the chemical goes to one
   outlet as a whole *)
Lemma partition_real_single_not_interior feed top0 bot0 i K1 topc botc strict phi :
  forced_sum feed topc == 0 -> forced_sum feed botc == 0 ->
  let r := partition (pf_real rootf) feed top0 bot0 [i] [K1] topc botc strict in
  p_phi r = Ok phi -> ~ 0 < phi < 1.
Proof.
  intros ZA ZB r H PH.
  destruct (partition_interior_phi (pf_real rootf) feed top0 bot0 [i] [K1] topc botc strict phi H PH) as [FNZ EQ].
  unfold gather in EQ, FNZ. cbn [map] in EQ, FNZ.
  set (F := qsum [nthq feed i] + (forced_sum feed topc + forced_sum feed botc)) in *.
  assert (ZA' : forced_sum feed topc / F == 0) by (rewrite ZA; field; exact FNZ).
  assert (ZB' : forced_sum feed botc / F == 0) by (rewrite ZB; field; exact FNZ).
  unfold vdivs in EQ. cbn [map] in EQ.
  destruct (pf_real_single rootf (nthq feed i / F) K1 _ _ ZA' ZB') as [E|E];
    rewrite E in EQ; subst phi; lra.
Qed.

(* any number (>= 1) of equilibrium chemicals: an interior fraction is a root of the residual *)
Lemma partition_real_root_any feed top0 bot0 ids K topc botc strict phi :
  (1 <= length ids)%nat -> length K = length ids -> (forall k, 0 <= nthq K k) ->
  let r := partition (pf_real rootf) feed top0 bot0 ids K topc botc strict in
  p_phi r = Ok phi -> 0 < phi < 1 ->
  let Fa := forced_sum feed topc in
  let Fb := forced_sum feed botc in
  let F := qsum (gather feed ids) + (Fa + Fb) in
  rr_objective phi (vdivs (gather feed ids) F) K (Fa / F) (Fb / F) == 0.
Proof.
  intros L1 LK NK r H PH Fa Fb F.
  destruct (Nat.eq_dec (length ids) 1) as [E1|N1].
  2:{ apply (partition_real_root_all rootf rootf_root feed top0 bot0 ids K topc botc strict phi); auto. lia. }
  destruct (Qeq_dec Fa 0) as [ZA|NA].
  2:{ apply (partition_real_root_lemma rootf rootf_root feed top0 bot0 ids K topc botc strict phi H PH).
      right; left; exact NA. }
  destruct (Qeq_dec Fb 0) as [ZB|NB].
  2:{ apply (partition_real_root_lemma rootf rootf_root feed top0 bot0 ids K topc botc strict phi H PH).
      right; right; exact NB. }
  exfalso. destruct ids as [|i [|i2 ids]]; simpl in E1; try lia.
  destruct K as [|K1 [|K2 K]]; simpl in LK; try lia.
  exact (partition_real_single_not_interior feed top0 bot0 i K1 topc botc strict phi ZA ZB H PH).
Qed.

Lemma partition_real_K_exact_any feed top0 bot0 ids K topc botc strict phi :
  length feed = length bot0 -> nonneg feed ->
  NoDup ids -> (forall i, In i ids -> (i < length bot0)%nat) ->
  (1 <= length ids)%nat -> length K = length ids -> (forall k, 0 <= nthq K k) ->
  let r := partition (pf_real rootf) feed top0 bot0 ids K topc botc strict in
  p_phi r = Ok phi -> 0 < phi < 1 ->
  let Fa := forced_sum feed topc in
  let Fb := forced_sum feed botc in
  let F := qsum (gather feed ids) + (Fa + Fb) in
  let T := qsum (gather (p_top r) ids) + Fa in
  let B := qsum (gather (p_bot r) ids) + Fb in
  T == phi * F /\ B == (1 - phi) * F /\
  forall k, (k < length ids)%nat -> ~ nthq (p_bot r) (nth k ids 0%nat) == 0 ->
    (nthq (p_top r) (nth k ids 0%nat) / T) / (nthq (p_bot r) (nth k ids 0%nat) / B) == nthq K k.
Proof.
  intros L N ND IB L1 LK NK r H PH Fa Fb F.
  apply (partition_K_exact_lemma (pf_real rootf) feed top0 bot0 ids K topc botc strict phi L N ND IB LK NK H PH).
  apply (partition_real_root_any feed top0 bot0 ids K topc botc strict phi L1 LK NK H PH).
Qed.
End PartitionRealSingle.

(* ================================================================ material_balance(balance='composition') *)
Lemma fold_min_le r acc :
  fold_left (fun a b : Q => if qltb b a then b else a) r acc <= acc /\
  forall a, In a r -> fold_left (fun a b : Q => if qltb b a then b else a) r acc <= a.
Proof.
  revert acc; induction r as [|y r IH]; intros acc; simpl.
  - split; [lra|intros a []].
  - destruct (IH (if qltb y acc then y else acc)) as [A B].
    destruct (qltb y acc) eqn:E; [apply qltb_true in E|apply qltb_false in E].
    + split; [lra|]. intros a [<-|I]; [exact A|apply B; exact I].
    + split; [exact A|]. intros a [<-|I]; [lra|apply B; exact I].
Qed.

Lemma qmin_list_le x a : In a x -> qmin_list x <= a.
Proof.
  destruct x as [|y r]; [intros []|]. unfold qmin_list. destruct (fold_min_le r y) as [A B].
  intros [<-|I]; [exact A|apply B; exact I].
Qed.

(* the factors that are applied are never negative *)
Lemma shift_feasible_nonneg x a : In a (shift_feasible x) -> 0 <= a.
Proof.
  unfold shift_feasible. destruct (existsb (fun a => qltb a 0) x) eqn:E.
  - intros I. apply in_map_iff in I. destruct I as (y & <- & Iy). pose proof (qmin_list_le x y Iy). lra.
  - intros I. destruct (Qlt_le_dec a 0) as [N|P]; [|exact P]. exfalso.
    assert (X : existsb (fun a => qltb a 0) x = true); [|congruence].
    apply existsb_exists. exists a. split; [exact I|apply qltb_true; exact N].
Qed.

Lemma shift_feasible_id x : (forall a, In a x -> 0 <= a) -> shift_feasible x = x.
Proof.
  intros H. unfold shift_feasible. destruct (existsb (fun a => qltb a 0) x) eqn:E; [|reflexivity].
  apply existsb_exists in E. destruct E as (a & I & N). apply qltb_true in N. specialize (H a I). lra.
Qed.

Lemma shift_feasible_length x : length (shift_feasible x) = length x.
Proof. unfold shift_feasible. destruct (existsb _ x); [apply map_length|reflexivity]. Qed.

(* the loop returns the (shifted) answer of some pass whose change against the previous iterate passed the test *)
Lemma comp_loop_result solve A n ids vin cin cout fuel : forall xg k bs xn bs',
  comp_loop solve A n ids vin cin cout xg k fuel bs = Ok (xn, bs') ->
  exists xprev x kk,
    solve kk A (comp_b n ids vin cin cout xprev) = Ok x /\ xn = shift_feasible x /\
    conv_measure xn xprev <= conv_tol.
Proof.
  induction fuel as [|fuel IH]; intros xg k bs xn bs' H; simpl in H; [discriminate|].
  destruct (solve k A (comp_b n ids vin cin cout xg)) as [x|e] eqn:S; simpl in H; [|discriminate].
  destruct (qltb conv_tol (conv_measure (shift_feasible x) xg)) eqn:E.
  - exact (IH _ _ _ _ _ H).
  - inversion H; subst. exists xg, x, k. split; [exact S|]. split; [reflexivity|]. apply qltb_false. exact E.
Qed.

Lemma comp_result_lemma solve n ids vin cin cout fuel vin' bs :
  material_balance_comp solve n ids vin cin cout fuel = Ok (vin', bs) ->
  length vin = length ids /\ cin <> [] /\ cout <> [] /\
  exists xprev x kk,
    solve kk (mb_matrix ids vin) (comp_b n ids vin cin cout xprev) = Ok x /\
    vin' = scale_zip (shift_feasible x) vin /\
    conv_measure (shift_feasible x) xprev <= conv_tol.
Proof.
  unfold material_balance_comp. destruct vin as [|s0 vin0] eqn:EV; [discriminate|]. rewrite <- EV.
  destruct cout as [|o0 cout0] eqn:EO; [discriminate|]. rewrite <- EO.
  destruct cin as [|c0 cin0] eqn:EC; [discriminate|]. rewrite <- EC.
  destruct (Nat.eqb (length vin) (length ids)) eqn:EL; cbn [negb]; [|discriminate].
  apply Nat.eqb_eq in EL.
  destruct (comp_loop _ _ _ _ _ _ _ _ _ _ _) as [[xn bb]|e] eqn:CL; simpl; [|discriminate].
  intros H; inversion H; subst vin' bs.
  split; [exact EL|]. split; [rewrite EC; discriminate|]. split; [rewrite EO; discriminate|].
  destruct (comp_loop_result _ _ _ _ _ _ _ _ _ _ _ _ _ CL) as (xprev & x & kk & S & -> & CV).
  exists xprev, x, kk. repeat split; assumption.
Qed.

Lemma mix_total_spec vin x : mix_total vin x = qsum (map2 (fun s f => f * qsum s) vin x).
Proof. reflexivity. Qed.

(* component k of the right-hand side handed to the solver *)
Lemma nthq_comp_b n ids vin cin cout xg k :
  (forall v, In v cin -> length v = n) -> (k < length ids)%nat ->
  nthq (comp_b n ids vin cin cout xg) k ==
    (mix_total vin xg + qsum (vsum n cin)) * nthq (comp_f n ids cout) k - colsum cin (nth k ids 0%nat).
Proof.
  intros LC Hk. unfold comp_b, comp_O.
  assert (LF : length (comp_f n ids cout) = length ids) by (unfold comp_f; apply gather_length).
  rewrite nthq_vadd.
  2:{ rewrite vscale_length, vsub_length; rewrite vscale_length; [reflexivity|]. rewrite LF, gather_length. reflexivity. }
  rewrite nthq_vscale, nthq_vsub by (rewrite vscale_length, LF, gather_length; reflexivity).
  rewrite nthq_vscale, nthq_gather by exact Hk. rewrite (nthq_vsum n cin _ LC). ring.
Qed.

(* the entries of f are the outlet's mole fractions of the chosen chemicals *)
Lemma comp_f_fraction n ids cout k :
  (forall v, In v cout -> length v = n) -> (k < length ids)%nat -> ~ qsum (vsum n cout) == 0 ->
  nthq (comp_f n ids cout) k == colsum cout (nth k ids 0%nat) / qsum (vsum n cout).
Proof.
  intros LO Hk NZ. unfold comp_f. apply qzerob_false in NZ. rewrite NZ.
  rewrite nthq_gather by exact Hk. rewrite nthq_vdivs, (nthq_vsum n cout _ LO). reflexivity.
Qed.

(* for ANY x that answers the system built from xprev (contract A x = b): per chosen chemical, the inlet flow minus the
   inlet total times the outlet fraction equals (total(xprev) - total(x)) times that fraction; at a fixed point it vanishes *)
Lemma comp_residual_lemma n ids vin cin cout xprev x :
  (forall v, In v cin -> length v = n) -> length x = length vin ->
  (forall k, nthq (matvec (mb_matrix ids vin) x) k == nthq (comp_b n ids vin cin cout xprev) k) ->
  forall k, (k < length ids)%nat ->
    colsum (scale_zip x vin) (nth k ids 0%nat) + colsum cin (nth k ids 0%nat)
      - (mix_total vin x + qsum (vsum n cin)) * nthq (comp_f n ids cout) k
    == (mix_total vin xprev - mix_total vin x) * nthq (comp_f n ids cout) k.
Proof.
  intros LC LX AX k Hk. specialize (AX k).
  rewrite nthq_matvec_row in AX by exact Hk.
  rewrite colsum_scale_zip by exact LX. rewrite AX, (nthq_comp_b n ids vin cin cout xprev k LC Hk). ring.
Qed.

(* (A_ * x).sum() is the total molar flow of the scaled variable inlets *)
Lemma qsum_vscale k a : qsum (vscale k a) == k * qsum a.
Proof. unfold vscale. induction a as [|x a IH]; simpl; [ring|]. rewrite IH. ring. Qed.

Lemma qsum_vadd a b : length a = length b -> qsum (vadd a b) == qsum a + qsum b.
Proof.
  unfold vadd. revert b; induction a as [|x a IH]; intros [|y b] L; simpl in *; try discriminate; [ring|].
  rewrite IH by lia. ring.
Qed.

Lemma qsum_vzero n : qsum (vzero n) == 0.
Proof. unfold vzero. induction n as [|n IH]; simpl; [reflexivity|]. rewrite IH. ring. Qed.

Lemma mix_total_is_total n vin x :
  (forall v, In v vin -> length v = n) -> length x = length vin ->
  mix_total vin x == qsum (vsum n (scale_zip x vin)).
Proof.
  unfold mix_total. revert x; induction vin as [|s vin IH]; intros [|f x] LV LX; simpl in *; try discriminate.
  - rewrite qsum_vzero. reflexivity.
  - rewrite qsum_vadd.
    + rewrite qsum_vscale, <- IH; [reflexivity| |lia]. intros v Hv. apply LV. right. exact Hv.
    + rewrite vscale_length, vsum_length.
      * apply LV. left. reflexivity.
      * intros v Hv. clear IH. revert x LX v Hv.
        induction vin as [|t vin IH2]; intros [|g x] LX v Hv; simpl in *; try discriminate; try contradiction.
        destruct Hv as [<-|Hv]; [rewrite vscale_length; apply LV; right; left; reflexivity|].
        apply (IH2 (fun u Hu => LV u (match Hu with or_introl e => or_introl e | or_intror h => or_intror (or_intror h) end)) x); [lia|exact Hv].
Qed.

(* everything together, under the contract of the linear solver (its answer has one factor per inlet and solves the
   system it was given) *)
Lemma balance_composition_lemma solve n ids vin cin cout fuel vin' bs :
  (forall v, In v cin -> length v = n) ->
  (forall kk b x, solve kk (mb_matrix ids vin) b = Ok x ->
     length x = length vin /\ forall k, nthq (matvec (mb_matrix ids vin) x) k == nthq b k) ->
  material_balance_comp solve n ids vin cin cout fuel = Ok (vin', bs) ->
  exists xprev x,
    vin' = scale_zip (shift_feasible x) vin /\
    conv_measure (shift_feasible x) xprev <= conv_tol /\
    (forall a, In a (shift_feasible x) -> 0 <= a) /\
    ((forall a, In a x -> 0 <= a) ->
     forall k, (k < length ids)%nat ->
       colsum vin' (nth k ids 0%nat) + colsum cin (nth k ids 0%nat)
         - (mix_total vin x + qsum (vsum n cin)) * nthq (comp_f n ids cout) k
       == (mix_total vin xprev - mix_total vin x) * nthq (comp_f n ids cout) k).
Proof.
  intros LC CT H.
  destruct (comp_result_lemma solve n ids vin cin cout fuel vin' bs H) as (_ & _ & _ & xprev & x & kk & S & EV & CV).
  destruct (CT kk _ x S) as [LX AX].
  exists xprev, x. split; [exact EV|]. split; [exact CV|]. split; [apply shift_feasible_nonneg|].
  intros NN k Hk. rewrite EV, (shift_feasible_id x NN).
  apply (comp_residual_lemma n ids vin cin cout xprev x LC LX AX k Hk).
Qed.
