(* Round 6: state read through caches between calls: link / unlink / imass histories before a moisture adjustment,
   and the class-level phase index caches of a multi_stream reused by separations.vle. *)
From V Require Import Common.NumFacts C20.Model C20.Proofs.
Require Import Lia Lqa.
Open Scope Q_scope.

(* ---------- (a) link / unlink / imass ---------- *)
Lemma lstep_view_ok s o : view_okb s = true -> view_okb (lstep s o) = true.
Proof.
  intros H. unfold view_okb in *. destruct o; cbn [lstep view_target ls_view ls_data].
  - exact H.
  - exact H.
  - apply Nat.eqb_refl.
Qed.

Lemma lrun_view_ok ops : forall s, view_okb s = true -> view_okb (lrun s ops) = true.
Proof.
  unfold lrun. induction ops as [|o t IH]; intros s H; cbn [fold_left].
  - exact H.
  - apply IH. apply lstep_view_ok. exact H.
Qed.

Lemma linit_view_ok : view_okb linit = true.
Proof. reflexivity. Qed.

Lemma adjust_moisture_hist_is_adjust mws R P opsR opsP w mc bm mwc strict :
  adjust_moisture_hist mws R P opsR opsP w mc bm mwc strict = Some (adjust_moisture mws R P w mc bm mwc strict).
Proof.
  unfold adjust_moisture_hist.
  rewrite (lrun_view_ok opsR linit linit_view_ok), (lrun_view_ok opsP linit linit_view_ok).
  rewrite Bool.orb_true_r. reflexivity.
Qed.

Lemma mix_and_split_with_moisture_hist_is n mws ins split opsR opsP w mc bm mwc strict :
  mix_and_split_with_moisture_hist n mws ins split opsR opsP w mc bm mwc strict
  = Some (mix_and_split_with_moisture n mws ins split w mc bm mwc strict).
Proof.
  unfold mix_and_split_with_moisture_hist.
  rewrite (lrun_view_ok opsR linit linit_view_ok), (lrun_view_ok opsP linit linit_view_ok).
  rewrite Bool.orb_true_r. reflexivity.
Qed.

(* ---------- (b) phase index caches ---------- *)
Lemma blist_eqb_eq (a b : list bool) : blist_eqb a b = true -> a = b.
Proof.
  unfold blist_eqb. revert b; induction a as [|x a IH]; intros [|y b] H; simpl in H; try discriminate; auto.
  apply andb_true_iff in H. destruct H as [H1 H2]. apply Bool.eqb_prop in H1. subst. f_equal. apply IH; exact H2.
Qed.

Definition cache_valid (key : list bool) (c : pcache) : Prop := forall p r, pc_find c p = Some r -> r = pos_of key p.
Definition caches_valid (cs : pcaches) : Prop := forall key, cache_valid key (caches_get cs key).
Definition vs_inv (s : vstate) : Prop := vs_ckey s = vs_present s /\ caches_valid (vs_caches s).
Definition vs_wf (s : vstate) : Prop :=
  vs_inv s /\ length (vs_present s) = 4%nat /\ nthb (vs_present s) 1 = true /\ nthb (vs_present s) 2 = true.

Lemma caches_valid_nil : caches_valid [].
Proof. intros key p r H. discriminate H. Qed.

Lemma caches_valid_put cs key p c :
  caches_valid cs -> c = caches_get cs key -> caches_valid ((key, (p, pos_of key p) :: c) :: cs).
Proof.
  intros Hv Hc key' q r. cbn [caches_get].
  destruct (blist_eqb key key') eqn:E.
  - apply blist_eqb_eq in E. subst key'. cbn [pc_find].
    destruct (Nat.eqb p q) eqn:Epq.
    + apply Nat.eqb_eq in Epq. subst q. intros H. injection H as H. subst r. reflexivity.
    + subst c. apply Hv.
  - apply Hv.
Qed.

Lemma vs_index_spec s p :
  vs_inv s ->
  fst (vs_index s p) = pos_of (vs_present s) p /\ vs_inv (snd (vs_index s p)) /\
  vs_present (snd (vs_index s p)) = vs_present s /\ vs_rows (snd (vs_index s p)) = vs_rows s.
Proof.
  intros [Hk Hv]. unfold vs_index.
  destruct (pc_find (caches_get (vs_caches s) (vs_ckey s)) p) as [r|] eqn:E; cbn [fst snd].
  - repeat split; auto. rewrite <- Hk. apply (Hv (vs_ckey s) p r E).
  - cbn [vs_present vs_rows]. repeat split; auto.
    cbn [vs_caches vs_ckey vs_present]. rewrite <- Hk. apply caches_valid_put; auto.
Qed.

Lemma phase_at_pos present p :
  length present = 4%nat -> (p < 4)%nat -> in_indexer present p = true ->
  phase_at present (pos_of present p) = Some (row_of present p).
Proof.
  intros HL Hp Hin.
  destruct present as [|a [|b [|c [|d [|? ?]]]]]; try discriminate HL.
  destruct p as [|[|[|[|p]]]]; try lia;
    destruct a, b, c, d; try discriminate Hin; reflexivity.
Qed.

Lemma vs_read_spec s p :
  vs_inv s -> length (vs_present s) = 4%nat -> (p < 4)%nat -> in_indexer (vs_present s) p = true ->
  exists s', vs_read s p = (Ok (nthv (vs_rows s) (row_of (vs_present s) p)), s') /\ vs_inv s' /\
             vs_present s' = vs_present s /\ vs_rows s' = vs_rows s.
Proof.
  intros Hi HL Hp Hin. unfold vs_read.
  destruct (vs_index_spec s p Hi) as (H1 & H2 & H3 & H4).
  destruct (vs_index s p) as [r s'] eqn:E. cbn [fst snd] in *.
  exists s'. rewrite H3, H1, (phase_at_pos _ _ HL Hp Hin), H4. auto.
Qed.

Lemma vs_expand_spec s o :
  vs_inv s -> length (vs_present s) = 4%nat ->
  vs_inv (vs_expand s o) /\ length (vs_present (vs_expand s o)) = 4%nat /\
  (forall p, nthb (vs_present s) p = true -> (p < 4)%nat -> nthb (vs_present (vs_expand s o)) p = true).
Proof.
  intros [Hk Hv] HL. unfold vs_expand.
  destruct (existsb _ all_phases); [|repeat split; auto].
  cbn [vs_present vs_ckey vs_caches]. repeat split; auto.
  intros p Hp Hlt. destruct p as [|[|[|[|p]]]]; try lia; unfold nthb in *; cbn; unfold nthb; rewrite Hp; reflexivity.
Qed.

Lemma vs_copy_like_spec n s f :
  vs_wf s -> vs_wf (vs_copy_like n s f).
Proof.
  intros (Hi & HL & Hg & Hl).
  assert (Hexp : forall o, vs_wf (vs_expand s o)).
  { intros o. destruct (vs_expand_spec s o Hi HL) as (A & B & C). repeat split; try apply A; auto; apply C; auto. }
  destruct f as [k v | fp frows]; cbn [vs_copy_like].
  - destruct (in_indexer (vs_present s) k).
    + unfold vs_wf, vs_inv in *. cbn [vs_present vs_ckey vs_caches]. tauto.
    + specialize (Hexp (map (Nat.eqb k) all_phases)). unfold vs_wf, vs_inv in *. cbn [vs_present vs_ckey vs_caches]. tauto.
  - destruct (blist_eqb fp (vs_present s)).
    + unfold vs_wf, vs_inv in *. cbn [vs_present vs_ckey vs_caches]. tauto.
    + destruct (list_eqb Nat.eqb (compat fp) (compat (vs_present s))).
      * unfold vs_wf, vs_inv in *. cbn [vs_present vs_ckey vs_caches]. tauto.
      * specialize (Hexp fp). unfold vs_wf, vs_inv in *. cbn [vs_present vs_ckey vs_caches]. tauto.
Qed.

Lemma nthv_upd_same (l : list vec) i x : (i < length l)%nat -> nthv (upd l i x) i = x.
Proof.
  unfold nthv. intros H. pose proof (nth_error_upd_same l i x H) as E.
  apply nth_error_nth with (d := []) in E. exact E.
Qed.
Lemma nthv_upd_other (l : list vec) i j x : i <> j -> nthv (upd l i x) j = nthv l j.
Proof.
  unfold nthv. intros H. pose proof (nth_error_upd_other l i j x H) as E.
  revert E. generalize (upd l i x). intros l' E.
  destruct (nth_error l j) eqn:E2.
  - rewrite (nth_error_nth _ _ _ E), (nth_error_nth _ _ _ E2). reflexivity.
  - rewrite (nth_overflow l), (nth_overflow l'); auto; apply nth_error_None; auto.
Qed.

(* rows the flash may be handed back: at least the slots of g and l exist *)
Definition vcall_wf (n : nat) (s : vstate) (c : vcall) : Prop :=
  vc_keep c = true -> (3 <= length (vs_rows (vs_copy_like n s (vc_feed c))))%nat.

Lemma vle_call_spec n s c :
  vs_wf s -> vcall_wf n s c ->
  exists s', vle_call n s c = (Ok (vc_eq c (vs_seen (vs_copy_like n s (vc_feed c)))),
                               vs_seen (vs_copy_like n s (vc_feed c)), s') /\ vs_wf s'.
Proof.
  intros Hwf Hc. unfold vle_call.
  pose proof (vs_copy_like_spec n s (vc_feed c) Hwf) as (Hi & HL & Hg & Hl).
  set (s1 := vs_copy_like n s (vc_feed c)) in *.
  destruct (vc_eq c (vs_seen s1)) as [g l] eqn:Eeq.
  set (base := if vc_keep c then vs_rows s1 else zero_rows n).
  assert (Hb : (3 <= length base)%nat).
  { unfold base. destruct (vc_keep c) eqn:K; [apply Hc; auto | unfold zero_rows; rewrite repeat_length; lia]. }
  set (s2 := mkVS (vs_present s1) (upd (upd base 1 g) 2 l) (vs_ckey s1) (vs_caches s1)).
  assert (Hi2 : vs_inv s2) by exact Hi.
  destruct (vs_read_spec s2 1%nat Hi2 HL ltac:(lia)) as (s3 & E3 & Hi3 & Hp3 & Hr3).
  { unfold in_indexer. cbn [vs_present s2]. rewrite Hg. reflexivity. }
  rewrite E3.
  assert (HL3 : length (vs_present s3) = 4%nat) by (rewrite Hp3; exact HL).
  destruct (vs_read_spec s3 2%nat Hi3 HL3 ltac:(lia)) as (s4 & E4 & Hi4 & Hp4 & Hr4).
  { unfold in_indexer. rewrite Hp3. cbn [vs_present s2]. rewrite Hl. reflexivity. }
  rewrite E4. exists s4. split.
  - rewrite Hr3, Hp3. cbn [vs_rows vs_present s2]. unfold row_of. rewrite Hg, Hl.
    rewrite nthv_upd_same by (rewrite upd_length; lia).
    rewrite nthv_upd_other by lia. rewrite nthv_upd_same by lia. reflexivity.
  - repeat split; try apply Hi4; rewrite ?Hp4, ?Hp3; auto.
Qed.

(* every call of any history returns exactly the g and l rows the flash wrote for that call *)
Fixpoint vhist_wf (n : nat) (s : vstate) (cs : list vcall) : Prop :=
  match cs with
  | [] => True
  | c :: t => vcall_wf n s c /\ vhist_wf n (snd (vle_call n s c)) t
  end.

Fixpoint vhist_spec (n : nat) (s : vstate) (cs : list vcall) (out : list (res (vec * vec) * list vec)) : Prop :=
  match cs, out with
  | [], [] => True
  | c :: t, (r, seen) :: o =>
    seen = vs_seen (vs_copy_like n s (vc_feed c)) /\ r = Ok (vc_eq c seen) /\ vhist_spec n (snd (vle_call n s c)) t o
  | _, _ => False
  end.

Lemma vle_hist_spec n cs : forall s, vs_wf s -> vhist_wf n s cs -> vhist_spec n s cs (vle_hist n s cs).
Proof.
  induction cs as [|c t IH]; intros s Hwf Hh; cbn [vle_hist vhist_spec]; auto.
  destruct Hh as [Hc Ht].
  destruct (vle_call_spec n s c Hwf Hc) as (s' & E & Hwf').
  rewrite E in *. cbn [snd] in *. cbn [vhist_spec]. repeat split; auto.
Qed.

Lemma vinit_wf present rows caches :
  length present = 4%nat -> nthb present 1 = true -> nthb present 2 = true -> caches_valid caches ->
  vs_wf (vinit present rows caches).
Proof. intros. unfold vs_wf, vs_inv, vinit. cbn. auto. Qed.

(* conservation per call under the flash contract *)
Lemma vle_call_conserves n s c s' top bot seen total :
  vle_call n s c = (Ok (top, bot), seen, s') -> vs_wf s -> vcall_wf n s c ->
  (forall rows, let '(g, l) := vc_eq c rows in veq (vadd g l) total) ->
  veq (vadd top bot) total.
Proof.
  intros E Hwf Hc Hcontract.
  destruct (vle_call_spec n s c Hwf Hc) as (s'' & E' & _).
  rewrite E in E'. injection E' as E1 E2 E3.
  specialize (Hcontract (vs_seen (vs_copy_like n s (vc_feed c)))).
  rewrite <- E1 in Hcontract. exact Hcontract.
Qed.
